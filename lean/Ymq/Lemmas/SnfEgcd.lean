/-
Bezout property of the model of `num_integer::Integer::extended_gcd` on `i128`
(`Ymq.Arith.extendedGcd`, Ymq/Model/Arith.lean), as used by `SmithNormalForm::{normalize, eliminate}`.
-/
import Ymq.Model.Arith
import Mathlib.Tactic.Ring
import Mathlib.Tactic.Linarith
import Mathlib.Data.Int.GCD

namespace Ymq.Snf
open Ymq.Arith

theorem chk128_val {x y : Int} (h : chk128 x = some y) : y = x := by
  unfold chk128 at h
  split at h
  · exact (Option.some.inj h).symm
  · exact absurd h (by simp)

theorem subMul_val {a q b r : Int} (h : subMul a q b = some r) : r = a - q * b := by
  unfold subMul at h
  split at h
  · exact absurd h (by simp)
  · rename_i m hm
    rw [chk128_val h, chk128_val hm]

/-- loop invariant: both remainders are combinations of the inputs and their gcd is the gcd of the
inputs -/
theorem egcdLoop_inv (a b : Int) : ∀ (f : Nat) (s0 s1 t0 t1 r0 r1 g x y : Int),
    egcdLoop f s0 s1 t0 t1 r0 r1 = some (g, x, y) →
    r0 = s0 * a + t0 * b → r1 = s1 * a + t1 * b → Int.gcd r0 r1 = Int.gcd a b →
    g = x * a + y * b ∧ g.natAbs = Int.gcd a b
  | 0, _, _, _, _, _, _, _, _, _, h, _, _, _ => by simp [egcdLoop] at h
  | f + 1, s0, s1, t0, t1, r0, r1, g, x, y, h, h0, h1, hg => by
    unfold egcdLoop at h
    split at h
    · rename_i hr0
      have := Option.some.inj h
      simp only [Prod.mk.injEq] at this
      obtain ⟨e1, e2, e3⟩ := this
      subst e1; subst e2; subst e3
      refine ⟨h1, ?_⟩
      rw [← hg, hr0]; simp
    · split at h
      · exact absurd h (by simp)
      · simp only [] at h
        split at h
        · rename_i r0' s0' t0' hr hs ht
          have er := subMul_val hr
          have es := subMul_val hs
          have et := subMul_val ht
          apply egcdLoop_inv a b f s0' s0 t0' t0 r0' r0 g x y h
          · rw [er, es, et, h0, h1]; ring
          · exact h0
          · rw [er, ← hg]
            rw [Int.gcd_comm r0 r1]
            have : r1 - Int.tdiv r1 r0 * r0 = r1 + r0 * (-(Int.tdiv r1 r0)) := by ring
            rw [this, Int.gcd_add_mul_left_left]
        · exact absurd h (by simp)

/-- `extended_gcd(a, b) = (g, x, y)`: `x·a + y·b = g = gcd(a, b) ≥ 0`. -/
theorem extendedGcd_bezout {a b g x y : Int} (h : extendedGcd a b = some (g, x, y)) :
    x * a + y * b = g ∧ 0 ≤ g ∧ g ∣ a ∧ g ∣ b := by
  unfold extendedGcd at h
  split at h
  · exact absurd h (by simp)
  · rename_i g0 x0 y0 hl
    obtain ⟨e1, e2⟩ := egcdLoop_inv a b _ 0 1 1 0 b a g0 x0 y0 hl (by ring) (by ring) (Int.gcd_comm b a)
    have hdvd : ∀ z : Int, z.natAbs = Int.gcd a b → z ∣ a ∧ z ∣ b := by
      intro z hz
      constructor
      · have : ((Int.gcd a b : Nat) : Int) ∣ a := Int.gcd_dvd_left a b
        rw [← hz] at this
        exact Int.natAbs_dvd.mp this
      · have : ((Int.gcd a b : Nat) : Int) ∣ b := Int.gcd_dvd_right a b
        rw [← hz] at this
        exact Int.natAbs_dvd.mp this
    split at h
    · rename_i hpos
      have := Option.some.inj h
      simp only [Prod.mk.injEq] at this
      obtain ⟨r1, r2, r3⟩ := this
      subst r1; subst r2; subst r3
      exact ⟨e1.symm, hpos, hdvd _ e2⟩
    · rename_i hneg
      split at h
      · rename_i g' x' y' hg' hx' hy'
        have := Option.some.inj h
        simp only [Prod.mk.injEq] at this
        obtain ⟨r1, r2, r3⟩ := this
        subst r1; subst r2; subst r3
        have eg := chk128_val hg'
        have ex := chk128_val hx'
        have ey := chk128_val hy'
        refine ⟨by rw [eg, ex, ey, e1]; ring, by rw [eg]; omega, ?_⟩
        apply hdvd
        rw [eg, ← e2]; simp
      · exact absurd h (by simp)

end Ymq.Snf
