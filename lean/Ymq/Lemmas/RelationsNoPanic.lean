/-
`add_no_panic` (C11): inside the callers' contract `InputOK2`, on a store satisfying `Inv` and
`Inv2`, `add` reaches no assertion, no `unwrap`/index failure, no debug assertion, and never runs
out of the recursion fuel the model gives it; the only error left is `.overflow` of a `u64`
exponent / cycle-length counter (unreachable in practice: each add increases them by bounded
amounts).
-/
import Ymq.Lemmas.RelationsInv2

namespace Ymq.Relations

/-- "no panic": the only possible error is an arithmetic overflow of a counter -/
def NP {α : Type} (x : M α) : Prop := ∀ e, x = .error e → e = .overflow

theorem NP_ok {α : Type} (a : α) : NP (.ok a : M α) := by intro e h; cases h

theorem NP_pure {α : Type} (a : α) : NP (pure a : M α) := NP_ok a

theorem NP_overflow {α : Type} : NP (throw .overflow : M α) := by
  intro e h
  simp only [throw, throwThe, MonadExceptOf.throw] at h
  cases h; rfl

theorem NP_bind {α β : Type} {x : M α} {f : α → M β} (hx : NP x)
    (hf : ∀ a, x = .ok a → NP (f a)) : NP (x >>= f) := by
  cases x with
  | error e0 =>
    intro e h
    simp only [bind, Except.bind] at h
    cases h
    exact hx e0 rfl
  | ok a => exact hf a rfl

theorem ok_bind {α β : Type} (a : α) (f : α → M β) : ((.ok a : M α) >>= f) = f a := rfl

/-! ### total pieces -/

theorem packFactors_total : ∀ (fs : List (Int × Nat)), FOK fs → ∃ ints, packFactors fs = .ok ints := by
  intro fs
  induction fs with
  | nil => intro _; exact ⟨[], rfl⟩
  | cons f t ih =>
    obtain ⟨p, k⟩ := f
    intro hf
    rw [FOK_cons] at hf
    obtain ⟨l, hl⟩ := ih hf.2
    rw [packFactors_cons]
    by_cases hp : p = -1
    · rw [if_pos hp]
      split
      · exact ⟨l, hl⟩
      · rw [hl]; exact ⟨0 :: l, rfl⟩
    · rw [if_neg hp]
      rcases hf.1 with h1 | ⟨h0, h32, hk, hodd⟩
      · exact absurd h1 hp
      · simp only at h0 h32 hk hodd
        rw [if_neg (not_not.mpr ⟨h0, h32, hk⟩)]
        have hpn : (p.toNat : Int) = p := Int.toNat_of_nonneg (le_of_lt h0)
        have : (if p = 2 then 1 else p.toNat) % 2 = 1 := by
          split
          · rfl
          · rcases hodd with hodd | hodd
            · contradiction
            · omega
        rw [if_neg (not_not.mpr this), hl]
        simp only [ok_bind]
        split
        · exact ⟨_, rfl⟩
        · exact ⟨_, rfl⟩

theorem pack_total {r : Relation} (hf : FOK r.factors) : ∃ b, pack r = .ok b := by
  obtain ⟨l, hl⟩ := packFactors_total _ hf
  unfold pack packInts
  rw [hl]
  exact ⟨_, rfl⟩

theorem addCycle_total {r : Relation} (s : Store) (hc : r.cofactor = 1) (hl : 0 < r.cyclelen) :
    ∃ s', addCycle r s = .ok s' := by
  unfold addCycle
  rw [if_neg (by simpa using hc), if_neg (by omega)]
  exact ⟨_, rfl⟩

theorem bump_np (p : Int) (k : Nat) : ∀ (fs : List (Int × Nat)), NP (bump p k fs) := by
  intro fs
  induction fs with
  | nil => exact NP_pure _
  | cons f t ih =>
    obtain ⟨p', k'⟩ := f
    unfold bump
    split
    · split
      · exact NP_pure _
      · exact NP_overflow
    · exact NP_bind ih (fun _ _ => NP_pure _)

theorem mergeFactors_np : ∀ (fs acc : List (Int × Nat)), NP (mergeFactors acc fs) := by
  intro fs
  induction fs with
  | nil => intro acc; exact NP_pure _
  | cons f t ih =>
    obtain ⟨p, k⟩ := f
    intro acc
    unfold mergeFactors
    split
    · exact NP_bind (bump_np p k acc) (fun acc' _ => ih acc')
    · exact ih _

theorem combine_np {n : Nat} {r1 r2 : Relation} (hn : 0 < n) (hc : r2.cofactor ≠ 0)
    (hd : r1.cofactor % r2.cofactor = 0) : NP (combine n r1 r2) := by
  unfold combine
  refine NP_bind (mergeFactors_np _ _) (fun fs _ => ?_)
  rw [if_neg hc, if_pos hd, if_neg (by omega)]
  split
  · exact NP_pure _
  · exact NP_overflow

/-! ### `verify` accepts every combined relation -/

theorem verifyLoop_total (n len : Nat) (hn : 0 < n) : ∀ (fs : List (Int × Nat)) (prod : Nat),
    prod ≤ n → (∀ f ∈ fs, f.1 = -1 ∨ 0 < f.1) →
    ∃ out, verifyLoop n len fs prod = .ok out ∧ out ≤ n ∧
      ((∃ f, fs.getLast? = some f ∧ 0 < f.1) → out < n) := by
  intro fs
  induction fs with
  | nil =>
    intro prod hp _
    exact ⟨prod, rfl, hp, fun ⟨f, hf, _⟩ => by simp at hf⟩
  | cons f t ih =>
    obtain ⟨p, k⟩ := f
    intro prod hp hpos
    have hpt : ∀ f ∈ t, f.1 = -1 ∨ 0 < f.1 := fun f hf => hpos f (List.mem_cons_of_mem _ hf)
    have hlast : ∀ out, (∃ f, t.getLast? = some f ∧ 0 < f.1) ∨ (t = [] ∧ 0 < p ∧ out < n) ∨
        ¬ (∃ f, ((p, k) :: t).getLast? = some f ∧ 0 < f.1) ∨ True := fun _ => Or.inr (Or.inr (Or.inr trivial))
    clear hlast
    -- how the last element of (p,k) :: t relates to t
    have hl : (∃ f, ((p, k) :: t).getLast? = some f ∧ 0 < f.1) →
        (t = [] ∧ 0 < p) ∨ (∃ f, t.getLast? = some f ∧ 0 < f.1) := by
      rintro ⟨f, hf, hf0⟩
      cases t with
      | nil =>
        simp only [List.getLast?_singleton, Option.some.injEq] at hf
        subst hf; exact Or.inl ⟨rfl, hf0⟩
      | cons a t' =>
        rw [List.getLast?_cons_cons] at hf
        exact Or.inr ⟨f, hf, hf0⟩
    unfold verifyLoop
    by_cases hm : p = -1
    · rw [if_pos hm]
      have hnotpos : ¬ (0 < p) := by omega
      split
      · rw [if_neg (by omega)]
        obtain ⟨out, h1, h2, h3⟩ := ih (n - prod) (Nat.sub_le _ _) hpt
        refine ⟨out, h1, h2, fun hx => ?_⟩
        rcases hl hx with ⟨_, h0⟩ | hx'
        · exact absurd h0 hnotpos
        · exact h3 hx'
      · obtain ⟨out, h1, h2, h3⟩ := ih prod hp hpt
        refine ⟨out, h1, h2, fun hx => ?_⟩
        rcases hl hx with ⟨_, h0⟩ | hx'
        · exact absurd h0 hnotpos
        · exact h3 hx'
    · rw [if_neg hm]
      have hp0 : 0 < p := by
        rcases hpos (p, k) List.mem_cons_self with h | h
        · exact absurd h hm
        · exact h
      rw [if_pos (Or.inl hp0), if_neg (by omega)]
      have hlt : prod * powMod (toU64 p) k n % n < n := Nat.mod_lt _ hn
      obtain ⟨out, h1, h2, h3⟩ := ih _ (le_of_lt hlt) hpt
      refine ⟨out, h1, h2, fun hx => ?_⟩
      rcases hl hx with ⟨ht, _⟩ | hx'
      · subst ht
        simp only [verifyLoop, pure_eq_ok] at h1
        rw [← h1]; exact hlt
      · exact h3 hx'

theorem verify_complete {n : Nat} {r : Relation} (hn : 0 < n) (hv : Valid n r)
    (hty : TypedF r.factors) (hc : r.cofactor ≤ n) (hpos : ∀ f ∈ r.factors, f.1 = -1 ∨ 0 < f.1)
    (hlast : ∃ f, r.factors.getLast? = some f ∧ 0 < f.1) : verify n r = .ok true := by
  obtain ⟨out, h1, _, h3⟩ := verifyLoop_total n r.factors.length hn r.factors r.cofactor hc hpos
  have hlt := h3 hlast
  have hs := verifyLoop_spec n _ _ _ _ hty h1
  unfold verify
  rw [h1]
  simp only [ok_bind]
  rw [if_neg (by omega)]
  have : r.x * r.x % n = out := by
    unfold Valid at hv
    have hz : ((r.x * r.x : Nat) : Int) ≡ (out : Int) [ZMOD n] := by
      push_cast; exact hv.trans hs.symm
    have := Int.natCast_modEq_iff.mp hz
    unfold Nat.ModEq at this
    rw [this, Nat.mod_eq_of_lt hlt]
  rw [this]
  simp [pure, Except.pure]

theorem factorOK_pos {f : Int × Nat} (h : FactorOK f) : f.1 = -1 ∨ 0 < f.1 := by
  rcases h with h | h
  · exact Or.inl h
  · exact Or.inr h.1

/-! ### `combine_single` -/

theorem cof_one_of_mul {c p : Nat} (h : c * p = p) (hp : 0 < p) : c = 1 := by
  have : c * p = 1 * p := by rw [h, one_mul]
  exact Nat.eq_of_mul_eq_mul_right hp this

theorem combineSingle_np {r : Relation} {s : Store} (hi : Inv s) (hi2 : Inv2 s) (hn : 0 < s.n)
    (hr : RelOK2 r) (hrv : Valid s.n r) : NP (combineSingle r s) := by
  unfold combineSingle
  split
  · exact NP_pure _
  · rename_i blob hlook
    obtain ⟨hk1, hk32, r0, hu, hc0, hv0⟩ := hi.par _ (alookup_mem hlook)
    obtain ⟨hl, hg⟩ := hi2.par _ (alookup_mem hlook)
    simp only at hk1 hk32 hu hc0 hv0 hl hg
    have g0 := relOK2_of_unpack hu hg
    rw [hu]
    simp only [ok_bind]
    have hkpos : 0 < r.cofactor := by have := hl.1; omega
    refine NP_bind (combine_np hn (by rw [hc0]; omega) (by rw [hc0]; exact Nat.mod_self _))
      (fun rr hrr => ?_)
    have h3 := combine_stored hrr hrv hr.typed hr.noOne hv0 g0.typed g0.noOne hc0
      (Nat.mod_self _) hk1 hk32
    have h4 := combine_stored2 hrr hr.fok g0.fok hc0 (Nat.mod_self _) hl
    have hcof : rr.cofactor = 1 := cof_one_of_mul h3.2.2.2.2 hkpos
    split
    · exact NP_pure _
    · have hver : verify s.n rr = .ok true := by
        refine verify_complete hn h3.1 h3.2.1.2.2 (by rw [hcof]; exact hn)
          (fun f hf => factorOK_pos (h4.1 f hf)) ?_
        obtain ⟨_, _, fs, _, hf⟩ := combine_divisor hrr
        refine ⟨_, by rw [hf, List.getLast?_concat], ?_⟩
        have hd : divisorCof r r0 = r.cofactor := by
          unfold divisorCof; rw [hc0, if_pos (Nat.mod_self _)]
        rw [hd, toI64_small (W32_lt_I63 hk32)]
        show (0 : Int) < (r.cofactor : Int)
        exact_mod_cast hkpos
      rw [hver]
      simp only
      obtain ⟨s1, hs1⟩ := addCycle_total s hcof (by rw [h4.2]; have := hr.clen; omega)
      rw [hs1]
      simp only [ok_bind]
      split
      · obtain ⟨b, hb⟩ := pack_total hr.fok
        rw [hb]; exact NP_ok _
      · exact NP_pure _

/-! ### `combine_double`, `walk_doubles` -/

/-- everything the recursion needs to know about the inner walk (fuel `f`) -/
structure WalkAll (walk : Nat → Store → M Store) (f : Nat) : Prop where
  np : ∀ root s, Inv s → Inv2 s → s.n ≤ X512 → 0 < s.n → pkey s root → s.doubles.length < f →
    NP (walk root s)
  keeps : WalkKeeps' walk
  inv2 : WalkInv2 walk
  mono : ∀ root s s', walk root s = .ok s' → Mono s s'

theorem combineDouble_np {walk : Nat → Store → M Store} {f : Nat} (hw : WalkAll walk f)
    {r : Relation} {p q : Nat} {s : Store} (hi : Inv s) (hi2 : Inv2 s) (hn : s.n ≤ X512)
    (hn0 : 0 < s.n) (hr : RelOK2 r) (hrv : Valid s.n r) (hc : r.cofactor = p * q)
    (hp : LargeOK p) (hq : LargeOK q) (hlen : s.doubles.length < f) :
    NP (combineDouble walk r p q s) := by
  have hp1 := hp.ne1
  have hq1 := hq.ne1
  have hp32 := hp.lt32
  have hq32 := hq.lt32
  have hp0 : 0 < p := by have := hp.1; omega
  have hq0 : 0 < q := by have := hq.1; omega
  obtain ⟨hrt, hrn, hrf, hrl, hrte⟩ := hr
  unfold combineDouble
  split
  · obtain ⟨s1, hs1⟩ := addCycle_total (r := { r with cofactor := 1, factors := r.factors ++ [(toI64 p, 2)] })
      s rfl hrl
    rw [hs1]; exact NP_ok _
  · split
    · rename_i bp bq hlp hlq
      obtain ⟨_, _, rp, hup, hcp, hvp⟩ := hi.par _ (alookup_mem hlp)
      obtain ⟨_, _, rq, huq, hcq, hvq⟩ := hi.par _ (alookup_mem hlq)
      simp only at hup hcp hvp huq hcq hvq
      have gp := relOK2_of_unpack hup (hi2.par _ (alookup_mem hlp)).2
      have gq := relOK2_of_unpack huq (hi2.par _ (alookup_mem hlq)).2
      rw [hup, huq]
      simp only [ok_bind]
      have hmodp : r.cofactor % p = 0 := by rw [hc]; exact Nat.mul_mod_right _ _
      have hmodq : r.cofactor % q = 0 := by rw [hc]; exact Nat.mul_mod_left _ _
      refine NP_bind (combine_np hn0 (by rw [hcp]; omega) (by rw [hcp]; exact hmodp)) (fun r1 hr1 => ?_)
      have h1 := combine_stored hr1 hrv hrt hrn hvp gp.typed gp.noOne hcp hmodp hp1 hp32
      have h1' := combine_stored2 hr1 hrf gp.fok hcp hmodp hp
      have hr1c : r1.cofactor = q := by
        have := h1.2.2.2.2
        rw [hc, Nat.mul_comm p q] at this
        exact Nat.eq_of_mul_eq_mul_right hp0 this
      refine NP_bind (combine_np hn0 (by rw [hcq]; omega) (by rw [hcq, hr1c]; exact Nat.mod_self _))
        (fun r2 hr2 => ?_)
      have h2 := combine_stored hr2 h1.1 h1.2.1 h1.2.2.1 hvq gq.typed gq.noOne hcq
        (by rw [hr1c]; exact Nat.mod_self _) hq1 hq32
      have h2' := combine_stored2 hr2 h1'.1 gq.fok hcq (by rw [hr1c]; exact Nat.mod_self _) hq
      have hr2c : r2.cofactor = 1 := by
        have := h2.2.2.2.2
        rw [hr1c] at this
        exact cof_one_of_mul this hq0
      obtain ⟨s1, hs1⟩ := addCycle_total s hr2c (by rw [h2'.2, h1'.2]; omega)
      rw [hs1]
      simp only [ok_bind]
      split
      · refine NP_bind (combine_np hn0 (by rw [hcp]; omega) (by rw [hcp]; exact hmodp)) (fun rpq hrpq => ?_)
        have h3 := combine_stored hrpq hrv hrt hrn hvp gp.typed gp.noOne hcp hmodp hp1 hp32
        have h3' := combine_stored2 hrpq hrf gp.fok hcp hmodp hp
        have : rpq.cofactor = q := by
          have := h3.2.2.2.2
          rw [hc, Nat.mul_comm p q] at this
          exact Nat.eq_of_mul_eq_mul_right hp0 this
        rw [if_neg (by simpa using this)]
        obtain ⟨b, hb⟩ := pack_total h3'.1
        rw [hb]; exact NP_ok _
      · split
        · refine NP_bind (combine_np hn0 (by rw [hcq]; omega) (by rw [hcq]; exact hmodq)) (fun rqp hrqp => ?_)
          have h3 := combine_stored hrqp hrv hrt hrn hvq gq.typed gq.noOne hcq hmodq hq1 hq32
          have h3' := combine_stored2 hrqp hrf gq.fok hcq hmodq hq
          have : rqp.cofactor = p := by
            have := h3.2.2.2.2
            rw [hc] at this
            exact Nat.eq_of_mul_eq_mul_right hq0 this
          rw [if_neg (by simpa using this)]
          obtain ⟨b, hb⟩ := pack_total h3'.1
          rw [hb]; exact NP_ok _
        · exact NP_pure _
    · rename_i bp hlp hlq
      obtain ⟨_, _, rp, hup, hcp, hvp⟩ := hi.par _ (alookup_mem hlp)
      simp only at hup hcp hvp
      have gp := relOK2_of_unpack hup (hi2.par _ (alookup_mem hlp)).2
      rw [hup]
      simp only [ok_bind]
      have hmodp : r.cofactor % p = 0 := by rw [hc]; exact Nat.mul_mod_right _ _
      refine NP_bind (combine_np hn0 (by rw [hcp]; omega) (by rw [hcp]; exact hmodp)) (fun rq hrq => ?_)
      have h3 := combine_stored hrq hrv hrt hrn hvp gp.typed gp.noOne hcp hmodp hp1 hp32
      have h3' := combine_stored2 hrq hrf gp.fok hcp hmodp hp
      have hcof : rq.cofactor = q := by
        have := h3.2.2.2.2
        rw [hc, Nat.mul_comm p q] at this
        exact Nat.eq_of_mul_eq_mul_right hp0 this
      rw [if_neg (by simpa using hcof)]
      obtain ⟨b, hb⟩ := pack_total h3'.1
      rw [hb]
      simp only [ok_bind]
      have hi0 : Inv { s with nCombined12 := s.nCombined12 + 1 } := ⟨hi.cyc, hi.par, hi.dbl, hi.rev⟩
      have hi20 : Inv2 { s with nCombined12 := s.nCombined12 + 1 } := ⟨hi2.par, hi2.dbl, hi2.cyc⟩
      have hI : Inv ({ s with nCombined12 := s.nCombined12 + 1 }.setPartial q b) := by
        refine inv_setPartial hi0 hq1 hq32 ?_
        rw [← hcof]
        exact goodP_of_pack hb h3.2.1 h3.2.2.1 (lt_of_lt_of_le h3.2.2.2.1 hn) h3.1
      have hI2 : Inv2 ({ s with nCombined12 := s.nCombined12 + 1 }.setPartial q b) :=
        inv2_setPartial hi20 hq (goodF_of_pack hb h3.2.1 h3.2.2.1 h3'.1 (by rw [h3'.2]; omega)
          (combine_tailEven hrq hrte))
      rw [Nat.mod_eq_of_lt hq32]
      exact NP_bind (hw.np q _ hI hI2 hn hn0 (pkey_setPartial.mpr (Or.inl rfl)) hlen)
        (fun _ _ => NP_pure _)
    · rename_i bq hlp hlq
      obtain ⟨_, _, rq, huq, hcq, hvq⟩ := hi.par _ (alookup_mem hlq)
      simp only at huq hcq hvq
      have gq := relOK2_of_unpack huq (hi2.par _ (alookup_mem hlq)).2
      rw [huq]
      simp only [ok_bind]
      have hmodq : r.cofactor % q = 0 := by rw [hc]; exact Nat.mul_mod_left _ _
      refine NP_bind (combine_np hn0 (by rw [hcq]; omega) (by rw [hcq]; exact hmodq)) (fun rp hrp => ?_)
      have h3 := combine_stored hrp hrv hrt hrn hvq gq.typed gq.noOne hcq hmodq hq1 hq32
      have h3' := combine_stored2 hrp hrf gq.fok hcq hmodq hq
      have hcof : rp.cofactor = p := by
        have := h3.2.2.2.2
        rw [hc] at this
        exact Nat.eq_of_mul_eq_mul_right hq0 this
      rw [if_neg (by simpa using hcof)]
      obtain ⟨b, hb⟩ := pack_total h3'.1
      rw [hb]
      simp only [ok_bind]
      have hi0 : Inv { s with nCombined12 := s.nCombined12 + 1 } := ⟨hi.cyc, hi.par, hi.dbl, hi.rev⟩
      have hi20 : Inv2 { s with nCombined12 := s.nCombined12 + 1 } := ⟨hi2.par, hi2.dbl, hi2.cyc⟩
      have hI : Inv ({ s with nCombined12 := s.nCombined12 + 1 }.setPartial p b) := by
        refine inv_setPartial hi0 hp1 hp32 ?_
        rw [← hcof]
        exact goodP_of_pack hb h3.2.1 h3.2.2.1 (lt_of_lt_of_le h3.2.2.2.1 hn) h3.1
      have hI2 : Inv2 ({ s with nCombined12 := s.nCombined12 + 1 }.setPartial p b) :=
        inv2_setPartial hi20 hp (goodF_of_pack hb h3.2.1 h3.2.2.1 h3'.1 (by rw [h3'.2]; omega)
          (combine_tailEven hrp hrte))
      rw [Nat.mod_eq_of_lt hp32]
      exact NP_bind (hw.np p _ hI hI2 hn hn0 (pkey_setPartial.mpr (Or.inl rfl)) hlen)
        (fun _ _ => NP_pure _)
    · exact NP_pure _

theorem walkStep_np {walk : Nat → Store → M Store} {f : Nat} (hw : WalkAll walk f)
    {p q : Nat} {s : Store} (hi : Inv s) (hi2 : Inv2 s) (hn : s.n ≤ X512) (hn0 : 0 < s.n)
    (hpk : pkey s p ∨ pkey s q) (hlen : s.doubles.length ≤ f) : NP (walkStep walk p q s) := by
  unfold walkStep
  split
  · exact NP_pure _
  · rename_i blob hlook
    obtain ⟨_, _, _, _, r, hu, hc, hv⟩ := hi.dbl _ (alookup_mem hlook)
    obtain ⟨hlp, hlq, hg⟩ := hi2.dbl _ (alookup_mem hlook)
    simp only at hu hc hv hlp hlq hg
    rw [hu]
    simp only [ok_bind]
    have hlt : (aerase (p, q) s.doubles).length < f :=
      lt_of_lt_of_le (aerase_length_lt (alookup_mem hlook)) hlen
    refine NP_bind (combineDouble_np hw (inv_erase_double hi p q) (inv2_erase_double hi2 p q) hn hn0
      (relOK2_of_unpack hu hg) hv hc hlp hlq hlt) (fun res hres => ?_)
    obtain ⟨_, _, hfalse⟩ := combineDouble_mono hw.mono (done := res.1) (s' := res.2) hres
    split
    · exact NP_pure _
    · rename_i hdone
      exfalso
      obtain ⟨_, hnp, hnq⟩ := hfalse (by simpa using hdone)
      rcases hpk with h | h
      · exact hnp h
      · exact hnq h

theorem walkLoop1_np {walk : Nat → Store → M Store} {f : Nat} (hw : WalkAll walk f) :
    ∀ (l : List (Nat × Nat)) (s : Store), Inv s → Inv2 s → s.n ≤ X512 → 0 < s.n →
      (∀ k ∈ l, pkey s k.1 ∨ pkey s k.2) → s.doubles.length ≤ f → NP (walkLoop1 walk l s) := by
  intro l
  induction l with
  | nil => intro s _ _ _ _ _ _; exact NP_pure _
  | cons e t ih =>
    obtain ⟨p, q⟩ := e
    intro s hi hi2 hn hn0 hpk hlen
    unfold walkLoop1
    refine NP_bind (walkStep_np hw hi hi2 hn hn0 (hpk (p, q) List.mem_cons_self) hlen)
      (fun s1 hs1 => ?_)
    have hk1 := walkStep_keeps hw.keeps hs1 hi hn
    obtain ⟨hm, _, _⟩ := walkStep_mono hw.mono hs1
    refine ih s1 hk1.2.2 (walkStep_inv2 hw.inv2 hs1 hi hi2 hn) (by rw [hk1.1]; exact hn)
      (by rw [hk1.1]; exact hn0) ?_ (Nat.le_trans hm.dlen hlen)
    intro k hk
    rcases hpk k (List.mem_cons_of_mem _ hk) with h | h
    · exact Or.inl (hm.pmono _ h)
    · exact Or.inr (hm.pmono _ h)

theorem walkLoop2_np {walk : Nat → Store → M Store} {f : Nat} (hw : WalkAll walk f) :
    ∀ (l : List (Nat × Nat)) (s : Store), Inv s → Inv2 s → s.n ≤ X512 → 0 < s.n →
      (∀ k ∈ l, pkey s k.1 ∨ pkey s k.2) → s.doubles.length ≤ f → NP (walkLoop2 walk l s) := by
  intro l
  induction l with
  | nil => intro s _ _ _ _ _ _; exact NP_pure _
  | cons e t ih =>
    obtain ⟨q, p⟩ := e
    intro s hi hi2 hn hn0 hpk hlen
    unfold walkLoop2
    refine NP_bind (walkStep_np hw hi hi2 hn hn0 ((hpk (q, p) List.mem_cons_self).symm) hlen)
      (fun s1 hs1 => ?_)
    have hk1 := walkStep_keeps hw.keeps hs1 hi hn
    obtain ⟨hm, _, _⟩ := walkStep_mono hw.mono hs1
    refine ih s1 hk1.2.2 (walkStep_inv2 hw.inv2 hs1 hi hi2 hn) (by rw [hk1.1]; exact hn)
      (by rw [hk1.1]; exact hn0) ?_ (Nat.le_trans hm.dlen hlen)
    intro k hk
    rcases hpk k (List.mem_cons_of_mem _ hk) with h | h
    · exact Or.inl (hm.pmono _ h)
    · exact Or.inr (hm.pmono _ h)

theorem walkRec_np {walk : Nat → Store → M Store} {f : Nat} (hw : WalkAll walk f) (root : Nat) :
    ∀ (l : List (Nat × Nat)) (s : Store), Inv s → Inv2 s → s.n ≤ X512 → 0 < s.n →
      (∀ k ∈ l, k.1 = root ∧ pkey s k.2) → s.doubles.length < f → NP (walkRec walk root l s) := by
  intro l
  induction l with
  | nil => intro s _ _ _ _ _ _; exact NP_pure _
  | cons e t ih =>
    obtain ⟨a, b⟩ := e
    intro s hi hi2 hn hn0 hl hlen
    obtain ⟨ha, hb⟩ := hl (a, b) List.mem_cons_self
    simp only at ha hb
    unfold walkRec
    rw [if_neg (by simpa using ha)]
    refine NP_bind (hw.np b s hi hi2 hn hn0 hb hlen) (fun s1 hs1 => ?_)
    have hk1 := hw.keeps _ _ _ hi hn hs1
    have hm := hw.mono _ _ _ hs1
    refine ih s1 hk1.2.2 (hw.inv2 _ _ _ hi hi2 hn hs1) (by rw [hk1.1]; exact hn)
      (by rw [hk1.1]; exact hn0) ?_ (lt_of_le_of_lt hm.dlen hlen)
    intro k hk
    obtain ⟨h1, h2⟩ := hl k (List.mem_cons_of_mem _ hk)
    exact ⟨h1, hm.pmono _ h2⟩

theorem walkDoubles_all : ∀ (fuel : Nat), WalkAll (walkDoubles fuel) fuel := by
  intro fuel
  induction fuel with
  | zero =>
    exact ⟨fun _ _ _ _ _ _ _ h => absurd h (Nat.not_lt_zero _),
      fun root s s' hi hn h => walkDoubles_keeps 0 root s s' hi hn h, walkDoubles_inv2 0,
      fun root s s' h => walkDoubles_mono 0 root s s' h⟩
  | succ fuel ih =>
    refine ⟨?_, fun root s s' hi hn h => walkDoubles_keeps _ root s s' hi hn h,
      walkDoubles_inv2 _, fun root s s' h => walkDoubles_mono _ root s s' h⟩
    intro root s hi hi2 hn hn0 hroot hlen
    have hlen' : s.doubles.length ≤ fuel := by omega
    rw [walkDoubles_unfold]
    -- root is a usable key, so `root + 1` fits
    obtain ⟨b0, hb0⟩ := hroot
    have hL := (hi2.par _ hb0).1
    simp only at hL
    rw [if_neg (by have := hL.2.1; omega)]
    have hroot : pkey s root := ⟨b0, hb0⟩
    have hpqs : ∀ k ∈ pqsOf s root, pkey s k.1 ∨ pkey s k.2 := by
      intro k hk
      rw [(mem_pqsOf.mp hk).2]; exact Or.inl hroot
    have hqps : ∀ k ∈ qpsOf s root, pkey s k.1 ∨ pkey s k.2 := by
      intro k hk
      rw [((mem_qpsOf hi).mp hk).2]; exact Or.inl hroot
    refine NP_bind (walkLoop1_np ih _ s hi hi2 hn hn0 hpqs hlen') (fun s1 hs1 => ?_)
    have k1 := walkLoop1_keeps ih.keeps _ _ _ hs1 hi hn
    have hn1 : s1.n ≤ X512 := by rw [k1.1]; exact hn
    have hn01 : 0 < s1.n := by rw [k1.1]; exact hn0
    have j1 := walkLoop1_inv2 ih.inv2 ih.keeps _ _ _ hs1 hi hi2 hn
    obtain ⟨m1, g1, d1⟩ := walkLoop1_mono ih.mono _ _ _ hs1
    refine NP_bind (walkLoop2_np ih _ s1 k1.2.2 j1 hn1 hn01 ?_ (Nat.le_trans m1.dlen hlen'))
      (fun s2 hs2 => ?_)
    · intro k hk
      rcases hqps k hk with h | h
      · exact Or.inl (m1.pmono _ h)
      · exact Or.inr (m1.pmono _ h)
    have k2 := walkLoop2_keeps ih.keeps _ _ _ hs2 k1.2.2 hn1
    have hn2 : s2.n ≤ X512 := by rw [k2.1]; exact hn1
    have hn02 : 0 < s2.n := by rw [k2.1]; exact hn01
    have j2 := walkLoop2_inv2 ih.inv2 ih.keeps _ _ _ hs2 k1.2.2 j1 hn1
    obtain ⟨m2, g2, d2⟩ := walkLoop2_mono ih.mono _ _ _ hs2
    have m12 := m1.trans m2
    -- the other prime of every processed double is a key now
    have hother1 : ∀ k ∈ pqsOf s root, k.1 = root ∧ pkey s2 k.2 := by
      intro k hk
      obtain ⟨hd, hr⟩ := mem_pqsOf.mp hk
      refine ⟨hr, ?_⟩
      have hne : k.1 ≠ k.2 := by
        obtain ⟨b, hb⟩ := hd
        have := (hi.dbl _ hb).1
        simp only at this; omega
      have hgone : ¬ dkey s2 k := by
        rintro ⟨b, hb⟩; exact g1 k hk ⟨b, m2.dsub _ hb⟩
      exact (m12.removed k hd hgone hne).2
    have hother2 : ∀ k ∈ qpsOf s root, k.1 = root ∧ pkey s2 k.2 := by
      intro k hk
      obtain ⟨hd, hr⟩ := (mem_qpsOf hi).mp hk
      refine ⟨hr, ?_⟩
      have hne : (k.2, k.1).1 ≠ (k.2, k.1).2 := by
        obtain ⟨b, hb⟩ := hd
        have := (hi.dbl _ hb).1
        simp only at this ⊢; omega
      have hgone : ¬ dkey s2 (k.2, k.1) := g2 k hk
      exact (m12.removed _ hd hgone hne).1
    -- if there is anything to recurse on, a double has been removed
    have hdec : (pqsOf s root ≠ [] ∨ qpsOf s root ≠ []) → s2.doubles.length < fuel := by
      intro hne
      rcases hne with hne | hne
      · obtain ⟨k, hk⟩ := List.exists_mem_of_ne_nil _ hne
        have := d1 ⟨k, hk, (mem_pqsOf.mp hk).1⟩
        have := m2.dlen
        omega
      · obtain ⟨k, hk⟩ := List.exists_mem_of_ne_nil _ hne
        by_cases hp0 : pqsOf s root = []
        · -- the first loop did nothing
          have hs : s1 = s := by
            rw [hp0] at hs1
            simp only [walkLoop1, pure_eq_ok] at hs1
            exact hs1.symm
          have hd := ((mem_qpsOf hi).mp hk).1
          rw [← hs] at hd
          have := d2 ⟨k, hk, hd⟩
          have := m1.dlen
          omega
        · obtain ⟨k', hk'⟩ := List.exists_mem_of_ne_nil _ hp0
          have := d1 ⟨k', hk', (mem_pqsOf.mp hk').1⟩
          have := m2.dlen
          omega
    by_cases hp0 : pqsOf s root = []
    · rw [hp0]
      simp only [walkRec]
      show NP (pure s2 >>= fun s3 => walkRec (walkDoubles fuel) root (qpsOf s root) s3)
      simp only [pure, Except.pure, ok_bind]
      by_cases hq0 : qpsOf s root = []
      · rw [hq0]; exact NP_pure _
      · exact walkRec_np ih root _ s2 k2.2.2 j2 hn2 hn02 hother2 (hdec (Or.inr hq0))
    · have hlt2 := hdec (Or.inl hp0)
      refine NP_bind (walkRec_np ih root _ s2 k2.2.2 j2 hn2 hn02 hother1 hlt2) (fun s3 hs3 => ?_)
      have k3 := walkRec_keeps ih.keeps root _ _ _ hs3 k2.2.2 hn2
      have j3 := walkRec_inv2 ih.inv2 ih.keeps root _ _ _ hs3 k2.2.2 j2 hn2
      have m3 := walkRec_mono ih.mono root _ _ _ hs3
      refine walkRec_np ih root _ s3 k3.2.2 j3 (by rw [k3.1]; exact hn2) (by rw [k3.1]; exact hn02)
        ?_ (lt_of_le_of_lt m3.dlen hlt2)
      intro k hk
      obtain ⟨h1, h2⟩ := hother2 k hk
      exact ⟨h1, m3.pmono _ h2⟩

/-! ### `add` and histories -/

theorem add_np {r : Relation} {pq : Option (Nat × Nat)} {s : Store} (hi : Inv s) (hi2 : Inv2 s)
    (hn : s.n ≤ X512) (hin : InputOK2 s r pq) : NP (add r pq s) := by
  have hrel := hin.rel
  obtain ⟨⟨hrt, hrv, hrn, hpair⟩, hx, hrf, hrl, hsingle, hpairOK, hrte⟩ := hin
  have hn0 : 0 < s.n := by omega
  unfold add
  rw [if_neg (not_not.mpr hx)]
  split
  · rename_i hc1
    obtain ⟨s1, hs1⟩ := addCycle_total s hc1 hrl
    rw [hs1]; exact NP_ok _
  · rename_i hc1
    split
    · rename_i hlt
      have hl := hsingle hc1 hlt
      have hi0 : Inv { s with nPartials := s.nPartials + 1 } := ⟨hi.cyc, hi.par, hi.dbl, hi.rev⟩
      have hi20 : Inv2 { s with nPartials := s.nPartials + 1 } := ⟨hi2.par, hi2.dbl, hi2.cyc⟩
      refine NP_bind (combineSingle_np hi0 hi20 hn0 hrel hrv) (fun res hres => ?_)
      have hk1 : Keeps { s with nPartials := s.nPartials + 1 } res.2 :=
        combineSingle_keeps (done := res.1) (s' := res.2) hres hi0 hn hrt hrn hrv hx
      have j1 := combineSingle_inv2 (done := res.1) (s' := res.2) hres hi20 hrel
      split
      · exact NP_pure _
      · obtain ⟨b, hb⟩ := pack_total hrf
        rw [hb]
        simp only [ok_bind]
        rw [if_neg (by have := hl.lt32; omega)]
        have hn1 : res.2.n ≤ X512 := by rw [hk1.1]; exact hn
        have hI : Inv (res.2.setPartial r.cofactor b) := by
          refine inv_setPartial hk1.2.2 hc1 hl.lt32 ?_
          rw [hk1.1]
          exact goodP_of_pack hb hrt hrn (lt_of_lt_of_le hx hn) hrv
        have hI2 : Inv2 (res.2.setPartial r.cofactor b) :=
          inv2_setPartial j1 hl (goodF_of_pack hb hrt hrn hrf hrl hrte)
        exact (walkDoubles_all _).np _ _ hI hI2 hn1
          (by show 0 < res.2.n; rw [hk1.1]; exact hn0)
          (pkey_setPartial.mpr (Or.inl rfl)) (Nat.lt_succ_self _)
    · rename_i hge
      split
      · exact NP_pure _
      · rename_i p q
        obtain ⟨hc, _, _⟩ := hpair p q rfl
        obtain ⟨hp, hq⟩ := hpairOK p q rfl (by omega)
        rw [if_neg (by have := hp.lt32; have := hq.lt32; omega)]
        have hi0 : Inv { s with nDoubles := s.nDoubles + 1 } := ⟨hi.cyc, hi.par, hi.dbl, hi.rev⟩
        have hi20 : Inv2 { s with nDoubles := s.nDoubles + 1 } := ⟨hi2.par, hi2.dbl, hi2.cyc⟩
        refine NP_bind (combineDouble_np (walkDoubles_all _) hi0 hi20 hn hn0 hrel hrv hc hp hq
          (Nat.lt_succ_self _)) (fun res _ => ?_)
        split
        · exact NP_pure _
        · obtain ⟨b, hb⟩ := pack_total hrf
          rw [hb]; exact NP_ok _

theorem runHistory_np : ∀ (ops : List (Relation × Option (Nat × Nat))) (s : Store),
    Inv s → Inv2 s → s.n ≤ X512 → HistoryOK2 s.n s.maxlarge ops → NP (runHistory ops s) := by
  intro ops
  induction ops with
  | nil => intro s _ _ _ _; exact NP_pure _
  | cons op t ih =>
    obtain ⟨r, pq⟩ := op
    intro s hi hi2 hn hok
    have hin := hok (r, pq) List.mem_cons_self s rfl rfl
    unfold runHistory
    refine NP_bind (add_np hi hi2 hn hin) (fun s1 hs1 => ?_)
    have hk := add_keeps hs1 hi hn hin.base
    refine ih s1 hk.2.2 (add_inv2 hs1 hi hi2 hn hin) (by rw [hk.1]; exact hn) ?_
    intro op hop s' h1 h2
    exact hok op (List.mem_cons_of_mem _ hop) s' (by rw [h1, hk.1]) (by rw [h2, hk.2.1])

end Ymq.Relations
