import Ymq.Drv.Util
import Ymq.Model.Mg64

namespace Ymq.Drv
open Ymq.Mg64

def showPanic : Option Nat → String
  | none => "panic"
  | some x => toString x

def handleMg64 : Handler
  | ["mg_2adic_inv", n] => do
    let n ← parseNat n
    some (showPanic (mg2adicInv n))
  | ["mg_redc", n, ninv, x] => do
    let n ← parseNat n; let ninv ← parseNat ninv; let x ← parseNat x
    some (showPanic (mgRedc n ninv x))
  | ["mg_mul", n, ninv, x, y] => do
    let n ← parseNat n; let ninv ← parseNat ninv; let x ← parseNat x; let y ← parseNat y
    some (showPanic (mgMul n ninv x y))
  | ["isprime64", p] => do
    let p ← parseNat p
    some (match isprime64 p with | none => "panic" | some b => showBool b)
  | _ => none

end Ymq.Drv
