/-
C13 helper lemmas: the factor recovery of `smooths` (`factorsOf`) lists every prime index whose root
matches the reported position.
-/
import Ymq.Lemmas.SieveState

namespace Ymq.Sieve

/-- accumulated factor lists only grow. -/
def Grows (acc acc' : List Nat) : Prop := ∀ x ∈ acc, x ∈ acc'

theorem Grows.refl (a : List Nat) : Grows a a := fun _ h => h
theorem Grows.trans {a b c : List Nat} (h1 : Grows a b) (h2 : Grows b c) : Grows a c :=
  fun x hx => h2 x (h1 x hx)

theorem foldlM_grows {α} (f : List Nat → α → Option (List Nat)) (l : List α)
    (hstep : ∀ x ∈ l, ∀ s s', f s x = some s' → Grows s s') :
    ∀ s s', l.foldlM f s = some s' → Grows s s' :=
  foldlM_rel f Grows Grows.refl (fun _ _ _ => Grows.trans) l hstep

/-- if the step of `x0` inserts `v`, the result of the fold contains `v`. -/
theorem foldlM_inserts {α} (f : List Nat → α → Option (List Nat)) (l : List α) (x0 : α) (v : Nat)
    (hx0 : x0 ∈ l) (hstep : ∀ x ∈ l, ∀ s s', f s x = some s' → Grows s s')
    (hest : ∀ s s', f s x0 = some s' → v ∈ s') :
    ∀ s s', l.foldlM f s = some s' → v ∈ s' :=
  fun s s' h => foldlM_reach f (fun _ => True) (fun a => v ∈ a) x0 l hx0 (fun _ _ _ _ _ _ => trivial)
    (fun s s' _ hs => hest s s' hs) (fun x hx s s' _ hv hs => hstep x hx s s' hs v hv) s s' trivial h

section Smooths
variable {fb : FB} {s : State} {r1 r2 : Array Nat} {r : Nat}

theorem smallTest_grows {acc acc' : List Nat} {i : Nat} (h : smallTest fb s r acc i = some acc') :
    Grows acc acc' := by
  unfold smallTest at h
  simp only [Option.bind_eq_bind, Option.bind_eq_some_iff, Option.some.injEq] at h
  obtain ⟨p, _, o1, _, o2, _, rfl⟩ := h
  intro x hx
  split
  · exact List.mem_cons_of_mem _ hx
  · exact hx

theorem midTest_grows {acc acc' : List Nat} {i : Nat} (h : midTest fb s r acc i = some acc') :
    Grows acc acc' := by
  unfold midTest at h
  simp only [Option.bind_eq_bind, Option.bind_eq_some_iff, Option.some.injEq] at h
  obtain ⟨o, _, p, _, rfl⟩ := h
  intro x hx
  split
  · exact List.mem_cons_of_mem _ hx
  · exact hx

theorem filt_grows {acc acc' : List Nat} {cands : List Nat} (h : filt fb s r1 r2 r acc cands = some acc') :
    Grows acc acc' := by
  unfold filt at h
  refine foldlM_grows _ cands ?_ _ _ h
  intro pidx _ a a' ha
  simp only [Option.bind_eq_bind, Option.bind_eq_some_iff, Option.some.injEq] at ha
  obtain ⟨ok, _, rfl⟩ := ha
  intro x hx
  split
  · exact List.mem_cons_of_mem _ hx
  · exact hx

theorem filt_inserts {acc acc' : List Nat} {cands : List Nat} {pidx : Nat} (hmem : pidx ∈ cands)
    (htrue : ∀ b, isFactor fb s r1 r2 r pidx = some b → b = true)
    (h : filt fb s r1 r2 r acc cands = some acc') : pidx ∈ acc' := by
  unfold filt at h
  refine foldlM_inserts _ cands pidx pidx hmem ?_ ?_ _ _ h
  · intro q _ a a' ha
    simp only [Option.bind_eq_bind, Option.bind_eq_some_iff, Option.some.injEq] at ha
    obtain ⟨ok, _, rfl⟩ := ha
    intro x hx
    split
    · exact List.mem_cons_of_mem _ hx
    · exact hx
  · intro a a' ha
    simp only [Option.bind_eq_bind, Option.bind_eq_some_iff, Option.some.injEq] at ha
    obtain ⟨ok, hok, rfl⟩ := ha
    rw [htrue ok hok]
    simp

theorem tableStep_grows {acc acc' : List Nat} {tidx : Nat} (h : tableStep fb s r1 r2 r acc tidx = some acc') :
    Grows acc acc' := by
  unfold tableStep at h
  simp only [Option.bind_eq_bind, Option.bind_eq_some_iff] at h
  obtain ⟨t, _, idx1, _, idx2, _, p8s, _, h⟩ := h
  exact foldlM_grows _ p8s (fun p8 _ a a' ha => filt_grows ha) _ _ h

theorem ltableStep_grows {acc acc' : List Nat} {t : LTable} (h : ltableStep fb s r1 r2 r acc t = some acc') :
    Grows acc acc' := by
  unfold ltableStep at h
  simp only [Option.bind_eq_bind, Option.bind_eq_some_iff] at h
  obtain ⟨p16s, _, h⟩ := h
  exact foldlM_grows _ p16s (fun p16 _ a a' ha => filt_grows ha) _ _ h

/-- `is_factor` accepts a prime index whose root matches the position. -/
theorem isFactor_true (hfb : fb.WF) {pidx p o : Nat} (hp : fb.primes[pidx]? = some p) (hblk : s.blkNo < 2 ^ 17)
    (hroot : r1[pidx]? = some o ∨ r2[pidx]? = some o) (hx : (s.blkNo * BLOCK + r) % p = o) :
    ∀ b, isFactor fb s r1 r2 r pidx = some b → b = true := by
  intro b h
  unfold isFactor at h
  simp only [Option.bind_eq_bind, Option.bind_eq_some_iff] at h
  obtain ⟨p', hp', h⟩ := h
  rw [hp] at hp'
  have := Option.some.inj hp'; subst this
  have hb32 : s.blkNo % 2 ^ 32 = s.blkNo := Nat.mod_eq_of_lt (by omega)
  rw [hb32] at h
  have hbig : ¬ s.blkNo * BLOCK ≥ 2 ^ 32 := by simp only [BLOCK]; omega
  simp only [hbig, if_false, Option.pure_def, Option.bind_some, Option.bind_eq_some_iff] at h
  obtain ⟨a, ha, h⟩ := h
  have hp24 := hfb.lt24 _ _ hp
  have hp0 := hfb.ge2 _ _ hp
  have ho : (s.blkNo * BLOCK + r) % p % 2 ^ 32 = o := by
    rw [hx]
    have : o < p := by rw [← hx]; exact Nat.mod_lt _ (by omega)
    exact Nat.mod_eq_of_lt (by omega)
  rw [ho] at h
  split_ifs at h with hoa
  · exact (Option.some.inj h).symm
  · simp only [Option.bind_eq_some_iff, Option.some.injEq] at h
    obtain ⟨b', hb', rfl⟩ := h
    rcases hroot with e | e
    · rw [ha] at e; exact absurd (Option.some.inj e).symm hoa
    · rw [hb'] at e
      have := Option.some.inj e; subst this
      simp

end Smooths

/-- `small_recovery` + lookup: what `factorsOf` returns is complete.
`B` = number of blocks sieved before this one (cursors), `s.blkNo` = block number inside the
interval registered in the bucket tables. -/
theorem factorsOf_complete {fb : FB} {nS B : Nat} {rS1 rS2 rL1 rL2 : Array Nat} {s : State}
    (hfb : fb.WF) (hnS : fb.ibl[16]? = some nS)
    (hprev : CurInv fb rS1 rS2 s.idxskip nS B s.loPrev)
    (htsize : ∃ maxprime, fb.primes.back? = some maxprime ∧ s.tables.size = min 18 (bitlen maxprime) + 1 - 16 ∧
      s.ltables.size = bitlen maxprime + 1 - 19)
    (hblk : s.blkNo < 2 ^ 17) {r : Nat} (hr : r < BLOCK) {facs : List Nat}
    (h : factorsOf fb s rL1 rL2 r = some facs) {pidx p : Nat} (hp : fb.primes[pidx]? = some p) :
    -- primes below the block size: recovered from the cursors
    (p < BLOCK → ∀ o, (rS1[pidx]? = some o ∨ rS2[pidx]? = some o) → (B * BLOCK + r) % p = o → pidx ∈ facs) ∧
    -- size classes 16..18: recovered when the hit is visible in the table of the class
    (∀ ti t, s.tables[ti]? = some t → t.WF → bitlen p = ti + 16 →
      ∀ o, (rL1[pidx]? = some o ∨ rL2[pidx]? = some o) → (s.blkNo * BLOCK + r) % p = o →
        t.Has (s.blkNo * BLOCK + r) (pidx % 256) → pidx ∈ facs) ∧
    -- size classes ≥ 19
    (∀ li t, s.ltables[li]? = some t → bitlen p = li + 19 →
      ∀ o, (rL1[pidx]? = some o ∨ rL2[pidx]? = some o) → (s.blkNo * BLOCK + r) % p = o →
        t.Has (s.blkNo * BLOCK + r) (pidx % 65536) → pidx ∈ facs) := by
  unfold factorsOf at h
  simp only [Option.bind_eq_bind, Option.bind_eq_some_iff] at h
  obtain ⟨n15, hn15, small, hsmall, mid, hmid, h⟩ := h
  have gsmall : ∀ a a', (List.range' 0 n15).foldlM (smallTest fb s r) a = some a' → Grows a a' :=
    foldlM_grows _ _ (fun _ _ _ _ hs => smallTest_grows hs)
  have gmid : Grows small mid :=
    foldlM_grows _ _ (fun _ _ _ _ hs => midTest_grows hs) _ _ hmid
  obtain ⟨maxprime, hmax, hts, hls⟩ := htsize
  have hpm := bitlen_mono (hfb.le_back hp hmax)
  -- the final list contains `mid`, and the table part when there are tables
  have hfin : Grows mid facs := by
    split_ifs at h with h0
    · have := Option.some.inj h; subst this
      intro x hx; exact List.mem_reverse.2 hx
    · simp only [Option.bind_eq_some_iff, Option.some.injEq] at h
      obtain ⟨a1, h1, a2, h2, rfl⟩ := h
      have g1 : Grows mid a1 := foldlM_grows _ _ (fun _ _ _ _ hs => tableStep_grows hs) _ _ h1
      have g2 : Grows a1 a2 := foldlM_grows _ _ (fun _ _ _ _ hs => ltableStep_grows hs) _ _ h2
      intro x hx; exact List.mem_reverse.2 (g2 x (g1 x hx))
  refine ⟨?_, ?_, ?_⟩
  · -- small primes
    intro hpB o hroot hx
    have hi : pidx < nS := (hfb.ibl_spec 16 pidx nS p hnS hp).2
      ((bitlen_lt_succ_iff p 15).2 (by simpa [BLOCK] using hpB))
    -- the cursor slot of the matching root
    have hslot : ∃ k c, k / 2 = pidx ∧ k < 2 * nS ∧ s.loPrev[k]? = some c ∧ c < p ∧ (c + B * BLOCK) % p = o := by
      obtain ⟨p0, o1, o2, hp0, h1, h2, hif0⟩ := hprev.2 (2 * pidx) (by omega)
      obtain ⟨p1, o1', o2', hp1, h1', h2', hif1⟩ := hprev.2 (2 * pidx + 1) (by omega)
      have e0 : (2 * pidx) / 2 = pidx := by omega
      have e1 : (2 * pidx + 1) / 2 = pidx := by omega
      rw [e0] at hp0 h1 h2
      rw [e1] at hp1 h1' h2'
      rw [hp] at hp0 hp1
      have := Option.some.inj hp0; subst this
      have := Option.some.inj hp1; subst this
      rw [h1] at h1'; rw [h2] at h2'
      have := Option.some.inj h1'; subst this
      have := Option.some.inj h2'; subst this
      have m0 : (2 * pidx) % 2 = 0 := by omega
      have m1 : ¬ (2 * pidx + 1) % 2 = 0 := by omega
      by_cases ho1 : o = o1
      · subst ho1
        rw [if_pos (Or.inl m0)] at hif0
        obtain ⟨c, hc, hlt, hinv⟩ := hif0
        simp only [m0, if_true] at hinv
        exact ⟨2 * pidx, c, e0, by omega, hc, hlt, hinv⟩
      · have ho2 : o = o2 := by
          rcases hroot with e | e
          · rw [h1] at e; exact absurd (Option.some.inj e).symm ho1
          · rw [h2] at e; exact (Option.some.inj e).symm
        subst ho2
        rw [if_pos (Or.inr (fun e => ho1 e.symm))] at hif1
        obtain ⟨c, hc, hlt, hinv⟩ := hif1
        simp only [m1, if_false] at hinv
        exact ⟨2 * pidx + 1, c, e1, by omega, hc, hlt, hinv⟩
    obtain ⟨k, c, hk2, hk, hc, hlt, hinv⟩ := hslot
    by_cases h14 : pidx < n15
    · -- p < 2^14: modu16(r) == off
      have hrm : r % p = c := (recover_small hlt hinv).2 hx
      have : pidx ∈ small := by
        refine foldlM_inserts _ _ pidx pidx (List.mem_range'_1.2 ⟨by omega, by omega⟩)
          (fun _ _ _ _ hs => smallTest_grows hs) ?_ _ _ hsmall
        intro a a' ha
        unfold smallTest at ha
        simp only [Option.bind_eq_bind, Option.bind_eq_some_iff, Option.some.injEq] at ha
        obtain ⟨p', hp', off1, hoff1, off2, hoff2, rfl⟩ := ha
        rw [hp] at hp'
        have := Option.some.inj hp'; subst this
        have hkk : k = 2 * pidx ∨ k = 2 * pidx + 1 := by omega
        have : r % p = off1 ∨ r % p = off2 := by
          rcases hkk with e | e
          · subst e; rw [hoff1] at hc; left; rw [hrm]; exact (Option.some.inj hc).symm
          · subst e; rw [hoff2] at hc; right; rw [hrm]; exact (Option.some.inj hc).symm
        simp [this]
      exact hfin _ (gmid _ this)
    · -- 2^14 ≤ p < 2^15: r == off || r == off + p
      have hp14 : 2 ^ 14 ≤ p := by
        have : ¬ bitlen p < 15 := fun hb => h14 ((hfb.ibl_spec 15 pidx n15 p hn15 hp).2 hb)
        exact two_pow_le_of_bitlen (by omega)
      have hrm : r = c ∨ r = c + p := (recover_mid hlt (by simp only [BLOCK]; omega) hr hinv).2 hx
      have hn15le : n15 ≤ nS := hfb.ibl_mono (by omega) hn15 hnS
      have : pidx ∈ mid := by
        refine foldlM_inserts _ _ k pidx (List.mem_range'_1.2 ⟨by omega, by rw [hprev.1]; omega⟩)
          (fun _ _ _ _ hs => midTest_grows hs) ?_ _ _ hmid
        intro a a' ha
        unfold midTest at ha
        simp only [Option.bind_eq_bind, Option.bind_eq_some_iff, Option.some.injEq] at ha
        obtain ⟨off, hoff, p', hp', rfl⟩ := ha
        rw [hk2, hp] at hp'
        have := Option.some.inj hp'; subst this
        rw [hc] at hoff
        have := Option.some.inj hoff; subst this
        have hpm : p % 65536 = p := Nat.mod_eq_of_lt (by simp only [BLOCK] at hpB; omega)
        rw [hpm, hk2]
        simp [hrm]
      exact hfin _ this
  · -- size classes 16..18
    intro ti t ht hwf hb o hroot hx hhas
    have hti : ti < s.tables.size := (Array.getElem?_eq_some_iff.1 ht).1
    have h0 : ¬ s.tables.size = 0 := by omega
    simp only [h0, if_false, Option.bind_eq_some_iff, Option.some.injEq] at h
    obtain ⟨a1, h1, a2, h2, rfl⟩ := h
    have g2 : Grows a1 a2 := foldlM_grows _ _ (fun _ _ _ _ hs => ltableStep_grows hs) _ _ h2
    have : pidx ∈ a1 := by
      refine foldlM_inserts _ _ ti pidx (List.mem_range'_1.2 ⟨by omega, by omega⟩)
        (fun _ _ _ _ hs => tableStep_grows hs) ?_ _ _ h1
      intro a a' ha
      unfold tableStep at ha
      simp only [Option.bind_eq_bind, Option.bind_eq_some_iff] at ha
      obtain ⟨t', ht', idx1, hi1, idx2, hi2, p8s, hlook, ha⟩ := ha
      rw [ht] at ht'
      have := Option.some.inj ht'; subst this
      have hp8 : pidx % 256 ∈ p8s := Table.lookup_of_has hwf hr hlook hhas
      have hcl := (hfb.class_of hp (by simpa [LARGE_LOG] using hi1) (by simpa [LARGE_LOG] using hi2)).2 hb
      refine foldlM_inserts _ _ (pidx % 256) pidx hp8 (fun _ _ _ _ hs => filt_grows hs) ?_ _ _ ha
      intro b b' hb'
      exact filt_inserts (mem_candidates hcl.1 hcl.2) (isFactor_true hfb hp hblk hroot hx) hb'
    exact List.mem_reverse.2 (g2 _ this)
  · -- size classes ≥ 19
    intro li t ht hb o hroot hx hhas
    have hli : li < s.ltables.size := (Array.getElem?_eq_some_iff.1 ht).1
    have h0 : ¬ s.tables.size = 0 := by omega
    simp only [h0, if_false, Option.bind_eq_some_iff, Option.some.injEq] at h
    obtain ⟨a1, h1, a2, h2, rfl⟩ := h
    have htm : t ∈ s.ltables.toList := by
      rw [Array.getElem?_eq_getElem hli] at ht
      have := Option.some.inj ht; subst this
      exact Array.getElem_mem_toList hli
    have : pidx ∈ a2 := by
      refine foldlM_inserts _ _ t pidx htm (fun _ _ _ _ hs => ltableStep_grows hs) ?_ _ _ h2
      intro a a' ha
      unfold ltableStep at ha
      simp only [Option.bind_eq_bind, Option.bind_eq_some_iff] at ha
      obtain ⟨p16s, hlook, ha⟩ := ha
      have hp16 : pidx % 65536 ∈ p16s := LTable.lookup_of_has hr hlook hhas
      refine foldlM_inserts _ _ (pidx % 65536) pidx hp16 (fun _ _ _ _ hs => filt_grows hs) ?_ _ _ ha
      intro b b' hb'
      exact filt_inserts (mem_lcandidates (Array.getElem?_eq_some_iff.1 hp).1)
        (isFactor_true hfb hp hblk hroot hx) hb'
    exact List.mem_reverse.2 this

end Ymq.Sieve
