/-
C14 "small", helper lemmas part 15 (Mathlib): the projection loop of the checked profile under the
block Lanczos invariant (`projFold_checked`).
-/
import Ymq.Lemmas.Gf2SmallLoopStep

namespace Ymq.Gf2Small
open Ymq.Gf2 Ymq.Gf2Genblock Ymq.Gf2Lanczos
open scoped Matrix

/-- a block as a matrix -/
abbrev CM (n : Nat) (x : List Nat) : Matrix (Fin n) (Fin 64) (ZMod 2) := cellMat x.toArray n

/-- `xᵗ·A·y` -/
abbrev Q (k : Nat) (cols : List (List Nat)) (x y : List Nat) : Matrix (Fin 64) (Fin 64) (ZMod 2) :=
  (CM cols.length x)ᵀ * gramA k cols * CM cols.length y

/-- the block `j` is projected in this iteration: kept and not yet consumed -/
def Projected (ws : List (List Nat)) (masks : List Nat) (L j : Nat) : Prop :=
  (ws.getD j []).isEmpty = false ∧ maskFor masks j L ≠ some 0

instance (ws : List (List Nat)) (masks : List Nat) (L j : Nat) : Decidable (Projected ws masks L j) := by
  unfold Projected; infer_instance

/-- what the projection loop needs from the state: `hist` lists every block `W_j` ever selected
(purged or not) -/
structure ProjCtx (k : Nat) (cols : List (List Nat)) (st : LState) (hist : List (List Nat)) (Ss : List Nat)
    (next0 : List Nat) : Prop where
  histOK : ∀ j, j < st.ws.length → BlockOK cols.length (hist.getD j [])
  kept : ∀ j w, st.ws[j]? = some w → w.isEmpty = false →
    w = hist.getD j [] ∧ ∃ ig, st.invgs[j]? = some ig ∧ KeptOK k cols w ig (Ss.getD j 0)
  orth : ∀ j l, j < st.ws.length → l < st.ws.length → j ≠ l → Q k cols (hist.getD j []) (hist.getD l []) = 0
  /-- the three-term property: the blocks that are not projected any more are already A-orthogonal to
  the new direction -/
  threeTerm : ∀ j, j < st.ws.length → ¬ Projected st.ws st.masks st.ws.length j →
    Q k cols (hist.getD j []) next0 = 0

/-- invariant of the projection loop before index `j0` -/
structure FoldInv (k : Nat) (cols : List (List Nat)) (st : LState) (hist : List (List Nat)) (next0 : List Nat)
    (j0 : Nat) (stp : List (List Nat) × List (List Nat) × List Nat) : Prop where
  ok : ProjOK st.ws.length cols.length stp
  same : ∀ j, j0 ≤ j → stp.2.1[j]? = st.ws[j]?
  sub : ∀ (j : Nat) (w : List Nat), stp.2.1[j]? = some w → w.isEmpty = false → st.ws[j]? = some w
  q : ∀ j, j < st.ws.length → Q k cols (hist.getD j []) stp.2.2 =
    if j < j0 ∧ Projected st.ws st.masks st.ws.length j then 0 else Q k cols (hist.getD j []) next0
  /-- against a block A-orthogonal to the whole history the projections change nothing -/
  xform : ∀ X, BlockOK cols.length X → (∀ l, l < st.ws.length → Q k cols X (hist.getD l []) = 0) →
    Q k cols X stp.2.2 = Q k cols X next0
  /-- a block emptied by this loop had `mask == 0` -/
  purgeRec : ∀ (j : Nat) (w : List Nat), stp.2.1[j]? = some w → w.isEmpty = true →
    (∃ w0, st.ws[j]? = some w0 ∧ w0.isEmpty = true) ∨ maskFor st.masks j st.ws.length = some 0

theorem projStep_checked_inv {k : Nat} {cols : List (List Nat)} (hM : MatOK k cols) {st : LState}
    {hist : List (List Nat)} {Ss : List Nat} {next0 av : List Nat}
    (hn0 : BlockOK cols.length next0) (hav : mulAabOpt (qsOptimize k cols) next0 = some av)
    (hI : st.invgs.length = st.ws.length) (hMk : st.masks.length = st.ws.length)
    (hC : ProjCtx k cols st hist Ss next0) {j0 : Nat} (hj0 : j0 < st.ws.length)
    {stp : List (List Nat) × List (List Nat) × List Nat} (hF : FoldInv k cols st hist next0 j0 stp) :
    ∃ stp', projStep true (qsOptimize k cols) av st.invgs st.masks st.ws.length stp j0 = some stp' ∧
      FoldInv k cols st hist next0 (j0 + 1) stp' := by
  obtain ⟨vs, ws, next⟩ := stp
  obtain ⟨⟨hv, hw, hwOK, hnext⟩, hsame, hsub, hq, hx, hpr⟩ := hF
  simp only at hv hw hwOK hnext hsame hsub hq hx hpr
  have hwj : ws[j0]? = some (st.ws[j0]'hj0) := by rw [hsame j0 (Nat.le_refl _), List.getElem?_eq_getElem hj0]
  have hgetD : st.ws.getD j0 [] = st.ws[j0]'hj0 := by
    simp [List.getD_eq_getElem?_getD, List.getElem?_eq_getElem hj0]
  obtain ⟨avOK⟩ : Nonempty (BlockOK cols.length av) := by
    obtain ⟨r, hr, hrOK⟩ := mulAabOpt_ok hM hn0
    rw [hav] at hr; injection hr with hr; subst hr; exact ⟨hrOK⟩
  -- the three cases of the body
  cases he : (st.ws[j0]'hj0).isEmpty with
  | true =>
    refine ⟨(vs, ws, next), ?_, ⟨hv, hw, hwOK, hnext⟩, fun j hj => hsame j (by omega), hsub, ?_, hx, hpr⟩
    · unfold projStep; simp only [hwj, he, if_true]
    · intro j hj
      rw [hq j hj]
      by_cases e : j = j0
      · subst e
        have : ¬ Projected st.ws st.masks st.ws.length j := by
          intro hp; rw [Projected, hgetD, he] at hp; exact absurd hp.1 (by decide)
        simp [this]
      · have : (j < j0 + 1 ∧ Projected st.ws st.masks st.ws.length j) ↔
            (j < j0 ∧ Projected st.ws st.masks st.ws.length j) := by
          constructor <;> rintro ⟨h1, h2⟩ <;> exact ⟨by omega, h2⟩
        simp only [this]
  | false =>
    obtain ⟨hwh, ig, hig, hK⟩ := hC.kept j0 _ (List.getElem?_eq_getElem hj0) he
    obtain ⟨m, hm⟩ := maskFor_ok st.masks j0 st.ws.length (by omega)
    by_cases hm0 : m = 0
    · -- purge: the assertion `ws[j] * av == 0` is the three-term property
      subst hm0
      have hnp : ¬ Projected st.ws st.masks st.ws.length j0 := fun hp => hp.2 hm
      have hz : blockDot (st.ws[j0]'hj0) av = some zeros64 := by
        apply blockDot_zero_of hK.wOK.1 avOK
        rw [cellMat_aab hM hav, ← Matrix.mul_assoc]
        have := hC.threeTerm j0 hj0 hnp
        rw [← hwh] at this
        exact this
      refine ⟨(vs.set j0 [], ws.set j0 [], next), ?_, ⟨by simp [hv], by simp [hw], ?_, hnext⟩, ?_, ?_, ?_, hx, ?_⟩
      rotate_right
      · intro j w hjw hwe
        have hjw' : (ws.set j0 [])[j]? = some w := hjw
        by_cases e : j0 = j
        · subst e; exact Or.inr hm
        · rw [List.getElem?_set_ne e] at hjw'
          exact hpr j w hjw' hwe
      · unfold projStep
        simp only [hwj, he, Bool.false_eq_true, if_false, hm, if_true, hz, bne_self_eq_false, Bool.and_false,
          show j0 < vs.length by omega]
      · intro w hwm
        rcases List.mem_or_eq_of_mem_set hwm with h | h
        · exact hwOK w h
        · exact Or.inl h
      · intro j hj
        show (ws.set j0 [])[j]? = _
        rw [List.getElem?_set_ne (by omega)]
        exact hsame j (by omega)
      · intro j w hjw hwe
        have hjw' : (ws.set j0 [])[j]? = some w := hjw
        by_cases e : j0 = j
        · subst e
          rw [List.getElem?_set_self (by omega)] at hjw'
          injection hjw' with hjw'
          rw [← hjw'] at hwe
          exact absurd hwe (by decide)
        · rw [List.getElem?_set_ne e] at hjw'
          exact hsub j w hjw' hwe
      · intro j hj
        show Q k cols (hist.getD j []) next = _
        rw [hq j hj]
        by_cases e : j = j0
        · subst e; simp [hnp]
        · have : (j < j0 + 1 ∧ Projected st.ws st.masks st.ws.length j) ↔
              (j < j0 ∧ Projected st.ws st.masks st.ws.length j) := by
            constructor <;> rintro ⟨h1, h2⟩ <;> exact ⟨by omega, h2⟩
          simp only [this]
    · -- projection
      have hp : Projected st.ws st.masks st.ws.length j0 := by
        refine ⟨by rw [hgetD]; exact he, ?_⟩
        rw [hm]; intro h; injection h with h; exact hm0 h
      have hcomm : Q k cols (st.ws[j0]'hj0) next = Q k cols (st.ws[j0]'hj0) next0 := by
        have := hq j0 hj0
        rw [if_neg (by omega), ← hwh] at this
        exact this
      obtain ⟨next', hstep, hn'OK, hn'M, horth⟩ := projStep_checked_ok hM (vs := vs) (ws := ws) hn0 hav hnext hwj he
        hm hm0 hig hK hcomm
      refine ⟨(vs, ws, next'), hstep, ⟨hv, hw, hwOK, hn'OK⟩, fun j hj => hsame j (by omega), hsub, ?_, ?_, hpr⟩
      rotate_left
      · intro X hX hall
        show (CM cols.length X)ᵀ * gramA k cols * cellMat next'.toArray cols.length = _
        rw [hn'M, Matrix.mul_add, ← Matrix.mul_assoc]
        have hXw : (CM cols.length X)ᵀ * gramA k cols * cellMat (st.ws[j0]'hj0).toArray cols.length = 0 := by
          have := hall j0 hj0
          rw [← hwh] at this
          exact this
        rw [hXw, Matrix.zero_mul, add_zero]
        exact hx X hX hall
      intro j hj
      show Q k cols (hist.getD j []) next' = _
      by_cases e : j = j0
      · subst e
        rw [if_pos ⟨by omega, hp⟩, ← hwh]
        exact horth
      · have hiff : (j < j0 + 1 ∧ Projected st.ws st.masks st.ws.length j) ↔
            (j < j0 ∧ Projected st.ws st.masks st.ws.length j) := by
          constructor <;> rintro ⟨h1, h2⟩ <;> exact ⟨by omega, h2⟩
        simp only [hiff]
        rw [← hq j hj]
        show (CM cols.length (hist.getD j []))ᵀ * gramA k cols * cellMat next'.toArray cols.length = _
        rw [hn'M, Matrix.mul_add]
        have ho := hC.orth j j0 hj hj0 e
        rw [← hwh] at ho
        have : (CM cols.length (hist.getD j []))ᵀ * gramA k cols *
            (cellMat (st.ws[j0]'hj0).toArray cols.length * (toMat 64 ig *
              ((cellMat (st.ws[j0]'hj0).toArray cols.length)ᵀ * gramA k cols * cellMat next0.toArray cols.length))) = 0 := by
          rw [← Matrix.mul_assoc]
          show Q k cols (hist.getD j []) (st.ws[j0]'hj0) * _ = 0
          rw [ho, Matrix.zero_mul]
        rw [this, add_zero]

theorem projFold_checked {k : Nat} {cols : List (List Nat)} (hM : MatOK k cols) {st : LState}
    {hist : List (List Nat)} {Ss : List Nat} {next0 av : List Nat}
    (hn0 : BlockOK cols.length next0) (hav : mulAabOpt (qsOptimize k cols) next0 = some av)
    (hI : st.invgs.length = st.ws.length) (hMk : st.masks.length = st.ws.length)
    (hC : ProjCtx k cols st hist Ss next0) (cnt : Nat) :
    ∀ (j0 : Nat) (stp : List (List Nat) × List (List Nat) × List Nat), j0 + cnt = st.ws.length →
    FoldInv k cols st hist next0 j0 stp →
    ∃ stp', (List.range' j0 cnt).foldlM (projStep true (qsOptimize k cols) av st.invgs st.masks st.ws.length) stp
        = some stp' ∧ FoldInv k cols st hist next0 st.ws.length stp' := by
  induction cnt with
  | zero => intro j0 stp h hF; exact ⟨stp, rfl, by rw [← h]; exact hF⟩
  | succ cnt ih =>
    intro j0 stp h hF
    obtain ⟨stp1, h1, hF1⟩ := projStep_checked_inv hM hn0 hav hI hMk hC (by omega) hF
    obtain ⟨stp2, h2, hF2⟩ := ih (j0 + 1) stp1 (by omega) hF1
    exact ⟨stp2, by rw [List.range'_succ, List.foldlM_cons, h1]; exact h2, hF2⟩

end Ymq.Gf2Small
