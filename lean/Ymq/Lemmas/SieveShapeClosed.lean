/-
C13 helper lemmas: the class sums of the table loops collapse into `Σ_{pidx ≥ nS} tabF pidx` (sum of the bit lengths
of ALL primes ≥ 32768 with a root at the position), for any factor-base size.
-/
import Ymq.Lemmas.SieveShapeSum

namespace Ymq.SieveLog
open Ymq.Sieve

theorem vlargeOffsets_nodup {interval p o1 o2 : Nat} {l : List Nat} (hp : 0 < p) (h1 : o1 < p) (h2 : o2 < p)
    (hne : o1 ≠ o2) (h : vlargeOffsets interval p o1 o2 = some l) : l.Nodup := by
  unfold vlargeOffsets at h
  simp only [Option.bind_eq_bind, Option.bind_eq_some_iff, Option.some.injEq] at h
  obtain ⟨t1, ht1, t2, ht2, rfl⟩ := h
  obtain ⟨_, b1⟩ := arith_complete p interval _ _ _ ht1
  obtain ⟨_, b2⟩ := arith_complete p interval _ _ _ ht2
  rw [List.nodup_append]
  refine ⟨arith_nodup p interval hp _ _ _ ht1, arith_nodup p interval hp _ _ _ ht2, ?_⟩
  intro a ha b hb e
  subst e
  obtain ⟨_, k, hk⟩ := b1 a ha
  obtain ⟨_, k', hk'⟩ := b2 a hb
  have e1 : a % p = o1 := by rw [hk, Nat.add_mul_mod_self_right, Nat.mod_eq_of_lt h1]
  have e2 : a % p = o2 := by rw [hk', Nat.add_mul_mod_self_right, Nat.mod_eq_of_lt h2]
  exact hne (e1.symm.trans e2)

theorem mem_offsV {fb : FB} {r1 r2 : Array Nat} {interval pidx p o1 o2 X : Nat} (hfb : fb.WF)
    (hp : fb.primes[pidx]? = some p) (h1 : r1[pidx]? = some o1) (h2 : r2[pidx]? = some o2)
    (hl1 : o1 < p) (hl2 : o2 < p) :
    X ∈ offsV fb r1 r2 interval pidx ↔ (X < interval ∧ (X % p = o1 ∨ X % p = o2)) := by
  have hp2 := hfb.ge2 _ _ hp
  obtain ⟨l, hl⟩ := vlargeOffsets_some interval p o1 o2 (by omega)
  obtain ⟨c1, c2, c3⟩ := vlargeOffsets_spec hl
  unfold offsV
  simp only [hp, h1, h2, hl, Option.getD_some]
  rw [← mod_eq_iff_prog hl1, ← mod_eq_iff_prog hl2]
  constructor
  · intro hm
    obtain ⟨hlt, k, hk⟩ := c3 X hm
    exact ⟨hlt, hk.imp (fun h => ⟨k, h⟩) (fun h => ⟨k, h⟩)⟩
  · rintro ⟨hlt, ⟨k, rfl⟩ | ⟨k, rfl⟩⟩
    · exact c1 k hlt
    · exact c2 k hlt

theorem offsV_nodup {fb : FB} {r1 r2 : Array Nat} {interval pidx : Nat} (hfb : fb.WF) (hr : RootsOK fb r1 r2)
    (hd : RootsDistinct fb r1 r2) (hbig : ∀ p, fb.primes[pidx]? = some p → 32768 ≤ p) :
    (offsV fb r1 r2 interval pidx).Nodup := by
  unfold offsV
  cases hp : fb.primes[pidx]? with
  | none => simp
  | some p =>
    obtain ⟨o1, o2, h1, h2, hl1, hl2⟩ := hr _ _ hp
    simp only [h1, h2]
    have hp2 := hfb.ge2 _ _ hp
    obtain ⟨l, hl⟩ := vlargeOffsets_some interval p o1 o2 (by omega)
    rw [hl, Option.getD_some]
    refine vlargeOffsets_nodup (by omega) hl1 hl2 ?_ hl
    intro e
    exact hd pidx p hp (hbig p hp) (by rw [h1, h2, e])

/-- primes from class 16 on are ≥ 32768. -/
theorem big_of_class {fb : FB} (hfb : fb.WF) {l idx1 pidx p : Nat} (hl : 16 ≤ l) (hi : fb.ibl[l]? = some idx1)
    (hle : idx1 ≤ pidx) (hp : fb.primes[pidx]? = some p) : 32768 ≤ p := by
  have := hfb.ibl_spec _ _ _ _ hi hp
  have h16 : ¬ bitlen p < 15 + 1 := by omega
  rw [bitlen_lt_succ_iff] at h16
  norm_num at h16; exact h16

/-- one family of class sums as a range sum. -/
theorem classSum_collapse {fb : FB} (hfb : fb.WF) (F : Nat → Nat) (O : Nat → List Nat) (base size X : Nat)
    (hbs : base + size ≤ 25)
    (hF : ∀ tidx, tidx < size → ∀ pidx p, fb.primes[pidx]? = some p → bitlen p = tidx + base →
      (if X ∈ O pidx then (base + tidx) % 256 else 0) = F pidx) :
    classSum fb O base size X = rangeSum F ((fb.ibl[base]?).getD 0)
      ((fb.ibl[base + size]?).getD 0 - (fb.ibl[base]?).getD 0) := by
  let A : Nat → Nat := fun l => (fb.ibl[l]?).getD 0
  have hA : ∀ l v, fb.ibl[l]? = some v → A l = v := by intro l v hv; simp [A, hv]
  have e1 : ((List.range' 0 size).map fun tidx =>
      (((List.range' (A (tidx + base)) (A (tidx + base + 1) - A (tidx + base))).map
        fun pidx => if X ∈ O pidx then (base + tidx) % 256 else 0).sum)) =
      (List.range' 0 size).map fun tidx =>
        rangeSum F (max 0 (A (tidx + base))) (A (tidx + base + 1) - max 0 (A (tidx + base))) := by
    apply List.map_congr_left
    intro tidx hm
    have ht := List.mem_range'_1.1 hm
    rw [Nat.zero_max]
    unfold rangeSum
    congr 1
    apply List.map_congr_left
    intro pidx hm2
    have hm' := List.mem_range'_1.1 hm2
    obtain ⟨v, hv⟩ := hfb.ibl_some (tidx + base) (by omega)
    obtain ⟨v', hv'⟩ := hfb.ibl_some (tidx + base + 1) (by omega)
    rw [hA _ _ hv, hA _ _ hv'] at hm'
    have hle := hfb.ibl_le _ _ hv'
    obtain ⟨p, hp⟩ := hfb.prime_at (i := pidx) (by omega)
    have hb := (hfb.class_of hp hv hv').1 ⟨by omega, by omega⟩
    exact hF tidx (by omega) pidx p hp hb
  show ((List.range' 0 size).map fun tidx =>
      (((List.range' (A (tidx + base)) (A (tidx + base + 1) - A (tidx + base))).map
        fun pidx => if X ∈ O pidx then (base + tidx) % 256 else 0).sum)).sum = _
  rw [e1, map_shift_range' (fun l => rangeSum F (max 0 (A l)) (A (l + 1) - max 0 (A l))) base
    size 0, Nat.zero_add, rangeSum_chain _ 0 A size base (fun l h1 h2 => by
      obtain ⟨v, hv⟩ := hfb.ibl_some l (by omega)
      obtain ⟨v', hv'⟩ := hfb.ibl_some (l + 1) (by omega)
      rw [hA _ _ hv, hA _ _ hv']
      exact hfb.ibl_mono (by omega) hv hv'), Nat.zero_max]

/-- the two families together: all primes ≥ 32768. -/
theorem allClassSum_collapse {fb : FB} {r1 r2 : Array Nat} {interval nS maxprime sT sL X : Nat} (hfb : fb.WF)
    (hr : RootsOK fb r1 r2) (hnS : fb.ibl[16]? = some nS) (hmax : fb.primes.back? = some maxprime)
    (hsT : sT = min 18 (bitlen maxprime) + 1 - 16) (hsL : sL = bitlen maxprime + 1 - 19)
    (OT OV : Nat → List Nat)
    (hOT : ∀ pidx p o1 o2, fb.primes[pidx]? = some p → r1[pidx]? = some o1 → r2[pidx]? = some o2 →
      (X ∈ OT pidx ↔ (X < interval ∧ (X % p = o1 ∨ X % p = o2))))
    (hOV : ∀ pidx p o1 o2, fb.primes[pidx]? = some p → r1[pidx]? = some o1 → r2[pidx]? = some o2 →
      (X ∈ OV pidx ↔ (X < interval ∧ (X % p = o1 ∨ X % p = o2)))) :
    classSum fb OT 16 sT X + classSum fb OV 19 sL X =
      rangeSum (tabF fb r1 r2 interval X) nS (fb.primes.size - nS) := by
  have hml : bitlen maxprime ≤ 24 := by
    rw [Array.back?_eq_getElem?] at hmax
    have := (bitlen_lt_succ_iff maxprime 24).2 (hfb.lt24 _ _ hmax)
    omega
  have hconv : ∀ (O : Nat → List Nat), (∀ pidx p o1 o2, fb.primes[pidx]? = some p → r1[pidx]? = some o1 →
      r2[pidx]? = some o2 → (X ∈ O pidx ↔ (X < interval ∧ (X % p = o1 ∨ X % p = o2)))) →
      ∀ base tidx, base + tidx < 256 → ∀ pidx p, fb.primes[pidx]? = some p → bitlen p = tidx + base →
      (if X ∈ O pidx then (base + tidx) % 256 else 0) = tabF fb r1 r2 interval X pidx := by
    intro O hO base tidx hlt pidx p hp hb
    obtain ⟨o1, o2, h1, h2, hl1, hl2⟩ := hr _ _ hp
    unfold tabF
    simp only [hp, h1, h2]
    have e256 : (base + tidx) % 256 = tidx + base := by omega
    rw [e256, hb]
    exact if_congr (hO pidx p o1 o2 hp h1 h2) rfl rfl
  rw [classSum_collapse hfb (tabF fb r1 r2 interval X) OT 16 sT X (by omega)
      (fun tidx ht pidx p hp hb => hconv OT hOT 16 tidx (by omega) pidx p hp hb),
    classSum_collapse hfb (tabF fb r1 r2 interval X) OV 19 sL X (by omega)
      (fun tidx ht pidx p hp hb => hconv OV hOV 19 tidx (by omega) pidx p hp hb)]
  have hA16 : (fb.ibl[16]?).getD 0 = nS := by simp [hnS]
  rw [hA16]
  by_cases h19 : 19 ≤ bitlen maxprime
  · have eT : 16 + sT = 19 := by omega
    have eL : 19 + sL = bitlen maxprime + 1 := by omega
    obtain ⟨v19, hv19⟩ := hfb.ibl_some 19 (by omega)
    obtain ⟨vt, hvt⟩ := hfb.ibl_some (19 + sL) (by omega)
    have hvt' := ibl_top hfb hmax hvt (by omega)
    rw [eT]
    simp only [hv19, hvt, Option.getD_some, hvt']
    have m1 := hfb.ibl_mono (by omega : 16 ≤ 19) hnS hv19
    have m2 := hfb.ibl_le _ _ hv19
    have := rangeSum_concat (tabF fb r1 r2 interval X) 0 nS v19 fb.primes.size m1 m2
    simpa using this
  · have eL : sL = 0 := by omega
    subst eL
    simp only [Nat.add_zero, Nat.sub_self]
    have z : rangeSum (tabF fb r1 r2 interval X) ((fb.ibl[19]?).getD 0) 0 = 0 := by simp [rangeSum]
    rw [z, Nat.add_zero]
    congr 1
    by_cases h16 : 16 ≤ bitlen maxprime
    · have e : 16 + sT = bitlen maxprime + 1 := by omega
      obtain ⟨v, hv⟩ := hfb.ibl_some (16 + sT) (by omega)
      simp only [hv, Option.getD_some]
      rw [ibl_top hfb hmax hv (by omega)]
    · have e : sT = 0 := by omega
      subst e
      simp only [Nat.add_zero, hnS, Option.getD_some]
      rw [ibl_top hfb hmax hnS (by omega)]

end Ymq.SieveLog
