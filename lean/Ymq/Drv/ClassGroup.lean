import Ymq.Drv.Util
import Ymq.Model.ClassGroup

/-
Driver ops of property C18 (model side). Formats are those of harness/src/ops_classgroup.rs.
  relation      `p^e.p^e/L1/L2`   (`-` = no factor, `_` = no large prime)
  history       relations separated by `;`
-/
namespace Ymq.Drv
open Ymq.ClassGroup

namespace CG

def parseFac (s : String) : Option (Nat × Int) :=
  match s.splitOn "^" with
  | [p, e] => do some (← parseNat p, ← parseInt e)
  | _ => none

def parseRel (s : String) : Option Rel :=
  match s.splitOn "/" with
  | [f, l1, l2] => do
    let fs ← if f = "-" then some [] else (f.splitOn ".").mapM parseFac
    let pl (t : String) : Option (Option (Nat × Int)) :=
      if t = "_" then some none else (parseFac t).map some
    some { factors := fs, large1 := ← pl l1, large2 := ← pl l2 }
  | _ => none

def showFac (pe : Nat × Int) : String := s!"{pe.1}^{pe.2}"

def showRel (r : Rel) : String :=
  let f := if r.factors.isEmpty then "-" else ".".intercalate (r.factors.map showFac)
  let l (o : Option (Nat × Int)) := match o with | some pe => showFac pe | none => "_"
  s!"{f}/{l r.large1}/{l r.large2}"

def joinOr (sep : String) (l : List String) : String :=
  if l.isEmpty then "-" else sep.intercalate l

def showSet (s : CSet) : String :=
  let em := joinOr ";" (s.emitted.map showRel)
  let paths := ",".intercalate (s.paths.map fun (p, v) => s!"{p}:{">".intercalate (v.map toString)}")
  let st := joinOr ";" (s.doubles.map fun ((p, q), r) => s!"{p}-{q}={showRel r}")
  let rev := joinOr "," (s.doublesRev.map fun (q, p) => s!"{q}-{p}")
  let lines := joinOr ";" (s.emitted.map fun r =>
    let l := relLine r
    if l.isEmpty then "e" else ",".intercalate (l.map toString))
  s!"{em} | paths={paths} | stored={st} | rev={rev} | partials={s.nPartials} doubles={s.nDoubles} c12={s.nCombined12} cycles={showList s.nCycles} len={s.len} | lines={lines}"

/-- `p:r,p:r` -/
def parsePairs (s : String) : Option (List (Nat × Nat)) :=
  if s = "-" then some [] else
  (s.splitOn ",").mapM fun t => match t.splitOn ":" with
    | [p, r] => do some (← parseNat p, ← parseNat r)
    | _ => none

/-- `p:b:e,...` -/
def parseTriples (s : String) : Option (List (Nat × Nat × Int)) :=
  if s = "-" then some [] else
  (s.splitOn ",").mapM fun t => match t.splitOn ":" with
    | [p, b, e] => do some (← parseNat p, ← parseNat b, ← parseInt e)
    | _ => none

def parseBool (s : String) : Option Bool :=
  if s = "true" ∨ s = "1" then some true else if s = "false" ∨ s = "0" then some false else none

end CG

open CG in
def handleClassGroup : Handler
  | ["cg_b_plus", p, r, even] => do
    let p ← parseNat p; let r ← parseNat r; let even ← parseBool even
    some (match bPlus p r even with | none => "panic" | some b => toString b)
  | ["cg_crel_history", maxlarge, rels] => do
    let ml ← parseNat maxlarge
    let rs ← if rels = "-" then some [] else (rels.splitOn ";").mapM parseRel
    some (match run { maxlarge := ml } rs with | none => "panic" | some s => showSet s)
  | ["cg_classnumber", d] => do
    let d ← parseInt d
    some (toString (classNumber d))
  | ["cg_compose", a1, b1, c1, a2, b2, c2] => do
    -- the reference composition of the model (Cohen 5.4.7 + xgcd + reduce): Props/C18Group
    let a1 ← parseInt a1; let b1 ← parseInt b1; let c1 ← parseInt c1
    let a2 ← parseInt a2; let b2 ← parseInt b2; let c2 ← parseInt c2
    let g := Form.compose ⟨a1, b1, c1⟩ ⟨a2, b2, c2⟩
    some s!"{g.a} {g.b} {g.c}"
  | ["cg_reduce", a, b, c] => do
    let a ← parseInt a; let b ← parseInt b; let c ← parseInt c
    let f : Form := ⟨a, b, c⟩
    let g := f.reduce (reduceFuel f)
    some s!"{g.a} {g.b} {g.c} {showBool g.isReducedPrim}"
  | ["cg_invcheck", h, invs] => do
    let h ← parseNat h; let invs ← parseNatList invs
    some (showBool (invariantsOk h invs))
  | ["cg_relcheck", d, l] => do
    let d ← parseInt d; let l ← parseTriples l
    some (match relationTrivial d l with | none => "badroot" | some b => showBool b)
  | ["cg_relation", ty, a, b, c, x, maxprime, maxlarge, dbl, cond, fb, facs, af, lp, lq] => do
    let ty ← parseNat ty
    let a ← parseInt a; let b ← parseInt b; let c ← parseInt c; let x ← parseInt x
    let maxprime ← parseNat maxprime; let maxlarge ← parseNat maxlarge; let dbl ← parseBool dbl
    let cond ← parseNatList cond; let fb ← parsePairs fb; let facs ← parseNatList facs
    let af ← parsePairs af; let lp ← parseNat lp; let lq ← parseNat lq
    some (match relationOf (ty = 1) a b c x maxprime maxlarge dbl cond fb facs af lp lq with
      | .panic => "panic" | .skip => "skip" | .badpq => "badpq" | .rel r => showRel r)
  | ["cg_full_model", d, hflag, h, invs, rels] => do
    -- re-check of a real run by the model: reference class number (when hflag = 1), product of the
    -- invariants, triviality of the sampled relation lines
    let d ← parseInt d; let hflag ← parseNat hflag; let h ← parseNat h; let invs ← parseNatList invs
    let rs ← if rels = "-" then some [] else (rels.splitOn ";").mapM parseTriples
    let hs := if hflag = 1 then toString (classNumber d) else "-"
    let rec firstBad (i : Nat) : List (List (Nat × Nat × Int)) → String
      | [] => "ok"
      | l :: t => match relationTrivial d l with
        | some true => firstBad (i + 1) t
        | some false => s!"nontrivial:{i}"
        | none => s!"badroot:{i}"
    some s!"{hs} {showBool (invariantsOk h invs)} {firstBad 0 rs}"
  | ["cg_poly_model", ty, a, b, c, maxprime, maxlarge, dbl, cond, fb, af, items] => do
    let ty ← parseNat ty
    let a ← parseInt a; let b ← parseInt b; let c ← parseInt c
    let maxprime ← parseNat maxprime; let maxlarge ← parseNat maxlarge; let dbl ← parseBool dbl
    let cond ← parseNatList cond; let fb ← parsePairs fb; let af ← parsePairs af
    let outs ← (items.splitOn ";").mapM fun it => match it.splitOn ":" with
      | [x, facs, lp, lq] => do
        let x ← parseInt x
        let facs ← if facs = "-" then some [] else (facs.splitOn "+").mapM parseNat
        let lp ← parseNat lp; let lq ← parseNat lq
        some (match relationOf (ty = 1) a b c x maxprime maxlarge dbl cond fb facs af lp lq with
          | .panic => "panic" | .skip => "skip" | .badpq => "badpq" | .rel r => showRel r)
      | _ => none
    some (";".intercalate outs)
  | _ => none

end Ymq.Drv
