//! Sieving polynomials and their root tables (C12): src/siqs.rs, src/mpqs.rs, src/qsieve.rs.
//!
//! Every answer is `HEADER | BODY`. The header carries what the real code chose (factor base,
//! square roots, selection of A factors, A, resolved parameters); the body is what the Lean model
//! must reproduce from the header (props/c12.py builds the model request from the header).
//! A panic of the real code inside the body is printed as a trailing `panic` token.
use crate::util::*;
use bnum::cast::CastFrom;
use std::fmt::Write;
use std::panic::{catch_unwind, AssertUnwindSafe};
use yamaquasi::arith::Inverter;
use yamaquasi::fbase::FBase;
use yamaquasi::mpqs;
use yamaquasi::qsieve;
use yamaquasi::siqs;
use yamaquasi::{Int, Preferences, Uint, Verbosity};

fn auto<T: std::str::FromStr>(s: &str, f: impl FnOnce() -> T) -> Option<T> {
    if s == "auto" {
        Some(f())
    } else {
        s.parse().ok()
    }
}

fn pairs(v: &[(u32, u32)]) -> String {
    if v.is_empty() {
        return "-".to_string();
    }
    v.iter().map(|(a, b)| format!("{a}:{b}")).collect::<Vec<_>>().join(",")
}

fn header(nk: &Uint, fb: &FBase) -> String {
    format!("N={} fb={} sq={}", nk, show_list(&fb.primes), show_list(&fb.sqrts))
}

/// The five evaluation points of a dumped polynomial (same rule in Drv/Poly.lean).
fn eval_points(so: i64, idx: usize) -> [i64; 5] {
    [so, -1, 0, 1 + idx as i64, -so - 1]
}

/// siqs_walk n k fbsize nfacs mm want aidx step tail maxpolys
fn siqs_walk(a: &[&str]) -> Option<String> {
    let [n, k, fbsize, nfacs, mm, want, aidx, step, tail, maxpolys] = a else {
        return None;
    };
    let nk = uint_of(n)? * Uint::from(u32_of(k)?);
    let use_double = nk.bits() > 256;
    let fbsize: u32 = auto(fbsize, || siqs::verif_hooks::vh_fb_size(&nk, use_double))?;
    let nfacs: usize = auto(nfacs, || siqs::verif_hooks::vh_nfactors(&nk) as usize)?;
    let mm: usize = auto(mm, || siqs::verif_hooks::vh_interval_size(&nk, use_double) as usize)?;
    let want: usize = auto(want, || siqs::verif_hooks::vh_a_value_count(&nk))?;
    let (aidx, step, tail, maxpolys): (usize, usize, usize, usize) =
        (aidx.parse().ok()?, step.parse().ok()?, tail.parse().ok()?, maxpolys.parse().ok()?);
    let nint = Int::cast_from(nk);
    let fb = FBase::new(nint, fbsize);
    let mut out = header(&nk, &fb);
    write!(out, " nf={nfacs} mm={mm} want={want}").unwrap();
    // selection of the factors of A and of the A values: taken from the real code
    let sel = catch_unwind(AssertUnwindSafe(|| {
        let f = siqs::select_siqs_factors(&fb, &nint, nfacs, mm, Verbosity::Silent);
        let a_ints = siqs::select_a(&f, want, Verbosity::Silent);
        (f, a_ints)
    }));
    let Ok((f, a_ints)) = sel else {
        return Some(out + " | sel-panic");
    };
    if a_ints.is_empty() {
        return Some(out + " | no-a");
    }
    let a_int = a_ints[aidx % a_ints.len()];
    write!(out, " tgt={} na={}", f.target, a_ints.len()).unwrap();
    Some(siqs_body(out, &nint, &fb, &f, &a_int, mm, step, tail, maxpolys))
}

/// siqs_select n k fbsize nfacs mm want
/// `select_siqs_factors` followed by `select_a`: target, selection and the list of A values.
fn siqs_select(a: &[&str]) -> Option<String> {
    let [n, k, fbsize, nfacs, mm, want] = a else {
        return None;
    };
    let nk = uint_of(n)? * Uint::from(u32_of(k)?);
    let use_double = nk.bits() > 256;
    let fbsize: u32 = auto(fbsize, || siqs::verif_hooks::vh_fb_size(&nk, use_double))?;
    let nfacs: usize = auto(nfacs, || siqs::verif_hooks::vh_nfactors(&nk) as usize)?;
    let mm: usize = auto(mm, || siqs::verif_hooks::vh_interval_size(&nk, use_double) as usize)?;
    let want: usize = auto(want, || siqs::verif_hooks::vh_a_value_count(&nk))?;
    let nint = Int::cast_from(nk);
    let fb = FBase::new(nint, fbsize);
    let mut out = header(&nk, &fb);
    write!(out, " nf={nfacs} mm={mm} want={want} |").unwrap();
    let f = catch_unwind(AssertUnwindSafe(|| {
        siqs::select_siqs_factors(&fb, &nint, nfacs, mm, Verbosity::Silent)
    }));
    let Ok(f) = f else {
        return Some(out + " sel-panic");
    };
    write!(
        out,
        " tgt={} sel={}",
        f.target,
        show_list(&f.factors.iter().map(|p| p.p).collect::<Vec<_>>())
    )
    .unwrap();
    match catch_unwind(AssertUnwindSafe(|| siqs::select_a(&f, want, Verbosity::Silent))) {
        Ok(a_ints) => write!(out, " as={}", show_list(&a_ints)).unwrap(),
        Err(_) => out += " a-panic",
    }
    Some(out)
}

/// siqs_custom n k fbsize mm i1,i2,... a step tail maxpolys
/// The selection of A factors is given by indices into the factor base and A is given explicitly
/// (`Factors` is a public structure; its table of inverses is filled as `select_siqs_factors` does).
fn siqs_custom(a: &[&str]) -> Option<String> {
    let [n, k, fbsize, mm, sel, aval, step, tail, maxpolys] = a else {
        return None;
    };
    let nk = uint_of(n)? * Uint::from(u32_of(k)?);
    let fbsize: u32 = fbsize.parse().ok()?;
    let mm: usize = mm.parse().ok()?;
    let sel: Vec<usize> = list_of(sel)?;
    let a_int = uint_of(aval)?;
    let (step, tail, maxpolys): (usize, usize, usize) =
        (step.parse().ok()?, tail.parse().ok()?, maxpolys.parse().ok()?);
    let nint = Int::cast_from(nk);
    let fb = FBase::new(nint, fbsize);
    let mut out = header(&nk, &fb);
    write!(out, " nf={} mm={mm} want=0", sel.len()).unwrap();
    if sel.iter().any(|&i| i >= fb.len()) {
        return Some(out + " | sel-panic");
    }
    let factors: Vec<_> = sel.iter().map(|&i| fb.prime(i)).collect();
    let mut inverses = vec![];
    for p in &factors {
        let mut row = vec![];
        for q in &factors {
            row.push(if p.p == q.p {
                0
            } else {
                match yamaquasi::arith::inv_mod64(p.p, q.p) {
                    Some(x) => x as u32,
                    None => return Some(out + " | sel-panic"),
                }
            });
        }
        inverses.push(row);
    }
    let f = siqs::Factors {
        n: nint,
        target: bnum::types::U256::ONE,
        nfacs: sel.len(),
        factors,
        inverses,
    };
    Some(siqs_body(out, &nint, &fb, &f, &a_int, mm, step, tail, maxpolys))
}

#[allow(clippy::too_many_arguments)]
fn siqs_body(
    mut out: String,
    nint: &Int,
    fb: &FBase,
    f: &siqs::Factors,
    a_int: &Uint,
    mm: usize,
    step: usize,
    tail: usize,
    maxpolys: usize,
) -> String {
    let nint = *nint;
    let a_int = *a_int;
    let so: i64 = -(mm as i64) / 2; // as in sieve_a
    write!(
        out,
        " sel={} a={} so={} |",
        show_list(&f.factors.iter().map(|p| p.p).collect::<Vec<_>>()),
        a_int,
        so
    )
    .unwrap();
    let prefs = Preferences::default();
    let r = catch_unwind(AssertUnwindSafe(|| {
        let s = siqs::SieveSIQS::new(nint, fb, fb.bound() as u64, 0, mm, &prefs);
        let pa = siqs::prepare_a(f, &a_int, fb, so);
        let (av, afacs, fidx, roots, deltas, root0, rp) = siqs::verif_hooks_poly::vh_a_fields(&pa);
        write!(
            out,
            " A {} af={} fidx={} roots={} deltas={} root0={} rp={}",
            av,
            show_list(&afacs),
            show_list(&fidx),
            if roots.is_empty() {
                "-".to_string()
            } else {
                roots.iter().map(|r| format!("{}:{}", r[0], r[1])).collect::<Vec<_>>().join(",")
            },
            if deltas.is_empty() {
                "-".to_string()
            } else {
                deltas.iter().map(|d| show_list(d)).collect::<Vec<_>>().join(";")
            },
            show_list(&root0),
            show_list(&rp[..fb.len()])
        )
        .unwrap();
        let nf = afacs.len();
        let total = std::cmp::min(if nf == 0 { 1 } else { 1usize << (nf - 1) }, std::cmp::max(maxpolys, 1));
        let mut pol = siqs::Poly::first(&s, &pa);
        for idx in 0..total {
            if idx > 0 {
                pol.next(&s, &pa);
            }
            if idx % std::cmp::max(step, 1) == 0 || idx + tail >= total {
                let (pidx, t2, _pa, pb, pc, root, r1p, r2p) = siqs::verif_hooks_poly::vh_poly_fields(&pol);
                let ev = eval_points(so, idx)
                    .iter()
                    .map(|&x| {
                        let (v, y) = siqs::verif_hooks_poly::vh_poly_eval(&pol, x);
                        format!("{x}:{v}:{y}")
                    })
                    .collect::<Vec<_>>()
                    .join(",");
                write!(
                    out,
                    " P {} {} {} {} {} {} {} {}",
                    pidx,
                    if t2 { 2 } else { 1 },
                    pb,
                    pc,
                    root,
                    show_list(&r1p),
                    show_list(&r2p),
                    ev
                )
                .unwrap();
            }
        }
    }));
    if r.is_err() {
        out += " panic";
    }
    out
}

/// mpqs_poly n k fbsize mm d
fn mpqs_poly(a: &[&str]) -> Option<String> {
    let [n, k, fbsize, mm, d] = a else {
        return None;
    };
    let nk = uint_of(n)? * Uint::from(u32_of(k)?);
    let fbsize: u32 = fbsize.parse().ok()?;
    let mm: i64 = mm.parse().ok()?;
    let d: u128 = d.parse().ok()?;
    let fb = FBase::new(Int::cast_from(nk), fbsize);
    let mut out = header(&nk, &fb);
    // the square root of n modulo D as the real code finds it
    let drs = catch_unwind(AssertUnwindSafe(|| mpqs::sieve_for_polys(&nk, d, 1)));
    let Ok(drs) = drs else {
        return Some(out + " | sel-panic");
    };
    if drs.len() != 1 || drs[0].0 != d {
        return Some(out + " | no-d");
    }
    let r = drs[0].1;
    let so = -mm / 2; // as in mpqs_poly
    write!(out, " mm={mm} d={d} r={r} so={so} |").unwrap();
    let res = catch_unwind(AssertUnwindSafe(|| {
        let pol = mpqs::make_poly(&nk, d, &r);
        let (pa, pb, pc, bb, pd, dinv) = mpqs::verif_hooks_poly::vh_poly_fields(&pol);
        write!(out, " M {pa} {pb} {pc} {bb} {pd} {dinv}").unwrap();
        let dinvs = mpqs::verif_hooks_poly::vh_batch_inversion(&nk, &fb, vec![d]);
        write!(out, " dinv={}", show_list(&dinvs[0])).unwrap();
        let mut roots = vec![];
        for i in 0..fb.len() {
            let p = fb.p(i);
            let inv = Inverter::new(p);
            roots.push(pol.prepare_prime(p, fb.r(i), fb.div(i), &inv, dinvs[0][i], so as i32));
        }
        write!(out, " roots={}", pairs(&roots)).unwrap();
        let ev = eval_points(so, 0)
            .iter()
            .map(|&x| {
                let (v, y) = pol.eval(x);
                format!("{x}:{v}:{y}")
            })
            .collect::<Vec<_>>()
            .join(",");
        write!(out, " ev={ev}").unwrap();
    }));
    if res.is_err() {
        out += " panic";
    }
    Some(out)
}

/// mpqs_block n k fbsize mm dbase dstride maxpolys
/// `sieve_for_polys(n, dbase, dstride)` with a real width, then the first `maxpolys` polynomials through the real
/// `mpqs_poly` (hook `vh_poly_block`: chunks of 16, one batch inversion per chunk, one workspace reused, roots computed at
/// their real call site with `dinv_modp[idx]` and the real start offset, followed by the real sieve of the polynomial).
/// The polynomial itself is printed by calling `make_poly` again on the same `(d, r)` (deterministic).
fn mpqs_block(a: &[&str]) -> Option<String> {
    let [n, k, fbsize, mm, dbase, dstride, maxpolys] = a else {
        return None;
    };
    let nk = uint_of(n)? * Uint::from(u32_of(k)?);
    let fb = FBase::new(Int::cast_from(nk), fbsize.parse().ok()?);
    let mm: i64 = mm.parse().ok()?;
    let dbase: u128 = dbase.parse().ok()?;
    let dstride: usize = dstride.parse().ok()?;
    let maxpolys: usize = maxpolys.parse().ok()?;
    let mut out = header(&nk, &fb);
    let so = -mm / 2;
    write!(out, " mm={mm} so={so} dbase={dbase} dstride={dstride} |").unwrap();
    let res = catch_unwind(AssertUnwindSafe(|| {
        let drs = mpqs::sieve_for_polys(&nk, dbase, dstride);
        write!(
            out,
            " drs={}",
            if drs.is_empty() {
                "-".to_string()
            } else {
                drs.iter().map(|(d, r)| format!("{d}:{r}")).collect::<Vec<_>>().join(",")
            }
        )
        .unwrap();
        let polys = mpqs::verif_hooks_block::vh_poly_block(&nk, &fb, mm, dbase, dstride, maxpolys);
        for (d, r, r1, r2) in polys {
            let pol = mpqs::make_poly(&nk, d, &r);
            let (pa, pb, pc, bb, pd, dinv) = mpqs::verif_hooks_poly::vh_poly_fields(&pol);
            let roots: Vec<(u32, u32)> = r1.iter().cloned().zip(r2.iter().cloned()).collect();
            write!(out, " M {pa} {pb} {pc} {bb} {pd} {dinv} roots={}", pairs(&roots)).unwrap();
        }
    }));
    if res.is_err() {
        out += " panic";
    }
    Some(out)
}

/// mpqs_batchinv n k fbsize d1,d2,...   (at most 16 values, as in process_poly_block)
fn mpqs_batchinv(a: &[&str]) -> Option<String> {
    let [n, k, fbsize, ds] = a else {
        return None;
    };
    let nk = uint_of(n)? * Uint::from(u32_of(k)?);
    let fb = FBase::new(Int::cast_from(nk), fbsize.parse().ok()?);
    let ds: Vec<u128> = list_of(ds)?;
    let mut out = header(&nk, &fb);
    write!(out, " ds={} |", show_list(&ds)).unwrap();
    let res = catch_unwind(AssertUnwindSafe(|| {
        let rows = mpqs::verif_hooks_poly::vh_batch_inversion(&nk, &fb, ds.clone());
        for row in rows {
            write!(out, " {}", show_list(&row)).unwrap();
        }
    }));
    if res.is_err() {
        out += " panic";
    }
    Some(out)
}

/// qs_roots n k fbsize
fn qs_roots(a: &[&str]) -> Option<String> {
    let [n, k, fbsize] = a else {
        return None;
    };
    let nk = uint_of(n)? * Uint::from(u32_of(k)?);
    let fb = FBase::new(Int::cast_from(nk), fbsize.parse().ok()?);
    let mut out = header(&nk, &fb);
    out += " |";
    let res = catch_unwind(AssertUnwindSafe(|| {
        let (nsqrt, n2mn, odds, mods, nblocks, fwd0, bck) = qsieve::verif_hooks_poly::vh_qs_roots(&nk, &fb);
        // forward roots as the real set-up loop leaves them (`init_sieve_for_test` runs the loop of `qsieve()` for
        // the forward sieve); they must agree with the per-prime calls of the hook
        let qs = qsieve::SieveQS::new(nk, &fb, 0, false);
        let (_sieve, [f1, f2]) = qs.init_sieve_for_test();
        let fwd: Vec<(u32, u32)> = f1.iter().cloned().zip(f2.iter().cloned()).collect();
        assert!(fwd == fwd0, "init_sieve_for_test disagrees with prepare_prime_fwd");
        write!(
            out,
            " Q {} {} {} {} mods={} fwd={} bck={}",
            nsqrt,
            n2mn,
            odds,
            nblocks,
            show_list(&mods),
            pairs(&fwd),
            pairs(&bck)
        )
        .unwrap();
    }));
    if res.is_err() {
        out += " panic";
    }
    Some(out)
}

pub fn handle(op: &str, a: &[&str]) -> Option<String> {
    match op {
        "siqs_walk" => siqs_walk(a),
        "siqs_custom" => siqs_custom(a),
        "siqs_select" => siqs_select(a),
        "mpqs_poly" => mpqs_poly(a),
        "mpqs_batchinv" => mpqs_batchinv(a),
        "mpqs_block" => mpqs_block(a),
        "qs_roots" => qs_roots(a),
        _ => None,
    }
}
