/-
The store invariant of `RelationSet` (C11) and its preservation by every operation:
`add_cycle`, `combine_single`, `combine_double`, `walk_doubles` (induction on the fuel), `add`,
and by induction every finite history.
-/
import Ymq.Lemmas.RelationsPack

namespace Ymq.Relations

/-! ### association lists -/

section AList
variable {κ β : Type} [DecidableEq κ]

theorem alookup_mem {k : κ} {v : β} : ∀ {l : List (κ × β)}, alookup k l = some v → (k, v) ∈ l := by
  intro l
  induction l with
  | nil => intro h; simp [alookup] at h
  | cons e t ih =>
    obtain ⟨k', v'⟩ := e
    intro h
    unfold alookup at h
    split at h
    · rename_i hk
      simp only [Option.some.injEq] at h
      subst hk; subst h
      exact List.mem_cons_self
    · exact List.mem_cons_of_mem _ (ih h)

theorem alookup_none {k : κ} : ∀ {l : List (κ × β)}, alookup k l = none → ∀ v, (k, v) ∉ l := by
  intro l
  induction l with
  | nil => intro _ v hv; cases hv
  | cons e t ih =>
    obtain ⟨k', v'⟩ := e
    intro h v hv
    unfold alookup at h
    split at h
    · simp at h
    · rename_i hk
      rcases List.mem_cons.mp hv with hv | hv
      · simp only [Prod.mk.injEq] at hv
        exact hk hv.1.symm
      · exact ih h v hv

theorem mem_aerase {k : κ} {l : List (κ × β)} {e : κ × β} :
    e ∈ aerase k l ↔ e ∈ l ∧ e.1 ≠ k := by
  simp [aerase, List.mem_filter]

theorem mem_ainsertOrd {lt : κ → κ → Bool} {k : κ} {v : β} {e : κ × β} :
    ∀ {l : List (κ × β)}, e ∈ ainsertOrd lt k v l ↔ e = (k, v) ∨ e ∈ l := by
  intro l
  induction l with
  | nil => simp [ainsertOrd]
  | cons h t ih =>
    obtain ⟨k', v'⟩ := h
    unfold ainsertOrd
    split
    · simp
    · simp only [List.mem_cons, ih]
      tauto

theorem mem_ainsert {lt : κ → κ → Bool} {k : κ} {v : β} {l : List (κ × β)} {e : κ × β} :
    e ∈ ainsert lt k v l ↔ e = (k, v) ∨ (e ∈ l ∧ e.1 ≠ k) := by
  unfold ainsert
  rw [mem_ainsertOrd, mem_aerase]

end AList

theorem mem_sinsertOrd {a e : Nat × Nat} :
    ∀ {l : List (Nat × Nat)}, e ∈ sinsertOrd a l ↔ e = a ∨ e ∈ l := by
  intro l
  induction l with
  | nil => simp [sinsertOrd]
  | cons h t ih =>
    unfold sinsertOrd
    split
    · simp
    · simp only [List.mem_cons, ih]
      tauto

theorem mem_sinsert {a e : Nat × Nat} {l : List (Nat × Nat)} :
    e ∈ sinsert a l ↔ e = a ∨ e ∈ l := by
  unfold sinsert
  rw [mem_sinsertOrd, List.mem_filter]
  by_cases h : e = a
  · simp [h]
  · simp [h]

theorem mem_serase {a e : Nat × Nat} {l : List (Nat × Nat)} :
    e ∈ serase a l ↔ e ∈ l ∧ e ≠ a := by
  simp [serase, List.mem_filter]

/-! ### the invariant -/

/-- a packed pending relation with a single large prime `p` -/
def GoodP (n p : Nat) (b : List Nat) : Prop :=
  ∃ r, unpack b = .ok r ∧ r.cofactor = p ∧ Valid n r

/-- a packed pending relation with two large primes -/
def GoodD (n : Nat) (k : Nat × Nat) (b : List Nat) : Prop :=
  ∃ r, unpack b = .ok r ∧ r.cofactor = k.1 * k.2 ∧ Valid n r

/-- The invariant the code maintains on a `RelationSet`: every published cycle has cofactor 1 and
is a congruence; `partial[p]` decodes to a valid relation with cofactor `p`; `doubles[(p, q)]`
decodes to a valid relation with cofactor `p·q`, `p < q`; `doubles_rev` mirrors `doubles`. (Large
primes are below 2^32 and different from 1: the packed code of 2 is 1.) -/
structure Inv (s : Store) : Prop where
  cyc : ∀ r ∈ s.cycles, r.cofactor = 1 ∧ Valid s.n r
  par : ∀ e ∈ s.partials, e.1 ≠ 1 ∧ e.1 < W32 ∧ GoodP s.n e.1 e.2
  dbl : ∀ e ∈ s.doubles, e.1.1 < e.1.2 ∧ e.1.1 ≠ 1 ∧ e.1.2 ≠ 1 ∧ e.1.2 < W32 ∧ GoodD s.n e.1 e.2
  rev : ∀ p q, (q, p) ∈ s.doublesRev ↔ ∃ b, ((p, q), b) ∈ s.doubles

/-- outcome of a store operation: same modulus, invariant holds -/
def Keeps (s s' : Store) : Prop := s'.n = s.n ∧ s'.maxlarge = s.maxlarge ∧ Inv s'

theorem Keeps.refl {s : Store} (h : Inv s) : Keeps s s := ⟨rfl, rfl, h⟩

theorem Keeps.trans {s s1 s2 : Store} (h1 : Keeps s s1) (h2 : Keeps s1 s2) : Keeps s s2 :=
  ⟨h2.1.trans h1.1, h2.2.1.trans h1.2.1, h2.2.2⟩

theorem inv_new (n fbsize maxlarge : Nat) : Inv (Store.new n fbsize maxlarge) := by
  refine ⟨?_, ?_, ?_, ?_⟩
  · intro r hr; cases hr
  · intro e he; cases he
  · intro e he; cases he
  · intro p q
    constructor
    · intro h; cases h
    · rintro ⟨b, h⟩; cases h

theorem W32_lt_I63 {p : Nat} (h : p < W32) : p < I63 :=
  lt_trans h (by decide)

theorem toI64_ne_one {p : Nat} (h : p < W32) (h1 : p ≠ 1) : toI64 p ≠ 1 := by
  rw [toI64_small (W32_lt_I63 h)]
  intro hc
  exact h1 (by exact_mod_cast hc)

theorem inv_setPartial {s : Store} (h : Inv s) {p : Nat} {b : List Nat} (hp1 : p ≠ 1)
    (hp32 : p < W32) (hg : GoodP s.n p b) : Inv (s.setPartial p b) := by
  refine ⟨h.cyc, ?_, h.dbl, h.rev⟩
  intro e he
  simp only [Store.setPartial] at he
  rw [mem_ainsert] at he
  rcases he with he | ⟨he, _⟩
  · subst he; exact ⟨hp1, hp32, hg⟩
  · exact h.par e he

theorem keeps_setPartial {s : Store} (h : Inv s) {p : Nat} {b : List Nat} (hp1 : p ≠ 1)
    (hp32 : p < W32) (hg : GoodP s.n p b) : Keeps s (s.setPartial p b) :=
  ⟨rfl, rfl, inv_setPartial h hp1 hp32 hg⟩

/-! ### `add_cycle` -/

theorem addCycle_ok {r : Relation} {s s' : Store} (h : addCycle r s = .ok s') :
    r.cofactor = 1 ∧ 0 < r.cyclelen ∧
    s' = { s with nCycles := bumpAt (min 8 r.cyclelen - 1) s.nCycles, cycles := s.cycles ++ [r] } := by
  unfold addCycle at h
  split at h
  · simp [throw_ne_ok] at h
  · rename_i hc
    split at h
    · simp [throw_ne_ok] at h
    · rename_i hl
      simp only [pure_eq_ok] at h
      exact ⟨by simpa using hc, Nat.pos_of_ne_zero hl, h.symm⟩

theorem addCycle_keeps {r : Relation} {s s' : Store} (h : addCycle r s = .ok s') (hi : Inv s)
    (hv : Valid s.n r) : Keeps s s' ∧ s'.partials = s.partials ∧ s'.doubles = s.doubles ∧
      s'.doublesRev = s.doublesRev ∧ s'.cycles = s.cycles ++ [r] := by
  obtain ⟨hc, _, hs⟩ := addCycle_ok h
  subst hs
  refine ⟨⟨rfl, rfl, ⟨?_, hi.par, hi.dbl, hi.rev⟩⟩, rfl, rfl, rfl, rfl⟩
  intro r' hr'
  simp only [List.mem_append, List.mem_singleton] at hr'
  rcases hr' with hr' | hr'
  · exact hi.cyc r' hr'
  · subst hr'; exact ⟨hc, hv⟩

/-! ### combining with a stored single-large-prime relation -/

/-- `combine r rp` where `rp` is a stored relation with cofactor `p` dividing `r.cofactor` -/
theorem combine_stored {n : Nat} {r rp rr : Relation} {p : Nat} (h : combine n r rp = .ok rr)
    (hr : Valid n r) (hrt : Typed r) (hrn : NoOne r.factors)
    (hp : Valid n rp) (hpt : Typed rp) (hpn : NoOne rp.factors)
    (hc : rp.cofactor = p) (hdvd : r.cofactor % p = 0) (hp1 : p ≠ 1) (hp32 : p < W32) :
    Valid n rr ∧ Typed rr ∧ NoOne rr.factors ∧ rr.x < n ∧ rr.cofactor * p = r.cofactor := by
  have hd : divisorCof r rp = p := by unfold divisorCof; rw [hc, if_pos hdvd, ]
  refine ⟨combine_valid' h hr hp (by rw [hd]; exact W32_lt_I63 hp32), combine_typed h hrt hpt,
    combine_noOne h hrn hpn (by rw [hd]; exact toI64_ne_one hp32 hp1), combine_x_lt h, ?_⟩
  obtain ⟨_, _, _, _, _, _, hcase⟩ := combine_ok h
  rcases hcase with ⟨_, _, hcof, _⟩ | ⟨_, _, hmod, _⟩
  · rw [hcof, hc]; exact Nat.div_mul_cancel (Nat.dvd_of_mod_eq_zero hdvd)
  · rw [hc] at hmod; exact absurd hdvd hmod

theorem goodP_of_pack {n : Nat} {r : Relation} {b : List Nat} (h : pack r = .ok b) (hty : Typed r)
    (hno : NoOne r.factors) (hx : r.x < X512) (hv : Valid n r) : GoodP n r.cofactor b := by
  obtain ⟨r', h1, _, h2, _, _, h3⟩ := pack_good h hty hno hx hv
  exact ⟨r', h1, h2, h3⟩

theorem combineSingle_keeps {r : Relation} {s s' : Store} {done : Bool}
    (h : combineSingle r s = .ok (done, s')) (hi : Inv s) (hn : s.n ≤ X512)
    (hrt : Typed r) (hrn : NoOne r.factors) (hrv : Valid s.n r) (hx : r.x < s.n) :
    Keeps s s' := by
  unfold combineSingle at h
  split at h
  · simp only [pure_eq_ok, Prod.mk.injEq] at h
    rw [← h.2]; exact Keeps.refl hi
  · rename_i blob hlook
    obtain ⟨hk1, hk32, r0', hu', hc', hv'⟩ := hi.par _ (alookup_mem hlook)
    simp only at hk1 hk32 hu' hc' hv'
    simp only [bind_eq_ok] at h
    obtain ⟨r0, hu, rr, hcomb, h⟩ := h
    rw [hu'] at hu
    cases hu
    obtain ⟨ht0, hn0, _⟩ := unpack_facts hu'
    have hcs := combine_stored hcomb hrv hrt hrn hv' ht0 hn0 hc' (Nat.mod_self _) hk1 hk32
    split at h
    · simp only [pure_eq_ok, Prod.mk.injEq] at h
      rw [← h.2]; exact Keeps.refl hi
    · split at h
      · simp only [bind_eq_ok] at h
        obtain ⟨s1, hs1, h⟩ := h
        obtain ⟨hk, hp, _, _, _⟩ := addCycle_keeps hs1 hi hcs.1
        split at h
        · simp only [bind_eq_ok, pure_eq_ok, Prod.mk.injEq] at h
          obtain ⟨b, hb, _, h⟩ := h
          rw [← h]
          refine hk.trans (keeps_setPartial hk.2.2 hk1 hk32 ?_)
          rw [hk.1]
          exact goodP_of_pack hb hrt hrn (lt_of_lt_of_le hx hn) hrv
        · simp only [pure_eq_ok, Prod.mk.injEq] at h
          rw [← h.2]; exact hk
      · simp [throw_ne_ok] at h

/-! ### `combine_double` with an arbitrary invariant-preserving `walk` -/

theorem valid_square {n : Nat} {r : Relation} {p : Nat} (hv : Valid n r) (hc : r.cofactor = p * p)
    (hp : p < W32) :
    Valid n { r with cofactor := 1, factors := r.factors ++ [(toI64 p, 2)] } := by
  unfold Valid at *
  simp only [fprod_append, fprod_cons, fprod_nil, toI64_small (W32_lt_I63 hp)]
  rw [hc] at hv
  refine hv.trans ?_
  push_cast
  ring_nf
  rfl

theorem combineDouble_keeps {walk : Nat → Store → M Store}
    (hwalk : ∀ root s s', Inv s → s.n ≤ X512 → walk root s = .ok s' → Keeps s s')
    {r : Relation} {p q : Nat} {s s' : Store} {done : Bool}
    (h : combineDouble walk r p q s = .ok (done, s')) (hi : Inv s) (hn : s.n ≤ X512)
    (hrt : Typed r) (hrn : NoOne r.factors) (hrv : Valid s.n r)
    (hc : r.cofactor = p * q) (hp1 : p ≠ 1) (hq1 : q ≠ 1) (hp32 : p < W32) (hq32 : q < W32) :
    Keeps s s' := by
  unfold combineDouble at h
  split at h
  · rename_i hpq
    subst hpq
    simp only [bind_eq_ok, pure_eq_ok, Prod.mk.injEq] at h
    obtain ⟨s1, hs1, _, h⟩ := h
    rw [← h]
    exact (addCycle_keeps hs1 hi (valid_square hrv hc hp32)).1
  · split at h
    · -- both primes available
      rename_i bp bq hlp hlq
      obtain ⟨_, _, rp', hup', hcp, hvp⟩ := hi.par _ (alookup_mem hlp)
      obtain ⟨_, _, rq', huq', hcq, hvq⟩ := hi.par _ (alookup_mem hlq)
      simp only at hup' hcp hvp huq' hcq hvq
      simp only [bind_eq_ok] at h
      obtain ⟨rp, hup, rq, huq, r1, hr1, r2, hr2, s1, hs1, h⟩ := h
      rw [hup'] at hup; cases hup
      rw [huq'] at huq; cases huq
      obtain ⟨htp, hnp, _⟩ := unpack_facts hup'
      obtain ⟨htq, hnq, _⟩ := unpack_facts huq'
      have h1 := combine_stored hr1 hrv hrt hrn hvp htp hnp hcp
        (by rw [hc]; exact Nat.mul_mod_right _ _) hp1 hp32
      have hr1c : r1.cofactor % q = 0 := by
        have := h1.2.2.2.2
        rw [hc] at this
        by_cases hp0 : p = 0
        · subst hp0
          -- `combine` divides by the stored cofactor 0: it cannot have returned
          obtain ⟨_, _, _, _, _, _, hcase⟩ := combine_ok hr1
          rcases hcase with ⟨hz, _⟩ | ⟨_, hz, _⟩ <;> exact absurd hcp hz
        · have : r1.cofactor = q := by
            have hpos : 0 < p := Nat.pos_of_ne_zero hp0
            rw [Nat.mul_comm p q] at this
            exact Nat.eq_of_mul_eq_mul_right hpos this
          rw [this]; exact Nat.mod_self _
      have h2 := combine_stored hr2 h1.1 h1.2.1 h1.2.2.1 hvq htq hnq hcq hr1c hq1 hq32
      obtain ⟨hk, hpar, _, _, _⟩ := addCycle_keeps hs1 hi h2.1
      split at h
      · simp only [bind_eq_ok] at h
        obtain ⟨rpq, hrpq, h⟩ := h
        split at h
        · simp [throw_ne_ok] at h
        · rename_i hcof
          simp only [not_not] at hcof
          simp only [bind_eq_ok, pure_eq_ok, Prod.mk.injEq] at h
          obtain ⟨b, hb, _, h⟩ := h
          rw [← h]
          have h3 := combine_stored hrpq hrv hrt hrn hvp htp hnp hcp
            (by rw [hc]; exact Nat.mul_mod_right _ _) hp1 hp32
          refine hk.trans (keeps_setPartial hk.2.2 hq1 hq32 ?_)
          rw [hk.1, ← hcof]
          exact goodP_of_pack hb h3.2.1 h3.2.2.1 (lt_of_lt_of_le h3.2.2.2.1 hn) h3.1
      · split at h
        · simp only [bind_eq_ok] at h
          obtain ⟨rqp, hrqp, h⟩ := h
          split at h
          · simp [throw_ne_ok] at h
          · rename_i hcof
            simp only [not_not] at hcof
            simp only [bind_eq_ok, pure_eq_ok, Prod.mk.injEq] at h
            obtain ⟨b, hb, _, h⟩ := h
            rw [← h]
            have h3 := combine_stored hrqp hrv hrt hrn hvq htq hnq hcq
              (by rw [hc]; exact Nat.mul_mod_left _ _) hq1 hq32
            refine hk.trans (keeps_setPartial hk.2.2 hp1 hp32 ?_)
            rw [hk.1, ← hcof]
            exact goodP_of_pack hb h3.2.1 h3.2.2.1 (lt_of_lt_of_le h3.2.2.2.1 hn) h3.1
        · simp only [pure_eq_ok, Prod.mk.injEq] at h
          rw [← h.2]; exact hk
    · -- only p available
      rename_i bp hlp hlq
      obtain ⟨_, _, rp', hup', hcp, hvp⟩ := hi.par _ (alookup_mem hlp)
      simp only at hup' hcp hvp
      simp only [bind_eq_ok] at h
      obtain ⟨rp, hup, rq, hrq, h⟩ := h
      rw [hup'] at hup; cases hup
      obtain ⟨htp, hnp, _⟩ := unpack_facts hup'
      have h3 := combine_stored hrq hrv hrt hrn hvp htp hnp hcp
        (by rw [hc]; exact Nat.mul_mod_right _ _) hp1 hp32
      split at h
      · simp [throw_ne_ok] at h
      · rename_i hcof
        simp only [not_not] at hcof
        simp only [bind_eq_ok, pure_eq_ok, Prod.mk.injEq] at h
        obtain ⟨b, hb, s1, hs1, _, h⟩ := h
        rw [← h]
        have hi0 : Inv { s with nCombined12 := s.nCombined12 + 1 } :=
          ⟨hi.cyc, hi.par, hi.dbl, hi.rev⟩
        have hk1 : Keeps s ({ s with nCombined12 := s.nCombined12 + 1 }.setPartial q b) := by
          refine ⟨rfl, rfl, inv_setPartial hi0 hq1 hq32 ?_⟩
          rw [← hcof]
          exact goodP_of_pack hb h3.2.1 h3.2.2.1 (lt_of_lt_of_le h3.2.2.2.1 hn) h3.1
        exact hk1.trans (hwalk _ _ _ hk1.2.2 (by rw [hk1.1]; exact hn) hs1)
    · -- only q available
      rename_i bq hlp hlq
      obtain ⟨_, _, rq', huq', hcq, hvq⟩ := hi.par _ (alookup_mem hlq)
      simp only at huq' hcq hvq
      simp only [bind_eq_ok] at h
      obtain ⟨rq, huq, rp, hrp, h⟩ := h
      rw [huq'] at huq; cases huq
      obtain ⟨htq, hnq, _⟩ := unpack_facts huq'
      have h3 := combine_stored hrp hrv hrt hrn hvq htq hnq hcq
        (by rw [hc]; exact Nat.mul_mod_left _ _) hq1 hq32
      split at h
      · simp [throw_ne_ok] at h
      · rename_i hcof
        simp only [not_not] at hcof
        simp only [bind_eq_ok, pure_eq_ok, Prod.mk.injEq] at h
        obtain ⟨b, hb, s1, hs1, _, h⟩ := h
        rw [← h]
        have hi0 : Inv { s with nCombined12 := s.nCombined12 + 1 } :=
          ⟨hi.cyc, hi.par, hi.dbl, hi.rev⟩
        have hk1 : Keeps s ({ s with nCombined12 := s.nCombined12 + 1 }.setPartial p b) := by
          refine ⟨rfl, rfl, inv_setPartial hi0 hp1 hp32 ?_⟩
          rw [← hcof]
          exact goodP_of_pack hb h3.2.1 h3.2.2.1 (lt_of_lt_of_le h3.2.2.2.1 hn) h3.1
        exact hk1.trans (hwalk _ _ _ hk1.2.2 (by rw [hk1.1]; exact hn) hs1)
    · simp only [pure_eq_ok, Prod.mk.injEq] at h
      rw [← h.2]; exact Keeps.refl hi

/-! ### `walk_doubles` -/

theorem inv_erase_double {s : Store} (hi : Inv s) (p q : Nat) :
    Inv { s with doubles := aerase (p, q) s.doubles, doublesRev := serase (q, p) s.doublesRev } := by
  refine ⟨hi.cyc, hi.par, ?_, ?_⟩
  · intro e he
    exact hi.dbl e (mem_aerase.mp he).1
  · intro p' q'
    simp only [mem_serase, mem_aerase, hi.rev p' q']
    constructor
    · rintro ⟨⟨b, hb⟩, hne⟩
      refine ⟨b, hb, ?_⟩
      intro heq
      simp only [Prod.mk.injEq] at heq
      exact hne (by rw [heq.1, heq.2])
    · rintro ⟨b, hb, hne⟩
      refine ⟨⟨b, hb⟩, ?_⟩
      intro heq
      simp only [Prod.mk.injEq] at heq
      exact hne (by rw [heq.1, heq.2])

theorem walkStep_keeps {walk : Nat → Store → M Store}
    (hwalk : ∀ root s s', Inv s → s.n ≤ X512 → walk root s = .ok s' → Keeps s s')
    {p q : Nat} {s s' : Store} (h : walkStep walk p q s = .ok s') (hi : Inv s) (hn : s.n ≤ X512) :
    Keeps s s' := by
  unfold walkStep at h
  split at h
  · simp only [pure_eq_ok] at h
    rw [← h]; exact Keeps.refl hi
  · rename_i blob hlook
    obtain ⟨hlt, hp1, hq1, hq32, r', hu', hc', hv'⟩ := hi.dbl _ (alookup_mem hlook)
    simp only at hlt hp1 hq1 hq32 hu' hc' hv'
    simp only [bind_eq_ok] at h
    obtain ⟨r, hu, res, hres, h⟩ := h
    rw [hu'] at hu; cases hu
    obtain ⟨ht, hno, _⟩ := unpack_facts hu'
    split at h
    · simp only [pure_eq_ok] at h
      rw [← h]
      have hi0 := inv_erase_double hi p q
      have hk0 : Keeps s { s with doubles := aerase (p, q) s.doubles, doublesRev := serase (q, p) s.doublesRev } :=
        ⟨rfl, rfl, hi0⟩
      refine hk0.trans ?_
      exact combineDouble_keeps hwalk (done := res.1) (s' := res.2) hres hi0 hn ht hno hv' hc'
        hp1 hq1 (lt_trans hlt hq32) hq32
    · simp [throw_ne_ok] at h

theorem walkLoop1_keeps {walk : Nat → Store → M Store}
    (hwalk : ∀ root s s', Inv s → s.n ≤ X512 → walk root s = .ok s' → Keeps s s') :
    ∀ (l : List (Nat × Nat)) (s s' : Store), walkLoop1 walk l s = .ok s' → Inv s → s.n ≤ X512 →
      Keeps s s' := by
  intro l
  induction l with
  | nil =>
    intro s s' h hi _
    simp only [walkLoop1, pure_eq_ok] at h
    rw [← h]; exact Keeps.refl hi
  | cons e t ih =>
    obtain ⟨p, q⟩ := e
    intro s s' h hi hn
    simp only [walkLoop1, bind_eq_ok] at h
    obtain ⟨s1, hs1, h⟩ := h
    have hk := walkStep_keeps hwalk hs1 hi hn
    exact hk.trans (ih s1 s' h hk.2.2 (by rw [hk.1]; exact hn))

theorem walkLoop2_keeps {walk : Nat → Store → M Store}
    (hwalk : ∀ root s s', Inv s → s.n ≤ X512 → walk root s = .ok s' → Keeps s s') :
    ∀ (l : List (Nat × Nat)) (s s' : Store), walkLoop2 walk l s = .ok s' → Inv s → s.n ≤ X512 →
      Keeps s s' := by
  intro l
  induction l with
  | nil =>
    intro s s' h hi _
    simp only [walkLoop2, pure_eq_ok] at h
    rw [← h]; exact Keeps.refl hi
  | cons e t ih =>
    obtain ⟨q, p⟩ := e
    intro s s' h hi hn
    simp only [walkLoop2, bind_eq_ok] at h
    obtain ⟨s1, hs1, h⟩ := h
    have hk := walkStep_keeps hwalk hs1 hi hn
    exact hk.trans (ih s1 s' h hk.2.2 (by rw [hk.1]; exact hn))

theorem walkRec_keeps {walk : Nat → Store → M Store}
    (hwalk : ∀ root s s', Inv s → s.n ≤ X512 → walk root s = .ok s' → Keeps s s') (root : Nat) :
    ∀ (l : List (Nat × Nat)) (s s' : Store), walkRec walk root l s = .ok s' → Inv s → s.n ≤ X512 →
      Keeps s s' := by
  intro l
  induction l with
  | nil =>
    intro s s' h hi _
    simp only [walkRec, pure_eq_ok] at h
    rw [← h]; exact Keeps.refl hi
  | cons e t ih =>
    obtain ⟨a, b⟩ := e
    intro s s' h hi hn
    unfold walkRec at h
    split at h
    · simp [throw_ne_ok] at h
    · simp only [bind_eq_ok] at h
      obtain ⟨s1, hs1, h⟩ := h
      have hk := hwalk _ _ _ hi hn hs1
      exact hk.trans (ih s1 s' h hk.2.2 (by rw [hk.1]; exact hn))

theorem walkDoubles_keeps : ∀ (fuel root : Nat) (s s' : Store), Inv s → s.n ≤ X512 →
    walkDoubles fuel root s = .ok s' → Keeps s s' := by
  intro fuel
  induction fuel with
  | zero => intro root s s' _ _ h; simp [walkDoubles, throw_ne_ok] at h
  | succ fuel ih =>
    intro root s s' hi hn h
    unfold walkDoubles at h
    split at h
    · simp [throw_ne_ok] at h
    · simp only [bind_eq_ok] at h
      obtain ⟨s1, hs1, s2, hs2, s3, hs3, h⟩ := h
      have k1 := walkLoop1_keeps ih _ _ _ hs1 hi hn
      have k2 := walkLoop2_keeps ih _ _ _ hs2 k1.2.2 (by rw [k1.1]; exact hn)
      have k12 := k1.trans k2
      have k3 := walkRec_keeps ih root _ _ _ hs3 k12.2.2 (by rw [k12.1]; exact hn)
      have k123 := k12.trans k3
      have k4 := walkRec_keeps ih root _ _ _ h k123.2.2 (by rw [k123.1]; exact hn)
      exact k123.trans k4

/-! ### `add` and histories -/

/-- what the callers of `add` guarantee about the relation they hand over (validity part):
Rust types, a true congruence, no factor entry with base 1, and — when a pair is supplied — the
cofactor is the product of the pair, neither element being 1. -/
structure InputOK (n : Nat) (r : Relation) (pq : Option (Nat × Nat)) : Prop where
  typed : Typed r
  valid : Valid n r
  noOne : NoOne r.factors
  pair : ∀ p q, pq = some (p, q) → r.cofactor = p * q ∧ p ≠ 1 ∧ q ≠ 1

theorem add_keeps {r : Relation} {pq : Option (Nat × Nat)} {s s' : Store}
    (h : add r pq s = .ok s') (hi : Inv s) (hn : s.n ≤ X512) (hin : InputOK s.n r pq) :
    Keeps s s' := by
  obtain ⟨hrt, hrv, hrn, hpair⟩ := hin
  unfold add at h
  split at h
  · simp [throw_ne_ok] at h
  · rename_i hx
    simp only [not_not] at hx
    split at h
    · exact (addCycle_keeps h hi hrv).1
    · rename_i hc1
      split at h
      · -- single large prime
        simp only [bind_eq_ok] at h
        obtain ⟨res, hres, h⟩ := h
        have hi0 : Inv { s with nPartials := s.nPartials + 1 } := ⟨hi.cyc, hi.par, hi.dbl, hi.rev⟩
        have hk0 : Keeps s { s with nPartials := s.nPartials + 1 } := ⟨rfl, rfl, hi0⟩
        have hk1 : Keeps s res.2 :=
          hk0.trans (combineSingle_keeps (done := res.1) (s' := res.2) hres hi0 hn hrt hrn hrv hx)
        split at h
        · simp only [pure_eq_ok] at h
          rw [← h]; exact hk1
        · simp only [bind_eq_ok] at h
          obtain ⟨b, hb, h⟩ := h
          split at h
          · simp [throw_ne_ok] at h
          · rename_i h32
            have hk2 : Keeps s (res.2.setPartial r.cofactor b) := by
              refine hk1.trans (keeps_setPartial hk1.2.2 hc1 (by omega) ?_)
              rw [hk1.1]
              exact goodP_of_pack hb hrt hrn (lt_of_lt_of_le hx hn) hrv
            exact hk2.trans (walkDoubles_keeps _ _ _ _ hk2.2.2 (by rw [hk2.1]; exact hn) h)
      · split at h
        · simp only [pure_eq_ok] at h
          rw [← h]; exact Keeps.refl hi
        · rename_i p q
          obtain ⟨hc, hp1, hq1⟩ := hpair p q rfl
          split at h
          · simp [throw_ne_ok] at h
          · rename_i h32
            have hp32 : p < W32 := by omega
            have hq32 : q < W32 := by omega
            simp only [bind_eq_ok] at h
            obtain ⟨res, hres, h⟩ := h
            have hi0 : Inv { s with nDoubles := s.nDoubles + 1 } := ⟨hi.cyc, hi.par, hi.dbl, hi.rev⟩
            have hk0 : Keeps s { s with nDoubles := s.nDoubles + 1 } := ⟨rfl, rfl, hi0⟩
            have hk1 : Keeps s res.2 := hk0.trans
              (combineDouble_keeps (fun root s s' a b c => walkDoubles_keeps _ root s s' a b c)
                (done := res.1) (s' := res.2) hres hi0 hn hrt hrn hrv hc hp1 hq1 hp32 hq32)
            split at h
            · simp only [pure_eq_ok] at h
              rw [← h]; exact hk1
            · rename_i hdone
              simp only [bind_eq_ok, pure_eq_ok] at h
              obtain ⟨b, hb, h⟩ := h
              rw [← h]
              -- the only way `combine_double` declines is p ≠ q
              have hne : p ≠ q := by
                intro hpq
                unfold combineDouble at hres
                rw [if_pos hpq] at hres
                simp only [bind_eq_ok, pure_eq_ok] at hres
                obtain ⟨_, _, hres⟩ := hres
                rw [← hres] at hdone
                exact hdone rfl
              have hg := goodP_of_pack (n := res.2.n) hb hrt hrn (lt_of_lt_of_le hx hn)
                (by rw [hk1.1]; exact hrv)
              obtain ⟨r', hu', hc', hv'⟩ := hg
              have hi1 := hk1.2.2
              refine ⟨hk1.1, hk1.2.1, ⟨hi1.cyc, hi1.par, ?_, ?_⟩⟩
              · intro e he
                rw [mem_ainsert] at he
                rcases he with he | ⟨he, _⟩
                · subst he
                  by_cases hlt : p < q
                  · simp only [if_pos hlt]
                    exact ⟨hlt, hp1, hq1, hq32, r', hu', by rw [hc', hc], hv'⟩
                  · simp only [if_neg hlt]
                    exact ⟨by omega, hq1, hp1, hp32, r', hu', by rw [hc', hc, Nat.mul_comm], hv'⟩
                · exact hi1.dbl e he
              · intro p' q'
                rw [mem_sinsert, hi1.rev p' q']
                constructor
                · rintro (heq | ⟨b', hb'⟩)
                  · refine ⟨b, ?_⟩
                    rw [mem_ainsert]
                    left
                    simp only [Prod.mk.injEq] at heq
                    rw [heq.1, heq.2]
                  · by_cases hk : (p', q') = (if p < q then (p, q) else (q, p))
                    · refine ⟨b, ?_⟩
                      rw [mem_ainsert]; left; rw [hk]
                    · refine ⟨b', ?_⟩
                      rw [mem_ainsert]; right; exact ⟨hb', hk⟩
                · rintro ⟨b', hb'⟩
                  rw [mem_ainsert] at hb'
                  rcases hb' with hb' | ⟨hb', _⟩
                  · left
                    simp only [Prod.mk.injEq] at hb'
                    rw [← hb'.1]
                  · right; exact ⟨b', hb'⟩

/-- contract of a whole history: every relation handed to `add` is valid for the modulus -/
def HistoryOK (n : Nat) (ops : List (Relation × Option (Nat × Nat))) : Prop :=
  ∀ op ∈ ops, InputOK n op.1 op.2

theorem runHistory_keeps : ∀ (ops : List (Relation × Option (Nat × Nat))) (s s' : Store),
    runHistory ops s = .ok s' → Inv s → s.n ≤ X512 → HistoryOK s.n ops → Keeps s s' := by
  intro ops
  induction ops with
  | nil =>
    intro s s' h hi _ _
    simp only [runHistory, pure_eq_ok] at h
    rw [← h]; exact Keeps.refl hi
  | cons op t ih =>
    obtain ⟨r, pq⟩ := op
    intro s s' h hi hn hok
    simp only [runHistory, bind_eq_ok] at h
    obtain ⟨s1, hs1, h⟩ := h
    have hk := add_keeps hs1 hi hn (hok (r, pq) (by simp))
    refine hk.trans (ih s1 s' h hk.2.2 (by rw [hk.1]; exact hn) ?_)
    intro op hop
    rw [hk.1]
    exact hok op (List.mem_cons_of_mem _ hop)

end Ymq.Relations
