/-
Closing the oracle contract `OracleOK` of the `Factor` control-flow model (C01/C03/C05) against
the MODELS of the sub-algorithms verified by the other properties:

  clause            discharged from                                        predicate on the oracle
  pp                C08 `perfect_power_spec`        (Model/Arith.lean)      `UsesPerfectPower`
  sieveDivs, qs64   C11 `final_step_proper`         (Model/Relations.lean)  `UsesFinalStep`, `UsesQs64`
  rho               C16 `rho64_proper`              (Model/ExpModn.lean)    `UsesRho64`
  pm1q, pm1         C16 `check_gcd_factors_inv`, `pm1_polyeval_inv`,
                        `pm1_result_proper`                                  `UsesPm1`
  ecmauto/ecm/ecm128  C16 `guard_proper`, `check_gcd_factor_proper`          `UsesEcmExits`
  squfof            exits of squfof.rs (+ named fact `p_prev < n`)            `UsesSqufofExit`
  sieveUnexpected   fbase.rs `check_divisors`; `d ≠ n` kept                   `UsesUnexpectedFactor`, `ResidualOK`

Each `Uses…` predicate says "whatever this oracle field returns is an output of the modelled
function (for SOME inputs of the parts that stay abstract: relations, kernel vectors, value
lists, seeds)". Like `UsesPseudoprime` (Props/C02C06.lean) they are tied to the code by the
correspondence streams of the property that owns the model.
-/
import Ymq.Lemmas.FactorTop
import Ymq.Props.C08
import Ymq.Props.C11
import Ymq.Props.C16
import Mathlib.Tactic.Ring

namespace Ymq.Factor

variable {σ : Type}

/-! ### (1) perfect powers — C08 -/

/-- the `pp` field only returns what the modelled `arith::perfect_power` returns (lib.rs:233-240
calls the same generic function on the `u64` and on the `Uint` path; the model is over `Nat`). -/
def UsesPerfectPower (o : Oracle σ) : Prop :=
  ∀ t n r, (o.pp t n).1 = some r → Ymq.Arith.perfectPower n = some (some r)

theorem pp_clause {o : Oracle σ} (h : UsesPerfectPower o) :
    ∀ s n p k, 2 ≤ n → (o.pp s n).1 = some (p, k) → p ^ k = n ∧ 2 ≤ k ∧ 2 ≤ p := by
  intro s n p k hn hpp
  have hspec := Ymq.C08.perfect_power_spec n (some (p, k)) (h s n (p, k) hpp)
  obtain ⟨hpk, hk⟩ : p ^ k = n ∧ 2 ≤ k := hspec
  refine ⟨hpk, hk, ?_⟩
  rcases Nat.lt_or_ge p 2 with hp | hp
  · have hp01 : p = 0 ∨ p = 1 := by omega
    rcases hp01 with rfl | rfl
    · rw [Nat.zero_pow (by omega)] at hpk; omega
    · rw [Nat.one_pow] at hpk; omega
  · exact hp

/-! ### (2) sieve divisors and qsieve64 — C11 -/

/-- a non-empty divisor list returned by `qsieve`/`mpqs`/`siqs` is the output of the modelled
`relations::final_step` for SOME factor base, relations, kernel vectors and primality answers
(qsieve.rs:227, mpqs.rs:210, siqs.rs:173; the empty list is also returned on abort / failure). -/
def UsesFinalStep (o : Oracle σ) : Prop :=
  ∀ t alg n ds, (o.sieve t alg n).1 = .divs ds → ds = [] ∨
    ∃ fb rels kernel isPrime slots cnt,
      Ymq.Relations.finalStep n fb rels kernel isPrime = .ok (slots, cnt, ds)

theorem sieveDivs_clause {o : Oracle σ} (h : UsesFinalStep o) :
    ∀ s alg n ds, 2 ≤ n → (o.sieve s alg n).1 = .divs ds → ∀ d ∈ ds, d ∣ n ∧ 0 < d := by
  intro s alg n ds _ hs d hd
  rcases h s alg n ds hs with rfl | ⟨fb, rels, kernel, isPrime, slots, cnt, hfs⟩
  · simp at hd
  · obtain ⟨h1, _, h3⟩ := Ymq.C11.final_step_proper n fb rels kernel isPrime slots cnt ds hfs d hd
    exact ⟨h3, by omega⟩

/-- `qsieve64::qsieve` (qsieve64.rs:154-161): `divs = final_step(..)`, `p = divs.first()`,
`assert_eq!(n % p, 0)`, result `(p, n / p)`. -/
def UsesQs64 (o : Oracle σ) : Prop :=
  ∀ t n a b, (o.qs64 t n).1 = some (a, b) →
    ∃ fb rels kernel isPrime slots cnt ds,
      Ymq.Relations.finalStep n fb rels kernel isPrime = .ok (slots, cnt, ds) ∧
      ds.head? = some a ∧ b = n / a

theorem pairOK_of_proper {n a : Nat} (h1 : 1 < a) (h2 : a < n) (h3 : a ∣ n) : PairOK n a (n / a) := by
  have hmul : a * (n / a) = n := Nat.mul_div_cancel' h3
  refine ⟨hmul, h1, ?_⟩
  rcases Nat.lt_or_ge (n / a) 2 with h4 | h4
  · have : n / a ≤ 1 := by omega
    have : a * (n / a) ≤ a * 1 := Nat.mul_le_mul_left a this
    omega
  · exact h4

theorem qs64_clause {o : Oracle σ} (h : UsesQs64 o) :
    ∀ s n a b, 2 ≤ n → (o.qs64 s n).1 = some (a, b) → PairOK n a b := by
  intro s n a b _ hq
  obtain ⟨fb, rels, kernel, isPrime, slots, cnt, ds, hfs, hhead, rfl⟩ := h s n a b hq
  have hmem : a ∈ ds := List.mem_of_mem_head? hhead
  obtain ⟨h1, h2, h3⟩ := Ymq.C11.final_step_proper n fb rels kernel isPrime slots cnt ds hfs a hmem
  exact pairOK_of_proper h1 h2 h3

/-! ### (3) Pollard rho — C16 -/

/-- `pollard_rho::rho` (pollard_rho.rs:119-151): the result is `([p], q)` for a pair `(p, q)`
returned by the modelled `rho64(n, c, iters)` for some `c`, `iters` (inputs above 64 bits return
`None`, so the low word `n0` is `n`). -/
def UsesRho64 (o : Oracle σ) : Prop :=
  ∀ t n as b, (o.rho t n).1 = some (as, b) →
    ∃ c iters a, Ymq.ExpModn.rho64 n c iters = some (some (a, b)) ∧ as = [a]

theorem rho_clause {o : Oracle σ} (h : UsesRho64 o) :
    ∀ s n as b, 2 ≤ n → (o.rho s n).1 = some (as, b) → SplitOK n as b := by
  intro s n as b _ hr
  obtain ⟨c, iters, a, h64, rfl⟩ := h s n as b hr
  obtain ⟨hab, ha1, han, hb1⟩ := Ymq.C16.rho64_proper h64
  refine ⟨by simpa using hab, ?_, ?_⟩
  · intro x hx; simp at hx; omega
  · subst hab
    exact (Nat.lt_mul_iff_one_lt_left (by omega)).mpr ha1

/-! ### (4) Pollard P-1 — C16 -/

open Ymq.ExpModn in
/-- The `(factors, nred, values)` states that `pm1_impl(n)` (pollard_pm1.rs:256-414) can reach:
* `init`: `factors = []`, `nred = n`;
* `values`: the value list is replaced (next prime block, stage 2 products);
* `check`: one call of `check_gcd_factors` (modelled by `checkGcdFactors`, C16) on a non-empty
  list of cumulative products (the chain condition is C16 `cumulative_products_chain`);
* `polyeval`: the stage-2 polynomial path (pollard_pm1.rs, `b2 > MULTIEVAL_THRESHOLD`), modelled
  by `pm1PolyStep` (C16): `gcd_factors(nred, vals)` is appended without `check_gcd_factors`, but
  since the `fix:` 9b94f92 a list containing `n` is refused (`return None`); C16
  `pm1_polyeval_inv` gives the invariant (in particular `n ∉ f2`). Before that repair
  `n ∉ f2` had to be a premise here — and was false for the code:
  `factor(26881623424511, Algo::Pm1)` recursed forever on `([n], 1)`. -/
inductive Pm1Reach (n : Nat) (pp : Nat → Bool) : CgfState → Prop
  | init (vals : List Nat) : Pm1Reach n pp { factors := [], nred := n, vals := vals }
  | values (st : CgfState) (vals : List Nat) : Pm1Reach n pp st →
      Pm1Reach n pp { st with vals := vals }
  | check (st st' : CgfState) (b : Bool) : Pm1Reach n pp st → st.vals ≠ [] →
      (∀ i j, i ≤ j → j < st.vals.length →
        Nat.gcd st.nred (st.vals.getD i 0) ∣ Nat.gcd st.nred (st.vals.getD j 0)) →
      checkGcdFactors n pp st = some (b, st') → Pm1Reach n pp st'
  | polyeval (st st' : CgfState) : Pm1Reach n pp st → st.vals ≠ [] →
      (∀ i j, i ≤ j → j < st.vals.length →
        Nat.gcd st.nred (st.vals.getD i 0) ∣ Nat.gcd st.nred (st.vals.getD j 0)) →
      pm1PolyStep n pp st = some (some st') → Pm1Reach n pp st'

open Ymq.ExpModn in
/-- every reachable state satisfies the invariant of C16 (`factors.prod · nred = n`, parts `> 1`,
`nred > 0`, `n` itself never recorded) -/
theorem Pm1Reach.inv {n : Nat} (hn : 0 < n) {pp : Nat → Bool} {st : CgfState}
    (h : Pm1Reach n pp st) : Ymq.ExpModn.CgfInv n st := by
  induction h with
  | init vals => exact ⟨by simp, by simp, hn, by simp⟩
  | values st vals _ ih => exact ih
  | check st st' b _ hne hchain hc ih =>
    obtain ⟨b', st'', hc', hinv, _⟩ := Ymq.C16.check_gcd_factors_inv n pp st ih hne hchain
    rw [hc] at hc'
    injection hc' with hc'
    injection hc' with _ h2
    rw [h2]; exact hinv
  | polyeval st st' _ hne hchain hstep ih =>
    obtain ⟨r, hr, hprop⟩ := Ymq.C16.pm1_polyeval_inv n pp st ih hne hchain
    rw [hstep] at hr
    injection hr with hr
    exact (hprop st' hr.symm).1

/-- `pm1_quick` / `pm1_only` return `splitResult` (= `Some((factors, nred))` iff `factors` is
non-empty) of a state reachable by `pm1_impl`. Which guard gives which conjunct of `SplitOK`:
* `as.prod * b = n`, parts `> 1`: `gcd_factors` (C16 `gcd_factors_prod`) through the invariant;
* `as ≠ []` (hence `b < n`): `if factors.is_empty() { None }` at every return;
* `a ≠ n` for `a ∈ as` (hence `a < n`): the `fs.contains(n)` guard of `check_gcd_factors`
  (pollard_pm1.rs:425, C16 `check_gcd_factors_inv`) and, on the polynomial path, the guard
  `if f2.contains(n) { return None }` added by the `fix:` 9b94f92 (C16 `pm1_polyeval_inv`).
No residual assumption is left in this clause. -/
def UsesPm1 (o : Oracle σ) : Prop :=
  (∀ t n as b, (o.pm1q t n).1 = some (as, b) →
    ∃ pp st, Pm1Reach n pp st ∧ Ymq.ExpModn.splitResult st = some (as, b)) ∧
  (∀ t n as b, (o.pm1 t n).1 = some (as, b) →
    ∃ pp st, Pm1Reach n pp st ∧ Ymq.ExpModn.splitResult st = some (as, b))

theorem splitOK_of_pm1 {n : Nat} (hn : 2 ≤ n) {pp : Nat → Bool} {st : Ymq.ExpModn.CgfState}
    {as : List Nat} {b : Nat} (hr : Pm1Reach n pp st)
    (hs : Ymq.ExpModn.splitResult st = some (as, b)) : SplitOK n as b := by
  obtain ⟨hprod, hgt, hpos, hnin, hne⟩ := Ymq.C16.pm1_result_proper (hr.inv (by omega)) hs
  refine ⟨hprod, ?_, ?_⟩
  · intro a ha
    have hd : a ∣ n := hprod ▸ Dvd.dvd.mul_right (List.dvd_prod ha) b
    have hle := Nat.le_of_dvd (by omega) hd
    have : a ≠ n := fun h => hnin (h ▸ ha)
    omega
  · cases as with
    | nil => exact absurd rfl hne
    | cons a as' =>
      have ha := hgt a (by simp)
      have hd : a ∣ (a :: as').prod := List.dvd_prod (by simp)
      have hp2 : 2 ≤ (a :: as').prod := by
        have hpos' : 0 < (a :: as').prod := by
          rcases Nat.eq_zero_or_pos (a :: as').prod with h0 | h0
          · rw [h0, Nat.zero_mul] at hprod; omega
          · exact h0
        exact Nat.le_trans ha (Nat.le_of_dvd hpos' hd)
      rw [← hprod]
      exact (Nat.lt_mul_iff_one_lt_left hpos).mpr (by omega)

theorem pm1_clauses {o : Oracle σ} (h : UsesPm1 o) :
    (∀ s n as b, 2 ≤ n → (o.pm1q s n).1 = some (as, b) → SplitOK n as b) ∧
    (∀ s n as b, 2 ≤ n → (o.pm1 s n).1 = some (as, b) → SplitOK n as b) := by
  refine ⟨?_, ?_⟩
  · intro s n as b hn hq
    obtain ⟨pp, st, hr, hs⟩ := h.1 s n as b hq
    exact splitOK_of_pm1 hn hr hs
  · intro s n as b hn hq
    obtain ⟨pp, st, hr, hs⟩ := h.2 s n as b hq
    exact splitOK_of_pm1 hn hr hs

/-! ### (5) ECM exits — C16 -/

/-- the two forms of the exits of `ecm::ecm_curve` / `ecm128::ecm_curve` and their drivers:
* `guard`: `d = gcd(n, x)` returned as `(d, n / d)` only if `d > 1 && d < n`
  (ecm128.rs:143, 152, 257; the `UnexpectedLargeFactor(p)` exits ecm.rs:246-257 (`p != n`) and
  ecm128.rs:86-90 (`p < n`), where `p` is the gcd reported by a failed modular inversion);
* `checked`: `d` returned by `ecm::check_gcd_factor(n, values)` on a non-empty list of cumulative
  products, result `(d, n / d)` (ecm.rs:325, 335, 444, 474). -/
inductive EcmExit (n a b : Nat) : Prop
  | guard (x : Nat) : Ymq.ExpModn.guard n (Nat.gcd n x) = some (a, b) → EcmExit n a b
  | checked (vals : List Nat) (pp : Nat → Bool) : vals ≠ [] →
      (∀ i j, i ≤ j → j < vals.length → Nat.gcd n (vals.getD i 0) ∣ Nat.gcd n (vals.getD j 0)) →
      Ymq.ExpModn.checkGcdFactor n vals pp = some (some a) → b = n / a → EcmExit n a b

theorem EcmExit.pairOK {n a b : Nat} (hn : 2 ≤ n) (h : EcmExit n a b) : PairOK n a b := by
  cases h with
  | guard x hg =>
    obtain ⟨h1, h2, _, h4⟩ := Ymq.C16.guard_proper hg
    exact ⟨h1, h2, h4⟩
  | checked vals pp hne hchain hc hb =>
    obtain ⟨r, hr, hprop⟩ := Ymq.C16.check_gcd_factor_proper n vals pp (by omega) hne hchain
    rw [hc] at hr
    injection hr with hr
    obtain ⟨h1, h2, _, h4⟩ := hprop a hr.symm
    subst hb
    exact ⟨h1, h2, h4⟩

/-- every pair returned by the three ECM fields left through one of the exits above -/
def UsesEcmExits (o : Oracle σ) : Prop :=
  (∀ t n a b, (o.ecmauto t n).1 = some (a, b) → EcmExit n a b) ∧
  (∀ t n a b, (o.ecm t n).1 = some (a, b) → EcmExit n a b) ∧
  (∀ t n a b, (o.ecm128 t n).1 = some (a, b) → EcmExit n a b)

/-! ### (6) SQUFOF exits -/

/-- the two exits of `squfof::squfof` (squfof.rs:11-89):
* `square`: `nsqrt * nsqrt == n`, result `(nsqrt, nsqrt)` (squfof.rs:17-19);
* `gcd`: `f = gcd(n, p_prev)` under the guard `f > 1`, result `(f, n / f)` (squfof.rs:80-85).
  The code does NOT test `f < n`; it follows from `0 < p_prev < n`, which is the NAMED FACT left
  in this constructor. `squfof_pprev_lt` derives it from the size bound of the square-form
  iteration, `p_prev ≤ 2·isqrt(k·n)` with multiplier `k ≤ 50`, for every `n ≥ 201` (every value
  that reaches `factor_impl` with a prime factor has all prime factors `≥ 211`). -/
inductive SqufofExit (n a b : Nat) : Prop
  | square (r : Nat) : r * r = n → a = r → b = r → SqufofExit n a b
  | gcd (x : Nat) : 0 < x → x < n → a = Nat.gcd n x → 1 < a → b = n / a → SqufofExit n a b

/-- `2·⌊√(k·n)⌋ < n` for `k ≤ 50`, `n ≥ 201` -/
theorem squfof_pprev_lt {n k x : Nat} (hn : 201 ≤ n) (hk : k ≤ 50) (hx : x ≤ 2 * Nat.sqrt (k * n)) :
    x < n := by
  have hs : Nat.sqrt (k * n) * Nat.sqrt (k * n) ≤ k * n := Nat.sqrt_le (k * n)
  have hkn : k * n ≤ 50 * n := Nat.mul_le_mul_right n hk
  rcases Nat.lt_or_ge (2 * Nat.sqrt (k * n)) n with h | h
  · omega
  · exfalso
    have h2 : n * n ≤ (2 * Nat.sqrt (k * n)) * (2 * Nat.sqrt (k * n)) := Nat.mul_le_mul h h
    have h3 : (2 * Nat.sqrt (k * n)) * (2 * Nat.sqrt (k * n)) =
        4 * (Nat.sqrt (k * n) * Nat.sqrt (k * n)) := by ring
    have h4 : n * n ≤ 200 * n := by omega
    have h5 : 201 * n ≤ n * n := Nat.mul_le_mul_right n hn
    omega

/-- a proper gcd from the size bound -/
theorem SqufofExit.gcd_of_bound {n a b k x : Nat} (hn : 201 ≤ n) (hk : k ≤ 50) (hx0 : 0 < x)
    (hx : x ≤ 2 * Nat.sqrt (k * n)) (ha : a = Nat.gcd n x) (ha1 : 1 < a) (hb : b = n / a) :
    SqufofExit n a b :=
  SqufofExit.gcd x hx0 (squfof_pprev_lt hn hk hx) ha ha1 hb

/-- model-free: `f = gcd(n, x)`, `0 < x < n`, `f > 1` ⟹ `f` is a proper divisor -/
theorem gcd_proper {n x : Nat} (hx0 : 0 < x) (hx : x < n) (h1 : 1 < Nat.gcd n x) :
    1 < Nat.gcd n x ∧ Nat.gcd n x < n ∧ Nat.gcd n x ∣ n :=
  ⟨h1, Nat.lt_of_le_of_lt (Nat.le_of_dvd hx0 (Nat.gcd_dvd_right n x)) hx, Nat.gcd_dvd_left n x⟩

theorem SqufofExit.pairOK {n a b : Nat} (hn : 2 ≤ n) (h : SqufofExit n a b) : PairOK n a b := by
  cases h with
  | square r hr ha hb =>
    rw [ha, hb]
    refine ⟨hr, ?_, ?_⟩ <;>
    · rcases Nat.lt_or_ge r 2 with h | h
      · have : r = 0 ∨ r = 1 := by omega
        rcases this with rfl | rfl <;> omega
      · exact h
  | gcd x hx0 hx ha ha1 hb =>
    subst ha hb
    obtain ⟨h1, h2, h3⟩ := gcd_proper hx0 hx ha1
    exact pairOK_of_proper h1 h2 h3

/-- every pair returned by the `squfof` field left through one of the two exits -/
def UsesSqufofExit (o : Oracle σ) : Prop :=
  ∀ t n a b, (o.squfof t n).1 = some (a, b) → SqufofExit n a b

/-! ### (7) `UnexpectedFactor` -/

/-- `FBase::check_divisors` (fbase.rs:116-124, reached from `siqs`): `UnexpectedFactor(p)` is a
factor-base prime `p > MAX_MULTIPLIER` whose stored square root of `k·n` is 0, i.e. `p ∣ k·n`
with `p ∤ k`: a prime divisor of `n`. -/
def UsesUnexpectedFactor (o : Oracle σ) : Prop :=
  ∀ t alg n d, (o.sieve t alg n).1 = .unexpected d → d ∣ n ∧ 2 ≤ d

/-! ### residual -/

/-- What is still ASSUMED after all the above: the unexpected factor is not the sieved number
itself (`d ≠ n`; then `d < n` since `d ∣ n`). The code has no such test; it holds because the
sieve is only started on a number that `pseudoprime` rejected. Two sufficient forms:
`unexpected_ne_of_composite` (`d` prime, `n` not prime — i.e. `pseudoprime` never rejects a
prime, C06) and `unexpected_ne_of_size` (`d < B ≤ n` for a bound `B` on factor-base primes). -/
structure ResidualOK (o : Oracle σ) : Prop where
  unexpectedNotWhole : ∀ s alg n d, 2 ≤ n → (o.sieve s alg n).1 = .unexpected d → d ≠ n

theorem unexpected_ne_of_composite {n d : Nat} (hd : d.Prime) (hn : ¬ n.Prime) : d ≠ n :=
  fun h => hn (h ▸ hd)

theorem unexpected_ne_of_size {n d B : Nat} (hd : d < B) (hn : B ≤ n) : d ≠ n := by omega

theorem sieveUnexpected_clause {o : Oracle σ} (hu : UsesUnexpectedFactor o) (hres : ResidualOK o) :
    ∀ s alg n d, 2 ≤ n → (o.sieve s alg n).1 = .unexpected d → d ∣ n ∧ 2 ≤ d ∧ d < n := by
  intro s alg n d hn h
  obtain ⟨h1, h2⟩ := hu s alg n d h
  have hle := Nat.le_of_dvd (by omega) h1
  have hne := hres.unexpectedNotWhole s alg n d hn h
  exact ⟨h1, h2, by omega⟩

/-- **the contract from the models** -/
theorem oracleOK_of_models_aux {o : Oracle σ} (hpp : UsesPerfectPower o) (hfs : UsesFinalStep o)
    (hqs : UsesQs64 o) (hrho : UsesRho64 o) (hpm1 : UsesPm1 o) (hecm : UsesEcmExits o)
    (hsq : UsesSqufofExit o) (hun : UsesUnexpectedFactor o) (hres : ResidualOK o) :
    OracleOK o where
  pp := pp_clause hpp
  rho := rho_clause hrho
  pm1q := (pm1_clauses hpm1).1
  pm1 := (pm1_clauses hpm1).2
  ecmauto := fun s n a b hn h => (hecm.1 s n a b h).pairOK hn
  ecm := fun s n a b hn h => (hecm.2.1 s n a b h).pairOK hn
  ecm128 := fun s n a b hn h => (hecm.2.2 s n a b h).pairOK hn
  qs64 := qs64_clause hqs
  squfof := fun s n a b hn h => (hsq s n a b h).pairOK hn
  sieveDivs := sieveDivs_clause hfs
  sieveUnexpected := sieveUnexpected_clause hun hres

end Ymq.Factor
