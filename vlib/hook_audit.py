#!/usr/bin/env python3
"""Audit of the instrumentation guard in the tree being checked (YMQ_REPO or /repo).

The correspondence runs execute the code compiled WITH `--cfg yamaquasi_verif`; users run it WITHOUT.
The two must be the same program up to add-only observers. So every occurrence of `yamaquasi_verif`
must be the attribute `#[cfg(yamaquasi_verif)]` placed on
  (a) a module item `pub mod verif_hooks...` (any suffix), or
  (b) ONE expression statement that calls into such a module (`...verif_hooks...::name(...);`), or
  (c) a `use` / `static` / `fn` item inside src/lib.rs's own hook module (covered by (a)).
Anything else (`cfg!(yamaquasi_verif)`, `#[cfg(not(yamaquasi_verif))]`, `cfg_attr`, a guarded `let`, `if`,
`return`, assignment or block) could make the checked build differ from the shipped one and is reported.
Exit 0 = clean; exit 1 = offending lines printed."""
import os, re, sys, glob

def main():
    repo = os.environ.get("YMQ_REPO", "/repo")
    bad = []
    n = 0
    for path in sorted(glob.glob(os.path.join(repo, "src", "**", "*.rs"), recursive=True)):
        lines = open(path).read().split("\n")
        for i, line in enumerate(lines):
            if "yamaquasi_verif" not in line:
                continue
            n += 1
            rel = os.path.relpath(path, repo)
            s = line.strip()
            if s.startswith("//"):
                continue
            if s != "#[cfg(yamaquasi_verif)]":
                bad.append(f"{rel}:{i+1}: {s[:120]}")
                continue
            # the guarded item: next non-attribute, non-empty, non-comment line
            j = i + 1
            while j < len(lines) and (not lines[j].strip() or lines[j].strip().startswith(("//", "#["))):
                j += 1
            nxt = lines[j].strip() if j < len(lines) else ""
            if re.match(r"pub mod verif_hooks\w*\s*\{?$", nxt):
                continue
            # a single call statement into a hook module, possibly spanning lines until `;`
            stmt = nxt
            k = j
            while not stmt.rstrip().endswith(";") and k + 1 < len(lines) and k - j < 12:
                k += 1
                stmt += " " + lines[k].strip()
            if re.match(r"^(crate::)?(\w+::)*verif_hooks\w*::\w+\(.*\);$", stmt) and not re.search(r"\b(return|break|continue)\b|(?<![=!<>])=(?!=)", re.sub(r'"[^"]*"', '""', stmt)):
                continue
            bad.append(f"{rel}:{j+1}: guarded item is neither a verif_hooks module nor a single observer call: {nxt[:100]}")
    if bad:
        print("HOOK-AUDIT FAILED")
        for b in bad:
            print("  " + b)
        sys.exit(1)
    print(f"hook-audit ok ({n} guard occurrences)")

if __name__ == "__main__":
    main()
