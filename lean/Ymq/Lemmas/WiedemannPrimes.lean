/-
`select_crtprimes`: what the loop guarantees about the selected moduli.
-/
import Ymq.Model.Wiedemann
import Mathlib.Data.Nat.Prime.Basic
import Mathlib.Data.List.Pairwise

namespace Ymq.Wied

/-- the loop only ever appends candidates `q ≤ p` accepted by the primality test, in strictly
decreasing order, and stops with exactly `want` of them (unless `acc` was already long enough) -/
theorem primesLoop_spec (isprime : ℕ → Option Bool) (want : ℕ) :
    ∀ (f p : ℕ) (acc out : List ℕ), primesLoop isprime want f p acc = some out →
      acc.Pairwise (· < ·) → (∀ a ∈ acc, p < a) → acc.length ≤ want →
      out.Pairwise (· > ·) ∧ (∀ a ∈ out, a ∈ acc ∨ (a ≤ p ∧ isprime a = some true)) ∧
        out.length = want
  | 0, _, _, _, h, _, _, _ => by simp [primesLoop] at h
  | f + 1, p, acc, out, h, hs, hb, hl => by
    unfold primesLoop at h
    by_cases hw : acc.length ≥ want
    · rw [if_pos hw] at h
      have : out = acc.reverse := (Option.some.inj h).symm
      subst this
      refine ⟨?_, fun a ha => Or.inl (List.mem_reverse.mp ha), by simp; omega⟩
      rw [List.pairwise_reverse]
      exact hs.imp (fun h => h)
    · rw [if_neg hw] at h
      cases hip : isprime p with
      | none => rw [hip] at h; simp at h
      | some b =>
        rw [hip] at h
        simp only at h
        by_cases h30 : p < 30
        · rw [if_pos h30] at h; simp at h
        · rw [if_neg h30] at h
          cases b with
          | false =>
            simp only [Bool.false_eq_true, if_false] at h
            obtain ⟨r1, r2, r3⟩ := primesLoop_spec isprime want f (p - 30) acc out h hs
              (fun a ha => by have := hb a ha; omega) hl
            refine ⟨r1, fun a ha => ?_, r3⟩
            rcases r2 a ha with h' | ⟨h1, h2⟩
            · exact Or.inl h'
            · exact Or.inr ⟨by omega, h2⟩
          | true =>
            simp only [if_true] at h
            obtain ⟨r1, r2, r3⟩ := primesLoop_spec isprime want f (p - 30) (p :: acc) out h
              (List.pairwise_cons.mpr ⟨fun a ha => hb a ha, hs⟩)
              (fun a ha => by
                rcases List.mem_cons.mp ha with rfl | ha
                · omega
                · have := hb a ha; omega)
              (by simp; omega)
            refine ⟨r1, fun a ha => ?_, r3⟩
            rcases r2 a ha with h' | ⟨h1, h2⟩
            · rcases List.mem_cons.mp h' with rfl | h''
              · exact Or.inr ⟨le_refl _, hip⟩
              · exact Or.inl h''
            · exact Or.inr ⟨by omega, h2⟩

/-- **`select_crtprimes`**: `max(size, 8)` moduli, strictly decreasing, each accepted by the
primality test, each with `q · norm < 2^63`. -/
theorem selectPrimes_spec (isprime : ℕ → Option Bool) (m : Mat) (out : List ℕ)
    (h : selectPrimes isprime m = some out) :
    out.length = max m.length 8 ∧ out.Pairwise (· > ·) ∧
      ∀ q ∈ out, isprime q = some true ∧ q * norm m < 2 ^ 63 ∧ 0 < norm m := by
  unfold selectPrimes at h
  simp only at h
  by_cases h0 : norm m = 0
  · rw [if_pos h0] at h; simp at h
  · rw [if_neg h0] at h
    by_cases h1 : 30 * (I63.toNat / norm m / 30) < 1
    · rw [if_pos h1] at h; simp at h
    · rw [if_neg h1] at h
      by_cases h2 : (30 * (I63.toNat / norm m / 30) - 1) * norm m ≥ W
      · rw [if_pos h2] at h; simp at h
      · rw [if_neg h2] at h
        by_cases h3 : (30 * (I63.toNat / norm m / 30) - 1) * norm m ≥ I63.toNat
        · rw [if_pos h3] at h; simp at h
        · rw [if_neg h3] at h
          obtain ⟨r1, r2, r3⟩ := primesLoop_spec isprime _ _ _ [] out h List.Pairwise.nil
            (by simp) (by simp)
          refine ⟨r3, r1, fun q hq => ?_⟩
          rcases r2 q hq with h' | ⟨q1, q2⟩
          · simp at h'
          · refine ⟨q2, ?_, Nat.pos_of_ne_zero h0⟩
            have hI : I63.toNat = 2 ^ 63 := by decide
            rw [hI] at h3 q1
            have := Nat.mul_le_mul_right (norm m) q1
            omega

/-- distinct primes are pairwise coprime -/
theorem pairwise_coprime_of_decreasing (l : List ℕ) (hd : l.Pairwise (· > ·))
    (hp : ∀ q ∈ l, q.Prime) : l.Pairwise Nat.Coprime := by
  induction l with
  | nil => exact List.Pairwise.nil
  | cons a t ih =>
    rw [List.pairwise_cons] at hd ⊢
    refine ⟨fun b hb => ?_, ih hd.2 (fun q hq => hp q (List.mem_cons_of_mem _ hq))⟩
    have hne : a ≠ b := by have := hd.1 b hb; omega
    exact (Nat.coprime_primes (hp a List.mem_cons_self) (hp b (List.mem_cons_of_mem _ hb))).mpr hne

end Ymq.Wied
