/-
Lemmas for the word-exact `FInt` model (Ymq/Model/FInt.lean), part 1: the ripple loops,
`_sub_slices`, `reduce`, `add_small`, `add_assign`, `sub_assign`, `add`, `sub`, `butterfly`.
Every statement has the shape: on well-formed `N`-word inputs (`WfN`) the model returns
`some r` (no panic site), `r` is well formed and in the normal form of the code (`Norm`), and
its value is congruent modulo `F = 2^(64N)+1` to the expected one.
-/
import Ymq.Model.FInt
import Ymq.Lemmas.Limbs
import Mathlib.Data.Nat.ModEq

namespace Ymq.FInt
open Ymq.Limbs

/-- the code's normal form: `top = 0`, or `top = 1` and all words zero -/
def Norm (x : FI) : Prop := x.top = 0 ∨ (x.top = 1 ∧ val x.ws = 0)

/-- `N` well-formed words -/
def WfN (N : Nat) (x : FI) : Prop := x.ws.length = N ∧ Wf x.ws

theorem subRipple_spec (z : List Nat) (c : Nat) (hz : Wf z) (hc : c ≤ W) :
    val (subRipple z c).1 + c = val z + W ^ z.length * (subRipple z c).2 ∧
    (subRipple z c).1.length = z.length ∧ Wf (subRipple z c).1 ∧
    ((z ≠ [] ∨ c ≤ 1) → (subRipple z c).2 ≤ 1) := by
  induction z generalizing c with
  | nil => simp [subRipple, Wf_nil]
  | cons a l ih =>
    have ⟨ha, hl⟩ := Wf_cons.1 hz
    unfold subRipple
    by_cases h : a ≥ c
    · simp only [h, if_true, val_cons, List.length_cons, true_and]
      refine ⟨by omega, Wf_cons.2 ⟨by omega, hl⟩, fun _ => by omega⟩
    · simp only [h, if_false, val_cons, List.length_cons]
      obtain ⟨h1, h2, h3, h4⟩ := ih 1 hl (by have := W_pos; omega)
      refine ⟨?_, by simp [h2], Wf_cons.2 ⟨by omega, h3⟩, fun _ => h4 (Or.inr (le_refl 1))⟩
      rw [pow_succ]
      have : W * (val (subRipple l 1).1 + 1) = W * (val l + W ^ l.length * (subRipple l 1).2) := by rw [h1]
      have hs : a + W - c + c = a + W := by omega
      nlinarith

theorem addRipple_spec (z : List Nat) (c : Nat) (hz : Wf z) (hc : c ≤ W) :
    val (addRipple z c).1 + W ^ z.length * (addRipple z c).2 = val z + c ∧
    (addRipple z c).1.length = z.length ∧ Wf (addRipple z c).1 ∧
    ((z ≠ [] ∨ c ≤ 1) → (addRipple z c).2 ≤ 1) := by
  induction z generalizing c with
  | nil => simp [addRipple, Wf_nil]
  | cons a l ih =>
    have ⟨ha, hl⟩ := Wf_cons.1 hz
    unfold addRipple
    by_cases h : a + c < W
    · simp only [h, if_true, val_cons, List.length_cons, true_and]
      refine ⟨by omega, Wf_cons.2 ⟨by omega, hl⟩, fun _ => by omega⟩
    · simp only [h, if_false, val_cons, List.length_cons]
      obtain ⟨h1, h2, h3, h4⟩ := ih 1 hl (by have := W_pos; omega)
      refine ⟨?_, by simp [h2], Wf_cons.2 ⟨by omega, h3⟩, fun _ => h4 (Or.inr (le_refl 1))⟩
      rw [pow_succ]
      have : W * (val (addRipple l 1).1 + W ^ l.length * (addRipple l 1).2) = W * (val l + 1) := by rw [h1]
      have hs : a + c - W + W = a + c := by omega
      nlinarith

theorem subSlices_spec (z x : List Nat) (c : Nat) (hlen : z.length = x.length) (hz : Wf z) (hx : Wf x)
    (hc : c ≤ 1) :
    val (subSlices z x c).1 + val x + c = val z + W ^ z.length * (subSlices z x c).2 ∧
    (subSlices z x c).1.length = z.length ∧ Wf (subSlices z x c).1 ∧ (subSlices z x c).2 ≤ 1 := by
  induction z generalizing x c with
  | nil => cases x with
    | nil => simp [subSlices, Wf_nil]; omega
    | cons y ys => simp at hlen
  | cons a l ih => cases x with
    | nil => simp at hlen
    | cons y ys =>
      simp only [List.length_cons, Nat.add_right_cancel_iff] at hlen
      have ⟨ha, hl⟩ := Wf_cons.1 hz
      have ⟨hy, hys⟩ := Wf_cons.1 hx
      unfold subSlices
      by_cases h1 : y + c ≥ W
      · simp only [h1, if_true, val_cons, List.length_cons]
        obtain ⟨e1, e2, e3, e4⟩ := ih ys 1 hlen hl hys (le_refl 1)
        refine ⟨?_, by simp [e2], Wf_cons.2 ⟨ha, e3⟩, e4⟩
        rw [pow_succ]
        have : W * (val (subSlices l ys 1).1 + val ys + 1) = W * (val l + W ^ l.length * (subSlices l ys 1).2) := by rw [e1]
        have hyc : y + c = W := by omega
        nlinarith
      · simp only [h1, if_false]
        by_cases h2 : a ≥ y + c
        · simp only [h2, if_true, val_cons, List.length_cons]
          obtain ⟨e1, e2, e3, e4⟩ := ih ys 0 hlen hl hys (by omega)
          refine ⟨?_, by simp [e2], Wf_cons.2 ⟨by omega, e3⟩, e4⟩
          rw [pow_succ]
          have : W * (val (subSlices l ys 0).1 + val ys + 0) = W * (val l + W ^ l.length * (subSlices l ys 0).2) := by rw [e1]
          have : a - (y + c) + (y + c) = a := by omega
          nlinarith
        · simp only [h2, if_false, val_cons, List.length_cons]
          obtain ⟨e1, e2, e3, e4⟩ := ih ys 1 hlen hl hys (le_refl 1)
          refine ⟨?_, by simp [e2], Wf_cons.2 ⟨by omega, e3⟩, e4⟩
          rw [pow_succ]
          have : W * (val (subSlices l ys 1).1 + val ys + 1) = W * (val l + W ^ l.length * (subSlices l ys 1).2) := by rw [e1]
          have : a + W - (y + c) + (y + c) = a + W := by omega
          nlinarith


theorem modEq_of_eq {F a b k1 k2 : Nat} (h : a + F * k1 = b + F * k2) : a ≡ b [MOD F] := by
  have h1 : (a + F * k1) % F = a % F := Nat.add_mul_mod_self_left a F k1
  have h2 : (b + F * k2) % F = b % F := Nat.add_mul_mod_self_left b F k2
  unfold Nat.ModEq
  rw [← h1, ← h2, h]

theorem FI.value_mk (ws : List Nat) (t : Nat) : (FI.mk ws t).value = val ws + W ^ ws.length * t := rfl

theorem norm_zero_top {x : FI} (h : x.top = 0) : Norm x := Or.inl h

/-- `reduce`: for ANY top word the result is the normal form of the same residue. -/
theorem reduce_spec' {N : Nat} (x : FI) (hN : 0 < N) (hx : WfN N x) (ht : x.top < W) :
    ∃ r, reduce x = some r ∧ WfN N r ∧ Norm r ∧ r.value ≡ x.value [MOD Fmod N] := by
  obtain ⟨ws, t⟩ := x
  obtain ⟨hlen, hwf⟩ := hx
  simp only at hlen hwf ht
  cases ws with
  | nil => simp at hlen; omega
  | cons z0 zs =>
    have ⟨hz0, hzs⟩ := Wf_cons.1 hwf
    unfold reduce
    simp only
    by_cases h : z0 ≥ t
    · simp only [h, if_true]
      refine ⟨_, rfl, ⟨by simpa using hlen, Wf_cons.2 ⟨by omega, hzs⟩⟩, Or.inl rfl, ?_⟩
      apply modEq_of_eq (k1 := t) (k2 := 0)
      simp only [FI.value_mk, val_cons, Fmod, hlen]
      have : z0 - t + t = z0 := by omega
      generalize z0 - t = d at *
      subst this
      ring
    · simp only [h, if_false]
      obtain ⟨e1, e2, e3, e4⟩ := subRipple_spec (z0 :: zs) t hwf (le_of_lt ht)
      have hb := e4 (Or.inl (by simp))
      rw [hlen] at e1
      by_cases hb1 : (subRipple (z0 :: zs) t).2 = 1
      · simp only [hb1, if_true]
        obtain ⟨a1, a2, a3, a4⟩ := addRipple_spec (subRipple (z0 :: zs) t).1 1 e3 (by decide)
        have hc := a4 (Or.inr (le_refl 1))
        rw [e2, hlen] at a1
        rw [hb1] at e1
        refine ⟨_, rfl, ⟨by simp only; rw [a2, e2, hlen], a3⟩, ?_, ?_⟩
        · -- normal form
          have hlt : val (subRipple (z0 :: zs) t).1 < W ^ N := by
            have := val_lt e3; rwa [e2, hlen] at this
          rcases Nat.eq_zero_or_pos (addRipple (subRipple (z0 :: zs) t).1 1).2 with h0 | h0
          · exact Or.inl h0
          · right
            have h1 : (addRipple (subRipple (z0 :: zs) t).1 1).2 = 1 := by omega
            refine ⟨h1, ?_⟩
            simp only
            rw [h1] at a1
            omega
        · apply modEq_of_eq (k1 := t - 1) (k2 := 0)
          simp only [FI.value_mk, Fmod, a2, e2, hlen]
          have ht1 : t - 1 + 1 = t := by simp only [val_cons] at *; omega
          generalize t - 1 = u at *
          subst ht1
          simp only [val_cons] at *
          nlinarith
      · have hb0 : (subRipple (z0 :: zs) t).2 = 0 := by omega
        simp only [hb0]
        refine ⟨_, rfl, ⟨by simp only; rw [e2, hlen], e3⟩, Or.inl rfl, ?_⟩
        apply modEq_of_eq (k1 := t) (k2 := 0)
        simp only [FI.value_mk, Fmod, e2, hlen]
        rw [hb0] at e1
        simp only [val_cons] at *
        nlinarith


/-- `add_small`: exact value (no reduction), the carry goes to the top word. -/
theorem addSmall_spec' {N : Nat} (a : FI) (x : Nat) (hN : 0 < N) (ha : WfN N a) (hx : x < W)
    (ht : a.top + 1 < W) :
    ∃ r, addSmall a x = some r ∧ WfN N r ∧ r.value = a.value + x ∧ r.top ≤ a.top + 1 := by
  obtain ⟨ws, t⟩ := a
  obtain ⟨hlen, hwf⟩ := ha
  simp only at hlen hwf ht
  cases ws with
  | nil => simp at hlen; omega
  | cons z0 zs =>
    have ⟨hz0, hzs⟩ := Wf_cons.1 hwf
    unfold addSmall
    simp only
    have hcW : (z0 + x) / W ≤ 1 := by
      have h2 : z0 + x < W * 2 := by omega
      have := Nat.div_lt_of_lt_mul h2
      omega
    obtain ⟨a1, a2, a3, a4⟩ := addRipple_spec zs ((z0 + x) / W) hzs (by have := W_pos; omega)
    have hc := a4 (Or.inr hcW)
    have hdm := Nat.div_add_mod (z0 + x) W
    have hlen' : zs.length + 1 = N := by simpa using hlen
    have hwf' : Wf ((z0 + x) % W :: (addRipple zs ((z0 + x) / W)).1) :=
      Wf_cons.2 ⟨Nat.mod_lt _ W_pos, a3⟩
    by_cases h0 : (addRipple zs ((z0 + x) / W)).2 = 0
    · simp only [h0, if_true]
      refine ⟨_, rfl, ⟨by simp only [List.length_cons, a2]; exact hlen', hwf'⟩, ?_, by simp⟩
      simp only [FI.value_mk, val_cons, List.length_cons, a2]
      rw [h0] at a1
      have : W * val (addRipple zs ((z0 + x) / W)).1 = W * (val zs + (z0 + x) / W) := by rw [← a1]; ring
      nlinarith
    · have h1 : (addRipple zs ((z0 + x) / W)).2 = 1 := by omega
      have hnt : ¬ (t + 1 ≥ W) := by omega
      simp only [h0, if_false, hnt]
      refine ⟨_, rfl, ⟨by simp only [List.length_cons, a2]; exact hlen', hwf'⟩, ?_, by simp⟩
      simp only [FI.value_mk, val_cons, List.length_cons, a2]
      rw [h1] at a1
      have : W * (val (addRipple zs ((z0 + x) / W)).1 + W ^ zs.length * 1) = W * (val zs + (z0 + x) / W) := by rw [a1]
      rw [pow_succ]
      nlinarith

/-- `add_assign`: normal form of the sum, for any (small) top words. -/
theorem addAssign_spec' {N : Nat} (x y : FI) (hN : 0 < N) (hx : WfN N x) (hy : WfN N y)
    (ht : x.top + y.top + 1 < W) :
    ∃ r, addAssign x y = some r ∧ WfN N r ∧ Norm r ∧ r.value ≡ x.value + y.value [MOD Fmod N] := by
  unfold addAssign
  obtain ⟨e1, e2, e3⟩ := addc_spec x.ws y.ws 0 (by rw [hx.1, hy.1])
  have hc : (addc x.ws y.ws 0).2 ≤ 1 := by
    have h1 := val_lt hx.2
    have h2 := val_lt hy.2
    rw [hx.1] at h1 e1; rw [hy.1] at h2
    by_contra hcon
    have : 2 ≤ (addc x.ws y.ws 0).2 := by omega
    have : W ^ N * 2 ≤ W ^ N * (addc x.ws y.ws 0).2 := Nat.mul_le_mul_left _ this
    omega
  have hno : ¬ ((addc x.ws y.ws 0).2 + y.top ≥ W ∨ x.top + ((addc x.ws y.ws 0).2 + y.top) ≥ W) := by omega
  simp only [hno, if_false]
  obtain ⟨r, hr, hw, hn, hv⟩ := reduce_spec' ⟨(addc x.ws y.ws 0).1, x.top + ((addc x.ws y.ws 0).2 + y.top)⟩ hN
    ⟨by simp only; rw [e2, hx.1], e3⟩ (by simp only; omega)
  refine ⟨r, hr, hw, hn, hv.trans ?_⟩
  apply modEq_of_eq (k1 := 0) (k2 := 0)
  simp only [FI.value, e2, hx.1, hy.1, Nat.mul_zero, Nat.add_zero]
  rw [hx.1] at e1
  nlinarith

theorem norm_top_le {x : FI} (h : Norm x) : x.top ≤ 1 := by
  rcases h with h | ⟨h, _⟩ <;> omega

theorem W_gt : 3 < W := by decide

/-- `sub_assign`: normal form of the difference when the subtrahend is in normal form. -/
theorem subAssign_spec' {N : Nat} (x y : FI) (hN : 0 < N) (hx : WfN N x) (hy : WfN N y)
    (hny : Norm y) (ht : x.top + 2 < W) :
    ∃ r, subAssign x y = some r ∧ WfN N r ∧ Norm r ∧ r.value + y.value ≡ x.value [MOD Fmod N] := by
  unfold subAssign
  by_cases hy1 : y.top = 1
  · -- rhs = 2^(64N) = -1
    have hvy : val y.ws = 0 := by rcases hny with h | ⟨_, h⟩; omega; exact h
    simp only [hy1, if_true]
    obtain ⟨r1, hr1, hw1, hv1, ht1⟩ := addSmall_spec' ⟨x.ws, x.top⟩ 1 hN hx (by decide) (by simp only; omega)
    rw [hr1]
    obtain ⟨r, hr, hw, hn, hv⟩ := reduce_spec' r1 hN hw1 (by simp only at ht1; omega)
    refine ⟨r, hr, hw, hn, ?_⟩
    have h2 : r.value + y.value ≡ r1.value + y.value [MOD Fmod N] := Nat.ModEq.add_right _ hv
    refine h2.trans ?_
    apply modEq_of_eq (k1 := 0) (k2 := 1)
    rw [hv1]
    simp only [FI.value, hvy, hy1, hy.1, hx.1, Fmod]
    ring
  · have hy0 : y.top = 0 := by have := norm_top_le hny; omega
    simp only [hy1, if_false]
    obtain ⟨e1, e2, e3, e4⟩ := subSlices_spec x.ws y.ws 0 (by rw [hx.1, hy.1]) hx.2 hy.2 (by omega)
    rw [hx.1] at e1
    by_cases hb : (subSlices x.ws y.ws 0).2 = 1
    · simp only [hb, if_true]
      obtain ⟨r1, hr1, hw1, hv1, ht1⟩ := addSmall_spec' ⟨(subSlices x.ws y.ws 0).1, x.top⟩ 1 hN
        ⟨by simp only; rw [e2, hx.1], e3⟩ (by decide) (by simp only; omega)
      rw [hr1]
      obtain ⟨r, hr, hw, hn, hv⟩ := reduce_spec' r1 hN hw1 (by simp only at ht1; omega)
      refine ⟨r, hr, hw, hn, ?_⟩
      have h2 : r.value + y.value ≡ r1.value + y.value [MOD Fmod N] := Nat.ModEq.add_right _ hv
      refine h2.trans ?_
      apply modEq_of_eq (k1 := 0) (k2 := 1)
      rw [hv1]
      simp only [FI.value, hy0, hy.1, hx.1, Fmod, e2]
      rw [hb] at e1
      nlinarith
    · have hb0 : (subSlices x.ws y.ws 0).2 = 0 := by omega
      simp only [hb0]
      obtain ⟨r, hr, hw, hn, hv⟩ := reduce_spec' ⟨(subSlices x.ws y.ws 0).1, x.top⟩ hN
        ⟨by simp only; rw [e2, hx.1], e3⟩ (by simp only; omega)
      refine ⟨r, ?_, hw, hn, ?_⟩
      · simpa using hr
      have h2 : r.value + y.value ≡ (FI.mk (subSlices x.ws y.ws 0).1 x.top).value + y.value [MOD Fmod N] :=
        Nat.ModEq.add_right _ hv
      refine h2.trans ?_
      apply modEq_of_eq (k1 := 0) (k2 := 0)
      simp only [FI.value, hy0, hy.1, hx.1, e2]
      rw [hb0] at e1
      nlinarith


theorem isReduced_of_norm {x : FI} (h : Norm x) : isReduced x = true := by
  unfold isReduced
  rcases h with h | ⟨h1, h2⟩
  · simp [h]
  · simp [h1, allZero_of_val_eq_zero _ h2]

theorem add_spec' {N : Nat} (x y : FI) (hN : 0 < N) (hx : WfN N x) (hy : WfN N y)
    (hnx : Norm x) (hny : Norm y) :
    ∃ r, add x y = some r ∧ WfN N r ∧ Norm r ∧ r.value ≡ x.value + y.value [MOD Fmod N] := by
  unfold add
  simp only [isReduced_of_norm hnx, isReduced_of_norm hny, Bool.not_true, Bool.or_self, Bool.false_eq_true, if_false]
  have := norm_top_le hnx; have := norm_top_le hny; have := W_gt
  exact addAssign_spec' x y hN hx hy (by omega)

theorem sub_spec' {N : Nat} (x y : FI) (hN : 0 < N) (hx : WfN N x) (hy : WfN N y)
    (hnx : Norm x) (hny : Norm y) :
    ∃ r, sub x y = some r ∧ WfN N r ∧ Norm r ∧ r.value + y.value ≡ x.value [MOD Fmod N] := by
  unfold sub
  simp only [isReduced_of_norm hnx, isReduced_of_norm hny, Bool.not_true, Bool.or_self, Bool.false_eq_true, if_false]
  have := norm_top_le hnx; have := W_gt
  exact subAssign_spec' x y hN hx hy hny (by omega)

/-- `butterfly`: `(x, y) ↦ (x + y, x - y)` on normal forms. -/
theorem butterfly_spec' {N : Nat} (x y : FI) (hN : 0 < N) (hx : WfN N x) (hy : WfN N y)
    (hnx : Norm x) (hny : Norm y) :
    ∃ a b, butterfly x y = some (a, b) ∧ WfN N a ∧ WfN N b ∧ Norm a ∧ Norm b ∧
      a.value ≡ x.value + y.value [MOD Fmod N] ∧ b.value + y.value ≡ x.value [MOD Fmod N] := by
  unfold butterfly
  by_cases h1 : x.top = 1 ∨ y.top = 1
  · simp only [h1, if_true]
    obtain ⟨a, ha, hwa, hna, hva⟩ := add_spec' x y hN hx hy hnx hny
    obtain ⟨b, hb, hwb, hnb, hvb⟩ := sub_spec' x y hN hx hy hnx hny
    rw [ha, hb]
    exact ⟨a, b, rfl, hwa, hwb, hna, hnb, hva, hvb⟩
  · simp only [h1, if_false]
    have hx0 : x.top = 0 := by have := norm_top_le hnx; omega
    have hy0 : y.top = 0 := by have := norm_top_le hny; omega
    have hlen : x.ws.length = y.ws.length := by rw [hx.1, hy.1]
    obtain ⟨e1, e2, e3⟩ := addc_spec x.ws y.ws 0 hlen
    obtain ⟨s1, s2, s3⟩ := addc_spec x.ws (compl y.ws) 1 (by rw [compl_length]; exact hlen)
    have hcv := compl_val y.ws hy.2
    rw [hx.1] at e1 s1 e2 s2; rw [hy.1] at hcv
    have hvx := val_lt hx.2; rw [hx.1] at hvx
    have hvy := val_lt hy.2; rw [hy.1] at hvy
    have hca : (addc x.ws y.ws 0).2 ≤ 1 := by
      by_contra hcon
      have : 2 ≤ (addc x.ws y.ws 0).2 := by omega
      have : W ^ N * 2 ≤ W ^ N * (addc x.ws y.ws 0).2 := Nat.mul_le_mul_left _ this
      omega
    have hcs : (addc x.ws (compl y.ws) 1).2 ≤ 1 := by
      by_contra hcon
      have : 2 ≤ (addc x.ws (compl y.ws) 1).2 := by omega
      have : W ^ N * 2 ≤ W ^ N * (addc x.ws (compl y.ws) 1).2 := Nat.mul_le_mul_left _ this
      omega
    have hW := W_gt
    have hno : ¬ (x.top + (addc x.ws y.ws 0).2 ≥ W) := by omega
    simp only [subc, hno, if_false]
    obtain ⟨a, ha, hwa, hna, hva⟩ := reduce_spec' ⟨(addc x.ws y.ws 0).1, x.top + (addc x.ws y.ws 0).2⟩ hN
      ⟨e2, e3⟩ (by simp only; omega)
    have hva' : a.value ≡ x.value + y.value [MOD Fmod N] := by
      refine hva.trans ?_
      apply modEq_of_eq (k1 := 0) (k2 := 0)
      simp only [FI.value, hx0, hy0, e2, hx.1, hy.1]
      nlinarith
    by_cases hb : (addc x.ws (compl y.ws) 1).2 = 0
    · simp only [hb, if_true]
      obtain ⟨r1, hr1, hw1, hv1, ht1⟩ := addSmall_spec' ⟨(addc x.ws (compl y.ws) 1).1, y.top⟩ 1 hN
        ⟨s2, s3⟩ (by decide) (by simp only; omega)
      rw [hr1]
      obtain ⟨b, hbr, hwb, hnb, hvb⟩ := reduce_spec' r1 hN hw1 (by simp only at ht1; omega)
      simp only [ha, hbr]
      refine ⟨a, b, rfl, hwa, hwb, hna, hnb, hva', ?_⟩
      have h2 : b.value + y.value ≡ r1.value + y.value [MOD Fmod N] := Nat.ModEq.add_right _ hvb
      refine h2.trans ?_
      apply modEq_of_eq (k1 := 0) (k2 := 1)
      rw [hv1]
      simp only [FI.value, hy0, hx0, hy.1, hx.1, Fmod, s2]
      rw [hb] at s1
      nlinarith
    · have hb1 : (addc x.ws (compl y.ws) 1).2 = 1 := by omega
      simp only [hb, if_false]
      obtain ⟨b, hbr, hwb, hnb, hvb⟩ := reduce_spec' ⟨(addc x.ws (compl y.ws) 1).1, y.top⟩ hN
        ⟨s2, s3⟩ (by simp only; omega)
      simp only [ha, hbr]
      refine ⟨a, b, rfl, hwa, hwb, hna, hnb, hva', ?_⟩
      have h2 : b.value + y.value ≡ (FI.mk (addc x.ws (compl y.ws) 1).1 y.top).value + y.value [MOD Fmod N] :=
        Nat.ModEq.add_right _ hvb
      refine h2.trans ?_
      apply modEq_of_eq (k1 := 0) (k2 := 0)
      simp only [FI.value, hy0, hx0, hy.1, hx.1, s2]
      rw [hb1] at s1
      nlinarith

end Ymq.FInt
