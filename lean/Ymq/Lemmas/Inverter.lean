import Ymq.Model.Inverter
import Ymq.Lemmas.Dividers
import Mathlib.Data.ZMod.Basic
import Mathlib.Data.Nat.GCD.Basic
import Mathlib.Tactic.LinearCombination
import Mathlib.Data.List.GetD

namespace Ymq.Inverter
open Ymq.Limbs (W)
open Ymq.Dividers (Div divmod64 Ok divmod64_ok W_eq)

/-! ### trailing zeros -/

theorem tzAux_dvd : ∀ (f n : Nat), 2 ^ tzAux f n ∣ n := by
  intro f
  induction f with
  | zero => intro n; simp [tzAux]
  | succ f ih =>
    intro n
    unfold tzAux
    by_cases h : n % 2 = 1
    · rw [if_pos h]; simp
    · rw [if_neg h]
      obtain ⟨c, hc⟩ := ih (n / 2)
      refine ⟨c, ?_⟩
      have h2 : n = 2 * (n / 2) := by omega
      generalize tzAux f (n / 2) = t at *
      rw [Nat.pow_add]
      calc n = 2 * (n / 2) := h2
        _ = 2 * (2 ^ t * c) := by rw [← hc]
        _ = 2 ^ 1 * 2 ^ t * c := by ring

theorem tzAux_odd : ∀ (f n : Nat), n ≠ 0 → n < 2 ^ f → n / 2 ^ tzAux f n % 2 = 1 := by
  intro f
  induction f with
  | zero => intro n h0 h1; simp at h1; omega
  | succ f ih =>
    intro n h0 h1
    unfold tzAux
    by_cases h : n % 2 = 1
    · rw [if_pos h]; simpa using h
    · rw [if_neg h]
      have := ih (n / 2) (by omega) (by rw [Nat.pow_succ] at h1; omega)
      rw [Nat.pow_add, Nat.pow_one, ← Nat.div_div_eq_div_mul]
      exact this

theorem tzAux_pos (f n : Nat) (h : n % 2 = 0) : 1 ≤ tzAux (f + 1) n := by
  unfold tzAux
  rw [if_neg (by omega)]; omega

/-- facts about `tz n` for an even non-zero `n < 2^28`-ish word -/
theorem tz_facts (n : Nat) (h0 : n ≠ 0) (hn : n < 2 ^ 64) :
    2 ^ tz n ∣ n ∧ n / 2 ^ tz n % 2 = 1 ∧ n / 2 ^ tz n * 2 ^ tz n = n ∧ 2 ^ tz n ≤ n := by
  have h1 := tzAux_dvd 64 n
  refine ⟨h1, tzAux_odd 64 n h0 hn, Nat.div_mul_cancel h1, Nat.le_of_dvd (by omega) h1⟩

theorem tz_pos (n : Nat) (h : n % 2 = 0) : 1 ≤ tz n := tzAux_pos 63 n h

/-- loop invariant of `invert` (Kaliski almost inverse) -/
structure Inv (p x u v r s k : Nat) : Prop where
  uodd : u % 2 = 1
  vodd : v % 2 = 1
  cop : Nat.Coprime u v
  lin : u * s + v * r = p
  bnd : u * v * 2 ^ k ≤ p * x
  c1 : ((r : ZMod p) * x + u * 2 ^ k) = 0
  c2 : ((s : ZMod p) * x) = v * 2 ^ k
  spos : 0 < s
  vle : v ≤ x

/-- one iteration with `u > v` -/
theorem Inv.step_u {p x u v r s k : Nat} (h : Inv p x u v r s k) (huv : v < u) (hu : u < 2 ^ 64) :
    Inv p x ((u - v) / 2 ^ tz (u - v)) v (r + s) (s * 2 ^ tz (u - v)) (k + tz (u - v)) := by
  have hne : u - v ≠ 0 := by omega
  obtain ⟨hd, hodd, hmul, _⟩ := tz_facts (u - v) hne (by omega)
  generalize tz (u - v) = d at *
  generalize hu' : (u - v) / 2 ^ d = u' at *
  have huv' : u' * 2 ^ d + v = u := by omega
  constructor
  · exact hodd
  · exact h.vodd
  · have : Nat.Coprime (u - v) v := (Nat.coprime_sub_self_left (le_of_lt huv)).mpr h.cop
    rw [← hu']; exact this.coprime_div_left hd
  · have := h.lin
    calc u' * (s * 2 ^ d) + v * (r + s) = (u' * 2 ^ d + v) * s + v * r := by ring
      _ = p := by rw [huv']; exact this
  · have := h.bnd
    calc u' * v * 2 ^ (k + d) = (u' * 2 ^ d) * v * 2 ^ k := by rw [Nat.pow_add]; ring
      _ ≤ u * v * 2 ^ k := by
        apply Nat.mul_le_mul_right; apply Nat.mul_le_mul_right; omega
      _ ≤ p * x := this
  · have e : ((u' : ZMod p) * 2 ^ d + v) = u := by exact_mod_cast congrArg (Nat.cast : Nat → ZMod p) huv'
    push_cast
    rw [pow_add]
    linear_combination h.c1 + h.c2 + (2 : ZMod p) ^ k * e
  · push_cast
    rw [pow_add]
    linear_combination (2 : ZMod p) ^ d * h.c2
  · exact Nat.mul_pos h.spos (Nat.two_pow_pos _)
  · exact h.vle

/-- one iteration with `u < v` -/
theorem Inv.step_v {p x u v r s k : Nat} (h : Inv p x u v r s k) (huv : u < v) (hv : v < 2 ^ 64) :
    Inv p x u ((v - u) / 2 ^ tz (v - u)) (r * 2 ^ tz (v - u)) (r + s) (k + tz (v - u)) := by
  have hne : v - u ≠ 0 := by omega
  obtain ⟨hd, hodd, hmul, _⟩ := tz_facts (v - u) hne (by omega)
  generalize tz (v - u) = d at *
  generalize hv' : (v - u) / 2 ^ d = v' at *
  have hvu' : v' * 2 ^ d + u = v := by omega
  constructor
  · exact h.uodd
  · exact hodd
  · have : Nat.Coprime u (v - u) := (Nat.coprime_sub_self_right (le_of_lt huv)).mpr h.cop
    rw [← hv']; exact (this.symm.coprime_div_left hd).symm
  · have := h.lin
    calc u * (r + s) + v' * (r * 2 ^ d) = u * s + (v' * 2 ^ d + u) * r := by ring
      _ = p := by rw [hvu']; exact this
  · have := h.bnd
    calc u * v' * 2 ^ (k + d) = u * (v' * 2 ^ d) * 2 ^ k := by rw [Nat.pow_add]; ring
      _ ≤ u * v * 2 ^ k := by
        apply Nat.mul_le_mul_right; apply Nat.mul_le_mul_left; omega
      _ ≤ p * x := this
  · push_cast
    rw [pow_add]
    linear_combination (2 : ZMod p) ^ d * h.c1
  · have e : ((v' : ZMod p) * 2 ^ d + u) = v := by exact_mod_cast congrArg (Nat.cast : Nat → ZMod p) hvu'
    push_cast
    rw [pow_add]
    linear_combination h.c1 + h.c2 - (2 : ZMod p) ^ k * e
  · have := h.spos; omega
  · have := h.vle
    have : v' ≤ v - u := by rw [← hv']; exact Nat.div_le_self _ _
    omega

/-! ### the table of `Inverter::new` -/

/-- entry `j` of the table is `-2^-(8j+8) mod p` -/
def TabInv (p : Nat) (tab : List Nat) : Prop :=
  ∀ j, j < tab.length → tab.getD j 0 < p ∧ ((tab.getD j 0 : Nat) : ZMod p) * 2 ^ (8 * j + 8) = -1

theorem newLoop_spec (p : Nat) (hp : p % 2 = 1) (hp3 : 3 ≤ p) (hp28 : p < 2 ^ 28) :
    ∀ (f k x : Nat) (tab : List Nat), 0 < x → x < p → (x : ZMod p) * 2 ^ k = 1 →
      tab.length = (k - 1) / 8 → TabInv p tab →
      ∃ tab', newLoop p f k x tab = some tab' ∧ tab'.length = (k + f - 1) / 8 ∧ TabInv p tab' := by
  intro f
  induction f with
  | zero =>
    intro k x tab _ _ _ hl ht
    exact ⟨tab, rfl, by simpa using hl, ht⟩
  | succ f ih =>
    intro k x tab hx0 hxp hx hl ht
    unfold newLoop
    -- the table after the optional write
    obtain ⟨tab1, htab1, hl1, ht1⟩ : ∃ tab1,
        (if k ≥ 8 ∧ k % 8 = 0 then (if p < x then none else some (tab ++ [p - x])) else some tab) = some tab1 ∧
        tab1.length = (k + 1 - 1) / 8 ∧ TabInv p tab1 := by
      by_cases hk : k ≥ 8 ∧ k % 8 = 0
      · rw [if_pos hk, if_neg (by omega)]
        refine ⟨_, rfl, by rw [List.length_append, hl]; simp; omega, ?_⟩
        intro j hj
        rw [List.length_append] at hj
        simp only [List.length_singleton] at hj
        by_cases hjl : j < tab.length
        · rw [List.getD_append _ _ _ _ hjl]; exact ht j hjl
        · have hje : j = tab.length := by omega
          rw [List.getD_append_right _ _ _ _ (by omega), hje, Nat.sub_self]
          simp only [List.getD_cons_zero]
          refine ⟨by omega, ?_⟩
          have hjk : 8 * tab.length + 8 = k := by rw [hl]; omega
          rw [hjk, Nat.cast_sub (le_of_lt hxp), ZMod.natCast_self]
          linear_combination -hx
      · rw [if_neg hk]
        refine ⟨tab, rfl, by rw [hl]; omega, ht⟩
    rw [htab1]
    simp only []
    have hp0 : ((p : Nat) : ZMod p) = 0 := ZMod.natCast_self p
    by_cases hev : x % 2 = 0
    · rw [if_pos hev]
      have h2 : x = 2 * (x / 2) := by omega
      obtain ⟨t, ht1', hl2, ht2⟩ := ih (k + 1) (x / 2) tab1 (by omega) (by omega) (by
        have : ((x / 2 : Nat) : ZMod p) * 2 = x := by
          have := congrArg (Nat.cast : Nat → ZMod p) h2
          push_cast at this
          rw [this]; ring
        rw [pow_succ]
        linear_combination hx + (2 : ZMod p) ^ k * this) (by simpa using hl1) ht1
      exact ⟨t, ht1', by rw [hl2]; congr 1; omega, ht2⟩
    · rw [if_neg hev, if_neg (by unfold W32; omega)]
      have h2 : x + p = 2 * ((x + p) / 2) := by omega
      obtain ⟨t, ht1', hl2, ht2⟩ := ih (k + 1) ((x + p) / 2) tab1 (by omega) (by omega) (by
        have : (((x + p) / 2 : Nat) : ZMod p) * 2 = x := by
          have := congrArg (Nat.cast : Nat → ZMod p) h2
          push_cast at this
          rw [hp0] at this
          linear_combination -this
        rw [pow_succ]
        linear_combination hx + (2 : ZMod p) ^ k * this) (by simpa using hl1) ht1
      exact ⟨t, ht1', by rw [hl2]; congr 1; omega, ht2⟩

/-- `Inverter::new(p)` for odd `3 ≤ p < 2^28`: eight entries, entry `j` is `-2^-(8j+8) mod p`. -/
theorem new_spec (p : Nat) (hp : p % 2 = 1) (hp3 : 3 ≤ p) (hp28 : p < 2 ^ 28) :
    ∃ tab, new p = some tab ∧ tab.length = 8 ∧ TabInv p tab := by
  unfold new
  rw [if_neg (by omega), if_neg (by rw [Nat.div_eq_of_lt hp28]; simp)]
  obtain ⟨t, h1, h2, h3⟩ := newLoop_spec p hp hp3 hp28 65 0 1 [] (by omega) (by omega) (by simp)
    (by simp) (fun j hj => by simp at hj)
  exact ⟨t, h1, by simpa using h2, h3⟩

theorem finish_spec (tab : List Nat) (d : Div) (p x r k : Nat) (hd : Ok d) (hdp : d.p = p)
    (hp3 : 3 ≤ p) (hp28 : p < 2 ^ 28) (hl : tab.length = 8) (ht : TabInv p tab)
    (hr : r ≤ p) (hk : k < 56) (hc : (r : ZMod p) * x + 1 * 2 ^ k = 0) :
    ∃ res, finish tab d 1 r k = some res ∧ res < p ∧ x * res % p = 1 := by
  have hW : W = 2 ^ 64 := W_eq
  unfold finish
  rw [if_neg (by simp), if_neg (by rw [hdp]; omega)]
  simp only []
  rw [if_neg (by omega)]
  obtain ⟨hT, hTc⟩ := ht (k / 8) (by omega)
  generalize tab.getD (k / 8) 0 = T at *
  have hc8 : (2 : Nat) ^ (8 - k % 8) ≤ 2 ^ 8 := Nat.pow_le_pow_right (by decide) (by omega)
  have hr1 : r * 2 ^ (8 - k % 8) < 2 ^ 36 := by
    calc r * 2 ^ (8 - k % 8) ≤ p * 2 ^ 8 := Nat.mul_le_mul hr hc8
      _ < 2 ^ 28 * 2 ^ 8 := Nat.mul_lt_mul_of_pos_right hp28 (by norm_num)
      _ = 2 ^ 36 := by norm_num
  rw [Nat.mod_eq_of_lt (by rw [hW]; omega)]
  have hn : r * 2 ^ (8 - k % 8) * T < 2 ^ 64 := by
    calc r * 2 ^ (8 - k % 8) * T < 2 ^ 36 * 2 ^ 28 := Nat.mul_lt_mul'' hr1 (by omega)
      _ = 2 ^ 64 := by norm_num
  rw [if_neg (by rw [hW]; omega), divmod64_ok d hd _ hn]
  simp only [Option.map_some]
  have hp0 : 0 < p := by omega
  have hres : r * 2 ^ (8 - k % 8) * T % d.p % W32 = r * 2 ^ (8 - k % 8) * T % p := by
    rw [hdp]; apply Nat.mod_eq_of_lt
    have := Nat.mod_lt (r * 2 ^ (8 - k % 8) * T) hp0
    unfold W32; omega
  rw [hres]
  refine ⟨_, rfl, Nat.mod_lt _ hp0, ?_⟩
  have h1 : (1 : Nat) = 1 % p := (Nat.mod_eq_of_lt (by omega)).symm
  rw [h1, ← ZMod.natCast_eq_natCast_iff']
  push_cast
  rw [ZMod.natCast_mod]
  push_cast
  have hexp : 8 * (k / 8) + 8 = k + (8 - k % 8) := by omega
  rw [hexp, pow_add] at hTc
  linear_combination ((2 : ZMod p) ^ (8 - k % 8) * T) * hc - hTc

/-- consequences of the invariant that make every check of one iteration pass -/
theorem Inv.checks {p x u v r s k : Nat} (h : Inv p x u v r s k) (hpx : p * x < 2 ^ 56) :
    1 ≤ u ∧ 1 ≤ v ∧ u ≤ p ∧ v ≤ x ∧ r ≤ p ∧ r + s ≤ p ∧ k < 56 ∧ u * 2 ^ k < 2 ^ 56 ∧ r * x < 2 ^ 56 ∧
    (r * x + u * 2 ^ k) % p = 0 := by
  have hu1 : 1 ≤ u := by have := h.uodd; omega
  have hv1 : 1 ≤ v := by have := h.vodd; omega
  have hs1 := h.spos
  have hlin := h.lin
  have hbnd := h.bnd
  have hup : u ≤ p := by nlinarith
  have hrs : r + s ≤ p := by nlinarith
  have hrp : r ≤ p := by omega
  have hk2 : u * 2 ^ k ≤ p * x := by
    calc u * 2 ^ k = u * 1 * 2 ^ k := by ring
      _ ≤ u * v * 2 ^ k := Nat.mul_le_mul_right _ (Nat.mul_le_mul_left _ hv1)
      _ ≤ p * x := hbnd
  have hk3 : 2 ^ k ≤ u * 2 ^ k := Nat.le_mul_of_pos_left _ hu1
  have hk56 : k < 56 := by
    by_contra hge
    have : (2:Nat) ^ 56 ≤ 2 ^ k := Nat.pow_le_pow_right (by decide) (by omega)
    omega
  refine ⟨hu1, hv1, hup, h.vle, hrp, hrs, hk56, by omega, ?_, ?_⟩
  · calc r * x ≤ p * x := Nat.mul_le_mul_right _ hrp
      _ < 2 ^ 56 := hpx
  · apply Nat.mod_eq_zero_of_dvd
    rw [← ZMod.natCast_eq_zero_iff]
    push_cast
    exact h.c1

/-- the loop: from any state satisfying the invariant, with enough fuel -/
theorem invLoop_spec (tab : List Nat) (d : Div) (p x : Nat) (hd : Ok d) (hdp : d.p = p)
    (hp3 : 3 ≤ p) (hp28 : p < 2 ^ 28) (hl : tab.length = 8) (ht : TabInv p tab)
    (hxp : x < p) :
    ∀ (f u v r s k : Nat), Inv p x u v r s k → u + v ≤ f →
    ∃ res, invLoop tab d x f u v r s k = some res ∧ res < p ∧ x * res % p = 1 := by
  have hW : W = 2 ^ 64 := W_eq
  have hpx : p * x < 2 ^ 56 := by
    calc p * x < 2 ^ 28 * 2 ^ 28 := Nat.mul_lt_mul'' hp28 (by omega)
      _ = 2 ^ 56 := by norm_num
  intro f
  induction f with
  | zero =>
    intro u v r s k h hf
    have := h.uodd; omega
  | succ f ih =>
    intro u v r s k h hf
    obtain ⟨hu1, hv1, hup, hvx, hrp, hrs, hk56, _, _, _⟩ := h.checks hpx
    unfold invLoop
    by_cases huv : u = v
    · rw [if_pos huv]
      subst huv
      have hu : u = 1 := by
        have := h.cop
        rwa [Nat.coprime_self] at this
      subst hu
      have hc := h.c1
      push_cast at hc
      exact finish_spec tab d p x r k hd hdp hp3 hp28 hl ht hrp hk56 hc
    · rw [if_neg huv]
      simp only []
      by_cases hgt : u > v
      · simp only [hgt, if_true]
        have hI := h.step_u hgt (by omega)
        have hne : u - v ≠ 0 := by omega
        obtain ⟨hdv, _, hmul, hle⟩ := tz_facts (u - v) hne (by omega)
        have hpos : 1 ≤ tz (u - v) := tz_pos _ (by have := h.uodd; have := h.vodd; omega)
        have hlt : tz (u - v) < 32 := by
          by_contra hge
          have : (2:Nat) ^ 32 ≤ 2 ^ tz (u - v) := Nat.pow_le_pow_right (by decide) (by omega)
          omega
        have hhalf : (u - v) / 2 ^ tz (u - v) ≤ (u - v) / 2 := by
          apply Nat.div_le_div_left _ (by norm_num)
          calc 2 = 2 ^ 1 := by norm_num
            _ ≤ 2 ^ tz (u - v) := Nat.pow_le_pow_right (by decide) hpos
        have hsum : (u - v) / 2 ^ tz (u - v) + v ≤ f := by omega
        obtain ⟨_, _, _, _, _, hrs', hk', ht', hr'x, hmod⟩ := hI.checks hpx
        generalize tz (u - v) = dtz at *
        generalize (u - v) / 2 ^ dtz = u' at *
        have hs' : s * 2 ^ dtz % W32 = s * 2 ^ dtz := Nat.mod_eq_of_lt (by unfold W32; omega)
        rw [hs']
        rw [if_neg (by unfold W32; omega), if_neg (by omega), if_neg (by omega),
          if_neg (by unfold W32; omega), if_neg (by omega),
          Nat.mod_eq_of_lt (by rw [hW]; omega), if_neg (by rw [hW]; omega),
          if_neg (by rw [hdp]; omega), hdp, if_neg (by simpa using hmod)]
        exact ih _ _ _ _ _ hI hsum
      · simp only [hgt, if_false]
        have hlt' : u < v := by omega
        have hI := h.step_v hlt' (by omega)
        have hne : v - u ≠ 0 := by omega
        obtain ⟨hdv, _, hmul, hle⟩ := tz_facts (v - u) hne (by omega)
        have hpos : 1 ≤ tz (v - u) := tz_pos _ (by have := h.uodd; have := h.vodd; omega)
        have hlt : tz (v - u) < 32 := by
          by_contra hge
          have : (2:Nat) ^ 32 ≤ 2 ^ tz (v - u) := Nat.pow_le_pow_right (by decide) (by omega)
          omega
        have hhalf : (v - u) / 2 ^ tz (v - u) ≤ (v - u) / 2 := by
          apply Nat.div_le_div_left _ (by norm_num)
          calc 2 = 2 ^ 1 := by norm_num
            _ ≤ 2 ^ tz (v - u) := Nat.pow_le_pow_right (by decide) hpos
        have hsum : u + (v - u) / 2 ^ tz (v - u) ≤ f := by omega
        obtain ⟨_, _, _, _, hr'p, hrs', hk', ht', hr'x, hmod⟩ := hI.checks hpx
        generalize tz (v - u) = dtz at *
        generalize (v - u) / 2 ^ dtz = v' at *
        have hr' : r * 2 ^ dtz % W32 = r * 2 ^ dtz := Nat.mod_eq_of_lt (by unfold W32; omega)
        rw [hr']
        rw [if_neg (by unfold W32; omega), if_neg (by omega), if_neg (by omega),
          if_neg (by unfold W32; omega), if_neg (by omega),
          Nat.mod_eq_of_lt (by rw [hW]; omega), if_neg (by rw [hW]; omega),
          if_neg (by rw [hdp]; omega), hdp, if_neg (by simpa using hmod)]
        exact ih _ _ _ _ _ hI hsum

/-- `invert`: for an odd modulus `3 ≤ p < 2^28` and `0 < x < p` coprime to `p`, the routine reaches no
panic site, terminates within the fuel `p + x + 1`, and returns the inverse of `x`. -/
theorem invert_ok (tab : List Nat) (d : Div) (p x : Nat) (hd : Ok d) (hdp : d.p = p)
    (hodd : p % 2 = 1) (hp3 : 3 ≤ p) (hp28 : p < 2 ^ 28) (hl : tab.length = 8) (ht : TabInv p tab)
    (hx0 : 0 < x) (hxp : x < p) (hcop : Nat.Coprime x p) :
    ∃ res, invert tab d x = some res ∧ res < p ∧ x * res % p = 1 := by
  unfold invert invertFuel
  rw [if_neg (by omega), if_neg (by rw [hdp, Nat.div_eq_of_lt hp28]; simp), if_neg (by omega)]
  simp only []
  rw [hdp]
  apply invLoop_spec tab d p x hd hdp hp3 hp28 hl ht hxp
  · -- the initial state satisfies the invariant
    by_cases hev : x % 2 = 0
    · rw [if_pos hev]
      obtain ⟨hdv, hodd', hmul, _⟩ := tz_facts x (by omega) (by omega)
      generalize tz x = t at *
      constructor
      · exact hodd
      · exact hodd'
      · exact (hcop.symm.coprime_dvd_right (Nat.div_dvd_of_dvd hdv))
      · ring
      · rw [Nat.mul_assoc, hmul]
      · push_cast; rw [ZMod.natCast_self]; ring
      · have := congrArg (Nat.cast : Nat → ZMod p) hmul
        push_cast at this
        rw [this]; push_cast; ring
      · omega
      · exact Nat.div_le_self _ _
    · rw [if_neg hev]
      simp only [Nat.pow_zero, Nat.div_one]
      constructor
      · exact hodd
      · omega
      · exact hcop.symm
      · ring
      · simp
      · push_cast; rw [ZMod.natCast_self]; ring
      · push_cast; ring
      · omega
      · exact le_refl _
  · have : x / 2 ^ (if x % 2 = 0 then tz x else 0) ≤ x := Nat.div_le_self _ _
    omega

end Ymq.Inverter
