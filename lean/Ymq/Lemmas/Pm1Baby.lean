/-
The baby steps of `pm1_stage2_polyeval` (Model/Pm1Impl.lean `babyLoop` / `babySteps`) on residues: the loop never
panics (gap-table index in range, `gap/2 ≥ 1`, fuel), returns `g^r mod m` for exactly the indices `r = 1` and the odd
`1 < r ≤ d1 + 1` with `r % 3 ≠ 0`, `gcd(r, d1) = 1`, in the order of the loop.
-/
import Ymq.Lemmas.Pm1Walk
import Mathlib.Data.List.Forall2

namespace Ymq.Pm1Impl
open Ymq.ExpModn

/-- the indices the baby loop of `pm1_stage2_polyeval` still visits after `b` -/
def BabyIdx (d1 b r : Nat) : Prop := b < r ∧ r ≤ d1 + 1 ∧ (r - b) % 2 = 0 ∧ r % 3 ≠ 0 ∧ Nat.gcd r d1 = 1

theorem babyLoop_spec {m g g2 d1 : Nat} (hg2 : g2 ≡ g ^ 2 [MOD m]) :
    ∀ (f b bexp bg : Nat) (gaps vRev iRev : List Nat), b % 2 = 1 → bexp % 2 = 1 → bexp ≤ b → b ≤ d1 + 1 →
      d1 + 3 ≤ b + 2 * f → bg ≡ g ^ bexp [MOD m] → GInv m g gaps →
      List.Forall₂ (fun v r => v ≡ g ^ r [MOD m]) vRev iRev → iRev.Pairwise (· > ·) → (∀ r ∈ iRev, r ≤ b) →
      ∃ vR iR, babyLoop m d1 g2 f b bexp bg gaps vRev = some vR.reverse ∧
        List.Forall₂ (fun v r => v ≡ g ^ r [MOD m]) vR iR ∧ (∀ r, r ∈ iR ↔ r ∈ iRev ∨ BabyIdx d1 b r) ∧
        iR.Pairwise (· > ·)
  | 0, b, _, _, _, _, _, _, _, _, hb, hf, _, _, _, _, _ => by omega
  | f + 1, b, bexp, bg, gaps, vRev, iRev, hbo, heo, hle, hb, hf, hbg, hgaps, hall, hpw, hle' => by
    rw [babyLoop]
    split
    · rename_i hlt
      simp only
      split
      · rename_i hskip
        obtain ⟨vR, iR, h1, h2, h3, h4⟩ := babyLoop_spec (d1 := d1) hg2 f (b + 2) bexp bg gaps vRev iRev (by omega) heo (by omega)
          (by omega) (by omega) hbg hgaps hall hpw (fun r hr => by have := hle' r hr; omega)
        refine ⟨vR, iR, h1, h2, fun r => ?_, h4⟩
        rw [h3]
        constructor
        · rintro (h | ⟨a1, a2, a3, a4, a5⟩)
          · exact Or.inl h
          · exact Or.inr ⟨by omega, a2, by omega, a4, a5⟩
        · rintro (h | ⟨a1, a2, a3, a4, a5⟩)
          · exact Or.inl h
          · by_cases hr : r = b + 2
            · subst hr
              rcases hskip with h | h
              · exact absurd h a4
              · exact absurd a5 h
            · exact Or.inr ⟨by omega, a2, by omega, a4, a5⟩
      · rename_i hpush
        have hpush' : (b + 2) % 3 ≠ 0 ∧ Nat.gcd (b + 2) d1 = 1 := by
          constructor
          · intro h; exact hpush (Or.inl h)
          · by_contra h; exact hpush (Or.inr h)
        obtain ⟨gaps', hext, hlen, hg'⟩ :=
          extendGaps_spec hg2 ((b + 2 - bexp) / 2 + 1) gaps ((b + 2 - bexp) / 2) hgaps (by omega)
        rw [hext]
        simp only
        rw [if_neg (by omega)]
        have hidx : (b + 2 - bexp) / 2 - 1 < gaps'.length := by omega
        rw [List.getElem?_eq_getElem hidx]
        simp only
        have hgp := hg'.2 _ _ (List.getElem?_eq_getElem hidx)
        have hbg' : mulm m bg gaps'[(b + 2 - bexp) / 2 - 1] ≡ g ^ (b + 2) [MOD m] := by
          unfold mulm
          refine (Nat.mod_modEq _ _).trans ?_
          have := hbg.mul hgp
          rw [← pow_add] at this
          have hpe : bexp + (2 * ((b + 2 - bexp) / 2 - 1) + 2) = b + 2 := by omega
          rw [hpe] at this
          exact this
        obtain ⟨vR, iR, h1, h2, h3, h4⟩ := babyLoop_spec (d1 := d1) hg2 f (b + 2) (b + 2) _ gaps' (_ :: vRev) ((b + 2) :: iRev)
          (by omega) (by omega) le_rfl (by omega) (by omega) hbg' hg' (List.Forall₂.cons hbg' hall)
          (List.pairwise_cons.mpr ⟨fun r hr => by have := hle' r hr; omega, hpw⟩)
          (fun r hr => by
            rcases List.mem_cons.mp hr with rfl | hr
            · exact le_rfl
            · have := hle' r hr; omega)
        refine ⟨vR, iR, h1, h2, fun r => ?_, h4⟩
        rw [h3]
        constructor
        · rintro (h | ⟨a1, a2, a3, a4, a5⟩)
          · rcases List.mem_cons.mp h with rfl | h
            · exact Or.inr ⟨by omega, by omega, by omega, hpush'.1, hpush'.2⟩
            · exact Or.inl h
          · exact Or.inr ⟨by omega, a2, by omega, a4, a5⟩
        · rintro (h | ⟨a1, a2, a3, a4, a5⟩)
          · exact Or.inl (List.mem_cons_of_mem _ h)
          · by_cases hr : r = b + 2
            · subst hr; exact Or.inl List.mem_cons_self
            · exact Or.inr ⟨by omega, a2, by omega, a4, a5⟩
    · rename_i hge
      refine ⟨vRev, iRev, rfl, hall, fun r => ?_, hpw⟩
      constructor
      · exact Or.inl
      · rintro (h | ⟨a1, a2, a3, _, _⟩)
        · exact h
        · omega

theorem babySteps_spec (m g d1 : Nat) :
    ∃ vs idx, babySteps m d1 g = some vs ∧ List.Forall₂ (fun v r => v ≡ g ^ r [MOD m]) vs idx ∧
      (∀ r, r ∈ idx ↔ r = 1 ∨ (1 < r ∧ r ≤ d1 + 1 ∧ r % 2 = 1 ∧ r % 3 ≠ 0 ∧ Nat.gcd r d1 = 1)) ∧
      idx.Pairwise (· < ·) := by
  unfold babySteps
  simp only
  have hG : GInv m g [mulm m g g] := by
    refine ⟨by simp, fun i v hv => ?_⟩
    match i, hv with
    | 0, hv =>
      simp only [List.getElem?_cons_zero, Option.some.injEq] at hv
      subst hv
      exact g2_modEq m g
    | i + 1, hv => simp at hv
  obtain ⟨vR, iR, h1, h2, h3, h4⟩ := babyLoop_spec (d1 := d1) (g2_modEq m g) (d1 + 2) 1 1 g [mulm m g g] [g] [1]
    (by decide) (by decide) le_rfl (by omega) (by omega) (by rw [pow_one]) hG (List.Forall₂.cons (by rw [pow_one]) List.Forall₂.nil)
    (List.pairwise_singleton _ _) (fun r hr => by simp at hr; omega)
  refine ⟨vR.reverse, iR.reverse, h1, List.forall₂_reverse_iff.mpr h2, fun r => ?_, List.pairwise_reverse.mpr h4⟩
  rw [List.mem_reverse, h3]
  simp only [List.mem_singleton, BabyIdx]
  constructor
  · rintro (h | ⟨a1, a2, a3, a4, a5⟩)
    · exact Or.inl h
    · exact Or.inr ⟨a1, a2, by omega, a4, a5⟩
  · rintro (h | ⟨a1, a2, a3, a4, a5⟩)
    · exact Or.inl h
    · exact Or.inr ⟨a1, a2, by omega, a4, a5⟩

end Ymq.Pm1Impl
