import Ymq.Props.C03
#print axioms Ymq.C03.rho_fallthrough_panics
#print axioms Ymq.C03.factor_total_partial
#print axioms Ymq.C03.factor_total_not_rho
#print axioms Ymq.C03.factorImpl_total_partial
