import Ymq.Props.C13Log
#print axioms Ymq.C13.accumulator_hits_spec
#print axioms Ymq.C13.class_loops_cover
#print axioms Ymq.C13.accumulator_spec_small
#print axioms Ymq.C13.accumulator_spec_tables
#print axioms Ymq.C13.accumulator_no_overflow_tables
#print axioms Ymq.C13.accumulator_spec_large
#print axioms Ymq.C13.accumulator_no_overflow_new
#print axioms Ymq.C13.accumulator_spec
#print axioms Ymq.C13.accumulator_no_overflow
#print axioms Ymq.C13.accumulator_spec_hits
#print axioms Ymq.C13.accumulator_overflow_iff
#print axioms Ymq.C13.accumulator_overflow_witness
#print axioms Ymq.C13.accumulator_no_overflow_small
#print axioms Ymq.C13.accumulator_no_overflow_hits
#print axioms Ymq.C13.smooths_threshold_spec
#print axioms Ymq.C13.smooth_candidate_reported
#print axioms Ymq.C13.table_bucket_exact
