/-
C16 — group-order methods find every factor their bounds promise, and nothing false.

Model: Ymq/Model/Stage2.lean (tested exponent sets of every stage 2; loop bounds regenerated from
the source into Ymq/Gen/Stage2Arms.lean, tables and hard-wired arms in Ymq/Gen/Stage2.lean),
Ymq/Model/ExpModn.lean (exp_modn, chebyshev_modn, gcd_factors, rho64).

Structure of the argument for "p is found": C17 gives `order(p) ∣ E·l` for the stage-1 exponent E
and the one missing prime l; the cover theorems below give a grid value `m = l` (or a multiple of l)
`= i·d1 ± b` resp. `q·d1 − r`; the `*_hit` theorems turn that into a vanishing factor of the
accumulated product modulo p; `gcd_factors_prod` extracts it.
-/
import Ymq.Lemmas.Stage2Cover
import Ymq.Lemmas.Stage2Pm1
import Ymq.Lemmas.Stage2Totient
import Ymq.Lemmas.Stage2Algebra
import Ymq.Lemmas.Stage2Ladders
import Ymq.Lemmas.Stage2Exp
import Ymq.Lemmas.Stage2ExpLarge
import Ymq.Lemmas.Stage2Extract
import Ymq.Lemmas.Stage2Pratt
import Ymq.Lemmas.Params

namespace Ymq.C16
open Ymq.Stage2 Ymq.Gen Ymq.ExpModn

/-! ## 1. Coverage: pure arithmetic, arbitrary d1, d2 -/

theorem coprime_of_prime_not_dvd {l d1 : Nat} (hp : l.Prime) (hnd : ¬ l ∣ d1) : Nat.gcd l d1 = 1 :=
  (Nat.Prime.coprime_iff_not_dvd hp).mpr hnd

/-- ECM (`ecm::ecm_curve`): every prime `l ∤ d1` with `d1/2 < l ≤ d2·d1 + d1/2 − 1` is `i·d1 ± b` for a
giant step `1 ≤ i ≤ d2` and a baby step `b ∈ bs` (`1 ≤ b < d1/2`, `gcd(b, d1) = 1`). -/
theorem ecm_cover {d1 d2 l : Nat} (h6 : 6 ∣ d1) (hd : 0 < d1) (hd2 : 2 ≤ d2) (hp : l.Prime) (hnd : ¬ l ∣ d1)
    (hlo : d1 / 2 < l) (hhi : l ≤ d2 * d1 + d1 / 2 - 1) :
    ecmIsGrid d1 d2 l = true ∧
    ∃ i b, 1 ≤ i ∧ i ≤ d2 ∧ 1 ≤ b ∧ b < d1 / 2 ∧ Nat.gcd b d1 = 1 ∧ (l = i * d1 + b ∨ l + b = i * d1) := by
  have h6' : 6 ≤ d1 := Nat.le_of_dvd hd h6
  have hev : 2 ∣ d1 := Nat.dvd_trans (by decide) h6
  have hg := coprime_of_prime_not_dvd hp hnd
  have hgrid : ecmIsGrid d1 d2 l = true := by
    unfold ecmIsGrid
    apply sym_cover (fun b h0 h1 hg => ecmBaby_iff.mpr ⟨h0, h1, hg⟩) hev (by omega) hg
    · rw [ecmGiantLo]; omega
    · rw [ecmGiantHi d2 hd2]; simp; omega
    · rw [ecmGiantHi d2 hd2]; omega
  refine ⟨hgrid, ?_⟩
  obtain ⟨i, b, hgi, hb, hm⟩ := symIsGrid_sound hd hgrid
  obtain ⟨hb0, hb1, hbg⟩ := ecmBaby_iff.mp hb
  simp only [isGiant, ecmGiantLo, ecmGiantHi d2 hd2, Bool.and_eq_true, decide_eq_true_eq] at hgi
  exact ⟨i, b, hgi.1, by omega, hb0, hb1, hbg, hm⟩

/-- ECM128 (`ecm128::ecm_curve`): same grid. -/
theorem ecm128_cover {d1 d2 l : Nat} (h6 : 6 ∣ d1) (hd : 0 < d1) (hd2 : 2 ≤ d2) (hp : l.Prime) (hnd : ¬ l ∣ d1)
    (hlo : d1 / 2 < l) (hhi : l ≤ d2 * d1 + d1 / 2 - 1) :
    ecm128IsGrid d1 d2 l = true ∧
    ∃ i b, 1 ≤ i ∧ i ≤ d2 ∧ 1 ≤ b ∧ b < d1 / 2 ∧ Nat.gcd b d1 = 1 ∧ (l = i * d1 + b ∨ l + b = i * d1) := by
  have h6' : 6 ≤ d1 := Nat.le_of_dvd hd h6
  have hev : 2 ∣ d1 := Nat.dvd_trans (by decide) h6
  have hg := coprime_of_prime_not_dvd hp hnd
  have hgrid : ecm128IsGrid d1 d2 l = true := by
    unfold ecm128IsGrid
    apply sym_cover (fun b h0 h1 hg => ecm128Baby_iff.mpr ⟨h0, h1, hg⟩) hev (by omega) hg
    · rw [ecm128GiantLo]; omega
    · rw [ecm128GiantHi d2 hd2]; simp; omega
    · rw [ecm128GiantHi d2 hd2]; omega
  refine ⟨hgrid, ?_⟩
  obtain ⟨i, b, hgi, hb, hm⟩ := symIsGrid_sound hd hgrid
  obtain ⟨hb0, hb1, hbg⟩ := ecm128Baby_iff.mp hb
  simp only [isGiant, ecm128GiantLo, ecm128GiantHi d2 hd2, Bool.and_eq_true, decide_eq_true_eq] at hgi
  exact ⟨i, b, hgi.1, by omega, hb0, hb1, hbg, hm⟩

/-- P+1 (`pp1::pp1`, giant steps `1..=d2` since commit 98e4ebc): same upper end as ECM. -/
theorem pp1_cover {d1 d2 l : Nat} (h6 : 6 ∣ d1) (hd : 0 < d1) (hd2 : 1 ≤ d2) (hp : l.Prime) (hnd : ¬ l ∣ d1)
    (hlo : d1 / 2 < l) (hhi : l ≤ d2 * d1 + d1 / 2 - 1) :
    pp1IsGrid d1 d2 l = true ∧
    ∃ i b, 1 ≤ i ∧ i ≤ d2 ∧ 1 ≤ b ∧ b < d1 / 2 ∧ Nat.gcd b d1 = 1 ∧ (l = i * d1 + b ∨ l + b = i * d1) := by
  have h6' : 6 ≤ d1 := Nat.le_of_dvd hd h6
  have hev : 2 ∣ d1 := Nat.dvd_trans (by decide) h6
  have hg := coprime_of_prime_not_dvd hp hnd
  have hgrid : pp1IsGrid d1 d2 l = true := by
    unfold pp1IsGrid
    apply sym_cover (fun b h0 h1 hg => (pp1Baby_iff h6 hd).mpr ⟨h0, h1, hg⟩) hev (by omega) hg
    · rw [pp1GiantLo]; omega
    · rw [pp1GiantHi d2 hd2]; simp; omega
    · rw [pp1GiantHi d2 hd2]; omega
  refine ⟨hgrid, ?_⟩
  obtain ⟨i, b, hgi, hb, hm⟩ := symIsGrid_sound hd hgrid
  obtain ⟨hb0, hb1, hbg⟩ := (pp1Baby_iff h6 hd).mp hb
  simp only [isGiant, pp1GiantLo, pp1GiantHi d2 hd2, Bool.and_eq_true, decide_eq_true_eq] at hgi
  exact ⟨i, b, hgi.1, by omega, hb0, hb1, hbg, hm⟩

/-- P-1, polynomial evaluation (`pm1_stage2_polyeval`): every prime `l ∤ d1` with
`l ≤ (d2 − 1 − deg)·d1 − 1` (`deg` = number of baby steps = `pm1Deg d1`) is `q·d1 − r` for an evaluated
multiplier `q` (`deg + q + 1 ≤ d2`, i.e. coefficient `k = d2 − 1 − q ∈ [deg, d2)`) and a baby step `r`. -/
theorem pm1_cover {d1 d2 l : Nat} (h6 : 6 ∣ d1) (hd : 0 < d1) (hp : l.Prime) (hnd : ¬ l ∣ d1)
    (hhi : l ≤ pm1Eff d1 d2) (hpos : 0 < pm1Eff d1 d2) :
    pm1IsGrid d1 d2 l = true ∧
    ∃ q r, pm1Deg d1 + q + 1 ≤ d2 ∧ isPm1Baby d1 r = true ∧ l + r = q * d1 := by
  have hg := coprime_of_prime_not_dvd hp hnd
  have hdeg : 1 ≤ pm1Deg d1 := by rw [pm1Deg_eq h6 hd]; omega
  have hhi' : l < (d2 - 1 - pm1Deg d1) * d1 := by
    unfold pm1Eff pm1EffDeg at hhi hpos
    delta Stage2Arms.pm1Neg Stage2Arms.pm1ValsOff at hhi hpos
    have : pm1Deg d1 + 2 - 2 = pm1Deg d1 := by omega
    rw [this] at hhi hpos
    omega
  obtain ⟨q, r, hq, hb, hm⟩ := pm1_cover_spec h6 hd hg hhi'
  exact ⟨pm1IsGridDeg_complete h6 hd hdeg ⟨q, r, hq, hb, Or.inl hm⟩, q, r, hq, hb, hm⟩

/-- the executable grid tests are exact (used by the driver for the correspondence runs) -/
theorem ecm_grid_exact {d1 d2 m : Nat} (hd : 0 < d1) (hd2 : 2 ≤ d2) :
    ecmIsGrid d1 d2 m = true ↔
      ∃ i b, 1 ≤ i ∧ i ≤ d2 ∧ 1 ≤ b ∧ b < d1 / 2 ∧ Nat.gcd b d1 = 1 ∧ (m = i * d1 + b ∨ m + b = i * d1) := by
  unfold ecmIsGrid
  rw [symIsGrid_iff (fun b hb => by have := ecmBaby_iff.mp hb; omega) hd]
  constructor
  · rintro ⟨i, b, hgi, hb, hm⟩
    obtain ⟨hb0, hb1, hbg⟩ := ecmBaby_iff.mp hb
    simp only [isGiant, ecmGiantLo, ecmGiantHi d2 hd2, Bool.and_eq_true, decide_eq_true_eq] at hgi
    exact ⟨i, b, hgi.1, by omega, hb0, hb1, hbg, hm⟩
  · rintro ⟨i, b, hi1, hi2, hb0, hb1, hbg, hm⟩
    refine ⟨i, b, ?_, ecmBaby_iff.mpr ⟨hb0, hb1, hbg⟩, hm⟩
    simp only [isGiant, ecmGiantLo, ecmGiantHi d2 hd2, Bool.and_eq_true, decide_eq_true_eq]
    omega

theorem ecm128_grid_exact {d1 d2 m : Nat} (hd : 0 < d1) (hd2 : 2 ≤ d2) :
    ecm128IsGrid d1 d2 m = true ↔
      ∃ i b, 1 ≤ i ∧ i ≤ d2 ∧ 1 ≤ b ∧ b < d1 / 2 ∧ Nat.gcd b d1 = 1 ∧ (m = i * d1 + b ∨ m + b = i * d1) := by
  unfold ecm128IsGrid
  rw [symIsGrid_iff (fun b hb => by have := ecm128Baby_iff.mp hb; omega) hd]
  constructor
  · rintro ⟨i, b, hgi, hb, hm⟩
    obtain ⟨hb0, hb1, hbg⟩ := ecm128Baby_iff.mp hb
    simp only [isGiant, ecm128GiantLo, ecm128GiantHi d2 hd2, Bool.and_eq_true, decide_eq_true_eq] at hgi
    exact ⟨i, b, hgi.1, by omega, hb0, hb1, hbg, hm⟩
  · rintro ⟨i, b, hi1, hi2, hb0, hb1, hbg, hm⟩
    refine ⟨i, b, ?_, ecm128Baby_iff.mpr ⟨hb0, hb1, hbg⟩, hm⟩
    simp only [isGiant, ecm128GiantLo, ecm128GiantHi d2 hd2, Bool.and_eq_true, decide_eq_true_eq]
    omega

theorem pp1_grid_exact {d1 d2 m : Nat} (h6 : 6 ∣ d1) (hd : 0 < d1) (hd2 : 1 ≤ d2) :
    pp1IsGrid d1 d2 m = true ↔
      ∃ i b, 1 ≤ i ∧ i ≤ d2 ∧ 1 ≤ b ∧ b < d1 / 2 ∧ Nat.gcd b d1 = 1 ∧ (m = i * d1 + b ∨ m + b = i * d1) := by
  unfold pp1IsGrid
  rw [symIsGrid_iff (fun b hb => by have := (pp1Baby_iff h6 hd).mp hb; omega) hd]
  constructor
  · rintro ⟨i, b, hgi, hb, hm⟩
    obtain ⟨hb0, hb1, hbg⟩ := (pp1Baby_iff h6 hd).mp hb
    simp only [isGiant, pp1GiantLo, pp1GiantHi d2 hd2, Bool.and_eq_true, decide_eq_true_eq] at hgi
    exact ⟨i, b, hgi.1, by omega, hb0, hb1, hbg, hm⟩
  · rintro ⟨i, b, hi1, hi2, hb0, hb1, hbg, hm⟩
    refine ⟨i, b, ?_, (pp1Baby_iff h6 hd).mpr ⟨hb0, hb1, hbg⟩, hm⟩
    simp only [isGiant, pp1GiantLo, pp1GiantHi d2 hd2, Bool.and_eq_true, decide_eq_true_eq]
    omega

theorem pm1_grid_exact {d1 d2 m : Nat} (h6 : 6 ∣ d1) (hd : 0 < d1) :
    pm1IsGrid d1 d2 m = true ↔
      ∃ q r, pm1Deg d1 + q + 1 ≤ d2 ∧ 0 < r ∧ r ≤ d1 + 1 ∧ Nat.gcd r d1 = 1 ∧ (m + r = q * d1 ∨ m + q * d1 = r) := by
  have hdeg : 1 ≤ pm1Deg d1 := by rw [pm1Deg_eq h6 hd]; omega
  unfold pm1IsGrid
  rw [pm1IsGridDeg_iff h6 hd hdeg]
  constructor
  · rintro ⟨q, r, hq, hb, hm⟩
    obtain ⟨h0, h1, hg⟩ := (pm1Baby_iff h6 hd).mp hb
    exact ⟨q, r, hq, h0, h1, hg, hm⟩
  · rintro ⟨q, r, hq, h0, h1, hg, hm⟩
    exact ⟨q, r, hq, (pm1Baby_iff h6 hd).mpr ⟨h0, h1, hg⟩, hm⟩

/-- the upper ends are exact: beyond them no multiple of `l` is tested -/
theorem ecm_nothing_above {d1 d2 l : Nat} (hd : 0 < d1) (hl : ecmEff d1 d2 < l) : ecmHits d1 d2 l = false := by
  rw [Bool.eq_false_iff]
  intro h
  unfold ecmHits hitsUpTo at h
  obtain ⟨k, _, hk⟩ := (anyBelow_iff _ _).mp h
  have := sym_grid_le (fun b hb => (ecmBaby_iff.mp hb).2.1) (symIsGrid_sound hd hk)
  unfold ecmEff at hl
  have h2 : l ≤ (k + 1) * l := Nat.le_mul_of_pos_left _ (by omega)
  omega

theorem pp1_nothing_above {d1 d2 l : Nat} (h6 : 6 ∣ d1) (hd : 0 < d1) (hl : pp1Eff d1 d2 < l) :
    pp1Hits d1 d2 l = false := by
  rw [Bool.eq_false_iff]
  intro h
  unfold pp1Hits hitsUpTo at h
  obtain ⟨k, _, hk⟩ := (anyBelow_iff _ _).mp h
  have := sym_grid_le (fun b hb => ((pp1Baby_iff h6 hd).mp hb).2.1) (symIsGrid_sound hd hk)
  unfold pp1Eff at hl
  have h2 : l ≤ (k + 1) * l := Nat.le_mul_of_pos_left _ (by omega)
  omega

theorem pm1_nothing_above {d1 d2 l : Nat} (h6 : 6 ∣ d1) (hd : 0 < d1) (hl : pm1Eff d1 d2 < l) (hl2 : d1 + 1 < l) :
    pm1Hits d1 d2 l = false := by
  have hdeg : 1 ≤ pm1Deg d1 := by rw [pm1Deg_eq h6 hd]; omega
  rw [Bool.eq_false_iff]
  intro h
  unfold pm1Hits hitsUpTo at h
  obtain ⟨k, _, hk⟩ := (anyBelow_iff _ _).mp h
  have := pm1_grid_le h6 hd (pm1IsGridDeg_sound hd hdeg hk)
  unfold pm1Eff pm1EffDeg at hl
  delta Stage2Arms.pm1Neg Stage2Arms.pm1ValsOff at hl
  have e : pm1Deg d1 + 2 - 2 = pm1Deg d1 := by omega
  rw [e] at hl
  have h2 : l ≤ (k + 1) * l := Nat.le_mul_of_pos_left _ (by omega)
  omega

/-- what the correspondence runs compare with the code: `*Hits l` ⇔ some positive multiple of `l` is a
grid value (for an element of exact order `l` this is "the factor is found in stage 2"). -/
theorem ecm_hits_exact {d1 d2 l : Nat} (hd : 0 < d1) (hl : 0 < l) :
    ecmHits d1 d2 l = true ↔ ∃ m, 0 < m ∧ l ∣ m ∧ ecmIsGrid d1 d2 m = true := by
  unfold ecmHits
  apply hitsUpTo_iff hl
  intro m hm
  have h1 := sym_grid_le (fun b hb => (ecmBaby_iff.mp hb).2.1) (symIsGrid_sound hd hm)
  obtain ⟨i, _, hgi, _, _⟩ := symIsGrid_sound hd hm
  simp only [isGiant, Bool.and_eq_true, decide_eq_true_eq] at hgi
  unfold symEff at h1
  unfold symMax
  obtain ⟨k, hk⟩ : ∃ k, giantHi Stage2Arms.ecmGiant d2 = k + 1 := ⟨giantHi Stage2Arms.ecmGiant d2 - 1, by omega⟩
  rw [hk] at h1 ⊢
  have : (k + 1) * d1 = k * d1 + d1 := by ring
  simp only [Nat.add_sub_cancel] at h1
  omega

theorem pp1_hits_exact {d1 d2 l : Nat} (h6 : 6 ∣ d1) (hd : 0 < d1) (hl : 0 < l) :
    pp1Hits d1 d2 l = true ↔ ∃ m, 0 < m ∧ l ∣ m ∧ pp1IsGrid d1 d2 m = true := by
  unfold pp1Hits
  apply hitsUpTo_iff hl
  intro m hm
  have h1 := sym_grid_le (fun b hb => ((pp1Baby_iff h6 hd).mp hb).2.1) (symIsGrid_sound hd hm)
  obtain ⟨i, _, hgi, _, _⟩ := symIsGrid_sound hd hm
  simp only [isGiant, Bool.and_eq_true, decide_eq_true_eq] at hgi
  unfold symEff at h1
  unfold symMax
  obtain ⟨k, hk⟩ : ∃ k, giantHi Stage2Arms.pp1Giant d2 = k + 1 := ⟨giantHi Stage2Arms.pp1Giant d2 - 1, by omega⟩
  rw [hk] at h1 ⊢
  have : (k + 1) * d1 = k * d1 + d1 := by ring
  simp only [Nat.add_sub_cancel] at h1
  omega

theorem pm1_hits_exact {d1 d2 l : Nat} (h6 : 6 ∣ d1) (hd : 0 < d1) (hl : 0 < l) :
    pm1Hits d1 d2 l = true ↔ ∃ m, 0 < m ∧ l ∣ m ∧ pm1IsGrid d1 d2 m = true := by
  have hdeg : 1 ≤ pm1Deg d1 := by rw [pm1Deg_eq h6 hd]; omega
  unfold pm1Hits pm1IsGrid
  apply hitsUpTo_iff hl
  intro m hm
  have h1 := pm1_grid_le h6 hd (pm1IsGridDeg_sound hd hdeg hm)
  have h2 : (d2 - 1 - pm1Deg d1) * d1 ≤ (d2 + 1) * d1 := Nat.mul_le_mul_right _ (by omega)
  have h3 : (d2 + 1) * d1 = d2 * d1 + d1 := by ring
  have h4 : 6 ≤ d1 := Nat.le_of_dvd hd h6
  obtain ⟨q, r, hq, _, _⟩ := pm1IsGridDeg_sound hd hdeg hm
  have h5 : 1 * d1 ≤ d2 * d1 := Nat.mul_le_mul_right _ (by omega)
  omega

/-! ## 2. Algebra: a grid value divisible by the missing prime makes a factor vanish -/

/-- `pm1_hit` (P-1; C17 supplies `p − 1 ∣ E·m` for `m` a multiple of the one missing prime):
`m = q·d1 − r` (or `r − q·d1`) on the grid ⇒ `p` divides the value `∏_r (g^(E·q·d1) − g^(E·r))` that
`pm1_stage2_polyeval` evaluates (up to a unit) at the giant step `q`. -/
theorem pm1_hit {p : Nat} (hp : p.Prime) {g : ℤ} (hg : ¬ (p : ℤ) ∣ g) {E m q d1 r : Nat} {rs : List Nat}
    (hr : r ∈ rs) (hE : p - 1 ∣ E * m) (hm : m + r = q * d1 ∨ m + q * d1 = r) :
    (p : ℤ) ∣ (rs.map (fun r => g ^ (E * (q * d1)) - g ^ (E * r))).prod :=
  pm1_prod_dvd hp hg hr hE hm

/-- coefficient `k ∈ [deg, d2)` of the chirp-z convolution is a power of `h = g^(d1/2)` times
`P(h^(2·(d2−1−k))) = P(g^((d2−1−k)·d1))`: the index arithmetic of `pm1_stage2_polyeval`. -/
theorem chirpz_coeff {R : Type*} [CommRing R] (h : R) (P : Nat → R) {d2 k deg : Nat} (hk : k + 1 ≤ d2) (hdeg : deg ≤ k) :
    (Finset.range (deg + 1)).sum (fun i => P i * h ^ (d2 * d2 - (d2 - 1 - i) * (d2 - 1 - i)) * h ^ ((k - i) * (k - i))) =
      h ^ (d2 * d2 + k * k - (d2 - 1) * (d2 - 1)) *
        (Finset.range (deg + 1)).sum (fun i => P i * (h ^ (2 * (d2 - 1 - k))) ^ i) :=
  Ymq.Stage2.chirpz_coeff h P hk hdeg

/-- `pp1_hit` (P+1). Premises `x·y = 1`, seed `= x + y`, `x^(E·m) = 1` are hypothesis HNorm + C17
(`x` of norm one in `F_{p²}`, order dividing `p + 1 ∣ E·m`). Conclusion: the Lucas values compared by
stage 2 coincide, so their difference is a zero factor of the product. -/
theorem pp1_hit {R : Type*} [CommRing R] {x y : R} (hxy : x * y = 1) {E m i d1 b : Nat}
    (hm1 : x ^ (E * m) = 1) (hm : m = i * d1 + b ∨ m + b = i * d1) :
    chebV (chebV (x + y) E) (i * d1) - chebV (chebV (x + y) E) b = 0 := by
  rw [pp1_step_eq hxy hm1 hm, sub_self]

/-- `ecm_hit`: in an additive group with an even coordinate function (`y(−P) = y(P)`; C15),
`(E·m)•G = 0` and `m = i·d1 ± b` ⇒ the giant step `[i·d1]Q` and the baby step `[b]Q` of `Q = [E]G`
have the same coordinate. -/
theorem ecm_hit {A Y : Type*} [AddCommGroup A] (y : A → Y) (heven : ∀ P, y (-P) = y P) {G : A}
    {E m i d1 b : Nat} (hm0 : (E * m) • G = 0) (hm : m = i * d1 + b ∨ m + b = i * d1) :
    y ((i * d1) • (E • G)) = y (b • (E • G)) :=
  ecm_step_eq y heven hm0 hm

/-- `V_{m+n} = V_m V_n − V_{m−n}` (with `m = n + d`), from the three-term recurrence alone. -/
theorem chebyshev_recurrence {R : Type*} [CommRing R] (a : R) (n d : Nat) :
    chebV a (n + d + n) = chebV a (n + d) * chebV a n - chebV a d :=
  chebV_add a n d

/-- `chebyshev_modn` computes `V_k(g)` for every `k` (including `k = 0` since commit f403d5f). -/
theorem chebyshev_spec {R : Type*} [CommRing R] (g : R) (k : Nat) :
    chebyshevModn (· * ·) (· - ·) 2 g ((Stage2Arms.chebZero : Nat) : R) k = chebV g k :=
  chebyshevModn_eq g k

/-- `exp_modn(g, e) = g^e` for every `e < 2^64`, and no `unreachable!` is reached. -/
theorem exp_modn_spec {M : Type*} [CommMonoid M] (g : M) (e : Nat) (he : e < 2 ^ 64) :
    expModn (· * ·) 1 g e = some (g ^ e) :=
  expModn_eq g e he

/-- `exp_modn_large(g, e) = g^e` for every `e < 2^1024` (6-bit windows), and no index of `g_smalls` is out of range. -/
theorem exp_modn_large_spec {M : Type*} [CommMonoid M] (g : M) (e : Nat) (he : e < 2 ^ 1024) :
    expModnLarge (· * ·) 1 g e = some (g ^ e) :=
  expModnLarge_eq g e he

/-- `gcd_factors`/`find_factors`: for a sequence with increasing gcds (`G i ∣ G j` for `i ≤ j`) the returned list
multiplies to `gcd_last / gcd_first`, every part is `> 1`, no debug assertion fails, `facs.prod · rest = n`, and
factors caught at different steps are not merged: every part is accepted by `pseudoprime` or is the increment
`G (j+1) / G j` of one single step. -/
theorem gcd_factors_prod (n : Nat) (vals : List Nat) (pp : Nat → Bool) (hn : 0 < n) (hne : vals ≠ [])
    (hchain : ∀ i j, i ≤ j → j < vals.length → Nat.gcd n (vals.getD i 0) ∣ Nat.gcd n (vals.getD j 0)) :
    ∃ facs rest, gcdFactors n vals pp = some (facs, rest) ∧
      facs.prod * Nat.gcd n (vals.getD 0 0) = Nat.gcd n (vals.getD (vals.length - 1) 0) ∧
      facs.prod * rest = n ∧ (∀ f ∈ facs, 1 < f) ∧
      ∀ f ∈ facs, pp f = true ∨ ∃ j, j + 1 < vals.length ∧
        f * Nat.gcd n (vals.getD j 0) = Nat.gcd n (vals.getD (j + 1) 0) :=
  gcdFactors_spec n vals pp hn hne hchain

/-- the precondition of `gcd_factors` holds for everything the stages pass to it: cumulative products -/
theorem cumulative_products_chain (n : Nat) (v t : Nat → Nat) (h : ∀ i, v (i + 1) = v i * t i % n) :
    ∀ i j, i ≤ j → Nat.gcd n (v i) ∣ Nat.gcd n (v j) :=
  chain_of_cumulative n v t h

/-- `check_gcd_factors` (P-1, P+1) keeps the invariant `factors.prod · nred = n`, every recorded factor `> 1`,
`n` itself never recorded (the `fs.contains(n)` guard), and leaves a non-empty value list when the run continues. -/
theorem check_gcd_factors_inv (n : Nat) (pp : Nat → Bool) (st : CgfState) (hinv : CgfInv n st) (hne : st.vals ≠ [])
    (hchain : ∀ i j, i ≤ j → j < st.vals.length →
      Nat.gcd st.nred (st.vals.getD i 0) ∣ Nat.gcd st.nred (st.vals.getD j 0)) :
    ∃ b st', checkGcdFactors n pp st = some (b, st') ∧ CgfInv n st' ∧ (b = false → st'.vals ≠ []) :=
  checkGcdFactors_inv n pp st hinv hne hchain

/-- the polynomial path of `pm1_impl` (stage 2 by `pm1_stage2_polyeval`, appended without `check_gcd_factors`): with the
guard `if f2.contains(n) { return None; }` (commit 9b94f92; its presence is read from the source into
`Stage2Arms.pm1PolyGuard`) every state it produces satisfies the invariant, and `n ∉ f2` holds for the list appended. -/
theorem pm1_polyeval_inv (n : Nat) (pp : Nat → Bool) (st : CgfState) (hinv : CgfInv n st) (hne : st.vals ≠ [])
    (hchain : ∀ i j, i ≤ j → j < st.vals.length →
      Nat.gcd st.nred (st.vals.getD i 0) ∣ Nat.gcd st.nred (st.vals.getD j 0)) :
    ∃ r, pm1PolyStep n pp st = some r ∧ ∀ st', r = some st' →
      CgfInv n st' ∧ ∃ f2 n2, gcdFactors st.nred st.vals pp = some (f2, n2) ∧ n ∉ f2 ∧
        st' = { factors := st.factors ++ f2, nred := n2, vals := [] } :=
  pm1PolyStep_inv n pp st hinv hne hchain

/-- … so what `pm1_impl` / `pp1` return multiplies to `n` with all listed parts `> 1`, none equal to `n`. -/
theorem pm1_result_proper {n : Nat} {st : CgfState} (hinv : CgfInv n st) {fs : List Nat} {rest : Nat}
    (h : splitResult st = some (fs, rest)) :
    fs.prod * rest = n ∧ (∀ f ∈ fs, 1 < f) ∧ 0 < rest ∧ n ∉ fs ∧ fs ≠ [] :=
  splitResult_proper hinv h

/-- shrinking the ring to `Z/nred` (`nred ∣ n`) is consistent and does not change any gcd -/
theorem shrink_ring_consistent {n nred x : Nat} (h : nred ∣ n) :
    x % n % nred = x % nred ∧ Nat.gcd nred (x % n % nred) = Nat.gcd nred x :=
  shrink_ring h

/-- `ecm::check_gcd_factor`: a returned value is a proper divisor (`ecm_curve` returns `(d, n/d)`). -/
theorem check_gcd_factor_proper (n : Nat) (vals : List Nat) (pp : Nat → Bool) (hn : 0 < n) (hne : vals ≠ [])
    (hchain : ∀ i j, i ≤ j → j < vals.length → Nat.gcd n (vals.getD i 0) ∣ Nat.gcd n (vals.getD j 0)) :
    ∃ r, checkGcdFactor n vals pp = some r ∧ ∀ d, r = some d → d * (n / d) = n ∧ 1 < d ∧ d < n ∧ 1 < n / d :=
  checkGcdFactor_proper n vals pp hn hne hchain

/-- `rho_impl`: whatever it returns multiplies to `n`, parts `> 1`, cofactor strictly between 1 and `n`. -/
theorem rho_impl_proper (n : Nat) (prods : List Nat) (pp : Nat → Bool) (hn : 0 < n) (hne : prods ≠ [])
    (hchain : ∀ i j, i ≤ j → j < prods.length → Nat.gcd n (prods.getD i 0) ∣ Nat.gcd n (prods.getD j 0)) :
    ∃ r, rhoImplResult n prods pp = some r ∧ ∀ fs rest, r = some (fs, rest) →
      fs.prod * rest = n ∧ (∀ f ∈ fs, 1 < f) ∧ 1 < rest ∧ rest < n ∧ fs ≠ [] :=
  rhoImplResult_proper n prods pp hn hne hchain

/-- y-normalisation of `ecm_curve`: the two passes turn `y_k` into `y_k · ∏_{j≠k} z_j` (`ynSpec`), `z` untouched. -/
theorem ynorm_spec {M : Type*} [CommMonoid M] (l : List (M × M)) : ynorm (· * ·) l = ynSpec 1 l :=
  ynorm_eq_spec l

/-- … and over `Z/p` (no `z ≡ 0`) two normalised `y`s differ by a multiple of `p` exactly when the affine `y/z`
agree, i.e. (even coordinate, `ecm_hit`) when the points are equal up to sign modulo `p`. -/
theorem ynorm_compare {F : Type*} [CommRing F] [IsDomain F] (l : List (F × F)) (hz : ∀ e ∈ l, e.2 ≠ 0)
    (i k : Nat) (ei ek ei' ek' : F × F) (hi : l[i]? = some ei) (hk : l[k]? = some ek)
    (hi' : (ynorm (· * ·) l)[i]? = some ei') (hk' : (ynorm (· * ·) l)[k]? = some ek') :
    ei'.1 - ek'.1 = 0 ↔ ei.1 * ek.2 = ek.1 * ei.2 :=
  Ymq.ExpModn.ynorm_compare l hz i k ei ek ei' ek' hi hk hi' hk'

/-- `PM1Base::factor`, stage 1: a budget of at least 1024 applies every block of small prime powers. -/
theorem pm1base_full_stage1 (nf budget : Nat) (h : Stage2Arms.pm1base.1 ≤ budget) :
    pm1baseFmax Stage2Arms.pm1base nf budget = nf :=
  pm1baseFmax_full nf budget h

/-- `PM1Base::factor`, stage 2 (`pm1base_cover`): with budget ≥ 1001 the tested exponents are exactly the first
`min(len, budget − 1000)` large primes, no index of `jumps` is out of range — for a table that starts at 503 and
consists of odd increasing numbers at most 128 apart (hypothesis HLarges: true of the real table, request
`s2_pm1base_data`; the table itself is C17's). -/
theorem pm1base_cover (larges : List Nat) (budget : Nat) (hb : 1001 ≤ budget) (hne : larges ≠ [])
    (hfirst : larges.head? = some 503) (hodd : ∀ p ∈ larges, p % 2 = 1)
    (hch : List.IsChain (fun a b => a < b ∧ b - a ≤ 128) larges) :
    pm1baseTested Stage2Arms.pm1base larges budget = some (larges.take (min larges.length (budget - 1000))) :=
  pm1baseTested_spec larges budget hb hne hfirst hodd hch

/-- `PM1Base::factor`: if `p − 1 ∣ E·l` for a tested exponent `l` then `p` divides the factor `2^(E·l) − 1` of the product. -/
theorem pm1base_hit {p : Nat} (hp : p.Prime) (hp2 : p ≠ 2) {E l : Nat} (hE : p - 1 ∣ E * l) :
    (p : ℤ) ∣ (2 : ℤ) ^ (E * l) - 1 := by
  have := Fact.mk hp
  rw [← ZMod.intCast_zmod_eq_zero_iff_dvd]
  push_cast
  have h2 : (2 : ZMod p) ≠ 0 := by
    intro h
    have : (p : ℤ) ∣ 2 := (ZMod.intCast_zmod_eq_zero_iff_dvd 2 p).mp (by exact_mod_cast h)
    have hle : p ≤ 2 := Nat.le_of_dvd (by decide) (by exact_mod_cast this)
    have := hp.two_le
    omega
  rw [pow_eq_one_of_dvd h2 hE, sub_self]

/-- the guard `d > 1 && d < n` with `d = gcd(n, ·)`: a returned pair is a proper split -/
theorem guard_proper {n x a b : Nat} (h : guard n (Nat.gcd n x) = some (a, b)) :
    a * b = n ∧ 1 < a ∧ a < n ∧ 1 < b :=
  guard_spec h

/-- `rho64`: whatever it returns is a proper split of `n`. -/
theorem rho64_proper {n c iters a b : Nat} (h : rho64 n c iters = some (some (a, b))) :
    a * b = n ∧ 1 < a ∧ a < n ∧ 1 < b :=
  rho64_spec h

/-! ## 3. Tables (decided on the lists regenerated from the source) -/

/-- 6 ∣ d1, d2 ≥ 2 everywhere; the rows of the P-1 table have d2 a power of two and leave room for
the polynomial (`deg + 1 ≤ d2`); every d1 is the product of its listed factorisation. -/
def rowOk (r : Nat × Nat × Nat) : Bool := r.2.1 % 6 == 0 && decide (2 ≤ r.2.2) && decide (0 < r.2.1)

def lookupFactors (d1 : Nat) : Option (List (Nat × Nat)) := Stage2Arms.d1Factors.lookup d1

/-- φ(d1) from the generated factorisation (0 when d1 is not listed) -/
def phiTab (d1 : Nat) : Nat := match lookupFactors d1 with | some fs => phiOf fs | none => 0

def factorsOk (d1 : Nat) : Bool :=
  match lookupFactors d1 with
  | some fs => valOf fs == d1 && okFactors fs
  | none => false

def pm1RowOk (r : Nat × Nat × Nat) : Bool :=
  rowOk r && factorsOk r.2.1 && r.2.2 == 2 ^ Nat.log2 r.2.2 && decide (phiTab r.2.1 + 2 ≤ r.2.2)

theorem rows_ok :
    (Stage2.ecmTable.all fun r => rowOk r && factorsOk r.2.1) = true ∧ (Stage2.pm1Table.all pm1RowOk) = true := by
  constructor <;> decide

theorem factorsOk_totient {d1 : Nat} (h : factorsOk d1 = true) : Nat.totient d1 = phiTab d1 := by
  unfold factorsOk at h
  unfold phiTab
  split at h
  · rename_i fs hfs
    simp only [Bool.and_eq_true, beq_iff_eq] at h
    rw [← h.1]
    exact totient_valOf fs h.2
  · exact absurd h (by simp)

/-- degree of the polynomial of `pm1_stage2_polyeval` for a table row: `φ(d1) + 1` -/
theorem pm1_degree {r : Nat × Nat × Nat} (hr : r ∈ Stage2.pm1Table) : pm1Deg r.2.1 = phiTab r.2.1 + 1 := by
  have h := List.all_eq_true.mp rows_ok.2 r hr
  simp only [pm1RowOk, rowOk, Bool.and_eq_true, beq_iff_eq, decide_eq_true_eq] at h
  obtain ⟨⟨⟨⟨⟨h6, _⟩, hd⟩, hf⟩, _⟩, _⟩ := h
  rw [pm1Deg_eq (Nat.dvd_of_mod_eq_zero h6) hd, factorsOk_totient hf]

/-- effective B2 of a P-1 row in closed form -/
def pm1EffRow (r : Nat × Nat × Nat) : Nat := pm1EffDeg r.2.1 r.2.2 (phiTab r.2.1 + 1)

theorem pm1_rows_eff {r : Nat × Nat × Nat} (hr : r ∈ Stage2.pm1Table) : pm1Eff r.2.1 r.2.2 = pm1EffRow r := by
  unfold pm1Eff pm1EffRow; rw [pm1_degree hr]

/-- rows of the P-1 table that cannot be selected by a `b2 > MULTIEVAL_THRESHOLD`: a larger label is
at least as close to every such `b2`. -/
def dominated (r : Nat × Nat × Nat) : Bool :=
  Stage2.pm1Table.any fun q => decide (r.1 < q.1) && decide (r.1 + q.1 ≤ 2 * Stage2.multievalThreshold)

def pm1PolyRows : List (Nat × Nat × Nat) := Stage2.pm1Table.filter fun r => !dominated r

/-- every `b2 > MULTIEVAL_THRESHOLD` (integral) selects a row of `pm1PolyRows` -/
theorem pm1_poly_rows (b2 : Nat) (hb : Stage2.multievalThreshold < b2) :
    ∃ row, Stage2.pm1Stage2Select b2 1 = some row ∧ row ∈ pm1PolyRows := by
  obtain ⟨row, h1, h2, h3⟩ := Ymq.Checked.nearestRow_spec Stage2.pm1Table (by decide) b2 1
  refine ⟨row, h1, ?_⟩
  unfold pm1PolyRows
  rw [List.mem_filter]
  refine ⟨h2, ?_⟩
  rw [Bool.not_eq_true', Bool.eq_false_iff]
  intro hdom
  unfold dominated at hdom
  obtain ⟨q, hq, hc⟩ := List.any_eq_true.mp hdom
  simp only [Bool.and_eq_true, decide_eq_true_eq] at hc
  have := h3 q hq
  unfold Ymq.Checked.absDiff at this
  simp only [Nat.mul_one] at this
  split at this <;> split at this <;> omega

/-- the full statement: the label a run reports does not exceed its effective B2 -/
def ReportedLeEffective (rows : List (Nat × Nat × Nat)) (eff : Nat → Nat → Nat) : Prop :=
  ∀ r ∈ rows, r.1 ≤ eff r.2.1 r.2.2

def badOf (rows : List (Nat × Nat × Nat)) (eff : Nat × Nat × Nat → Nat) : List (Nat × Nat) :=
  rows.filterMap fun r => if r.1 ≤ eff r then none else some (r.1, eff r)

def labelsEff (l : List (Nat × Nat × Nat)) : List (Nat × Nat) := l.map fun t => (t.1, t.2.1)

/-- the rows that report too much, with their effective B2: exactly the generated lists -/
theorem ecm_badRows : badOf Stage2.ecmTable (fun r => ecmEff r.2.1 r.2.2) = labelsEff Stage2Arms.ecmBadRows := by
  decide

theorem pp1_badRows : badOf Stage2.ecmTable (fun r => pp1Eff r.2.1 r.2.2) = labelsEff Stage2Arms.pp1BadRows := by
  decide

theorem pm1_badRows_closed : badOf pm1PolyRows pm1EffRow = labelsEff Stage2Arms.pm1BadRows := by
  decide

theorem badOf_congr {rows : List (Nat × Nat × Nat)} {e1 e2 : Nat × Nat × Nat → Nat} (h : ∀ r ∈ rows, e1 r = e2 r) :
    badOf rows e1 = badOf rows e2 := by
  unfold badOf
  induction rows with
  | nil => rfl
  | cons a t ih =>
    have ha := h a (List.mem_cons_self ..)
    have ht := ih (fun r hr => h r (List.mem_cons_of_mem _ hr))
    simp only [List.filterMap_cons, ha, ht]

theorem pm1PolyRows_sub {r : Nat × Nat × Nat} (h : r ∈ pm1PolyRows) : r ∈ Stage2.pm1Table :=
  (List.mem_filter.mp h).1

theorem pm1_badRows : badOf pm1PolyRows (fun r => pm1Eff r.2.1 r.2.2) = labelsEff Stage2Arms.pm1BadRows := by
  rw [badOf_congr (fun r hr => pm1_rows_eff (pm1PolyRows_sub hr))]
  exact pm1_badRows_closed

theorem mem_badOf {rows : List (Nat × Nat × Nat)} {eff : Nat × Nat × Nat → Nat} {r : Nat × Nat × Nat}
    (hr : r ∈ rows) (h : ¬ r.1 ≤ eff r) : (r.1, eff r) ∈ badOf rows eff := by
  unfold badOf
  rw [List.mem_filterMap]
  exact ⟨r, hr, by simp [h]⟩

theorem not_bad_le {rows : List (Nat × Nat × Nat)} {eff : Nat × Nat × Nat → Nat} {r : Nat × Nat × Nat}
    (hr : r ∈ rows) (h : r.1 ∉ (badOf rows eff).map Prod.fst) : r.1 ≤ eff r := by
  by_contra hc
  exact h (List.mem_map.mpr ⟨_, mem_badOf hr hc, rfl⟩)

/-- counter-witnesses: the full statement fails for each of the three consumers -/
theorem reported_le_effective_ecm_counter : ¬ ReportedLeEffective Stage2.ecmTable ecmEff := by
  intro h
  have := h (33000, 510, 64) (by decide)
  revert this; decide

theorem reported_le_effective_pp1_counter : ¬ ReportedLeEffective Stage2.ecmTable pp1Eff := by
  intro h
  have := h (33000, 510, 64) (by decide)
  revert this; decide

theorem reported_le_effective_pm1_counter : ¬ ReportedLeEffective pm1PolyRows pm1Eff := by
  intro h
  have hr : ((980000, 510, 2048) : Nat × Nat × Nat) ∈ pm1PolyRows := by decide
  have := h _ hr
  rw [pm1_rows_eff (pm1PolyRows_sub hr)] at this
  revert this; decide

/-- … and holds for every row outside the generated lists (exact excluded sets) -/
theorem reported_le_effective_partial_ecm :
    ∀ r ∈ Stage2.ecmTable, r.1 ∉ Stage2Arms.ecmBadRows.map (·.1) → r.1 ≤ ecmEff r.2.1 r.2.2 := by
  intro r hr hn
  apply not_bad_le (eff := fun r => ecmEff r.2.1 r.2.2) hr
  rw [ecm_badRows]
  simpa [labelsEff, List.map_map, Function.comp_def] using hn

theorem reported_le_effective_partial_pp1 :
    ∀ r ∈ Stage2.ecmTable, r.1 ∉ Stage2Arms.pp1BadRows.map (·.1) → r.1 ≤ pp1Eff r.2.1 r.2.2 := by
  intro r hr hn
  apply not_bad_le (eff := fun r => pp1Eff r.2.1 r.2.2) hr
  rw [pp1_badRows]
  simpa [labelsEff, List.map_map, Function.comp_def] using hn

theorem reported_le_effective_partial_pm1 :
    ∀ r ∈ pm1PolyRows, r.1 ∉ Stage2Arms.pm1BadRows.map (·.1) → r.1 ≤ pm1Eff r.2.1 r.2.2 := by
  intro r hr hn
  apply not_bad_le (eff := fun r => pm1Eff r.2.1 r.2.2) hr
  rw [pm1_badRows]
  simpa [labelsEff, List.map_map, Function.comp_def] using hn

/-- For every bad row the generated witness `w` (third component) lies in `(effective B2, label]`,
does not divide `d1`… and, being above the upper end, is not tested: no multiple of it is a grid
value.  (That `w` is prime: `bad_row_witnesses_prime` below.) -/
def witnessOk (eff : Nat → Nat → Nat) (table : List (Nat × Nat × Nat)) (t : Nat × Nat × Nat) : Bool :=
  table.any fun r => r.1 == t.1 && decide (eff r.2.1 r.2.2 = t.2.1) && decide (t.2.1 < t.2.2) && decide (t.2.2 ≤ r.1) &&
    Nat.gcd t.2.2 r.2.1 == 1 && decide (r.2.1 + 1 < t.2.2)

theorem bad_rows_miss_a_value :
    (Stage2Arms.ecmBadRows.all (witnessOk ecmEff Stage2.ecmTable)) = true ∧
    (Stage2Arms.pp1BadRows.all (witnessOk pp1Eff Stage2.ecmTable)) = true ∧
    (Stage2Arms.pm1BadRows.all (witnessOk (fun d1 d2 => pm1EffRow (0, d1, d2)) Stage2.pm1Table)) = true := by
  refine ⟨?_, ?_, ?_⟩ <;> decide

/-- the witnesses are prime: the generated Pratt certificates check (kernel evaluation of `prattTable`), and
`prattTable` is sound by Lucas' criterion -/
def witnessesCertified : Bool :=
  match prattTable [] Stage2Arms.witnessCerts with
  | some known => (Stage2Arms.ecmBadRows ++ Stage2Arms.pp1BadRows ++ Stage2Arms.pm1BadRows).all fun t =>
      known.contains t.2.2 || (decide (t.2.2 < 65536) && isPrimeTD t.2.2)
  | none => false

theorem witnesses_certified : witnessesCertified = true := by decide +kernel

/-- every bad row misses a **prime** `w` with `effective B2 < w ≤ label`, `w ∤ d1` (`bad_rows_miss_a_value`):
the full statement `reported_le_effective` fails on an actual stage-2 prime, not only on a grid value. -/
theorem bad_row_witnesses_prime :
    ∀ t ∈ Stage2Arms.ecmBadRows ++ Stage2Arms.pp1BadRows ++ Stage2Arms.pm1BadRows, Nat.Prime t.2.2 := by
  intro t ht
  have h := witnesses_certified
  unfold witnessesCertified at h
  cases hk : prattTable [] Stage2Arms.witnessCerts with
  | none => simp [hk] at h
  | some known =>
    simp only [hk, List.all_eq_true, List.contains_iff_mem, Bool.or_eq_true, Bool.and_eq_true, decide_eq_true_eq] at h
    rcases h t ht with hm | ⟨hlt, htd⟩
    · exact prattTable_sound _ [] known (by simp) hk _ hm
    · exact isPrimeTD_sound (by omega) htd

/-! ### hard-wired (B1, B2) -/

/-- ECM128 prints the requested B2: every hard-wired B2 of `ecm128` / `ecm_semiprime` is a table label
whose row is not a bad row. -/
def ecm128B2s : List Nat :=
  (Stage2.ecm128Arms.flatMap fun a => a.2.2.2.map fun r => r.2.2) ++ Stage2.ecmSemiprimeArms.map fun a => a.2.2.2

theorem ecm128_arms_exact :
    (ecm128B2s.all fun b2 => match Stage2.stage2Select b2 1 with
      | some r => r.1 == b2 && decide (b2 ≤ ecm128Eff r.2.1 r.2.2)
      | none => false) = true := by
  decide

/-- P-1 prime walk (`b2 ≤ MULTIEVAL_THRESHOLD`): the label printed is the nearest table label, the walk
stops at the first prime above `b2`.  Full statement "label ≤ b2" fails, e.g. b2 = 50000 is printed as 60000… -/
def walkLabel (b2 : Nat) : Nat := match Stage2.pm1Stage2Select b2 1 with | some r => r.1 | none => 0

theorem walk_reported_counter : ¬ (∀ b2, b2 ≤ Stage2.multievalThreshold → walkLabel b2 ≤ b2) := by
  intro h
  have := h 50000 (by decide)
  revert this; decide

/-- … but holds for every hard-wired `(B1, B2)` of `pm1_quick` / `pm1_only` and of the test-suite that takes the walk. -/
def pm1B2s : List Nat :=
  (Stage2.pm1QuickArms.flatMap fun a => a.2.2.2.map fun r => r.2) ++
  (Stage2.pm1OnlyArms.flatMap fun a => a.2.2.2.map fun r => r.2) ++ Stage2Arms.pm1TestCalls.map fun r => r.2

theorem walk_reported_arms :
    (pm1B2s.all fun b2 => decide (Stage2.multievalThreshold < b2) || decide (walkLabel b2 ≤ b2)) = true := by
  decide

/-- all (B1, B2) with which ECM is called: `ecm_auto`, `ecm_only` -/
def ecmCalls : List (Nat × Nat) :=
  (Stage2.ecmAutoArms.flatMap fun a => a.2.2.2.map fun r => (r.2.1, r.2.2)) ++ Stage2.ecmOnlyRuns.map fun r => (r.2.1, r.2.2)

def ecm128Calls : List (Nat × Nat) :=
  (Stage2.ecm128Arms.flatMap fun a => a.2.2.2.map fun r => (r.2.1, r.2.2)) ++
  Stage2.ecmSemiprimeArms.map fun a => (a.2.2.1, a.2.2.2)

def pp1CallsB : List (Nat × Nat) := Stage2Arms.pp1Calls.map fun r => (r.2.1, r.2.2)

/-- between B1 and the start of the direct cover (`d1/2`) every prime divides a grid value -/
def gapCovered (hits : Nat → Nat → Nat → Bool) (lo : Nat) (d1 d2 : Nat) : Bool :=
  (List.range' lo (d1 / 2 + 1 - lo)).all fun l => !isPrimeTD l || decide (d1 % l = 0) || hits d1 d2 l

def contiguous (hits : Nat → Nat → Nat → Bool) (strict : Bool) (c : Nat × Nat) : Bool :=
  match Stage2.stage2Select c.2 1 with
  | some r => gapCovered hits (if strict then c.1 else c.1 + 1) r.2.1 r.2.2
  | none => false

/-- ECM: stage 1 covers prime powers `< B1`; every prime `l ≥ B1` below `d1/2` (not dividing d1)
divides a grid value of the selected row, so the cover is contiguous from B1 to the effective B2. -/
theorem arms_contiguous_ecm : (ecmCalls.all (contiguous ecmHits true)) = true := by decide +kernel

/-- ECM128: needed for (16, 660), (40, 1080), (50, 1920) where `d1/2 > B1`. -/
theorem arms_contiguous_ecm128 : (ecm128Calls.all (contiguous ecm128Hits true)) = true := by decide +kernel

/-- P+1 (test-suite calls only; primes `≤ B1` are in stage 1). -/
theorem arms_contiguous_pp1 : (pp1CallsB.all (contiguous pp1Hits false)) = true := by decide +kernel

/-- every prime factor of the selected d1 is below B1 (so "l ∤ d1" holds for every stage-2 prime) -/
def d1PrimesBelow (sel : Nat → Option (Nat × Nat × Nat)) (c : Nat × Nat) : Bool :=
  match sel c.2 with
  | some r => match lookupFactors r.2.1 with
    | some fs => fs.all fun pe => decide (pe.1 < c.1)
    | none => false
  | none => false

theorem arms_d1_primes_below_b1 :
    ((ecmCalls ++ ecm128Calls ++ pp1CallsB).all (d1PrimesBelow fun b2 => Stage2.stage2Select b2 1)) = true ∧
    (((Stage2.pm1QuickArms.flatMap fun a => a.2.2.2) ++ (Stage2.pm1OnlyArms.flatMap fun a => a.2.2.2)).all
      (d1PrimesBelow fun b2 => Stage2.pm1Stage2Select b2 1)) = true := by
  constructor <;> decide

/-! ### what the decisions above mean: every prime between B1 and the effective B2 is tested -/

/-- trial division accepts every prime below 2^64 -/
theorem isPrimeTD_of_prime {l : Nat} (hp : l.Prime) (hl : l < 2 ^ 64) : isPrimeTD l = true := by
  unfold isPrimeTD
  have h2 := hp.two_le
  simp only [Bool.and_eq_true, decide_eq_true_eq, Bool.not_eq_true', h2, true_and]
  rw [Bool.eq_false_iff]
  intro h
  obtain ⟨k, hk, hpk⟩ := (anyBelow_iff _ _).mp h
  simp only [Bool.and_eq_true, decide_eq_true_eq, beq_iff_eq] at hpk
  obtain ⟨hk2, hdiv⟩ := hpk
  have hs := (Ymq.Checked.isqrt_spec l hl).1
  have hkl : k ∣ l := Nat.dvd_of_mod_eq_zero hdiv
  rcases (Nat.dvd_prime hp).mp hkl with h1 | h1
  · omega
  · subst h1
    have hsk : k ≤ Ymq.Checked.isqrt k := by omega
    have h5 : k * 2 ≤ Ymq.Checked.isqrt k * Ymq.Checked.isqrt k := Nat.mul_le_mul hsk (by omega)
    omega

/-- ECM with a hard-wired `(B1, B2)`: **every** prime `l` with `B1 ≤ l ≤ effective B2` of the selected
row divides a value of the grid (so it is found under C17 + `ecm_hit`), whether below or above `d1/2`. -/
theorem ecm_arm_covers {b1 b2 : Nat} (hc : (b1, b2) ∈ ecmCalls) {lab d1 d2 : Nat}
    (hsel : Stage2.stage2Select b2 1 = some (lab, d1, d2)) {l : Nat} (hp : l.Prime) (hlo : b1 ≤ l)
    (hhi : l ≤ ecmEff d1 d2) : ecmHits d1 d2 l = true := by
  have hrow : (lab, d1, d2) ∈ Stage2.ecmTable := by
    obtain ⟨row, h1, h2, _⟩ := Ymq.Checked.nearestRow_spec Stage2.ecmTable (by decide) b2 1
    unfold Stage2.stage2Select at hsel
    rw [hsel] at h1; cases h1; exact h2
  have hok := List.all_eq_true.mp rows_ok.1 _ hrow
  simp only [rowOk, Bool.and_eq_true, beq_iff_eq, decide_eq_true_eq] at hok
  obtain ⟨⟨⟨h6, hd2⟩, hd⟩, hfac⟩ := hok
  have h6' : 6 ∣ d1 := Nat.dvd_of_mod_eq_zero h6
  have hd1le : d1 ≤ 11741730 := by
    have : (Stage2.ecmTable.all fun r => decide (r.2.1 ≤ 11741730)) = true := by decide
    simpa using List.all_eq_true.mp this _ hrow
  have hd2le : d2 ≤ 4194304 := by
    have : (Stage2.ecmTable.all fun r => decide (r.2.2 ≤ 4194304)) = true := by decide
    simpa using List.all_eq_true.mp this _ hrow
  -- l does not divide d1: all prime factors of d1 are below b1
  have hprimes := List.all_eq_true.mp arms_d1_primes_below_b1.1 (b1, b2)
    (List.mem_append_left _ (List.mem_append_left _ hc))
  have hnd : ¬ l ∣ d1 := by
    intro hdv
    unfold d1PrimesBelow at hprimes
    simp only [hsel] at hprimes
    unfold factorsOk at hfac
    cases hlf : lookupFactors d1 with
    | none => simp [hlf] at hfac
    | some fs =>
      simp only [hlf, Bool.and_eq_true, beq_iff_eq] at hfac hprimes
      obtain ⟨pe, hmem, heq⟩ := prime_dvd_valOf hp fs hfac.2 (by rw [hfac.1]; exact hdv)
      have := List.all_eq_true.mp hprimes pe hmem
      simp only [decide_eq_true_eq] at this
      omega
  have heffv : ecmEff d1 d2 = d2 * d1 + d1 / 2 - 1 := by
    unfold ecmEff symEff; rw [ecmGiantHi d2 hd2]; simp
  rcases Nat.lt_or_ge (d1 / 2) l with hbig | hsmall
  · -- direct cover
    have hgrid := (ecm_cover h6' hd hd2 hp hnd hbig (by rw [← heffv]; exact hhi)).1
    unfold ecmHits hitsUpTo
    rw [anyBelow_iff]
    refine ⟨0, ?_, by simpa using hgrid⟩
    unfold symMax; rw [ecmGiantHi d2 hd2]
    have : l ≤ (d2 + 1) * d1 := by
      have : (d2 + 1) * d1 = d2 * d1 + d1 := by ring
      omega
    exact Nat.div_pos this hp.pos
  · -- below d1/2: the decided gap check
    have hcont := List.all_eq_true.mp arms_contiguous_ecm (b1, b2) hc
    unfold contiguous at hcont
    simp only [hsel, if_true] at hcont
    unfold gapCovered at hcont
    have hmem : l ∈ List.range' b1 (d1 / 2 + 1 - b1) := by
      rw [List.mem_range'_1]; omega
    have := List.all_eq_true.mp hcont l hmem
    have hl64 : l < 2 ^ 64 := by omega
    simp only [Bool.or_eq_true, Bool.not_eq_true', isPrimeTD_of_prime hp hl64, decide_eq_true_eq] at this
    rcases this with (h | h) | h
    · exact absurd h (by simp)
    · exact absurd (Nat.dvd_of_mod_eq_zero h) hnd
    · exact h

/-- ECM128 (`ecm128`, `ecm_semiprime`) with a hard-wired `(B1, B2)` — incl. (16, 660), (40, 1080), (50, 1920) where
`d1/2 > B1`: **every** prime `l` with `B1 ≤ l ≤ effective B2` of the selected
row divides a value of the grid (so it is found under C17 + `ecm_hit`), whether below or above `d1/2`. -/
theorem ecm128_arm_covers {b1 b2 : Nat} (hc : (b1, b2) ∈ ecm128Calls) {lab d1 d2 : Nat}
    (hsel : Stage2.stage2Select b2 1 = some (lab, d1, d2)) {l : Nat} (hp : l.Prime) (hlo : b1 ≤ l)
    (hhi : l ≤ ecm128Eff d1 d2) : ecm128Hits d1 d2 l = true := by
  have hrow : (lab, d1, d2) ∈ Stage2.ecmTable := by
    obtain ⟨row, h1, h2, _⟩ := Ymq.Checked.nearestRow_spec Stage2.ecmTable (by decide) b2 1
    unfold Stage2.stage2Select at hsel
    rw [hsel] at h1; cases h1; exact h2
  have hok := List.all_eq_true.mp rows_ok.1 _ hrow
  simp only [rowOk, Bool.and_eq_true, beq_iff_eq, decide_eq_true_eq] at hok
  obtain ⟨⟨⟨h6, hd2⟩, hd⟩, hfac⟩ := hok
  have h6' : 6 ∣ d1 := Nat.dvd_of_mod_eq_zero h6
  have hd1le : d1 ≤ 11741730 := by
    have : (Stage2.ecmTable.all fun r => decide (r.2.1 ≤ 11741730)) = true := by decide
    simpa using List.all_eq_true.mp this _ hrow
  have hd2le : d2 ≤ 4194304 := by
    have : (Stage2.ecmTable.all fun r => decide (r.2.2 ≤ 4194304)) = true := by decide
    simpa using List.all_eq_true.mp this _ hrow
  -- l does not divide d1: all prime factors of d1 are below b1
  have hprimes := List.all_eq_true.mp arms_d1_primes_below_b1.1 (b1, b2)
    (List.mem_append_left _ (List.mem_append_right _ hc))
  have hnd : ¬ l ∣ d1 := by
    intro hdv
    unfold d1PrimesBelow at hprimes
    simp only [hsel] at hprimes
    unfold factorsOk at hfac
    cases hlf : lookupFactors d1 with
    | none => simp [hlf] at hfac
    | some fs =>
      simp only [hlf, Bool.and_eq_true, beq_iff_eq] at hfac hprimes
      obtain ⟨pe, hmem, heq⟩ := prime_dvd_valOf hp fs hfac.2 (by rw [hfac.1]; exact hdv)
      have := List.all_eq_true.mp hprimes pe hmem
      simp only [decide_eq_true_eq] at this
      omega
  have heffv : ecm128Eff d1 d2 = d2 * d1 + d1 / 2 - 1 := by
    unfold ecm128Eff symEff; rw [ecm128GiantHi d2 hd2]; simp
  rcases Nat.lt_or_ge (d1 / 2) l with hbig | hsmall
  · -- direct cover
    have hgrid := (ecm128_cover h6' hd hd2 hp hnd hbig (by rw [← heffv]; exact hhi)).1
    unfold ecm128Hits hitsUpTo
    rw [anyBelow_iff]
    refine ⟨0, ?_, by simpa using hgrid⟩
    unfold symMax; rw [ecm128GiantHi d2 hd2]
    have : l ≤ (d2 + 1) * d1 := by
      have : (d2 + 1) * d1 = d2 * d1 + d1 := by ring
      omega
    exact Nat.div_pos this hp.pos
  · -- below d1/2: the decided gap check
    have hcont := List.all_eq_true.mp arms_contiguous_ecm128 (b1, b2) hc
    unfold contiguous at hcont
    simp only [hsel, if_true] at hcont
    unfold gapCovered at hcont
    have hmem : l ∈ List.range' b1 (d1 / 2 + 1 - b1) := by
      rw [List.mem_range'_1]; omega
    have := List.all_eq_true.mp hcont l hmem
    have hl64 : l < 2 ^ 64 := by omega
    simp only [Bool.or_eq_true, Bool.not_eq_true', isPrimeTD_of_prime hp hl64, decide_eq_true_eq] at this
    rcases this with (h | h) | h
    · exact absurd h (by simp)
    · exact absurd (Nat.dvd_of_mod_eq_zero h) hnd
    · exact h

/-! ### composition: cover + algebra -/

/-- P-1: a prime `p` with `p − 1 ∣ E·l` (C17: `E` the stage-1 exponent, `l ≤ effective B2` the one missing
prime, `l ∤ d1`) divides the value of the polynomial `∏_r (x − g^(E·r))` at one of the evaluated points. -/
theorem pm1_found {p : Nat} (hp : p.Prime) {g : ℤ} (hg : ¬ (p : ℤ) ∣ g) {E l d1 d2 : Nat}
    (h6 : 6 ∣ d1) (hd : 0 < d1) (hl : l.Prime) (hnd : ¬ l ∣ d1) (hhi : l ≤ pm1Eff d1 d2) (hpos : 0 < pm1Eff d1 d2)
    (hE : p - 1 ∣ E * l) :
    ∃ q, pm1Deg d1 + q + 1 ≤ d2 ∧
      (p : ℤ) ∣ (((List.range (d1 + 2)).filter (isPm1Baby d1)).map (fun r => g ^ (E * (q * d1)) - g ^ (E * r))).prod := by
  obtain ⟨_, q, r, hq, hb, hm⟩ := pm1_cover h6 hd hl hnd hhi hpos
  obtain ⟨_, hr1, _⟩ := (pm1Baby_iff h6 hd).mp hb
  refine ⟨q, hq, pm1_hit hp hg ?_ hE (Or.inl hm)⟩
  rw [List.mem_filter]
  exact ⟨List.mem_range.mpr (by omega), hb⟩

/-- P+1 / ECM: the giant step and the baby step that meet. -/
theorem pp1_found {R : Type*} [CommRing R] {x y : R} (hxy : x * y = 1) {E l d1 d2 : Nat}
    (h6 : 6 ∣ d1) (hd : 0 < d1) (hd2 : 1 ≤ d2) (hl : l.Prime) (hnd : ¬ l ∣ d1) (hlo : d1 / 2 < l)
    (hhi : l ≤ d2 * d1 + d1 / 2 - 1) (hm1 : x ^ (E * l) = 1) :
    ∃ i b, 1 ≤ i ∧ i ≤ d2 ∧ 1 ≤ b ∧ b < d1 / 2 ∧ Nat.gcd b d1 = 1 ∧
      chebV (chebV (x + y) E) (i * d1) - chebV (chebV (x + y) E) b = 0 := by
  obtain ⟨_, i, b, h1, h2, h3, h4, h5, hm⟩ := pp1_cover h6 hd hd2 hl hnd hlo hhi
  exact ⟨i, b, h1, h2, h3, h4, h5, pp1_hit hxy hm1 hm⟩

theorem ecm_found {A Y : Type*} [AddCommGroup A] (y : A → Y) (heven : ∀ P, y (-P) = y P) {G : A} {E l d1 d2 : Nat}
    (h6 : 6 ∣ d1) (hd : 0 < d1) (hd2 : 2 ≤ d2) (hl : l.Prime) (hnd : ¬ l ∣ d1) (hlo : d1 / 2 < l)
    (hhi : l ≤ d2 * d1 + d1 / 2 - 1) (hm0 : (E * l) • G = 0) :
    ∃ i b, 1 ≤ i ∧ i ≤ d2 ∧ 1 ≤ b ∧ b < d1 / 2 ∧ Nat.gcd b d1 = 1 ∧
      y ((i * d1) • (E • G)) = y (b • (E • G)) := by
  obtain ⟨_, i, b, h1, h2, h3, h4, h5, hm⟩ := ecm_cover h6 hd hd2 hl hnd hlo hhi
  exact ⟨i, b, h1, h2, h3, h4, h5, ecm_hit y heven hm0 hm⟩

/-! ## non-vacuity -/

example : ecmIsGrid 66 10 659 = true ∧ ecmIsGrid 66 10 691 = true ∧ ecmIsGrid 66 10 701 = false := by decide
example : (6 ∣ 66) ∧ Nat.Prime 691 ∧ ¬ 691 ∣ 66 ∧ 66 / 2 < 691 ∧ 691 ≤ 10 * 66 + 66 / 2 - 1 := by
  refine ⟨by decide, by norm_num, by decide, by decide, by decide⟩
example : pm1Deg 120 = 33 ∧ pm1Eff 120 64 = 3599 ∧ pm1IsGrid 120 64 3593 = true ∧ pm1IsGrid 120 64 3601 = false := by
  decide +kernel
example : (5 : ZMod 11) ^ (1 * 5) = 1 ∧ (11 - 1 ∣ 2 * 5) := by decide
example : ((-1 : ZMod 7) * (-1) = 1) ∧ ((-1 : ZMod 7) ^ (4 * 2) = 1) := by decide
example : expModn (· * ·) 1 (3 : ZMod 7) 6 = some 1 := by
  rw [exp_modn_spec _ _ (by norm_num)]; decide
example : (2 ^ 70 + 5 < 2 ^ 1024) ∧ expModnLarge (· * ·) 1 (1 : ZMod 7) (2 ^ 70 + 5) = some 1 := by
  have h : 2 ^ 70 + 5 < 2 ^ 1024 :=
    lt_of_lt_of_le (show 2 ^ 70 + 5 < 2 ^ 71 by norm_num) (Nat.pow_le_pow_right (by decide) (by decide))
  exact ⟨h, by rw [exp_modn_large_spec _ _ h, one_pow]⟩
example : chebV (3 : ZMod 7) 4 = 5 := by decide
example : gcdFactors 1001 [1, 7, 7, 77, 1001] (fun _ => false) = some ([7, 11, 13], 1) := by decide
example : CgfInv 1001 ⟨[7], 143, [2, 11, 11]⟩ ∧
    checkGcdFactors 1001 (fun _ => true) ⟨[7], 143, [2, 11, 11]⟩ = some (true, ⟨[7, 11], 13, [2, 11, 11]⟩) := by
  refine ⟨⟨by decide, by decide, by decide, by decide⟩, by decide⟩
example : pm1PolyStep 1001 (fun _ => false) ⟨[], 1001, [1, 1001]⟩ = some none ∧
    pm1PolyStep 1001 (fun _ => false) ⟨[], 1001, [1, 7]⟩ = some (some ⟨[7], 143, []⟩) := by decide
example : checkGcdFactor 1001 [1, 7, 7, 77] (fun _ => false) = some (some 11) := by decide
example : rhoImplResult 1001 [1, 7, 77] (fun _ => false) = some (some ([7, 11], 13)) := by decide
example : ynorm (· * ·) [((2 : ZMod 7), (3 : ZMod 7)), (4, 5), (6, 1)] = [(2 * 5 * 1, 3), (4 * 3 * 1, 5), (6 * 3 * 5, 1)] := by
  decide
example : pm1baseTested Stage2Arms.pm1base [503, 509, 521, 523] 1003 = some [503, 509, 521] := by decide
example : guard 15 (Nat.gcd 15 9) = some (3, 5) := by decide
example : ReportedLeEffective [(660, 66, 10)] ecmEff := by
  intro r hr; simp only [List.mem_singleton] at hr; subst hr; decide

end Ymq.C16
