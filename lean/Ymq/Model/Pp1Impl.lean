/-
Model of `pp1::pp1` as a whole (src/pp1.rs:50-200, Williams P+1).

The pieces that were already modelled are *used*, not copied:

  * `chebyshev_modn` (`ExpModn.chebyshevModn`, C16 `chebyshev_spec`), `check_gcd_factors` (the copy in pp1.rs is
    textually identical to the one of pollard_pm1.rs: `ExpModn.checkGcdFactors`), `gcd_factors`, the final
    `Some((factors, nred))` / `None` (`splitResult`): Model/ExpModn.lean;
  * `params::stage2_params`: Gen/Stage2.lean (translator); `fbase::PrimeSieve`: Model/Primes.lean;
  * residue arithmetic `mulm`, `subm`, `onem`, `ZmodN::new` panic sites, `cumProd`: Model/Pm1Impl.lean;
  * `pseudoprime` is a parameter `pp` (the driver passes Model/Pseudoprime.lean, the theorems hold for every `pp`).

What is new here: the starting value (`zn.from_int(seed)`), the stage-1 loop over the sieve blocks (one Lucas ladder
per prime power `p^k < b1`, `g - 2` pushed to `gpows`, the `g == 1` exit, the `p > b1` exit), the gcd check after each
block with its three exits, the ring shrink (`zn`, `g` AND the constant `two` are recomputed: commit 0bd0aa9; before
it `two` stayed a Montgomery residue of the old modulus), the baby steps `V_b(g)` (`b = 1`, then odd `b < d1/2` prime
to `3·d1`), the giant steps `V_{i·d1}(g)` — every entry of both lists carries its index as a ghost annotation, so that
the range `i = 1 .. d2` the code walks is a statement about the model (`pp1_giant_range`) — the cumulative products and
the last `check_gcd_factors`, whose boolean is ignored.

Ring elements (`MInt`) are represented by their canonical residue; the ring by its modulus `m`.  `gcd_factors` only
looks at `gcd(nred, v)` of raw Montgomery words `v = x·R mod m` with `R` a unit and `nred ∣ m`: the lists hold `x`.
`Poly::roots_eval(zn, a, b)` is taken at its specification `vals[j] = ∏_i (b[j] - a[i])` (that it meets it is C10:
`rootsEval_direct_spec`, `rootsEval_long_spec`).  The two `debug_assert!`s on the baby steps compare values that are
equal by construction (`chebyshev_recurrence`); they are not modelled as panic sites.

`none` = a panic site (assert, `ZmodN::new` on an even or > 512-bit modulus, `debug_assert!` of `ZmodN::mul` on
`seed >= n`, overflow of `pow * p` in the checked profile); `some none` = the function returns `None`.
No Mathlib import: linked into the native driver.
-/
import Ymq.Model.Pm1Impl

namespace Ymq.Pp1Impl
open Ymq.Primes Ymq.ExpModn Ymq.Gen
open Ymq.Pm1Impl (mulm subm onem znNewPanics cumProd)

/-- `zn.add(&zn.one(), &zn.one())` -/
def twom (m : Nat) : Nat := (onem m + onem m) % m

/-- `chebyshev_modn(&zn, &g, exp)` on residues -/
def cheb (m g exp : Nat) : Nat :=
  chebyshevModn (mulm m) (subm m) (twom m) g (Stage2Arms.chebZero % m) exp

/-! ### stage 1 -/

/-- `let mut pow = p; while pow * p < b1 { pow *= p }` (`u64`; the product overflows only for `b1 > 2^32`) -/
def powLoop (p b1 : Nat) : Nat → Nat → Option Nat
  | 0, _ => none
  | f + 1, pow =>
    if pow * p ≥ 2 ^ 64 then none
    else if pow * p < b1 then powLoop p b1 f (pow * p)
    else some pow

/-- `g`, `gpows` (most recent first), `p_prev` -/
structure S1 where
  g : Nat
  gpowsRev : List Nat
  pPrev : Nat

/-- body of `for &p in block`; the flag says that the loop is left (`if p > b1 { break }` or
`if g == zn.one() { break }`).  `p_prev = p` and the power loop come before the `p > b1` test. -/
def step (m b1 : Nat) (s : S1) (p : Nat) : Option (S1 × Bool) :=
  match powLoop p b1 65 p with
  | none => none
  | some pow =>
    if p > b1 then some ({ s with pPrev := p }, true)
    else
      let g' := cheb m s.g pow
      some ({ g := g', gpowsRev := subm m g' (twom m) :: s.gpowsRev, pPrev := p }, decide (g' = onem m))

def block (m b1 : Nat) : List Nat → S1 → Option S1
  | [], s => some s
  | p :: ps, s =>
    match step m b1 s p with
    | none => none
    | some (s', true) => some s'
    | some (s', false) => block m b1 ps s'

/-- how the stage-1 loop is left -/
inductive S1Out where
  /-- `return` from inside the loop (`check_gcd_factors` said the run is over) -/
  | ret (r : Option (List Nat × Nat))
  /-- `break` with `p_prev > b1 as u32`: ring modulus, `g`, `factors`, `nred` -/
  | stage2 (m g : Nat) (factors : List Nat) (nred : Nat)

/-- the outer `loop` of stage 1 over sieve blocks -/
def outer (n b1 : Nat) (pp : Nat → Bool) :
    Nat → PrimeSieve → List Nat → Nat → S1 → List Nat → Nat → Option S1Out
  | 0, _, _, _, _, _, _ => none
  | f + 1, ps, blk, m, s, factors, nred =>
    match block m b1 blk s with
    | none => none
    | some s' =>
      match checkGcdFactors n pp { factors := factors, nred := nred, vals := s'.gpowsRev.reverse } with
      | none => none
      | some (true, st) => some (.ret (splitResult st))
      | some (false, st) =>
        -- `if zn.n != nred { gint = zn.to_int(g); zn = ZmodN::new(nred); g = zn.from_int(gint % nred); two = .. }`
        if m ≠ st.nred ∧ znNewPanics st.nred then none
        else
          let m' := if m ≠ st.nred then st.nred else m
          let g' := if m ≠ st.nred then s'.g % st.nred else s'.g
          if s'.pPrev > b1 % 2 ^ 32 then
            some (.stage2 m' g' st.factors st.nred)
          else
            match ps.next with
            | none => none
            | some (blk', ps') =>
              outer n b1 pp f ps' blk' m' { s' with g := g', gpowsRev := st.vals.reverse } st.factors st.nred

/-! ### stage 2 -/

/-- `while exp + 2 < d1 / 2 { exp += 2; (bprev, b) = (b, b*g2 - bprev); if exp % 3 != 0 && gcd(exp, d1) == 1 { v.push(b) } }`;
entries `(exp, b)` most recent first (the exponent is a ghost annotation) -/
def babyLoop {α} (mul sub : α → α → α) (g2 : α) (d1 : Nat) : Nat → Nat → α → α → List (Nat × α) → List (Nat × α)
  | 0, _, _, _, acc => acc
  | f + 1, exp, bprev, b, acc =>
    if exp + 2 < d1 / 2 then
      let b' := sub (mul b g2) bprev
      babyLoop mul sub g2 d1 f (exp + 2) b b'
        (if (exp + 2) % 3 ≠ 0 ∧ Nat.gcd (exp + 2) d1 = 1 then (exp + 2, b') :: acc else acc)
    else acc

/-- the baby steps `(b, V_b(g))`: `b = 1` first; `g2 = chebyshev_modn(g, 2)` -/
def babySteps {α} (mul sub : α → α → α) (g g2 : α) (d1 : Nat) : List (Nat × α) :=
  (babyLoop mul sub g2 d1 d1 1 g g [(1, g)]).reverse

/-- `for _ in 1..d2 { dgnext = dg*step - dgprev; steps.push(dgnext); (dgprev, dg) = (dg, dgnext) }`; entries
`(i, V_{i·d1})` most recent first (the multiplier `i` is a ghost annotation: `dg` is the step number `i`) -/
def giantLoop {α} (mul sub : α → α → α) (step : α) : Nat → Nat → α → α → List (Nat × α) → List (Nat × α)
  | 0, _, _, _, acc => acc
  | k + 1, i, dgprev, dg, acc =>
    let dgnext := sub (mul dg step) dgprev
    giantLoop mul sub step k (i + 1) dg dgnext ((i + 1, dgnext) :: acc)

/-- the giant steps: `dgprev = two` (`V_0`), `dg = step = chebyshev_modn(g, d1)` pushed first (`i = 1`), then
`d2 - 1` iterations -/
def giantSteps {α} (mul sub : α → α → α) (two dg : α) (d2 : Nat) : List (Nat × α) :=
  (giantLoop mul sub dg (d2 - 1) 1 two dg [(1, dg)]).reverse

/-- `Poly::roots_eval(zn, a, b)` at its specification: `vals[j] = ∏_i (b[j] - a[i])` -/
def rootsEvalSpec (m : Nat) (a b : List Nat) : List Nat :=
  b.map (fun x => a.foldl (fun acc r => mulm m acc (subm m x r)) (onem m))

/-- the cumulative products `prods` handed to the last `check_gcd_factors` -/
def stage2Vals (m d1 d2 g : Nat) : Option (List Nat) :=
  if d1 % 6 ≠ 0 then none                                            -- assert!(d1 % 6 == 0)
  else
    let bs := babySteps (mulm m) (subm m) g (cheb m g 2) d1
    let gs := giantSteps (mulm m) (subm m) (twom m) (cheb m g d1) d2
    if gs.length ≠ d2 then none                                       -- debug_assert!(gsteps.len() == d2)
    else some (onem m :: cumProd m (onem m) (rootsEvalSpec m (gs.map (·.2)) (bs.map (·.2))))

/-- stage 2 from the state stage 1 left; the boolean of `check_gcd_factors` is ignored -/
def stage2 (n : Nat) (pp : Nat → Bool) (m g d1 d2 : Nat) (factors : List Nat) (nred : Nat) :
    Option (Option (List Nat × Nat)) :=
  match stage2Vals m d1 d2 g with
  | none => none
  | some prods =>
    match checkGcdFactors n pp { factors := factors, nred := nred, vals := prods } with
    | none => none
    | some (_, st) => some (splitResult st)

/-! ### `pp1` -/

/-- `pp1(n, seed, b1, b2, _)` for an integral `b2` -/
def pp1 (n seed b1 b2 : Nat) (pp : Nat → Bool) : Option (Option (List Nat × Nat)) :=
  match Stage2.stage2Select b2 1 with                                 -- stage2_params(b2)
  | none => none
  | some (_, d1, d2) =>
    if b1 ≤ 3 then none                                               -- assert!(b1 > 3)
    else if znNewPanics n then none
    else if seed ≥ n then none                                        -- from_int: debug_assert!(x < n) of ZmodN::mul
    else
      match PrimeSieve.new with
      | none => none
      | some ps0 =>
        match ps0.next with
        | none => none
        | some (blk0, ps1) =>
          match outer n b1 pp 65600 ps1 blk0 n { g := seed % n, gpowsRev := [onem n], pPrev := 1 } [] n with
          | none => none
          | some (.ret r) => some r
          | some (.stage2 m g factors nred) => stage2 n pp m g d1 d2 factors nred

end Ymq.Pp1Impl
