/-
The sequential loop of `SparseMat::detz`: CRT over blocks of four moduli with termination as soon
as two consecutive reconstructions agree.
-/
import Ymq.Model.Wiedemann
import Ymq.Props.C19

namespace Ymq.Wied
open Ymq.IntMat

/-- If every lane of the first two blocks returns a residue of `d` and the product of the first
four moduli exceeds `2|d|`, the loop returns `d` (after one block when `d = 0`, after two blocks
otherwise). -/
theorem detzLoop_first_block (inv : Inv) (hinv : InvSpec inv) (m : Mat) (d : Int)
    (p0 p1 p2 p3 p4 p5 p6 p7 : ℕ) (rest : List ℕ) (r0 r1 r2 r3 r4 r5 r6 r7 : ℕ) (f : ℕ)
    (hb1 : detp m [p0, p1, p2, p3] = some [r0, r1, r2, r3])
    (hb2 : detp m [p4, p5, p6, p7] = some [r4, r5, r6, r7])
    (hp : ∀ q ∈ [p0, p1, p2, p3, p4, p5, p6, p7], 1 < q ∧ q < U64)
    (hcop : [p0, p1, p2, p3, p4, p5, p6, p7].Pairwise Nat.Coprime)
    (h0 : (p0 : Int) ∣ (r0 : Int) - d) (h1 : (p1 : Int) ∣ (r1 : Int) - d)
    (h2 : (p2 : Int) ∣ (r2 : Int) - d) (h3 : (p3 : Int) ∣ (r3 : Int) - d)
    (h4 : (p4 : Int) ∣ (r4 : Int) - d) (h5 : (p5 : Int) ∣ (r5 : Int) - d)
    (h6 : (p6 : Int) ∣ (r6 : Int) - d) (h7 : (p7 : Int) ∣ (r7 : Int) - d)
    (hd1 : -((p0 * p1 * p2 * p3 : ℕ) : Int) < 2 * d) (hd2 : 2 * d < ((p0 * p1 * p2 * p3 : ℕ) : Int)) :
    detzLoop inv m (f + 2) (p0 :: p1 :: p2 :: p3 :: p4 :: p5 :: p6 :: p7 :: rest) [] [] 0 =
      some d := by
  have hpos : ∀ q ∈ [p0, p1, p2, p3, p4, p5, p6, p7], 1 ≤ q := fun q hq => le_of_lt (hp q hq).1
  have c1 : crtSparse inv [r0, r1, r2, r3] [p0, p1, p2, p3] = some d := by
    apply Ymq.C19.crt_sparse_symmetric inv hinv [r0, r1, r2, r3] [p0, p1, p2, p3] d rfl (by simp)
    · intro q hq; exact (hp q (by simp at hq ⊢; tauto)).1
    · intro q hq; exact (hp q (by simp at hq ⊢; tauto)).2
    · have := hcop.sublist (List.take_sublist 4 _)
      simpa using this
    · intro i hi1 hi2
      rcases i with _ | _ | _ | _ | i
      · simpa using h0
      · simpa using h1
      · simpa using h2
      · simpa using h3
      · simp at hi1; omega
    · simpa [mul_assoc] using hd1
    · have : 2 * d ≤ ((p0 * p1 * p2 * p3 : ℕ) : Int) := le_of_lt hd2
      simpa [mul_assoc] using this
  have hP8 : ((p0 * p1 * p2 * p3 : ℕ) : Int) ≤ ((p0 * p1 * p2 * p3 * (p4 * p5 * p6 * p7) : ℕ) : Int) := by
    have g4 : 1 ≤ p4 := hpos p4 (by simp)
    have g5 : 1 ≤ p5 := hpos p5 (by simp)
    have g6 : 1 ≤ p6 := hpos p6 (by simp)
    have g7 : 1 ≤ p7 := hpos p7 (by simp)
    have : 1 ≤ p4 * p5 * p6 * p7 := by
      have := Nat.mul_le_mul (Nat.mul_le_mul (Nat.mul_le_mul g4 g5) g6) g7
      simpa using this
    exact_mod_cast Nat.le_mul_of_pos_right _ this
  have c2 : crtSparse inv [r0, r1, r2, r3, r4, r5, r6, r7] [p0, p1, p2, p3, p4, p5, p6, p7] =
      some d := by
    apply Ymq.C19.crt_sparse_symmetric inv hinv [r0, r1, r2, r3, r4, r5, r6, r7]
      [p0, p1, p2, p3, p4, p5, p6, p7] d rfl (by simp)
    · intro q hq; exact (hp q hq).1
    · intro q hq; exact (hp q hq).2
    · exact hcop
    · intro i hi1 hi2
      rcases i with _ | _ | _ | _ | _ | _ | _ | _ | i
      · simpa using h0
      · simpa using h1
      · simpa using h2
      · simpa using h3
      · simpa using h4
      · simpa using h5
      · simpa using h6
      · simpa using h7
      · simp at hi1; omega
    · have e : ([p0, p1, p2, p3, p4, p5, p6, p7].prod : ℕ) = p0 * p1 * p2 * p3 * (p4 * p5 * p6 * p7) := by
        simp [mul_assoc]
      rw [e]; omega
    · have e : ([p0, p1, p2, p3, p4, p5, p6, p7].prod : ℕ) = p0 * p1 * p2 * p3 * (p4 * p5 * p6 * p7) := by
        simp [mul_assoc]
      rw [e]; omega
  by_cases hd0 : d = 0
  · subst hd0
    simp [detzLoop, hb1, c1]
  · have hne : (0 : Int) ≠ d := fun h => hd0 h.symm
    simp [detzLoop, hb1, hb2, c1, c2, hne]

end Ymq.Wied
