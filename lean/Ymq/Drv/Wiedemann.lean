import Ymq.Drv.Util
import Ymq.Model.Wiedemann

/-!
Driver ops of the Wiedemann model (C19), same request formats as harness/src/ops_intmat.rs:
`im_sparse_norm <rows>`, `im_sparse_primes <rows>`, `im_mulp4 <rows> <p0,p1,p2,p3> <v flat>`,
`im_detp4 <rows> <p0,p1,p2,p3>`, `im_det_sparse <rows>`; sparse rows are joined by `;`, a row is
`-` or `col:coef,...` (`col` a u32, `coef` an i32: anything else is a malformed request, `?`).
-/
namespace Ymq.Drv
open Ymq.Wied

private def parseSparseW (s : String) : Option Mat :=
  if s = "-" then some []
  else (s.splitOn ";").mapM (fun r =>
    if r = "-" then some []
    else (r.splitOn ",").mapM (fun e =>
      match e.splitOn ":" with
      | [j, c] => do
        let j ← parseNat j; let c ← parseInt c
        if j < 2 ^ 32 ∧ -(2 ^ 31 : Int) ≤ c ∧ c < 2 ^ 31 then some (j, c) else none
      | _ => none))

private def parseP4 (s : String) : Option (List Nat) := do
  let l ← parseNatList s
  if l.length = 4 ∧ l.all (· < 2 ^ 64) then some l else none

private def pnW {α} [ToString α] : Option α → String
  | none => "panic"
  | some x => toString x

private def lane (v : List Nat) (k : Nat) : List Nat :=
  (List.range (v.length / 4)).map (fun j => v.getD (4 * j + k) 0)

def handleWied : Handler
  | ["im_sparse_norm", rows] => do
    let rows ← parseSparseW rows
    some (pnW ((mkMat rows).map norm))
  | ["im_sparse_primes", rows] => do
    let rows ← parseSparseW rows
    some (match (mkMat rows).bind (selectPrimes Ymq.Mg64.isprime64) with
      | none => "panic" | some l => showList l)
  | ["im_mulp4", rows, p4, v] => do
    let rows ← parseSparseW rows; let ps ← parseP4 p4; let v ← parseNatList v
    if v.length % 4 ≠ 0 ∨ ¬ v.all (· < 2 ^ 64) then none else
    some (match (mkMat rows).bind (fun m =>
        (List.range 4).mapM (fun k => mulpLane m (ps.getD k 0) (lane v k))) with
      | none => "panic"
      | some outs =>
        showList ((List.range rows.length).flatMap (fun i => outs.map (fun o => o.getD i 0))))
  | ["im_detp4", rows, p4] => do
    let rows ← parseSparseW rows; let ps ← parseP4 p4
    some (match (mkMat rows).bind (fun m => detp m ps) with
      | none => "panic" | some l => showList l)
  | ["im_det_sparse", rows] => do
    let rows ← parseSparseW rows
    some (pnW ((mkMat rows).bind (detz Ymq.Mg64.isprime64 Ymq.Arith.invMod64)))
  | _ => none

end Ymq.Drv
