import Ymq.Lemmas.ClassGroupGenuine
import Mathlib.Algebra.BigOperators.Group.List.Basic
import Mathlib.Data.Nat.Prime.Basic
namespace Ymq.ClassGroup

theorem trialDivide_mem : ∀ (facs : List Nat) (v : Nat), ∀ pe ∈ (trialDivide facs v).1, pe.1 ∈ facs
  | [], v => by simp [trialDivide]
  | p :: ps, v => by
    rw [trialDivide]
    cases hd : divLoop (v.log2 + 1) p v 0 with
    | mk v' e =>
      have ih := trialDivide_mem ps v'
      simp only
      cases hr : trialDivide ps v' with
      | mk fs cof =>
        rw [hr] at ih
        simp only at ih ⊢
        intro pe hpe
        split at hpe
        · rcases List.mem_cons.1 hpe with rfl | h
          · exact List.mem_cons_self
          · exact List.mem_cons_of_mem _ (ih pe h)
        · exact List.mem_cons_of_mem _ (ih pe hpe)

/-- an accepted conversion contains no conductor prime other than 2 -/
theorem convFactors_ok_not_conductor {type1 : Bool} {bx : Int} {conductor : List Nat} {fb : List (Nat × Nat)} :
    ∀ (intfacs : List (Nat × Nat)) (fs : List (Nat × Int)),
    convFactors type1 bx conductor fb intfacs = .ok fs → ∀ pe ∈ intfacs, pe.1 ≠ 2 → pe.1 ∉ conductor
  | [], _, _ => by simp
  | (p, e) :: rest, fs, h => by
    rw [convFactors] at h
    intro pe hpe
    by_cases h2 : p = 2
    · rw [if_pos h2] at h
      cases hr : convFactors type1 bx conductor fb rest with
      | panic => rw [hr] at h; simp at h
      | reject => rw [hr] at h; simp at h
      | ok fs' =>
        rcases List.mem_cons.1 hpe with rfl | hm
        · intro hne; exact absurd h2 hne
        · exact convFactors_ok_not_conductor rest fs' hr pe hm
    · rw [if_neg h2] at h
      by_cases hc : conductor.contains p = true
      · rw [if_pos hc] at h; simp at h
      · rw [if_neg hc] at h
        cases hl : fb.lookup p with
        | none => rw [hl] at h; simp at h
        | some r0 =>
          rw [hl] at h
          simp only at h
          cases hb : bPlus p r0 type1 with
          | none => rw [hb] at h; simp at h
          | some ref =>
            rw [hb] at h
            simp only at h
            cases hs : signedExp p ref bx e with
            | none => rw [hs] at h; simp at h
            | some se =>
              rw [hs] at h
              simp only at h
              cases hr : convFactors type1 bx conductor fb rest with
              | panic => rw [hr] at h; simp at h
              | reject => rw [hr] at h; simp at h
              | ok fs' =>
                rcases List.mem_cons.1 hpe with rfl | hm
                · intro _ hmem
                  exact hc (by simpa using hmem)
                · exact convFactors_ok_not_conductor rest fs' hr pe hm

theorem sq_dvd_disc {a v y D : Int} (hid : y * y - 4 * a * v = D) {p : Nat} (hpy : (p : Int) ∣ y)
    (hsq : (p : Int) * p ∣ a * v) : (p : Int) * p ∣ D := by
  obtain ⟨k, hk⟩ := hpy
  obtain ⟨m, hm⟩ := hsq
  exact ⟨k * k - 4 * m, by rw [← hid, hk]; linear_combination -4 * hm⟩

theorem nat_prime_dvd_list_prod {p : Nat} (hp : p.Prime) : ∀ l : List Nat, p ∣ l.prod → ∃ q ∈ l, p ∣ q
  | [], h => by simp at h; exact absurd h hp.one_lt.ne'
  | q :: t, h => by
    rw [List.prod_cons] at h
    rcases (Nat.Prime.dvd_mul hp).1 h with h | h
    · exact ⟨q, List.mem_cons_self, h⟩
    · obtain ⟨q', hq', hd⟩ := nat_prime_dvd_list_prod hp t h
      exact ⟨q', List.mem_cons_of_mem _ hq', hd⟩

/-- The primitivity hypothesis `hprim` of `relationOf_genuine`, from what the code does for a non-fundamental
discriminant: the relation was not rejected, so no odd prime of the conductor list divides `P(x)` among the
reported primes. -/
theorem hprim_of_conductor (D : Int) (type1 : Bool) (a b c x : Int) (maxprime maxlarge : Nat)
    (double : Bool) (conductor : List Nat) (fb : List (Nat × Nat)) (facs : List Nat)
    (afs : List (Nat × Nat)) (lp lq : Nat) (r : Rel)
    (hdisc : polyDisc type1 a b c = D)
    (h16 : D % 2 = 1 ∨ D % 16 = 8 ∨ D % 16 = 12)
    (hfp : ∀ q ∈ facs, q.Prime)
    (hcond : ∀ q ∈ facs, q ≠ 2 → ((q : Int) * q ∣ D) → q ∈ conductor)
    (hafs : ∀ pr ∈ afs, pr.1.Prime ∧ ¬ ((pr.1 : Int) * pr.1 ∣ D))
    (haprod : a = ((afs.map Prod.fst).prod : Nat))
    (hrel : relationOf type1 a b c x maxprime maxlarge double conductor fb facs afs lp lq = .rel r)
    (hlarge : ∀ pe, (r.large1 = some pe ∨ r.large2 = some pe) → pe.1.Prime ∧ ¬ ((pe.1 : Int) * pe.1 ∣ D)) :
    ∀ p : Nat, p.Prime → (p : Int) ∣ (polyEval type1 a b c x).2 →
      ¬ ((p : Int) * p ∣ a * (polyEval type1 a b c x).1) := by
  intro p hp hpy hsq
  have hid := polyEval_disc type1 a b c x
  rw [hdisc] at hid
  have hD := sq_dvd_disc hid hpy hsq
  obtain ⟨p', q', fs, qf, hvpos, hpq, hconv, -, hr⟩ := relationOf_rel_inv hrel
  generalize (polyEval type1 a b c x).1 = v at *
  generalize (polyEval type1 a b c x).2 = y at *
  by_cases hp2 : p = 2
  · -- p = 2: D = 4k² - 16m is 0 or 4 mod 16
    subst hp2
    obtain ⟨k, hk⟩ := hpy
    obtain ⟨m, hm⟩ := hsq
    have e : D = 4 * (k * k) - 16 * m := by rw [← hid, hk]; push_cast; linear_combination -4 * hm
    have hkk : k * k % 4 = 0 ∨ k * k % 4 = 1 := by
      rcases Int.emod_two_eq_zero_or_one k with h | h
      · obtain ⟨j, hj⟩ : ∃ j, k = 2 * j := ⟨k / 2, by omega⟩
        left; have : k * k = 4 * (j * j) := by rw [hj]; ring
        omega
      · obtain ⟨j, hj⟩ : ∃ j, k = 2 * j + 1 := ⟨k / 2, by omega⟩
        right; have : k * k = 4 * (j * j + j) + 1 := by rw [hj]; ring
        omega
    omega
  · have hpi : Prime (p : Int) := Nat.prime_iff_prime_int.1 hp
    have hdiv : (p : Int) ∣ a * v := Dvd.dvd.trans (Dvd.intro _ rfl) hsq
    rcases hpi.dvd_or_dvd hdiv with ha | hv
    · -- p | A
      rw [haprod] at ha
      have ha' : p ∣ (afs.map Prod.fst).prod := Int.natCast_dvd_natCast.1 ha
      obtain ⟨q, hq, hpq'⟩ := nat_prime_dvd_list_prod hp _ ha'
      obtain ⟨pr, hpr, rfl⟩ := List.mem_map.1 hq
      obtain ⟨hprime, hns⟩ := hafs pr hpr
      have : p = pr.1 := (Nat.prime_dvd_prime_iff_eq hp hprime).1 hpq'
      rw [← this] at hns
      exact hns hD
    · -- p | V
      have hvn : v = (v.toNat : Int) := by omega
      rw [hvn] at hv
      have hv' : p ∣ v.toNat := Int.natCast_dvd_natCast.1 hv
      rw [trialDivide_prod facs v.toNat, ← hpq] at hv'
      rcases (Nat.Prime.dvd_mul hp).1 hv' with hc | hf
      · -- p | cofactor = p' q'
        have hcof0 : p' * q' ≠ 0 := by
          intro h0
          have := trialDivide_prod facs v.toNat
          rw [← hpq, h0, Nat.zero_mul] at this
          omega
        have key : ∀ n : Nat, p ∣ n → (r.large1 = some (n, (if q' = p' then 2 else 1) * largeSign type1 y p')
            ∨ ∃ e, r.large2 = some (n, e)) → False := by
          intro n hn hl
          have : n.Prime ∧ ¬ ((n : Int) * n ∣ D) := by
            rcases hl with hl | ⟨e, hl⟩
            · exact hlarge _ (Or.inl hl)
            · exact hlarge _ (Or.inr hl)
          have hpn : p = n := (Nat.prime_dvd_prime_iff_eq hp this.1).1 hn
          rw [← hpn] at this
          exact this.2 hD
        rcases (Nat.Prime.dvd_mul hp).1 hc with h1 | h1
        · have hp1 : p' > 1 := by
            rcases Nat.lt_or_ge 1 p' with h | h
            · exact h
            · exfalso
              have : p' = 1 := by
                have : p' ≠ 0 := fun h0 => hcof0 (by rw [h0, Nat.zero_mul])
                omega
              rw [this] at h1
              exact hp.one_lt.ne' (Nat.dvd_one.1 h1)
          apply key p' h1
          left; rw [hr]; simp only [if_pos hp1]
        · have hq1 : q' > 1 := by
            rcases Nat.lt_or_ge 1 q' with h | h
            · exact h
            · exfalso
              have : q' = 1 := by
                have : q' ≠ 0 := fun h0 => hcof0 (by rw [h0, Nat.mul_zero])
                omega
              rw [this] at h1
              exact hp.one_lt.ne' (Nat.dvd_one.1 h1)
          by_cases hqp : q' = p'
          · have hp1 : p' > 1 := by omega
            apply key p' (by rw [← hqp]; exact h1)
            left; rw [hr]; simp only [if_pos hp1]
          · apply key q' h1
            right; rw [hr]; simp only [if_pos (And.intro hq1 hqp)]; exact ⟨_, rfl⟩
      · -- p | a reported factor-base prime
        obtain ⟨n, hn, hpn⟩ := nat_prime_dvd_list_prod hp _ hf
        obtain ⟨pe, hpe, rfl⟩ := List.mem_map.1 hn
        have hmem := trialDivide_mem facs v.toNat pe hpe
        have hpe1 : p ∣ pe.1 := Nat.Prime.dvd_of_dvd_pow hp hpn
        have heq : p = pe.1 := (Nat.prime_dvd_prime_iff_eq hp (hfp _ hmem)).1 hpe1
        have hnc := convFactors_ok_not_conductor _ fs hconv pe hpe (by rw [← heq]; exact hp2)
        apply hnc
        rw [← heq]
        exact hcond p (by rw [heq]; exact hmem) hp2 hD

end Ymq.ClassGroup
