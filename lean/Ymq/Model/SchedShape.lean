/-
Worker programs of the sieve drivers, built from the protocol SHAPES that the translator
translate/sched.py reads in src/siqs.rs and src/mpqs.rs (Ymq/Gen/SchedShape.lean: where a work unit
polls the abort predicate, reads the completion flags, adds relations, publishes completion).

A worker owns a list of work units (SIQS: A values; MPQS: blocks of polynomials); a unit is a list
of polynomials; a polynomial is the list of relations it yields (an input of the model: which
relations a polynomial gives is number theory, not scheduling). The unit's program is
`pre ++ (body per polynomial) ++ post`, the kind `add` standing for the polynomial's adds.
The actions, configurations, steps and schedules are those of Ymq/Model/Sched.lean.
No Mathlib import.
-/
import Ymq.Model.Sched
import Ymq.Gen.SchedShape

namespace Ymq.Sched
open Ymq.Gen.SchedShape

variable {ρ σ : Type}

/-- the actions of one kind; `rs` are the relations of the polynomial at hand -/
def expandK (rs : List ρ) : K → List (Act ρ)
  | K.poll => [Act.poll]
  | K.check => [Act.check]
  | K.add => rs.map Act.add
  | K.publish => [Act.publish]

def expand (ks : List K) (rs : List ρ) : List (Act ρ) := ks.flatMap (expandK rs)

/-- program of one work unit -/
def compileUnit (sh : Shape) (u : List (List ρ)) : List (Act ρ) :=
  expand sh.pre [] ++ (u.flatMap (expand sh.body) ++ expand sh.post [])

/-- program of one worker: its units one after the other -/
def compileShape (sh : Shape) (prog : List (List (List ρ))) : List (Act ρ) :=
  prog.flatMap (compileUnit sh)

def initShape (sh : Shape) (s0 : σ) (progs : List (List (List (List ρ)))) : Cfg ρ σ :=
  { store := s0, log := [], done := false, pcs := progs.map (compileShape sh) }

/-- a unit polls the abort predicate outside its polynomial loop -/
def pollsPerUnit (sh : Shape) : Bool := sh.pre.contains K.poll || sh.post.contains K.poll

/-- relations are added in the polynomial loop only, once per polynomial -/
def addsOnce (sh : Shape) : Bool :=
  sh.body.count K.add == 1 && !sh.pre.contains K.add && !sh.post.contains K.add

/-- every polynomial is followed by a completion decision -/
def publishesPerPoly (sh : Shape) : Bool := sh.body.contains K.publish

end Ymq.Sched
