/-
C03/qs64, part (b): `qsieve64::qsieve` reaches no panic site before `relations::final_step`
whenever `n·k < 2^64` is not a perfect square (in particular for every `n` that `factor_impl`
can pass: odd, no prime factor below 200, not a perfect power, and every multiplier `k < 30`).
-/
import Ymq.Lemmas.Qsieve64Sieve
import Ymq.Lemmas.RelationsNoPanic
import Ymq.Props.C08
import Mathlib.Tactic.NormNum.Prime

namespace Ymq.Qsieve64
open Ymq.Relations
open Ymq.Gen.Primality (smallPrimes)

theorem W64_eq : (W64 : Nat) = 2 ^ 64 := by decide

/-! ### the factor base -/

theorem smallPrimes_prime : ∀ p ∈ smallPrimes, Nat.Prime p := by
  intro p hp
  simp only [smallPrimes, List.mem_cons, List.not_mem_nil, or_false] at hp
  rcases hp with h | h | h | h | h | h | h | h | h | h | h | h | h | h | h | h | h | h | h | h | h |
    h | h | h | h | h | h | h | h | h | h | h | h | h | h | h | h | h | h | h | h | h | h | h | h | h <;>
    (subst h; norm_num)

theorem smallPrimes_new : ∀ p ∈ smallPrimes, p = 2 ∨ (3 ≤ p ∧ p < 2 ^ 30 ∧ Ymq.Limbs.W % p ≠ 0) := by
  decide

theorem smallPrimes_nodup : smallPrimes.Nodup := by decide

/-- what `new64` guarantees about an entry -/
structure FbFact (nk : Nat) (e : FbEntry) : Prop where
  ok : EntryOK e
  prime : e.p.Prime
  lt : e.p < 200
  rlt : e.r < e.p
  root : e.r * e.r % e.p = nk % e.p

theorem new64Loop_facts (nk : Nat) : ∀ (ps : List Nat) (fb : List FbEntry),
    (∀ p ∈ ps, p.Prime ∧ p < 200) → new64Loop nk ps = .ok fb →
    (∀ e ∈ fb, FbFact nk e) ∧ List.Sublist (fb.map (·.p)) ps := by
  intro ps
  induction ps with
  | nil =>
    intro fb _ h
    simp only [new64Loop, pure_eq_ok] at h
    subst h
    exact ⟨fun e he => (by cases he), List.Sublist.refl _⟩
  | cons p ps ih =>
    intro fb hps h
    have hps' : ∀ q ∈ ps, q.Prime ∧ q < 200 := fun q hq => hps q (List.mem_cons_of_mem _ hq)
    obtain ⟨hpp, hp200⟩ := hps p List.mem_cons_self
    unfold new64Loop at h
    simp only [bind_eq_ok, liftO_ok] at h
    obtain ⟨r, hr, h⟩ := h
    cases r with
    | none =>
      obtain ⟨h1, h2⟩ := ih fb hps' h
      exact ⟨h1, List.Sublist.cons _ h2⟩
    | some r =>
      simp only [bind_eq_ok, pure_eq_ok, liftO_ok] at h
      obtain ⟨d, hd, rest, hrest, h⟩ := h
      subst h
      obtain ⟨h1, h2⟩ := ih rest hps' hrest
      have hW : (W32 : Nat) = 4294967296 := rfl
      have hp32 : p % W32 = p := Nat.mod_eq_of_lt (by rw [hW]; omega)
      obtain ⟨hrlt, hroot⟩ := Ymq.C08.sqrt_mod_sound _ nk p r hpp hr
      have hr32 : r % W32 = r := Nat.mod_eq_of_lt (by rw [hW]; omega)
      rw [hp32] at hd
      obtain ⟨hdp, hok⟩ := Dividers.new_ok _ d hd
      refine ⟨?_, ?_⟩
      · intro e he
        rcases List.mem_cons.mp he with rfl | he
        · exact ⟨⟨hok, by simp only [hp32, hdp]⟩, by simp only [hp32]; exact hpp,
            by simp only [hp32]; exact hp200, by simp only [hp32, hr32]; exact hrlt,
            by simp only [hp32, hr32]; exact hroot⟩
        · exact h1 e he
      · simp only [List.map_cons, hp32]
        exact List.Sublist.cons_cons _ h2

theorem new64Loop_total (nk : Nat) : ∀ (ps : List Nat),
    (∀ p ∈ ps, p.Prime ∧ p < 200 ∧ (p = 2 ∨ (3 ≤ p ∧ p < 2 ^ 30 ∧ Ymq.Limbs.W % p ≠ 0))) →
    ∃ fb, new64Loop nk ps = .ok fb := by
  intro ps
  induction ps with
  | nil => intro _; exact ⟨[], rfl⟩
  | cons p ps ih =>
    intro hps
    obtain ⟨fb', hfb'⟩ := ih fun q hq => hps q (List.mem_cons_of_mem _ hq)
    obtain ⟨hpp, hp200, hnew⟩ := hps p List.mem_cons_self
    obtain ⟨res, hres⟩ := Ymq.C08.sqrt_mod_no_panic W64 nk p hpp (by
      rw [W64_eq]
      have : p - 1 < 2 ^ 8 := by omega
      calc (p - 1) * (p - 1) < 2 ^ 8 * 2 ^ 8 := Nat.mul_lt_mul'' this this
        _ < 2 ^ 64 := by norm_num) (Or.inr (by omega))
    unfold new64Loop
    rw [hres]
    cases res with
    | none => exact ⟨fb', by simpa [liftO, bind, Except.bind, pure, Except.pure] using hfb'⟩
    | some r =>
      have hW : (W32 : Nat) = 4294967296 := rfl
      have hp32 : p % W32 = p := Nat.mod_eq_of_lt (by rw [hW]; omega)
      obtain ⟨d, hd⟩ : ∃ d, Dividers.new p = some d := by
        rcases hnew with rfl | ⟨h3, h30, hw⟩
        · exact ⟨_, Dividers.new_two⟩
        · exact Dividers.new_some p h3 h30 hw
      rw [hp32, hd, hfb']
      exact ⟨_, rfl⟩

theorem sqrtMod_two (nk : Nat) : ∃ r, Ymq.Arith.sqrtMod W64 nk 2 = some (some r) := by
  unfold Ymq.Arith.sqrtMod
  simp only []
  split
  · omega
  · split
    · exact ⟨_, rfl⟩
    · exact ⟨_, rfl⟩

theorem new64Loop_ne_nil (nk : Nat) (ps : List Nat) (fb : List FbEntry)
    (h : new64Loop nk (2 :: ps) = .ok fb) : fb ≠ [] := by
  unfold new64Loop at h
  obtain ⟨r, hr⟩ := sqrtMod_two nk
  rw [hr] at h
  simp only [bind_eq_ok, liftO_ok] at h
  obtain ⟨a, ha, h⟩ := h
  simp only [Option.some.injEq] at ha
  subst ha
  simp only [bind_eq_ok, liftO_ok, pure_eq_ok] at h
  obtain ⟨d, _, rest, _, h⟩ := h
  subst h
  exact List.cons_ne_nil _ _

theorem smallPrimes_facts : ∀ p ∈ smallPrimes, p.Prime ∧ p < 200 := by
  intro p hp
  exact ⟨smallPrimes_prime p hp, smallPrimes_lt p hp⟩

theorem new64_total (nk : Nat) : ∃ fb, new64 nk = .ok fb := by
  obtain ⟨fb, hfb⟩ := new64Loop_total nk smallPrimes fun p hp =>
    ⟨smallPrimes_prime p hp, smallPrimes_lt p hp, smallPrimes_new p hp⟩
  have hne : fb ≠ [] := new64Loop_ne_nil nk _ fb hfb
  obtain ⟨hf, _⟩ := new64Loop_facts nk _ fb smallPrimes_facts hfb
  unfold new64
  rw [hfb]
  simp only [bind, Except.bind]
  cases hl : fb.getLast? with
  | none => exact absurd (List.getLast?_eq_none_iff.mp hl) hne
  | some e =>
    have := (hf e (List.mem_of_getLast? hl)).lt
    simp only
    rw [if_pos (by omega)]
    exact ⟨fb, rfl⟩

structure FbOK (nk : Nat) (fb : List FbEntry) : Prop where
  fact : ∀ e ∈ fb, FbFact nk e
  nodup : (fb.map (·.p)).Nodup
  len : fb.length ≤ 46

theorem new64_fbOK {nk : Nat} {fb : List FbEntry} (h : new64 nk = .ok fb) : FbOK nk fb := by
  unfold new64 at h
  simp only [bind_eq_ok] at h
  obtain ⟨fb', hfb, h⟩ := h
  have hfb'' : fb' = fb := by
    split at h
    · simp [throw_ne_ok] at h
    · split at h
      · rw [pure_eq_ok] at h; exact h
      · simp [throw_ne_ok] at h
  subst hfb''
  obtain ⟨h1, h2⟩ := new64Loop_facts nk _ fb' smallPrimes_facts hfb
  refine ⟨h1, h2.nodup smallPrimes_nodup, ?_⟩
  have := h2.length_le
  rw [List.length_map] at this
  exact le_trans this (by decide)

/-! ### the sieve of a block -/

theorem sievePrime_ok {c : Ctx} {offset : Int} (hs : Small c offset) {e : FbEntry}
    (he : FbFact c.nk e) (done : List Nat) (iv : Array Nat)
    (hiv : ∀ i, i < iv.size → iv.getD i 0 ≤ wt (V c offset i) done)
    (hroom : ∀ i, i < iv.size → wt (V c offset i) (done ++ [e.p]) ≤ 177) :
    ∃ iv', sievePrime c offset e iv = .ok iv' ∧ iv'.size = iv.size ∧
      ∀ i, i < iv.size → iv'.getD i 0 ≤ wt (V c offset i) (done ++ [e.p]) := by
  unfold sievePrime
  by_cases h3 : e.p ≤ 3
  · rw [if_pos h3]
    refine ⟨iv, rfl, rfl, ?_⟩
    intro i hi
    rw [wt_append]
    exact le_trans (hiv i hi) (Nat.le_add_right _ _)
  · rw [if_neg h3, if_neg (by have := he.rlt; omega)]
    have hwt : ∀ i, V c offset i % (e.p : Int) = 0 →
        wt (V c offset i) (done ++ [e.p]) = wt (V c offset i) done + 2 * Dividers.bitlen e.p := by
      intro i hv
      rw [wt_append, wt_single, if_pos ⟨by omega, hv⟩]
    have hroot1 : IsRoot e.p c.nk (e.r : Int) := isRoot_of_sqrt he.root
    obtain ⟨iv1, g1, g2, g3⟩ := sieveRoot_ok hs he.ok he.lt (Dividers.bitlen e.p) e.r
      (le_of_lt he.rlt) hroot1 (fun i => wt (V c offset i) done) iv hiv (by
        intro i hi hv
        have := hroom i hi
        rw [hwt i hv] at this
        omega)
    have hroot2 : IsRoot e.p c.nk ((e.p - e.r : Nat) : Int) := by
      rw [Nat.cast_sub (le_of_lt he.rlt)]; exact isRoot_neg hroot1
    obtain ⟨iv2, k1, k2, k3⟩ := sieveRoot_ok hs he.ok he.lt (Dividers.bitlen e.p) (e.p - e.r)
      (Nat.sub_le _ _) hroot2
      (fun i => wt (V c offset i) done + (if V c offset i % (e.p : Int) = 0 then Dividers.bitlen e.p else 0))
      iv1 (by intro i hi; rw [g2] at hi; exact g3 i hi) (by
        intro i hi hv
        rw [g2] at hi
        have := hroom i hi
        rw [hwt i hv] at this
        rw [if_pos hv]
        omega)
    refine ⟨iv2, ?_, by rw [k2, g2], ?_⟩
    · simp only [g1, bind, Except.bind]
      exact k1
    · intro i hi
      have := k3 i (by rw [g2]; exact hi)
      by_cases hv : V c offset i % (e.p : Int) = 0
      · rw [hwt i hv]
        rw [if_pos hv] at this
        omega
      · rw [if_neg hv] at this
        rw [wt_append]
        omega

theorem sieveAll_ok {c : Ctx} {offset : Int} (hs : Small c offset) :
    ∀ (rest : List FbEntry) (done : List Nat) (iv : Array Nat), (∀ e ∈ rest, FbFact c.nk e) →
    (∀ i, i < iv.size → wt (V c offset i) (done ++ rest.map (·.p)) ≤ 177) →
    (∀ i, i < iv.size → iv.getD i 0 ≤ wt (V c offset i) done) →
    ∃ iv', sieveAll c offset rest iv = .ok iv' ∧ iv'.size = iv.size := by
  intro rest
  induction rest with
  | nil => intro done iv _ _ _; exact ⟨iv, rfl, rfl⟩
  | cons e t ih =>
    intro done iv hf hroom hiv
    have hsplit : ∀ i, wt (V c offset i) (done ++ (e :: t).map (·.p)) =
        wt (V c offset i) (done ++ [e.p]) + wt (V c offset i) (t.map (·.p)) := by
      intro i
      rw [List.map_cons, wt_append, wt_append]
      have : e.p :: t.map (·.p) = [e.p] ++ t.map (·.p) := rfl
      rw [this, wt_append]; omega
    obtain ⟨iv1, g1, g2, g3⟩ := sievePrime_ok hs (hf e List.mem_cons_self) done iv hiv (by
      intro i hi
      have := hroom i hi
      rw [hsplit] at this
      omega)
    obtain ⟨iv2, k1, k2⟩ := ih (done ++ [e.p]) iv1 (fun e' he' => hf e' (List.mem_cons_of_mem _ he'))
      (by
        intro i hi
        rw [g2] at hi
        have := hroom i hi
        rw [hsplit] at this
        rw [wt_append]
        exact this)
      (by intro i hi; rw [g2] at hi; exact g3 i hi)
    refine ⟨iv2, ?_, by rw [k2, g2]⟩
    unfold sieveAll
    simp only [g1, bind, Except.bind]
    exact k1

end Ymq.Qsieve64
