/-
C13 helper lemmas: `table_bucket_exact` carried through the loops of `Sieve::new`: after `new`, as long as no
overflow is counted, every bucket of the table of size class `ti + 16` holds exactly the hits registered for
the primes of that class (in the order of the code).
-/
import Ymq.Lemmas.SieveTableExact
import Ymq.Lemmas.SieveState

namespace Ymq.Sieve

/-- offsets `Sieve::new` registers for prime index `pidx` of the second size class (total function). -/
def offsL (fb : FB) (r1 r2 : Array Nat) (interval pidx : Nat) : List Nat :=
  match fb.primes[pidx]?, r1[pidx]?, r2[pidx]? with
  | some p, some o1, some o2 => (largeOffsets interval p o1 o2).getD []
  | _, _, _ => []

/-- the bucket entries of prime index `pidx` in bucket `b`. -/
def partL (fb : FB) (r1 r2 : Array Nat) (interval b pidx : Nat) : List (Nat × Nat) :=
  ((offsL fb r1 r2 interval pidx).filter fun off => off / 256 = b).map fun off => (off % 256, pidx % 2 ^ 32 % 256)

section
variable {fb : FB} {r1 r2 : Array Nat} {interval : Nat}

theorem newLargeStep_bucket {t t' : Table} {pidx : Nat} (hwf : t.WF)
    (h : newLargeStep fb r1 r2 interval t pidx = some t') :
    t'.WF ∧ t.nOverflows ≤ t'.nOverflows ∧ (t'.nOverflows = t.nOverflows → ∀ b bk, t.bucket b = some bk →
      t'.bucket b = some (bk ++ partL fb r1 r2 interval b pidx)) := by
  have hrec := newLargeStep_rec hwf h
  refine ⟨hrec.1, hrec.2.2.1, ?_⟩
  intro hov b bk hb
  unfold newLargeStep at h
  simp only [Option.bind_eq_bind, Option.bind_eq_some_iff] at h
  obtain ⟨o1, h1, o2, h2, p, hp, h⟩ := h
  split at h
  · simp at h
  simp only [Option.pure_def, Option.bind_some, Option.bind_eq_some_iff] at h
  obtain ⟨offsets, ho, hf⟩ := h
  have hf' : (offsets.map fun off => (off, pidx % 2 ^ 32)).foldlM (fun (t : Table) a => t.add a.1 a.2) t = some t' := by
    rw [List.foldlM_map]; exact hf
  have := Table.foldl_bucket_exact _ t t' hwf hf' hov b bk hb
  rw [this]
  congr 2
  unfold partL offsL
  simp only [hp, h1, h2, ho, Option.getD_some, List.filter_map, List.map_map]
  rfl

theorem newLarge_fold_bucket :
    ∀ (L : List Nat) (t t' : Table), t.WF → L.foldlM (newLargeStep fb r1 r2 interval) t = some t' →
      t'.WF ∧ t.nOverflows ≤ t'.nOverflows ∧ (t'.nOverflows = t.nOverflows → ∀ b bk, t.bucket b = some bk →
        t'.bucket b = some (bk ++ L.flatMap (partL fb r1 r2 interval b))) := by
  intro L
  induction L with
  | nil =>
    intro t t' hwf h
    simp at h; subst h
    exact ⟨hwf, le_refl _, fun _ b bk hb => by simpa using hb⟩
  | cons a rest ih =>
    intro t t' hwf h
    rw [List.foldlM_cons] at h
    simp only [bind, Option.bind_eq_some_iff] at h
    obtain ⟨t1, h1, h2⟩ := h
    obtain ⟨w1, n1, b1⟩ := newLargeStep_bucket hwf h1
    obtain ⟨w2, n2, b2⟩ := ih t1 t' w1 h2
    refine ⟨w2, le_trans n1 n2, ?_⟩
    intro hov b bk hb
    rw [b2 (by omega) b _ (b1 (by omega) b bk hb), List.flatMap_cons, List.append_assoc]

/-- a step of the loop of `new` for another size class leaves table `ti` alone; the step of class `ti + 16` runs
the loop over the primes of the class on it. -/
theorem newStep_table {st st' : Array Nat × Array Table × Array LTable} {log ti : Nat}
    (h : newStep fb r1 r2 interval st log = some st') :
    (log ≠ ti + 16 → st'.2.1[ti]? = st.2.1[ti]?) ∧
    (log = ti + 16 → ti < 3 → ∃ idx1 idx2 t t', fb.ibl[log]? = some idx1 ∧ fb.ibl[log + 1]? = some idx2 ∧
      st.2.1[ti]? = some t ∧ (List.range' idx1 (idx2 - idx1)).foldlM (newLargeStep fb r1 r2 interval) t = some t' ∧
      st'.2.1[ti]? = some t') := by
  obtain ⟨offs, tables, ltables⟩ := st
  unfold newStep at h
  simp only [Option.bind_eq_bind, Option.bind_eq_some_iff] at h
  obtain ⟨idx1, h1, idx2, h2, h⟩ := h
  by_cases hass : ¬ (idx2 ≤ r1.size ∧ idx2 ≤ r2.size ∧ idx2 ≤ fb.primes.size)
  · simp [hass] at h
  simp only [hass, if_false, Option.pure_def, Option.bind_some] at h
  by_cases hl : log < LARGE_LOG
  · simp only [hl, if_true, Option.bind_eq_some_iff, Option.some.injEq] at h
    obtain ⟨offs', _, rfl⟩ := h
    simp only [LARGE_LOG] at hl
    exact ⟨fun _ => rfl, fun e => by omega⟩
  · simp only [hl, if_false] at h
    by_cases hv : log < VLARGE_LOG
    · simp only [hv, if_true, Option.bind_eq_some_iff, Option.some.injEq] at h
      obtain ⟨tables', hm, rfl⟩ := h
      obtain ⟨x, y, hx, hf, _, hy, hne⟩ := modifyM_spec hm
      simp only [LARGE_LOG, VLARGE_LOG] at hl hv hx hy hne
      constructor
      · intro hne'
        exact hne ti (by omega)
      · intro e _
        have : log - 16 = ti := by omega
        rw [this] at hx hy
        exact ⟨idx1, idx2, x, y, h1, h2, hx, hf, hy⟩
    · simp only [hv, if_false, Option.bind_eq_some_iff, Option.some.injEq] at h
      obtain ⟨ltables', _, rfl⟩ := h
      simp only [VLARGE_LOG] at hv
      exact ⟨fun _ => rfl, fun e _ => by omega⟩

/-- the whole loop over the size classes, seen from table `ti`. -/
theorem newFold_table {T0 : Array Table} {L0 : Array LTable} {offs0 : Array Nat} {ti : Nat} (hti : ti < 3) :
    ∀ (n : Nat) (st' : Array Nat × Array Table × Array LTable),
      (List.range' 0 n).foldlM (newStep fb r1 r2 interval) (offs0, T0, L0) = some st' →
      (n ≤ ti + 16 → st'.2.1[ti]? = T0[ti]?) ∧
      (ti + 16 < n → ∃ idx1 idx2 t t', fb.ibl[ti + 16]? = some idx1 ∧ fb.ibl[ti + 17]? = some idx2 ∧
        T0[ti]? = some t ∧ (List.range' idx1 (idx2 - idx1)).foldlM (newLargeStep fb r1 r2 interval) t = some t' ∧
        st'.2.1[ti]? = some t') := by
  intro n
  induction n with
  | zero =>
    intro st' h
    simp at h; subst h
    exact ⟨fun _ => rfl, fun h => by omega⟩
  | succ n ih =>
    intro st' h
    rw [List.range'_concat, List.foldlM_append] at h
    simp only [bind, Option.bind_eq_some_iff, List.foldlM_cons, List.foldlM_nil, pure, Nat.zero_add, Nat.one_mul] at h
    obtain ⟨st1, hs1, st2, hs2, hst⟩ := h
    simp only [Option.some.injEq] at hst
    subst hst
    obtain ⟨i1, i2⟩ := ih st1 hs1
    obtain ⟨j1, j2⟩ := newStep_table (ti := ti) hs2
    constructor
    · intro hle
      rw [j1 (by omega), i1 (by omega)]
    · intro hlt
      by_cases hn : n = ti + 16
      · obtain ⟨idx1, idx2, t, t', a1, a2, a3, a4, a5⟩ := j2 hn hti
        rw [hn] at a1 a2
        rw [i1 (by omega)] at a3
        exact ⟨idx1, idx2, t, t', a1, a2, a3, a4, a5⟩
      · obtain ⟨idx1, idx2, t, t', a1, a2, a3, a4, a5⟩ := i2 (by omega)
        exact ⟨idx1, idx2, t, t', a1, a2, a3, a4, by rw [j1 hn]; exact a5⟩

end

end Ymq.Sieve
