import Ymq.Props.C02
import Ymq.Props.C02C06
#print axioms Ymq.C02.auto_composite_needs_giveup
#print axioms Ymq.C02.auto_composite_needs_giveup_det
#print axioms Ymq.C02.auto_complete
#print axioms Ymq.C02.factor_composite_needs_giveup
#print axioms Ymq.C02.factor_auto_complete
#print axioms Ymq.C02.auto_complete_on
#print axioms Ymq.C02.auto_complete_64
