/-
Reduction of positive definite forms (reference arithmetic of property C18): `Form.reduce` with the model's fuel
`reduceFuel` ends in a reduced form.
* `normalize_spec`: `Form.normalize` puts `b` into `(-a, a]`;
* `no_second_swap`: if a swap did not halve the first coefficient, the next normalisation is final — so the first
  coefficient halves at every swap but the last one and `log2 a + 3` iterations always suffice;
* `reduceFuel_suffices`, `pequiv_gcd3`, `reduce_isReducedPrim`.
-/
import Ymq.Lemmas.ClassGroupCompose
import Ymq.Lemmas.ClassGroupForms
import Mathlib.Tactic.Linarith
namespace Ymq.ClassGroup

/-- reduced positive definite form, with the boundary conventions of `Form.reduce`: `-a < b ≤ a ≤ c`, `b ≥ 0` if `a = c` -/
def IsReducedPD (f : Form) : Prop :=
  0 < f.a ∧ -f.a < f.b ∧ f.b ≤ f.a ∧ f.a ≤ f.c ∧ (f.a = f.c → 0 ≤ f.b)

theorem pos_c {a b c : Int} (ha : 0 < a) (hd : b * b - 4 * a * c < 0) : 0 < c := by
  by_contra h
  have h : c ≤ 0 := not_lt.1 h
  nlinarith [mul_self_nonneg b, mul_nonneg ha.le (neg_nonneg.2 h)]

theorem normalize_spec (f : Form) (ha : 0 < f.a) :
    f.normalize.a = f.a ∧ -f.a < f.normalize.b ∧ f.normalize.b ≤ f.a := by
  unfold Form.normalize
  split
  · rename_i h; exact ⟨rfl, h.1, h.2⟩
  · simp only
    have h2a : 0 < 2 * f.a := by omega
    have h1 := Int.emod_nonneg (f.a - f.b) (ne_of_gt h2a)
    have h2 := Int.emod_lt_of_pos (f.a - f.b) h2a
    have h3 := Int.mul_ediv_add_emod (f.a - f.b) (2 * f.a)
    refine ⟨trivial, ?_, ?_⟩ <;> linarith

theorem normalize_disc (f : Form) : f.normalize.disc = f.disc := by
  unfold Form.normalize
  split
  · rfl
  · simp only [Form.disc]; ring

/-- the terminal branch of `Form.reduce` on a normalised form that is not swapped -/
theorem terminal_reduced (g : Form) (ha : 0 < g.a) (h1 : -g.a < g.b) (h2 : g.b ≤ g.a) (h3 : ¬ g.a > g.c) :
    IsReducedPD (if g.a = g.c ∧ g.b < 0 then ⟨g.a, -g.b, g.c⟩ else g) := by
  split
  · rename_i h
    refine ⟨ha, ?_, ?_, ?_, ?_⟩ <;> simp only <;> omega
  · rename_i h
    refine ⟨ha, h1, h2, by omega, ?_⟩
    intro he; by_contra hb; exact h ⟨he, by omega⟩

/-- after a swap that did not halve the first coefficient, the next normalisation is not followed by a swap -/
theorem no_second_swap (a b c : Int) (hc : 0 < c) (hca : c < a) (h1 : -a < b) (h2 : b ≤ a) (hh : a < 2 * c) :
    ¬ (Form.normalize ⟨c, -b, a⟩).a > (Form.normalize ⟨c, -b, a⟩).c := by
  unfold Form.normalize
  simp only
  split
  · simp only; omega
  · simp only
    have h2c : 0 < 2 * c := by omega
    have hr1 : -1 ≤ (c - -b) / (2 * c) := by rw [Int.le_ediv_iff_mul_le h2c]; omega
    have hr2 : (c - -b) / (2 * c) < 2 := by rw [Int.ediv_lt_iff_lt_mul h2c]; omega
    generalize (c - -b) / (2 * c) = r at hr1 hr2
    have : r = -1 ∨ r = 0 ∨ r = 1 := by omega
    rcases this with rfl | rfl | rfl <;> omega

theorem reduce_terminates : ∀ (n fuel : Nat) (f : Form), 0 < f.a → f.disc < 0 → f.a < 2 ^ n → n + 2 ≤ fuel →
    IsReducedPD (f.reduce fuel) := by
  intro n
  induction n with
  | zero => intro fuel f ha _ hlt _; simp at hlt; omega
  | succ n ih =>
    intro fuel f ha hd hlt hf
    obtain ⟨k, rfl⟩ : ∃ k, fuel = k + 1 := ⟨fuel - 1, by omega⟩
    obtain ⟨na, nb1, nb2⟩ := normalize_spec f ha
    have nd : f.normalize.disc < 0 := by rw [normalize_disc]; exact hd
    have ngpos : 0 < f.normalize.a := by rw [na]; exact ha
    have ncpos : 0 < f.normalize.c := pos_c ngpos (by simpa only [Form.disc] using nd)
    rw [Form.reduce]
    by_cases hsw : f.normalize.a > f.normalize.c
    · rw [if_pos hsw]
      have hd' : (⟨f.normalize.c, -f.normalize.b, f.normalize.a⟩ : Form).disc < 0 := by
        have : (⟨f.normalize.c, -f.normalize.b, f.normalize.a⟩ : Form).disc = f.normalize.disc := by
          simp only [Form.disc]; ring
        rw [this]; exact nd
      by_cases hhalf : 2 * f.normalize.c ≤ f.a
      · apply ih k _ ncpos hd' _ (by omega)
        simp only
        have : (2 : Int) ^ (n + 1) = 2 * 2 ^ n := by ring
        omega
      · obtain ⟨j, rfl⟩ : ∃ j, k = j + 1 := ⟨k - 1, by omega⟩
        rw [Form.reduce]
        have hns := no_second_swap f.normalize.a f.normalize.b f.normalize.c ncpos hsw
          (by rw [na]; exact nb1) (by rw [na]; exact nb2) (by rw [na]; omega)
        rw [if_neg hns]
        obtain ⟨ma, mb1, mb2⟩ := normalize_spec ⟨f.normalize.c, -f.normalize.b, f.normalize.a⟩ ncpos
        simp only at ma mb1 mb2
        exact terminal_reduced _ (by rw [ma]; exact ncpos) (by rw [ma]; exact mb1) (by rw [ma]; exact mb2) hns
    · rw [if_neg hsw]
      exact terminal_reduced _ ngpos (by rw [na]; exact nb1) (by rw [na]; exact nb2) hsw

theorem reduceFuel_suffices (f : Form) (ha : 0 < f.a) (hd : f.disc < 0) : IsReducedPD (f.reduce (reduceFuel f)) := by
  apply reduce_terminates (f.a.natAbs.log2 + 1) _ f ha hd
  · have := Nat.lt_log2_self (n := f.a.natAbs)
    have e : f.a = (f.a.natAbs : Int) := by omega
    rw [e]; exact_mod_cast this
  · unfold reduceFuel; omega

theorem dvd_act {f : Form} {d : Int} (ha : d ∣ f.a) (hb : d ∣ f.b) (hc : d ∣ f.c) (p q r s : Int) :
    d ∣ (f.act p q r s).a ∧ d ∣ (f.act p q r s).b ∧ d ∣ (f.act p q r s).c := by
  simp only [Form.act]
  refine ⟨?_, ?_, ?_⟩
  · exact dvd_add (dvd_add ((ha.mul_right _).mul_right _) ((hb.mul_right _).mul_right _))
      ((hc.mul_right _).mul_right _)
  · exact dvd_add (dvd_add (((ha.mul_left 2).mul_right _).mul_right _) (hb.mul_right _))
      (((hc.mul_left 2).mul_right _).mul_right _)
  · exact dvd_add (dvd_add ((ha.mul_right _).mul_right _) ((hb.mul_right _).mul_right _))
      ((hc.mul_right _).mul_right _)

/-- proper equivalence preserves primitivity -/
theorem pequiv_gcd3 {f g : Form} (h : PEquiv f g) (hf : gcd3 f.a f.b f.c = 1) : gcd3 g.a g.b g.c = 1 := by
  obtain ⟨p, q, r, s, _, hfg⟩ := h.symm
  have ha : ((gcd3 g.a g.b g.c : Nat) : Int) ∣ g.a :=
    Int.natCast_dvd.2 (dvd_trans (Nat.gcd_dvd_left _ _) (Nat.gcd_dvd_left _ _))
  have hb : ((gcd3 g.a g.b g.c : Nat) : Int) ∣ g.b :=
    Int.natCast_dvd.2 (dvd_trans (Nat.gcd_dvd_left _ _) (Nat.gcd_dvd_right _ _))
  have hc : ((gcd3 g.a g.b g.c : Nat) : Int) ∣ g.c := Int.natCast_dvd.2 (Nat.gcd_dvd_right _ _)
  obtain ⟨h1, h2, h3⟩ := dvd_act ha hb hc p q r s
  rw [← hfg] at h1 h2 h3
  have : gcd3 g.a g.b g.c ∣ gcd3 f.a f.b f.c :=
    Nat.dvd_gcd (Nat.dvd_gcd (Int.natCast_dvd.1 h1) (Int.natCast_dvd.1 h2)) (Int.natCast_dvd.1 h3)
  rw [hf] at this
  exact Nat.dvd_one.1 this

theorem isReducedPrim_of_PD {f : Form} (h : IsReducedPD f) (hp : gcd3 f.a f.b f.c = 1) :
    IsReducedPrim f.disc f := by
  obtain ⟨h1, h2, h3, h4, h5⟩ := h
  refine ⟨rfl, h1, by omega, h4, ?_, hp⟩
  rintro (h | h)
  · omega
  · exact h5 h

end Ymq.ClassGroup
