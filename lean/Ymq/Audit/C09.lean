import Ymq.Props.C09
import Ymq.Props.C07C09
import Ymq.Props.C09Ext
import Ymq.Props.C07C09Ext
#print axioms Ymq.C09.step_gcd
#print axioms Ymq.C09.reduce64_inv
#print axioms Ymq.C09.gcd_internal_spec
#print axioms Ymq.C09.gcd_terminates
#print axioms Ymq.C09.big_gcd_spec
#print axioms Ymq.C09.mulword_no_panic
#print axioms Ymq.C09.no_panic
#print axioms Ymq.C09.no_panic_ext
#print axioms Ymq.C09.no_panic_ext_any_width
#print axioms Ymq.C09.no_panic_ext_domain_sharp
#print axioms Ymq.C09.inv_mod_no_panic
#print axioms Ymq.C09.inv_mod_spec
#print axioms Ymq.C09.zmodn_inv_spec
#print axioms Ymq.C09.zmodn_gcd_spec
#print axioms Ymq.C09.reduce64_first_row
#print axioms Ymq.C09.no_panic_ext_wide
#print axioms Ymq.C09.inv_mod_total
#print axioms Ymq.C09.reduce64_row_product
#print axioms Ymq.C09.no_panic_ext_threshold
#print axioms Ymq.C09.egcd_i64_half
#print axioms Ymq.C09.zmodn_inv_spec_wide
