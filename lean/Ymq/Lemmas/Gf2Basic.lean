/-
C14 helper lemmas, part 1 (core only): pointwise view of bit vectors (`bitAt`), xor-sums of
Booleans (`xsum`), `vxor`, `lzTop` (= `BitVec::leading_zeros`), `mulVec`, `unitVec`.
-/
import Ymq.Model.Gf2
namespace Ymq.Gf2

def bitAt (v : BVec) (i : Nat) : Bool := v.getD i false

def xsum (l : List Bool) : Bool := l.foldr xor false

@[simp] theorem xsum_nil : xsum [] = false := rfl
@[simp] theorem xsum_cons (b : Bool) (l : List Bool) : xsum (b :: l) = (b ^^ xsum l) := rfl

theorem xsum_append (a b : List Bool) : xsum (a ++ b) = (xsum a ^^ xsum b) := by
  induction a with
  | nil => simp
  | cons x a ih => simp [ih]

theorem xsum_map_xor {α} (l : List α) (f g : α → Bool) :
    xsum (l.map (fun a => (f a ^^ g a))) = (xsum (l.map f) ^^ xsum (l.map g)) := by
  induction l with
  | nil => simp
  | cons x l ih =>
    simp only [List.map_cons, xsum_cons, ih]
    cases f x <;> cases g x <;> cases xsum (l.map f) <;> cases xsum (l.map g) <;> rfl

theorem xsum_map_and {α} (l : List α) (c : Bool) (f : α → Bool) :
    xsum (l.map (fun a => (c && f a))) = (c && xsum (l.map f)) := by
  induction l with
  | nil => simp
  | cons x l ih =>
    simp only [List.map_cons, xsum_cons, ih]
    cases c <;> simp

theorem xsum_eq_false_of_forall (l : List Bool) (h : ∀ b ∈ l, b = false) : xsum l = false := by
  induction l with
  | nil => rfl
  | cons x l ih =>
    simp only [xsum_cons]
    rw [h x (by simp), ih (fun b hb => h b (by simp [hb]))]; rfl

theorem xsum_perm {a b : List Bool} (h : a.Perm b) : xsum a = xsum b := by
  induction h with
  | nil => rfl
  | cons x _ ih => simp [ih]
  | swap x y l => simp only [xsum_cons]; cases x <;> cases y <;> cases xsum l <;> rfl
  | trans _ _ ih1 ih2 => exact ih1.trans ih2

@[simp] theorem bitAt_nil (i : Nat) : bitAt [] i = false := by simp [bitAt]
@[simp] theorem bitAt_cons_zero (b : Bool) (v : BVec) : bitAt (b :: v) 0 = b := by simp [bitAt]
@[simp] theorem bitAt_cons_succ (b : Bool) (v : BVec) (i : Nat) : bitAt (b :: v) (i + 1) = bitAt v i := by
  simp [bitAt]

theorem bitAt_of_ge (v : BVec) (i : Nat) (h : v.length ≤ i) : bitAt v i = false := by
  simp [bitAt, List.getD, List.getElem?_eq_none h]

theorem bitAt_vxor (a b : BVec) (h : a.length = b.length) (i : Nat) :
    bitAt (vxor a b) i = (bitAt a i ^^ bitAt b i) := by
  induction a generalizing b i with
  | nil => cases b with
    | nil => simp [vxor]
    | cons y b => simp at h
  | cons x a ih => cases b with
    | nil => simp at h
    | cons y b =>
      cases i with
      | zero => simp [vxor]
      | succ i =>
        simp only [List.length_cons, Nat.add_right_cancel_iff] at h
        have := ih b h i
        simpa [vxor] using this

theorem length_vxor (a b : BVec) (h : a.length = b.length) : (vxor a b).length = a.length := by
  simp [vxor, h]

theorem bitAt_replicate_false (n i : Nat) : bitAt (List.replicate n false) i = false := by
  simp only [bitAt, List.getD, List.getElem?_replicate]
  split <;> rfl

theorem bvec_ext (a b : BVec) (hl : a.length = b.length) (h : ∀ i, bitAt a i = bitAt b i) : a = b := by
  induction a generalizing b with
  | nil => cases b with
    | nil => rfl
    | cons y b => simp at hl
  | cons x a ih => cases b with
    | nil => simp at hl
    | cons y b =>
      have h0 := h 0
      simp only [bitAt_cons_zero] at h0
      have := ih b (by simpa using hl) (fun i => by simpa using h (i + 1))
      rw [h0, this]

theorem isZero_iff (v : BVec) : isZero v = true ↔ ∀ i, bitAt v i = false := by
  induction v with
  | nil => simp [isZero]
  | cons x v ih =>
    simp only [isZero, List.all_cons, Bool.and_eq_true, beq_iff_eq] at ih ⊢
    constructor
    · rintro ⟨hx, hv⟩ i
      cases i with
      | zero => simpa using hx
      | succ i => simpa using ih.mp hv i
    · intro h
      exact ⟨by simpa using h 0, ih.mpr (fun i => by simpa using h (i + 1))⟩


theorem lzAux_le (l : List Bool) : lzAux l ≤ l.length := by
  induction l with
  | nil => simp [lzAux]
  | cons x l ih => cases x <;> simp [lzAux]; omega

theorem le_lzAux_iff (l : List Bool) (k : Nat) :
    k ≤ lzAux l ↔ ∀ i, i < k → l[i]? = some false := by
  induction l generalizing k with
  | nil =>
    simp only [lzAux, Nat.le_zero_eq, List.getElem?_nil]
    constructor
    · intro h i hi; omega
    · intro h
      cases k with
      | zero => rfl
      | succ k => exact absurd (h 0 (by omega)) (by simp)
  | cons x l ih =>
    cases x with
    | true =>
      simp only [lzAux, Nat.le_zero_eq]
      constructor
      · intro h i hi; omega
      · intro h
        cases k with
        | zero => rfl
        | succ k => exact absurd (h 0 (by omega)) (by simp)
    | false =>
      simp only [lzAux]
      cases k with
      | zero => simp
      | succ k =>
        rw [Nat.add_le_add_iff_right, ih k]
        constructor
        · intro h i hi
          cases i with
          | zero => simp
          | succ i => simpa using h i (by omega)
        · intro h i hi
          simpa using h (i + 1) (by omega)


theorem lzTop_le (v : BVec) : lzTop v ≤ v.length := by
  simpa [lzTop] using lzAux_le v.reverse

theorem le_lzTop_iff (v : BVec) (k : Nat) (hk : k ≤ v.length) :
    k ≤ lzTop v ↔ ∀ i, v.length - k ≤ i → bitAt v i = false := by
  unfold lzTop
  rw [le_lzAux_iff]
  constructor
  · intro h i hi
    by_cases hin : i < v.length
    · have h1 := h (v.length - 1 - i) (by omega)
      rw [List.getElem?_reverse (by omega)] at h1
      have : v.length - 1 - (v.length - 1 - i) = i := by omega
      rw [this] at h1
      simp [bitAt, List.getD, h1]
    · exact bitAt_of_ge v i (by omega)
  · intro h i hi
    rw [List.getElem?_reverse (by omega)]
    have h1 := h (v.length - 1 - i) (by omega)
    have hlt : v.length - 1 - i < v.length := by omega
    simp only [bitAt, List.getD, List.getElem?_eq_getElem hlt, Option.getD_some] at h1
    rw [List.getElem?_eq_getElem hlt, h1]

theorem lzTop_eq_length_iff (v : BVec) : lzTop v = v.length ↔ ∀ i, bitAt v i = false := by
  have h := le_lzTop_iff v v.length (Nat.le_refl _)
  have hle := lzTop_le v
  constructor
  · intro he i
    exact (h.mp (by omega)) i (by omega)
  · intro hz
    have := h.mpr (fun i _ => hz i)
    omega

theorem bitAt_above_top (v : BVec) (i : Nat) (hi : v.length - lzTop v ≤ i) : bitAt v i = false :=
  (le_lzTop_iff v (lzTop v) (lzTop_le v)).mp (Nat.le_refl _) i hi

theorem bitAt_top (v : BVec) (h : lzTop v < v.length) : bitAt v (v.length - 1 - lzTop v) = true := by
  cases hb : bitAt v (v.length - 1 - lzTop v) with
  | true => rfl
  | false =>
    exfalso
    have := (le_lzTop_iff v (lzTop v + 1) (by omega)).mpr (fun i hi => by
      by_cases he : i = v.length - 1 - lzTop v
      · rw [he]; exact hb
      · exact bitAt_above_top v i (by omega))
    omega

theorem lzTop_vxor_gt (a b : BVec) (hl : a.length = b.length) (hz : lzTop a = lzTop b)
    (hlt : lzTop a < a.length) : lzTop a < lzTop (vxor a b) := by
  have hlen := length_vxor a b hl
  have := (le_lzTop_iff (vxor a b) (lzTop a + 1) (by omega)).mpr (fun i hi => by
    rw [bitAt_vxor a b hl]
    by_cases he : i = a.length - 1 - lzTop a
    · rw [he, bitAt_top a hlt]
      have : a.length - 1 - lzTop a = b.length - 1 - lzTop b := by omega
      rw [this, bitAt_top b (by omega)]; rfl
    · rw [bitAt_above_top a i (by omega), bitAt_above_top b i (by omega)]; rfl)
  omega

/-- all columns have `size` entries -/
def Rect (size : Nat) (M : List BVec) : Prop := ∀ c ∈ M, c.length = size

theorem Rect.tail {size : Nat} {c : BVec} {M : List BVec} (h : Rect size (c :: M)) : Rect size M :=
  fun d hd => h d (by simp [hd])

theorem length_mulVec (size : Nat) (M : List BVec) (v : BVec) (h : Rect size M) :
    (mulVec size M v).length = size := by
  induction M generalizing v with
  | nil => simp [mulVec]
  | cons c M ih =>
    cases v with
    | nil => simp [mulVec]
    | cons b v =>
      simp only [mulVec]
      split
      · rw [length_vxor _ _ (by rw [ih v h.tail, h c (by simp)])]; exact h c (by simp)
      · exact ih v h.tail

theorem bitAt_mulVec (size : Nat) (M : List BVec) (v : BVec) (h : Rect size M) (i : Nat) :
    bitAt (mulVec size M v) i = xsum (List.zipWith (fun c b => (b && bitAt c i)) M v) := by
  induction M generalizing v with
  | nil => simp [mulVec, bitAt_replicate_false]
  | cons c M ih =>
    cases v with
    | nil => simp [mulVec, bitAt_replicate_false]
    | cons b v =>
      simp only [mulVec, List.zipWith_cons_cons, xsum_cons]
      cases b with
      | true =>
        simp only [if_true, Bool.true_and]
        rw [bitAt_vxor _ _ (by rw [length_mulVec size M v h.tail, h c (by simp)]), ih v h.tail]
      | false =>
        simp only [Bool.false_and, Bool.false_xor]
        exact ih v h.tail

theorem length_unitVec (n i : Nat) : (unitVec n i).length = n := by simp [unitVec]

theorem bitAt_unitVec (n i t : Nat) : bitAt (unitVec n i) t = (decide (t < n) && t == i) := by
  simp only [bitAt, unitVec, List.getD, List.getElem?_map]
  by_cases h : t < n
  · simp [h]
  · simp [h]

theorem xsum_zipWith_flags_false {α} (F : α → Bool) (M : List α) (v : BVec)
    (hv : ∀ t, bitAt v t = false) : xsum (List.zipWith (fun c b => (b && F c)) M v) = false := by
  induction M generalizing v with
  | nil => simp
  | cons c M ih =>
    cases v with
    | nil => simp
    | cons b v =>
      have hb : b = false := by simpa using hv 0
      simp only [List.zipWith_cons_cons, xsum_cons, hb, Bool.false_and, Bool.false_xor]
      exact ih v (fun t => by simpa using hv (t + 1))

theorem xsum_zipWith_single {α} (F : α → Bool) (M : List α) (v : BVec) (j : Nat)
    (hlen : v.length = M.length) (hj : j < M.length) (hv : ∀ t, bitAt v t = (t == j)) :
    xsum (List.zipWith (fun c b => (b && F c)) M v) = F M[j] := by
  induction M generalizing v j with
  | nil => simp at hj
  | cons c M ih =>
    cases v with
    | nil => simp at hlen
    | cons b v =>
      simp only [List.zipWith_cons_cons, xsum_cons]
      cases j with
      | zero =>
        have hb : b = true := by simpa using hv 0
        rw [xsum_zipWith_flags_false F M v (fun t => by simpa using hv (t + 1))]
        simp [hb]
      | succ j =>
        have hb : b = false := by simpa using hv 0
        rw [ih v j (by simpa using hlen) (by simpa using hj) (fun t => by simpa using hv (t + 1))]
        simp [hb]

theorem mulVec_unitVec (size : Nat) (M : List BVec) (h : Rect size M) (j : Nat) (hj : j < M.length) :
    mulVec size M (unitVec M.length j) = M[j] := by
  apply bvec_ext
  · rw [length_mulVec size M _ h, h M[j] (List.getElem_mem hj)]
  · intro i
    rw [bitAt_mulVec size M _ h]
    exact xsum_zipWith_single (fun c => bitAt c i) M _ j (length_unitVec _ _) hj (fun t => by
      rw [bitAt_unitVec]
      by_cases ht : t = j
      · subst ht; simp [hj]
      · simp [ht])

end Ymq.Gf2
