/- C20: one of the large finite checks, in its own module so that lake checks them in parallel.
Restated as a property theorem in Ymq/Props/C20.lean. -/
import Ymq.Lemmas.ParamsDefs

namespace Ymq.C20.Dec
open Ymq.Checked Ymq.Gen Ymq.Gen.Params Ymq.C20

theorem select_fb_size : ∀ t ∈ fbTables, ∀ b, b ≤ 1024 → ∀ d : Bool,
    Holds (params.select_fb_size b d t) fun v => 0 < v ∧ v ≤ 500000 := by decide +kernel

end Ymq.C20.Dec
