import Ymq.Props.C19BM

#print axioms Ymq.C19BM.bm_montgomery_ops
#print axioms Ymq.C19BM.bm_big_ops
#print axioms Ymq.C19BM.bm_invariant_init
#print axioms Ymq.C19BM.bm_invariant
#print axioms Ymq.C19BM.bm_sound
#print axioms Ymq.C19BM.bm_big_sound
#print axioms Ymq.C19BM.bm_window_not_from_degree
#print axioms Ymq.C19BM.bm_degree_bound_tight
#print axioms Ymq.C19BM.bm_no_panic_iff
#print axioms Ymq.C19BM.bm_big_no_panic_iff
#print axioms Ymq.C19BM.bm_empty_iff
#print axioms Ymq.C19BM.bm_big_empty_iff
#print axioms Ymq.C19BM.bm_no_panic
#print axioms Ymq.C19BM.bm_big_no_panic
#print axioms Ymq.C19BM.bm_no_panic_recurrence
#print axioms Ymq.C19BM.bm_minimal
#print axioms Ymq.C19BM.bm_big_minimal
#print axioms Ymq.C19BM.bm_panic_empty
#print axioms Ymq.C19BM.bm_panic_single_term
#print axioms Ymq.C19BM.bm_panic_zero_constant_term
