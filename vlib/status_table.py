#!/usr/bin/env python3
"""Prints the markdown tables of DESIGN.md section 10 from evidence/*.json, known_findings.json and seeded/*/meta.json."""
import json, os, glob
ROOT = os.path.dirname(os.path.dirname(os.path.abspath(__file__)))

def main():
    print("| id | theorems (discharged/obligations) | named hypotheses | requests run | model=code agreed | oracle checked | tier / wall |")
    print("|---|---|---|---|---|---|---|")
    for f in sorted(glob.glob(os.path.join(ROOT, "evidence", "C*.json"))):
        e = json.load(open(f)); c = e["coverage"]
        print(f"| {e['property_id']} | {c.get('discharged')}/{c.get('obligations')} | {len(c.get('hypotheses_of_theorems', []))} | "
              f"{c.get('evaluations')} | {c.get('traces_validated_against_impl')} | {c.get('oracle_checked')} | {e['tier']} / {e['wall_s']} s |")
    kf = json.load(open(os.path.join(ROOT, "known_findings.json")))
    print("\n**Recorded findings (not repaired)**\n")
    for x in kf["findings"]:
        print(f"* {x['property']} `{x['key']}` — {x['what']}")
    print("\n**Repaired defects (`fix:` commits in /repo)**\n")
    for x in kf["fixed"]:
        print(f"* {x['what']}")
    print("\n**Seeded changes**\n")
    print("| seeded change | property | what it needs to manifest | verdict of the property's check | how it was caught |")
    print("|---|---|---|---|---|")
    for m in sorted(glob.glob(os.path.join(ROOT, "seeded", "*", "meta.json"))):
        d = json.load(open(m))
        print(f"| {os.path.basename(os.path.dirname(m))} | {d.get('property')} | {d.get('needs','')[:160]} | {d.get('verdict','?')} | {d.get('caught_by','')[:200]} |")

if __name__ == "__main__":
    main()
