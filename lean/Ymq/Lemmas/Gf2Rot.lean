/-
C14 helper lemmas, part 6 (core only): the rotation trick of `impl Mul<&Block> for &Block`
(`m[r] ^= x & y.rotate_right(r)`, `SmallMat::transpose`, `rotate_left`) computes the bilinear
product: `blockDotRot_eq`.
-/
import Ymq.Lemmas.Gf2Sparse
namespace Ymq.Gf2

theorem testBit_of_lt64 (y i : Nat) (hy : y < 2 ^ 64) (hi : 64 ≤ i) : y.testBit i = false :=
  Nat.testBit_lt_two_pow (Nat.lt_of_lt_of_le hy (Nat.pow_le_pow_right (by omega) hi))

theorem testBit_rotr64 (y r c : Nat) (hy : y < 2 ^ 64) (hr : r < 64) (hc : c < 64) :
    (rotr64 y r).testBit c = y.testBit ((c + r) % 64) := by
  unfold rotr64
  rw [Nat.testBit_mod_two_pow, Nat.testBit_or, Nat.testBit_shiftRight, Nat.testBit_shiftLeft,
    Nat.mod_eq_of_lt hr]
  simp only [hc, decide_true, Bool.true_and]
  by_cases h : c + r < 64
  · rw [Nat.mod_eq_of_lt h, Nat.add_comm r c]
    have : ¬ c ≥ 64 - r := by omega
    simp [this]
  · have h1 : (c + r) % 64 = c + r - 64 := by omega
    rw [h1, testBit_of_lt64 y (r + c) hy (by omega)]
    have : c ≥ 64 - r := by omega
    have h2 : c - (64 - r) = c + r - 64 := by omega
    simp [this, h2]

theorem testBit_rotl64 (y r c : Nat) (hy : y < 2 ^ 64) (hr : r < 64) (hc : c < 64) :
    (rotl64 y r).testBit c = y.testBit ((c + 64 - r) % 64) := by
  unfold rotl64
  rw [Nat.testBit_mod_two_pow, Nat.testBit_or, Nat.testBit_shiftRight, Nat.testBit_shiftLeft,
    Nat.mod_eq_of_lt hr]
  simp only [hc, decide_true, Bool.true_and]
  by_cases h : r ≤ c
  · have h1 : (c + 64 - r) % 64 = c - r := by omega
    rw [h1, testBit_of_lt64 y (64 - r + c) hy (by omega)]
    simp [h]
  · have h1 : (c + 64 - r) % 64 = c + 64 - r := by omega
    have h2 : 64 - r + c = c + 64 - r := by omega
    rw [h1, h2]
    simp [h]

theorem rotl64_lt (y r : Nat) : rotl64 y r < 2 ^ 64 := Nat.mod_lt _ (by decide)

theorem testBit_transposeRow_aux (g : Nat → Bool) (n t : Nat) (row : Nat) :
    ((List.range' 0 n).foldl (fun row j => if g j then row ||| (1 <<< j) else row) row).testBit t =
      (row.testBit t || (decide (t < n) && g t)) := by
  induction n generalizing row with
  | zero => simp
  | succ n ih =>
    rw [List.range'_concat, List.foldl_append, List.foldl_cons, List.foldl_nil]
    simp only [Nat.zero_add, Nat.one_mul]
    split
    · rename_i hb
      rw [Nat.testBit_or, ih, testBit_one_shiftLeft]
      by_cases htn : t = n
      · subst htn; simp [hb]
      · have : (n == t) = false := by simp; omega
        by_cases hlt : t < n
        · simp [hlt, this, show t < n + 1 by omega]
        · simp [hlt, this, show ¬ t < n + 1 by omega]
    · rename_i hb
      rw [ih]
      by_cases htn : t = n
      · subst htn; simp [hb]
      · by_cases hlt : t < n
        · simp [hlt, show t < n + 1 by omega]
        · simp [hlt, show ¬ t < n + 1 by omega]

theorem testBit_transposeW (m : List Nat) (i t : Nat) (hi : i < 64) :
    ((transposeW m).getD i 0).testBit t = (decide (t < 64) && (m.getD t 0).testBit i) := by
  have h : (transposeW m).getD i 0 =
      (List.range' 0 64).foldl (fun row j => if (fun j => (m.getD j 0).testBit i) j then row ||| (1 <<< j) else row) 0 := by
    unfold transposeW
    rw [List.getD_eq_getElem?_getD, List.getElem?_map, List.getElem?_range hi, List.range_eq_range']
    simp only [Option.map_some, Option.getD_some]
  rw [h, testBit_transposeRow_aux]
  simp

theorem testBit_foldl_and_rot (l : List (Nat × Nat)) (r c w : Nat) (hr : r < 64) (hc : c < 64)
    (hy : ∀ p ∈ l, p.2 < 2 ^ 64) :
    (l.foldl (fun acc p => acc ^^^ (p.1 &&& rotr64 p.2 r)) w).testBit c =
      (w.testBit c ^^ xsum (l.map (fun p => (p.1.testBit c && p.2.testBit ((c + r) % 64))))) := by
  induction l generalizing w with
  | nil => simp
  | cons p l ih =>
    simp only [List.foldl_cons, List.map_cons, xsum_cons]
    rw [ih _ (fun q hq => hy q (by simp [hq])), Nat.testBit_xor, Nat.testBit_and,
      testBit_rotr64 p.2 r c (hy p (by simp)) hr hc, Bool.xor_assoc]

theorem foldl_sel_lt (l : List (Nat × Nat)) (i w : Nat) (hw : w < 2 ^ 64) (hy : ∀ p ∈ l, p.2 < 2 ^ 64) :
    l.foldl (fun acc p => if p.1.testBit i then acc ^^^ p.2 else acc) w < 2 ^ 64 := by
  induction l generalizing w with
  | nil => simpa using hw
  | cons p l ih =>
    simp only [List.foldl_cons]
    apply ih _ _ (fun q hq => hy q (by simp [hq]))
    split
    · exact Nat.xor_lt_two_pow hw (hy p (by simp))
    · exact hw

/-- The rotation trick computes the bilinear product: on 64-bit words the word-level model of
`&Block * &Block` (rotations, transposition) equals its defining sum. -/
theorem blockDotRot_eq (x y : List Nat) (hy : ∀ w ∈ y, w < 2 ^ 64) : blockDotRot x y = blockDot x y := by
  unfold blockDotRot blockDot
  split
  · rename_i hlen
    dsimp only
    congr 1
    apply List.map_congr_left
    intro c hc
    have hc64 : c < 64 := by simpa using hc
    have hyz : ∀ p ∈ List.zip x y, p.2 < 2 ^ 64 := fun p hp => hy p.2 (List.of_mem_zip hp).2
    apply Nat.eq_of_testBit_eq
    intro j
    by_cases hj : j < 64
    · rw [testBit_rotl64 _ c j ?_ hc64 hj]
      · rw [testBit_transposeW _ c _ hc64]
        have hr : (j + 64 - c) % 64 < 64 := Nat.mod_lt _ (by decide)
        simp only [hr, decide_true, Bool.true_and]
        rw [List.getD_eq_getElem?_getD, List.getElem?_map, List.getElem?_range hr]
        simp only [Option.map_some, Option.getD_some]
        rw [testBit_foldl_and_rot _ _ c 0 hr hc64 hyz, testBit_foldl_sel]
        have : (c + (j + 64 - c) % 64) % 64 = j := by omega
        simp [this]
      · -- the transposed row is a 64-bit word
        apply Nat.lt_pow_two_of_testBit
        intro t ht
        rw [testBit_transposeW _ c _ hc64]
        simp [show ¬ t < 64 by omega]
    · rw [testBit_of_lt64 _ j (rotl64_lt _ _) (by omega),
        testBit_of_lt64 _ j (foldl_sel_lt _ c 0 (by decide) hyz) (by omega)]
  · rfl

end Ymq.Gf2
