/-
Model of the multiword Montgomery ring `ZmodN` (src/arith_montgomery.rs:73-431).

Conventions: see Ymq/Model/Mg64.lean and Ymq/Model/Limbs.lean.
* `MInt` (`[u64; 8]`) is a `List Nat` of length 8; `Uint` values (bnum `U1024`) are `Nat`s and
  the bnum operators used by the code (`%`, `*`, `<<`, `<`, `bits`, `digits`) are modelled as
  the mathematical operations on `Nat` (they are not verified here; see UNMODELLED in props/c07.py).
* `none` = the Rust code panics in the checked profile (`debug_assert!`, `assert!`, arithmetic
  overflow, index out of range, `unreachable!`). The release profile has no `debug_assert!` and
  wraps on overflow; the theorems in Props/C07 show that on the documented domain no such site is
  reached, so both profiles compute the same value there.
* Arrays that the Rust code slides an index `i` over (`z` in `_mint_mulmod`, `m` in `redc`) are
  represented by their *live window*: the words below index `i` are never read again by the
  code (they are zero after row `i`) and are dropped by the model; the words above the window that
  the code has not touched yet are kept (redc) or are known zeros that the model appends when the
  code writes them (mulmod). This is the only structural difference with the Rust text; every
  word that the code reads or returns is computed by the same sequence of word operations.
-/
import Ymq.Model.Limbs
import Ymq.Model.Mg64

namespace Ymq.ZmodN
open Ymq.Limbs

/-- `MINT_WORDS` -/
def MW : Nat := 8

/-- the context `ZmodN { n, ninv64, k, r, r2 }` -/
structure Ctx where
  n : Nat
  ninv : Nat
  k : Nat
  r : List Nat
  r2 : List Nat
deriving Repr

/-- `self.n.digits()` : the 16 words of the `U1024` -/
def Ctx.nd (c : Ctx) : List Nat := ofNat 16 c.n

/-- `MInt::from_uint` : the 8 low words (`copy_from_slice(&n.digits()[..8])`, silently truncating) -/
def fromUint (x : Nat) : List Nat := ofNat MW x

/-- `Uint::from(MInt)` -/
def toUint (m : List Nat) : Nat := val m

/-- `ZmodN::new(n)`. The loop computing `ninv64` is textually the loop of `mg_2adic_inv`
(Ymq.Mg64.mg2adicInv) applied to `n.digits()[0]`. -/
def new (n : Nat) : Option Ctx :=
  if n % 2 ≠ 1 then none                         -- assert!(n.bit(0))
  else if ¬ (n < 2 ^ (64 * MW)) then none        -- assert!(n.bits() <= 64 * MINT_WORDS)
  else
    let k := nwords n                            -- (n.bits() + 63) / 64
    let r := (2 ^ (32 * k) * 2 ^ (32 * k)) % n   -- (rsqrt * rsqrt) % n
    let r2 := (r * r) % n
    match Ymq.Mg64.mg2adicInv (n % W) with
    | none => none
    | some ninv => some { n := n, ninv := ninv, k := k, r := fromUint r, r2 := fromUint r2 }

/-- `mint_lt(x, n, sz)`: is `x < n`, where `x` is stored on at most `sz+1` words. -/
def mintLt (x n : List Nat) (sz : Nat) : Option Bool :=
  if ¬ allZero (x.drop (sz + 1)) then none       -- debug_assert!((sz+1..x.len()).all(|i| x[i] == 0))
  else if ¬ allZero (n.drop sz) then none        -- debug_assert!((sz..n.len()).all(|i| n[i] == 0))
  else if sz < x.length ∧ x.getD sz 0 > 0 then some false
  else some (ltWords (x.take sz) (n.take sz))

/-- `mint_add(x, y, sz)`: returns the new contents of `x`. -/
def mintAdd (x y : List Nat) (sz : Nat) : Option (List Nat) :=
  let r := addc (x.take sz) (y.take sz) 0
  if sz < x.length then
    let t := x.getD sz 0 + r.2                   -- x[sz] += carry
    if t ≥ W then none else some (r.1 ++ t :: x.drop (sz + 1))
  else if r.2 ≠ 0 then none                      -- debug_assert!(carry == 0)
  else some r.1

/-- `mint_sub(x, y, sz)` with `x : [u64; 8]`: returns the new contents of `x`. -/
def mintSub (x y : List Nat) (sz : Nat) : Option (List Nat) :=
  if val x < val (y.take MW) then none           -- debug_assert!(Uint::from(x) >= Uint::from(y[..8]))
  else
    let r := subc (x.take sz) (y.take sz) 1
    if sz < MW then
      if r.2 > 1 then none                       -- `1 - carry` underflows
      else if x.getD sz 0 ≠ 1 - r.2 then none    -- debug_assert!(x[sz] == 1 - carry)
      else some (r.1 ++ 0 :: x.drop (sz + 1))    -- x[sz] = 0
    else if r.2 ≠ 1 then none                    -- debug_assert!(carry == 1)
    else some r.1

/-- One iteration `i` of the outer loop of `_mint_mulmod`. `acc` is the window
`z[i ..= i+SIZE]` (`k+1` words); the result is the window `z[i+1 ..= i+1+SIZE]` of the next
iteration, whose top word is `c1 + c2` (the word the code stores in `z[i+SIZE+1]`, an untouched
zero word, when `i+1 < SIZE`, and whose non-zeroness is the `overflow` flag when `i+1 = SIZE`). -/
def mulRow (k ninv : Nat) (n y : List Nat) (xi : Nat) (acc : List Nat) : Option (List Nat) :=
  let r1 := macRow xi y (acc.take k) 0           -- z[i+j] += xi*y[j]
  let m := r1.1.headD 0 * ninv % W               -- z[i].wrapping_mul(ninv64)
  let r2 := macRow m n r1.1 0                    -- z[i+j] += m*n[j]
  if r2.1.headD 0 ≠ 0 then none                  -- debug_assert!(z[i] == 0)
  else
    let top := acc.getD k 0
    let zi := (top + r1.2) % W                   -- z[i+SIZE].overflowing_add(carry)
    let c1 := (top + r1.2) / W
    let zin := (zi + r2.2) % W                   -- zi.overflowing_add(carryn)
    let c2 := (zi + r2.2) / W
    some (r2.1.tail ++ [zin, c1 + c2])

/-- the outer loop of `_mint_mulmod` over the words of `x`; returns (`z[SIZE..2*SIZE]`, `overflow`). -/
def mulRows (k ninv : Nat) (n y : List Nat) : List Nat → List Nat → Option (List Nat × Bool)
  | [], _ => none                                -- SIZE = 0: `unreachable!`
  | [xi], acc =>
    match mulRow k ninv n y xi acc with
    | none => none
    | some a => some (a.take k, decide (a.getD k 0 ≠ 0))
  | xi :: xs, acc =>
    match mulRow k ninv n y xi acc with
    | none => none
    | some a => mulRows k ninv n y xs a

/-- `mint_mulmod(zn, res, x, y, sz)` with `res = [0; 8]`: returns `res`. -/
def mintMulmod (c : Ctx) (x y : List Nat) : Option (List Nat) :=
  let k := c.k
  if k = 0 ∨ k > MW then none                    -- `unreachable!("impossible")`
  else
    let nw := c.nd.take k
    match mulRows k c.ninv nw (y.take k) (x.take k) (zeros (k + 1)) with
    | none => none
    | some (res, overflow) =>
      if overflow then
        let r := addc res (compl nw) 1           -- add 2^(64k) - n = !n + 1
        if r.2 > 0 then
          if k < MW then some (r.1 ++ 1 :: zeros (MW - k - 1))   -- res[SIZE] = 1
          else none                              -- res[8]: index out of bounds
        else some (r.1 ++ zeros (MW - k))
      else some (res ++ zeros (MW - k))

/-- `if !mint_lt(m, n, k) { mint_sub(m, n, k) }` -/
def condSub (c : Ctx) (m : List Nat) : Option (List Nat) :=
  match mintLt m c.nd c.k with
  | none => none
  | some true => some m
  | some false => mintSub m c.nd c.k

/-- `ZmodN::mul(x, y)` -/
def mul (c : Ctx) (x y : List Nat) : Option (List Nat) :=
  if ¬ (toUint x < c.n) then none                -- debug_assert!
  else if ¬ (toUint y < c.n) then none           -- debug_assert!
  else
    match mintMulmod c x y with
    | none => none
    | some m =>
      match condSub c m with
      | none => none
      | some m => if ¬ (toUint m < c.n) then none else some m

/-- `ZmodN::add(x, y)` -/
def add (c : Ctx) (x y : List Nat) : Option (List Nat) :=
  if ¬ (toUint x < c.n) then none
  else if ¬ (toUint y < c.n) then none
  else
    match mintAdd x y c.k with
    | none => none
    | some m =>
      match condSub c m with
      | none => none
      | some m => if ¬ (toUint m < c.n) then none else some m

/-- `ZmodN::sub(x, y)` -/
def sub (c : Ctx) (x y : List Nat) : Option (List Nat) :=
  if ¬ (toUint x < c.n) then none
  else if ¬ (toUint y < c.n) then none
  else
    match mintLt x y c.k with
    | none => none
    | some lt =>
      match (if lt then mintAdd x c.nd c.k else some x) with
      | none => none
      | some s =>
        match mintSub s y c.k with
        | none => none
        | some s => if ¬ (toUint s < c.n) then none else some s

/-- One iteration `i` of the outer loop of `redc`. `s` is the live suffix `m[i..]`; the result is
`m[i+1..]`. The `k` low words receive `m_ninv * n`, the row carry is added into `m[i+k]` and
rippled upwards; `none` = `assert!(idx < m.len())`. -/
def redcRow (k ninv : Nat) (n : List Nat) (s : List Nat) : Option (List Nat) :=
  let mninv := s.headD 0 * ninv % W              -- m[i].wrapping_mul(ninv64)
  let r := macRow mninv n (s.take k) 0
  match addWord (s.drop k) r.2 with
  | none => none
  | some hi => some (r.1.tail ++ hi)

def redcRows (k ninv : Nat) (n : List Nat) : Nat → List Nat → Option (List Nat)
  | 0, s => some s
  | i + 1, s =>
    match redcRow k ninv n s with
    | none => none
    | some s' => redcRows k ninv n i s'

/-- `ZmodN::redc(x)` with `x : [u64; 16]` -/
def redc (c : Ctx) (x : List Nat) : Option (List Nat) :=
  if ¬ (val x < c.n * 2 ^ (64 * c.k)) then none  -- debug_assert!(x < n << 64k)
  else
    match redcRows c.k c.ninv (c.nd.take c.k) c.k x with
    | none => none
    | some s => condSub c (s.take MW)            -- m[sz..sz+8]

/-- `ZmodN::from_int(x)` -/
def fromInt (c : Ctx) (x : Nat) : Option (List Nat) := mul c (fromUint x) c.r2

/-- `ZmodN::to_int(x)` -/
def toInt (c : Ctx) (x : List Nat) : Option Nat :=
  (redc c (x ++ zeros MW)).map toUint

/-- `ZmodN::redc_large(x)` for a slice `x` -/
def redcLarge (c : Ctx) (x : List Nat) : Option (List Nat) :=
  if ¬ (x.length < 3 * MW) then none             -- debug_assert!(x.len() < 24)
  else if x.length < c.k then none               -- x[i], i < k: index out of bounds
  else if x.length - c.k > 2 * MW then none      -- xhi[i - k]: index out of bounds
  else
    let xlo := x.take c.k ++ zeros (2 * MW - c.k)
    let xhi := x.drop c.k ++ zeros (2 * MW - (x.length - c.k))
    match redc c xlo, redc c xhi with
    | some m, some mhi =>
      match mul c mhi c.r2 with
      | none => none
      | some t => add c m t
    | _, _ => none

/-- Reference modular inverse used by the driver for `arith_gcd::inv_mod(x, n)` (property C09):
the `i < n` with `i·x ≡ 1 (mod n)` if it exists. Extended Euclid on `Int`, fuel = 2·log₂ bound. -/
def xgcdAux : Nat → Int → Int → Int → Int → Int × Int
  | 0, a, _, u, _ => (a, u)
  | f + 1, a, b, u, v => if b = 0 then (a, u) else xgcdAux f b (a % b) v (u - (a / b) * v)

def invModRef (x n : Nat) : Option Nat :=
  let r := xgcdAux 4000 (x : Int) (n : Int) 1 0   -- r.1 = gcd, r.2 * x ≡ gcd (mod n)
  if r.1 = 1 ∧ n > 1 then some (r.2 % (n : Int)).toNat else none

/-- `ZmodN::inv(x)`; `invmod x n` stands for `arith_gcd::inv_mod(&x, &n).ok()` (C09).
Outer `Option`: panic; inner `Option`: the Rust return value. -/
def inv (invmod : Nat → Nat → Option Nat) (c : Ctx) (x : List Nat) : Option (Option (List Nat)) :=
  match invmod (val x) c.n with
  | none => some none
  | some i =>
    match fromInt c i with
    | none => none
    | some im =>
      match mul c im c.r2 with
      | none => none
      | some r => some (some r)

/-- `ZmodN::gcd(x)`: `arith_gcd::big_gcd(n, x)` (C09) is modelled as `Nat.gcd`. -/
def gcd (c : Ctx) (x : List Nat) : Nat := Nat.gcd c.n (val x)

end Ymq.ZmodN
