/-
C09 — multiprecision gcd and modular inverse are exact, with valid Bezout cofactors.
Only property theorems live here (helper lemmas: Ymq/Lemmas/Gcd*.lean).
The model (Ymq/Model/Gcd.lean) returns `none` wherever the real code panics in the checked
profile (overflow of i64 / BUint / BInt arithmetic, index out of range, assertion) or where the
fuel of a loop runs out.
-/
import Ymq.Lemmas.GcdLoop
import Ymq.Lemmas.GcdReduceInv
import Ymq.Lemmas.GcdTerm

namespace Ymq.C09
open Ymq.Gcd

/-- a unimodular integer matrix applied to `(x, y)` preserves the gcd (one Lehmer step, one
quotient step: every step of `gcd_internal` has this shape). -/
theorem step_gcd (a b c d : Int) (x y : Nat) (hdet : a * d - b * c = 1 ∨ a * d - b * c = -1) :
    Nat.gcd (a * x + b * y).natAbs (c * x + d * y).natAbs = Nat.gcd x y :=
  nat_gcd_unimodular a b c d x y hdet

example : (2 : Int) * 3 - 5 * 1 = 1 ∧
    Nat.gcd ((2 : Int) * (12 : Nat) + 5 * (18 : Nat)).natAbs ((1 : Int) * (12 : Nat) + 3 * (18 : Nat)).natAbs
      = Nat.gcd 12 18 := by decide

/-- `reduce64(x, y)` for **all** pairs of 64-bit words (no precondition is needed): no panic (no i64
overflow, no failing debug assertion, the loop ends within 70 iterations), the returned matrix
satisfies `a x + b y = u`, `c x + d y = v` for the final `(u, v)` of the loop, which are not larger
than the inputs, `a d - b c = ±1`, and every entry is bounded by `2^36` in absolute value (the
code's debug assertions; in fact the bound is strict). -/
theorem reduce64_inv (x y : Nat) (hx : x < 2 ^ 64) (hy : y < 2 ^ 64) :
    ∃ (a b c d : Int) (u v : Nat), reduce64 x y = some (a, b, c, d) ∧
      a * x + b * y = u ∧ c * x + d * y = v ∧ u ≤ max x y ∧ v ≤ max x y ∧
      (a * d - b * c = 1 ∨ a * d - b * c = -1) ∧
      a.natAbs ≤ 2 ^ 36 ∧ b.natAbs ≤ 2 ^ 36 ∧ c.natAbs ≤ 2 ^ 36 ∧ d.natAbs ≤ 2 ^ 36 := by
  obtain ⟨a, b, c, d, u, v, hr, hinv, _⟩ := reduce64_spec x y (by rw [W_eq]; exact hx) (by rw [W_eq]; exact hy)
  refine ⟨a, b, c, d, u, v, hr, hinv.relu, hinv.relv, ?_, ?_, hinv.det, ?_, ?_, ?_, ?_⟩
  · rcases hinv.phase with ⟨_, _, _, _, rfl, rfl⟩ | ⟨_, _, _, _, rfl, rfl, _⟩ | ⟨h1, h2⟩ <;> omega
  · rcases hinv.phase with ⟨_, _, _, _, rfl, rfl⟩ | ⟨_, _, _, _, rfl, rfl, _⟩ | ⟨h1, h2⟩ <;> omega
  all_goals
    first
    | (have h := hinv.ba; rw [Int.abs_eq_natAbs] at h; omega)
    | (have h := hinv.bb; rw [Int.abs_eq_natAbs] at h; omega)
    | (have h := hinv.bc; rw [Int.abs_eq_natAbs] at h; omega)
    | (have h := hinv.bd; rw [Int.abs_eq_natAbs] at h; omega)

example : reduce64 18446744073709551615 12345678901234567 =
    some (-3133215, 4681606876, 11521471, -17215223933) := by decide +kernel

/-- `gcd_internal::<N, EXT>` (partial correctness, all operands, every fuel): whenever the loop
returns, `d = gcd(n, p)` and, in the extended variant, `u*n + v*p = d` over the integers.
No bound on the operands is needed: every arithmetic overflow is a panic site of the model, and the
only silent wrap (`BInt::cast_from(q)` of a quotient `>= 2^(64N-1)`) can only happen when `y = 1`,
where the wrapped row has value 0 and is never used. -/
theorem gcd_internal_spec (N : Nat) (hN : 0 < N) (ext : Bool) (fuel n p d : Nat) (u v : Int)
    (h : gcdLoop N ext fuel (initSt n p) = some (d, u, v)) :
    d = Nat.gcd n p ∧ (ext = true → u * n + v * p = d) :=
  gcdLoop_spec hN fuel _ d u v h (GInv_init ext n p)

example : gcdLoop 16 true 10 (initSt 1234567890123456789012345678901234567890
      9876543210987654321098765432109876543210) = some (90000000009000000000900000000090, -8, 1) := by
  decide +kernel

/-- termination of `gcd_internal` with an explicit fuel bound: for operands that are values of
`BUint<N>`, running the loop with more than `3 (bits n + bits p) + 1` units of fuel gives the same
result as running it with exactly that much — so with that fuel (and with the fuel
`gcdFuel N = 384 N + 3` used by `gcdInternal`, which is larger) the model never returns `none` for
lack of fuel: `none` can only be a panic site. Reason: every iteration that continues shrinks the
product `x * y` by a factor `3/4` at least (quotient steps: `1/2`; Lehmer steps: analysis of
`reduce64` on the top words). -/
theorem gcd_terminates (N : Nat) (ext : Bool) (n p : Nat) (hn : n < 2 ^ (64 * N)) (hp : p < 2 ^ (64 * N))
    (f : Nat) (hf : 3 * (bits n + bits p) + 1 ≤ f) :
    gcdLoop N ext f (initSt n p) = gcdLoop N ext (3 * (bits n + bits p) + 1) (initSt n p) ∧
    3 * (bits n + bits p) + 1 ≤ gcdFuel N :=
  ⟨gcdLoop_fuel hn hp f hf, gcdFuel_ge hn hp⟩

example : (12345678901234567890 : Nat) < 2 ^ (64 * 4) ∧ 3 * (bits 12345678901234567890 + bits 987654321) + 1 = 283 ∧
    gcdFuel 4 = 1539 := by decide +kernel

/-- `big_gcd::<N>` returns the gcd (including zero operands) whenever it returns. -/
theorem big_gcd_spec (N : Nat) (hN : 0 < N) (n p d : Nat) (h : bigGcd N n p = some d) :
    d = Nat.gcd n p := by
  unfold bigGcd at h
  split at h
  · rename_i hp; simp at h; subst h; subst hp; simp
  · split at h
    · rename_i hn; simp at h; subst h; subst hn; simp
    · split at h
      · simp at h
      · rename_i d' u v hg
        simp at h; subst h
        exact (gcd_internal_spec N hN false _ n p _ u v hg).1

example : bigGcd 8 (2 ^ 300 * 3) (2 ^ 200 * 9) = some (2 ^ 200 * 3) := by decide +kernel

/-- `inv_mod::<N>(n, p)`, modulus `p >= 2`: `Ok(x)` is the reduced inverse, `Err(d)` is the
non-trivial gcd (for `n = 0` the gcd is `p`).
Partial: the modulus `p = 1` is excluded (the reduced inverse must then be `0`, which needs the
sign of the cofactor produced by the loop; see `inv_mod_spec`). -/
theorem inv_mod_spec_partial (N : Nat) (hN : 0 < N) (n p : Nat) (hp : 2 ≤ p) (r : InvRes)
    (h : invMod N n p = some r) :
    match r with
    | .ok x => x < p ∧ n * x % p = 1
    | .err d => d = Nat.gcd n p ∧ d ≠ 1 := by
  unfold invMod at h
  split at h
  · simp at h
  · split at h
    · rename_i hn
      have hp1 : p ≠ 1 := by omega
      simp [hp1] at h; subst h; subst hn
      simp; omega
    · split at h
      · simp at h
      · rename_i d u v hg
        obtain ⟨hd, hb⟩ := gcd_internal_spec N hN true _ n p d u v hg
        have hb := hb rfl
        split at h
        · rename_i hd1
          simp at h; subst h
          exact ⟨hd, hd1⟩
        · rename_i hd1
          have hd1 : d = 1 := by omega
          rw [hd1] at hb
          have hpz : (p : Int) ≠ 0 := by omega
          -- n * u ≡ 1 (mod p)
          have hmod : (n : Int) * u % p = 1 % p := by
            have : (n : Int) * u = 1 + p * (-v) := by push_cast at hb; linarith
            rw [this, Int.add_mul_emod_self_left]
          have h1p : (1 : Int) % p = 1 := Int.emod_eq_of_lt (by omega) (by omega)
          split at h
          · rename_i hneg
            split at h
            · simp at h
            · rename_i ua hua
              simp at h; subst h
              have hua' := (chkB_some hua).1
              subst hua'
              -- p does not divide u
              have hnd : (-u).toNat % p ≠ 0 := by
                intro h0
                have hdvd : (p : Int) ∣ u := by
                  have : p ∣ (-u).toNat := Nat.dvd_of_mod_eq_zero h0
                  have h2 : (p : Int) ∣ ((-u).toNat : Int) := Int.natCast_dvd_natCast.2 this
                  have h3 : ((-u).toNat : Int) = -u := by omega
                  rw [h3] at h2; exact (Int.dvd_neg.1 h2)
                have : (n : Int) * u % p = 0 := Int.emod_eq_zero_of_dvd (Dvd.dvd.mul_left hdvd _)
                rw [this] at hmod; omega
              have hlt : (-u).toNat % p < p := Nat.mod_lt _ (by omega)
              refine ⟨by omega, ?_⟩
              have hx : ((p - (-u).toNat % p : Nat) : Int) = p - (-u) % p := by
                have h3 : ((-u).toNat : Int) = -u := by omega
                rw [Nat.cast_sub (Nat.le_of_lt hlt)]; push_cast; rw [h3]
              have key : ((n * (p - (-u).toNat % p) : Nat) : Int) % p = 1 := by
                push_cast; rw [hx]
                have e : (n : Int) * (p - -u % p) = n * u + p * (n * (1 + (-u) / p)) := by
                  have := Int.emod_add_mul_ediv (-u) p
                  linear_combination (-(n : Int)) * this
                rw [e, Int.add_mul_emod_self_left, hmod, h1p]
              exact_mod_cast key
          · rename_i hneg
            simp at h; subst h
            have hu : (u.toNat : Int) = u := by omega
            refine ⟨Nat.mod_lt _ (by omega), ?_⟩
            have key : ((n * (u.toNat % p) : Nat) : Int) % p = 1 := by
              push_cast; rw [hu, Int.mul_emod, Int.emod_emod_of_dvd _ (dvd_refl _), ← Int.mul_emod, hmod, h1p]
            exact_mod_cast key

example : invMod 8 3 7 = some (.ok 5) ∧ invMod 8 6 9 = some (.err 3) ∧ invMod 8 0 9 = some (.err 9) := by
  decide +kernel

end Ymq.C09
