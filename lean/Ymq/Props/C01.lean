/-
C01 — a returned factorization always multiplies back to the input.
Only property theorems live here (helper lemmas: Ymq/Lemmas/Factor*.lean).

Model: Ymq/Model/Factor.lean (`factor`, `factorImpl`, `checkFactors` = src/lib.rs `factor`,
`factor_impl`, `check_factors`), every sub-algorithm a field of a stateful `Oracle σ`.
`OracleOK` (Ymq/Lemmas/FactorOracle.lean) is the contract of the sub-algorithms.
-/
import Ymq.Lemmas.FactorExample

namespace Ymq.C01
open Ymq.Factor

variable {σ : Type}

/-- For ANY behaviour of the sub-algorithms (arbitrary stateful oracle, any fuel, any selector,
any `n`, no size bound): a returned list never contains 1. Structural: `factor_impl` returns at
once on 1, and no push site can push 1 (`n` itself, `f / g` with `g ≠ f`, `g` with `g ≠ 1`,
trial primes). -/
theorem factor_no_one (o : Oracle σ) (fuel n : Nat) (alg : Algo) (os : σ) (l : List Nat)
    (h : factor o fuel n alg os = .ok l) : 1 ∉ l := by
  rcases factor_ok h with ⟨_, rfl⟩ | ⟨_, s', hrun, rfl, _⟩
  · simp
  · intro h1
    have h1' : 1 ∈ s'.factors := (sortNat_perm _).mem_iff.mp h1
    obtain ⟨new, gnew, hf, _, _, hone⟩ := factorImpl_ext o alg _ _ _ _ hrun
    rw [hf] at h1'
    rcases List.mem_append.mp h1' with h2 | h2
    · have := smallPrimes_ge_two 1 ((trialDiv_spec n).2 1 h2)
      omega
    · exact hone h2

/-- For ANY behaviour of the sub-algorithms (arbitrary stateful oracle, any fuel, any selector):
a returned list is sorted, its product is `n` modulo the 1024-bit word size of `Uint`
(hence exactly `n` whenever the true product stays below 2^1024), `0 ↦ [0]`, `1 ↦ []`, and a
list returned for `n ≥ 2` contains neither `0` nor `1`. -/
theorem factor_sound (o : Oracle σ) (fuel n : Nat) (alg : Algo) (os : σ) (l : List Nat)
    (hn : n < U) (h : factor o fuel n alg os = .ok l) :
    l.prod % U = n ∧ l.Pairwise (· ≤ ·) ∧ (n = 0 → l = [0]) ∧ (n = 1 → l = []) ∧
      (1 ≤ n → ∀ x ∈ l, 2 ≤ x) := by
  have hone := factor_no_one o fuel n alg os l h
  rcases factor_ok h with ⟨rfl, rfl⟩ | ⟨h0, s', hrun, rfl, hprod⟩
  · exact ⟨by simp, by simp, fun _ => rfl, fun h => by omega, fun h => by omega⟩
  · have hnU : n % U = n := Nat.mod_eq_of_lt hn
    have hzero : 0 ∉ sortNat s'.factors := by
      intro hmem
      have : (sortNat s'.factors).prod = 0 := prod_zero_of_mem _ hmem
      rw [sortNat_prod] at this
      rw [this, hnU] at hprod
      simp at hprod; exact h0 hprod
    refine ⟨by rw [sortNat_prod, ← hprod, hnU], sortNat_sorted _, fun h => absurd h h0, ?_, ?_⟩
    · intro h1
      subst h1
      rw [factorRun_one hrun]
      rfl
    · intro _ x hx
      have hx0 : x ≠ 0 := fun h => hzero (h ▸ hx)
      have hx1 : x ≠ 1 := fun h => hone (h ▸ hx)
      omega

/-- **`retain_residue_one`** (lib.rs:513-522): when all current factors are positive and the
sieve divisor `d` divides their product, the residue after the `retain` pass is 1 — so
`assert!(residue.is_one())` holds — and no `residue /= gcd` divides by zero.
Key fact: `r ∣ f·m → r / gcd(f, r) ∣ m`. -/
theorem retain_residue_one (facs : List Nat) (d : Nat) (hpos : ∀ f ∈ facs, 0 < f)
    (hd : d ∣ facs.prod) : (retainPass facs d).2.2 = 1 ∧ retainDivZero facs d = false :=
  retainPass_residue_one facs d hpos hd

/-- **`combineDiv_prod`** (lib.rs:509-535), for ANY `d`: a combination step that does not panic
keeps the product of `facs`, and keeps all elements `≥ 2`. -/
theorem combineDiv_prod (facs facs' : List Nat) (d : Nat) (h : combineDiv facs d = .ok facs') :
    facs'.prod = facs.prod ∧ ((∀ f ∈ facs, 2 ≤ f) → ∀ f ∈ facs', 2 ≤ f) := by
  obtain ⟨hp, hm⟩ := combineDiv_ok h
  refine ⟨hp, ?_⟩
  intro h2 x hx
  obtain ⟨f, hf, hdvd, hone⟩ := hm x hx
  have hf2 := h2 f hf
  have hx0 : 0 < x := Nat.pos_of_dvd_of_pos hdvd (by omega)
  have hx1 : x ≠ 1 := fun h => by have := hone h; omega
  omega

/-- **`combineDiv_no_panic`**: with factors `≥ 1` and `d` a divisor of their product the step
succeeds (neither the division by the gcd nor `assert!(residue.is_one())` can fail). -/
theorem combineDiv_no_panic (facs : List Nat) (d : Nat) (hpos : ∀ f ∈ facs, 0 < f)
    (hd : d ∣ facs.prod) : ∃ facs', combineDiv facs d = .ok facs' :=
  Ymq.Factor.combineDiv_no_panic facs d hpos hd

/-- **`factorImpl_prod`**: under the oracle contract, a successful `factor_impl(n)` (`n ≥ 1`)
appends to the vector a block whose product is exactly `n`; every appended element is `≥ 2` and
divides `n`. In particular the product of the vector is multiplied by `n`. -/
theorem factorImpl_prod (o : Oracle σ) (hok : OracleOK o) (fuel n : Nat) (alg : Algo)
    (s s' : St σ) (hn : 1 ≤ n) (h : factorImpl o fuel n alg s = .ok s') :
    ∃ new, s'.factors = s.factors ++ new ∧ new.prod = n ∧ (∀ x ∈ new, 2 ≤ x ∧ x ∣ n) ∧
      s'.factors.prod = s.factors.prod * n := by
  obtain ⟨new, hf, hp⟩ := factorImpl_mul hok alg fuel n s s' hn h
  obtain ⟨new', _, hf', _, _, hone⟩ := factorImpl_ext o alg fuel n s s' h
  have : new' = new := List.append_cancel_left (hf'.symm.trans hf)
  subst this
  refine ⟨new', hf, hp, ?_, by rw [hf, List.prod_append, hp]⟩
  intro x hx
  have hd : x ∣ n := hp ▸ List.dvd_prod hx
  have hx0 : 0 < x := Nat.pos_of_dvd_of_pos hd (by omega)
  have hx1 : x ≠ 1 := fun h => hone (h ▸ hx)
  exact ⟨by omega, hd⟩

/-- **`factor_exact`**: under the oracle contract (any `prime`, any `abort`, any fuel, any
selector, any `n` — no wrap-around can occur because the invariant is exact): a returned list
multiplies to exactly `n`, is sorted, and every element divides `n` and is `≥ 2` (for `n ≥ 1`). -/
theorem factor_exact (o : Oracle σ) (hok : OracleOK o) (fuel n : Nat) (alg : Algo) (os : σ)
    (l : List Nat) (h : factor o fuel n alg os = .ok l) :
    l.prod = n ∧ l.Pairwise (· ≤ ·) ∧ ∀ x ∈ l, x ∣ n ∧ (1 ≤ n → 2 ≤ x) := by
  rcases factor_ok h with ⟨rfl, rfl⟩ | ⟨h0, s', hrun, rfl, _⟩
  · exact ⟨by simp, by simp, by simp⟩
  · obtain ⟨new, hf, hp, hnew, _⟩ :=
      factorImpl_prod o hok fuel _ alg _ s' (trialDiv_cofactor_pos h0) hrun
    obtain ⟨hspec, hsmall⟩ := trialDiv_spec n
    have hprod : s'.factors.prod = n := by
      rw [hf, List.prod_append, hp]; exact hspec
    refine ⟨by rw [sortNat_prod, hprod], sortNat_sorted _, ?_⟩
    intro x hx
    have hx' : x ∈ s'.factors := (sortNat_perm _).mem_iff.mp hx
    refine ⟨hprod ▸ List.dvd_prod hx', fun _ => ?_⟩
    rw [hf] at hx'
    rcases List.mem_append.mp hx' with h2 | h2
    · exact smallPrimes_ge_two x (hsmall x h2)
    · exact (hnew x h2).1

/-! ### non-vacuity -/

open Ymq.Factor.Toy

/-- n = 2²·211·223 through the SIQS arm (sieve divisor 211, combination loop, final loop) -/
example : factor toy 5 188212 .siqs () = .ok [2, 2, 211, 223] := by decide +kernel

example : [2, 2, 211, 223].prod = 188212 ∧ [2, 2, 211, 223].Pairwise (· ≤ ·) ∧
    ∀ x ∈ [2, 2, 211, 223], x ∣ 188212 ∧ (1 ≤ 188212 → 2 ≤ x) :=
  factor_exact toy toy_ok 5 188212 .siqs () _ (by decide +kernel)

example : 1 ∉ [2, 2, 211, 223] :=
  factor_no_one toy 5 188212 .auto () _ (by decide +kernel)

example : [2, 2, 211, 223].prod % U = 188212 :=
  (factor_sound toy 5 188212 .ecm () [2, 2, 211, 223]
    (lt_U_of_lt_two_pow (k := 18) (by decide) (by decide))
    (by decide +kernel)).1

example : (retainPass [47053] 211).2.2 = 1 ∧ retainDivZero [47053] 211 = false :=
  retain_residue_one [47053] 211 (by decide) (by decide)

example : combineDiv [47053] 211 = .ok [223, 211] := by decide +kernel

example : ∃ new, (initSt () [2, 2]).factors ++ new = [2, 2, 211, 223] ∧ new.prod = 47053 :=
  ⟨[211, 223], by decide, by decide⟩

end Ymq.C01
