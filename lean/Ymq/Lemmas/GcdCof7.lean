/- Cofactor bound for the extended variant with the real cofactor width (`K = N`), SHARP: for
operands below `2^(64N-7)` every `BInt<N>` intermediate stays below `2^(64N-1)` (a pair of `64N-6`-bit
operands overflows: `no_panic_ext_domain_sharp`).
Same structure as Ymq/Lemmas/GcdCof.lean (invariant for the state after the swap, `y <= x`: the
cofactors of the larger value times the smaller value are at most `c * max(n, p)`), with `c = 121`
instead of `1023`, every cofactor at most `63 * max(n, p) + 1` and every intermediate at most
`64 * max(n, p) + 1`. What makes this possible:
* `reduce64_rowprod` (the products of the entries of the first row by those of the second row of the
  Lehmer matrix are at most `(11/12) * 2^70`): the error term of a Lehmer step is `m * E / xtop <= 118`,
  so `c = 121` is enough;
* `egcdI64_total2`: the cofactors of the final i64 `extended_gcd` are at most half the operands, so
  the products of the `<64`-bit exit are at most `(c + 1) / 2 * max(n, p)`; their sum is bounded
  through the determinant identity (`x * (ex*A + ey*C) = A * g -+ ey * p`);
* in a quotient step `|q*C| * y <= x * |C|` (floor; `y = 1` apart) and `2 (q+1) y <= 3 x`, `y >= 3`
  (ceiling). -/
import Ymq.Lemmas.GcdCof
import Ymq.Lemmas.GcdRow2
import Ymq.Lemmas.GcdEgcd2

namespace Ymq.Gcd.T7
open Ymq.Gcd

/-- arithmetic core of the cofactor invariant across a Lehmer step, constant 121: `w` is the new
smaller value (`r2`, error `Ew = 2^36`, multiplier `m = |b| < 2^34`; or `r1` when the rows are
swapped, error `Ew = 2^34`, multiplier `m = |d| < 2^36`) -/
theorem lehmer_Z2 {x y r1 r2 w xtop ytop xl yl K u v m Ew : Nat}
    (hx : x = xtop * K + xl) (hy : y = ytop * K + yl)
    (hr1 : r1 < (u + 68719476736) * K) (hr2 : r2 < (v + 68719476736) * K)
    (hw : w < (u + Ew) * K)
    (hmeas : 4 * (r1 * r2) ≤ 3 * (x * y))
    (hvu : 2 * v ≤ u) (h63 : 9223372036854775808 ≤ xtop) (h64 : xtop < 18446744073709551616)
    (h32 : 4294967296 ≤ ytop) (hmu : m * u ≤ 2 * xtop) (hE : Ew ≤ 68719476736)
    (hmE : 3 * (m * Ew) ≤ 3246626956972881084416) :
    121 * (r1 * r2) + m * y * w ≤ 121 * (x * y) := by
  have hxK : xtop * K ≤ x := by omega
  have hyK : ytop * K ≤ y := by omega
  have hw' : m * w ≤ m * ((u + Ew) * K) := Nat.mul_le_mul_left m (Nat.le_of_lt hw)
  have e1 : m * ((u + Ew) * K) = (m * u + m * Ew) * K := by ring
  by_cases hcase : 17179869184 ≤ u
  · -- small matrix
    have hm : m < 2147483648 := by
      by_contra hge
      have hge : 2147483648 ≤ m := by omega
      have : 2147483648 * 17179869184 ≤ m * u := Nat.mul_le_mul hge hcase
      have e : 2147483648 * 17179869184 = 36893488147419103232 := by norm_num
      omega
    have hmE' : m * Ew ≤ 16 * xtop := by
      calc m * Ew ≤ 2147483648 * 68719476736 := Nat.mul_le_mul (Nat.le_of_lt hm) hE
        _ = 16 * 9223372036854775808 := by norm_num
        _ ≤ 16 * xtop := Nat.mul_le_mul_left _ h63
    have h1 : m * w ≤ 18 * x := by
      calc m * w ≤ (m * u + m * Ew) * K := by rw [← e1]; exact hw'
        _ ≤ (18 * xtop) * K := Nat.mul_le_mul_right _ (by omega)
        _ = 18 * (xtop * K) := by ring
        _ ≤ 18 * x := Nat.mul_le_mul_left _ hxK
    have h2 : m * y * w ≤ 18 * (x * y) := by
      calc m * y * w = y * (m * w) := by ring
        _ ≤ y * (18 * x) := Nat.mul_le_mul_left _ h1
        _ = 18 * (x * y) := by ring
    omega
  · -- large matrix: u is small, the product of the new operands is negligible
    have hmE' : m * Ew ≤ 118 * xtop := by
      have : 118 * 9223372036854775808 ≤ 118 * xtop := Nat.mul_le_mul_left _ h63
      omega
    have h1 : m * w ≤ 120 * x := by
      calc m * w ≤ (m * u + m * Ew) * K := by rw [← e1]; exact hw'
        _ ≤ (120 * xtop) * K := Nat.mul_le_mul_right _ (by omega)
        _ = 120 * (xtop * K) := by ring
        _ ≤ 120 * x := Nat.mul_le_mul_left _ hxK
    have h2 : m * y * w ≤ 120 * (x * y) := by
      calc m * y * w = y * (m * w) := by ring
        _ ≤ y * (120 * x) := Nat.mul_le_mul_left _ h1
        _ = 120 * (x * y) := by ring
    have hx1' : r1 ≤ 137438953472 * K := by
      calc r1 ≤ (u + 68719476736) * K := Nat.le_of_lt hr1
        _ ≤ 137438953472 * K := Nat.mul_le_mul_right _ (by omega)
    have hy1'' : r2 ≤ 137438953472 * K := by
      calc r2 ≤ (v + 68719476736) * K := Nat.le_of_lt hr2
        _ ≤ 137438953472 * K := Nat.mul_le_mul_right _ (by omega)
    have h3 : r1 * r2 ≤ 18889465931478580854784 * (K * K) := by
      calc r1 * r2 ≤ (137438953472 * K) * (137438953472 * K) := Nat.mul_le_mul hx1' hy1''
        _ = 18889465931478580854784 * (K * K) := by ring
    have h4 : 39614081257132168796771975168 * (K * K) ≤ x * y := by
      calc 39614081257132168796771975168 * (K * K)
          = (9223372036854775808 * K) * (4294967296 * K) := by ring
        _ ≤ (xtop * K) * (ytop * K) :=
            Nat.mul_le_mul (Nat.mul_le_mul_right _ h63) (Nat.mul_le_mul_right _ h32)
        _ ≤ x * y := Nat.mul_le_mul hxK hyK
    generalize K * K = KK at *
    generalize r1 * r2 = XY1 at *
    generalize x * y = XY at *
    omega


/-- invariant of the extended loop with the real cofactor width, for a state with `y <= x` -/
structure CInv (N n p P : Nat) (s : St) : Prop where
  xrel : (s.x : Int) = s.A * n + s.B * p
  yrel : (s.y : Int) = s.C * n + s.D * p
  det : s.A * s.D - s.B * s.C = 1 ∨ s.A * s.D - s.B * s.C = -1
  hyx : s.y ≤ s.x
  hxM : s.x < M N / 2
  zA : |s.A| * s.y ≤ 121 * P
  zB : |s.B| * s.y ≤ 121 * P
  cA : |s.A| ≤ 63 * P + 1
  cB : |s.B| ≤ 63 * P + 1
  cC : |s.C| ≤ 63 * P + 1
  cD : |s.D| ≤ 63 * P + 1

/-- the domain: `max(n, p) <= P < 2^(64N-7)` -/
structure Dom (N n p P : Nat) : Prop where
  hn : n ≤ P
  hp : p ≤ P
  hP : 64 * P + 64 ≤ M N / 2

theorem Dom.L {N n p P : Nat} (h : Dom N n p P) :
    (64 * (P : Int) + 64) ≤ ((M N / 2 : Nat) : Int) := by exact_mod_cast h.hP

/-- the second row is controlled by the first: `x |C| <= |A| y + p`, `x |D| <= |B| y + n` -/
theorem CInv.row2 {N n p P : Nat} {s : St} (h : CInv N n p P s) :
    (s.x : Int) * |s.C| ≤ |s.A| * s.y + p ∧ (s.x : Int) * |s.D| ≤ |s.B| * s.y + n := by
  have := cof_abs_bound (a := 0) (b := 1) h.xrel h.yrel h.det (Int.natCast_nonneg _)
    (Int.natCast_nonneg n) (Int.natCast_nonneg p)
  simpa [abs_of_nonneg (Int.natCast_nonneg s.y)] using this

/-- `<64`-bit exit: the two `BInt` expressions `ex*A + ey*C`, `ex*B + ey*D` do not overflow -/
theorem small_cof_total {N n p P : Nat} {s : St} (hd : Dom N n p P) (h : CInv N n p P s)
    {ex ey g : Int} (hex : |ex| ≤ s.y) (hey : |ey| ≤ s.x) (hex2 : 2 * |ex| ≤ s.y)
    (hey2 : 2 * |ey| ≤ s.x ∨ (s.x = s.y ∧ |ey| ≤ 1)) (hg : ex * s.x + ey * s.y = g)
    (hg0 : 0 ≤ g) (hgy : g ≤ s.y) (hy1 : 1 ≤ s.y) :
    lin2 N ex s.A ey s.C = some (ex * s.A + ey * s.C) ∧ lin2 N ex s.B ey s.D = some (ex * s.B + ey * s.D) ∧
      |ex * s.A + ey * s.C| ≤ 64 * P + 1 ∧ |ex * s.B + ey * s.D| ≤ 64 * P + 1 := by
  obtain ⟨r1, r2⟩ := h.row2
  have hL := hd.L
  have hnP : (n : Int) ≤ P := by exact_mod_cast hd.hn
  have hpP : (p : Int) ≤ P := by exact_mod_cast hd.hp
  have hP0 : (0 : Int) ≤ P := Int.natCast_nonneg _
  have hn0 : (0 : Int) ≤ n := Int.natCast_nonneg _
  have hp0 : (0 : Int) ≤ p := Int.natCast_nonneg _
  have hy0 : (0 : Int) ≤ s.y := Int.natCast_nonneg _
  have hx0 : (0 : Int) ≤ s.x := Int.natCast_nonneg _
  have hyx : (s.y : Int) ≤ s.x := by exact_mod_cast h.hyx
  have hy1I : (1 : Int) ≤ s.y := by exact_mod_cast hy1
  obtain ⟨E1, E2⟩ := cof_abs_bound (a := ex) (b := ey) h.xrel h.yrel h.det hx0 hn0 hp0
  rw [hg, abs_of_nonneg hg0] at E1 E2
  have key : ∀ (A C : Int) (m : Int), |A| * s.y ≤ 121 * P → (s.x : Int) * |C| ≤ |A| * s.y + m →
      0 ≤ m → m ≤ P → |A| ≤ 63 * P + 1 → |C| ≤ 63 * P + 1 →
      (s.x : Int) * |ex * A + ey * C| ≤ |A| * g + |ey| * m →
      lin2 N ex A ey C = some (ex * A + ey * C) ∧ |ex * A + ey * C| ≤ 64 * P + 1 := by
    intro A C m zA r hm0 hm cA cC hE
    have hA0 := abs_nonneg A
    have hC0 := abs_nonneg C
    have hey0 := abs_nonneg ey
    have hex0 := abs_nonneg ex
    have h1 : 2 * |ex * A| ≤ 121 * P := by
      rw [abs_mul]
      calc 2 * (|ex| * |A|) = (2 * |ex|) * |A| := by ring
        _ ≤ s.y * |A| := mul_le_mul_of_nonneg_right hex2 hA0
        _ = |A| * s.y := mul_comm _ _
        _ ≤ 121 * P := zA
    have a1 : |A| * g ≤ 121 * P := le_trans (mul_le_mul_of_nonneg_left hgy hA0) zA
    have hsum0 := abs_nonneg (ex * A + ey * C)
    rcases hey2 with hey2 | ⟨hxy, hey1⟩
    · have h2 : 2 * |ey * C| ≤ 122 * P := by
        rw [abs_mul]
        calc 2 * (|ey| * |C|) = (2 * |ey|) * |C| := by ring
          _ ≤ s.x * |C| := mul_le_mul_of_nonneg_right hey2 hC0
          _ ≤ |A| * s.y + m := r
          _ ≤ 122 * P := by linarith
      have h3 : |ex * A + ey * C| ≤ 64 * P + 1 := by
        by_cases hx2 : (2 : Int) ≤ s.x
        · have a2 : (2 * |ey|) * m ≤ s.x * P := mul_le_mul hey2 hm hm0 hx0
          have a3 : (2 : Int) * (121 * P) ≤ s.x * (121 * P) :=
            mul_le_mul_of_nonneg_right hx2 (by linarith)
          have a4 : (s.x : Int) * (2 * |ex * A + ey * C|) ≤ s.x * (122 * P) := by nlinarith
          have a5 := le_of_mul_le_mul_left a4 (by linarith : (0 : Int) < s.x)
          linarith
        · -- x = y = 1: ex = 0
          have hx1 : (s.x : Int) = 1 := by omega
          have hex0' : ex = 0 := by
            have : |ex| = 0 := by omega
            exact abs_eq_zero.1 this
          have hey1 : |ey| ≤ 1 := by rw [hx1] at hey; exact hey
          rw [hex0', zero_mul, zero_add, abs_mul]
          calc |ey| * |C| ≤ 1 * |C| := mul_le_mul_of_nonneg_right hey1 hC0
            _ = |C| := one_mul _
            _ ≤ 64 * P + 1 := by linarith
      exact ⟨lin2_of_abs hL (by linarith) (by linarith) (by linarith), h3⟩
    · have h2 : |ey * C| ≤ 63 * P + 1 := by
        rw [abs_mul]
        calc |ey| * |C| ≤ 1 * |C| := mul_le_mul_of_nonneg_right hey1 hC0
          _ = |C| := one_mul _
          _ ≤ 63 * P + 1 := cC
      have h3 : |ex * A + ey * C| ≤ 64 * P + 1 := by
        have hxyI : (s.x : Int) = s.y := by exact_mod_cast hxy
        have a2 : |ey| * m ≤ 1 * m := mul_le_mul_of_nonneg_right hey1 hm0
        have a3 : |A| * g ≤ |A| * s.x := by rw [hxyI]; exact mul_le_mul_of_nonneg_left hgy hA0
        have a5 : m ≤ s.x * m := le_mul_of_one_le_left hm0 (by linarith)
        have a4 : (s.x : Int) * |ex * A + ey * C| ≤ s.x * (|A| + m) := by nlinarith
        have a6 := le_of_mul_le_mul_left a4 (by linarith : (0 : Int) < s.x)
        linarith
      exact ⟨lin2_of_abs hL (by linarith) (by linarith) (by linarith), h3⟩
  obtain ⟨k1, k2⟩ := key s.A s.C p h.zA r1 hp0 hpP h.cA h.cC E1
  obtain ⟨k3, k4⟩ := key s.B s.D n h.zB r2 hn0 hnP h.cB h.cD E2
  exact ⟨k1, k3, k2, k4⟩

/-- bound of the new cofactor `C' = a A + b C` of a quotient step: `2 y |C'| <= 125 P`, given
`x |C'| <= |A| r' + q' m`, `2 r' <= x`, `q' y <= 2 x`, `|A| y <= 121 P`, `m <= P` -/
theorem fb_new_cof {x y r' q' P m : Int} {A C' : Int} (hx : 0 < x) (hy : 1 ≤ y)
    (hr0 : 0 ≤ r') (hq0 : 0 ≤ q') (hm0 : 0 ≤ m) (hP0 : 0 ≤ P)
    (hE : x * |C'| ≤ |A| * r' + q' * m) (hr : 2 * r' ≤ x) (hq : q' * y ≤ 2 * x)
    (hz : |A| * y ≤ 121 * P) (hm : m ≤ P) : 2 * |C'| ≤ 125 * P := by
  have hA0 := abs_nonneg A
  have hC0 := abs_nonneg C'
  -- multiply hE by 2 y
  have h1 : 2 * y * (x * |C'|) ≤ 2 * y * (|A| * r' + q' * m) :=
    mul_le_mul_of_nonneg_left hE (by linarith)
  have h2 : 2 * y * (|A| * r') ≤ 121 * P * x := by
    calc 2 * y * (|A| * r') = (|A| * y) * (2 * r') := by ring
      _ ≤ (121 * P) * (2 * r') := mul_le_mul_of_nonneg_right hz (by linarith)
      _ ≤ (121 * P) * x := mul_le_mul_of_nonneg_left hr (by linarith)
      _ = 121 * P * x := by ring
  have h3 : 2 * y * (q' * m) ≤ 4 * P * x := by
    calc 2 * y * (q' * m) = 2 * m * (q' * y) := by ring
      _ ≤ 2 * m * (2 * x) := mul_le_mul_of_nonneg_left hq (by linarith)
      _ ≤ 2 * P * (2 * x) := mul_le_mul_of_nonneg_right (by linarith) (by linarith)
      _ = 4 * P * x := by ring
  have h4 : x * (2 * y * |C'|) ≤ x * (125 * P) := by nlinarith
  have h5 : 2 * y * |C'| ≤ 125 * P := le_of_mul_le_mul_left h4 hx
  have h6 : 2 * |C'| ≤ 2 * y * |C'| := by nlinarith
  linarith

/-- new invariant `|C| r' <= 64 P` after a quotient step (the old second row becomes the first) -/
theorem fb_new_z {x y r' P m : Int} {A C : Int} (hx : 0 < x) (hr0 : 0 ≤ r') (hP0 : 0 ≤ P)
    (hrow : x * |C| ≤ |A| * y + m) (hr : 2 * r' ≤ x) (hz : |A| * y ≤ 121 * P) (hm : m ≤ P) :
    |C| * r' ≤ 121 * P := by
  have hC0 := abs_nonneg C
  have h1 : x * |C| ≤ 122 * P := by linarith
  have h2 : x * (2 * (|C| * r')) ≤ x * (122 * P) := by
    calc x * (2 * (|C| * r')) = (x * |C|) * (2 * r') := by ring
      _ ≤ (122 * P) * (2 * r') := mul_le_mul_of_nonneg_right h1 (by linarith)
      _ ≤ (122 * P) * x := mul_le_mul_of_nonneg_left hr (by linarith)
      _ = x * (122 * P) := by ring
  have h3 := le_of_mul_le_mul_left h2 hx
  linarith

/-- extended quotient step with the real cofactor width: no panic, invariant kept -/
theorem fallback_cof_total {N n p P : Nat} {s : St} (hd : Dom N n p P)
    (h : CInv N n p P s) (hy0 : s.y ≠ 0) :
    ∃ s', fallbackStep N N true s = some s' ∧ CInv N n p P s' ∧ s'.y < s'.x := by
  have hL := hd.L
  have hnP : (n : Int) ≤ P := by exact_mod_cast hd.hn
  have hpP : (p : Int) ≤ P := by exact_mod_cast hd.hp
  have hP0 : (0 : Int) ≤ P := Int.natCast_nonneg _
  have hn0 : (0 : Int) ≤ n := Int.natCast_nonneg _
  have hp0 : (0 : Int) ≤ p := Int.natCast_nonneg _
  have hypos : 0 < s.y := Nat.pos_of_ne_zero hy0
  have hxpos : 0 < s.x := Nat.lt_of_lt_of_le hypos h.hyx
  have hdm := Nat.div_add_mod s.x s.y
  have hrlt : s.x % s.y < s.y := Nat.mod_lt _ hypos
  have hmod := two_mod_le hypos h.hyx
  have hqy : s.x / s.y * s.y ≤ s.x := Nat.div_mul_le_self _ _
  have hr : s.x - s.x / s.y * s.y = s.x % s.y := by
    have e : s.x / s.y * s.y = s.y * (s.x / s.y) := Nat.mul_comm _ _
    omega
  have hqle : s.x / s.y ≤ s.x := Nat.div_le_self _ _
  have hqlt : s.x / s.y < M N / 2 := Nat.lt_of_le_of_lt hqle (by have := h.hxM; omega)
  have hcast : castB N (s.x / s.y) = ((s.x / s.y : Nat) : Int) := castB_eq hqlt
  obtain ⟨row2C, row2D⟩ := h.row2
  have hxI : (0 : Int) < s.x := by exact_mod_cast hxpos
  have hyI : (1 : Int) ≤ s.y := by exact_mod_cast hypos
  have hAle : |s.A| ≤ 121 * P := le_trans (le_mul_of_one_le_right (abs_nonneg _) hyI) h.zA
  have hBle : |s.B| ≤ 121 * P := le_trans (le_mul_of_one_le_right (abs_nonneg _) hyI) h.zB
  unfold fallbackStep
  simp only [if_true]
  rw [show chkU N (s.x / s.y * s.y) = some (s.x / s.y * s.y) from by
    unfold chkU; rw [if_pos (by have := h.hxM; omega)]]
  simp only
  rw [if_neg (by omega), hr]
  have h2r : s.x % s.y * 2 % M N = s.x % s.y * 2 := Nat.mod_eq_of_lt (by have := h.hxM; omega)
  rw [h2r, hcast]
  generalize hq : s.x / s.y = q at *
  generalize hrr : s.x % s.y = r at *
  have hxqr : (s.x : Int) = s.y * q + r := by exact_mod_cast hdm.symm
  have hq0 : (0 : Int) ≤ q := Int.natCast_nonneg _
  have hr0 : (0 : Int) ≤ r := Int.natCast_nonneg _
  by_cases hbr : r * 2 > s.y
  · -- ceiling step: (x, y) -> (y, y - r), new row (q+1) * row2 - row1
    rw [if_pos hbr, if_neg (by omega)]
    have hq2 : q * 2 ≤ q * s.y := Nat.mul_le_mul_left q (by omega)
    have hq1M : ((q : Int) + 1) < ((M N / 2 : Nat) : Int) := by
      have : q + 1 < M N / 2 := by have := h.hxM; omega
      exact_mod_cast this
    rw [chkB_of_range (by omega) hq1M]
    simp only
    have hval : (-1 : Int) * s.x + ((q : Int) + 1) * s.y = ((s.y - r : Nat) : Int) := by
      push_cast [Nat.le_of_lt hrlt]; rw [hxqr]; ring
    obtain ⟨e1, e2⟩ := cof_abs_bound (a := -1) (b := (q : Int) + 1) h.xrel h.yrel h.det
      (le_of_lt hxI) hn0 hp0
    rw [hval, abs_of_nonneg (Int.natCast_nonneg _), abs_of_nonneg (by omega : (0 : Int) ≤ (q : Int) + 1)] at e1 e2
    have eC : (-1 : Int) * s.A + ((q : Int) + 1) * s.C = ((q : Int) + 1) * s.C - s.A := by ring
    have eD : (-1 : Int) * s.B + ((q : Int) + 1) * s.D = ((q : Int) + 1) * s.D - s.B := by ring
    rw [eC] at e1; rw [eD] at e2
    have hr' : 2 * ((s.y - r : Nat) : Int) ≤ s.x := by
      have : 2 * (s.y - r) ≤ s.x := by omega
      exact_mod_cast this
    have hq' : ((q : Int) + 1) * s.y ≤ 2 * s.x := by
      have : (q + 1) * s.y ≤ 2 * s.x := by
        have : (q + 1) * s.y = q * s.y + s.y := by ring
        omega
      exact_mod_cast this
    have bC := fb_new_cof hxI hyI (Int.natCast_nonneg _) (by omega) hp0 hP0 e1 hr' hq' h.zA hpP
    have bD := fb_new_cof hxI hyI (Int.natCast_nonneg _) (by omega) hn0 hP0 e2 hr' hq' h.zB hnP
    have hy2 : (3 : Int) ≤ s.y := by exact_mod_cast (by omega : 3 ≤ s.y)
    have hq3 : 2 * (((q : Int) + 1) * s.y) ≤ 3 * s.x := by
      have : 2 * ((q + 1) * s.y) ≤ 3 * s.x := by
        have : (q + 1) * s.y = q * s.y + s.y := by ring
        have := h.hyx
        omega
      exact_mod_cast this
    have crow : ∀ (A C : Int) (m : Int), |A| * s.y ≤ 121 * P → (s.x : Int) * |C| ≤ |A| * s.y + m →
        m ≤ P → |((q : Int) + 1) * C| ≤ 61 * P := by
      intro A C m zA row hm
      have hC0 := abs_nonneg C
      rw [abs_mul, abs_of_nonneg (by omega : (0 : Int) ≤ (q : Int) + 1)]
      have hqC0 : 0 ≤ ((q : Int) + 1) * |C| := mul_nonneg (by omega) hC0
      have k1 : 2 * ((((q : Int) + 1) * |C|) * s.y) ≤ 3 * (|A| * s.y + m) := by
        calc 2 * ((((q : Int) + 1) * |C|) * s.y) = (2 * (((q : Int) + 1) * s.y)) * |C| := by ring
          _ ≤ (3 * s.x) * |C| := mul_le_mul_of_nonneg_right hq3 hC0
          _ = 3 * (s.x * |C|) := by ring
          _ ≤ 3 * (|A| * s.y + m) := by linarith
      have k2 : (((q : Int) + 1) * |C|) * 3 ≤ (((q : Int) + 1) * |C|) * s.y :=
        mul_le_mul_of_nonneg_left hy2 hqC0
      linarith
    have pC := crow s.A s.C p h.zA row2C hpP
    have pD := crow s.B s.D n h.zB row2D hnP
    rw [mulSub_of_abs hL (by linarith) (by linarith), mulSub_of_abs hL (by linarith) (by linarith)]
    refine ⟨_, rfl, ?_, by simp only; omega⟩
    have zC := fb_new_z hxI (Int.natCast_nonneg (s.y - r)) hP0 row2C hr' h.zA hpP
    have zD := fb_new_z hxI (Int.natCast_nonneg (s.y - r)) hP0 row2D hr' h.zB hnP
    refine ⟨h.yrel, ?_, ?_, by simp only; omega, by simp only; have := h.hxM; have := h.hyx; omega,
      zC, zD, h.cC, h.cD, by linarith, by linarith⟩
    · simp only; rw [← hval, h.xrel, h.yrel]; ring
    · simp only
      rcases h.det with hdt | hdt
      · left; linear_combination hdt
      · right; linear_combination hdt
  · -- floor step: (x, y) -> (y, r), new row row1 - q * row2
    rw [if_neg hbr]
    have hval : (1 : Int) * s.x + (-(q : Int)) * s.y = (r : Int) := by rw [hxqr]; ring
    obtain ⟨e1, e2⟩ := cof_abs_bound (a := 1) (b := -(q : Int)) h.xrel h.yrel h.det
      (le_of_lt hxI) hn0 hp0
    rw [hval, abs_of_nonneg hr0, abs_neg, abs_of_nonneg hq0] at e1 e2
    have eC : (1 : Int) * s.A + (-(q : Int)) * s.C = s.A - (q : Int) * s.C := by ring
    have eD : (1 : Int) * s.B + (-(q : Int)) * s.D = s.B - (q : Int) * s.D := by ring
    rw [eC] at e1; rw [eD] at e2
    have hr' : 2 * (r : Int) ≤ s.x := by exact_mod_cast hmod
    have hq' : (q : Int) * s.y ≤ 2 * s.x := by
      have : q * s.y ≤ 2 * s.x := by omega
      exact_mod_cast this
    have bC := fb_new_cof hxI hyI hr0 hq0 hp0 hP0 e1 hr' hq' h.zA hpP
    have bD := fb_new_cof hxI hyI hr0 hq0 hn0 hP0 e2 hr' hq' h.zB hnP
    have pC : |(q : Int) * s.C| ≤ |s.A - (q : Int) * s.C| + |s.A| := by
      have := abs_sub (s.A) (s.A - (q : Int) * s.C)
      simpa [add_comm] using this
    have pD : |(q : Int) * s.D| ≤ |s.B - (q : Int) * s.D| + |s.B| := by
      have := abs_sub (s.B) (s.B - (q : Int) * s.D)
      simpa [add_comm] using this
    have hqyx : (q : Int) * s.y ≤ s.x := by
      have : q * s.y ≤ s.x := by omega
      exact_mod_cast this
    have qrow : ∀ (A C : Int) (m : Int), |A| * s.y ≤ 121 * P → (s.x : Int) * |C| ≤ |A| * s.y + m →
        m ≤ P → |A| ≤ 63 * P + 1 → |(q : Int) * C| ≤ 64 * P + 1 := by
      intro A C m zA row hm cA
      have hC0 := abs_nonneg C
      have hA0 := abs_nonneg A
      rw [abs_mul, abs_of_nonneg hq0]
      have hqC0 : 0 ≤ (q : Int) * |C| := mul_nonneg hq0 hC0
      have k1 : (q : Int) * |C| * s.y ≤ |A| * s.y + m := by
        calc (q : Int) * |C| * s.y = ((q : Int) * s.y) * |C| := by ring
          _ ≤ s.x * |C| := mul_le_mul_of_nonneg_right hqyx hC0
          _ ≤ |A| * s.y + m := row
      rcases (by omega : s.y = 1 ∨ 2 ≤ s.y) with hy1 | hy2
      · have : (s.y : Int) = 1 := by exact_mod_cast hy1
        rw [this] at k1; linarith
      · have hy2I : (2 : Int) ≤ s.y := by exact_mod_cast hy2
        have : (q : Int) * |C| * 2 ≤ (q : Int) * |C| * s.y := mul_le_mul_of_nonneg_left hy2I hqC0
        linarith
    have qC := qrow s.A s.C p h.zA row2C hpP h.cA
    have qD := qrow s.B s.D n h.zB row2D hnP h.cB
    rw [subMul_of_abs hL (by linarith) (by linarith), subMul_of_abs hL (by linarith) (by linarith)]
    refine ⟨_, rfl, ?_, by simp only; omega⟩
    have zC := fb_new_z hxI hr0 hP0 row2C hr' h.zA hpP
    have zD := fb_new_z hxI hr0 hP0 row2D hr' h.zB hnP
    refine ⟨h.yrel, ?_, ?_, by simp only; omega, by simp only; have := h.hxM; have := h.hyx; omega,
      zC, zD, h.cC, h.cD, by linarith, by linarith⟩
    · simp only; rw [← hval, h.xrel, h.yrel]; ring
    · simp only
      rcases h.det with hdt | hdt
      · right; linear_combination (-1 : Int) * hdt
      · left; linear_combination (-1 : Int) * hdt


/-- transfer of the invariant `|row| * (other value) <= 121 P` through a Lehmer step -/
theorem new_z {x y v1 w1 A R m pp P : Int} (hxy : 0 < x * y) (hy0 : 0 ≤ y) (hw0 : 0 ≤ w1)
    (hv0 : 0 ≤ v1) (hm0 : 0 ≤ m) (hP0 : 0 ≤ P) (hpp0 : 0 ≤ pp)
    (hE : x * |R| ≤ |A| * v1 + m * pp) (hz : |A| * y ≤ 121 * P) (hpp : pp ≤ P)
    (hZ : 121 * (v1 * w1) + m * y * w1 ≤ 121 * (x * y)) : |R| * w1 ≤ 121 * P := by
  have hR0 := abs_nonneg R
  have hA0 := abs_nonneg A
  have h1 : (x * |R|) * (y * w1) ≤ (|A| * v1 + m * pp) * (y * w1) :=
    mul_le_mul_of_nonneg_right hE (mul_nonneg hy0 hw0)
  have h2 : (|A| * v1 + m * pp) * (y * w1) ≤ P * (121 * (v1 * w1) + m * y * w1) := by
    have a1 : (|A| * y) * (v1 * w1) ≤ (121 * P) * (v1 * w1) :=
      mul_le_mul_of_nonneg_right hz (mul_nonneg hv0 hw0)
    have a2 : (m * pp) * (y * w1) ≤ (m * P) * (y * w1) :=
      mul_le_mul_of_nonneg_right (mul_le_mul_of_nonneg_left hpp hm0) (mul_nonneg hy0 hw0)
    calc (|A| * v1 + m * pp) * (y * w1) = (|A| * y) * (v1 * w1) + (m * pp) * (y * w1) := by ring
      _ ≤ (121 * P) * (v1 * w1) + (m * P) * (y * w1) := add_le_add a1 a2
      _ = P * (121 * (v1 * w1) + m * y * w1) := by ring
  have h3 : P * (121 * (v1 * w1) + m * y * w1) ≤ P * (121 * (x * y)) :=
    mul_le_mul_of_nonneg_left hZ hP0
  have h4 : (x * y) * (|R| * w1) ≤ (x * y) * (121 * P) := by
    calc (x * y) * (|R| * w1) = (x * |R|) * (y * w1) := by ring
      _ ≤ P * (121 * (x * y)) := le_trans h1 (le_trans h2 h3)
      _ = (x * y) * (121 * P) := by ring
  exact le_of_mul_le_mul_left h4 hxy

/-- the `BInt` expression `a*A + b*C` (and its negation) of a Lehmer step fits when both products are tiny -/
theorem lehmer_lin2 {N : Nat} {a b A C P : Int} (hL : 64 * P + 64 ≤ ((M N / 2 : Nat) : Int))
    (hP0 : 0 ≤ P) (p1 : |a * A| * 8388608 ≤ 121 * P) (p2 : |b * C| * 8388608 ≤ 122 * P) :
    lin2 N a A b C = some (a * A + b * C) ∧ chkB N (-(a * A + b * C)) = some (-(a * A + b * C)) ∧
    |a * A + b * C| ≤ 63 * P + 1 := by
  have n1 := abs_nonneg (a * A)
  have n2 := abs_nonneg (b * C)
  have s1 := abs_add_le (a * A) (b * C)
  exact ⟨lin2_of_abs hL (by linarith) (by linarith) (by linarith),
    chkB_of_abs hL (by rw [abs_neg]; linarith), by linarith⟩

/-- extended Lehmer step with the real cofactor width: no panic, invariant kept (after the swap) -/
theorem lehmer_cof_total {N n p P : Nat} {s : St} {xt yt xl yl : Nat} (hd : Dom N n p P)
    (h : CInv N n p P s) (hb : bits s.x + 36 < 64 * N) (h64 : 64 ≤ bits s.x)
    (ex : s.x = xt * 2 ^ (bits s.x - 64) + xl) (ey : s.y = yt * 2 ^ (bits s.x - 64) + yl)
    (hxl : xl < 2 ^ (bits s.x - 64)) (hyl : yl < 2 ^ (bits s.x - 64))
    (hxtW : xt < W) (h63 : 2 ^ 63 ≤ xt) (hytx : yt ≤ xt) (h32 : 2 ^ 32 ≤ yt) :
    ∃ s', lehmerStep N N true s (bits s.x) xt yt = some s' ∧ CInv N n p P (swapSt s') := by
  have hL := hd.L
  have hnP : (n : Int) ≤ P := by exact_mod_cast hd.hn
  have hpP : (p : Int) ≤ P := by exact_mod_cast hd.hp
  have hP0 : (0 : Int) ≤ P := Int.natCast_nonneg _
  have hn0 : (0 : Int) ≤ n := Int.natCast_nonneg _
  have hp0 : (0 : Int) ≤ p := Int.natCast_nonneg _
  obtain ⟨a, b, c, d, r1, n1, r2, n2, hr, _, _, _, _, h1, h2⟩ :=
    lehmer_xy_total (N := N) (s := s) hb h.hyx hxtW (by omega) h63 hytx h32
  obtain ⟨u, v, ru, rv, huy, hvu, ba, bb, bc, bd, hab, hcd, hdetT, h24, ka, kc, kb, kd⟩ :=
    reduce64_pre hxtW h63 hytx h32 hr
  have hbm := bits_mono h.hyx
  have hxs : s.x < W ^ ((bits s.x + 63) / 64) := lt_W_pow_of_bits (Nat.le_refl _)
  have hys : s.y < W ^ ((bits s.x + 63) / 64) := lt_W_pow_of_bits hbm
  have e1 := dotProduct_some h1 hxs hys
  have e2 := dotProduct_some h2 hxs hys
  generalize hk : 2 ^ (bits s.x - 64) = K at *
  have hKpos : 0 < K := by rw [← hk]; exact Nat.pow_pos (by decide)
  -- values of the new operands
  have hr1 : ((r1 : Nat) : Int) = |a * s.x + b * s.y| := by rw [e1]; cases n1 <;> simp
  have hr2 : ((r2 : Nat) : Int) = |c * s.x + d * s.y| := by rw [e2]; cases n2 <;> simp
  have b1 := dot_bound (K := K) hab ba bb hxl hyl ru
  have b2 := dot_bound (K := K) hcd bc bd hxl hyl rv
  have hR2 := reduce64_rowprod hxtW (by omega : yt < W) hr
  -- actual sizes of the two rows
  have hE1a : |a| ≤ ((max a.natAbs b.natAbs : Nat) : Int) := abs_le_max_natAbs_left a b
  have hE1b : |b| ≤ ((max a.natAbs b.natAbs : Nat) : Int) := abs_le_max_natAbs_right a b
  have hE2c : |c| ≤ ((max c.natAbs d.natAbs : Nat) : Int) := abs_le_max_natAbs_left c d
  have hE2d : |d| ≤ ((max c.natAbs d.natAbs : Nat) : Int) := abs_le_max_natAbs_right c d
  have hE1pos : (1 : Int) ≤ ((max a.natAbs b.natAbs : Nat) : Int) := by
    by_contra hlt
    have h0 : ((max a.natAbs b.natAbs : Nat) : Int) ≤ 0 := by omega
    have ha0 : a = 0 := abs_eq_zero.1 (le_antisymm (le_trans hE1a h0) (abs_nonneg _))
    have hb0 : b = 0 := abs_eq_zero.1 (le_antisymm (le_trans hE1b h0) (abs_nonneg _))
    rcases hdetT with hdt | hdt <;> rw [ha0, hb0] at hdt <;> simp at hdt
  have hE2pos : (1 : Int) ≤ ((max c.natAbs d.natAbs : Nat) : Int) := by
    by_contra hlt
    have h0 : ((max c.natAbs d.natAbs : Nat) : Int) ≤ 0 := by omega
    have hc0 : c = 0 := abs_eq_zero.1 (le_antisymm (le_trans hE2c h0) (abs_nonneg _))
    have hd0 : d = 0 := abs_eq_zero.1 (le_antisymm (le_trans hE2d h0) (abs_nonneg _))
    rcases hdetT with hdt | hdt <;> rw [hc0, hd0] at hdt <;> simp at hdt
  have b1' := dot_bound' (K := K) hab hE1a hE1b hE1pos hxl hyl ru
  have b2' := dot_bound' (K := K) hcd hE2c hE2d hE2pos hxl hyl rv
  rw [← ex, ← ey] at b1 b2 b1' b2'
  have hE : (2 : Int) ^ 36 = ((68719476736 : Nat) : Int) := by norm_num
  have x1 : r1 < (u + 68719476736) * K := by
    rw [← hr1, hE] at b1; exact_mod_cast b1
  have y1 : r2 < (v + 68719476736) * K := by
    rw [← hr2, hE] at b2; exact_mod_cast b2
  have x1' : r1 < (u + max a.natAbs b.natAbs) * K := by
    rw [← hr1] at b1'; exact_mod_cast b1'
  have y1' : r2 < (v + max c.natAbs d.natAbs) * K := by
    rw [← hr2] at b2'; exact_mod_cast b2'
  have y1u : r2 < (u + max c.natAbs d.natAbs) * K :=
    Nat.lt_of_lt_of_le y1' (Nat.mul_le_mul_right _ (by omega))
  -- sizes
  have hxtK : xt * K ≤ s.x := by omega
  have hytK : yt * K ≤ s.y := by omega
  have hxt_x : xt ≤ s.x := le_trans (Nat.le_mul_of_pos_right _ hKpos) hxtK
  have hyt_y : yt ≤ s.y := le_trans (Nat.le_mul_of_pos_right _ hKpos) hytK
  have hytpos : (0 : Int) < yt := by exact_mod_cast (by omega : 0 < yt)
  have hxtpos : (0 : Int) < xt := by exact_mod_cast (by omega : 0 < xt)
  have hxtI : (xt : Int) ≤ s.x := by exact_mod_cast hxt_x
  have hytI : (yt : Int) ≤ s.y := by exact_mod_cast hyt_y
  have h24I : (16777216 : Int) ≤ u := by exact_mod_cast (by norm_num at h24 ⊢; exact h24 : 16777216 ≤ u)
  obtain ⟨row2C, row2D⟩ := h.row2
  have hC : |s.C| * s.x ≤ 122 * P := by have := h.zA; rw [mul_comm]; linarith
  have hD : |s.D| * s.x ≤ 122 * P := by have := h.zB; rw [mul_comm]; linarith
  have ytxI : (yt : Int) ≤ xt := by exact_mod_cast hytx
  -- the eight products
  have paA := prod_small h24I ka h.zA hytI hytpos
  have pcA := prod_small h24I kc h.zA hytI hytpos
  have paB := prod_small h24I ka h.zB hytI hytpos
  have pcB := prod_small h24I kc h.zB hytI hytpos
  have pbC := prod_small h24I kb hC hxtI hxtpos
  have pdC := prod_small h24I kd hC hxtI hxtpos
  have pbD := prod_small h24I kb hD hxtI hxtpos
  have pdD := prod_small h24I kd hD hxtI hxtpos
  obtain ⟨l1, g1, q1⟩ := lehmer_lin2 (N := N) hL hP0 paA pbC
  obtain ⟨l2, g2, q2⟩ := lehmer_lin2 (N := N) hL hP0 paB pbD
  obtain ⟨l3, g3, q3⟩ := lehmer_lin2 (N := N) hL hP0 pcA pdC
  obtain ⟨l4, g4, q4⟩ := lehmer_lin2 (N := N) hL hP0 pcB pdD
  have hform := lehmerStep_ext_eq (bts := bits s.x) hr h1 h2 l1 l2 l3 l4 g1 g2 g3 g4
  refine ⟨_, hform, ?_⟩
  -- relations of the new state
  obtain ⟨_, hrel⟩ := lehmerStep_spec (n := n) (p := p) hform hxtW (by omega) hxs hys
    (fun _ => h.xrel) (fun _ => h.yrel)
  obtain ⟨relx, rely⟩ := hrel rfl
  simp only at relx rely
  have hdet' := det_flip hdetT h.det (flipSign_cases n1) (flipSign_cases n2)
  -- measure and ranges
  obtain ⟨m1, m2, m3⟩ := lehmerStep_measure (k := bits s.x - 64) hform (by rw [hk]; exact ex)
    (by rw [hk]; exact ey) (by rw [hk]; exact hxl) (by rw [hk]; exact hyl) hxtW h63 hytx h32 hxs hys
  simp only at m1 m2 m3
  rw [hk] at m2 m3
  have hMhalf : 2 ^ 66 * K ≤ M N / 2 := by
    rw [← hk]; unfold M
    rw [← Nat.pow_add]
    have : 2 ^ (64 * N) = 2 ^ (64 * N - 1) * 2 := by
      rw [← Nat.pow_succ]; congr 1; omega
    rw [this, Nat.mul_div_cancel _ (by decide)]
    exact Nat.pow_le_pow_right (by decide) (by omega)
  -- cofactor invariant through the step
  have hxpos : 0 < s.x := by omega
  have hypos : 0 < s.y := by omega
  have hxyI : (0 : Int) < (s.x : Int) * s.y := by
    exact_mod_cast Nat.mul_pos hxpos hypos
  obtain ⟨E1a, E1b⟩ := cof_abs_bound (a := a) (b := b) h.xrel h.yrel h.det (Int.natCast_nonneg _) hn0 hp0
  obtain ⟨E2a, E2b⟩ := cof_abs_bound (a := c) (b := d) h.xrel h.yrel h.det (Int.natCast_nonneg _) hn0 hp0
  rw [← hr1] at E1a E1b; rw [← hr2] at E2a E2b
  have natb : (b.natAbs : Int) = |b| := (Int.abs_eq_natAbs b).symm
  have natd : (d.natAbs : Int) = |d| := (Int.abs_eq_natAbs d).symm
  have hmb : b.natAbs * u ≤ 2 * xt := by
    have : ((b.natAbs * u : Nat) : Int) ≤ ((2 * xt : Nat) : Int) := by push_cast; exact kb
    exact_mod_cast this
  have hmd : d.natAbs * u ≤ 2 * xt := by
    have : ((d.natAbs * u : Nat) : Int) ≤ ((2 * xt : Nat) : Int) := by push_cast; exact kd
    exact_mod_cast this
  have hb36 : b.natAbs < 68719476736 := by
    have : (b.natAbs : Int) < 68719476736 := by rw [natb]; norm_num at bb ⊢; exact bb
    exact_mod_cast this
  have hd36 : d.natAbs < 68719476736 := by
    have : (d.natAbs : Int) < 68719476736 := by rw [natd]; norm_num at bd ⊢; exact bd
    exact_mod_cast this
  have hxtlt : xt < 18446744073709551616 := by unfold W at hxtW; exact hxtW
  have natc : (c.natAbs : Int) = |c| := (Int.abs_eq_natAbs c).symm
  have nata : (a.natAbs : Int) = |a| := (Int.abs_eq_natAbs a).symm
  have hc36 : c.natAbs < 68719476736 := by
    have : (c.natAbs : Int) < 68719476736 := by rw [natc]; norm_num at bc ⊢; exact bc
    exact_mod_cast this
  have ha36 : a.natAbs < 68719476736 := by
    have : (a.natAbs : Int) < 68719476736 := by rw [nata]; norm_num at ba ⊢; exact ba
    exact_mod_cast this
  have pbc : 3 * (b.natAbs * c.natAbs) ≤ 3246626956972881084416 := by
    have := hR2.pbc; rw [← natb, ← natc] at this; exact_mod_cast this
  have pbd : 3 * (b.natAbs * d.natAbs) ≤ 3246626956972881084416 := by
    have := hR2.pbd; rw [← natb, ← natd] at this; exact_mod_cast this
  have pad : 3 * (a.natAbs * d.natAbs) ≤ 3246626956972881084416 := by
    have := hR2.pad; rw [← nata, ← natd] at this; exact_mod_cast this
  have pb2 : 3 * (b.natAbs * max c.natAbs d.natAbs) ≤ 3246626956972881084416 := by
    rcases Nat.le_total c.natAbs d.natAbs with hle | hle
    · rw [Nat.max_eq_right hle]; exact pbd
    · rw [Nat.max_eq_left hle]; exact pbc
  have pd1 : 3 * (d.natAbs * max a.natAbs b.natAbs) ≤ 3246626956972881084416 := by
    rcases Nat.le_total a.natAbs b.natAbs with hle | hle
    · rw [Nat.max_eq_right hle, Nat.mul_comm d.natAbs]; exact pbd
    · rw [Nat.max_eq_left hle, Nat.mul_comm d.natAbs]; exact pad
  have Zb := lehmer_Z2 (w := r2) (m := b.natAbs) (Ew := max c.natAbs d.natAbs) ex ey x1 y1 y1u m1 hvu
    (by norm_num at h63 ⊢; exact h63) hxtlt (by norm_num at h32 ⊢; exact h32) hmb
    (by have := Nat.max_le.2 ⟨Nat.le_of_lt hc36, Nat.le_of_lt hd36⟩; exact this) pb2
  have Zd := lehmer_Z2 (w := r1) (m := d.natAbs) (Ew := max a.natAbs b.natAbs) ex ey x1 y1 x1' m1 hvu
    (by norm_num at h63 ⊢; exact h63) hxtlt (by norm_num at h32 ⊢; exact h32) hmd
    (by have := Nat.max_le.2 ⟨Nat.le_of_lt ha36, Nat.le_of_lt hb36⟩; exact this) pd1
  have ZbI : 121 * ((r1 : Int) * r2) + |b| * s.y * r2 ≤ 121 * ((s.x : Int) * s.y) := by
    rw [← natb]; exact_mod_cast Zb
  have ZdI : 121 * ((r2 : Int) * r1) + |d| * s.y * r1 ≤ 121 * ((s.x : Int) * s.y) := by
    rw [← natd, mul_comm (r2 : Int) (r1 : Int)]; exact_mod_cast Zd
  have hr1n : (0 : Int) ≤ r1 := Int.natCast_nonneg _
  have hr2n : (0 : Int) ≤ r2 := Int.natCast_nonneg _
  have hyn : (0 : Int) ≤ s.y := Int.natCast_nonneg _
  -- bounds of the new cofactors
  have cb1 : |flipSign n1 * (a * s.A + b * s.C)| ≤ 63 * P + 1 := by rw [abs_flip]; exact q1
  have cb2 : |flipSign n1 * (a * s.B + b * s.D)| ≤ 63 * P + 1 := by rw [abs_flip]; exact q2
  have cb3 : |flipSign n2 * (c * s.A + d * s.C)| ≤ 63 * P + 1 := by rw [abs_flip]; exact q3
  have cb4 : |flipSign n2 * (c * s.B + d * s.D)| ≤ 63 * P + 1 := by rw [abs_flip]; exact q4
  unfold swapSt
  simp only
  split
  · -- the second row has the larger value
    rename_i hsw
    have hswI : (r1 : Int) ≤ r2 := by exact_mod_cast hsw
    refine ⟨rely, relx, ?_, hsw, Nat.lt_of_lt_of_le m3 hMhalf, ?_, ?_, cb3, cb4, cb1, cb2⟩
    · rcases hdet' with hd' | hd'
      · right; linear_combination (-1 : Int) * hd'
      · left; linear_combination (-1 : Int) * hd'
    · rw [abs_flip]
      exact new_z hxyI hyn hr1n hr2n (abs_nonneg d) hP0 hp0 E2a h.zA hpP ZdI
    · rw [abs_flip]
      exact new_z hxyI hyn hr1n hr2n (abs_nonneg d) hP0 hn0 E2b h.zB hnP ZdI
  · rename_i hsw
    refine ⟨relx, rely, hdet', Nat.le_of_lt (Nat.lt_of_not_ge hsw), Nat.lt_of_lt_of_le m2 hMhalf, ?_, ?_, cb1, cb2, cb3, cb4⟩
    · rw [abs_flip]
      exact new_z hxyI hyn hr2n hr1n (abs_nonneg b) hP0 hp0 E1a h.zA hpP ZbI
    · rw [abs_flip]
      exact new_z hxyI hyn hr2n hr1n (abs_nonneg b) hP0 hn0 E1b h.zB hnP ZbI


/-- one iteration of the extended loop with the real cofactor width `K = N`: no panic, invariant
kept, returned cofactors in range -/
theorem gcdStep_cof_total {N n p P : Nat} (hd : Dom N n p P) {s0 : St}
    (h : CInv N n p P (swapSt s0)) :
    ∃ st, gcdStep N N true s0 = some st ∧ (∀ s', st = .next s' → CInv N n p P (swapSt s')) ∧
      (∀ d u v, st = .ret d u v → |u| ≤ 64 * (P : Int) + 1 ∧ |v| ≤ 64 * (P : Int) + 1) := by
  unfold gcdStep
  simp only
  generalize swapSt s0 = s at *
  by_cases hlx : bits s.x = 0
  · rw [if_pos hlx]
    exact ⟨_, rfl, fun s' hs => by simp at hs, fun d u v hs => by
      simp at hs; rw [← hs.2.1, ← hs.2.2]
      have : (0 : Int) ≤ P := Int.natCast_nonneg _
      exact ⟨le_trans h.cC (by linarith), le_trans h.cD (by linarith)⟩⟩
  · rw [if_neg hlx]
    by_cases hly : bits s.y = 0
    · rw [if_pos hly]
      exact ⟨_, rfl, fun s' hs => by simp at hs, fun d u v hs => by
        simp at hs; rw [← hs.2.1, ← hs.2.2]
        have : (0 : Int) ≤ P := Int.natCast_nonneg _
        exact ⟨le_trans h.cA (by linarith), le_trans h.cB (by linarith)⟩⟩
    · rw [if_neg hly]
      have hy0 : s.y ≠ 0 := fun h0 => hly (bits_eq_zero.2 h0)
      by_cases hsm : bits s.x < 64 ∧ bits s.y < 64
      · rw [if_pos hsm]
        simp only [if_true]
        have hxs := lt_of_bits_lt_64 hsm.1
        rw [asI64_mod' hsm.1, asI64_mod' hsm.2]
        obtain ⟨g, ex, ey, he, b1, b2, b3, b4⟩ := egcdI64_total2 hxs (Nat.pos_of_ne_zero hy0) h.hyx
        rw [he]
        simp only
        obtain ⟨hg1, hg2⟩ := egcdI64_spec he
        have hypos : 0 < s.y := Nat.pos_of_ne_zero hy0
        have hgy : g ≤ s.y := by
          rw [hg2]
          have : Nat.gcd s.x s.y ≤ s.y := Nat.gcd_le_right _ hypos
          have e : Int.gcd (s.x : Int) (s.y : Int) = Nat.gcd s.x s.y := Int.gcd_natCast_natCast _ _
          rw [e]; exact_mod_cast this
        obtain ⟨hu, hv, hub, hvb⟩ := small_cof_total hd h b1 b2 b3 b4 hg1.symm (by rw [hg2]; exact Int.natCast_nonneg _)
          hgy hypos
        rw [hu, hv]
        refine ⟨_, rfl, fun s' hs => by simp at hs, fun d u' v' hs => ?_⟩
        simp at hs
        rw [← hs.2.1, ← hs.2.2]
        exact ⟨hub, hvb⟩
      · rw [if_neg hsm]
        have hbm := bits_mono h.hyx
        have hmax : max (bits s.x) (bits s.y) = bits s.x := Nat.max_eq_left hbm
        rw [hmax]
        have h64 : 64 ≤ bits s.x := by omega
        have hxMN : s.x < M N := Nat.lt_of_lt_of_le h.hxM (Nat.div_le_self _ _)
        have hbN : bits s.x ≤ 64 * N := by unfold M at hxMN; exact bits_le_of_lt hxMN
        obtain ⟨xt, yt, xl, yl, t1, t2, ex, ey, hxl, hyl, hxtW, h63, hytx⟩ :=
          top_facts (N := N) h.hyx h64 hbN
        rw [t1, t2]
        simp only
        by_cases hcnd : bits s.x + 36 ≥ N * 64 ∨ bits s.y + 36 ≥ N * 64 ∨ yt < 2 ^ 32
        · rw [if_pos hcnd]
          obtain ⟨s', hs', hc', hlt⟩ := fallback_cof_total hd h hy0
          rw [hs']
          refine ⟨_, rfl, fun s'' hs => ?_, fun d u v hs => by simp at hs⟩
          simp at hs; subst hs
          rw [swapSt_of_lt hlt]; exact hc'
        · rw [if_neg hcnd]
          obtain ⟨s', hs', hc'⟩ := lehmer_cof_total hd h (by omega) h64 ex ey hxl hyl hxtW h63 hytx
            (by omega)
          rw [hs']
          refine ⟨_, rfl, fun s'' hs => ?_, fun d u v hs => by simp at hs⟩
          simp at hs; subst hs
          exact hc'

/-- the extended loop with the real cofactor width returns for every fuel that suffices -/
theorem gcdLoop_cof_total {N n p P : Nat} (hd : Dom N n p P) :
    ∀ (f : Nat) (s : St), CInv N n p P (swapSt s) → s.x * s.y * 3 ^ f < 4 ^ f →
    ∃ d u v, gcdLoop N N true (f + 1) s = some (d, u, v) ∧ |u| ≤ 64 * (P : Int) + 1 ∧
      |v| ≤ 64 * (P : Int) + 1 := by
  intro f
  induction f with
  | zero =>
    intro s hc hm
    have hm0 : s.x * s.y = 0 := by simpa using hm
    obtain ⟨st, hst, _, hret⟩ := gcdStep_cof_total hd hc
    unfold gcdLoop
    rw [hst]
    cases st with
    | ret d u v => exact ⟨d, u, v, rfl, hret d u v rfl⟩
    | next s' => exact absurd hm0 (gcdStep_zero hst)
  | succ f ih =>
    intro s hc hm
    obtain ⟨st, hst, hnext, hret⟩ := gcdStep_cof_total hd hc
    rw [gcdLoop, hst]
    cases st with
    | ret d u v => exact ⟨d, u, v, rfl, hret d u v rfl⟩
    | next s' =>
      simp only
      have hxM : (swapSt s).x < M N := Nat.lt_of_lt_of_le hc.hxM (Nat.div_le_self _ _)
      obtain ⟨hx, hy⟩ := swapSt_range hxM hc.hyx
      obtain ⟨m1, _, _⟩ := gcdStep_measure hst hx hy
      refine ih s' (hnext s' rfl) ?_
      have e3 : 3 ^ (f + 1) = 3 ^ f * 3 := Nat.pow_succ _ _
      have e4 : 4 ^ (f + 1) = 4 ^ f * 4 := Nat.pow_succ _ _
      rw [e3, e4] at hm
      have : 4 * (s'.x * s'.y) * 3 ^ f ≤ 3 * (s.x * s.y) * 3 ^ f := Nat.mul_le_mul_right _ m1
      have e5 : 3 * (s.x * s.y) * 3 ^ f = s.x * s.y * (3 ^ f * 3) := by ring
      have e6 : 4 * (s'.x * s'.y) * 3 ^ f = 4 * (s'.x * s'.y * 3 ^ f) := by ring
      omega

theorem CInv_init {N n p P : Nat} (hd : Dom N n p P) : CInv N n p P (swapSt (initSt n p)) := by
  have hP := hd.hP
  have hnP : (n : Int) ≤ P := by exact_mod_cast hd.hn
  have hpP : (p : Int) ≤ P := by exact_mod_cast hd.hp
  have hP0 : (0 : Int) ≤ P := Int.natCast_nonneg _
  have hn0 : (0 : Int) ≤ n := Int.natCast_nonneg _
  have hp0 : (0 : Int) ≤ p := Int.natCast_nonneg _
  have hn' := hd.hn
  have hp' := hd.hp
  unfold swapSt initSt
  simp only
  split
  · rename_i hsw
    exact { xrel := by simp, yrel := by simp, det := Or.inr (by simp), hyx := hsw,
            hxM := by show p < M N / 2; omega,
            zA := by simp <;> linarith, zB := by simp <;> linarith,
            cA := by simp <;> linarith, cB := by simp <;> linarith,
            cC := by simp <;> linarith, cD := by simp <;> linarith }
  · rename_i hsw
    exact { xrel := by simp, yrel := by simp, det := Or.inl (by simp),
            hyx := by show p ≤ n; omega, hxM := by show n < M N / 2; omega,
            zA := by simp <;> linarith, zB := by simp <;> linarith,
            cA := by simp <;> linarith, cB := by simp <;> linarith,
            cC := by simp <;> linarith, cD := by simp <;> linarith }

/-- the domain of the cofactor bound: operands below `2^(64N-7)` -/
theorem Dom_of_lt {N n p : Nat} (hN : 0 < N) (hn : n < 2 ^ (64 * N - 7)) (hp : p < 2 ^ (64 * N - 7)) :
    Dom N n p (max n p) := by
  refine ⟨Nat.le_max_left _ _, Nat.le_max_right _ _, ?_⟩
  have hP : max n p < 2 ^ (64 * N - 7) := Nat.max_lt.2 ⟨hn, hp⟩
  have e : M N / 2 = 64 * 2 ^ (64 * N - 7) := by
    unfold M
    obtain ⟨m, hm⟩ : ∃ m, 64 * N = m + 7 := ⟨64 * N - 7, by omega⟩
    rw [hm, Nat.add_sub_cancel]
    have : 2 ^ (m + 7) = 2 * (64 * 2 ^ m) := by rw [Nat.pow_add]; ring
    rw [this, Nat.mul_div_cancel_left _ (by decide)]
  rw [e]; omega

/-- `gcd_internal::<N, true>` never panics on operands below `2^(64N-7)` -/
theorem gcdInternal_ext_total {N n p : Nat} (hN : 0 < N) (hn : n < 2 ^ (64 * N - 7))
    (hp : p < 2 ^ (64 * N - 7)) :
    ∃ d u v, gcdInternal N true n p = some (d, u, v) ∧ |u| ≤ 64 * ((max n p : Nat) : Int) + 1 ∧
      |v| ≤ 64 * ((max n p : Nat) : Int) + 1 := by
  have hd := Dom_of_lt hN hn hp
  have hle : 2 ^ (64 * N - 7) ≤ M N := by unfold M; exact Nat.pow_le_pow_right (by decide) (by omega)
  have hnM : n < M N := by omega
  have hpM : p < M N := by omega
  unfold gcdInternal
  obtain ⟨d, u, v, hr, hu⟩ := gcdLoop_cof_total hd (3 * (bits n + bits p)) (initSt n p) (CInv_init hd)
    (fuel_arith n p)
  rw [gcdLoop_fuel hnM hpM _ (gcdFuel_ge hnM hpM), hr]
  exact ⟨d, u, v, rfl, hu⟩


end Ymq.Gcd.T7
