"""C14 — binary kernel solvers return only genuine, non-zero dependencies.

kernel_gauss (dense), kernel_lanczos (block Lanczos; the block Y is exported by the hook just
before the final kernel extraction and the Lean model recomputes the returned basis from (B, Y)),
qs_optimize, sparse x block and block x block products.
Request lines: see harness/src/ops_gf2.rs and lean/Ymq/Drv/Gf2.lean.
"""
# SIZE AUDIT (quick tier)  [measured with seed 1: per op, largest shape and the storage boundaries reached]
# Storage facts of /repo/src/matrix/gf2.rs: kernel_gauss works on bitvec_simd::BitVec = Vec<u64x4> (256-bit items made of
# four 64-bit lanes; leading_zeros counts whole zero items, then whole zero lanes, then corrects by nbits % 256), columns of
# length nrows and coefficient rows of length ncols, so BOTH dimensions have boundaries at every multiple of 64 (lane) and of
# 256 (item). Block = Vec<u64> (one word per row/column: no packing along nrows/ncols), LSIZE = 64 is the dense/sparse split of
# qs_optimize and the minimum number of rows of kernel_lanczos; coordinates are u32 (2^32 rows/columns: not reachable).
# relations.rs final_step selects kernel_gauss up to 5000 rows and kernel_lanczos above.
#
# op             quick max (rows x cols)   thorough max    supported by the code           boundaries reached by quick BEFORE this audit
# gf2_gauss      4985 x 5050               7775 x 6200     memory only (doc: 100000)       63/64/65 both dims (>=19 each); 255/256/257 and
#                                                                                          511/512/513 both dims (fixed list); 127/128,
#                                                                                          191..193, 1023..1025: only by chance (129, 191 once)
# gf2_lanczos    7764 x 7766               21647 x 21657   >= 64 rows, < 2^32, memory      rows >= 139 only (random 150..600, 1200, 2500, 5600+);
#                                                                                          40 rows (documented panic); 64, 65 rows never;
#                                                                                          127..129 / 255..257 rows by chance (256 hit, others not)
# gf2_qsopt/optmul/spmul  300 x 250        300 x 250       as above                        rows 63/64/65/128/129, cols 63/64/65 (choice lists): complete
#                                                                                          for LSIZE = 64; no index >= 2^16 in any tier (u32 coordinates)
# gf2_blockdot   n = 1000                  1000            any n                           n in 0,1,2,3,63,64,65,200,1000: complete
# excess ncols - nrows: gauss -985..1274 incl. 0, 1, 61..70; lanczos -20,-1,0,1,2,3,4,10,50 (64 never).
# Added by the audit (boundary_cases, yielded first in both tiers): gauss at 127/128/129/191/192/193 in each dimension, excess
# exactly 64, 1023/1024/1025; Lanczos with 64, 65, 127, 128, 129, 255, 256, 257 rows (excess 1 and 64), each replayed by the
# Lean model; qsopt/optmul/spmul with row indices 65535/65536/65537/65539 and with column indices 65535/65536/65537; one 65-row
# matrix with rank(B B^T B) >= 64 > rank((B^T B)^3) (sharp non-termination criterion, see `oracle`).
import math
import random
from vlib.pipeline import Case
import props.c14_small as sm

PID = "C14"
GEN = []
LEAN = ["Ymq.Props.C14"] + sm.LEAN
AUDIT = "Ymq.Audit.C14"
THEOREMS = ["Ymq.C14." + t for t in (
    "gauss_inv gauss_total gauss_kernel gauss_independent gauss_count "
    "qs_optimize_same_matrix optMul_few_rows block_product_rotation lanczos_final lanczos_final_total").split()]
HYPOTHESES = []
PROFILES = ["release", "chk"]
TIMEOUT = 30.0
RULE = ("boundary family first (both tiers): Gauss with 127/128/129/191/192/193 rows resp. columns (64-bit lanes of the 256-bit "
        "storage items), excess exactly 64, 1023..1025; Lanczos with 64, 65, 127..129, 255..257 rows at excess 1 and 64, replayed by the "
        "model; sparse products with row / column indices 65535..65539 (u32 coordinates); one 65-row matrix with rank(B B^T B) >= 64 > "
        "rank((B^T B)^3) that must not answer; then "
        "matrices over GF(2): exhaustive up to 3x3, then random shapes 1x1 .. 6000+ columns (thorough: 20000) of two density profiles "
        "(sieve-like: heavy low rows + sparse tail with 1/i decay, uniform: weight-w columns or density 1/2), planted coranks 0..100, "
        "duplicate and zero columns, empty matrix, zero-row matrices; Gauss answers are compared with the Lean model up to 700 columns; "
        "Lanczos is repeated over its own randomness and every returned basis is recomputed by the Lean model from (B, Y); "
        "half of the Lanczos runs at verbosity Info/Verbose (library default Info); a missing Lanczos answer is accepted only when the oracle "
        "finds rank((B^T B)^3) < 64 (implied by rank(B B^T B) < 64), and at least 90 % of the runs on matrices with corank 1..100 must return a vector; "
        "non-trivial = at least 2 columns; distinct by request line")
MODELLED = [
    "matrix::gf2::kernel_gauss line by line on bit lists: leading-zero index, first minimum, the three swaps, xor of column and coefficient "
    "row, both debug assertions, both exits, the code after the loop (Ymq/Model/Gf2.lean)",
    "matrix::gf2::qs_optimize (dense 64-row block + coordinate list), impl Mul<&Block> for &SparseMatOpt / &SparseMat, &Block * &Block "
    "(word level: rotate_right accumulation, SmallMat::transpose, rotate_left; proved equal to the bilinear sum), and the final stage of "
    "kernel_lanczos: B*Y, bit columns, kernel_gauss, Y*K, swap_remove of null vectors",
]
UNMODELLED = [
    "the main loop of the block Lanczos iteration (the three-term recurrence, mul_aab_opt, Block::muladd, the random source) is not modelled: "
    "the theorem lanczos_final holds for EVERY block Y, the iteration is an arbitrary producer of Y (exported by the hook and replayed); its 64x64 "
    "core (SmallMat rank / rank_reverse / mask / pseudoinverse / inverse, genblock's acceptance rule) IS modelled: see the C14Small entries",
    "bitvec_simd::BitVec and wide::u64x4 storage (SIMD xor, leading_zeros, the raw pointer read of the first lane) are modelled as bit lists",
    "the order produced by sort_unstable_by_key in qs_optimize (only a permutation of the coordinate list; the product is proved independent of it)",
    "termination of kernel_lanczos: genblock loops forever when rank(B B^T B) < 64 (no block Y with a full-rank Gram matrix exists); one such "
    "matrix is run on purpose (3 s limit) and a missing answer is accepted by the oracle ONLY when it computes rank((B^T B)^3) < 64 itself "
    "(the exact condition: the Gram matrix is Y^T (B^T B)^3 Y; one 65-row matrix with rank(B B^T B) >= 64 > rank((B^T B)^3) is run as well); "
    "final_step calls kernel_lanczos only with more than 5000 rows each holding at least 2 entries, where such a rank is not reachable in practice",
]

LS = 64
M64 = (1 << 64) - 1

# ---------------------------------------------------------------- plain GF(2) linear algebra


def rank_of(vs):
    """rank of a family of ints (bit vectors) by elimination on the top bit"""
    piv = {}
    r = 0
    for v in vs:
        while v:
            h = v.bit_length() - 1
            p = piv.get(h)
            if p is None:
                piv[h] = v
                r += 1
                break
            v ^= p
    return r


def bits_of(x):
    """indices of the set bits, increasing"""
    if x.bit_count() * 40 < x.bit_length():
        out = []
        while x:
            low = x & -x
            out.append(low.bit_length() - 1)
            x ^= low
        return out
    return [i for i, ch in enumerate(reversed(bin(x)[2:])) if ch == "1"]


def mat_vec(cols, v):
    """xor of the columns selected by the bits of v"""
    acc = 0
    for j in bits_of(v):
        acc ^= cols[j]
    return acc


def col_int_parity(col):
    x = 0
    for i in col:
        x ^= 1 << i
    return x


def col_int_or(col):
    x = 0
    for i in col:
        x |= 1 << i
    return x


# ---------------------------------------------------------------- request encoding

def enc_sparse(cols):
    if not cols:
        return "-"
    return ";".join(",".join(map(str, c)) if c else "-" for c in cols)


def dec_sparse(ncols, s):
    if ncols == 0:
        return []
    return [[] if c == "-" else [int(x) for x in c.split(",")] for c in s.split(";")]


def enc_words(ws):
    return ",".join("%x" % w for w in ws) if ws else "-"


def dec_words(s):
    return [] if s == "-" else [int(x, 16) for x in s.split(",")]


def dec_vecs(s):
    return [] if s == "-" else [int(x, 16) for x in s.split(",")]


def sparse_of_int(x):
    return bits_of(x)


_cache = {}


def gauss_matrix(case):
    """columns of a gf2_gauss request as ints; None when the columns do not all have the same length"""
    key = ("g", case.line)
    if key in _cache:
        return _cache[key]
    nrows, ncols, fmt, data = case.args[:4]
    nrows, ncols = int(nrows), int(ncols)
    ragged = False
    if fmt == "s":
        cols = [col_int_or(c) for c in dec_sparse(ncols, data)]
        ragged = any(c >> nrows for c in cols)
    elif fmt == "h":
        cols = [] if ncols == 0 else [int(h, 16) for h in data.split(",")]
    else:
        strs = [] if ncols == 0 else ["" if c == "e" else c for c in data.split(",")]
        ragged = len(set(len(s) for s in strs)) > 1
        nrows = len(strs[0]) if strs else 0
        cols = [sum(1 << i for i, ch in enumerate(s) if ch == "1") for s in strs]
    res = (nrows, ncols, None if ragged else cols)
    if len(_cache) > 64:
        _cache.clear()
    _cache[key] = res
    return res


def sparse_matrix(case):
    key = ("s", case.line)
    if key in _cache:
        return _cache[key]
    nrows, ncols, data = int(case.args[0]), int(case.args[1]), case.args[2]
    cols = dec_sparse(ncols, data)
    res = (nrows, ncols, cols)
    if len(_cache) > 64:
        _cache.clear()
    _cache[key] = res
    return res


_rank_cache = {}

# Lanczos answers judged by the oracle (both profiles together): see the floor in `oracle`
FLOOR = {"runs": 0, "nonempty": 0, "corank0_runs": 0, "corank_gt100_runs": 0, "corank_gt100_nonempty": 0,
         "vectors_judged": 0, "hang_rank_lt_64": 0}


def extra_coverage():
    d = {"lanczos_nonempty_floor": dict(FLOOR, rule="runs on matrices with 1 <= corank <= 100: at least 90 % must return a vector")}
    d.update(sm.extra_coverage())
    return d


def finding_key(case, ans, profile):
    return sm.finding_key(case, ans, profile) if case.op in sm.OPS else None


def rank_bbtb(cols, nrows):
    """rank of B * (B^T B) for the matrix with columns `cols`"""
    rows = [0] * nrows
    for j, x in enumerate(cols):
        for i in bits_of(x):
            rows[i] |= 1 << j
    a = []
    for x in cols:                      # column j of A = B^T B is the xor of the rows of B selected by column j
        acc = 0
        for i in bits_of(x):
            acc ^= rows[i]
        a.append(acc)
    return rank_of([mat_vec(cols, v) for v in a])


def rank_a3(cols, nrows):
    """rank of A^3, A = B^T B, for the matrix with columns `cols`. genblock keeps drawing blocks Y until the Gram matrix of
    B A Y, which is Y^T A^3 Y, has rank 64: such a Y exists iff rank(A^3) >= 64 (a symmetric form of rank >= 64 over GF(2) has a
    non-degenerate subspace of dimension 64: orthonormal vectors when it is not alternating, 32 hyperbolic pairs when it is).
    rank(A^3) <= rank(B A) = rank(B B^T B), with strict inequality possible (the dot product may be degenerate on Im(B A))."""
    rows = [0] * nrows
    for j, x in enumerate(cols):
        for i in bits_of(x):
            rows[i] |= 1 << j
    a = [mat_vec(rows, x) for x in cols]            # column j of A (symmetric, ncols x ncols)
    a2 = [mat_vec(a, v) for v in a]
    return rank_of([mat_vec(a, v) for v in a2])


def rank_cached(line, cols):
    key = hash(tuple(cols))
    r = _rank_cache.get(key)
    if r is None:
        r = rank_of(cols)
        if len(_rank_cache) > 4096:
            _rank_cache.clear()
        _rank_cache[key] = r
    return r


# ---------------------------------------------------------------- matrix generators

def col_sieve(rng, nrows, heavy):
    """one column with the profile of a relation matrix: row i is set with probability min(1/2, heavy/(i+2))"""
    x = 0
    lim = min(nrows, 96)
    for i in range(lim):
        if rng.random() < min(0.5, heavy / (i + 2)):
            x |= 1 << i
    if nrows > lim:
        # tail: expected number of entries heavy*ln((nrows+2)/(lim+2)), positions with density ~ 1/(i+2)
        lam = heavy * math.log((nrows + 2) / (lim + 2))
        cnt = max(0, int(rng.gauss(lam, math.sqrt(lam) + 0.5) + 0.5))
        for _ in range(cnt):
            i = int((lim + 2) * math.exp(rng.random() * math.log((nrows + 2) / (lim + 2)))) - 2
            i = min(max(i, lim), nrows - 1)
            x ^= 1 << i
    return x


def col_uniform(rng, nrows, weight):
    if nrows == 0:
        return 0
    if weight is None:
        return rng.getrandbits(nrows)
    x = 0
    for i in rng.sample(range(nrows), min(weight, nrows)):
        x |= 1 << i
    return x


def compress_rows(cols, nrows):
    """what relations.rs final_step does before calling a solver: rows (primes) with at most one occurrence are
    dropped and the others are sorted by decreasing number of occurrences"""
    occ = [0] * nrows
    sp = [bits_of(c) for c in cols]
    for c in sp:
        for i in c:
            occ[i] += 1
    keep = sorted((i for i in range(nrows) if occ[i] >= 2), key=lambda i: -occ[i])
    pos = {i: k for k, i in enumerate(keep)}
    out = []
    for c in sp:
        x = 0
        for i in c:
            k = pos.get(i)
            if k is not None:
                x |= 1 << k
        out.append(x)
    return out, len(keep)


class Elim:
    """incremental elimination: tells whether a new column is independent of the accepted ones"""

    def __init__(self):
        self.piv = {}

    def add(self, v):
        while v:
            h = v.bit_length() - 1
            p = self.piv.get(h)
            if p is None:
                self.piv[h] = v
                return True
            v ^= p
        return False


def make_matrix(rng, nrows, ncols, profile, corank=0, dups=0, zeros=0, indep=True):
    """(columns as ints, nrows). ncols - corank - dups - zeros fresh columns (independent when `indep` and the
    shape allows it, so that the corank is exactly corank + dups + zeros), `corank` xor-combinations of 2..4 other
    columns, `dups` copies, `zeros` null columns; shuffled. Profile `sieve`: row i of a column is set with
    probability min(1/2, heavy/(i+2)) (heavy low rows, sparse tail); `sieve-c`: the same followed by the row
    compression of final_step (nrows becomes the number of rows kept); `uniform`: weight-w columns or density 1/2."""
    heavy = rng.choice([1.0, 2.0, 3.5])
    weight = rng.choice([None, 1, 2, 3, 5, 12, 24])
    fresh = max(0, ncols - corank - dups - zeros)
    if profile == "sieve-c":
        cand = [col_sieve(rng, nrows + nrows // 3 + 4, heavy) for _ in range(fresh + fresh // 8 + 8)]
        cand, nrows = compress_rows(cand, nrows + nrows // 3 + 4)
    else:
        cand = None
    cols = []
    el = Elim() if indep and ncols <= 1500 else None      # beyond: the corank is whatever the profile gives
    tries = 0
    while len(cols) < fresh and tries < 3 * fresh + 20:
        tries += 1
        if cand is not None:
            if not cand:
                break
            c = cand.pop()
        else:
            c = col_sieve(rng, nrows, heavy) if profile == "sieve" else col_uniform(rng, nrows, weight)
        if el is None or el.add(c):
            cols.append(c)
    for _ in range(min(corank, ncols - len(cols))):
        if cols:
            x = 0
            for c in rng.sample(cols, min(len(cols), rng.randrange(2, 5))):
                x ^= c
            cols.append(x)
        else:
            cols.append(0)
    for _ in range(min(dups, ncols - len(cols))):
        cols.append(rng.choice(cols) if cols else 0)
    for _ in range(min(zeros, ncols - len(cols))):
        cols.append(0)
    while len(cols) < ncols and profile != "sieve-c":
        cols.append(col_sieve(rng, nrows, heavy) if profile == "sieve" else col_uniform(rng, nrows, weight))
    rng.shuffle(cols)
    return cols, nrows


def shape_class(ncols):
    if ncols <= 8:
        return "n<=8"
    if ncols <= 64:
        return "n<=64"
    if ncols <= 300:
        return "n<=300"
    if ncols <= 2000:
        return "n<=2000"
    if ncols <= 5000:
        return "n<=5000"
    return "n>5000"


def corank_class(c):
    if c == 0:
        return "corank0"
    if c == 1:
        return "corank1"
    if c <= 10:
        return "corank2-10"
    if c <= 100:
        return "corank11-100"
    return "corank>100"


def gauss_case(cols, nrows, k=True, fmt=None, timeout=None, tag=""):
    ncols = len(cols)
    if fmt is None:
        dens = sum(bin(c).count("1") for c in cols)
        fmt = "s" if dens * 6 < ncols * (nrows // 4 + 1) else "h"
    if fmt == "s":
        data = enc_sparse([sparse_of_int(c) for c in cols])
    elif fmt == "h":
        data = ",".join("%x" % c for c in cols) if cols else "-"
    else:
        data = ",".join(("".join("1" if (c >> i) & 1 else "0" for i in range(nrows)) or "e") for c in cols) if cols else "-"
    return Case(f"gf2_gauss {nrows} {ncols} {fmt} {data}", k=k, timeout=timeout, tag=tag)


def add_repeats(rng, sp, nrows):
    """repeat some row indices inside some columns (an index listed twice cancels, three times counts once)"""
    for c in sp:
        if rng.randrange(3) == 0 and nrows:
            for _ in range(rng.randrange(1, 4)):
                i = rng.choice(c) if c and rng.randrange(2) else rng.randrange(min(nrows, rng.choice([64, nrows])))
                c.extend([i] * rng.choice([1, 2, 2, 3]))
            rng.shuffle(c)


def lanczos_case(cols, nrows, run, fu=True, timeout=None, shuffle_rng=None, repeats=False):
    sp = [sparse_of_int(c) for c in cols]
    if repeats:
        add_repeats(shuffle_rng, sp, nrows)
    if shuffle_rng is not None:
        for c in sp:
            shuffle_rng.shuffle(c)
    # the library default is Info: half of the runs print the progress messages (stderr is discarded)
    verb = ("silent", "info", "verbose", "info")[run % 4]
    return Case(f"gf2_lanczos {nrows} {len(cols)} {enc_sparse(sp)} {run} {verb}", k=False, timeout=timeout,
                tag="fu" if fu else "")


def block(rng, n):
    c = rng.randrange(6)
    if c == 0:
        return [rng.choice([0, 1, M64, 1 << 63, rng.getrandbits(64)]) for _ in range(n)]
    if c == 1:
        return [1 << rng.randrange(64) for _ in range(n)]
    return [rng.getrandbits(64) for _ in range(n)]


def exhaustive_small():
    for nrows in range(0, 4):
        for ncols in range(0, 4):
            if nrows * ncols > 9:
                continue
            for m in range(1 << (nrows * ncols)):
                cols = [(m >> (nrows * j)) & ((1 << nrows) - 1) for j in range(ncols)]
                yield gauss_case(cols, nrows, fmt="b" if ncols and nrows else "h")


PROFILES_M = ["sieve", "sieve-c", "uniform"]


def gauss_cases(rng, scale, extended):
    yield from exhaustive_small()
    # tiny and small shapes, all corank classes, duplicates and zero columns
    for _ in range(500 * scale):
        nrows = rng.choice([0, 1, 2, 3, 4, 5, 7, 8, 9, 15, 16, 17, 31, 33, 63, 64, 65])
        ncols = rng.choice([1, 2, 3, 4, 5, 7, 8, 9, 15, 16, 17, 31, 33, 63, 64, 65, 70])
        corank = rng.choice([0, 0, 1, 2, 5, ncols // 2])
        cols, nr = make_matrix(rng, nrows, ncols, rng.choice(PROFILES_M), corank,
                               dups=rng.choice([0, 0, 1, 3]), zeros=rng.choice([0, 0, 1, 2]), indep=rng.randrange(4) > 0)
        yield gauss_case(cols, nr, fmt=rng.choice(["s", "h", "b"]) if nr else "h")
    # medium: compared with the Lean model
    for _ in range(110 * scale):
        ncols = rng.randrange(66, 301) if rng.randrange(12) else rng.randrange(301, 700)
        corank = rng.choice([0, 0, 1, 1, 3, 10, 40, 100])
        extra = rng.choice([0, 0, 1, 2])
        nrows = max(1, ncols - corank - extra + rng.choice([0, 0, 1, 5, 30]))
        cols, nr = make_matrix(rng, nrows, ncols, rng.choice(PROFILES_M), min(corank, ncols),
                               dups=extra // 2, zeros=extra - extra // 2)
        yield gauss_case(cols, nr)
    # 256-bit storage boundaries of bitvec_simd (nbits = 255, 256, 257, 511, 512, 513)
    for nrows in (255, 256, 257, 511, 512, 513):
        for ncols in (nrows - 1, nrows + 2):
            cols, nr = make_matrix(rng, nrows, ncols, "sieve", rng.choice([0, 2]))
            yield gauss_case(cols, nr, k=ncols <= 300)
    # large: oracle only (final_step uses kernel_gauss up to 5000 rows)
    sizes = [700, 1500, 2500, 4000, 5050] if scale == 1 else [700, 1000, 1500, 2000, 3000, 4000, 5050, 6200]
    for ncols in sizes * (1 if scale == 1 else 2):
        for profile in (["sieve-c"] if ncols > 3000 else ["sieve-c", "uniform"]):
            corank = rng.choice([0, 1, 7, 60, 100])
            extra = rng.choice([0, 0, 3])
            nrows = ncols - corank - extra + rng.choice([0, 5, 30])
            cols, nr = make_matrix(rng, nrows, ncols, profile, corank, dups=extra // 2, zeros=extra - extra // 2)
            yield gauss_case(cols, nr, k=False, timeout=300)
    # ragged columns: the assert on the lengths
    yield Case("gf2_gauss 2 2 b 10,1", o=True)
    yield Case("gf2_gauss 2 3 b 10,11,101", o=True)
    yield Case("gf2_gauss 3 2 s 0,1;4", o=True)


def sieve_compressed(rng, rows0, ncand):
    """ncand sieve-like columns on rows0 rows, then the row compression of final_step"""
    heavy = rng.choice([1.0, 2.0, 3.5])
    cand = [col_sieve(rng, rows0, heavy) for _ in range(ncand)]
    return compress_rows(cand, rows0)


def lanczos_matrix(rng, nrows, excess, profile, corank):
    """(columns, rows). ncols = rows + excess; `corank` planted xor-combinations, some duplicate / null columns
    (with independent fresh columns the corank is max(excess, 0) + corank + dups + zeros)"""
    extra = rng.choice([0, 0, 1, 2])
    if profile == "sieve-c":
        cols, nr = sieve_compressed(rng, nrows, nrows + max(excess, 0) + 8)
        want = max(1, min(len(cols), nr + excess - corank - extra))
        cols = cols[:want]
        el = list(cols)
        for _ in range(corank):
            x = 0
            for c in rng.sample(el, min(len(el), rng.randrange(2, 5))):
                x ^= c
            cols.append(x)
        for _ in range(extra // 2):
            cols.append(rng.choice(el))
        for _ in range(extra - extra // 2):
            cols.append(0)
        rng.shuffle(cols)
        return cols, nr
    ncols = nrows + excess
    return make_matrix(rng, nrows, ncols, profile, corank, dups=extra // 2, zeros=extra - extra // 2)


def lanczos_cases(rng, scale, extended):
    run = 0
    # medium matrices: several runs each
    for _ in range(30 * scale):
        nrows = rng.randrange(150, 400)
        excess = rng.choice([-20, -1, 0, 0, 1, 3, 10, 50])
        corank = min(rng.choice([0, 0, 1, 1, 5, 30, 100]), nrows + min(excess, 0) - 110)   # keep the rank well above 64
        cols, nr = lanczos_matrix(rng, nrows, excess, rng.choice(PROFILES_M), corank)
        if rank_of(cols) < 100:
            continue          # kernel_lanczos needs rank(B B^T B) >= 64 to leave genblock (see the explicit case below)
        rep = rng.randrange(4) == 0
        for _ in range(3):
            run += 1
            yield lanczos_case(cols, nr, run, timeout=20, shuffle_rng=rng, repeats=rep)
    # one matrix, 20 runs over the routine's own randomness
    for _ in range(scale):
        nrows = rng.randrange(300, 600)
        cols, nr = lanczos_matrix(rng, nrows, 4, "sieve-c", 8)
        for _ in range(20):
            run += 1
            yield lanczos_case(cols, nr, run, timeout=20)
    # large
    for nrows in ([1200, 2500] if scale == 1 else [1200, 2500, 4000, 8000]):
        for profile in ("sieve-c", "uniform"):
            corank = rng.choice([0, 1, 10, 60])
            cols, nr = lanczos_matrix(rng, nrows, rng.choice([0, 1, 5]), profile, corank)
            for _ in range(2):
                run += 1
                yield lanczos_case(cols, nr, run, timeout=120)
    # above the switch of final_step (size = number of rows > 5000 selects Lanczos)
    for nrows in ([5600, 6400] if scale == 1 else [5300, 6100, 9000, 12000, 20000]):
        cols, nr = lanczos_matrix(rng, nrows + nrows // 4, rng.choice([2, 10]), "sieve-c", rng.choice([3, 40]))
        for _ in range(2 if scale == 1 else 3):
            run += 1
            yield lanczos_case(cols, nr, run, timeout=600, shuffle_rng=rng if run % 2 else None)
    # fewer than 64 rows: the copy of the dense block indexes out of range (panic, documented)
    cols, nr = make_matrix(rng, 40, 50, "uniform", 3)
    yield lanczos_case(cols, nr, 0, fu=False, timeout=10)
    # rank below 64: genblock never finds a block with a full-rank Gram matrix (no answer; termination is not part of C14)
    cols, nr = make_matrix(rng, 120, 130, "uniform", 80)
    c = lanczos_case(cols, nr, 0, fu=False, timeout=3)
    c.profiles = ["release"]
    yield c


def product_cases(rng, scale, extended):
    for _ in range(150 * scale):
        nrows = rng.choice([1, 10, 63, 64, 65, 100, 128, 129, 200, 300])
        ncols = rng.choice([0, 1, 2, 63, 64, 65, 100, 250])
        cols, nrows = make_matrix(rng, nrows, ncols, rng.choice(["sieve", "uniform"]), indep=False)
        sp = [sparse_of_int(c) for c in cols]
        for c in sp:
            rng.shuffle(c)
        if rng.randrange(3) == 0:
            add_repeats(rng, sp, nrows)
        y = block(rng, ncols if rng.randrange(12) else ncols + 1)
        m = f"{nrows} {ncols} {enc_sparse(sp)}"
        yield Case(f"gf2_qsopt {m}")
        yield Case(f"gf2_optmul {m} {enc_words(y)}")
        yield Case(f"gf2_spmul {m} {enc_words(y)}")
    for _ in range(150 * scale):
        n = rng.choice([0, 1, 2, 3, 63, 64, 65, 200, 1000])
        x, y = block(rng, n), block(rng, n if rng.randrange(15) else n + 1)
        yield Case(f"gf2_blockdot {enc_words(x)} {enc_words(y)}")


def _fork(rng, label):
    """own stream for the boundary family: depends on the run's seed, leaves the stream of the older families untouched"""
    return random.Random(f"{label}:{rng.getstate()[1][:4]}")


def boundary_cases(rng, tier):
    """size audit: shapes at the storage boundaries that the random families reach only by chance (see SIZE AUDIT above)"""
    # kernel_gauss: 64-bit lanes inside the first 256-bit item, as column length (nrows) and as coefficient length (ncols)
    for n in (127, 128, 129, 191, 192, 193):
        cols, nr = make_matrix(rng, n, n + 2, "uniform", 1)                # nrows = n, corank >= 2
        yield gauss_case(cols, nr)
        cols, nr = make_matrix(rng, n - 3, n, "sieve", 2, dups=1)          # ncols = n, more columns than rows
        yield gauss_case(cols, nr)
    # excess exactly 64 (kernel of dimension >= 64 = one full lane of coefficient rows)
    for n in (64, 192):
        cols, nr = make_matrix(rng, n, n + 64, "sieve", 0)
        yield gauss_case(cols, nr)
    # four storage items
    for nrows, ncols in ((1023, 1025), (1024, 1024), (1025, 1023)):
        cols, nr = make_matrix(rng, nrows, ncols, "sieve", 2)
        yield gauss_case(cols, nr, k=False)
    # kernel_lanczos: the smallest supported number of rows (64 = dense block only, 65 = one coordinate row) and the storage
    # boundaries of the final stage (BitVec of nrows bits for B*Y, of ncols bits for the basis); excess 1 and 64
    run = 1000
    for nrows in (64, 65, 127, 128, 129, 255, 256, 257):
        for excess, profile, corank in ((1, "sieve", 0), (64, "uniform", 3)):
            for _ in range(60):
                cols, nr = make_matrix(rng, nrows, nrows + excess, profile, corank)
                if rank_a3(cols, nr) >= LS:           # genblock terminates with probability 1
                    break
            else:
                continue
            run += 1
            yield lanczos_case(cols, nr, run, timeout=20, shuffle_rng=rng)
    # coordinates are stored as u32: row and column indices on both sides of 2^16 (the random product cases stop at 300 x 250,
    # the Lanczos runs at 7764 rows in quick, 21647 in thorough; 2^32 itself is out of reach)
    sp = [[0, 63, 64, 65535, 65536, 65539], [65536], [5, 65537, 65537, 64], []]
    m = f"65540 {len(sp)} {enc_sparse(sp)}"
    y = [rng.getrandbits(64) for _ in sp]
    yield Case(f"gf2_qsopt {m}")
    yield Case(f"gf2_optmul {m} {enc_words(y)}")
    yield Case(f"gf2_spmul {m} {enc_words(y)}")
    ncols = 65538
    sp = [[] for _ in range(ncols)]
    sp[0], sp[65535], sp[65536], sp[65537] = [0, 64], [1, 64, 129], [0, 100], [64, 63]
    y = [0] * ncols
    for j in (0, 7, 65535, 65536, 65537):
        y[j] = rng.getrandbits(64)
    m = f"130 {ncols} {enc_sparse(sp)}"
    yield Case(f"gf2_qsopt {m}")
    yield Case(f"gf2_optmul {m} {enc_words(y)}")
    yield Case(f"gf2_spmul {m} {enc_words(y)}")
    # sharp non-termination criterion: rank(B B^T B) >= 64 but rank((B^T B)^3) < 64 (needs >= 65 rows): no block Y exists
    for _ in range(400):
        cols, nr = make_matrix(rng, 65, 65 + rng.choice([1, 3, 70]), "uniform", 0)
        if rank_bbtb(cols, nr) >= LS and rank_a3(cols, nr) < LS:
            c = lanczos_case(cols, nr, 0, fu=False, timeout=3)
            c.profiles = ["release"]
            yield c
            break


def cases(tier, rng, extended=False):
    scale = 1 if tier == "quick" else 6
    if extended:
        scale *= 4
    yield from boundary_cases(_fork(rng, "C14-boundary"), tier)
    yield from sm.cases(tier, _fork(rng, "C14-small"), extended)
    yield from gauss_cases(rng, scale, extended)
    yield from product_cases(rng, scale, extended)
    yield from lanczos_cases(rng, scale, extended)


def corpus_case(line):
    if line.split(" ", 1)[0] in sm.OPS:
        return sm.corpus_case(line)
    # `!nok ` prefix: not compared with the model; `!fu ` prefix: Lanczos line whose basis is replayed by the model
    if line.startswith("!nok "):
        return Case(line[5:], k=False)
    if line.startswith("gf2_lanczos "):
        return Case(line, k=False, tag="fu", timeout=30)
    return Case(line)


# ---------------------------------------------------------------- follow-up (Lanczos replay by the model)

def followup(case, ans):
    if case.op in sm.OPS:
        return sm.followup(case, ans)
    if case.op != "gf2_lanczos" or case.tag != "fu":
        return None
    parts = ans.split(" ")
    if len(parts) != 2:
        return None
    a = case.args
    return (f"gf2_lanczos_final {a[0]} {a[1]} {a[2]} {parts[1]}", parts[0])


# ---------------------------------------------------------------- oracle

def oracle(case, ans):
    if case.op in sm.OPS:
        return sm.oracle(case, ans)
    op = case.op
    if op == "gf2_gauss":
        nrows, ncols, cols = gauss_matrix(case)
        if cols is None:
            return None if ans == "panic" else "columns of different lengths must be refused (assert)"
        if ans in ("panic", "abort", "hang", "?"):
            return f"no value returned ({ans})"
        ker = dec_vecs(ans)
        for v in ker:
            if v == 0:
                return "null vector returned"
            if v >> ncols:
                return "vector longer than the number of columns"
            if mat_vec(cols, v) != 0:
                return "returned vector is not in the kernel"
        if rank_of(ker) != len(ker):
            return "returned family is linearly dependent"
        r = rank_cached(case.line, cols)
        if len(ker) != ncols - r:
            return f"returned {len(ker)} vectors, ncols - rank = {ncols - r}"
        return None
    if op == "gf2_lanczos":
        nrows, ncols, sp = sparse_matrix(case)
        cols = [col_int_parity(c) for c in sp]
        if ans == "hang":
            # documented non-termination: genblock needs a block Y with rank(Gram(B A Y)) = 64, A = B^T B, which
            # does not exist when rank(B B^T B) < 64. Any other missing answer is a failure.
            r3 = rank_bbtb(cols, nrows)
            if r3 < LS:
                FLOOR["hang_rank_lt_64"] += 1
                return None
            # sharp form (size audit, matrices with 65 rows): the Gram matrix is Y^T A^3 Y, so a block exists iff rank(A^3) >= 64
            ra3 = rank_a3(cols, nrows)
            if ra3 < LS:
                FLOOR["hang_rank_lt_64"] += 1
                return None
            return f"no answer within the time limit although rank(B B^T B) = {r3} and rank((B^T B)^3) = {ra3} are >= 64"
        if ans == "panic" and nrows < LS:
            return None          # documented: fewer than 64 rows index out of the dense copy (theorem optMul_few_rows)
        parts = ans.split(" ")
        if len(parts) != 2:
            return f"no value returned ({ans})"
        ker = dec_vecs(parts[0])
        y = dec_words(parts[1])
        if len(y) != ncols:
            return "recorded block Y has the wrong length"
        for v in ker:
            if v == 0:
                return "null vector returned"
            if v >> ncols:
                return "vector longer than the number of columns"
            if mat_vec(cols, v) != 0:
                return "returned vector is not in the kernel"
        # the property allows an empty answer, the check must not become vacuous: on matrices with 1 <= corank <= 100
        # every measured run returns at least one vector (quick 114/114, 112/112, thorough 616/616); floor 90 %
        corank = ncols - rank_cached(case.line, cols)
        if 1 <= corank <= 100:
            FLOOR["runs"] += 1
            if ker:
                FLOOR["nonempty"] += 1
            elif FLOOR["runs"] >= 10 and FLOOR["nonempty"] < 0.9 * FLOOR["runs"]:
                return (f"empty answer on a matrix of corank {corank}: only {FLOOR['nonempty']} of {FLOOR['runs']} runs on "
                        "matrices with corank 1..100 returned a vector (floor 90 %)")
        elif corank == 0:
            FLOOR["corank0_runs"] += 1
        else:
            FLOOR["corank_gt100_runs"] += 1
            FLOOR["corank_gt100_nonempty"] += 1 if ker else 0
        FLOOR["vectors_judged"] += len(ker)
        return None
    if op in ("gf2_optmul", "gf2_spmul"):
        nrows, ncols, sp = sparse_matrix(case)
        y = dec_words(case.args[3])
        bad = len(y) != ncols or any(i >= nrows for c in sp for i in c) or (op == "gf2_optmul" and nrows < LS)
        if bad:
            return None if ans == "panic" else "out-of-domain product must be refused"
        if ans in ("panic", "abort", "hang", "?"):
            return f"no value returned ({ans})"
        want = [0] * nrows
        for j, c in enumerate(sp):
            for i in c:
                want[i] ^= y[j]
        return None if dec_words(ans) == want else "B*Y differs from the plain sparse product"
    if op == "gf2_qsopt":
        nrows, ncols, sp = sparse_matrix(case)
        # the optimised form must denote the same matrix as `impl Mul<&Block> for &SparseMat` (repeated indices cancel in pairs)
        blockw = [col_int_parity([i for i in c if i < LS]) for c in sp]
        xy = sorted((i, j) for j, c in enumerate(sp) for i in c if i >= LS)
        xys = ",".join(f"{i}.{j}" for i, j in xy) if xy else "-"
        want = f"{nrows} {ncols} {enc_words(blockw)} {xys}"
        return None if ans == want else "optimised representation differs from (dense rows 0..63, coordinates of the rest)"
    if op == "gf2_blockdot":
        x, y = dec_words(case.args[0]), dec_words(case.args[1])
        if len(x) != len(y):
            return None if ans == "panic" else "blocks of different lengths must be refused"
        if ans in ("panic", "abort", "hang", "?"):
            return f"no value returned ({ans})"
        want = [0] * LS
        for xw, yw in zip(x, y):
            i = 0
            while xw:
                if xw & 1:
                    want[i] ^= yw
                xw >>= 1
                i += 1
        return None if dec_words(ans) == want else "block product differs from the bilinear sum"
    return "unknown op"


# ---------------------------------------------------------------- distribution

def klass(case, ans):
    if case.op in sm.OPS:
        return sm.klass(case, ans)
    op = case.op
    bad = "/" + ans if ans in ("panic", "abort", "hang", "?") else ""
    if op == "gf2_gauss":
        nrows, ncols, cols = gauss_matrix(case)
        if cols is None:
            return "gauss/ragged" + bad
        if ncols == 0:
            return "gauss/empty" + bad
        if nrows == 0:
            return "gauss/zero-rows" + bad
        r = rank_cached(case.line, cols)
        return f"gauss/{shape_class(ncols)}/{corank_class(ncols - r)}" + bad
    if op == "gf2_lanczos":
        nrows, ncols, sp = sparse_matrix(case)
        if bad:
            return f"lanczos/{shape_class(ncols)}" + ("/rows<64" if nrows < LS else "") + bad
        cols = [col_int_parity(c) for c in sp]
        r = rank_cached(case.line.rsplit(" ", 1)[0], cols)
        nret = len(dec_vecs(ans.split(" ")[0]))
        return f"lanczos/{shape_class(ncols)}/{corank_class(ncols - r)}/returned{'0' if nret == 0 else ('<=corank' if nret <= ncols - r else '>corank')}"
    return op + bad


def nontrivial(case, ans):
    if case.op in sm.OPS:
        return sm.nontrivial(case, ans)
    if case.op in ("gf2_gauss", "gf2_lanczos", "gf2_qsopt", "gf2_optmul", "gf2_spmul"):
        return int(case.args[1]) >= 2
    return len(case.args[0]) > 1


CLAIM = ("Lean theorems, for all matrices over GF(2) (any shape, any content), about a line-by-line model of kernel_gauss: the coefficient "
         "rows track the column operations (cols[j] = M*coefs[j], zeros[j] = leading_zeros(cols[j]) at every step, processed columns with strictly "
         "increasing leading positions, coefs linearly independent), no panic site is reached, every returned vector is non-zero and in the kernel, "
         "the returned family is linearly independent (list form and Mathlib LinearIndependent over ZMod 2) and has ncols - rank M elements "
         "(Mathlib Matrix.rank); about the final stage of kernel_lanczos for EVERY block Y (each returned vector is non-zero and B*v = 0; no "
         "panic on well-formed input with >= 64 rows), about qs_optimize (same matrix as the plain sparse product, for any order of the "
         "coordinate list) and about the rotation trick of the block product. The models are tied to the code by differential runs (release and "
         "checked profiles), the Lanczos block Y being exported by a hook and replayed by the model; a Python GF(2) oracle checks every "
         "implementation answer (kernel membership, non-zero, independence and count = ncols - rank by its own elimination).")
LEVEL_NOTE = ("Trusted: Lean kernel (+propext, Classical.choice, Quot.sound); the hand-written models' correspondence to the Rust code (sampled "
              "by the harness in both profiles, not proved); Python integers in the oracle. The randomised Lanczos iteration is not modelled "
              "(arbitrary producer of Y): soundness of what is returned does not depend on it; its termination (genblock loops forever when "
              "rank(B B^T B) < 64), its panic with fewer than 64 rows (theorem optMul_few_rows) and its completeness (it may return no vector, "
              "or many copies of few vectors) are outside the property. Sparse theorems assume row indices < k and fewer than 2^32 rows and "
              "columns (coordinates are stored as u32). Repeated row indices in a sparse column cancel in pairs (after fix 8171183 in every routine).")
TECHNIQUE = "Lean 4 proof about a hand model + differential correspondence check + spec oracle"


# ---- the 64x64 core (props/c14_small.py)
THEOREMS = list(THEOREMS) + list(sm.THEOREMS)
MODELLED = list(MODELLED) + list(sm.MODELLED)
UNMODELLED = list(UNMODELLED) + list(sm.UNMODELLED)
RULE = RULE + " || " + sm.RULE_SMALL
