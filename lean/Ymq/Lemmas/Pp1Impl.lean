/-
Lemmas about the whole-function model of `pp1::pp1` (Model/Pp1Impl.lean): the invariant of `check_gcd_factors`
threaded through every exit, the index range of the giant steps, and the values of both step lists over a
commutative ring.
-/
import Ymq.Lemmas.Pm1Impl
import Ymq.Lemmas.Stage2Algebra
import Ymq.Model.Pp1Impl

namespace Ymq.Pp1Impl
open Ymq.Primes Ymq.ExpModn Ymq.Gen Ymq.Stage2
open Ymq.Pm1Impl (Proper proper_splitResult proper_none checkGcdFactors_inv_of_some)

/-! ### properness -/

theorem outer_inv (n b1 : Nat) (pp : Nat → Bool) : ∀ (fuel : Nat) (ps : PrimeSieve) (blk : List Nat) (m : Nat) (s : S1)
    (factors : List Nat) (nred : Nat) (out : S1Out),
    CgfInv n ⟨factors, nred, []⟩ → outer n b1 pp fuel ps blk m s factors nred = some out →
    match out with
    | .ret r => Proper n r
    | .stage2 _ _ factors' nred' => CgfInv n ⟨factors', nred', []⟩
  | 0, _, _, _, _, _, _, _, _, h => by simp [outer] at h
  | f + 1, ps, blk, m, s, factors, nred, out, hinv, h => by
    rw [outer] at h
    split at h
    · exact absurd h (by simp)
    · rename_i s' _
      split at h
      · exact absurd h (by simp)
      · rename_i st hc
        simp only [Option.some.injEq] at h
        subst h
        refine proper_splitResult (checkGcdFactors_inv_of_some ?_ hc)
        exact hinv
      · rename_i st hc
        have hst : CgfInv n st := by
          refine checkGcdFactors_inv_of_some ?_ hc
          exact hinv
        have hst' : CgfInv n ⟨st.factors, st.nred, []⟩ := hst
        split at h
        · exact absurd h (by simp)
        · dsimp only at h
          split at h
          · simp only [Option.some.injEq] at h
            subst h
            exact hst'
          · split at h
            · exact absurd h (by simp)
            · exact outer_inv n b1 pp f _ _ _ _ _ _ out hst' h

theorem stage2_proper {n : Nat} {pp : Nat → Bool} {m g d1 d2 : Nat} {factors : List Nat} {nred : Nat}
    {r : Option (List Nat × Nat)} (hinv : CgfInv n ⟨factors, nred, []⟩)
    (h : stage2 n pp m g d1 d2 factors nred = some r) : Proper n r := by
  unfold stage2 at h
  split at h
  · exact absurd h (by simp)
  · split at h
    · exact absurd h (by simp)
    · rename_i st hc
      simp only [Option.some.injEq] at h
      subst h
      refine proper_splitResult (checkGcdFactors_inv_of_some ?_ hc)
      exact hinv

theorem pp1_proper' {n seed b1 b2 : Nat} {pp : Nat → Bool} {r : Option (List Nat × Nat)} (hn : 0 < n)
    (h : pp1 n seed b1 b2 pp = some r) : Proper n r := by
  have hinv0 : CgfInv n ⟨[], n, []⟩ := ⟨by simp, by simp, hn, by simp⟩
  unfold pp1 at h
  split at h
  · exact absurd h (by simp)
  · split at h
    · exact absurd h (by simp)
    · split at h
      · exact absurd h (by simp)
      · split at h
        · exact absurd h (by simp)
        · split at h
          · exact absurd h (by simp)
          · split at h
            · exact absurd h (by simp)
            · split at h
              · exact absurd h (by simp)
              · rename_i r' ho
                simp only [Option.some.injEq] at h
                subst h
                exact outer_inv n b1 pp _ _ _ _ _ _ _ _ hinv0 ho
              · rename_i m g factors nred ho
                exact stage2_proper (outer_inv n b1 pp _ _ _ _ _ _ _ _ hinv0 ho) h

/-! ### giant steps: indices -/

theorem giantLoop_idx {α} (mul sub : α → α → α) (step : α) : ∀ (k i : Nat) (dgprev dg : α) (acc : List (Nat × α)),
    (giantLoop mul sub step k i dgprev dg acc).map (·.1) = (List.range' (i + 1) k).reverse ++ acc.map (·.1)
  | 0, _, _, _, _ => by simp [giantLoop]
  | k + 1, i, dgprev, dg, acc => by
    rw [giantLoop, giantLoop_idx mul sub step k (i + 1)]
    simp [List.range'_succ]

theorem giantSteps_idx {α} (mul sub : α → α → α) (two dg : α) (d2 : Nat) (hd2 : 1 ≤ d2) :
    (giantSteps mul sub two dg d2).map (·.1) = List.range' 1 d2 := by
  unfold giantSteps
  rw [List.map_reverse, giantLoop_idx]
  simp only [List.map_cons, List.map_nil, List.reverse_append, List.reverse_cons, List.reverse_nil, List.nil_append,
    List.reverse_reverse]
  obtain ⟨k, rfl⟩ : ∃ k, d2 = k + 1 := ⟨d2 - 1, by omega⟩
  simp [List.range'_succ]

/-! ### giant steps and baby steps: values over a commutative ring -/

section ring
variable {R : Type*} [CommRing R]

/-- `V_{(i+2)·d} = V_{(i+1)·d}·V_d − V_{i·d}` -/
theorem chebV_step (g : R) (d i : Nat) :
    chebV g ((i + 2) * d) = chebV g ((i + 1) * d) * chebV g d - chebV g (i * d) := by
  have := chebV_add g d (i * d)
  rw [show (i + 2) * d = d + i * d + d by ring, show (i + 1) * d = d + i * d by ring]
  exact this

theorem giantLoop_vals (g : R) (d1 : Nat) : ∀ (k i : Nat) (dgprev dg : R) (acc : List (Nat × R)),
    dgprev = chebV g (i * d1) → dg = chebV g ((i + 1) * d1) →
    giantLoop (· * ·) (· - ·) (chebV g d1) k (i + 1) dgprev dg acc =
      ((List.range' (i + 2) k).map (fun j => (j, chebV g (j * d1)))).reverse ++ acc
  | 0, _, _, _, _, _, _ => by simp [giantLoop]
  | k + 1, i, dgprev, dg, acc, hp, hd => by
    rw [giantLoop]
    have hn : dg * chebV g d1 - dgprev = chebV g ((i + 1 + 1) * d1) := by
      rw [hp, hd]; exact (chebV_step g d1 i).symm
    rw [giantLoop_vals g d1 k (i + 1) dg _ _ hd hn]
    simp [List.range'_succ, hn]

theorem giantSteps_vals (g : R) (d1 d2 : Nat) (hd2 : 1 ≤ d2) :
    giantSteps (· * ·) (· - ·) (2 : R) (chebV g d1) d2 = (List.range' 1 d2).map (fun i => (i, chebV g (i * d1))) := by
  unfold giantSteps
  rw [giantLoop_vals g d1 (d2 - 1) 0 2 (chebV g d1) _ (by simp [chebV]) (by simp)]
  obtain ⟨k, rfl⟩ : ∃ k, d2 = k + 1 := ⟨d2 - 1, by omega⟩
  simp [List.range'_succ]

/-- `V_{e+4} = V_{e+2}·V_2 − V_e` -/
theorem chebV_step2 (g : R) (e : Nat) : chebV g (e + 4) = chebV g (e + 2) * chebV g 2 - chebV g e := by
  have := chebV_add g 2 e
  rw [show e + 4 = 2 + e + 2 by ring, show e + 2 = 2 + e by ring]
  exact this

/-- every entry the baby loop pushes is `(b, V_b(g))` with `b` odd, `b < d1/2`, prime to `3` and to `d1` -/
theorem babyLoop_vals (g : R) (d1 : Nat) : ∀ (f e : Nat) (bprev b : R) (acc : List (Nat × R)),
    bprev = (if e = 0 then chebV g 1 else chebV g (2 * e - 1)) → b = chebV g (2 * e + 1) →
    (∀ x ∈ acc, x.2 = chebV g x.1 ∧ (x.1 = 1 ∨ (x.1 % 2 = 1 ∧ x.1 < d1 / 2 ∧ x.1 % 3 ≠ 0 ∧ Nat.gcd x.1 d1 = 1))) →
    ∀ x ∈ babyLoop (· * ·) (· - ·) (chebV g 2) d1 f (2 * e + 1) bprev b acc,
      x.2 = chebV g x.1 ∧ (x.1 = 1 ∨ (x.1 % 2 = 1 ∧ x.1 < d1 / 2 ∧ x.1 % 3 ≠ 0 ∧ Nat.gcd x.1 d1 = 1))
  | 0, _, _, _, acc, _, _, hacc => by simpa [babyLoop] using hacc
  | f + 1, e, bprev, b, acc, hp, hb, hacc => by
    rw [babyLoop]
    split
    · rename_i hlt
      have hval : b * chebV g 2 - bprev = chebV g (2 * (e + 1) + 1) := by
        rw [hp, hb]
        by_cases he : e = 0
        · subst he; simp [chebV]
        · rw [if_neg he]
          obtain ⟨k, rfl⟩ : ∃ k, e = k + 1 := ⟨e - 1, by omega⟩
          have := chebV_step2 g (2 * k + 1)
          rw [show 2 * (k + 1 + 1) + 1 = 2 * k + 1 + 4 by ring, show 2 * (k + 1) + 1 = 2 * k + 1 + 2 by ring,
            show 2 * (k + 1) - 1 = 2 * k + 1 by omega]
          exact this.symm
      have hprev : b = (if e + 1 = 0 then chebV g 1 else chebV g (2 * (e + 1) - 1)) := by
        rw [if_neg (by omega), hb]; congr 1
      have he2 : 2 * e + 1 + 2 = 2 * (e + 1) + 1 := by ring
      simp only [he2]
      apply babyLoop_vals g d1 f (e + 1) b _ _ hprev hval
      intro x hx
      split at hx
      · rename_i hc
        rcases List.mem_cons.mp hx with rfl | hx
        · rw [he2] at hlt
          exact ⟨hval, Or.inr ⟨by simp only; omega, hlt, hc.1, hc.2⟩⟩
        · exact hacc x hx
      · exact hacc x hx
    · exact hacc

theorem babySteps_vals (g : R) (d1 : Nat) :
    ∀ x ∈ babySteps (· * ·) (· - ·) g (chebV g 2) d1,
      x.2 = chebV g x.1 ∧ (x.1 = 1 ∨ (x.1 % 2 = 1 ∧ x.1 < d1 / 2 ∧ x.1 % 3 ≠ 0 ∧ Nat.gcd x.1 d1 = 1)) := by
  intro x hx
  unfold babySteps at hx
  rw [List.mem_reverse] at hx
  refine babyLoop_vals g d1 d1 0 g g [(1, g)] (by simp [chebV]) (by simp [chebV]) ?_ x hx
  intro y hy
  simp only [List.mem_singleton] at hy
  subst hy
  exact ⟨by simp [chebV], Or.inl rfl⟩

end ring

end Ymq.Pp1Impl
