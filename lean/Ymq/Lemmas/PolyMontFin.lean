/-
C10: the Montgomery operations on the type of reduced residues (`montFin : Ops (Fin n)`) and the extensional
equality, on every input, of the exact NTT steps of the arith_poly models with the code's `_fft_longmul` /
`_fft_midmul` over the word-level `convolve_modn_ntt` (`fftLongmul_word_eq`, `fftMidmul_word_eq`).
-/
import Ymq.Lemmas.PolyMont

namespace Ymq.PolyMul
open Polynomial Finset

/-- the Montgomery operations on reduced residues (`MInt`s are reduced by construction: the type says so) -/
def montFin (n kw rinv : Nat) (hn : 0 < n) : Ops (Fin n) where
  zero := ⟨0, hn⟩
  one := ⟨2 ^ (64 * kw) % n, Nat.mod_lt _ hn⟩
  add a b := ⟨(a.val + b.val) % n, Nat.mod_lt _ hn⟩
  sub a b := ⟨(a.val + n - b.val % n) % n, Nat.mod_lt _ hn⟩
  mul a b := ⟨a.val * b.val * rinv % n, Nat.mod_lt _ hn⟩
  inv a := (Ymq.PolySpec.invMod a.val n).map fun i =>
    ⟨i * (2 ^ (64 * kw) * 2 ^ (64 * kw) % n) % n, Nat.mod_lt _ hn⟩
  eq a b := a.val % n == b.val % n

variable (n kw rinv : Nat) (hn : 0 < n)

theorem montFin_homC (hR : 2 ^ (64 * kw) * rinv % n = 1 % n) :
    HomC (montFin n kw rinv hn) (fun x => mphi n rinv x.val) := by
  have h := montOps_homC n kw rinv hn hR
  refine ⟨⟨⟨h.zero, h.one, fun a b => h.add a.val b.val, fun a b => h.sub a.val b.val,
    fun a b => h.mul a.val b.val⟩, fun a b hab => h.eq_sound a.val b.val hab, ?_⟩,
    fun a b hab => h.eq_complete a.val b.val hab⟩
  intro a i hi
  have : (montFin n kw rinv hn).inv a = some i := hi
  unfold montFin at this
  simp only [Option.map_eq_some_iff] at this
  obtain ⟨i0, hi0, rfl⟩ := this
  apply h.inv_sound a.val
  show (Ymq.PolySpec.invMod a.val n).map _ = _
  rw [hi0]; rfl

theorem dot_fin (f g : Nat → Fin n) : ∀ m,
    (dot (montFin n kw rinv hn) f g m).val = dot (montOps n kw rinv) (fun a => (f a).val) (fun a => (g a).val) m := by
  intro m
  unfold dot
  induction m with
  | zero => rfl
  | succ m ih =>
    rw [List.range_succ, List.foldl_append, List.foldl_append]
    simp only [List.foldl_cons, List.foldl_nil]
    show (Fin.val (List.foldl _ _ _) + (f m).val * (g m).val * rinv % n) % n = _
    rw [ih]; rfl

theorem getD_map_val (p : List (Fin n)) (a : Nat) :
    (p.map Fin.val).getD a 0 = (p.getD a (montFin n kw rinv hn).zero).val := by
  rw [List.getD_eq_getElem?_getD, List.getD_eq_getElem?_getD, List.getElem?_map]
  cases p[a]? <;> rfl

theorem cycCoefO_fin (size : Nat) (p q : List (Fin n)) (k : Nat) :
    (cycCoefO (montFin n kw rinv hn) size p q k).val =
      cycCoefO (montOps n kw rinv) size (p.map Fin.val) (q.map Fin.val) k := by
  unfold cycCoefO
  rw [dot_fin]
  congr 1
  · funext a; exact (getD_map_val n kw rinv hn p a).symm
  · funext a; exact (getD_map_val n kw rinv hn q _).symm

theorem mulCoefO_fin (p q : List (Fin n)) (k : Nat) :
    (mulCoefO (montFin n kw rinv hn) p q k).val =
      mulCoefO (montOps n kw rinv) (p.map Fin.val) (q.map Fin.val) k := by
  unfold mulCoefO
  rw [dot_fin]
  congr 1
  · funext a; exact (getD_map_val n kw rinv hn p a).symm
  · funext a; exact (getD_map_val n kw rinv hn q _).symm

/-- the exact steps of the models commute with forgetting the type -/
theorem fftLongmul_fin (k zlen : Nat) (p q : List (Fin n)) :
    (fftLongmul k (montFin n kw rinv hn) zlen p q).map (·.map Fin.val) =
      fftLongmul k (montOps n kw rinv) zlen (p.map Fin.val) (q.map Fin.val) := by
  unfold fftLongmul
  simp only [List.length_map]
  split_ifs
  · rfl
  · rfl
  · rfl
  · simp only [Option.map_some, List.map_map]
    congr 1
    apply List.map_congr_left
    intro i _
    simp only [Function.comp]
    split_ifs
    · exact mulCoefO_fin n kw rinv hn p q i
    · rfl

theorem fftMidmul_fin (k zlen : Nat) (p q : List (Fin n)) :
    (fftMidmul k (montFin n kw rinv hn) zlen p q).map (·.map Fin.val) =
      fftMidmul k (montOps n kw rinv) zlen (p.map Fin.val) (q.map Fin.val) := by
  unfold fftMidmul
  simp only [List.length_map]
  split_ifs
  · rfl
  · rfl
  · rfl
  · simp only [Option.map_some, List.map_map]
    congr 1
    apply List.map_congr_left
    intro i _
    simp only [Function.comp]
    split_ifs
    · exact cycCoefO_fin n kw rinv hn _ p q _
    · rfl


/-- the code's `_fft_longmul` over the word-level `convolve_modn_ntt` -/
def wordLongmul (m : Ymq.Crt.Mzp) (rts : List (List (List Nat))) (rinv zlen : Nat) (p q : List Nat) :
    Option (List Nat) :=
  if p.length = 0 ∨ q.length = 0 then none                  -- p.len() - 1
  else
    Ymq.Crt.convolveNtt m rts rinv (2 ^ Ymq.Checked.bitlen (p.length - 1 + (q.length - 1)))
      (p.map (Ymq.Limbs.ofNat 8)) (q.map (Ymq.Limbs.ofNat 8)) zlen 0

/-- the code's `_fft_midmul` over the word-level `convolve_modn_ntt` -/
def wordMidmul (m : Ymq.Crt.Mzp) (rts : List (List (List Nat))) (rinv zlen : Nat) (p q : List Nat) :
    Option (List Nat) :=
  if !isPow2 q.length then none                             -- assert!(qlen & (qlen - 1) == 0)
  else if p.length ≠ 2 * q.length - 1 then none
  else
    Ymq.Crt.convolveNtt m rts rinv (2 * q.length) (p.map (Ymq.Limbs.ofNat 8)) (q.map (Ymq.Limbs.ofNat 8)) zlen
      (q.length - 1)

theorem log2Exact_big : ∀ (f L : Nat), f ≤ L → Ymq.Crt.log2Exact f (2 ^ L) = none := by
  intro f
  induction f with
  | zero => intro L _; rfl
  | succ f ih =>
    intro L hL
    obtain ⟨L', rfl⟩ : ∃ L', L = L' + 1 := ⟨L - 1, by omega⟩
    unfold Ymq.Crt.log2Exact
    have hp : 0 < 2 ^ L' := Nat.pow_pos (by decide)
    have h1 : ¬ (2 ^ (L' + 1) = 1) := by rw [pow_succ]; omega
    have h2 : ¬ (2 ^ (L' + 1) % 2 = 1 ∨ 2 ^ (L' + 1) = 0) := by rw [pow_succ]; omega
    rw [if_neg h1, if_neg h2, show 2 ^ (L' + 1) / 2 = 2 ^ L' by rw [pow_succ]; omega, ih L' (by omega)]
    rfl

/-- `convolve_modn_ntt` refuses a size above the context's -/
theorem convolveNtt_small (m : Ymq.Crt.Mzp) (rts : List (List (List Nat))) (rinv L : Nat) (p1 p2 : List (List Nat))
    (reslen offset : Nat) (h : m.k < L ∨ L = 0) :
    Ymq.Crt.convolveNtt m rts rinv (2 ^ L) p1 p2 reslen offset = none := by
  unfold Ymq.Crt.convolveNtt
  by_cases hL : L < 64
  · rw [Ymq.Crt.log2Exact_pow' 64 L hL]
    simp only
    rcases h with h | h
    · rw [if_pos h]
    · split_ifs <;> rfl
  · rw [log2Exact_big 64 L (by omega)]

variable {n kw rinv hn}

open Ymq.Crt in
/-- **the exact product step of the arith_poly models, at the typed Montgomery operations, is the code's
`_fft_longmul` over the word-level `convolve_modn_ntt` — on every input** -/
theorem fftLongmul_word_eq (k : Nat) (m : Mzp) (hm : Ymq.Crt.new n k = some m)
    (hbits : Ymq.Checked.bitlen n ≤ 512) (hk31 : k ≤ 31) (rts : List (List (List Nat)))
    (hrts : rootsPacked m = some rts) (zlen : Nat) (p q : List (Fin n)) :
    (fftLongmul k (montFin n kw rinv hn) zlen p q).map (·.map Fin.val) =
      wordLongmul m rts rinv zlen (p.map Fin.val) (q.map Fin.val) := by
  rw [fftLongmul_fin]
  have hmk : m.k = k := (new_fields3 n k m hm).1
  have hlt : ∀ (l : List (Fin n)), ∀ v ∈ l.map Fin.val, v < n := by
    intro l v hv
    obtain ⟨x, _, rfl⟩ := List.mem_map.1 hv
    exact x.isLt
  set P := p.map Fin.val with hP
  set Q := q.map Fin.val with hQ
  unfold wordLongmul
  by_cases h0 : P.length = 0 ∨ Q.length = 0
  · rw [if_pos h0]; unfold fftLongmul; rw [if_pos h0]
  · rw [if_neg h0]
    set L := Ymq.Checked.bitlen (P.length - 1 + (Q.length - 1)) with hL
    by_cases hsmall : k < L ∨ L = 0
    · rw [convolveNtt_small m rts rinv L _ _ zlen 0 (by rw [hmk]; exact hsmall)]
      unfold fftLongmul
      rw [if_neg h0]
      simp only [← hL]
      rcases hsmall with h | h
      · by_cases hz : L = 0
        · rw [if_pos hz]
        · rw [if_neg hz, if_pos h]
      · rw [if_pos h]
    · have hL1 : 1 ≤ L := by omega
      have hx : 1 ≤ P.length - 1 + (Q.length - 1) := by
        by_contra hcon
        have hz : P.length - 1 + (Q.length - 1) = 0 := by omega
        rw [hL, hz] at hL1
        simp [Ymq.Checked.bitlen] at hL1
      obtain ⟨rts', e1, e2⟩ := fftLongmul_refines n k m hm hn hbits hk31 kw rinv zlen P Q (by omega) (by omega)
        (by omega) (by omega) (hlt p) (hlt q)
      rw [hrts] at e1
      have : rts' = rts := by injection e1 with h; exact h.symm
      subst this
      exact e2.symm

open Ymq.Crt in
/-- **the exact middle-product step of the arith_poly models, at the typed Montgomery operations, is the
code's `_fft_midmul` over the word-level `convolve_modn_ntt` — on every input** -/
theorem fftMidmul_word_eq (k : Nat) (m : Mzp) (hm : Ymq.Crt.new n k = some m)
    (hbits : Ymq.Checked.bitlen n ≤ 512) (hk31 : k ≤ 31) (rts : List (List (List Nat)))
    (hrts : rootsPacked m = some rts) (zlen : Nat) (p q : List (Fin n)) :
    (fftMidmul k (montFin n kw rinv hn) zlen p q).map (·.map Fin.val) =
      wordMidmul m rts rinv zlen (p.map Fin.val) (q.map Fin.val) := by
  rw [fftMidmul_fin]
  have hmk : m.k = k := (new_fields3 n k m hm).1
  have hlt : ∀ (l : List (Fin n)), ∀ v ∈ l.map Fin.val, v < n := by
    intro l v hv
    obtain ⟨x, _, rfl⟩ := List.mem_map.1 hv
    exact x.isLt
  set P := p.map Fin.val with hP
  set Q := q.map Fin.val with hQ
  unfold wordMidmul
  by_cases hpow : isPow2 Q.length = true
  · rw [hpow]
    simp only [Bool.not_true, Bool.false_eq_true, if_false]
    by_cases hpl : P.length ≠ 2 * Q.length - 1
    · rw [if_pos hpl]; unfold fftMidmul; rw [hpow]; simp only [Bool.not_true, Bool.false_eq_true, if_false]
      rw [if_pos hpl]
    · rw [if_neg hpl]
      obtain ⟨hne, hq⟩ := isPow2_spec hpow
      set e := Q.length.log2 with he
      have hsize : 2 * Q.length = 2 ^ (e + 1) := by rw [hq, pow_succ]; ring
      by_cases hk : k < e + 1
      · rw [hsize, convolveNtt_small m rts rinv (e + 1) _ _ zlen _ (Or.inl (by rw [hmk]; exact hk))]
        unfold fftMidmul
        rw [hpow]
        simp only [Bool.not_true, Bool.false_eq_true, if_false]
        rw [if_neg hpl, if_pos (by rw [← he]; exact hk)]
      · obtain ⟨rts', e1, e2⟩ := fftMidmul_refines n k m hm hn hbits hk31 kw rinv zlen e P Q hq
          (by omega) (by omega) (hlt p) (hlt q)
        rw [hrts] at e1
        have : rts' = rts := by injection e1 with h; exact h.symm
        subst this
        exact e2.symm
  · have hpow' : isPow2 Q.length = false := by simpa using hpow
    rw [hpow']
    simp only [Bool.not_false, if_true]
    unfold fftMidmul
    rw [hpow']
    simp

end Ymq.PolyMul
