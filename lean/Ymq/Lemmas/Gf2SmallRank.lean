/-
C14 "small", helper lemmas part 3 (Mathlib): the loop invariant of `SmallMat::rank` and its consequences:
no panic, `rk` = number of selected rows = `Matrix.rank`, the selected original rows span the row space.
-/
import Ymq.Lemmas.Gf2SmallLin
import Ymq.Lemmas.Gf2SmallEntry

namespace Ymq.Gf2Small
open Matrix Module

theorem lz_xor_gt {n i a b : Nat} (hi : i < n) (ha : lz n a = i) (hb : lz n b = i) : i < lz n (a ^^^ b) := by
  apply Nat.lt_of_not_le
  intro hle
  have hbit := lz_bit (n := n) (w := a ^^^ b) (by omega)
  rw [Nat.testBit_xor] at hbit
  rcases Nat.lt_or_eq_of_le hle with h | h
  · rw [lz_below (n := n) (w := a) (by omega), lz_below (n := n) (w := b) (by omega)] at hbit
    cases hbit
  · have h1 := lz_bit (n := n) (w := a) (by omega)
    have h2 := lz_bit (n := n) (w := b) (by omega)
    rw [ha] at h1; rw [hb] at h2
    rw [h, h1, h2] at hbit
    cases hbit

/-- span of the original rows selected by `mask` -/
def selSpan (n : Nat) (M : Mat) (mask : Nat) : Submodule (ZMod 2) (Fin n → ZMod 2) :=
  Submodule.span (ZMod 2) {v | ∃ t, t < n ∧ mask.testBit t = true ∧ v = vec n (row M t)}

theorem selSpan_mono {n : Nat} {M : Mat} {m m' : Nat} (h : ∀ t, m.testBit t = true → m'.testBit t = true) :
    selSpan n M m ≤ selSpan n M m' := by
  apply Submodule.span_mono
  rintro v ⟨t, ht, hm, rfl⟩
  exact ⟨t, ht, h t hm, rfl⟩

theorem mem_selSpan {n : Nat} {M : Mat} {m t : Nat} (ht : t < n) (h : m.testBit t = true) :
    vec n (row M t) ∈ selSpan n M m :=
  Submodule.subset_span ⟨t, ht, h, rfl⟩

/-- loop invariant of `rank` on the functions `c k = m.0[k]`, `o k = orig_idx[k]`, before column `i` -/
structure RInv (n : Nat) (M : Mat) (c o : Nat → Nat) (mask rk i : Nat) : Prop where
  rk_le : rk ≤ i
  lt : ∀ k, k < n → c k < 2 ^ n
  origLt : ∀ k, k < n → o k < n
  origInj : ∀ k k', k < n → k' < n → o k = o k' → k = k'
  origSurj : ∀ a, a < n → ∃ k, k < n ∧ o k = a
  maskBit : ∀ t, mask.testBit t = true ↔ ∃ q, q < rk ∧ o q = t
  pivLt : ∀ q, q < rk → lz n (c q) < i
  pivMono : ∀ q q', q < q' → q' < rk → lz n (c q) < lz n (c q')
  rest : ∀ k, rk ≤ k → k < n → i ≤ lz n (c k)
  span : spanOf n c = spanOf n (row M)
  rel : ∀ k, k < n → vec n (c k) + vec n (row M (o k)) ∈ selSpan n M mask
  pc : popcount n mask = rk

theorem RInv.init {n : Nat} {M : Mat} (hw : ∀ k, k < n → row M k < 2 ^ n) :
    RInv n M (row M) (fun k => k) 0 0 0 where
  rk_le := Nat.le_refl _
  lt := hw
  origLt := fun k hk => hk
  origInj := fun _ _ _ _ h => h
  origSurj := fun a ha => ⟨a, ha, rfl⟩
  maskBit := fun t => by simp
  pivLt := fun q hq => by omega
  pivMono := fun q q' _ hq => by omega
  rest := fun k _ _ => Nat.zero_le _
  span := rfl
  rel := fun k _ => by
    have : vec n (row M k) + vec n (row M k) = 0 := by
      rw [← two_smul (ZMod 2), show (2 : ZMod 2) = 0 from by decide, zero_smul]
    rw [this]; exact Submodule.zero_mem _
  pc := popcount_zero n

/-- a column without pivot -/
theorem RInv.skip {n : Nat} {M : Mat} {c o : Nat → Nat} {mask rk i : Nat} (h : RInv n M c o mask rk i)
    (hno : ∀ k, k < n → lz n (c k) ≠ i) : RInv n M c o mask rk (i + 1) :=
  { h with
    rk_le := Nat.le_succ_of_le h.rk_le
    pivLt := fun q hq => Nat.lt_succ_of_lt (h.pivLt q hq)
    rest := fun k hk hkn => by
      have := h.rest k hk hkn
      have := hno k hkn
      omega }

/-- a column with a pivot found at position `j` -/
theorem RInv.step {n : Nat} {M : Mat} {c o : Nat → Nat} {mask rk i : Nat} (h : RInv n M c o mask rk i)
    (hi : i < n) {j : Nat} (hj : j < n) (hlz : lz n (c j) = i) (c' o' : Nat → Nat)
    (ho' : ∀ k, k < n → o' k = if k = j then o rk else if k = rk then o j else o k)
    (c1 : Nat → Nat) (hc1 : ∀ k, c1 k = if k = j then c rk else if k = rk then c j else c k)
    (hc' : ∀ k, k < n → c' k = if rk < k ∧ lz n (c1 k) = i then c1 k ^^^ c1 rk else c1 k) :
    rk ≤ j ∧ RInv n M c' o' (mask ||| (1 <<< o j)) (rk + 1) (i + 1) := by
  have hrkj : rk ≤ j := by
    apply Nat.le_of_not_lt
    intro hlt
    have := h.pivLt j hlt
    omega
  have hrkn : rk < n := by omega
  refine ⟨hrkj, ?_⟩
  have hc1rk : c1 rk = c j := by
    rw [hc1]
    by_cases e : rk = j
    · subst e; simp
    · simp [e]
  have hc'k : ∀ k, k < n → c' k = if rk < k ∧ lz n (c1 k) = i then c1 k ^^^ c j else c1 k := by
    intro k hk
    rw [hc' k hk, hc1rk]
  have hc1lt : ∀ k, k < n → c1 k < 2 ^ n := by
    intro k hk
    rw [hc1]
    split
    · exact h.lt rk hrkn
    · split
      · exact h.lt j hj
      · exact h.lt k hk
  have hc1low : ∀ k, k < rk → c1 k = c k := by
    intro k hk
    rw [hc1, if_neg (by omega), if_neg (by omega)]
  have hc'low : ∀ k, k < rk → c' k = c k := by
    intro k hk
    rw [hc'k k (by omega), if_neg (by omega), hc1low k hk]
  have hc'rk : c' rk = c j := by
    rw [hc'k rk hrkn, if_neg (by omega), hc1rk]
  have hc1rest : ∀ k, rk ≤ k → k < n → i ≤ lz n (c1 k) := by
    intro k hk hkn
    rw [hc1]
    split
    · exact h.rest rk (Nat.le_refl _) hrkn
    · split
      · omega
      · exact h.rest k hk hkn
  have ho'low : ∀ k, k < rk → o' k = o k := by
    intro k hk
    rw [ho' k (by omega), if_neg (by omega), if_neg (by omega)]
  have ho'rk : o' rk = o j := by
    rw [ho' rk hrkn]
    by_cases e : rk = j
    · subst e; simp
    · simp [e]
  have hnew : mask.testBit (o j) = false := by
    cases hb : mask.testBit (o j) with
    | false => rfl
    | true =>
      obtain ⟨q, hq, hoq⟩ := (h.maskBit (o j)).mp hb
      have := h.origInj q j (by omega) hj hoq
      omega
  have hmask' : ∀ t, (mask ||| (1 <<< o j)).testBit t = true ↔ mask.testBit t = true ∨ t = o j := by
    intro t
    rw [Nat.testBit_or, Nat.one_shiftLeft, Nat.testBit_two_pow]
    constructor
    · intro hh
      rcases Bool.or_eq_true _ _ |>.mp hh with h1 | h1
      · exact Or.inl h1
      · exact Or.inr (of_decide_eq_true h1).symm
    · rintro (h1 | h1)
      · simp [h1]
      · simp [h1]
  have hsel : selSpan n M mask ≤ selSpan n M (mask ||| (1 <<< o j)) :=
    selSpan_mono (fun t ht => (hmask' t).mpr (Or.inl ht))
  have hgen : vec n (row M (o j)) ∈ selSpan n M (mask ||| (1 <<< o j)) :=
    mem_selSpan (h.origLt j hj) ((hmask' _).mpr (Or.inr rfl))
  -- old relation transported through the swap
  have hrel1 : ∀ k, k < n → vec n (c1 k) + vec n (row M (o' k)) ∈ selSpan n M mask := by
    intro k hk
    rw [ho' k hk, hc1]
    split
    · exact h.rel rk hrkn
    · split
      · exact h.rel j hj
      · exact h.rel k hk
  have hpiv : vec n (c j) ∈ selSpan n M (mask ||| (1 <<< o j)) := by
    have h1 := hsel (h.rel j hj)
    have := Submodule.add_mem _ h1 hgen
    rwa [add_assoc, ← two_smul (ZMod 2), show (2 : ZMod 2) = 0 from by decide, zero_smul, add_zero] at this
  exact {
    rk_le := by have := h.rk_le; omega
    lt := by
      intro k hk
      rw [hc'k k hk]
      split
      · exact Nat.xor_lt_two_pow (hc1lt k hk) (h.lt j hj)
      · exact hc1lt k hk
    origLt := by
      intro k hk
      rw [ho' k hk]
      split
      · exact h.origLt rk hrkn
      · split
        · exact h.origLt j hj
        · exact h.origLt k hk
    origInj := by
      intro k k' hk hk' he
      have hσ : ∀ k, k < n → o' k = o (if k = j then rk else if k = rk then j else k) := by
        intro k hk
        rw [ho' k hk]
        split
        · rfl
        · split <;> rfl
      have hσlt : ∀ k, k < n → (if k = j then rk else if k = rk then j else k) < n := by
        intro k hk
        split
        · exact hrkn
        · split
          · exact hj
          · exact hk
      rw [hσ k hk, hσ k' hk'] at he
      have := h.origInj _ _ (hσlt k hk) (hσlt k' hk') he
      split at this <;> split at this <;> (try split at this) <;> (try split at this) <;> omega
    origSurj := by
      intro a ha
      obtain ⟨k, hk, hka⟩ := h.origSurj a ha
      by_cases e1 : k = j
      · refine ⟨rk, hrkn, ?_⟩
        rw [ho'rk, ← e1, hka]
      · by_cases e2 : k = rk
        · refine ⟨j, hj, ?_⟩
          rw [ho' j hj, if_pos rfl, ← e2, hka]
        · refine ⟨k, hk, ?_⟩
          rw [ho' k hk, if_neg e1, if_neg e2, hka]
    maskBit := by
      intro t
      rw [hmask', h.maskBit]
      constructor
      · rintro (⟨q, hq, hqt⟩ | rfl)
        · exact ⟨q, by omega, by rw [ho'low q hq, hqt]⟩
        · exact ⟨rk, by omega, ho'rk⟩
      · rintro ⟨q, hq, hqt⟩
        rcases Nat.lt_or_eq_of_le (Nat.le_of_lt_succ hq) with hlt | heq
        · exact Or.inl ⟨q, hlt, by rw [← ho'low q hlt, hqt]⟩
        · subst heq; exact Or.inr (by rw [← hqt, ho'rk])
    pivLt := by
      intro q hq
      rcases Nat.lt_or_eq_of_le (Nat.le_of_lt_succ hq) with hlt | heq
      · rw [hc'low q hlt]; exact Nat.lt_succ_of_lt (h.pivLt q hlt)
      · subst heq; rw [hc'rk, hlz]; omega
    pivMono := by
      intro q q' hqq hq'
      rcases Nat.lt_or_eq_of_le (Nat.le_of_lt_succ hq') with hlt | heq
      · rw [hc'low q (by omega), hc'low q' hlt]; exact h.pivMono q q' hqq hlt
      · subst heq
        rw [hc'low q hqq, hc'rk, hlz]; exact h.pivLt q hqq
    rest := by
      intro k hk hkn
      rw [hc'k k hkn]
      have h1 := hc1rest k (by omega) hkn
      by_cases hcond : rk < k ∧ lz n (c1 k) = i
      · rw [if_pos hcond]
        exact lz_xor_gt hi hcond.2 hlz
      · rw [if_neg hcond]
        have : lz n (c1 k) ≠ i := fun e => hcond ⟨by omega, e⟩
        omega
    span := by
      rw [← h.span]
      have hs1 : spanOf n c1 = spanOf n c := spanOf_swap c c1 hrkn hj (fun k _ => hc1 k)
      rw [← hs1]
      exact spanOf_xor c1 c' hrkn (fun k => rk < k ∧ lz n (c1 k) = i) (fun hh => by omega)
        (fun k hk => by rw [hc'k k hk, hc1rk])
    rel := by
      intro k hk
      rw [hc'k k hk]
      split
      · rw [vec_xor, add_right_comm]
        exact Submodule.add_mem _ (hsel (hrel1 k hk)) hpiv
      · exact hsel (hrel1 k hk)
    pc := by
      rw [popcount_or_bit (h.origLt j hj) hnew, h.pc] }

/-! ### the model's loop -/

def fstF (rows : Rows) : Nat → Nat := fun k => (rowAt rows k).1
def sndF (rows : Rows) : Nat → Nat := fun k => (rowAt rows k).2

/-- the invariant on the states of the model -/
def SInv (n : Nat) (M : Mat) (st : RankSt) (i : Nat) : Prop :=
  st.rows.length = n ∧ RInv n M (fstF st.rows) (sndF st.rows) st.mask st.rk i

theorem rankCol_inv {n : Nat} {M : Mat} {st : RankSt} {i : Nat} (h : SInv n M st i) (hi : i < n) :
    ∃ st', rankCol n st i = some st' ∧ SInv n M st' (i + 1) := by
  obtain ⟨hlen, hI⟩ := h
  unfold rankCol
  cases hp : position n i st.rows with
  | none =>
    refine ⟨st, rfl, hlen, hI.skip ?_⟩
    intro k hk
    exact position_none hp k (by omega)
  | some j =>
    obtain ⟨hj, hlz, _⟩ := position_some hp
    rw [hlen] at hj
    have hidx : (st.rows.getD j (0, 0)).2 < n := hI.origLt j hj
    simp only [hidx, not_true_eq_false, if_false]
    refine ⟨_, rfl, ?_, ?_⟩
    · simp [List.length_mapIdx, length_swapAt, hlen]
    · have hstep := hI.step hi hj hlz
        (fstF ((swapAt st.rows st.rk j).mapIdx (fun k r =>
          if st.rk < k ∧ lz n r.1 = i then (r.1 ^^^ ((swapAt st.rows st.rk j).getD st.rk (0, 0)).1, r.2) else r)))
        (sndF ((swapAt st.rows st.rk j).mapIdx (fun k r =>
          if st.rk < k ∧ lz n r.1 = i then (r.1 ^^^ ((swapAt st.rows st.rk j).getD st.rk (0, 0)).1, r.2) else r)))
      have hrkj : st.rk ≤ j := by
        apply Nat.le_of_not_lt
        intro hlt
        have := hI.pivLt j hlt
        simp only [fstF] at this
        omega
      have hrk : st.rk < st.rows.length := by omega
      have hj' : j < st.rows.length := by omega
      have hsw : ∀ k, rowAt (swapAt st.rows st.rk j) k =
          if k = j then rowAt st.rows st.rk else if k = st.rk then rowAt st.rows j else rowAt st.rows k :=
        fun k => rowAt_swapAt hrk hj' k
      refine (hstep ?_ (fstF (swapAt st.rows st.rk j)) ?_ ?_).2
      · intro k hk
        simp only [sndF]
        rw [rowAt_mapIdx _ (by rw [length_swapAt]; omega)]
        have : ∀ (c : Prop) [Decidable c] (a : Nat) (r : Nat × Nat), (if c then (a, r.2) else r).2 = r.2 := by
          intro c _ a r; split <;> rfl
        rw [this, hsw]
        split
        · rfl
        · split <;> rfl
      · intro k
        simp only [fstF]
        rw [hsw]
        split
        · rfl
        · split <;> rfl
      · intro k hk
        simp only [fstF]
        rw [rowAt_mapIdx _ (by rw [length_swapAt]; omega)]
        exact (apply_ite Prod.fst _ _ _).trans rfl

theorem rankFold_inv {n : Nat} {M : Mat} (len : Nat) : ∀ (i : Nat) (st : RankSt), SInv n M st i → i + len ≤ n →
    ∃ st', (List.range' i len).foldlM (rankCol n) st = some st' ∧ SInv n M st' (i + len) := by
  induction len with
  | zero => intro i st h _; exact ⟨st, rfl, h⟩
  | succ len ih =>
    intro i st h hle
    obtain ⟨st1, h1, hI1⟩ := rankCol_inv h (by omega)
    obtain ⟨st2, h2, hI2⟩ := ih (i + 1) st1 hI1 (by omega)
    refine ⟨st2, ?_, by rw [show i + (len + 1) = i + 1 + len by omega]; exact hI2⟩
    rw [List.range'_succ, List.foldlM_cons, h1]
    exact h2

theorem SInv.init {n : Nat} {M : Mat} (hw : ∀ k, k < n → row M k < 2 ^ n) : SInv n M (rankInit n M) 0 := by
  refine ⟨by simp [rankInit], ?_⟩
  have h0 := RInv.init (M := M) hw
  -- the initial rows are `(row M k, k)` below `n`; the invariant only reads positions below `n`
  have e1 : ∀ k, k < n → fstF (rankInit n M).rows k = row M k := by
    intro k hk; simp only [fstF, rankInit]; rw [rowAt_map_range n _ hk]
  have e2 : ∀ k, k < n → sndF (rankInit n M).rows k = k := by
    intro k hk; simp only [sndF, rankInit]; rw [rowAt_map_range n _ hk]
  exact {
    rk_le := h0.rk_le
    lt := fun k hk => by rw [e1 k hk]; exact hw k hk
    origLt := fun k hk => by rw [e2 k hk]; exact hk
    origInj := fun k k' hk hk' he => by rwa [e2 k hk, e2 k' hk'] at he
    origSurj := fun a ha => ⟨a, ha, e2 a ha⟩
    maskBit := fun t => by simp [rankInit]
    pivLt := fun q hq => by simp [rankInit] at hq
    pivMono := fun q q' _ hq => by simp [rankInit] at hq
    rest := fun k _ _ => Nat.zero_le _
    span := by
      apply le_antisymm
      · apply spanOf_le; intro k hk; rw [e1 k hk]; exact mem_spanOf _ hk
      · apply spanOf_le; intro k hk; rw [← e1 k hk]; exact mem_spanOf _ hk
    rel := fun k hk => by
      rw [e1 k hk, e2 k hk]
      exact h0.rel k hk
    pc := popcount_zero n }

/-- what `rank` establishes (final state of the loop) -/
structure RankFacts (n : Nat) (M : Mat) (rk mask : Nat) : Prop where
  rk_le : rk ≤ n
  pc : popcount n mask = rk
  maskLt : mask < 2 ^ n
  finrank : finrank (ZMod 2) (spanOf n (row M)) = rk
  sel : selSpan n M mask = spanOf n (row M)
  pivots : ∃ c : Nat → Nat, (∀ q, q < rk → c q < 2 ^ n ∧ lz n (c q) < n ∧ vec n (c q) ∈ spanOf n (row M)) ∧
    (∀ q q', q < q' → q' < rk → lz n (c q) < lz n (c q'))

theorem finrank_of_echelon {n rk : Nat} (c : Nat → Nat) (hrk : rk ≤ n)
    (pivLt : ∀ q, q < rk → lz n (c q) < n)
    (pivMono : ∀ q q', q < q' → q' < rk → lz n (c q) < lz n (c q'))
    (rest : ∀ k, rk ≤ k → k < n → lz n (c k) = n) :
    finrank (ZMod 2) (spanOf n c) = rk := by
  have hli : LinearIndependent (ZMod 2) (fun q : Fin rk => vec n (c q)) := by
    apply linearIndependent_of_lz (fun q : Fin rk => c q) (fun q => pivLt q q.2)
    intro q q' he
    rcases Nat.lt_trichotomy q.1 q'.1 with hlt | heq | hgt
    · have := pivMono q q' hlt q'.2; omega
    · exact Fin.ext heq
    · have := pivMono q' q hgt q.2; omega
  have hsp : spanOf n c = Submodule.span (ZMod 2) (Set.range fun q : Fin rk => vec n (c q)) := by
    apply le_antisymm
    · apply spanOf_le
      intro k hk
      by_cases hkr : k < rk
      · exact Submodule.subset_span ⟨⟨k, hkr⟩, rfl⟩
      · rw [vec_eq_zero_of_lz (rest k (by omega) hk)]; exact Submodule.zero_mem _
    · apply Submodule.span_le.mpr
      rintro _ ⟨q, rfl⟩
      exact mem_spanOf c (by omega)
  rw [hsp, finrank_span_eq_card hli, Fintype.card_fin]

theorem rank_spec_aux {n : Nat} (dbg : Bool) {M : Mat} (hw : ∀ k, k < n → row M k < 2 ^ n) :
    ∃ rk mask, rank n dbg M = some (rk, mask) ∧ RankFacts n M rk mask := by
  obtain ⟨st, hfold, hlen, hI⟩ := rankFold_inv (M := M) n 0 (rankInit n M) (SInv.init hw) (by omega)
  rw [Nat.zero_add] at hI
  refine ⟨st.rk, st.mask, ?_, ?_⟩
  · unfold rank
    rw [List.range_eq_range', hfold]
    simp [hI.pc]
  · have hrest : ∀ k, st.rk ≤ k → k < n → lz n (fstF st.rows k) = n := by
      intro k h1 h2
      have := hI.rest k h1 h2
      have := lz_le n (fstF st.rows k)
      omega
    have hrkn : st.rk ≤ n := hI.rk_le
    have hfin : finrank (ZMod 2) (spanOf n (row M)) = st.rk := by
      rw [← hI.span]
      exact finrank_of_echelon _ hrkn (fun q hq => by have := hI.pivLt q hq; omega) hI.pivMono hrest
    refine ⟨hrkn, hI.pc, ?_, hfin, ?_, ?_⟩
    · apply Nat.lt_pow_two_of_testBit
      intro t ht
      cases hb : st.mask.testBit t with
      | false => rfl
      | true =>
        obtain ⟨q, hq, hqt⟩ := (hI.maskBit t).mp hb
        have := hI.origLt q (by omega)
        omega
    · apply le_antisymm
      · apply Submodule.span_le.mpr
        rintro v ⟨t, ht, _, rfl⟩
        exact mem_spanOf _ ht
      · apply spanOf_le
        intro a ha
        obtain ⟨k, hk, hka⟩ := hI.origSurj a ha
        by_cases hkr : k < st.rk
        · exact mem_selSpan ha ((hI.maskBit a).mpr ⟨k, hkr, hka⟩)
        · have h0 : fstF st.rows k = 0 := eq_zero_of_lz (hI.lt k hk) (hrest k (by omega) hk)
          have := hI.rel k hk
          rwa [h0, vec_zero, zero_add, hka] at this
    · refine ⟨fstF st.rows, fun q hq => ⟨hI.lt q (by omega), by have := hI.pivLt q hq; omega, ?_⟩, hI.pivMono⟩
      rw [← hI.span]
      exact mem_spanOf _ (by omega)

/-! ### consequences in Mathlib's vocabulary -/

theorem card_subtype_eq_popcount (n w : Nat) :
    Fintype.card {t : Fin n // w.testBit t = true} = popcount n w := by
  rw [Fintype.card_subtype, Finset.card_filter, Fin.sum_univ_eq_sum_range (fun t => if w.testBit t = true then 1 else 0) n]
  induction n with
  | zero => simp [popcount]
  | succ n ih => rw [Finset.sum_range_succ, ih, popcount_succ]

theorem spanOf_row_eq (n : Nat) (M : Mat) :
    spanOf n (row M) = Submodule.span (ZMod 2) (Set.range (toMat n M).row) := rfl

theorem RankFacts.matrix_rank {n : Nat} {M : Mat} {rk mask : Nat} (h : RankFacts n M rk mask) :
    (toMat n M).rank = rk := by
  rw [Matrix.rank_eq_finrank_span_row, ← spanOf_row_eq, h.finrank]

theorem selSpan_eq_range (n : Nat) (M : Mat) (mask : Nat) :
    selSpan n M mask = Submodule.span (ZMod 2)
      (Set.range fun t : {t : Fin n // mask.testBit t = true} => toMat n M t.1) := by
  unfold selSpan
  congr 1
  ext v
  constructor
  · rintro ⟨t, ht, hm, rfl⟩
    exact ⟨⟨⟨t, ht⟩, hm⟩, rfl⟩
  · rintro ⟨⟨t, hm⟩, rfl⟩
    exact ⟨t.1, t.2, hm, rfl⟩

/-- the rows selected by the mask are linearly independent -/
theorem RankFacts.independent {n : Nat} {M : Mat} {rk mask : Nat} (h : RankFacts n M rk mask) :
    LinearIndependent (ZMod 2) (fun t : {t : Fin n // mask.testBit t = true} => toMat n M t.1) := by
  rw [linearIndependent_iff_card_eq_finrank_span, card_subtype_eq_popcount, h.pc]
  unfold Set.finrank
  rw [← selSpan_eq_range, h.sel, h.finrank]

end Ymq.Gf2Small
