/-
Lemmas about the model of `ZmodN`, part 2: the combined multiply-reduce `_mint_mulmod`
(CIOS) and `ZmodN::mul`.

Row invariant (window value `A`, `y < n`): `A' · W = A + x_i·y + m·n` and `A < 2n`; after the
`k` rows `A · W^k = x·y + M·n`. Since `A < 2n < 2·W^k` the word above the window is 0 or 1
(the `overflow` flag), and adding `W^k - n` to the low `k` words then yields `A - n < n < W^k`
without carry: the `res[SIZE] = 1` write of the Rust code is unreachable.
-/
import Ymq.Lemmas.ZmodN

namespace Ymq.ZmodN
open Ymq.Limbs

/-- the Montgomery multiplier cancels the low word -/
theorem mont_cancel (N ninv A : Nat) (h : (N * ninv + 1) % W = 0) :
    (A + (A % W * ninv % W) * N) % W = 0 := by
  have h1 : A % W * ninv % W ≡ A * ninv [MOD W] :=
    (Nat.mod_modEq _ _).trans ((Nat.mod_modEq A W).mul_right ninv)
  have h2 : A + (A % W * ninv % W) * N ≡ A + A * ninv * N [MOD W] :=
    Nat.ModEq.add_left A (h1.mul_right N)
  have e : A + A * ninv * N = A * (N * ninv + 1) := by ring
  rw [e] at h2
  have h3 : A * (N * ninv + 1) ≡ A * 0 [MOD W] := Nat.ModEq.mul_left A h
  have := h2.trans h3
  simpa [Nat.ModEq] using this

theorem mulRow_spec (k ninv N : Nat) (n y : List Nat) (xi : Nat) (acc : List Nat)
    (hk : 1 ≤ k) (hnl : n.length = k) (hnv : val n = N)
    (hninv : (N * ninv + 1) % W = 0) (hNk : N < W ^ k)
    (hyl : y.length = k) (hyN : val y < N)
    (hxi : xi < W) (hal : acc.length = k + 1) (haN : val acc < 2 * N) :
    ∃ a, mulRow k ninv n y xi acc = some a ∧ a.length = k + 1 ∧ Wf a ∧ val a < 2 * N ∧
      ∃ m, val a * W = val acc + xi * val y + m * N := by
  obtain ⟨k', rfl⟩ : ∃ k', k = k' + 1 := ⟨k - 1, by omega⟩
  have hW : 1 < W := by decide
  have htl : (acc.take (k' + 1)).length = k' + 1 := by simp [List.length_take]; omega
  obtain ⟨e1, l1, w1⟩ := macRow_spec xi y (acc.take (k' + 1)) 0 (by rw [hyl, htl])
  rw [hyl] at e1 l1
  have hne1 : (macRow xi y (acc.take (k' + 1)) 0).1 ≠ [] := by
    intro h; rw [h] at l1; simp at l1
  have hh1 := headD_mod _ w1 hne1
  obtain ⟨e2, l2, w2⟩ := macRow_spec
    ((macRow xi y (acc.take (k' + 1)) 0).1.headD 0 * ninv % W) n
    (macRow xi y (acc.take (k' + 1)) 0).1 0 (by rw [hnl, l1])
  rw [hnl] at e2 l2
  rw [hnv] at e2
  have eacc := val_take_drop acc (k' + 1)
  rw [drop_cons_getD acc (k' + 1) (by omega), List.drop_eq_nil_of_le (by omega)] at eacc
  simp only [val_cons, val_nil, Nat.mul_zero, Nat.add_zero] at eacc
  unfold mulRow
  simp only []
  generalize hr1 : macRow xi y (acc.take (k' + 1)) 0 = r1 at *
  rw [hh1] at e2 l2 w2 ⊢
  generalize hm : val r1.1 % W * ninv % W = m at *
  generalize hr2 : macRow m n r1.1 0 = r2 at *
  have hne2 : r2.1 ≠ [] := by intro h; rw [h] at l2; simp at l2
  have hh2 := headD_mod _ w2 hne2
  have hmc := mont_cancel N ninv (val r1.1) hninv
  rw [hm] at hmc
  have hz : val r2.1 % W = 0 := by
    have : (val r2.1 + W ^ (k' + 1) * r2.2) % W = val r2.1 % W := by
      rw [pow_succ, Nat.mul_comm (W ^ k') W, Nat.mul_assoc, Nat.add_mul_mod_self_left]
    rw [← this, e2, Nat.add_zero, Nat.add_comm]; exact hmc
  rw [hh2, hz]
  simp only [ne_eq, not_true_eq_false, if_false]
  refine ⟨_, rfl, ?_, ?_⟩
  · simp [l2]
  have htail := val_tail r2.1 w2
  have hdiv : val r2.1 = W * (val r2.1 / W) := by
    have := Nat.div_add_mod (val r2.1) W; omega
  generalize acc.getD (k' + 1) 0 = top at *
  have hd1 := Nat.div_add_mod (top + r1.2) W
  have hd2 := Nat.div_add_mod ((top + r1.2) % W + r2.2) W
  have hmW : m < W := by rw [← hm]; exact Nat.mod_lt _ W_pos
  have hlen_tail : r2.1.tail.length = k' := by simp [l2]
  -- value of the new window
  have hval : val (r2.1.tail ++ [((top + r1.2) % W + r2.2) % W,
      (top + r1.2) / W + ((top + r1.2) % W + r2.2) / W]) * W
      = val acc + xi * val y + m * N := by
    rw [val_append, hlen_tail, htail]
    simp only [val_cons, val_nil, Nat.mul_zero, Nat.add_zero]
    rw [pow_succ] at e1 e2 eacc
    generalize W ^ k' = P at *
    generalize val r2.1 / W = q at *
    generalize (top + r1.2) / W = c1 at *
    generalize ((top + r1.2) % W + r2.2) / W = c2 at *
    generalize ((top + r1.2) % W + r2.2) % W = zin at *
    generalize (top + r1.2) % W = zi at *
    have : zin + W * (c1 + c2) = top + r1.2 + r2.2 := by linarith
    rw [this]
    linarith
  have hbound : val (r2.1.tail ++ [((top + r1.2) % W + r2.2) % W,
      (top + r1.2) / W + ((top + r1.2) % W + r2.2) / W]) < 2 * N := by
    have h1 : xi * val y ≤ (W - 1) * N := Nat.mul_le_mul (by omega) (by omega)
    have h2 : m * N ≤ (W - 1) * N := Nat.mul_le_mul_right _ (by omega)
    have h3 : (W - 1) * N + N = W * N := by
      have : W - 1 + 1 = W := by omega
      calc (W - 1) * N + N = (W - 1 + 1) * N := by ring
        _ = W * N := by rw [this]
    have : val (r2.1.tail ++ [((top + r1.2) % W + r2.2) % W,
      (top + r1.2) / W + ((top + r1.2) % W + r2.2) / W]) * W < 2 * N * W := by
      rw [hval]; linarith only [h1, h2, h3, haN]
    exact Nat.lt_of_mul_lt_mul_right this
  refine ⟨?_, hbound, m, hval⟩
  -- well-formedness: the top word is 0 or 1 because the value is below 2·W^k
  refine Wf_append.2 ⟨Wf_tail w2, ?_⟩
  refine Wf_cons.2 ⟨Nat.mod_lt _ W_pos, Wf_cons.2 ⟨?_, Wf_nil⟩⟩
  by_contra hge
  rw [val_append, hlen_tail] at hbound
  simp only [val_cons, val_nil, Nat.mul_zero, Nat.add_zero] at hbound
  rw [pow_succ] at hNk
  generalize (top + r1.2) / W + ((top + r1.2) % W + r2.2) / W = cc at *
  have : W ^ k' * (W * 2) ≤ W ^ k' * (W * cc) := Nat.mul_le_mul_left _ (Nat.mul_le_mul_left _ (by omega))
  have h5 : W ^ k' * (W * cc) ≤ W ^ k' * (((top + r1.2) % W + r2.2) % W + W * cc) :=
    Nat.mul_le_mul_left _ (by omega)
  linarith only [this, h5, hbound, hNk]


theorem mulRows_spec (k ninv N : Nat) (n y : List Nat)
    (hk : 1 ≤ k) (hnl : n.length = k) (hnv : val n = N)
    (hninv : (N * ninv + 1) % W = 0) (hNk : N < W ^ k)
    (hyl : y.length = k) (hyN : val y < N)
    (xs : List Nat) (hxs : Wf xs) (hne : xs ≠ []) (acc : List Nat)
    (hal : acc.length = k + 1) (haN : val acc < 2 * N) :
    ∃ res ovf, mulRows k ninv n y xs acc = some (res, ovf) ∧ res.length = k ∧ Wf res ∧
      val res + (if ovf then W ^ k else 0) < 2 * N ∧
      ∃ M, (val res + (if ovf then W ^ k else 0)) * W ^ xs.length = val acc + val xs * val y + M * N := by
  induction xs generalizing acc with
  | nil => exact absurd rfl hne
  | cons xi xs ih =>
    have ⟨hxi, hxs'⟩ := Wf_cons.1 hxs
    obtain ⟨a, e1, e2, e3, e4, m, e5⟩ := mulRow_spec k ninv N n y xi acc hk hnl hnv hninv hNk hyl hyN hxi hal haN
    cases xs with
    | nil =>
      simp only [mulRows, e1]
      have ea := val_take_drop a k
      rw [drop_cons_getD a k (by omega), List.drop_eq_nil_of_le (by omega)] at ea
      simp only [val_cons, val_nil, Nat.mul_zero, Nat.add_zero] at ea
      have hlo := val_take_lt e3 k
      have htop : a.getD k 0 ≤ 1 := by
        by_contra h
        have : W ^ k * 2 ≤ W ^ k * a.getD k 0 := Nat.mul_le_mul_left _ (by omega)
        omega
      refine ⟨_, _, rfl, by simp [List.length_take]; omega, Wf_take e3 k, ?_, m, ?_⟩
      · by_cases h0 : a.getD k 0 = 0
        · simp only [h0, ne_eq, not_true_eq_false, decide_false, Bool.false_eq_true, if_false]
          rw [h0] at ea; omega
        · have h1 : a.getD k 0 = 1 := by omega
          simp only [h1, ne_eq, one_ne_zero, not_false_eq_true, decide_true, if_true]
          rw [h1] at ea; omega
      · have : val (a.take k) + (if decide (a.getD k 0 ≠ 0) = true then W ^ k else 0) = val a := by
          by_cases h0 : a.getD k 0 = 0
          · simp only [h0, ne_eq, not_true_eq_false, decide_false, Bool.false_eq_true, if_false]
            rw [h0] at ea; omega
          · have h1 : a.getD k 0 = 1 := by omega
            simp only [h1, ne_eq, one_ne_zero, not_false_eq_true, decide_true, if_true]
            rw [h1] at ea; omega
        rw [this]
        simp only [List.length_cons, List.length_nil, Nat.zero_add, pow_one, val_cons, val_nil,
          Nat.mul_zero, Nat.add_zero]
        exact e5
    | cons xj rest =>
      obtain ⟨res, ovf, f1, f2, f3, f4, M, f5⟩ := ih hxs' (by simp) a e2 e4
      simp only [mulRows, e1]
      refine ⟨res, ovf, f1, f2, f3, f4, m + W * M, ?_⟩
      generalize val res + (if ovf = true then W ^ k else 0) = A at *
      rw [List.length_cons, pow_succ, ← Nat.mul_assoc, f5]
      rw [val_cons xi (xj :: rest)]
      generalize val (xj :: rest) = vx at *
      linarith only [e5]


/-- `mint_mulmod`: never panics (in particular the `res[SIZE] = 1` write is not reached), the
result is below `2n` and is the Montgomery product. Only `y < n` is needed. -/
theorem mintMulmod_spec {c : Ctx} (h : Valid c) (x y : List Nat) (hx : Wf x)
    (hlx : x.length = 8) (hly : y.length = 8) (hvy : val y < c.n) :
    ∃ m, mintMulmod c x y = some m ∧ m.length = 8 ∧ Wf m ∧ val m < 2 * c.n ∧
      val m * W ^ c.k % c.n = val (x.take c.k) * val y % c.n := by
  have hk := h.kle
  have hk1 := h.kpos
  have hn := h.nlt
  have hyk : val (y.take c.k) = val y := by
    have := val_take_drop y c.k
    rw [val_drop_eq_zero (lt_trans hvy hn)] at this; omega
  have hnw := nd_take_val h c.k (le_refl _) (by omega)
  have hnwl : (c.nd.take c.k).length = c.k := by simp [List.length_take, nd_length]; omega
  have hnwf : Wf (c.nd.take c.k) := Wf_take (nd_Wf c) _
  have hxne : x.take c.k ≠ [] := by
    intro he
    have : (x.take c.k).length = 0 := by rw [he]; rfl
    rw [List.length_take, hlx] at this; omega
  obtain ⟨res, ovf, f1, f2, f3, f4, M, f5⟩ := mulRows_spec c.k c.ninv c.n (c.nd.take c.k) (y.take c.k)
    hk1 hnwl hnw h.hninv hn (by rw [List.length_take, hly]; omega) (by rw [hyk]; exact hvy)
    (x.take c.k) (Wf_take hx _) hxne (zeros (c.k + 1)) (by simp)
    (by rw [val_zeros]; have := h.npos; omega)
  rw [val_zeros, hyk, Nat.zero_add] at f5
  have hxl : (x.take c.k).length = c.k := by simp [List.length_take]; omega
  rw [hxl] at f5
  unfold mintMulmod
  have hkk : ¬ (c.k = 0 ∨ c.k > MW) := by simp only [MW]; omega
  simp only [hkk, if_false, f1]
  have hmod : ∀ A, A * W ^ c.k = val (x.take c.k) * val y + M * c.n →
      A * W ^ c.k % c.n = val (x.take c.k) * val y % c.n := by
    intro A hA; rw [hA, Nat.add_mul_mod_self_right]
  have hres := val_lt f3
  rw [f2] at hres
  by_cases ho : ovf = true
  · simp only [ho, if_true] at f4 f5 ⊢
    obtain ⟨g1, g2, g3⟩ := addc_spec res (compl (c.nd.take c.k)) 1 (by rw [compl_length, f2, hnwl])
    have hcv := compl_val (c.nd.take c.k) hnwf
    rw [hnwl, hnw] at hcv
    rw [f2] at g1 g2
    have hr1 := val_lt g3
    rw [g2] at hr1
    generalize addc res (compl (c.nd.take c.k)) 1 = r at *
    generalize val (compl (c.nd.take c.k)) = vc at *
    have hc0 : r.2 = 0 := by
      by_contra hne
      have : W ^ c.k * 1 ≤ W ^ c.k * r.2 := Nat.mul_le_mul_left _ (by omega)
      omega
    have hn0 : ¬ (r.2 > 0) := by omega
    simp only [hn0, if_false]
    rw [hc0] at g1
    have hv : val (r.1 ++ zeros (MW - c.k)) + c.n = val res + W ^ c.k := by
      rw [val_append, val_zeros]; omega
    refine ⟨_, rfl, by simp [g2, MW]; omega, Wf_append.2 ⟨g3, Wf_zeros _⟩, by omega, ?_⟩
    have e : (val (r.1 ++ zeros (MW - c.k)) + c.n) * W ^ c.k % c.n =
        val (x.take c.k) * val y % c.n := by rw [hv]; exact hmod _ f5
    rw [Nat.add_mul, Nat.add_mul_mod_self_left] at e
    exact e
  · simp only [ho, if_false, Nat.add_zero, Bool.false_eq_true] at f4 f5 ⊢
    have hv : val (res ++ zeros (MW - c.k)) = val res := by rw [val_append, val_zeros]; omega
    refine ⟨_, rfl, by simp [f2, MW]; omega, Wf_append.2 ⟨f3, Wf_zeros _⟩, by omega, ?_⟩
    rw [hv]; exact hmod _ f5

/-- `ZmodN::mul` -/
theorem mul_spec' {c : Ctx} (h : Valid c) (x y : List Nat) (hx : Wf x)
    (hlx : x.length = 8) (hly : y.length = 8) (hvx : val x < c.n) (hvy : val y < c.n) :
    ∃ m, mul c x y = some m ∧ val m < c.n ∧ val m * W ^ c.k % c.n = val x * val y % c.n ∧
      m.length = 8 ∧ Wf m := by
  have hn := h.nlt
  have hxk : val (x.take c.k) = val x := by
    have := val_take_drop x c.k
    rw [val_drop_eq_zero (lt_trans hvx hn)] at this; omega
  obtain ⟨m, e1, e2, e3, e4, e5⟩ := mintMulmod_spec h x y hx hlx hly hvy
  obtain ⟨m', f1, f2, f3, f4, f5⟩ := condSub_spec h m e3 e2 e4
  unfold mul toUint
  simp only [hvx, hvy, not_true_eq_false, if_false, e1, f1, f2]
  refine ⟨m', rfl, f2, ?_, f4, f5⟩
  rw [← hxk, ← e5]
  rcases f3 with f3 | f3
  · rw [f3]
  · rw [← f3, Nat.add_mul, Nat.add_mul_mod_self_left]

/-- The `overflow` branch of `_mint_mulmod` never produces a carry: whenever the row loop ends
with `overflow = true`, adding `2^(64k) - n` to the `k` result words gives carry 0, so the
`res[SIZE] = 1` write ("FIXME: can it happen?") is unreachable for `y < n` (any `x`). -/
theorem overflow_carry_zero {c : Ctx} (h : Valid c) (x y : List Nat) (hx : Wf x)
    (hlx : x.length = 8) (hly : y.length = 8) (hvy : val y < c.n) (res : List Nat)
    (hres : mulRows c.k c.ninv (c.nd.take c.k) (y.take c.k) (x.take c.k) (zeros (c.k + 1)) = some (res, true)) :
    (addc res (compl (c.nd.take c.k)) 1).2 = 0 := by
  have hk := h.kle
  have hk1 := h.kpos
  have hn := h.nlt
  have hyk : val (y.take c.k) = val y := by
    have := val_take_drop y c.k
    rw [val_drop_eq_zero (lt_trans hvy hn)] at this; omega
  have hnw := nd_take_val h c.k (le_refl _) (by omega)
  have hnwl : (c.nd.take c.k).length = c.k := by simp [List.length_take, nd_length]; omega
  have hnwf : Wf (c.nd.take c.k) := Wf_take (nd_Wf c) _
  have hxne : x.take c.k ≠ [] := by
    intro he
    have : (x.take c.k).length = 0 := by rw [he]; rfl
    rw [List.length_take, hlx] at this; omega
  obtain ⟨res', ovf, f1, f2, f3, f4, _⟩ := mulRows_spec c.k c.ninv c.n (c.nd.take c.k) (y.take c.k)
    hk1 hnwl hnw h.hninv hn (by rw [List.length_take, hly]; omega) (by rw [hyk]; exact hvy)
    (x.take c.k) (Wf_take hx _) hxne (zeros (c.k + 1)) (by simp)
    (by rw [val_zeros]; have := h.npos; omega)
  rw [hres] at f1
  cases f1
  simp only [if_true] at f4
  obtain ⟨g1, g2, g3⟩ := addc_spec res (compl (c.nd.take c.k)) 1 (by rw [compl_length, f2, hnwl])
  have hcv := compl_val (c.nd.take c.k) hnwf
  rw [hnwl, hnw] at hcv
  rw [f2] at g1 g2
  generalize addc res (compl (c.nd.take c.k)) 1 = r at *
  generalize val (compl (c.nd.take c.k)) = vc at *
  by_contra hne
  have : W ^ c.k * 1 ≤ W ^ c.k * r.2 := Nat.mul_le_mul_left _ (by omega)
  omega

end Ymq.ZmodN
