/-
Algebra of the second stages (C16): why "l divides a grid value" makes the accumulated product
vanish modulo the prime factor.  Pure algebra; no model is involved.
-/
import Mathlib.Data.ZMod.Basic
import Mathlib.FieldTheory.Finite.Basic
import Mathlib.Algebra.BigOperators.Group.List.Basic
import Mathlib.Tactic.Ring
import Mathlib.Tactic.LinearCombination

namespace Ymq.Stage2

/-! ### P-1 -/

/-- Fermat: if `p - 1 ∣ e` then `g^e = 1` for a unit `g` of `ZMod p`. -/
theorem pow_eq_one_of_dvd {p : Nat} [Fact p.Prime] {g : ZMod p} (hg : g ≠ 0) {e : Nat} (h : p - 1 ∣ e) :
    g ^ e = 1 := by
  obtain ⟨c, rfl⟩ := h
  rw [pow_mul, ZMod.pow_card_sub_one_eq_one hg, one_pow]

/-- The baby/giant comparison of P-1: with `h = g^E` and `p - 1 ∣ E*m`,
`m = q*d1 - r` gives `h^(q*d1) = h^r`, and `m = r - q*d1` as well. -/
theorem pm1_step_eq {p : Nat} [Fact p.Prime] {g : ZMod p} (hg : g ≠ 0) {E m q d1 r : Nat}
    (hE : p - 1 ∣ E * m) (hm : m + r = q * d1 ∨ m + q * d1 = r) :
    (g ^ E) ^ (q * d1) = (g ^ E) ^ r := by
  have h1 : (g ^ E) ^ m = 1 := by rw [← pow_mul]; exact pow_eq_one_of_dvd hg hE
  rcases hm with hm | hm
  · rw [← hm, pow_add, h1, one_mul]
  · rw [← hm, pow_add, h1, one_mul]

/-- integer form: the factor `g^(E*q*d1) - g^(E*r)` of the evaluated product is divisible by `p`. -/
theorem pm1_factor_dvd {p : Nat} (hp : p.Prime) {g : ℤ} (hg : ¬ (p : ℤ) ∣ g) {E m q d1 r : Nat}
    (hE : p - 1 ∣ E * m) (hm : m + r = q * d1 ∨ m + q * d1 = r) :
    (p : ℤ) ∣ g ^ (E * (q * d1)) - g ^ (E * r) := by
  have := Fact.mk hp
  have hg' : ((g : ℤ) : ZMod p) ≠ 0 := by
    intro h; exact hg ((ZMod.intCast_zmod_eq_zero_iff_dvd g p).mp h)
  rw [← ZMod.intCast_zmod_eq_zero_iff_dvd]
  have key := pm1_step_eq hg' hE hm
  rw [← pow_mul, ← pow_mul] at key
  push_cast
  rw [key, sub_self]

/-- `pm1_hit`: the product over all baby steps evaluated at the giant step `q` is divisible by `p`
as soon as one baby step `r` pairs with `q` to a multiple `m` of the missing prime. -/
theorem pm1_prod_dvd {p : Nat} (hp : p.Prime) {g : ℤ} (hg : ¬ (p : ℤ) ∣ g) {E m q d1 r : Nat} {rs : List Nat}
    (hr : r ∈ rs) (hE : p - 1 ∣ E * m) (hm : m + r = q * d1 ∨ m + q * d1 = r) :
    (p : ℤ) ∣ (rs.map (fun r => g ^ (E * (q * d1)) - g ^ (E * r))).prod :=
  Dvd.dvd.trans (pm1_factor_dvd hp hg hE hm) (List.dvd_prod (List.mem_map.mpr ⟨r, hr, rfl⟩))

/-! ### the chirp-z exponents of `pm1_stage2_polyeval`

`p[i]` is multiplied by `negsteps[i] = h^(d2² - (d2-1-i)²)` and `q[j] = gsteps[j] = h^(j²)` with
`h = g^(d1/2)`; the coefficient `k` of the product collects `i + j = k`. -/

theorem chirpz_exponent {d2 k i : Nat} (hk : k + 1 ≤ d2) (hi : i ≤ k) :
    (d2 * d2 - (d2 - 1 - i) * (d2 - 1 - i)) + (k - i) * (k - i) =
      (d2 * d2 + k * k - (d2 - 1) * (d2 - 1)) + i * (2 * (d2 - 1 - k)) := by
  obtain ⟨a, rfl⟩ : ∃ a, d2 = k + 1 + a := ⟨d2 - (k + 1), by omega⟩
  obtain ⟨b, rfl⟩ : ∃ b, k = i + b := ⟨k - i, by omega⟩
  have e1 : i + b + 1 + a - 1 - i = b + a := by omega
  have e2 : i + b - i = b := by omega
  have e3 : i + b + 1 + a - 1 = i + b + a := by omega
  rw [e1, e2, e3, show i + b + a - (i + b) = a from by omega]
  have h1 : (b + a) * (b + a) ≤ (i + b + 1 + a) * (i + b + 1 + a) := Nat.mul_le_mul (by omega) (by omega)
  have h2 : (i + b + a) * (i + b + a) ≤ (i + b + 1 + a) * (i + b + 1 + a) + (i + b) * (i + b) :=
    le_trans (Nat.mul_le_mul (by omega) (by omega)) (Nat.le_add_right _ _)
  zify [h1, h2]
  ring

/-- `chirpz_coeff`: coefficient `k ∈ [deg, d2)` of the convolution is a power of `h` times
`P(h^(2*(d2-1-k)))`, i.e. `P` evaluated at `g^((d2-1-k)*d1)`. -/
theorem chirpz_coeff {R : Type*} [CommRing R] (h : R) (P : Nat → R) {d2 k deg : Nat}
    (hk : k + 1 ≤ d2) (hdeg : deg ≤ k) :
    (Finset.range (deg + 1)).sum (fun i => P i * h ^ (d2 * d2 - (d2 - 1 - i) * (d2 - 1 - i)) * h ^ ((k - i) * (k - i))) =
      h ^ (d2 * d2 + k * k - (d2 - 1) * (d2 - 1)) *
        (Finset.range (deg + 1)).sum (fun i => P i * (h ^ (2 * (d2 - 1 - k))) ^ i) := by
  rw [Finset.mul_sum]
  apply Finset.sum_congr rfl
  intro i hi
  have hi' : i ≤ k := by have := Finset.mem_range.mp hi; omega
  rw [mul_assoc, ← pow_add, chirpz_exponent hk hi', pow_add, ← pow_mul, Nat.mul_comm i]
  ring

/-! ### Lucas / Chebyshev sequences (P+1) -/

/-- `V 0 = 2`, `V 1 = a`, `V (n+2) = a * V (n+1) - V n`. -/
def chebV {R : Type*} [CommRing R] (a : R) : Nat → R
  | 0 => 2
  | 1 => a
  | n + 2 => a * chebV a (n + 1) - chebV a n

/-- `V_{m+n} = V_m V_n - V_{m-n}` written without subtraction of indices (`m = n + d`). -/
theorem chebV_add {R : Type*} [CommRing R] (a : R) : ∀ (n d : Nat),
    chebV a (n + d + n) = chebV a (n + d) * chebV a n - chebV a d
  | 0, d => by simp [chebV]; ring
  | 1, d => by
    have : 1 + d + 1 = d + 2 := by omega
    rw [this, Nat.add_comm 1 d]; simp [chebV]; ring
  | n + 2, d => by
    have h1 := chebV_add a (n + 1) (d + 1)
    have h2 := chebV_add a n (d + 2)
    have e1 : n + 2 + d + (n + 2) = (n + (d + 2) + n) + 2 := by omega
    have e2 : n + 1 + (d + 1) + (n + 1) = (n + (d + 2) + n) + 1 := by omega
    have e3 : n + 1 + (d + 1) = n + d + 2 := by omega
    have e4 : n + (d + 2) = n + d + 2 := by omega
    have e5 : n + 2 + d = n + d + 2 := by omega
    have key : chebV a ((n + (d + 2) + n) + 2) =
        a * chebV a ((n + (d + 2) + n) + 1) - chebV a (n + (d + 2) + n) := rfl
    have k2 : chebV a (n + 2) = a * chebV a (n + 1) - chebV a n := rfl
    have k3 : chebV a (d + 2) = a * chebV a (d + 1) - chebV a d := rfl
    rw [e1, key, ← e2, h1, h2, e3, e4, e5, k2, k3]
    ring

theorem chebV_double {R : Type*} [CommRing R] (a : R) (n : Nat) : chebV a (2 * n) = chebV a n * chebV a n - 2 := by
  have := chebV_add a n 0
  simp only [Nat.add_zero] at this
  rw [two_mul, this]; simp [chebV]

theorem chebV_double_add_one {R : Type*} [CommRing R] (a : R) (n : Nat) :
    chebV a (2 * n + 1) = chebV a n * chebV a (n + 1) - a := by
  have := chebV_add a n 1
  have e : 2 * n + 1 = n + 1 + n := by omega
  rw [e, this]; simp [chebV]; ring

/-- closed form when `a = x + y` with `x*y = 1` -/
theorem chebV_eq_pow {R : Type*} [CommRing R] {x y : R} (hxy : x * y = 1) : ∀ n, chebV (x + y) n = x ^ n + y ^ n
  | 0 => by simp [chebV]; ring
  | 1 => by simp [chebV]
  | n + 2 => by
    rw [chebV, chebV_eq_pow hxy (n + 1), chebV_eq_pow hxy n]
    linear_combination (x ^ n + y ^ n) * hxy

/-- composition `V_n(V_m(a)) = V_{m*n}(a)`: what stage 1 of P+1 accumulates prime power by prime power. -/
theorem chebV_comp {R : Type*} [CommRing R] (a : R) (m : Nat) : ∀ n, chebV (chebV a m) n = chebV a (m * n)
  | 0 => by simp [chebV]
  | 1 => by simp [chebV]
  | n + 2 => by
    rw [chebV, chebV_comp a m (n + 1), chebV_comp a m n]
    have e : m * (n + 2) = m + m * n + m := by ring
    have e2 : m * (n + 1) = m + m * n := by ring
    rw [e, chebV_add a m (m * n), e2]; ring

/-- `pp1_hit`: `a = x + y`, `x*y = 1`, `x^(E*m) = 1`, and `m = i*d1 ± b`: the Lucas values of the
giant step `i*d1` and of the baby step `b`, both taken from `V_E(a)`, coincide. -/
theorem pp1_step_eq {R : Type*} [CommRing R] {x y : R} (hxy : x * y = 1) {E m i d1 b : Nat}
    (hm1 : x ^ (E * m) = 1) (hm : m = i * d1 + b ∨ m + b = i * d1) :
    chebV (chebV (x + y) E) (i * d1) = chebV (chebV (x + y) E) b := by
  rw [chebV_comp, chebV_comp, chebV_eq_pow hxy, chebV_eq_pow hxy]
  have hy1 : y ^ (E * m) = 1 := by
    have : (x * y) ^ (E * m) = 1 := by rw [hxy, one_pow]
    rw [mul_pow, hm1, one_mul] at this; exact this
  have hinv : ∀ k, x ^ k * y ^ k = 1 := fun k => by rw [← mul_pow, hxy, one_pow]
  rcases hm with hm | hm
  · -- x^(E i d1) * x^(E b) = 1, so x^(E i d1) = y^(E b) and symmetrically
    have hx : x ^ (E * (i * d1)) * x ^ (E * b) = 1 := by rw [← pow_add, ← Nat.mul_add, ← hm]; exact hm1
    have hy : y ^ (E * (i * d1)) * y ^ (E * b) = 1 := by rw [← pow_add, ← Nat.mul_add, ← hm]; exact hy1
    have h1 : x ^ (E * (i * d1)) = y ^ (E * b) := by
      calc x ^ (E * (i * d1)) = x ^ (E * (i * d1)) * (x ^ (E * b) * y ^ (E * b)) := by rw [hinv, mul_one]
        _ = (x ^ (E * (i * d1)) * x ^ (E * b)) * y ^ (E * b) := by ring
        _ = y ^ (E * b) := by rw [hx, one_mul]
    have h2 : y ^ (E * (i * d1)) = x ^ (E * b) := by
      calc y ^ (E * (i * d1)) = y ^ (E * (i * d1)) * (x ^ (E * b) * y ^ (E * b)) := by rw [hinv, mul_one]
        _ = (y ^ (E * (i * d1)) * y ^ (E * b)) * x ^ (E * b) := by ring
        _ = x ^ (E * b) := by rw [hy, one_mul]
    rw [h1, h2]; ring
  · have hx : x ^ (E * (i * d1)) = x ^ (E * b) := by
      rw [← hm, Nat.mul_add, pow_add, hm1, one_mul]
    have hy : y ^ (E * (i * d1)) = y ^ (E * b) := by
      rw [← hm, Nat.mul_add, pow_add, hy1, one_mul]
    rw [hx, hy]

/-! ### ECM: an additive group with an even coordinate function -/

theorem ecm_step_eq {A Y : Type*} [AddCommGroup A] (y : A → Y) (heven : ∀ P, y (-P) = y P) {G : A}
    {E m i d1 b : Nat} (hm0 : (E * m) • G = 0) (hm : m = i * d1 + b ∨ m + b = i * d1) :
    y ((i * d1) • (E • G)) = y (b • (E • G)) := by
  have hQ : m • (E • G) = 0 := by rw [← mul_nsmul]; exact hm0
  rcases hm with hm | hm
  · have : (i * d1) • (E • G) = -(b • (E • G)) := by
      rw [eq_neg_iff_add_eq_zero, ← add_nsmul, ← hm]; exact hQ
    rw [this, heven]
  · rw [← hm, add_nsmul, hQ, zero_add]

end Ymq.Stage2
