"""C05 — an abort request stops work promptly and still yields a consistent answer."""
# SIZE AUDIT (quick tier), measured on cases('quick', Random(1)): bit length of n handed to factor() with an abort predicate
# sizes the code supports: factor() refuses above 500 bits; siqs / mpqs refuse n*k above 448 bits (clean failure at once), qs above 400;
# ecm / pm1 / auto run on ZmodN of 1..8 words; ecm128 up to 128 bits. Poll points: factor_impl (once per sieve call), the sieves (per
# polynomial / block), ecm (per curve); P-1, rho and ECM128 have none.
#   selector   quick max  thorough max  supported   boundary lengths reached by quick BEFORE this audit
#   siqs       280        280           ~440        129 (1), 257 (1); 65: none
#   mpqs       230        230           ~440        none of 64/65/128/129
#   qs         189        189           400         none
#   auto       250        250           500         none; nothing above 250 bits
#   ecm        200        200           500         none; nothing above 200 bits (ZmodN of 5..8 words never ran under an abort predicate)
#   ecm128     110        110           128         none (127/128 never)
#   pm1        119        120           500         none
# Added: boundary_cases (both tiers, first, own rng stream, ~60 requests of a few ms, two aborted ecm runs of 3 s, two near-limit runs: ~11 s): every flip
# kind on inputs that finish quickly at exactly 65, 128, 129, 193, 257, 385, 449, 500 bits (auto / ecm / pm1 / ecm128 / the sieves at 65
# and 129), exhaustive flip scans of auto at 257 and 500 bits (thorough: ecm at 500 bits), and two runs where the flip really lands inside the
# work at the top of the range: ecm on a hard 500-bit semiprime (release: ~3 s after the flip, the rest of the or_else chain of
# ecm_only still starts) and siqs with a pool at 400 bits.
# Observed, NOT judged by this property's latency definition (latency counts from the first poll that answered true): stages without a
# poll point grow with the size of n: Auto on a hard 480..500-bit n returns 59..62 s (release; 75 s checked) after an abort request at
# 300 ms because pm1_quick (B1 = 1.6e8 above 470 bits) is never interrupted (15 s at 430 bits, 4 s at 380); `pm1` on 300 bits: 11 s,
# never polled; siqs at 330 bits polls for the first time after 7 s of set-up.
from vlib.pipeline import Case
from vlib import gen
from props import factor_common as fc
from props import sched_trace as strace

PID = "C05"
GEN = ["primality", "sched"]
LEAN = ["Ymq.Props.C05", "Ymq.Props.C05Sched", "Ymq.Props.C04Shape"]
AUDIT = "Ymq.Audit.C05"
THEOREMS = ['Ymq.C05.abort_never_wrong_product', 'Ymq.C05.abort_consistent', 'Ymq.C05.abort_consistent_of_input', 'Ymq.C05.abort_stops', 'Ymq.C05.abort_bounded', 'Ymq.C05.abort_before_start',
            'Ymq.C04Shape.abort_bounded_shape', 'Ymq.C04Shape.source_shapes_ok', 'Ymq.C04Shape.source_mt_poll_first',
            'Ymq.C04Shape.siqs_mt_abort_bounded', 'Ymq.C04Shape.mpqs_mt_abort_bounded', 'Ymq.C04Shape.siqs_st_abort_bounded', 'Ymq.C04Shape.mpqs_st_abort_bounded',
            'Ymq.C04Shape.source_ecm_shape_ok', 'Ymq.C04Shape.ecm_abort_bounded', 'Ymq.C04Shape.ecm_unit_length',
            'Ymq.C04Shape.qs_abort_bounded', 'Ymq.C04Shape.qs_unit_length', 'Ymq.C04Shape.cg_mt_abort_bounded', 'Ymq.C04Shape.cg_st_abort_bounded',
            'Ymq.C04Shape.ecm_unit_abort_bounded', 'Ymq.C04Shape.source_named_ok', 'Ymq.C04Shape.source_fork_ok', 'Ymq.C04Shape.source_ecm_unit_ok',
            'Ymq.C04Shape.abort_unit_bounded', 'Ymq.C04Shape.ecm_unit_abort_faithful']
PROFILES = ["release", "chk"]
TIMEOUT = 120.0
LAT_BOUND_MS = 15000
RULE = ("boundary family first, in both tiers: flips on inputs of exactly 65, 127..129, 193, 257, 385, 449, 500 bits that finish in milliseconds "
        "(auto/ecm/pm1/ecm128/sieves), flip scans at 257 and 500 bits, ecm on a hard 500-bit and siqs with a pool on a hard 400-bit input; then: "
        "abort predicate flipping at seeded instants: by poll count (0,1,2,3,5,10,50,500) and by elapsed time (0,1,5,20,100,400 ms), "
        "selectors auto/qs/mpqs/siqs/ecm/ecm128/pm1, single and multi-threaded, on 60-150 bit inputs whose run is long enough for "
        "the flip to land before/between/inside stages; checked: returns, no crash, product = n, latency after the first `true` poll "
        f"<= {LAT_BOUND_MS} ms; non-trivial = the predicate was polled at least once; distinct by request line")
MODELLED = ["second generation (same translator): classgroup(), classical QS (a unit = one large block PAIR: two adding arms joined, then the poll) "
            "and ECM (a unit = one curve, entry test first): qs_abort_bounded / qs_unit_length, cg_mt_abort_bounded / cg_st_abort_bounded, "
            "ecm_unit_abort_bounded; source_named_ok: wherever a true poll only leaves the unit (generated list leavesLoop) the poll sits before "
            "any add, so later units run their entry test only; tie: sched_trace (real drivers, every flip instant of small runs) vs sched_model",
            "where siqs() and mpqs() poll the abort predicate inside a work unit is read from the source on every run (translate/sched.py -> "
            "Ymq/Gen/SchedShape.lean); abort_bounded_shape: the predicate may flip after ANY schedule prefix, from then on at most two work "
            "units' worth of actions per worker happen, however many units are left; source_shapes_ok / source_mt_poll_first are the "
            "obligations on the generated data (a poll outside the polynomial loop of every unit, first in the thread-pool branches)",
            "the unit-start polls `done || abort` of the multi-threaded sieves / ECM as `Act.poll` of the protocol model "
            "(Ymq/Model/Sched.lean): abort_bounded = after the predicate answers true each worker performs at most the rest of its "
            "current work unit, for every interleaving", "the abort poll of factor_impl (lib.rs:431) and the aborted-sieve path (empty divisor list => n pushed unsplit) in "
            "Ymq/Model/Factor.lean; the abort predicate is an arbitrary stateful oracle, so every flip instant is covered by the theorem"]
UNMODELLED = ["Pollard P-1 has no poll point (recorded finding no-abort-poll-inside-pm1): measured as blind time (harness field blind_ms)",
              "poll points inside the sieves / ECM (siqs.rs, mpqs.rs, qsieve.rs, ecm.rs) appear in the model only through their result "
              "(empty divisor list / None); wall-clock latency is a runtime behaviour and is measured, not proved",
              "P-1, rho and ECM128 have no poll point: their whole stage is one work unit"]
HYPOTHESES = ['OracleOK', 'SelectorPre']


def _fork(rng, label):
    """own stream for the boundary family: depends on the run's seed, leaves the stream of the older families untouched"""
    import random
    return random.Random(f"{label}:{rng.getstate()[1][:4]}")


def _exact_product(rng, bits, pbits):
    """p*q of EXACTLY `bits` bits, p a prime of pbits bits"""
    while True:
        p, q = gen.rand_prime(rng, pbits), gen.rand_prime(rng, bits - pbits + rng.randrange(2))
        if p != q and (p * q).bit_length() == bits:
            return p * q


# (selector, exact bit length of n, bit length of the smaller prime factor)
BOUNDARY_SPEC = [("siqs", 65, 32), ("mpqs", 65, 32), ("qs", 65, 32), ("siqs", 129, 64), ("auto", 65, 32), ("auto", 129, 64),
                 ("ecm128", 127, 30), ("ecm128", 128, 64), ("ecm", 129, 30), ("ecm", 193, 30), ("ecm", 257, 30), ("ecm", 449, 22),
                 ("ecm", 500, 22), ("pm1", 129, 24), ("pm1", 257, 24), ("pm1", 500, 22), ("auto", 257, 30), ("auto", 385, 22),
                 ("auto", 500, 22)]


def boundary_cases(rng, tier):
    """abort predicates at the size classes the random families never reach (see SIZE AUDIT): inputs that finish within
    milliseconds at every word count up to the 500-bit limit, flip scans there, and two runs at the top of the range in which
    the flip lands inside the work"""
    quick = tier == "quick"
    flips = ["abortpolls=0", "abortpolls=1", "abortpolls=3", "abortms=0"] + ([] if quick else ["abortpolls=2", "abortpolls=10", "abortms=1", "abortms=5"])
    for j, (alg, bits, pb) in enumerate(BOUNDARY_SPEC):
        n = _exact_product(rng, bits, pb)
        for i, fl in enumerate(flips):
            toks = [fl] + (["threads=2"] if i == 2 and alg != "ecm128" else [])
            if alg == "ecm" and quick and (i != j % 4 or bits not in (257, 500)):
                # an aborted run of the `ecm` selector costs 3 s whatever the size (every later stage of ecm_only's or_else chain
                # still starts and polls each of its curves: 28040 polls): quick: one flip at 257 and at 500 bits, release only
                continue
            yield Case(" ".join([f"factor {n} {alg}"] + toks), k=False, tag=f"edge{bits}b",
                       profiles=None if i < 2 and alg != "ecm" else ["release"])
    for alg, bits, pb in (("auto", 257, 30), ("auto", 500, 22)) + (() if quick else (("ecm", 500, 22),)):
        yield Case(f"abort_scan {_exact_product(rng, bits, pb)} {alg} 0 300", k=False, tag=f"scan-edge{bits}b", timeout=300)
    hard = lambda bits: gen.rand_prime(rng, bits // 2) * gen.rand_prime(rng, bits - bits // 2)
    yield Case(f"factor {hard(500)} ecm abortms=300", k=False, tag="edge500b-hard", timeout=120, profiles=["release"])
    yield Case(f"factor {hard(400)} siqs abortms=300 threads=2", k=False, tag="edge400b-hard", timeout=120, profiles=["release"])


def cases(tier, rng, extended=False):
    quick = tier == "quick"
    yield from boundary_cases(_fork(rng, "C05-boundary"), tier)
    # flip instants on classical QS / ECM / class groups called directly (props/sched_trace.py): the run after a flip at poll k is
    # judged against the undisturbed run (O) and must be reproduced by the Lean model built from the generated shapes (K, followup)
    yield from strace.cases(_fork(rng, "C05-trace"), tier, ["0", "1", "2", "3", "5", "1000"] if quick else [str(k) for k in range(0, 13)] + ["1000"],
                            {"qs": [0, 2], "ecm": [0, 3], "cg": [0, 2]}, "trace")
    reps = 3 if quick else 12
    if extended:
        reps *= 4
    yield from long_cases(tier, rng)
    yield from scan_cases(tier, rng)
    polls = [0, 1, 2, 3, 5, 10, 50, 500]
    times = [0, 1, 5, 20, 100, 400]
    for _ in range(reps):
        for alg, bitlist in (("siqs", [70, 100, 130]), ("mpqs", [70, 100, 120]), ("qs", [70, 90, 110]),
                             ("auto", [60, 100, 140]), ("ecm", [70, 110]), ("ecm128", [70, 110]), ("pm1", [70, 120])):
            for bits in bitlist:
                shape = rng.choice(["semi", "three"])
                if shape == "semi":
                    fs = [gen.rand_prime(rng, bits // 2), gen.rand_prime(rng, bits - bits // 2)]
                else:
                    fs = [gen.rand_prime(rng, bits // 3), gen.rand_prime(rng, bits // 3), gen.rand_prime(rng, bits - 2 * (bits // 3))]
                n = fc.prod(fs)
                flips = [f"abortpolls={k}" for k in rng.sample(polls, 3 if quick else 5)] + \
                        [f"abortms={t}" for t in rng.sample(times, 2 if quick else 4)]
                for fl in flips:
                    toks = [fl]
                    if rng.random() < 0.4:
                        toks.append(f"threads={rng.choice([2, 4])}")
                    pr = None if rng.random() < 0.25 else ["release"]
                    yield Case(" ".join([f"factor {n} {alg}"] + toks), k=False, tag=f"{bits}b", profiles=pr)


LONG_LAT_BOUND_MS = 5000
# time a pending request may stay unseen (no call of the predicate): a stage without poll point is one work unit
BLIND_BOUND_MS = 5000
BLIND_KEY = "no-abort-poll-inside-pm1"


def long_cases(tier, rng):
    """inputs whose full run takes minutes: if a poll point disappears or moves the run no longer stops
    (watchdog) or stops late. One work unit (one A value / polynomial block / curve) of these sizes
    takes 0.1-0.9 s in the release profile, so the bound after the first `true` poll is 5 s there."""
    plan = [("siqs", 220, []), ("siqs", 260, []), ("siqs", 240, ["threads=2"]), ("siqs", 280, ["threads=2"]),
            ("siqs", 260, ["threads=4"]), ("mpqs", 220, []), ("mpqs", 230, ["threads=2"]), ("qs", 190, []),
            ("qs", 190, ["threads=2"]), ("auto", 250, []), ("auto", 250, ["threads=2"]), ("ecm", 200, [])]
    for alg, bits, th in plan:
        n = gen.rand_prime(rng, bits // 2) * gen.rand_prime(rng, bits - bits // 2)
        for fl in ("abortms=300", "abortpolls=8", "abortms=1500"):
            if tier == "quick" and fl == "abortms=1500" and th:
                continue
            yield Case(" ".join([f"factor {n} {alg}", fl] + th), k=False, tag=f"long{bits}b", timeout=60,
                       profiles=["release"])
    # the abort request arrives while a COFACTOR is being factored: n = c*P*Q with a prime c of the factor base
    # (above the trial-division bound): the sieve reports c as an unexpected factor at once and factor_impl recurses
    # into P*Q, whose sieve takes minutes; the caller's predicate must still be polled there
    for alg, bits, c, th in [("siqs", 240, 1009, []), ("siqs", 250, 211, ["threads=2"]), ("siqs", 230, 2003, ["threads=4"])]:
        n = c * gen.rand_prime(rng, bits // 2) * gen.rand_prime(rng, bits - bits // 2)
        for fl in ("abortms=1000", "abortms=2500"):
            if tier == "quick" and fl == "abortms=2500":
                continue
            yield Case(" ".join([f"factor {n} {alg}", fl] + th), k=False, tag=f"long-cofactor{bits}b", timeout=60,
                       profiles=["release"])


def scan_cases(tier, rng):
    """EVERY flip instant of a run: the harness counts the polls P of an undisturbed run and then
    flips the predicate at its k-th poll for every k = 0..P (deterministic single-threaded runs;
    with a pool the poll order varies but each k is still tried)"""
    quick = tier == "quick"
    plan = [("siqs", 100, 0), ("siqs", 130, 0), ("siqs", 150, 0), ("siqs", 162, 0), ("siqs", 150, 2),
            ("mpqs", 110, 0), ("mpqs", 140, 0), ("mpqs", 140, 3), ("qs", 90, 0), ("qs", 120, 0), ("qs", 120, 2),
            ("auto", 100, 0), ("auto", 150, 0)]
    if not quick:
        plan += [("siqs", 175, 0), ("siqs", 185, 0), ("siqs", 170, 4), ("mpqs", 165, 0), ("qs", 140, 0),
                 ("auto", 180, 0), ("ecm", 90, 0)]
    for alg, bits, th in plan:
        n = gen.rand_prime(rng, bits // 2) * gen.rand_prime(rng, bits - bits // 2)
        yield Case(f"abort_scan {n} {alg} {th} {300 if quick else 2000}", k=False, tag=f"scan{bits}b", timeout=900,
                   profiles=None if bits <= 130 else ["release"])
    # three (four) prime factors under an explicit sieve selector: the sieve of n leaves a composite cofactor and
    # factor_impl recurses into a second sieve; every flip instant of both sieves, and every abort decision of the
    # recursion must be taken by calling the caller's predicate (kind `foreign` otherwise)
    plan3 = [("siqs", 105, 3, 0), ("mpqs", 105, 3, 0), ("qs", 96, 3, 0), ("siqs", 120, 4, 2)]
    if not quick:
        plan3 += [("siqs", 150, 3, 0), ("mpqs", 135, 3, 2), ("qs", 120, 4, 0), ("siqs", 160, 4, 4)]
    for alg, bits, k, th in plan3:
        n = fc.prod([gen.rand_prime(rng, bits // k) for _ in range(k)])
        yield Case(f"abort_scan {n} {alg} {th} {300 if quick else 2000}", k=False, tag=f"scan{bits}b-{k}primes", timeout=900)


_scan = {"runs": 0, "flip_instants": 0}


def oracle(case, ans):
    if case.op == "sched_trace":
        return strace.oracle(case, ans)
    if case.op == "abort_scan":
        kv = dict(x.split("=", 1) for x in ans.split()) if "=" in ans else {}
        if not kv:
            return f"scan did not answer ({ans})"
        _scan["runs"] += 1
        _scan["flip_instants"] += int(kv["runs"])
        if kv["bad"] != "-":
            return f"abort at poll index(es) {kv['bad']} of {kv['polls']} did not give a clean, consistent answer"
        if int(kv["maxlat_ms"]) > int(LAT_BOUND_MS * _load_factor()):
            return f"latency {kv['maxlat_ms']} ms after the flip"
        return None
    kind, fs, trace, md = fc.parse_answer(ans)
    n = int(case.args[0])
    if kind not in ("ok", "failure"):
        return f"factor() did not return cleanly after abort: {kind}"
    if md.get("foreign", 0) > 0:
        return (f"{md['foreign']} abort decision(s) of factor_impl were taken without calling the caller's predicate "
                "(a sub-factorization runs with other Preferences: it cannot be aborted)")
    if kind == "ok":
        if fc.prod(fs) != n:
            return f"product of {fs} is not n"
        if fs != sorted(fs) or any(f < 2 for f in fs):
            return "list not sorted or contains 0/1"
    if case.tag.startswith("long-cofactor") and md.get("late", 0) == 0:
        return "the abort request (after 1-2.5 s of a run that takes minutes) was never seen by a poll"
    bound = _bounds(case)[0]
    if md.get("late", 0) > 0 and md.get("lat_ms", 0) > bound:
        return f"returned {md['lat_ms']} ms after the abort predicate first answered true (bound {bound} ms)"
    bb = _blind_bound(case)
    if md.get("blind_ms", 0) > bb:
        return (f"the abort request stayed unseen for {md['blind_ms']} ms (bound {bb} ms): no poll point inside the stage that was "
                f"running ({md.get('after_flip', '?')})")
    return None


def corpus_case(line):
    return Case(line, k=False, tag="corpus", profiles=["release"], timeout=300)


def _load_factor():
    """the cases are judged after they ran: take the larger of the 1- and 5-minute load averages so that the load DURING the
    run counts; a machine whose run queue is longer than its 16 cores stretches every work unit"""
    try:
        import os
        l = os.getloadavg()
        return max(1.0, max(l[0], l[1]) / 12.0)
    except OSError:
        return 1.0


_BOUNDS = {}        # request line -> (latency bound, blind bound): computed ONCE per case, shared by oracle and finding_key


def _bounds(case):
    if case.line not in _BOUNDS:
        f = _load_factor()
        lat = LONG_LAT_BOUND_MS if case.tag.startswith("long") and case.args[1] != "ecm" else LAT_BOUND_MS
        _BOUNDS[case.line] = (int(lat * f), int(BLIND_BOUND_MS * f))
    return _BOUNDS[case.line]


def _blind_bound(case=None):
    return _bounds(case)[1] if case is not None else int(BLIND_BOUND_MS * _load_factor())


def finding_key(case, ans, profile):
    """the recorded finding is exactly: the request stayed unseen while Pollard P-1 (pm1_quick of Auto, or selector Pm1) ran"""
    if case.op != "factor":
        return None
    kind, fs, trace, md = fc.parse_answer(ans)
    if kind in ("ok", "failure") and md.get("blind_ms", 0) > _blind_bound(case) and md.get("after_flip") in ("pm1q", "pm1") \
            and md.get("foreign", 0) == 0 and (kind == "failure" or fc.prod(fs) == int(case.args[0])):
        if md.get("late", 0) > 0 and md.get("lat_ms", 0) > _bounds(case)[0]:
            return None
        return BLIND_KEY
    return None


def followup(case, ans):
    if case.op == "sched_trace":
        return strace.model_requests(case, ans)
    return fc.replay_request(case, ans)


def klass(case, ans):
    if case.op == "sched_trace":
        return strace.klass(case, ans)
    if case.op == "abort_scan":
        return f"scan/{case.args[1]}/threads={case.args[2]}"
    kind, fs, trace, md = fc.parse_answer(ans)
    flip = [t for t in case.args if t.startswith("abort")][0].split("=")[0]
    fired = "fired" if md.get("late", 0) > 0 else ("polled" if md.get("polls", 0) > 0 else "never-polled")
    comp = ""
    if kind == "ok" and fs:
        comp = "/composite-left" if any(not gen.is_prime(f) for f in fs) else "/complete"
    return f"{case.args[1]}/{flip}/{fired}/{kind}{comp}"


def nontrivial(case, ans):
    if case.op == "sched_trace":
        return strace.nontrivial(case, ans)
    if case.op == "abort_scan":
        return True
    return fc.parse_answer(ans)[3].get("polls", 0) > 0


def extra_coverage():
    return {"exhaustive_flip_scans": dict(_scan)}


CLAIM = ("Lean theorem over the control-flow model with the abort predicate an arbitrary stateful oracle: for every flip instant the "
         "result is a list whose product is n or the declared failure, never a panic (all ten selectors); once the predicate answers true at the poll of "
         "factor_impl no sieve or recursion is started. Promptness (wall clock) cannot be a theorem: it is measured on real runs "
         "with seeded flip instants in both profiles. PARTIAL.")
LEVEL_NOTE = ("Trusted: Lean kernel (+3 standard axioms); trace-replay correspondence of the model; the latency half is testing with a "
              "generous bound, labelled as such.")
TECHNIQUE = "Lean 4 proof over all abort behaviours of the control-flow model + seeded flip-instant runs with latency measurement"
