/-
Model of the choice of the leading coefficients of SIQS, src/siqs.rs:
`select_siqs_factors` (target, pool and window of candidate primes, the `assert!` on the window size)
and `select_a` (exhaustive enumeration for at most 5 factors, otherwise the sampling loop driven by
the built-in xorshift generator, tolerance window and its widening, early exit).

Conventions as in Ymq/Model/SiqsPoly.lean: `none` = a panic site of the checked profile (assert,
`unwrap`, `usize` underflow, `% 0`, shift amount ≥ the width of `mask`, `U256` overflow) — or, for `selectA`, the fuel
(maximal number of iterations of the sampling loop) running out, which stands for a loop that does
not terminate.  The generator is part of the code (fixed seed), so the model is deterministic and is
compared with the real functions directly.  `BTreeSet<Uint>` is a strictly increasing list.
`slice::sort_by_key` is stable (`stableSort`, a structural merge sort).  `a_tolerance_divisor` is the translated function
of Ymq/Gen/Params.lean; seed, shifts and loop constants come from Ymq/Gen/SiqsSel.lean (translate/siqssel.py).  No Mathlib import.
-/
import Ymq.Model.SiqsPoly
import Ymq.Gen.Params
import Ymq.Gen.SiqsSel

namespace Ymq.SiqsSelect
open Ymq.SiqsPoly (Prime isType2 isqrt bitlen)
open Ymq.Gen.SiqsSel

/-- 2^64 -/
def W64 : Nat := 18446744073709551616

/-- 2^256 -/
def U256 : Nat := 115792089237316195423570985008687907853269984665640564039457584007913129639936

/-- the target of `select_siqs_factors`: `max(2000, isqrt(|n| >> 1 or |n| << 1) / (mm / 2))` -/
def target (n : Int) (mm : Nat) : Option Nat :=
  if mm / 2 = 0 then none                                         -- division by zero
  else some (max targetFloor ((if isType2 n then isqrt (n.natAbs / 2) else isqrt (n.natAbs * 2)) / (mm / 2)))

/-- `fb.primes.partition_point(|&p| p^nfacs < target)` for an increasing list of primes -/
def partitionPoint (fb : List Prime) (nfacs tgt : Nat) : Nat :=
  (fb.takeWhile fun q => q.p ^ nfacs < tgt).length

/-- `for i in 1..min(fb.len(), 2 * idx + 4 * nfacs) { if fb.r(i) != 0 { pool.push(fb.prime(i)) } }` -/
def pool (fb : List Prime) (idx nfacs : Nat) : List Prime :=
  ((fb.take (min fb.length (2 * idx + 4 * nfacs))).drop 1).filter fun q => q.r != 0

/-- `selected_idx` as `(start, end)` -/
def window (idx nfacs plen : Nat) : Nat × Nat :=
  if idx + 4 * nfacs ≥ plen then (max plen (4 * nfacs) - 4 * nfacs, plen)
  else (max idx (2 * nfacs) - 2 * nfacs, max idx (2 * nfacs) - 2 * nfacs + 4 * nfacs)

/-- `select_siqs_factors(fb, n, nfacs, mm)`: `(target, selection)`; the table of inverses is
`SiqsPoly.mkInverses` of the selection. -/
def selectFactors (fb : List Prime) (n : Int) (nfacs mm : Nat) : Option (Nat × List Prime) :=
  if nfacs = 0 then some (1, [])
  else
    match target n mm with
    | none => none
    | some tgt =>
      let idx := partitionPoint fb nfacs tgt
      let pl := pool fb idx nfacs
      let w := window idx nfacs pl.length
      if ¬ (w.2 - w.1 > nfacs) then none                          -- assert!(selected_idx.len() > nfacs)
      else if w.2 > pl.length then none                           -- pool[i] out of range
      else if ¬ (bitlen tgt < 256) then none                      -- assert!(target.bits() < 256)
      else some (tgt, (pl.drop w.1).take (w.2 - w.1))

/-! ### select_a: exhaustive enumeration -/

/-- products of `k` primes with increasing indices, in the order of the nested loops; `acc` is the product so
far (`depth` factors); a `checked_mul` in `u64` that overflows skips the combination (the fifth factor is
multiplied in `u128`) -/
def combos : Nat → Nat → Nat → List Nat → List Nat
  | 0, _, acc, _ => [acc]
  | _ + 1, _, _, [] => []
  | k + 1, depth, acc, p :: rest =>
    (if depth ≥ 1 ∧ depth ≤ 3 ∧ acc * p ≥ W64 then []
     else combos k (depth + 1) (acc * p) rest) ++ combos (k + 1) depth acc rest

/-- `c.abs_diff(target)` -/
def absDiff (a b : Nat) : Nat := if a ≤ b then b - a else a - b

/-- `Vec::dedup` -/
def dedup : List Nat → List Nat
  | [] => []
  | [x] => [x]
  | x :: y :: rest => if x = y then dedup (y :: rest) else x :: dedup (y :: rest)

/-- merge of two sorted lists, taking from the left on ties (`fuel` ≥ total length) -/
def mergeF (le : Nat → Nat → Bool) : Nat → List Nat → List Nat → List Nat
  | 0, a, b => a ++ b
  | _ + 1, [], b => b
  | _ + 1, a, [] => a
  | f + 1, x :: xs, y :: ys =>
    if le x y then x :: mergeF le f xs (y :: ys) else y :: mergeF le f (x :: xs) ys

/-- stable merge sort (`fuel` ≥ length): the result of any stable sort (`slice::sort_by_key`, `sort`) -/
def sortF (le : Nat → Nat → Bool) : Nat → List Nat → List Nat
  | 0, l => l
  | f + 1, l =>
    if l.length ≤ 1 then l
    else mergeF le l.length (sortF le f (l.take (l.length / 2))) (sortF le f (l.drop (l.length / 2)))

def stableSort (le : Nat → Nat → Bool) (l : List Nat) : List Nat := sortF le l.length l

/-- closest `want` values to the target, in increasing order:
`sort_by_key(|c| c.abs_diff(target)); dedup(); truncate(want); sort()` -/
def closest (tgt want : Nat) (cands : List Nat) : List Nat :=
  stableSort (fun x y => x ≤ y)
    ((dedup (stableSort (fun x y => absDiff x tgt ≤ absDiff y tgt) cands)).take want)

/-- the branch `f.nfacs <= 5 && f.target.bits() <= 66` -/
def selectSmall (tgt nfacs want : Nat) (ps : List Nat) : Option (List Nat) :=
  match ps with
  | [] => none                                                    -- f.factors[0]
  | p0 :: _ =>
    if ¬ (bitlen tgt < smallTBits ∨ p0 > smallP0) then none                   -- assert!
    else if ps.length < nfacs then none                           -- fl - f.nfacs underflows
    else if nfacs < 2 then some []                                -- nothing is pushed for a single factor
    else some (closest tgt want (combos nfacs 0 1 ps))

/-! ### select_a: sampling -/

/-- one step of the generator: `rng ^= rng << 13; rng ^= rng >> 17; rng ^= rng << 5` (`u64`) -/
def xorshift (rng : Nat) : Nat :=
  let r := rng ^^^ ((rng <<< shiftA) % W64)
  let r := r ^^^ (r >>> shiftB)
  r ^^^ ((r <<< shiftC) % W64)

/-- `while mask.count_ones() < nfacs - 1 { let g = gen(); … }`: draws until `need` more primes are marked;
returns `(rng, mask as a list of marked indices, product)` -/
def drawLoop (ps : List Nat) : Nat → Nat → Nat → List Nat → Nat → Option (Nat × List Nat × Nat)
  | 0, _, _, _, _ => none
  | fuel + 1, need, rng, mask, prod =>
    if need = 0 then some (rng, mask, prod)
    else
      let rng := xorshift rng
      if ps.length = 0 then none                                  -- rng % fb
      else
        let g := rng % ps.length
        if g ≥ maskBits then none                                 -- 1 << g
        else if mask.contains g then drawLoop ps fuel need rng mask prod
        else
          let prod := prod * ps.getD g 0
          if prod ≥ U256 then none                                -- U256 overflow
          else drawLoop ps fuel (need - 1) rng (g :: mask) prod

/-- insertion into a `BTreeSet` -/
def insertSorted (x : Nat) : List Nat → List Nat
  | [] => [x]
  | y :: ys => if x < y then x :: y :: ys else if x = y then y :: ys else y :: insertSorted x ys

/-- `(0usize..fb).filter(|g| mask & (1 << g) == 0).min_by_key(|&idx| (p[idx] as i64 - t as i64).abs())`:
the first index with the smallest key -/
def closestIdx (ps : List Nat) (mask : List Nat) (t : Int) : Option Nat :=
  let cands := (List.range ps.length).filter fun g => !mask.contains g
  match cands with
  | [] => none                                                    -- unwrap
  | g0 :: rest =>
    some (rest.foldl (fun best g =>
      if ((ps.getD g 0 : Int) - t).natAbs < ((ps.getD best 0 : Int) - t).natAbs then g else best) g0)

/-- the tolerance window `(amin, amax)` for the divisor `div` -/
def tolWindow (tgt div : Nat) : Nat × Nat :=
  if div = 0 then (tgt / 4, tgt * 4) else (tgt - tgt / div, tgt + tgt / div)

/-- the `for j in jrange` loop -/
def tryJ (ps : List Nat) (mask : List Nat) (prod amin amax : Nat) :
    List Nat → List Nat → Option (List Nat)
  | [], cands => some cands
  | j :: js, cands =>
    if mask.contains j then tryJ ps mask prod amin amax js cands
    else
      let pr := prod * ps.getD j 0
      if pr ≥ U256 then none
      else tryJ ps mask prod amin amax js (if amin < pr ∧ pr < amax then insertSorted pr cands else cands)

/-- the sampling loop; `fuel` bounds the number of iterations -/
def sampleLoop (tgt nfacs want : Nat) (ps : List Nat) :
    Nat → Nat → Nat → Nat → List Nat → Option (List Nat)
  | 0, _, _, _, _ => none                                         -- does not terminate within the fuel
  | fuel + 1, iters, rng, div, cands =>
    if ¬ (iters < loopIters * want ∨ cands.length < want) then
      some (closest tgt want cands)                               -- "should not happen" exit
    else
      let iters := iters + 1
      if want = 0 then none                                       -- iters % (100 * want)
      else
        let div := if iters % (widenEvery * want) = 0 ∧ cands.length < want then max div 1 - 1 else div
        let (amin, amax) := tolWindow tgt div
        if ps.length > maskBits then none                         -- 1 << g for g in 0..fb
        else
          match drawLoop ps (64 * 64 * 64) (nfacs - 1) rng [] 1 with
          | none => none
          | some (rng, mask, prod) =>
            if prod = 0 then none
            else
              let t := tgt / prod
              if t ≥ W64 then none                                -- try_into().unwrap()
              else
                let ti : Int := if t < W64 / 2 then (t : Int) else (t : Int) - (W64 : Int)   -- t as i64
                match closestIdx ps mask ti with
                | none => none
                | some idx =>
                  let js := if div > 0 then (List.range (min (idx + 3) ps.length)).drop (max 2 idx - 2)
                            else List.range ps.length
                  match tryJ ps mask prod amin amax js cands with
                  | none => none
                  | some cands =>
                    if cands.length > earlyMult * want ∧ iters % earlyEvery = 0 then some (closest tgt want cands)
                    else sampleLoop tgt nfacs want ps fuel iters rng div cands

/-- `select_a(f, want)`; `ps` = the primes of `f.factors`; `fuel` = iterations allowed to the sampling loop -/
def selectA (n : Int) (tgt nfacs want : Nat) (ps : List Nat) (fuel : Nat) : Option (List Nat) :=
  if nfacs = 0 then some [1]
  else
    match Ymq.Gen.Params.siqs.a_tolerance_divisor (bitlen n.natAbs) with
    | none => none
    | some div =>
      if div < 3 then none                                        -- assert!(div >= 3)
      else if nfacs ≤ smallNf ∧ bitlen tgt ≤ smallBits then selectSmall tgt nfacs want ps
      else sampleLoop tgt nfacs want ps fuel 0 seed div []

end Ymq.SiqsSelect
