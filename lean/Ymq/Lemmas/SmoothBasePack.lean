/-
Lemmas about the packing loops of `SmoothBase::new` (C17): `powBelow`, the three flush rules, the
loop invariant (no `u64` / `U1024` overflow, the product of everything stored so far grows by
exactly `pow` at every prime).
-/
import Mathlib.Tactic.Linarith
import Mathlib.Tactic.Ring
import Mathlib.Algebra.BigOperators.Group.List.Basic
import Ymq.Model.SmoothBase

namespace Ymq.SmoothBase
open Ymq.Primes

theorem lt_two_pow_bitlen (n : Nat) : n < 2 ^ bitlen n := by
  unfold bitlen
  split
  · subst_vars; decide
  · exact Nat.lt_log2_self

theorem bitlen_le_of_lt {n k : Nat} (h : n < 2 ^ k) : bitlen n ≤ k := by
  unfold bitlen
  split
  · omega
  · rename_i hn
    have h1 := Nat.log2_self_le hn
    have h2 : 2 ^ n.log2 < 2 ^ k := lt_of_le_of_lt h1 h
    have h3 := (Nat.pow_lt_pow_iff_right (by decide : 1 < 2)).mp h2
    omega

/-- the flush test `1 << lz(buffer) <= pow` failing means that `buffer * pow` fits in 64 bits -/
theorem mul_lt_of_flush_test {buf pow : Nat} (hb : buf < 2 ^ 64)
    (h : ¬ 2 ^ (64 - bitlen buf) ≤ pow) : buf * pow < 2 ^ 64 := by
  have h1 := lt_two_pow_bitlen buf
  have h2 := bitlen_le_of_lt hb
  have h3 : pow < 2 ^ (64 - bitlen buf) := Nat.lt_of_not_le h
  have h4 : buf * pow < 2 ^ bitlen buf * 2 ^ (64 - bitlen buf) :=
    Nat.mul_lt_mul'' h1 h3
  rw [← Nat.pow_add] at h4
  have : bitlen buf + (64 - bitlen buf) = 64 := by omega
  rwa [this] at h4

theorem lt_of_bitlen_le {n k : Nat} (h : bitlen n ≤ k) : n < 2 ^ k :=
  lt_of_lt_of_le (lt_two_pow_bitlen n) (Nat.pow_le_pow_right (by decide) h)

/-- `while pow * p < b1 { pow *= p }`: terminates within the fuel, never overflows `u64`, and
returns `pow * p^j`, the largest such value below `b1` (or `pow` itself when `pow * p ≥ b1`). -/
theorem powBelow_spec (p b1 : Nat) (hp : 2 ≤ p) (hp32 : p < 2 ^ 32) (hb : b1 ≤ 2 ^ 32) :
    ∀ f pow, 1 ≤ pow → pow < 2 ^ 32 → b1 ≤ pow * 2 ^ (f + 1) →
      ∃ j, powBelow (f + 1) pow p b1 = some (pow * p ^ j) ∧ b1 ≤ pow * p ^ j * p ∧
        (j = 0 ∨ pow * p ^ j < b1) := by
  intro f
  induction f with
  | zero =>
    intro pow h1 h32 hf
    have hpp : pow * p < 2 ^ 64 := by
      have : pow * p < 2 ^ 32 * 2 ^ 32 := Nat.mul_lt_mul'' h32 hp32
      calc pow * p < 2 ^ 32 * 2 ^ 32 := this
        _ = 2 ^ 64 := by norm_num
    have hge : b1 ≤ pow * p := by
      calc b1 ≤ pow * 2 ^ (0 + 1) := hf
        _ = pow * 2 := by norm_num
        _ ≤ pow * p := Nat.mul_le_mul_left _ hp
    refine ⟨0, ?_, by simpa using hge, Or.inl rfl⟩
    have h1' : ¬ pow * p ≥ 2 ^ 64 := by omega
    have h2' : ¬ pow * p < b1 := by omega
    rw [powBelow, if_neg h1', if_neg h2']
    simp
  | succ f ih =>
    intro pow h1 h32 hf
    have hpp : pow * p < 2 ^ 64 := by
      have : pow * p < 2 ^ 32 * 2 ^ 32 := Nat.mul_lt_mul'' h32 hp32
      calc pow * p < 2 ^ 32 * 2 ^ 32 := this
        _ = 2 ^ 64 := by norm_num
    have h1' : ¬ pow * p ≥ 2 ^ 64 := by omega
    by_cases hlt : pow * p < b1
    · have hf' : b1 ≤ pow * p * 2 ^ (f + 1) := by
        calc b1 ≤ pow * 2 ^ (f + 1 + 1) := hf
          _ = pow * 2 * 2 ^ (f + 1) := by ring
          _ ≤ pow * p * 2 ^ (f + 1) :=
            Nat.mul_le_mul_right _ (Nat.mul_le_mul_left _ hp)
      have hpos : 1 ≤ pow * p := by
        have : 1 * 1 ≤ pow * p := Nat.mul_le_mul h1 (by omega)
        simpa using this
      obtain ⟨j, hj, hj2, hj3⟩ := ih (pow * p) hpos (by omega) hf'
      refine ⟨j + 1, ?_, ?_, Or.inr ?_⟩
      · rw [powBelow]
        simp only [h1', hlt, if_false, if_true]
        rw [hj]; congr 1; ring
      · have : pow * p ^ (j + 1) = pow * p * p ^ j := by ring
        rw [this]; exact hj2
      · have : pow * p ^ (j + 1) = pow * p * p ^ j := by ring
        rw [this]
        rcases hj3 with h0 | h0
        · subst h0; simpa using hlt
        · exact h0
    · refine ⟨0, ?_, by simpa using Nat.le_of_not_lt hlt, Or.inl rfl⟩
      rw [powBelow, if_neg h1', if_neg hlt]
      simp

/-- `powBelow` as called by the code (`pow = p`, fuel 64) for a number `2 ≤ p < 2^32` -/
theorem powBelow_start (p b1 : Nat) (hp : 2 ≤ p) (hp32 : p < 2 ^ 32) (hb : b1 ≤ 2 ^ 32) :
    ∃ j, powBelow 64 p p b1 = some (p ^ (j + 1)) ∧ b1 ≤ p ^ (j + 2) ∧
      (j = 0 ∨ p ^ (j + 1) < b1) := by
  have hf : b1 ≤ p * 2 ^ (63 + 1) := by
    calc b1 ≤ 2 ^ 32 := hb
      _ ≤ 1 * 2 ^ 64 := by norm_num
      _ ≤ p * 2 ^ (63 + 1) := Nat.mul_le_mul (by omega) (by norm_num)
  obtain ⟨j, h1, h2, h3⟩ := powBelow_spec p b1 hp hp32 hb 63 p (by omega) hp32 hf
  refine ⟨j, ?_, ?_, ?_⟩
  · rw [show (64 : Nat) = 63 + 1 from rfl, h1]; congr 1; ring
  · calc b1 ≤ p * p ^ j * p := h2
      _ = p ^ (j + 2) := by ring
  · rcases h3 with h | h
    · exact Or.inl h
    · right; calc p ^ (j + 1) = p * p ^ j := by ring
        _ < b1 := h

/-- every power of `p` below `b1` divides the value computed by `powBelow` -/
theorem pow_dvd_of_lt {p b1 j k : Nat} (hp : 2 ≤ p) (hb : b1 ≤ p ^ (j + 2)) (hk : p ^ k < b1) :
    p ^ k ∣ p ^ (j + 1) := by
  have h1 : p ^ k < p ^ (j + 2) := lt_of_lt_of_le hk hb
  have h2 := (Nat.pow_lt_pow_iff_right (by omega : 1 < p)).mp h1
  exact Nat.pow_dvd_pow p (by omega)

/-! ### the loop invariant of `SmoothBase::new` -/

/-- no stored value exceeds its machine type; the 1024-bit buffer has room for one more `u64` -/
structure Inv (st : St) : Prop where
  buf_pos : 1 ≤ st.buffer
  buf_lt : st.buffer < 2 ^ 64
  lg_pos : 1 ≤ st.bufferLg
  lg_lt : st.bufferLg < 2 ^ 960
  f_lt : ∀ x ∈ st.factors, x < 2 ^ 64
  l_lt : ∀ x ∈ st.larges, x < 2 ^ 1024

/-- the product of everything accumulated so far -/
def total (st : St) : Nat := st.factors.prod * st.larges.prod * (st.buffer * st.bufferLg)

theorem inv_st0 : Inv st0 := by
  constructor
  · exact Nat.le_refl 1
  · show 1 < 2 ^ 64
    exact Nat.one_lt_two_pow (by decide)
  · exact Nat.le_refl 1
  · show 1 < 2 ^ 960
    exact Nat.one_lt_two_pow (by decide)
  · intro x hx; simp [st0] at hx
  · intro x hx; simp [st0] at hx

theorem total_st0 : total st0 = 1 := by simp [total, st0]

theorem flushSmallPrime_spec (p : Nat) (st : St) (h : Inv st) :
    Inv (flushSmallPrime p st) ∧ total (flushSmallPrime p st) = total st := by
  unfold flushSmallPrime
  split
  · refine ⟨⟨by simp, by simp, h.lg_pos, h.lg_lt, ?_, h.l_lt⟩, ?_⟩
    · intro x hx
      simp only [List.mem_cons] at hx
      rcases hx with rfl | hx
      · exact h.buf_lt
      · exact h.f_lt x hx
    · simp only [total, List.prod_cons]; ring
  · exact ⟨h, rfl⟩

theorem two_pow_960_64 : (2 : Nat) ^ 960 * 2 ^ 64 = 2 ^ 1024 := by
  rw [← Nat.pow_add]

theorem two_pow_960_mul {a b : Nat} (ha : a < 2 ^ 960) (hb : b < 2 ^ 64) : a * b < 2 ^ 1024 := by
  have h : a * b < 2 ^ 960 * 2 ^ 64 := Nat.mul_lt_mul'' ha hb
  rw [two_pow_960_64] at h
  exact h

/-- rule 2 never overflows; afterwards `buffer * pow` fits in a `u64` -/
theorem flushFull_spec (p pow : Nat) (ul : Bool) (st : St) (h : Inv st) (hpow : pow < 2 ^ 64) :
    ∃ st', flushFull p pow ul st = some st' ∧ total st' = total st ∧
      1 ≤ st'.buffer ∧ st'.buffer * pow < 2 ^ 64 ∧ 1 ≤ st'.bufferLg ∧ st'.bufferLg < 2 ^ 1024 ∧
      (∀ x ∈ st'.factors, x < 2 ^ 64) ∧ (∀ x ∈ st'.larges, x < 2 ^ 1024) := by
  have hb0 : st.buffer ≠ 0 := by have := h.buf_pos; omega
  have hlg1024 : st.bufferLg < 2 ^ 1024 :=
    lt_of_lt_of_le h.lg_lt (Nat.pow_le_pow_right (by decide) (by decide))
  unfold flushFull
  rw [if_neg hb0]
  by_cases hfl : 2 ^ (64 - bitlen st.buffer) ≤ pow
  · rw [if_pos hfl]
    by_cases hsm : p < 4096 ∨ ul = false
    · rw [if_pos hsm]
      refine ⟨_, rfl, ?_, by simp, by simpa using hpow, h.lg_pos, hlg1024, ?_, h.l_lt⟩
      · simp only [total, List.prod_cons]; ring
      · intro x hx
        simp only [List.mem_cons] at hx
        rcases hx with rfl | hx
        · exact h.buf_lt
        · exact h.f_lt x hx
    · rw [if_neg hsm]
      have hmul := two_pow_960_mul h.lg_lt h.buf_lt
      rw [if_pos hmul]
      refine ⟨_, rfl, ?_, by simp, by simpa using hpow, ?_, hmul, h.f_lt, h.l_lt⟩
      · simp only [total]; ring
      · have : 1 * 1 ≤ st.bufferLg * st.buffer := Nat.mul_le_mul h.lg_pos h.buf_pos
        simpa using this
  · rw [if_neg hfl]
    exact ⟨st, rfl, rfl, h.buf_pos, mul_lt_of_flush_test h.buf_lt hfl, h.lg_pos, hlg1024,
      h.f_lt, h.l_lt⟩

theorem flushLarge_spec (st : St) (hlg1 : 1 ≤ st.bufferLg) (hlg : st.bufferLg < 2 ^ 1024)
    (hl : ∀ x ∈ st.larges, x < 2 ^ 1024) :
    total (flushLarge st) = total st ∧ (flushLarge st).buffer = st.buffer ∧
      (flushLarge st).factors = st.factors ∧
      1 ≤ (flushLarge st).bufferLg ∧ (flushLarge st).bufferLg < 2 ^ 960 ∧
      (∀ x ∈ (flushLarge st).larges, x < 2 ^ 1024) := by
  unfold flushLarge
  split
  · refine ⟨?_, rfl, rfl, by simp, ?_, ?_⟩
    · simp only [total, List.prod_cons]; ring
    · show 1 < 2 ^ 960
      exact Nat.one_lt_two_pow (by decide)
    · intro x hx
      simp only [List.mem_cons] at hx
      rcases hx with rfl | hx
      · exact hlg
      · exact hl x hx
  · rename_i hnot
    refine ⟨rfl, rfl, rfl, hlg1, ?_, hl⟩
    exact lt_of_bitlen_le (by omega)

theorem powOf_lt {b1 p pow : Nat} (h : powOf b1 p = some pow) : pow < 2 ^ 64 := by
  unfold powOf at h
  cases hq : powBelow 64 p p b1 with
  | none => simp [hq] at h
  | some q =>
    simp only [hq] at h
    split_ifs at h <;> simp only [Option.some.injEq] at h <;> omega

/-- one prime: no panic site is reached and the accumulated product is multiplied by `pow` -/
theorem step_spec (b1 : Nat) (ul : Bool) (st : St) (p pow : Nat) (h : Inv st)
    (hpow : powOf b1 p = some pow) (hpos : 1 ≤ pow) :
    ∃ st', step b1 ul st p = some st' ∧ Inv st' ∧ total st' = total st * pow := by
  have hpow64 : pow < 2 ^ 64 := powOf_lt hpow
  obtain ⟨h1, t1⟩ := flushSmallPrime_spec p st h
  obtain ⟨st2, e2, t2, b2, m2, lg2a, lg2, f2, l2⟩ :=
    flushFull_spec p pow ul (flushSmallPrime p st) h1 hpow64
  obtain ⟨t3, b3, f3, lg3a, lg3, l3⟩ := flushLarge_spec st2 lg2a lg2 l2
  unfold step
  rw [hpow]
  simp only [e2]
  unfold mulBuffer
  rw [b3, if_pos m2]
  refine ⟨_, rfl, ⟨?_, by simpa using m2, lg3a, lg3, by simpa [f3] using f2, l3⟩, ?_⟩
  · show 1 ≤ st2.buffer * pow
    have : 1 * 1 ≤ st2.buffer * pow := Nat.mul_le_mul b2 hpos
    simpa using this
  · simp only [total] at t3 t2 t1 ⊢
    rw [b3] at t3
    have : (flushLarge st2).factors.prod * (flushLarge st2).larges.prod *
        (st2.buffer * pow * (flushLarge st2).bufferLg) =
        (flushLarge st2).factors.prod * (flushLarge st2).larges.prod *
        (st2.buffer * (flushLarge st2).bufferLg) * pow := by ring
    rw [this, t3, t2, t1]

end Ymq.SmoothBase
