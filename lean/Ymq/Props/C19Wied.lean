/-
C19 / Wiedemann: the callers of `berlekamp_massey` in src/matrix/intsparse.rs
(model: Ymq/Model/Wiedemann.lean; `laneDet` = one lane of `_detp4` after the Krylov loop:
Berlekamp–Massey, `charpoly[size]`, the sign).

The theorems are about one lane: `p` an odd prime below `2^63`, `M` an `n × n` matrix over
`ZMod p`, `seq` the `2n` reduced terms of a scalar Krylov sequence `s_k = w M^k v` (`_detp4`: `w = e_0`,
`v` = the Fibonacci start vector) with at least two non-zero terms (`s_0 = 1` in `_detp4`; a
sequence `[1,0,...,0]` is the recorded panic `sparse-det-degenerate-sequence-panic`).
-/
import Ymq.Lemmas.WiedemannBM
import Ymq.Lemmas.BerlekampMasseyMg
import Ymq.Lemmas.WiedemannDetz
import Ymq.Lemmas.WiedemannWitness
import Ymq.Lemmas.WiedemannWitness2
import Ymq.Lemmas.WiedemannKrylov
import Ymq.Lemmas.WiedemannPrimes
import Ymq.Lemmas.WiedemannKer
import Ymq.Lemmas.WiedemannKerAlg
import Ymq.Props.C06
import Mathlib.Tactic.NormNum.Prime

namespace Ymq.C19Wied
open Ymq.BM Ymq.Wied Polynomial Matrix

/-- linear complexity below `n`: a recurrence of order `L < n` holds on the whole sequence
(`krylov_deficient` of props/c19.py) -/
def Deficient (p n : ℕ) (seq : List ℕ) : Prop :=
  ∃ L taps, L < n ∧ List.getD taps 0 0 % p ≠ 0 ∧ (∀ j, L < j → List.getD taps j 0 % p = 0) ∧
    ∀ i, L ≤ i → i < seq.length → convAt taps seq i % p = 0

/-- Cayley–Hamilton on the Krylov sequence: `Σ_m χ_m s_{k+m} = 0` for the characteristic
polynomial `χ` of `M`, over any field — a recurrence of order `n`. -/
theorem krylov_recurrence {F : Type*} [Field F] {n : ℕ} (M : Matrix (Fin n) (Fin n) F)
    (w : Matrix (Fin 1) (Fin n) F) (v : Matrix (Fin n) (Fin 1) F) (k : ℕ) :
    ∑ m ∈ Finset.range (n + 1), M.charpoly.coeff m * krylovSeq M w v (k + m) = 0 :=
  charpoly_annihilates M w v k

/-- what `laneDet` computes from the Berlekamp–Massey output -/
private theorem laneDet_eval (p n : ℕ) (hp : 0 < p) (hn : 1 ≤ n) (seq out : List ℕ) (h : bm p seq = some out)
    (hl : out.length = 2 * n) (hr : ∀ x ∈ out, x < p) :
    (out.getD n 0 = 0 → laneDet n p seq = some 0) ∧
    (out.getD n 0 ≠ 0 → ∃ d, laneDet n p seq = some d ∧ d < p ∧ d ≠ 0 ∧
      (d : ZMod p) = (-1) ^ n * ((out.getD n 0 : ℕ) : ZMod p)) := by
  have hidx : out[n]? = some (out.getD n 0) := getElem?_of_lt out n (by omega)
  have hc : out.getD n 0 < p := red_of_mem hp out hr n
  generalize out.getD n 0 = c0 at *
  constructor
  · intro h0
    simp [laneDet, h, hidx, h0]
  · intro h0
    rcases Nat.even_or_odd n with he | ho
    · refine ⟨c0, ?_, hc, h0, ?_⟩
      · have : ¬ n % 2 = 1 := by have := Nat.even_iff.mp he; omega
        simp [laneDet, h, hidx, this]
      · rw [he.neg_one_pow, one_mul]
    · refine ⟨p - c0, ?_, by omega, by omega, ?_⟩
      · have h1 : n % 2 = 1 := Nat.odd_iff.mp ho
        have h2 : ¬ p < c0 := by omega
        simp [laneDet, h, hidx, h1, h0, h2]
      · rw [ho.neg_one_pow, Nat.cast_sub (le_of_lt hc), ZMod.natCast_self]; ring

/-- **Full complexity.** On the Krylov sequence of `M`, `berlekamp_massey` does not panic; if the
returned vector has degree exactly `n` it is the reversed characteristic polynomial of `M`
(coefficient by coefficient) and the value `_detp4` reads off, with the code's sign convention
(`p - c0` for odd size and `c0 ≠ 0`), is `det M`; if its degree is smaller the lane returns 0. -/
theorem detp4_spec_full_complexity (p : ℕ) [hpf : Fact p.Prime] (hodd : p % 2 = 1) (hlt : p < 2 ^ 63)
    (n : ℕ) (hn : 1 ≤ n) (M : Matrix (Fin n) (Fin n) (ZMod p))
    (w : Matrix (Fin 1) (Fin n) (ZMod p)) (v : Matrix (Fin n) (Fin 1) (ZMod p))
    (seq : List ℕ) (hlen : seq.length = 2 * n) (hr : ∀ x ∈ seq, x < p)
    (hs : ∀ k, k < 2 * n → ((seq.getD k 0 : ℕ) : ZMod p) = krylovSeq M w v k)
    (h2 : TwoTerms seq) :
    ∃ out, bm p seq = some out ∧ out.length = 2 * n ∧
      (out.getD n 0 ≠ 0 →
        (∀ j, ((out.getD j 0 : ℕ) : ZMod p) = M.charpoly.reverse.coeff j) ∧
        ∃ d, laneDet n p seq = some d ∧ d < p ∧ (d : ZMod p) = M.det) ∧
      (out.getD n 0 = 0 → laneDet n p seq = some 0) := by
  have hp : p.Prime := hpf.out
  obtain ⟨pinv, hpinv, e⟩ := bm_prelude p hodd hlt seq
  have ok := mgOps_ok p pinv hodd hlt hpinv
  obtain ⟨out, A, c1, c2, c3, c4, c5, c6, _⟩ := wied_core ok hn M w v seq hlen hr hs h2
  rw [← e] at c1
  obtain ⟨l0, l1⟩ := laneDet_eval p n hp.pos hn seq out c1 c2 c3
  refine ⟨out, c1, c2, ?_, l0⟩
  intro htop
  have hc : out.getD n 0 < p := red_of_mem hp.pos out c3 n
  have htop' : ((out.getD n 0 : ℕ) : ZMod p) ≠ 0 := by
    rw [Ne, cast_eq_zero_of_lt hc]; exact htop
  have hfull := wied_full M out A c4 c6 htop'
  refine ⟨fun j => ?_, ?_⟩
  · rw [← hfull, coeff_toPoly]; rfl
  · obtain ⟨d, d1, d2, _, d4⟩ := l1 htop
    exact ⟨d, d1, d2, by rw [d4, wied_det_of_full M out hfull]⟩

/-- **The recorded finding `sparse-det-false-zero`, exactly.** For a matrix that is nonsingular
modulo `p`, the lane returns 0 (a false zero) if and only if the Krylov sequence has linear
complexity below `n`. (For a singular matrix the lane returns 0 in either case, correctly.) -/
theorem detp4_false_zero_iff_deficient (p : ℕ) [hpf : Fact p.Prime] (hodd : p % 2 = 1)
    (hlt : p < 2 ^ 63) (n : ℕ) (hn : 1 ≤ n) (M : Matrix (Fin n) (Fin n) (ZMod p))
    (w : Matrix (Fin 1) (Fin n) (ZMod p)) (v : Matrix (Fin n) (Fin 1) (ZMod p))
    (seq : List ℕ) (hlen : seq.length = 2 * n) (hr : ∀ x ∈ seq, x < p)
    (hs : ∀ k, k < 2 * n → ((seq.getD k 0 : ℕ) : ZMod p) = krylovSeq M w v k)
    (h2 : TwoTerms seq) (hdet : M.det ≠ 0) :
    laneDet n p seq = some 0 ↔ Deficient p n seq := by
  have hp : p.Prime := hpf.out
  obtain ⟨pinv, hpinv, e⟩ := bm_prelude p hodd hlt seq
  have ok := mgOps_ok p pinv hodd hlt hpinv
  obtain ⟨out, A, c1, c2, c3, c4, c5, c6, c7⟩ := wied_core ok hn M w v seq hlen hr hs h2
  have c1' : bm p seq = some out := by rw [e]; exact c1
  obtain ⟨l0, l1⟩ := laneDet_eval p n hp.pos hn seq out c1' c2 c3
  have hc : out.getD n 0 < p := red_of_mem hp.pos out c3 n
  constructor
  · intro hz
    have htop : out.getD n 0 = 0 := by
      by_contra hne
      obtain ⟨d, d1, _, d3, _⟩ := l1 hne
      rw [hz] at d1
      exact d3 (Option.some.inj d1).symm
    have hA := wied_deficient M out A c5 c6 (by rw [htop]; simp) hdet hn
    refine ⟨n - 1, out, by omega, ?_, ?_, ?_⟩
    · rw [c4, Nat.mod_eq_of_lt hp.one_lt]; omega
    · intro j hj
      by_cases hjn : j = n
      · rw [hjn, htop]; simp
      · rw [c5 j (by omega)]; simp
    · intro i h1 h2'
      rw [mod_eq_zero_iff_cast, convAt_cast]
      exact c7 i (by omega) (by rw [hlen] at h2'; exact h2')
  · rintro ⟨L, taps, hL, t0, t1, t2⟩
    obtain ⟨m1, _⟩ := core_minimal_list ok seq hr h2 L taps (by rw [hlen]; omega) t0 t1 t2 out c1
    exact l0 (m1 n hL)


/-! ### `mulp` and the Krylov loop of the model -/

/-- **`mulp`, one lane (`mulp_spec`).** `posW r`, `negW r` are the two sums whose maximum over
the rows is `SparseMat::norm()`. If the lane's vector has `size` entries, each at most `Bd`, and
`posW r · Bd < 2^63`, `negW r · Bd < 2^63` for every row (with `Bd = p - 1` this is the code's
assumption `p · norm < 2^63`, `select_crtprimes`' `debug_assert!`), then for `0 < p < 2^63` no
`i64` operation overflows in the checked profile, nothing panics, and the lane returns
`(Σ_j M_ij v_j) mod p` for every row `i` — in matrix form `M · v` over `ZMod p`. The lanes of
`mulp::<N>` do not interact (each lane is this function of its own modulus and vector). -/
theorem mulp_spec (p : ℕ) (hp0 : 0 < p) (hp : (p : Int) < I63) (m : Mat) (v : List ℕ)
    (hlen : v.length = m.length) (hcols : ∀ r ∈ m, ∀ je ∈ r, je.1 < m.length)
    (Bd : Int) (hB0 : 0 ≤ Bd) (hv : ∀ j, ((v.getD j 0 : ℕ) : Int) ≤ Bd)
    (hw : ∀ r ∈ m, posW r * Bd < I63 ∧ negW r * Bd < I63) :
    ∃ out, mulpLane m p v = some out ∧ out.length = m.length ∧
      (∀ i, out.getD i 0 = (rowDot (fun j => v.getD j 0) (m.getD i []) % (p : Int)).toNat) ∧
      colOf p m.length out = matOf p m.length m * colOf p m.length v := by
  refine ⟨_, mulpLane_spec m p hp0 hp v hlen Bd hB0 hv hw, by simp, fun i => ?_,
    mulp_matrix m.length m hcols v hp0⟩
  exact getD_map_zero _ (by simp [rowDot, sumSel]) m i

/-- The bound matters: with `p · norm ≥ 2^63` the checked profile panics on an `i64` overflow
(the release profile wraps silently: the real code answers 1310722 instead of `p - 65534` for this
request, `im_mulp4 0:32767,0:32767 p,p,p,p v,v,v,v` with `p = 2^48 + 21`, `v = p - 1`). -/
theorem mulp_overflow_witness :
    mulpLane [[(0, 32767), (0, 32767)]] 281474976710677 [281474976710676] = none := by
  decide +kernel

/-- **One lane of `_detp4`, from the matrix to the determinant.** For a validated matrix `m` of
size `n ≥ 1`, an odd prime `p < 2^63` and a bound `Bd ≥ max(p - 1, 65536)` with
`weight · Bd < 2^63` for every row: the Krylov loop does not panic and yields `2n` reduced terms
`s_t = e_0 · M^t · v` (`M = matOf p n m`, `v` = the Fibonacci start vector); if the sequence has two
non-zero terms, Berlekamp–Massey does not panic, and the lane returns `det M` whenever the
returned polynomial has degree `n`, and 0 otherwise. -/
theorem detp4_lane_of_model (p : ℕ) [hpf : Fact p.Prime] (hodd : p % 2 = 1) (hlt : p < 2 ^ 63)
    (n : ℕ) (hn : 1 ≤ n) (m : Mat) (hm : m.length = n) (hcols : ∀ r ∈ m, ∀ je ∈ r, je.1 < n)
    (Bd : Int) (hBp : (p : Int) ≤ Bd + 1) (hB65 : 65536 ≤ Bd)
    (hw : ∀ r ∈ m, posW r * Bd < I63 ∧ negW r * Bd < I63) :
    ∃ seq, krylov m p (2 * m.length + 1) (startVec m.length 0 1) [] = some seq ∧
      seq.length = 2 * n ∧
      (TwoTerms seq → ∃ out, bm p seq = some out ∧
        (out.getD n 0 ≠ 0 → ∃ d, laneDet n p seq = some d ∧ d < p ∧
          (d : ZMod p) = (matOf p n m).det) ∧
        (out.getD n 0 = 0 → laneDet n p seq = some 0)) := by
  have hp : p.Prime := hpf.out
  have hpI : (p : Int) < I63 := by rw [I63_eq]; exact_mod_cast hlt
  obtain ⟨seq, k1, k2, k3, k4⟩ := krylov_model_spec n hn m hm hcols hp.one_lt hpI Bd hBp hB65 hw
  refine ⟨seq, k1, k2, fun h2 => ?_⟩
  obtain ⟨out, o1, _, o3, o4⟩ := detp4_spec_full_complexity p hodd hlt n hn (matOf p n m)
    (e0 p n) (colOf p n (startVec n 0 1)) seq k2 k3 k4 h2
  exact ⟨out, o1, fun h => (o3 h).2, o4⟩

/-- The same with the code's own bound: `norm() · max(p, 65537) ≤ 2^63` (for the moduli of
`select_crtprimes`, `p · norm < 2^63` is its `debug_assert!`; 65537 bounds the start vector). -/
theorem detp4_lane_of_norm (p : ℕ) [hpf : Fact p.Prime] (hodd : p % 2 = 1) (hlt : p < 2 ^ 63)
    (n : ℕ) (hn : 1 ≤ n) (m : Mat) (hm : m.length = n) (hcols : ∀ r ∈ m, ∀ je ∈ r, je.1 < n)
    (hnorm : (norm m : Int) * ((max p 65537 : ℕ) : Int) ≤ 2 ^ 63) :
    ∃ seq, krylov m p (2 * m.length + 1) (startVec m.length 0 1) [] = some seq ∧
      seq.length = 2 * n ∧
      (TwoTerms seq → ∃ out, bm p seq = some out ∧
        (out.getD n 0 ≠ 0 → ∃ d, laneDet n p seq = some d ∧ d < p ∧
          (d : ZMod p) = (matOf p n m).det) ∧
        (out.getD n 0 = 0 → laneDet n p seq = some 0)) := by
  have hmx : (65537 : Int) ≤ ((max p 65537 : ℕ) : Int) := by exact_mod_cast le_max_right p 65537
  have hmp : (p : Int) ≤ ((max p 65537 : ℕ) : Int) := by exact_mod_cast le_max_left p 65537
  have hn0 : (0 : Int) ≤ (norm m : Int) := Int.natCast_nonneg _
  apply detp4_lane_of_model p hodd hlt n hn m hm hcols (((max p 65537 : ℕ) : Int) - 1)
    (by omega) (by omega)
  apply weights_of_norm m _ (by omega)
  rw [I63_eq]
  rcases Nat.eq_zero_or_pos (norm m) with h0 | h0
  · rw [h0]; norm_num
  · have : (1 : Int) ≤ (norm m : Int) := by exact_mod_cast h0
    nlinarith

/-! ### `detz`: CRT with termination on the first repeated value -/

/-- **`detz` from its lanes (partial).** `detz` does NOT use the Hadamard/norm bound: it rebuilds
the determinant after every block of four moduli and returns as soon as two consecutive values
agree (the first comparison is with the initial value 0). What can be proved: if
`select_crtprimes` returns (at least) eight pairwise coprime moduli below `2^64`, every lane of the
first two blocks returns a residue of the integer `d` (`p_i ∣ r_i - d`: what
`detp4_spec_full_complexity` gives lane by lane for `d = det M`), and already the product of the
FIRST FOUR moduli exceeds `2|d|`, then `detz` returns `d` (without panic, `unreachable!()` not
reached). Without the bound on the first block the statement is false:
`detz_early_termination_witness`. `hinv` is discharged by `Ymq.C19.invMod64_invSpec`. -/
theorem detz_of_detp_partial (isprime : ℕ → Option Bool) (inv : Ymq.IntMat.Inv)
    (hinv : Ymq.IntMat.InvSpec inv) (m : Mat) (d : Int)
    (p0 p1 p2 p3 p4 p5 p6 p7 : ℕ) (rest : List ℕ) (r0 r1 r2 r3 r4 r5 r6 r7 : ℕ)
    (hsel : selectPrimes isprime m = some (p0 :: p1 :: p2 :: p3 :: p4 :: p5 :: p6 :: p7 :: rest))
    (hb1 : detp m [p0, p1, p2, p3] = some [r0, r1, r2, r3])
    (hb2 : detp m [p4, p5, p6, p7] = some [r4, r5, r6, r7])
    (hp : ∀ q ∈ [p0, p1, p2, p3, p4, p5, p6, p7], 1 < q ∧ q < Ymq.IntMat.U64)
    (hcop : [p0, p1, p2, p3, p4, p5, p6, p7].Pairwise Nat.Coprime)
    (h0 : (p0 : Int) ∣ (r0 : Int) - d) (h1 : (p1 : Int) ∣ (r1 : Int) - d)
    (h2 : (p2 : Int) ∣ (r2 : Int) - d) (h3 : (p3 : Int) ∣ (r3 : Int) - d)
    (h4 : (p4 : Int) ∣ (r4 : Int) - d) (h5 : (p5 : Int) ∣ (r5 : Int) - d)
    (h6 : (p6 : Int) ∣ (r6 : Int) - d) (h7 : (p7 : Int) ∣ (r7 : Int) - d)
    (hd1 : -((p0 * p1 * p2 * p3 : ℕ) : Int) < 2 * d)
    (hd2 : 2 * d < ((p0 * p1 * p2 * p3 : ℕ) : Int)) :
    detz isprime inv m = some d := by
  have e : (p0 :: p1 :: p2 :: p3 :: p4 :: p5 :: p6 :: p7 :: rest).length + 1 =
      (rest.length + 7) + 2 := by simp
  simp only [detz, hsel, Option.bind_eq_bind, Option.bind_some, e]
  exact detzLoop_first_block inv hinv m d p0 p1 p2 p3 p4 p5 p6 p7 rest r0 r1 r2 r3 r4 r5 r6 r7 _
    hb1 hb2 hp hcop h0 h1 h2 h3 h4 h5 h6 h7 hd1 hd2

/-- **Counter-witness (new finding `sparse-det-early-termination`).** For the nonsingular 15 × 15
matrix `advMat` (determinant `108 · p_0 p_1 p_2 p_3`, 201 bits, where `p_0 … p_3` are the moduli of
the first block; see Ymq/Lemmas/WiedemannWitness.lean) the model of `detz` — prime selection,
four correct lanes, CRT — returns 0 after a single block, because the first reconstruction equals
the initial value of `res.det`. The real code returns 0 as well, in both profiles
(`im_det_sparse`, props/c19_wied.py `WITNESSES`). -/
theorem detz_early_termination_witness :
    (mkMat advMat).bind (detz Ymq.Mg64.isprime64 Ymq.Arith.invMod64) = some 0 := by
  rw [adv_valid]
  simp only [Option.bind_some, detz, adv_primes, Option.bind_eq_bind]
  rw [show advPrimes.length + 1 = 16 from by decide]
  exact adv_loop


/-- **Counter-witness, closed inside Lean.** `advMat2` (the matrix of
`detz_early_termination_witness` with its digit column moved to the last position; see
Ymq/Lemmas/WiedemannWitness2.lean) is a validated 15 × 15 integer matrix whose determinant is
`advDet = 108 · p_0 p_1 p_2 p_3 ≠ 0` (proved through an explicit triangularisation
`A · U = L`, `det U = 1`), and the model of `detz` returns 0 on it: the returned value is not the
determinant. The real code returns 0 as well in both profiles. -/
theorem detz_early_termination_witness_closed :
    (intMatOf 15 advMat2).det = advDet ∧ advDet ≠ 0 ∧
      (mkMat advMat2).bind (detz Ymq.Mg64.isprime64 Ymq.Arith.invMod64) = some 0 := by
  refine ⟨adv2_det, advDet_ne_zero, ?_⟩
  rw [adv2_valid]
  simp only [Option.bind_some, detz, adv2_primes, Option.bind_eq_bind]
  rw [show advPrimes.length + 1 = 16 from by decide]
  exact adv2_loop

/-! ### `select_crtprimes` -/

/-- soundness of the primality test used by `select_crtprimes` -/
def IsprimeSound (isprime : ℕ → Option Bool) : Prop :=
  ∀ q, q < 2 ^ 64 → isprime q = some true → q.Prime

/-- `isprime64` (model of property C06) is sound under C06's three named literature hypotheses
(minimal strong pseudoprimes ψ₂, ψ₅, and none below 2^64 to the twelve prime bases up to 37). -/
theorem isprime64_isprimeSound
    (Hψ2 : ∀ n, n % 2 = 1 → 1 < n → n < 1373653 → (∀ b ∈ [2, 3], Ymq.Pseudoprime.SPRP n b) → Nat.Prime n)
    (Hψ5 : ∀ n, n % 2 = 1 → 1 < n → n < 2152302898747 →
      (∀ b ∈ [2, 3, 5, 7, 11], Ymq.Pseudoprime.SPRP n b) → Nat.Prime n)
    (Hψ12 : ∀ n, n % 2 = 1 → 1 < n → n < 2 ^ 64 →
      (∀ b ∈ [2, 3, 5, 7, 11, 13, 17, 19, 23, 29, 31, 37], Ymq.Pseudoprime.SPRP n b) → Nat.Prime n) :
    IsprimeSound Ymq.Mg64.isprime64 :=
  fun q hq h => Ymq.C06.isprime64_sound Hψ2 Hψ5 Hψ12 q hq h

/-- **`select_crtprimes`.** Whenever it returns, it returns exactly `max(size, 8)` moduli, in
strictly decreasing order (hence distinct), each accepted by the primality test — prime when the
test is sound — each with `q · norm < 2^63` (so `q < 2^63`), and pairwise coprime. It panics when
`norm = 0` (zero matrix: recorded in `sparse-det-degenerate-sequence-panic`). -/
theorem select_crtprimes_spec (isprime : ℕ → Option Bool) (hsound : IsprimeSound isprime) (m : Mat)
    (out : List ℕ) (h : selectPrimes isprime m = some out) :
    out.length = max m.length 8 ∧ out.Pairwise (· > ·) ∧ out.Pairwise Nat.Coprime ∧
      ∀ q ∈ out, q.Prime ∧ q * norm m < 2 ^ 63 ∧ q < 2 ^ 63 := by
  obtain ⟨h1, h2, h3⟩ := selectPrimes_spec isprime m out h
  have hq : ∀ q ∈ out, q.Prime ∧ q * norm m < 2 ^ 63 ∧ q < 2 ^ 63 := by
    intro q hq
    obtain ⟨a, b, c⟩ := h3 q hq
    have hlt : q < 2 ^ 63 := lt_of_le_of_lt (Nat.le_mul_of_pos_right q c) b
    exact ⟨hsound q (lt_trans hlt (by norm_num)) a, b, hlt⟩
  exact ⟨h1, h2, pairwise_coprime_of_decreasing out h2 (fun q hq' => (hq q hq').1), hq⟩

theorem select_crtprimes_zero_norm (isprime : ℕ → Option Bool) (m : Mat) (h : norm m = 0) :
    selectPrimes isprime m = none := by
  simp [selectPrimes, h]

/-- **`detz` from its lanes, with the moduli the code selects (partial, see
`detz_of_detp_partial`).** Coprimality and the range of the moduli are no longer hypotheses: they
follow from `select_crtprimes_spec`. -/
theorem detz_of_detp_selected_partial (isprime : ℕ → Option Bool) (hsound : IsprimeSound isprime)
    (inv : Ymq.IntMat.Inv) (hinv : Ymq.IntMat.InvSpec inv) (m : Mat) (d : Int)
    (p0 p1 p2 p3 p4 p5 p6 p7 : ℕ) (rest : List ℕ) (r0 r1 r2 r3 r4 r5 r6 r7 : ℕ)
    (hsel : selectPrimes isprime m = some (p0 :: p1 :: p2 :: p3 :: p4 :: p5 :: p6 :: p7 :: rest))
    (hb1 : detp m [p0, p1, p2, p3] = some [r0, r1, r2, r3])
    (hb2 : detp m [p4, p5, p6, p7] = some [r4, r5, r6, r7])
    (h0 : (p0 : Int) ∣ (r0 : Int) - d) (h1 : (p1 : Int) ∣ (r1 : Int) - d)
    (h2 : (p2 : Int) ∣ (r2 : Int) - d) (h3 : (p3 : Int) ∣ (r3 : Int) - d)
    (h4 : (p4 : Int) ∣ (r4 : Int) - d) (h5 : (p5 : Int) ∣ (r5 : Int) - d)
    (h6 : (p6 : Int) ∣ (r6 : Int) - d) (h7 : (p7 : Int) ∣ (r7 : Int) - d)
    (hd1 : -((p0 * p1 * p2 * p3 : ℕ) : Int) < 2 * d)
    (hd2 : 2 * d < ((p0 * p1 * p2 * p3 : ℕ) : Int)) :
    detz isprime inv m = some d := by
  obtain ⟨_, _, c3, c4⟩ := select_crtprimes_spec isprime hsound m _ hsel
  have hsub : [p0, p1, p2, p3, p4, p5, p6, p7].Sublist
      (p0 :: p1 :: p2 :: p3 :: p4 :: p5 :: p6 :: p7 :: rest) := by
    have := List.take_sublist 8 (p0 :: p1 :: p2 :: p3 :: p4 :: p5 :: p6 :: p7 :: rest)
    simpa using this
  refine detz_of_detp_partial isprime inv hinv m d p0 p1 p2 p3 p4 p5 p6 p7 rest
    r0 r1 r2 r3 r4 r5 r6 r7 hsel hb1 hb2 ?_ (c3.sublist hsub) h0 h1 h2 h3 h4 h5 h6 h7 hd1 hd2
  intro q hq
  obtain ⟨a, _, c⟩ := c4 q (hsub.subset hq)
  exact ⟨a.one_lt, lt_trans c (by unfold Ymq.IntMat.U64; norm_num)⟩


/-! ### the kernel path: `mulpbig`, `ker_pbig`, `ker_p256` -/

/-- the asserts of `SparseMat::new` -/
theorem mkMat_valid (rows m : Mat) (h : mkMat rows = some m) :
    m = rows ∧ m.length < 65536 ∧ ∀ r ∈ m, ∀ je ∈ r, je.1 < m.length ∧ -32768 ≤ je.2 ∧ je.2 ≤ 32767 := by
  unfold mkMat at h
  split at h
  · simp at h
  · split at h
    · rename_i h1 h2
      have := Option.some.inj h
      subst this
      refine ⟨rfl, by omega, fun r hr je hje => ?_⟩
      rw [List.all_eq_true] at h2
      have := h2 r hr
      rw [List.all_eq_true] at this
      have := this je hje
      simp only [Bool.and_eq_true, decide_eq_true_eq] at this
      exact ⟨this.1.1, this.1.2, this.2⟩
    · simp at h

/-- **`ker_p256` is sound.** For a validated matrix, a modulus `p < 2^255` and whatever start
vector `v0` of reduced residues the generator supplied (`gen_range(1..p)` for `p < 2^64`, a `u64`
otherwise): if `ker_p256(p)` returns `Some(v)` then `v` has `size` entries, all `< p`, not all
zero, and `M · v = 0` over `ZMod p`. (The code checks this itself with its two final asserts; the
theorem says that the check is exact: `mulpbig` either panics on an overflow or returns the true
product, in each of the four integer widths of the dispatch.) No primality of `p` is needed. -/
theorem ker_p256_sound (rows m : Mat) (hm : mkMat rows = some m) (p : ℕ) (hp : p < 2 ^ 255)
    (v0 : List ℕ) (hv0 : ∀ x ∈ v0, x < p) (v : List ℕ) (h : kerP256 m p v0 = some (some v)) :
    v.length = m.length ∧ (∀ j, v.getD j 0 < p) ∧ (∃ x ∈ v, x ≠ 0) ∧
      matOf p m.length m * colOf p m.length v = 0 := by
  obtain ⟨_, _, hv⟩ := mkMat_valid rows m hm
  obtain ⟨⟨a, b⟩, c, d⟩ := kerBig_sound (kerWidth m p) m (fun r hr je hje => (hv r hr je hje).1) p
    (kerWidth_bound m p hp) v0 hv0 v h
  exact ⟨a, b, c, d⟩

/-- **`ker_p256` returns `None`** exactly when Berlekamp–Massey succeeds on the Krylov sequence
and both `charpoly[size]` and `charpoly[size - 1]` vanish ("double root"). -/
theorem ker_p256_none_iff (m : Mat) (p : ℕ) (v0 : List ℕ) :
    kerP256 m p v0 = some none ↔
      ∃ seq cp, krylovBig (kerWidth m p) m p (2 * m.length + 1) (startVec m.length 0 1) [] = some seq ∧
        bmBig p seq = some cp ∧ cp[m.length]? = some 0 ∧ cp[m.length - 1]? = some 0 :=
  kerBig_none_iff (kerWidth m p) m p v0

/-- **Panic classes of `ker_p256`** (besides overflow outside the documented widths and the two
final asserts): (i) `charpoly[size] ≠ 0`, i.e. the matrix is nonsingular modulo `p` or the sequence
is deficient — `assert!(c0.is_zero())`; (ii) every panic of `berlekamp_massey_big`, in particular
the degenerate Krylov sequence `[a,0,...,0]` (row 0 of the matrix orthogonal to the Krylov space:
the recorded `sparse-det-degenerate-sequence-panic`). -/
theorem ker_p256_panics (m : Mat) (p : ℕ) (v0 seq : List ℕ)
    (h1 : krylovBig (kerWidth m p) m p (2 * m.length + 1) (startVec m.length 0 1) [] = some seq) :
    (∀ cp c0, bmBig p seq = some cp → cp[m.length]? = some c0 → c0 ≠ 0 → kerP256 m p v0 = none) ∧
    (p.Prime → p < 2 ^ 244 → (∀ x ∈ seq, x < p) → seq.getD 0 0 ≠ 0 →
      (∀ i, 1 ≤ i → seq.getD i 0 = 0) → kerP256 m p v0 = none) := by
  refine ⟨fun cp c0 h2 h3 hc => kerBig_panic_of_c0 _ m p v0 seq cp c0 h1 h2 h3 hc, ?_⟩
  intro hp hlt hr ha hz
  apply kerBig_panic_of_bm _ m p v0 seq h1
  have := Fact.mk hp
  exact (core_none_iff (bigOps_ok p hlt) seq hr).mpr (Or.inr (Or.inl ⟨ha, hz⟩))


theorem kerWidth_ge (m : Mat) (p : ℕ) : (65537 : Int) ≤ 2 ^ (kerWidth m p - 1) := by
  unfold kerWidth
  simp only
  split
  · norm_num
  · split
    · norm_num
    · split <;> norm_num

/-- **`ker_p256` on a matrix that is singular modulo `p`** (`p` prime below `2^244`, Krylov
sequence with two non-zero terms — the situation the function is written for). If the Krylov
loop, the Horner loop and the last product do not overflow (they return), then:
Berlekamp–Massey does not panic; `assert!(c0.is_zero())` holds; when `charpoly[size-1] = 0` the
answer is `None`; otherwise the polynomial read IS the reversed characteristic polynomial of `M`
modulo `p`, the assert `M v = 0` holds by Cayley–Hamilton, and the answer is `Some(v)` with
`v = Σ_{t<n} c_t M^(n-1-t) v0` — unless that vector is zero, the only remaining panic
(`assert!(v.iter().any(..))`, an unlucky start vector). -/
theorem ker_p256_singular (rows m : Mat) (hm : mkMat rows = some m) (hn : 1 ≤ m.length) (p : ℕ)
    [Fact p.Prime] (hlt : p < 2 ^ 244) (hdet : (matOf p m.length m).det = 0) (seq : List ℕ)
    (h1 : krylovBig (kerWidth m p) m p (2 * m.length + 1) (startVec m.length 0 1) [] = some seq)
    (h2 : TwoTerms seq) (v0 : List ℕ) (hl0 : v0.length = m.length) (hv0 : ∀ x ∈ v0, x < p) :
    ∃ cp, bmBig p seq = some cp ∧ cp.getD m.length 0 = 0 ∧
      (cp.getD (m.length - 1) 0 = 0 → kerP256 m p v0 = some none) ∧
      (cp.getD (m.length - 1) 0 ≠ 0 → ∀ v z,
        hornerBig (kerWidth m p) m p cp v0 (m.length - 1) 1 v0 = some v →
        mulpBig (kerWidth m p) m p v = some z →
        kerP256 m p v0 = if v.any (· != 0) then some (some v) else none) := by
  obtain ⟨_, _, hval⟩ := mkMat_valid rows m hm
  have hcols : ∀ r ∈ m, ∀ je ∈ r, je.1 < m.length := fun r hr je hje => (hval r hr je hje).1
  have hpw := kerWidth_bound m p (lt_trans hlt (by norm_num))
  obtain ⟨cp, b1, b2, b3, b4⟩ := kerBig_singular (kerWidth m p) hlt hpw (kerWidth_ge m p) m hcols
    hn hdet seq h1 h2
  have hp0 : 0 < p := (Fact.out : p.Prime).pos
  have hi0 : cp[m.length]? = some 0 := by
    rw [getElem?_of_lt cp m.length (by omega)]; exact congrArg some b3
  have hi1 : cp[m.length - 1]? = some (cp.getD (m.length - 1) 0) :=
    getElem?_of_lt cp (m.length - 1) (by omega)
  refine ⟨cp, b1, b3, fun hc1 => ?_, fun hc1 v z hh hmz => ?_⟩
  · exact (kerBig_none_iff _ m p v0).mpr ⟨seq, cp, h1, b1, hi0, by rw [hi1, hc1]⟩
  · have hred0 : RedVec p m.length v0 := by
      refine ⟨hl0, fun j => ?_⟩
      exact red_of_mem hp0 v0 hv0 j
    have hz := b4 hc1 v0 v z hred0 hh hmz
    have hall : (z.all (· == 0)) = true := by
      rw [List.all_eq_true]; intro x hx; simp [hz x hx]
    unfold kerP256 kerBig
    simp only [h1, b1, hi0, hi1, ne_eq, not_true_eq_false, if_false, hc1, hl0, hh, hmz, hall]
    by_cases ha : (v.any (· != 0)) = true
    · simp [ha]
    · simp [ha]

/-! ### non-vacuity: the hypotheses of every theorem above hold on concrete instances -/

section NonVacuity
set_option profiler true
set_option profiler.threshold 3000

/-- `[[1, 2], [3, 5]]`: determinant `-1`, norm 8 -/
def exM : Mat := [[(0, 1), (1, 2)], [(0, 3), (1, 5)]]
/-- `[[1, 2], [2, 4]]`: singular -/
def exK : Mat := [[(0, 1), (1, 2)], [(0, 2), (1, 4)]]
/-- `x²` divides the characteristic polynomial -/
def exN : Mat := [[(0, 1), (1, 1), (2, 1)], [], []]
/-- a 1 × 1 matrix `(1)` written with two cancelling entries `±2^52`: norm `2^52 + 1`, so that the
moduli of `select_crtprimes` are small enough for a primality test by trial division -/
def exB : Mat := [[(0, 1), (0, 4503599627370496), (0, -4503599627370496)]]
/-- a primality test that is sound by construction: it accepts eight numbers, all prime -/
def exIsprime : ℕ → Option Bool :=
  fun q => some (decide (q ∈ [2039, 1979, 1949, 1889, 1709, 1619, 1559, 1499]))

local instance exFact7 : Fact (Nat.Prime 7) := ⟨by decide⟩

private theorem exM_weights (Bd : Int) (h : 8 * Bd < I63) (h0 : 0 ≤ Bd) :
    ∀ r ∈ exM, posW r * Bd < I63 ∧ negW r * Bd < I63 := by
  have h63 : (0 : Int) < I63 := by norm_num [I63]
  intro r hr
  simp only [exM, List.mem_cons, List.mem_nil_iff, or_false] at hr
  rcases hr with rfl | rfl <;> norm_num [posW, negW, sumSel] <;> constructor <;> linarith

/-- `mulp_spec`: hypotheses satisfied by `exM`, `p = 7`, `v = (1, 2)`, `Bd = 6` (the theorem
applies); the conclusion evaluated: `M v = (5, 13) ≡ (5, 6)`. -/
example : ∃ out, mulpLane exM 7 [1, 2] = some out ∧ out.length = exM.length := by
  obtain ⟨out, h1, h2, _⟩ := mulp_spec 7 (by decide) (by norm_num [I63]) exM [1, 2] rfl
    (by decide) 6 (by norm_num) (fun j => by rcases j with _ | _ | j <;> simp)
    (exM_weights 6 (by norm_num [I63]) (by norm_num))
  exact ⟨out, h1, h2⟩

example : mulpLane exM 7 [1, 2] = some [5, 6] := by decide +kernel

/-- `detp4_spec_full_complexity`, `detp4_false_zero_iff_deficient`: their hypotheses (a Krylov
sequence of a matrix over `ZMod p`, reduced, with two non-zero terms; `det ≠ 0` for the second)
hold for `M = exM mod 7`, `w = e_0`, `v = (1, 2)`: the sequence is `1, 5, 3, 2`. -/
example : ∃ seq : List ℕ, seq.length = 2 * 2 ∧ (∀ x ∈ seq, x < 7) ∧
    (∀ k, k < 2 * 2 → ((seq.getD k 0 : ℕ) : ZMod 7) =
      krylovSeq (matOf 7 2 exM) (e0 7 2) (colOf 7 2 (startVec 2 0 1)) k) ∧
    TwoTerms seq ∧ (matOf 7 2 exM).det ≠ 0 ∧ (7 % 2 = 1 ∧ 7 < 2 ^ 63 ∧ 1 ≤ 2) := by
  obtain ⟨seq, k1, k2, k3, k4⟩ := krylov_model_spec (p := 7) 2 (by decide) exM rfl (by decide)
    (by decide) (by norm_num [I63]) 65536 (by norm_num) (by norm_num)
    (exM_weights 65536 (by norm_num [I63]) (by norm_num))
  have hk : krylov exM 7 (2 * exM.length + 1) (startVec exM.length 0 1) [] = some [1, 5, 3, 2] := by
    decide +kernel
  have hs : seq = [1, 5, 3, 2] := Option.some.inj (k1.symm.trans hk)
  subst hs
  refine ⟨[1, 5, 3, 2], k2, k3, k4, ⟨0, 1, by decide, by decide, by decide⟩, ?_, by decide,
    by norm_num, by decide⟩
  rw [Matrix.det_fin_two]
  simp [matOf, exM]
  decide

/-- the conclusion of `detp4_spec_full_complexity` on that instance, by evaluation:
the lane returns `6 ≡ -1 = det` -/
example : bm 7 [1, 5, 3, 2] = some [1, 1, 6, 0] ∧ laneDet 2 7 [1, 5, 3, 2] = some 6 := by
  decide +kernel

/-- `detp4_lane_of_model` / `detp4_lane_of_norm`: hypotheses satisfied by `exM`, `p = 7`
(`norm · max(p, 65537) = 8 · 65537 ≤ 2^63`); the theorem applies. -/
example : ∃ seq, krylov exM 7 (2 * exM.length + 1) (startVec exM.length 0 1) [] = some seq ∧
    seq.length = 2 * 2 ∧
    (TwoTerms seq → ∃ out, bm 7 seq = some out ∧
      (out.getD 2 0 ≠ 0 → ∃ d, laneDet 2 7 seq = some d ∧ d < 7 ∧
        (d : ZMod 7) = (matOf 7 2 exM).det) ∧
      (out.getD 2 0 = 0 → laneDet 2 7 seq = some 0)) :=
  detp4_lane_of_norm 7 (by decide) (by norm_num) 2 (by decide) exM rfl (by decide)
    (by
      have : norm exM = 8 := by decide +kernel
      rw [this]; norm_num)

example : ∃ seq, krylov exM 7 (2 * exM.length + 1) (startVec exM.length 0 1) [] = some seq ∧
    seq.length = 2 * 2 ∧
    (TwoTerms seq → ∃ out, bm 7 seq = some out ∧
      (out.getD 2 0 ≠ 0 → ∃ d, laneDet 2 7 seq = some d ∧ d < 7 ∧
        (d : ZMod 7) = (matOf 7 2 exM).det) ∧
      (out.getD 2 0 = 0 → laneDet 2 7 seq = some 0)) :=
  detp4_lane_of_model 7 (by decide) (by norm_num) 2 (by decide) exM rfl (by decide) 65536
    (by norm_num) (by norm_num) (exM_weights 65536 (by norm_num [I63]) (by norm_num))

/-- the eight moduli `select_crtprimes` picks for `exM` (norm 8: the primes `30k - 1` below 2^60) -/
def exPrimes : List ℕ := [1152921504606846869, 1152921504606846719, 1152921504606846419,
  1152921504606846269, 1152921504606846179, 1152921504606845849, 1152921504606845789,
  1152921504606845399]

set_option maxRecDepth 100000 in
private theorem exM_sel : selectPrimes Ymq.Mg64.isprime64 exM = some exPrimes := by decide +kernel

set_option maxRecDepth 100000 in
private theorem exM_b1 : detp exM [1152921504606846869, 1152921504606846719,
    1152921504606846419, 1152921504606846269] = some [1152921504606846868,
    1152921504606846718, 1152921504606846418, 1152921504606846268] := by decide +kernel

set_option maxRecDepth 100000 in
private theorem exM_b2 : detp exM [1152921504606846179, 1152921504606845849,
    1152921504606845789, 1152921504606845399] = some [1152921504606846178,
    1152921504606845848, 1152921504606845788, 1152921504606845398] := by decide +kernel

/-- `detz_of_detp_partial`: all its hypotheses hold for `exM` (`d = det = -1`) with the real
moduli of `select_crtprimes`, the real lanes (residues `q - 1`) and `inv = invMod64`; the theorem
gives `detz = -1`, and so does the evaluation of the model. -/
example : detz Ymq.Mg64.isprime64 Ymq.Arith.invMod64 exM = some (-1) :=
  detz_of_detp_partial Ymq.Mg64.isprime64 Ymq.Arith.invMod64 Ymq.C19.invMod64_invSpec exM (-1)
    1152921504606846869 1152921504606846719 1152921504606846419 1152921504606846269
    1152921504606846179 1152921504606845849 1152921504606845789 1152921504606845399 []
    1152921504606846868 1152921504606846718 1152921504606846418 1152921504606846268
    1152921504606846178 1152921504606845848 1152921504606845788 1152921504606845398
    exM_sel exM_b1 exM_b2 (by decide +kernel) (by decide +kernel)
    ⟨1, by norm_num⟩ ⟨1, by norm_num⟩ ⟨1, by norm_num⟩ ⟨1, by norm_num⟩
    ⟨1, by norm_num⟩ ⟨1, by norm_num⟩ ⟨1, by norm_num⟩ ⟨1, by norm_num⟩
    (by norm_num) (by norm_num)

set_option maxRecDepth 100000 in
example : detz Ymq.Mg64.isprime64 Ymq.Arith.invMod64 exM = some (-1) := by decide +kernel

private theorem exIsprime_sound : IsprimeSound exIsprime := by
  intro q _ h
  simp only [exIsprime, Option.some.injEq, decide_eq_true_eq, List.mem_cons, List.mem_nil_iff,
    or_false] at h
  rcases h with rfl | rfl | rfl | rfl | rfl | rfl | rfl | rfl <;> norm_num

set_option maxRecDepth 100000 in
private theorem exB_sel : selectPrimes exIsprime exB =
    some [2039, 1979, 1949, 1889, 1709, 1619, 1559, 1499] := by decide +kernel

set_option maxRecDepth 100000 in
private theorem exB_b1 : detp exB [2039, 1979, 1949, 1889] = some [1, 1, 1, 1] := by
  decide +kernel

set_option maxRecDepth 100000 in
private theorem exB_b2 : detp exB [1709, 1619, 1559, 1499] = some [1, 1, 1, 1] := by
  decide +kernel

/-- `select_crtprimes_spec`: its hypotheses (a sound primality test, a returned selection) hold
for `exB` with the trial-division test; the theorem applies. (For `isprime64` soundness is the
content of C06's three literature hypotheses, see `isprime64_isprimeSound`.) -/
example : [2039, 1979, 1949, 1889, 1709, 1619, 1559, 1499].Pairwise Nat.Coprime ∧
    ∀ q ∈ [2039, 1979, 1949, 1889, 1709, 1619, 1559, 1499],
      q.Prime ∧ q * norm exB < 2 ^ 63 ∧ q < 2 ^ 63 :=
  let h := select_crtprimes_spec exIsprime exIsprime_sound exB _ exB_sel
  ⟨h.2.2.1, h.2.2.2⟩

/-- `detz_of_detp_selected_partial`: all hypotheses hold for `exB` (`d = det = 1`); the theorem
gives `detz = 1`. -/
example : detz exIsprime Ymq.Arith.invMod64 exB = some 1 :=
  detz_of_detp_selected_partial exIsprime exIsprime_sound Ymq.Arith.invMod64
    Ymq.C19.invMod64_invSpec exB 1 2039 1979 1949 1889 1709 1619 1559 1499 [] 1 1 1 1 1 1 1 1
    exB_sel exB_b1 exB_b2
    ⟨0, by norm_num⟩ ⟨0, by norm_num⟩ ⟨0, by norm_num⟩ ⟨0, by norm_num⟩
    ⟨0, by norm_num⟩ ⟨0, by norm_num⟩ ⟨0, by norm_num⟩ ⟨0, by norm_num⟩
    (by norm_num) (by norm_num)

set_option maxRecDepth 100000 in
private theorem exK_ker : kerP256 exK 7 [3, 5] = some (some [5, 1]) := by decide +kernel

/-- `ker_p256_sound`: hypotheses satisfied by the singular `exK`, `p = 7`, start vector `(3, 5)`:
the model returns `(5, 1)`, and the theorem gives `M · (5, 1) = 0` over `ZMod 7`. -/
example : [5, 1].length = exK.length ∧ (∀ j, [5, 1].getD j 0 < 7) ∧ (∃ x ∈ [5, 1], x ≠ 0) ∧
    matOf 7 exK.length exK * colOf 7 exK.length [5, 1] = 0 :=
  ker_p256_sound exK exK (by decide) 7 (by norm_num) [3, 5] (by decide) [5, 1] exK_ker

set_option maxRecDepth 100000 in
/-- `ker_p256_none_iff`: both sides are inhabited (`exN`: `x²` divides the characteristic
polynomial, the answer is `None`). -/
example : kerP256 exN 7 [1, 2, 3] = some none := by decide +kernel

set_option maxRecDepth 100000 in
private theorem exK_kry :
    krylovBig (kerWidth exK 7) exK 7 (2 * exK.length + 1) (startVec exK.length 0 1) [] =
      some [1, 5, 4, 6] := by decide +kernel

/-- `ker_p256_singular`: hypotheses satisfied by `exK`, `p = 7` (determinant `1·4 - 2·2 = 0`,
Krylov sequence `1, 5, 4, 6`); the theorem applies. -/
example : ∃ cp, bmBig 7 [1, 5, 4, 6] = some cp ∧ cp.getD exK.length 0 = 0 ∧
    (cp.getD (exK.length - 1) 0 = 0 → kerP256 exK 7 [3, 5] = some none) ∧
    (cp.getD (exK.length - 1) 0 ≠ 0 → ∀ v z,
      hornerBig (kerWidth exK 7) exK 7 cp [3, 5] (exK.length - 1) 1 [3, 5] = some v →
      mulpBig (kerWidth exK 7) exK 7 v = some z →
      kerP256 exK 7 [3, 5] = if v.any (· != 0) then some (some v) else none) :=
  ker_p256_singular exK exK (by decide) (by decide) 7 (by norm_num)
    (by show (matOf 7 2 exK).det = 0; rw [Matrix.det_fin_two]; simp [matOf, exK]; decide) [1, 5, 4, 6] exK_kry
    ⟨0, 1, by decide, by decide, by decide⟩ [3, 5] rfl (by decide)

end NonVacuity

end Ymq.C19Wied
