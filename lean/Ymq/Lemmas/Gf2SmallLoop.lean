/-
C14 "small", helper lemmas part 12 (Mathlib): one iteration of the main loop of `kernel_lanczos`
(`lanczosStep`) reaches no panic site of the release profile on a well-formed state; what the checked
profile asserts when it returns (Montgomery's A-orthogonality invariants).
-/
import Ymq.Lemmas.Gf2SmallAab
import Ymq.Lemmas.Gf2SmallCallsite
import Ymq.Model.Gf2Lanczos

namespace Ymq.Gf2Small
open Ymq.Gf2 Ymq.Gf2Genblock Ymq.Gf2Lanczos

/-- a block with one 64-bit word per column -/
def BlockOK (n : Nat) (x : List Nat) : Prop := x.length = n ∧ ∀ w ∈ x, w < 2 ^ 64

/-- hypotheses on the sparse matrix -/
structure MatOK (k : Nat) (cols : List (List Nat)) : Prop where
  hk64 : 64 ≤ k
  hk : k ≤ U32
  hn : cols.length ≤ U32
  hwf : ∀ col ∈ cols, ∀ a ∈ col, a < k

theorem optMul_ok {k : Nat} {cols : List (List Nat)} (hM : MatOK k cols) {y : List Nat}
    (hy : BlockOK cols.length y) : ∃ r, optMul (qsOptimize k cols) y = some r ∧ BlockOK k r := by
  obtain ⟨r, hr, hl, _⟩ := optMul_spec k cols y hM.hk64 hM.hk hM.hn hy.1 hM.hwf
  exact ⟨r, hr, hl, (rank_optMul_le k cols y r hM.hk hM.hn hM.hwf hr).2 hy.2⟩

theorem mulAabOpt_ok {k : Nat} {cols : List (List Nat)} (hM : MatOK k cols) {y : List Nat}
    (hy : BlockOK cols.length y) : ∃ r, mulAabOpt (qsOptimize k cols) y = some r ∧ BlockOK cols.length r := by
  obtain ⟨tmp, ht, htl, _⟩ := optMul_spec k cols y hM.hk64 hM.hk hM.hn hy.1 hM.hwf
  obtain ⟨out', ha⟩ := applyCoords_some tmp.toArray (List.map (fun p => (p.2, p.1)) (qsOptimize k cols).xy)
    (List.map (fun r => comb r (List.take 64 tmp) 0) (qsOptimize k cols).block).toArray (by
      intro c hc
      obtain ⟨p, hp, rfl⟩ := List.mem_map.mp hc
      have := mem_coordsFrom 0 k cols hM.hk (by have := hM.hn; omega) hM.hwf p hp
      simp only [qsOptimize, List.size_toArray, List.length_map, htl]
      omega)
  have hr : mulAabOpt (qsOptimize k cols) y = some out'.toList := by
    unfold mulAabOpt; rw [ht]; simp only []; rw [ha]; rfl
  exact ⟨_, hr, (cellMat_mulAabOpt k cols y _ hM.hk hM.hn hM.hwf hr).1,
    mulAabOpt_lt k cols y _ hM.hk hM.hn hM.hwf hy.2 hr⟩

/-- `&Block * &Block` on blocks of equal length: 64 words of 64 bits -/
theorem blockDot_ok {n : Nat} {x y : List Nat} (hx : x.length = n) (hy : BlockOK n y) :
    ∃ d, blockDot x y = some d ∧ d.length = 64 ∧ ∀ r ∈ d, r < 2 ^ 64 := by
  refine ⟨(List.range 64).map (fun i =>
      (List.zip x y).foldl (fun acc p => if p.1.testBit i then acc ^^^ p.2 else acc) 0),
    by simp [blockDot, hx, hy.1], by simp, ?_⟩
  intro r hr
  obtain ⟨i, _, rfl⟩ := List.mem_map.mp hr
  apply Nat.lt_pow_two_of_testBit
  intro t ht
  rw [testBit_foldl_sel (List.zip x y) (fun p => p.1.testBit i) (fun p => p.2) 0 t]
  simp only [Nat.zero_testBit, Bool.false_xor]
  apply xsum_eq_false_of_forall
  intro b hb
  obtain ⟨p, hp, rfl⟩ := List.mem_map.mp hb
  rw [testBit_of_lt_of_ge (hy.2 p.2 (List.of_mem_zip hp).2) ht, Bool.and_false]

theorem blockMulAdd_ok {n : Nat} {self b : List Nat} {m : Mat} (hs : BlockOK n self) (hb : b.length = n)
    (hm : ∀ r ∈ m, r < 2 ^ 64) : ∃ r, blockMulAdd self m b = some r ∧ BlockOK n r := by
  refine ⟨List.zipWith (fun s w => s ^^^ comb w m 0) self b, by simp [blockMulAdd, hs.1, hb],
    by simp [hs.1, hb], ?_⟩
  intro w hw
  obtain ⟨i, hi, rfl⟩ := List.getElem_of_mem hw
  simp only [List.getElem_zipWith]
  exact Nat.xor_lt_two_pow (hs.2 _ (List.getElem_mem _)) (comb_lt _ m hm 0)

theorem mul_lt (ig d : Mat) (hd : ∀ r ∈ d, r < 2 ^ 64) : ∀ r ∈ mul ig d, r < 2 ^ 64 := by
  intro r hr
  obtain ⟨a, _, rfl⟩ := List.mem_map.mp hr
  exact comb_lt a d hd 0

/-- the Gram matrix of a block with itself is symmetric -/
theorem symmetric_blockDot_self (x g : List Nat) (h : blockDot x x = some g) : symmetric 64 g = true := by
  simp only [blockDot, if_true, Option.some.injEq] at h
  subst h
  rw [symmetric_iff]
  intro i j hi hj
  rw [row_map_range 64 _ hi, row_map_range 64 _ hj,
    testBit_foldl_sel (List.zip x x) (fun p => p.1.testBit i) (fun p => p.2) 0 j,
    testBit_foldl_sel (List.zip x x) (fun p => p.1.testBit j) (fun p => p.2) 0 i, zip_self,
    List.map_map, List.map_map]
  simp only [Nat.zero_testBit, Bool.false_xor, Function.comp_def]
  congr 1
  apply List.map_congr_left
  intro w _
  exact Bool.and_comm _ _

theorem maskFor_ok (masks : List Nat) (j vlen : Nat) (h : vlen ≤ masks.length + 1) :
    ∃ m, maskFor masks j vlen = some m := by
  unfold maskFor
  have key : ∀ (len s m0 : Nat), s + len ≤ masks.length + 1 → 1 ≤ s →
      ∃ m, (List.range' s len).foldlM (fun m k => match masks[k - 1]? with
        | none => none
        | some x => some (m &&& x)) m0 = some m := by
    intro len
    induction len with
    | zero => intro s m0 _ _; exact ⟨m0, rfl⟩
    | succ len ih =>
      intro s m0 hs h1
      rw [List.range'_succ, List.foldlM_cons]
      have hlt : s - 1 < masks.length := by omega
      rw [List.getElem?_eq_getElem hlt]
      exact ih (s + 1) _ (by omega) (by omega)
  by_cases hj : j + 2 ≤ vlen
  · exact key _ _ _ (by omega) (by omega)
  · have : vlen - (j + 2) = 0 := by omega
    rw [this]; exact ⟨M64, rfl⟩

/-- state of the projection loop: `(vs, ws, next)` -/
def ProjOK (L n : Nat) (st : List (List Nat) × List (List Nat) × List Nat) : Prop :=
  st.1.length = L ∧ st.2.1.length = L ∧ (∀ w ∈ st.2.1, w = [] ∨ BlockOK n w) ∧ BlockOK n st.2.2

theorem projStep_ok {k : Nat} {cols : List (List Nat)} {av : List Nat} {invgs : List Mat} {masks : List Nat}
    {L : Nat} (hav : BlockOK cols.length av) (hI : invgs.length = L) (hMk : masks.length = L)
    {st : List (List Nat) × List (List Nat) × List Nat} (hst : ProjOK L cols.length st) {j : Nat} (hj : j < L) :
    ∃ st', projStep false (qsOptimize k cols) av invgs masks L st j = some st' ∧ ProjOK L cols.length st' := by
  obtain ⟨vs, ws, next⟩ := st
  obtain ⟨hv, hw, hwOK, hnext⟩ := hst
  simp only at hv hw hwOK hnext
  unfold projStep
  simp only []
  have hjw : j < ws.length := by omega
  rw [List.getElem?_eq_getElem hjw]
  simp only []
  by_cases he : ws[j].isEmpty = true
  · rw [if_pos he]; exact ⟨_, rfl, hv, hw, hwOK, hnext⟩
  · rw [if_neg he]
    have hwj : BlockOK cols.length ws[j] := by
      rcases hwOK ws[j] (List.getElem_mem _) with h | h
      · rw [h] at he; simp at he
      · exact h
    obtain ⟨m, hm⟩ := maskFor_ok masks j L (by omega)
    rw [hm]
    simp only []
    by_cases hm0 : m = 0
    · rw [if_pos hm0]
      simp only [Bool.false_and, Bool.false_eq_true, if_false, show j < vs.length by omega, if_true]
      refine ⟨_, rfl, by simp [hv], by simp [hw], ?_, hnext⟩
      intro w hwm
      rcases List.mem_or_eq_of_mem_set hwm with h | h
      · exact hwOK w h
      · exact Or.inl h
    · rw [if_neg hm0]
      obtain ⟨d, hd, _, hdlt⟩ := blockDot_ok (x := ws[j]) hwj.1 hav
      have hji : j < invgs.length := by omega
      rw [hd, List.getElem?_eq_getElem hji]
      simp only []
      obtain ⟨next', hn', hnOK⟩ := blockMulAdd_ok (m := mul invgs[j] d) hnext hwj.1 (mul_lt _ d hdlt)
      rw [hn']
      simp only [Bool.false_and, Bool.false_eq_true, if_false]
      exact ⟨_, rfl, hv, hw, hwOK, hnOK⟩

theorem projFold_ok {k : Nat} {cols : List (List Nat)} {av : List Nat} {invgs : List Mat} {masks : List Nat}
    {L : Nat} (hav : BlockOK cols.length av) (hI : invgs.length = L) (hMk : masks.length = L) (js : List Nat) :
    ∀ (st : List (List Nat) × List (List Nat) × List Nat), ProjOK L cols.length st → (∀ j ∈ js, j < L) →
    ∃ st', js.foldlM (projStep false (qsOptimize k cols) av invgs masks L) st = some st' ∧
      ProjOK L cols.length st' := by
  induction js with
  | nil => intro st h _; exact ⟨st, rfl, h⟩
  | cons j js ih =>
    intro st h hjs
    obtain ⟨st1, h1, hOK1⟩ := projStep_ok (k := k) hav hI hMk h (hjs j (by simp))
    obtain ⟨st2, h2, hOK2⟩ := ih st1 hOK1 (fun j' hj' => hjs j' (by simp [hj']))
    exact ⟨st2, by rw [List.foldlM_cons, h1]; exact h2, hOK2⟩

/-- well-formed state of the main loop -/
structure WFL (n : Nat) (st : LState) : Prop where
  lenV : st.vs.length = st.ws.length
  lenI : st.invgs.length = st.ws.length
  lenM : st.masks.length = st.ws.length
  wsOK : ∀ w ∈ st.ws, w = [] ∨ BlockOK n w
  lastW : ∃ wl, st.ws.getLast? = some wl ∧ BlockOK n wl
  lastV : ∃ pv, st.vs.getLast? = some pv ∧ BlockOK n pv
  yOK : BlockOK n st.y

theorem row_lt_of_mem {g : Mat} (h : ∀ r ∈ g, r < 2 ^ 64) (i : Nat) : row g i < 2 ^ 64 := by
  simp only [row, List.getD_eq_getElem?_getD]
  cases hg : g[i]? with
  | none => simp
  | some r => simp only [Option.getD_some]; exact h r (List.mem_of_getElem? hg)

/-- one iteration of the main loop of `kernel_lanczos` reaches no panic site of the release profile on
a well-formed state, and leaves a well-formed state -/
theorem lanczosStep_release_ok {k : Nat} {cols : List (List Nat)} (hM : MatOK k cols) {ay : List Nat}
    (hay : BlockOK cols.length ay) {st : LState} (h : WFL cols.length st) :
    (∃ st', lanczosStep false (qsOptimize k cols) ay st = .finished st' ∧ st'.y = st.y) ∨
    (∃ st' mk, lanczosStep false (qsOptimize k cols) ay st = .continue st' mk ∧ WFL cols.length st') := by
  obtain ⟨wl, hwl, hwlOK⟩ := h.lastW
  obtain ⟨pv, hpv, hpvOK⟩ := h.lastV
  obtain ⟨next0, hn0, hn0OK⟩ := mulAabOpt_ok hM hwlOK
  have hn1OK : BlockOK cols.length (List.zipWith (fun a p => a ^^^ p) next0 pv) := by
    refine ⟨by simp [hn0OK.1, hpvOK.1], ?_⟩
    intro w hw
    obtain ⟨i, hi, rfl⟩ := List.getElem_of_mem hw
    simp only [List.getElem_zipWith]
    exact Nat.xor_lt_two_pow (hn0OK.2 _ (List.getElem_mem _)) (hpvOK.2 _ (List.getElem_mem _))
  obtain ⟨av, hav, havOK⟩ := mulAabOpt_ok hM hn1OK
  obtain ⟨⟨vs', ws', next⟩, hfold, hv', hw', hwOK', hnextOK⟩ := projFold_ok (k := k) havOK h.lenI
    (by rw [h.lenM]) (List.range st.ws.length)
    (st.vs, st.ws, List.zipWith (fun a p => a ^^^ p) next0 pv) ⟨h.lenV, rfl, h.wsOK, hn1OK⟩
    (fun j hj => List.mem_range.mp hj)
  simp only at hv' hw' hwOK' hnextOK
  obtain ⟨bv, hbv, hbvOK⟩ := optMul_ok hM hnextOK
  obtain ⟨gram, hg, hgl, hglt⟩ := blockDot_ok (x := bv) hbvOK.1 hbvOK
  have hsym := symmetric_blockDot_self bv gram hg
  have hgw : ∀ i, i < 64 → row gram i < 2 ^ 64 := fun i _ => row_lt_of_mem hglt i
  have hsel : ∃ rk mk, (if (vs'.length % 2 == 1) = true then rankReverse 64 false gram else rank 64 false gram)
      = some (rk, mk) ∧ Selected 64 gram rk mk := by
    cases (vs'.length % 2 == 1) with
    | true => simpa using rankReverse_selected false hgw
    | false => simpa using rank_selected false hgw
  obtain ⟨rk, mk, hr, hS⟩ := hsel
  have hstep : lanczosStep false (qsOptimize k cols) ay st =
      (if rk = 0 then StepRes.finished (LState.mk vs' ws' st.invgs st.masks st.y)
       else
        match pseudoinverse 64 false (maskRows 64 gram mk) with
        | none => .panic
        | some ginv =>
          match blockDot (next.map (fun v => v &&& mk)) ay with
          | none => .panic
          | some d =>
            match blockMulAdd st.y (mul ginv d) (next.map (fun v => v &&& mk)) with
            | none => .panic
            | some y' => .continue (LState.mk (vs' ++ [next]) (ws' ++ [next.map (fun v => v &&& mk)])
                (st.invgs ++ [ginv]) (st.masks ++ [M64 ^^^ mk]) y') mk) := by
    unfold lanczosStep
    rw [if_neg (by rw [h.lenV]; exact fun hh => hh rfl), hwl, hpv]
    simp only [h.lenV, hn0, if_neg (show ¬ pv.length < next0.length by rw [hpvOK.1, hn0OK.1]; omega), hav, hfold, hbv, hg, hr,
      mask_eq, Bool.false_and, Bool.false_eq_true, if_false]
    rfl
  rw [hstep]
  by_cases hrk : rk = 0
  · rw [if_pos hrk]; exact Or.inl ⟨_, rfl, rfl⟩
  · rw [if_neg hrk]
    right
    have hmask := rank_masked_of_symmetric false hgw hsym hS
    obtain ⟨rows2, hB, hp⟩ := pseudoinverse_total false (by decide) (fun k hk => maskRows_lt mk hgw hk) hmask
      (supported_maskRows 64 gram mk)
    rw [hp]
    simp only []
    have hwOK : BlockOK cols.length (next.map (fun v => v &&& mk)) :=
      ⟨by simp [hnextOK.1], fun w hw => by
        obtain ⟨v, hv, rfl⟩ := List.mem_map.mp hw
        exact Nat.lt_of_le_of_lt Nat.and_le_left (hnextOK.2 v hv)⟩
    obtain ⟨d, hd, _, hdlt⟩ := blockDot_ok (x := next.map (fun v => v &&& mk)) hwOK.1 hay
    rw [hd]
    simp only []
    obtain ⟨y', hy', hy'OK⟩ := blockMulAdd_ok (m := mul (rows2.map (·.2)) d) h.yOK hwOK.1 (mul_lt _ d hdlt)
    rw [hy']
    simp only []
    refine ⟨_, mk, rfl, ?_⟩
    exact {
      lenV := by simp [hv', hw']
      lenI := by simp [h.lenI, hw']
      lenM := by simp [h.lenM, hw']
      wsOK := by
        intro w hw
        rcases List.mem_append.mp hw with h1 | h1
        · exact hwOK' w h1
        · simp only [List.mem_singleton] at h1; rw [h1]; exact Or.inr hwOK
      lastW := ⟨_, by simp, hwOK⟩
      lastV := ⟨_, by simp, hnextOK⟩
      yOK := hy'OK }

/-- `wᵗ·A·x = 0` as the code tests it: `&w * &mul_aab(b, &x) == SmallMat::default()` -/
def AOrth (b : SparseOpt) (w x : List Nat) : Prop :=
  ∃ ax, mulAabOpt b x = some ax ∧ blockDot w ax = some zeros64

/-- what the checked profile has asserted when an iteration returns: the new block `W` (the direction
masked by the selection) and the updated `Y` are A-orthogonal, and the pseudo-inverse has the rank
selection of the Gram matrix -/
theorem lanczosStep_checked {b : SparseOpt} {ay : List Nat} {st st' : LState} {mk : Nat}
    (h : lanczosStep true b ay st = .continue st' mk) :
    AOrth b (st'.ws.getLast?.getD []) st'.y ∧
      (∃ rk, rk ≠ 0 ∧ rank 64 true (st'.invgs.getLast?.getD []) = some (rk, mk)) ∧
      st'.masks.getLast? = some (M64 ^^^ mk) := by
  unfold lanczosStep at h
  split at h
  · cases h
  split at h
  rotate_left
  · cases h
  split at h
  · cases h
  split at h
  · cases h
  simp only [] at h
  split at h
  · cases h
  split at h
  · cases h
  split at h
  · cases h
  split at h
  · cases h
  split at h
  · cases h
  rename_i rk mk' hrank
  split at h
  · cases h
  rename_i hrk
  split at h
  · cases h
  split at h
  · cases h
  rename_i ginv hpinv
  split at h
  · cases h
  rename_i hginv
  split at h
  · cases h
  split at h
  · cases h
  rename_i y' hy'
  split at h
  · simp at h
  rename_i ayy hm
  split at h
  · cases h
  rename_i horth
  injection h with h1 h2
  subst h1; subst h2
  refine ⟨⟨ayy, hm, ?_⟩, ⟨rk, hrk, ?_⟩, by simp⟩
  · simpa using horth
  · simpa using hginv

/-- the initial block: when `lanczosInit` returns, the state is well formed (so
`lanczosStep_release_ok` applies to every iteration of a run) -/
theorem lanczosInit_wf {k : Nat} {cols : List (List Nat)} (hM : MatOK k cols) (dbg : Bool) {y0 ay : List Nat}
    {st : LState} (hy0 : BlockOK cols.length y0)
    (h : lanczosInit dbg (qsOptimize k cols) y0 = some (st, ay)) :
    WFL cols.length st ∧ BlockOK cols.length ay := by
  obtain ⟨ay', hay', hayOK⟩ := mulAabOpt_ok hM hy0
  obtain ⟨bay, hbay, hbayOK⟩ := optMul_ok hM hayOK
  obtain ⟨g, hg, _, _⟩ := blockDot_ok (x := bay) hbayOK.1 hbayOK
  obtain ⟨aa, haa, _, haalt⟩ := blockDot_ok (x := ay') hayOK.1 hayOK
  unfold lanczosInit at h
  rw [hay'] at h
  simp only [hbay, hg] at h
  split at h
  · rename_i ginv _
    simp only [haa] at h
    obtain ⟨y, hy, hyOK⟩ := blockMulAdd_ok (m := mul ginv aa) hy0 hayOK.1 (mul_lt _ aa haalt)
    rw [hy] at h
    simp only [Option.some.injEq, Prod.mk.injEq] at h
    obtain ⟨h1, h2⟩ := h
    subst h1; subst h2
    exact ⟨{ lenV := rfl, lenI := rfl, lenM := rfl
             wsOK := fun w hw => by simp only [List.mem_singleton] at hw; rw [hw]; exact Or.inr hayOK
             lastW := ⟨_, rfl, hayOK⟩, lastV := ⟨_, rfl, hayOK⟩, yOK := hyOK }, hayOK⟩
  · cases h

end Ymq.Gf2Small
