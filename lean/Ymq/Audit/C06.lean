import Ymq.Props.C06
#print axioms Ymq.C06.mg2adicInv_spec
#print axioms Ymq.C06.miller_iff_sprp
#print axioms Ymq.C06.isprime64_complete
#print axioms Ymq.C06.isprime64_even
#print axioms Ymq.C06.isprime64_total
#print axioms Ymq.C06.isprime64_sound
#print axioms Ymq.C06.isprime64_exact
#print axioms Ymq.C06.pseudoprime_complete
#print axioms Ymq.C06.pseudoprime_even
#print axioms Ymq.C06.pseudoprime_eq_isprime64
#print axioms Ymq.C06.pseudoprime_total
#print axioms Ymq.C06.pseudoprime_oversize
