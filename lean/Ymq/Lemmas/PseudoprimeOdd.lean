/-
The odd part used by `pseudoprime`: `p >> s` with `s = (p.low_u64() - 1).trailing_zeros()` is odd
unless `2^65 ∣ p - 1` (low word 1 and an even second word: then `s = 64` is smaller than the 2-adic
valuation of `p - 1` and the exponent `p >> 64` stays even).
-/
import Ymq.Lemmas.MillerTiers
namespace Ymq.Mg64

/-- `p >> s` is odd whenever `p ≢ 1 (mod 2^65)` -/
theorem podd_odd (p : Nat) (hodd : p % 2 = 1) (h65 : p % 2 ^ 65 ≠ 1) :
    (p / 2 ^ tz64 (p % W - 1)) % 2 = 1 := by
  have hW0 : 0 < W := by decide
  have hl : p % W % 2 = 1 := by
    rw [Nat.mod_mod_of_dvd p (by decide : 2 ∣ W)]; exact hodd
  have hlW : p % W < W := Nat.mod_lt _ hW0
  by_cases h1 : p % W = 1
  · have : tz64 (p % W - 1) = 64 := by rw [h1]; rfl
    rw [this]
    have e : p % (W * 2) = p % W + W * (p / W % 2) := Nat.mod_mul
    have hW2 : W * 2 = 2 ^ 65 := by decide
    have hW64 : (2 : Nat) ^ 64 = W := by decide
    rw [hW2, h1] at e
    rw [hW64]
    rcases Nat.mod_two_eq_zero_or_one (p / W) with h | h
    · rw [h] at e; omega
    · exact h
  · have hpos : 0 < p % W - 1 := by omega
    have hlt : p % W - 1 < 2 ^ 64 := by rw [← W_eq]; omega
    have hne : p % W - 1 ≠ 0 := by omega
    obtain ⟨t1, t2, t3⟩ := tzAux_spec 64 (p % W - 1) hpos hlt
    have htz : tz64 (p % W - 1) = tzAux 64 (p % W - 1) := by unfold tz64; rw [if_neg hne]
    rw [htz]
    generalize tzAux 64 (p % W - 1) = t at t1 t2 t3
    have ht1 : 1 ≤ t := by
      rcases Nat.eq_zero_or_pos t with h | h
      · subst h; simp at t3; omega
      · exact h
    -- p / 2^t % 2 = (p % 2^(t+1)) / 2^t
    have e1 : p / 2 ^ t % 2 = p % (2 ^ t * 2) / 2 ^ t := (Nat.mod_mul_right_div_self p (2 ^ t) 2).symm
    have hdvd : 2 ^ t * 2 ∣ W := by
      rw [← pow_succ, W_eq]; exact Nat.pow_dvd_pow 2 (by omega)
    have e2 : p % (2 ^ t * 2) = p % W % (2 ^ t * 2) := (Nat.mod_mod_of_dvd p hdvd).symm
    have e3 : p % W % (2 ^ t * 2) / 2 ^ t = p % W / 2 ^ t % 2 := Nat.mod_mul_right_div_self _ _ _
    rw [e1, e2, e3]
    -- low = 2^t q + 1
    obtain ⟨q, hq⟩ : ∃ q, p % W - 1 = 2 ^ t * q := ⟨(p % W - 1) / 2 ^ t, by
      have := Nat.div_add_mod (p % W - 1) (2 ^ t); omega⟩
    have h2t : 2 ≤ 2 ^ t := by
      calc 2 = 2 ^ 1 := rfl
        _ ≤ 2 ^ t := Nat.pow_le_pow_right (by decide) ht1
    have hq3 : (p % W - 1) / 2 ^ t = q := by rw [hq]; exact Nat.mul_div_cancel_left q (by omega)
    have hlow : p % W = 2 ^ t * q + 1 := by omega
    have : p % W / 2 ^ t = q := by
      rw [hlow, Nat.mul_add_div (by omega), Nat.div_eq_of_lt (by omega)]; omega
    rw [this, ← hq3]; exact t3

end Ymq.Mg64
