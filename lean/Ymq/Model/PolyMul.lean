/-
Mechanism models of the polynomial multiplication routines of src/arith_poly.rs (property C10):
`Poly::_basic_mul` (schoolbook base case with its "first term" rule) and `Poly::karatsuba`
(split point, the three recursive products, recombination, and the code's buffer reuse:
`z` is the scratch buffer of the middle product, `tmp[2·half..]` the scratch of the low and
high products), and the wrapper `Poly::mul_karatsuba`.

The coefficient ring is abstract: an `Ops α` record stands for `ZmodN::{zero, one, add, sub, mul, inv}`
and `==` on `MInt` (exact modular arithmetic on reduced residues: property C07). The driver runs
the model with `natOps n` (residues modulo `n`); the theorems of Props/C10 are stated for any
ring homomorphic image of the operations (in particular any commutative ring).

Buffers are `List α` with the slice semantics of the code: a call receives the sub-slices the Rust
call receives and returns their new contents; every panic site (slice range, `assert!`,
`debug_assert!`, `usize` underflow in the checked profile) is `none`. Stale buffer contents are
modelled, not ignored. Recursion takes fuel.
No Mathlib import: this file is linked into the native driver.
-/
import Ymq.Model.PolySpec

namespace Ymq.PolyMul

/-- the coefficient operations (`ZmodN`) -/
structure Ops (α : Type) where
  zero : α
  one : α
  add : α → α → α
  sub : α → α → α
  mul : α → α → α
  /-- `zn.inv(x)`; `none` = not invertible (the callers `unwrap()`) -/
  inv : α → Option α
  /-- `==` on `MInt` -/
  eq : α → α → Bool

/-- residues modulo `n` (plain integers `< n`) -/
def natOps (n : Nat) : Ops Nat where
  zero := 0
  one := 1 % n
  add a b := (a + b) % n
  sub a b := (a + n - b % n) % n
  mul a b := a * b % n
  inv a := Ymq.PolySpec.invMod a n
  /- `MInt`s hold reduced residues (an invariant of `ZmodN`, property C07): `==` is equality of residues -/
  eq a b := a % n == b % n

/-- the operations of `ZmodN` on the integers held by the `MInt`s (Montgomery forms, `R = 2^(64·kw)`,
`rinv = R⁻¹ mod n`), at value level as proved in C07: `mul` is the Montgomery product `a·b·R⁻¹ mod n`,
`one` is `R mod n`, `inv` is `a⁻¹·R² mod n`, `==` compares residues -/
def montOps (n kw rinv : Nat) : Ops Nat where
  zero := 0
  one := 2 ^ (64 * kw) % n
  add a b := (a + b) % n
  sub a b := (a + n - b % n) % n
  mul a b := a * b * rinv % n
  inv a := (Ymq.PolySpec.invMod a n).map fun i => i * (2 ^ (64 * kw) * 2 ^ (64 * kw) % n) % n
  eq a b := a % n == b % n

variable {α : Type}

/-- `_add(zn, z, x)` / `_sub`: pointwise on two slices; `assert_eq!(z.len(), x.len())` -/
def zipOp (f : α → α → α) (z x : List α) : Option (List α) :=
  if z.length ≠ x.length then none else some (List.zipWith f z x)

/-- replace `z[off .. off + vals.len()]` by `vals` -/
def setSlice (z : List α) (off : Nat) (vals : List α) : List α :=
  z.take off ++ vals ++ z.drop (off + vals.length)

/-- inner loop of `_basic_mul` for row `i`, from column `j` on -/
def rowLoop (o : Ops α) (i lq : Nat) (pi : α) : List α → Nat → List α → List α
  | [], _, z => z
  | qj :: qs, j, z =>
    let t := o.mul pi qj
    let z' :=
      if i = 0 ∨ j + 1 = lq then z.set (i + j) t                       -- first term
      else z.set (i + j) (o.add (z.getD (i + j) o.zero) t)
    rowLoop o i lq pi qs (j + 1) z'

/-- outer loop of `_basic_mul` from row `i` on -/
def rowsLoop (o : Ops α) (q : List α) : List α → Nat → List α → List α
  | [], _, z => z
  | pi :: ps, i, z => rowsLoop o q ps (i + 1) (rowLoop o i q.length pi q 0 z)

/-- `Poly::_basic_mul(zn, z, p, q)` -/
def basicMul (o : Ops α) (z p q : List α) : Option (List α) :=
  if p.length + q.length = 0 then none                     -- `p.len() + q.len() - 1` underflows
  else if z.length < p.length + q.length - 1 then none     -- z[p.len() + q.len() - 1..]
  else
    let m := p.length + q.length - 1
    some (rowsLoop o q p 0 (z.take m ++ List.replicate (z.length - m) o.zero))

/-- `Poly::karatsuba(zn, z, p, q, tmp)`: returns the new contents of `z` and of `tmp` -/
def karatsuba (o : Ops α) : Nat → List α → List α → List α → List α → Option (List α × List α)
  | 0, _, _, _, _ => none
  | f + 1, z, p, q, tmp =>
    let half := (max p.length q.length + 1) / 2
    -- small operands, or unbalanced ones (a high part would be empty; commit "fix: Poly::karatsuba …")
    if (p.length ≤ 20 ∧ q.length ≤ 20) ∨ p.length ≤ half ∨ q.length ≤ half then
      (basicMul o z p q).map fun z' => (z', tmp)
    else if z.length < p.length + q.length then none        -- debug_assert!(z.len() >= p.len() + q.len())
    else
      if tmp.length < 4 * half then none                    -- assert!(tmp.len() >= 4 * half)
      else if p.length < half ∨ q.length < half then none   -- &p[..half], &q[..half]
      else
        let plo := p.take half
        let phi := p.drop half
        let qlo := q.take half
        let qhi := q.drop half
        let tmplo := tmp.take (2 * half)
        let tmphi := tmp.drop (2 * half)
        -- tmphi[..half] = plo; _add(tmphi[..phi.len()], phi)
        match zipOp o.add (plo.take phi.length) phi, zipOp o.add (qlo.take qhi.length) qhi with
        | some sp, some sq =>
          let ps := sp ++ plo.drop phi.length
          let qs := sq ++ qlo.drop qhi.length
          let tmphi1 := ps ++ qs ++ tmphi.drop (2 * half)
          -- middle product into tmplo, with z as scratch
          match karatsuba o f tmplo ps qs z with
          | none => none
          | some (mid, z1) =>
            -- low and high products into z[..2half], z[2half..], with tmphi as scratch
            match karatsuba o f (z1.take (2 * half)) plo qlo tmphi1 with
            | none => none
            | some (lo, tmphi2) =>
              match karatsuba o f (z1.drop (2 * half)) phi qhi tmphi2 with
              | none => none
              | some (hi, tmphi3) =>
                if phi.length + qhi.length = 0 then none     -- `phi.len() + qhi.len() - 1`
                else
                  let hilen := phi.length + qhi.length - 1
                  if hilen > 2 * half ∨ hilen > hi.length then none   -- tmplo[..hilen], z[2half..2half+hilen]
                  else
                    match zipOp o.sub mid lo with
                    | none => none
                    | some m1 =>
                      match zipOp o.sub (m1.take hilen) (hi.take hilen) with
                      | none => none
                      | some m2h =>
                        let m2 := m2h ++ m1.drop hilen
                        let zz := lo ++ hi
                        if zz.length < 3 * half then none    -- z[half..3 * half]
                        else
                          match zipOp o.add ((zz.drop half).take (2 * half)) m2 with
                          | none => none
                          | some s => some (setSlice zz half s, m2 ++ tmphi3)
        | _, _ => none

/-- recursion depth bound used by the wrappers -/
def FUEL : Nat := 64

/-- `Poly::mul_karatsuba(p, q)`: `z` of `2·|p|` and `tmp` of `6·|p|` zero entries -/
def mulKaratsuba (o : Ops α) (p q : List α) : Option (List α) :=
  (karatsuba o FUEL (List.replicate (2 * p.length) o.zero) p q (List.replicate (6 * p.length) o.zero)).map (·.1)

/-- the domain of `karatsuba`: no panic site is reached, for operand lengths `lp`, `lq ≥ 1`,
`|z| = zl`, `|tmp| = tl` and fuel `f` (after the fix every pair of lengths is admitted, see
`karaOk_total`: only the buffer sizes matter) -/
def karaOk : Nat → Nat → Nat → Nat → Nat → Bool
  | 0, _, _, _, _ => false
  | f + 1, lp, lq, zl, tl =>
    let half := (max lp lq + 1) / 2
    if (lp ≤ 20 ∧ lq ≤ 20) ∨ lp ≤ half ∨ lq ≤ half then decide (1 ≤ lp ∧ 1 ≤ lq ∧ lp + lq - 1 ≤ zl)
    else
      decide (lp + lq ≤ zl ∧ 4 * half ≤ tl ∧ 3 * half ≤ zl) &&
        karaOk f half half (2 * half) zl && karaOk f half half (2 * half) (tl - 2 * half) &&
        karaOk f (lp - half) (lq - half) (zl - 2 * half) (tl - 2 * half)

end Ymq.PolyMul
