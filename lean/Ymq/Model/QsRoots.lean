/-
Model of the root preparation of the classical quadratic sieve, src/qsieve.rs:
`SieveQS::new` (rounded square root, "only odds" mode, `nsqrt_mods`),
`SieveQS::prepare_prime_fwd`, `SieveQS::prepare_prime_bck`, `SieveQS::nblocks`.
The closure `next_lgblock` (local to `qsieve()`, not reachable from a hook) is translated from
the source text into Ymq/Gen/QsShift.lean.

Conventions as in Ymq/Model/SiqsPoly.lean (`none` = panic site of the checked profile,
`Dividers::mod_uint` is `%`, `arith::isqrt` is the floor square root `SiqsPoly.isqrt`).
The `u64` expressions `2 * p + r - base` etc. are computed in `Nat` with an explicit underflow test.
No Mathlib import.
-/
import Ymq.Model.SiqsPoly

namespace Ymq.QsRoots
open Ymq.SiqsPoly (bitlen Prime isqrt)

/-- the fields of `SieveQS` used by the root preparation -/
structure QS where
  n : Nat
  nsqrt : Nat
  /-- `nsqrt² - n` -/
  n2mn : Int
  onlyOdds : Bool
deriving Repr

/-- `isqrt(n)`, made odd when `n ≡ 1 (mod 8)`: `nsqrt += Uint::from(1 - nsqrt % 2_u64)` -/
def roundedSqrt (n : Nat) : Nat :=
  let r := isqrt n
  if n % 8 == 1 then r + (1 - r % 2) else r

/-- `SieveQS::new(n, fbase, …)` -/
def new (n : Nat) : Option QS :=
  let odds := n % 8 == 1
  let r := roundedSqrt n
  let d : Int := ((r * r : Nat) : Int) - (n : Int)
  if ¬ (bitlen r < 255) then none                              -- assert!
  else if ¬ (bitlen d.natAbs < 255) then none                  -- assert!
  else some { n, nsqrt := r, n2mn := d, onlyOdds := odds }

/-- `nsqrt_mods[pidx]` -/
def nsqrtMod (q : QS) (p : Nat) : Nat := q.nsqrt % p

/-- `SieveQS::nblocks` -/
def nblocks (q : QS) : Nat :=
  let sz := bitlen q.n
  if sz ≤ 80 then 1 else if sz ≤ 110 then 2 else if sz ≤ 120 then 3
  else if sz ≤ 138 then sz - 118 else 20

/-- the halving step of the "only odds" mode -/
def halve (p s1 s2 : Nat) : Nat × Nat :=
  if s1 % 2 = 0 then (s1 / 2, s2 / 2) else ((s1 + p) / 2, (s2 + p) / 2)

/-- `prepare_prime_fwd(pidx)` for the prime `(p, r)` -/
def prepareFwd (q : QS) (pr : Prime) : Option (Nat × Nat) :=
  let p := pr.p
  let r := pr.r
  if p = 0 then none
  else
    let base := nsqrtMod q p
    if 2 * p + r < base then none                              -- u64 underflow
    else if 2 * p < r + base then none
    else
      let s1 := 2 * p + r - base
      let s2 := 2 * p - r - base
      if q.onlyOdds ∧ p = 2 then some (0, 1)
      else
        let s := if q.onlyOdds then halve p s1 s2 else (s1, s2)
        some (s.1 % p, s.2 % p)                                -- while s >= p { s -= p }

/-- `prepare_prime_bck(pidx)` for the prime `(p, r)` -/
def prepareBck (q : QS) (pr : Prime) : Option (Nat × Nat) :=
  let p := pr.p
  let r := pr.r
  if p = 0 then none
  else
    let base := nsqrtMod q p
    if 2 * p + base < r then none                              -- u64 underflow
    else
      let s1 := 2 * p + base - r
      let s2 := 2 * p + base + r
      if q.onlyOdds ∧ p = 2 then some (0, 1)
      else
        let s := if q.onlyOdds then halve p s1 s2 else (s1, s2)
        some ((s.1 + (p - 1)) % p, (s.2 + (p - 1)) % p)

end Ymq.QsRoots
