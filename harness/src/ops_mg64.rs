//! 64-bit Montgomery routines and primality tests (C06, C07).
use crate::util::*;
use yamaquasi::arith_montgomery::{mg_2adic_inv, mg_mul, mg_redc};

pub fn handle(op: &str, a: &[&str]) -> Option<String> {
    match (op, a) {
        ("mg_2adic_inv", [n]) => Some(mg_2adic_inv(u64_of(n)?).to_string()),
        ("mg_redc", [n, ninv, x]) => {
            Some(mg_redc(u64_of(n)?, u64_of(ninv)?, u128_of(x)?).to_string())
        }
        ("mg_mul", [n, ninv, x, y]) => {
            Some(mg_mul(u64_of(n)?, u64_of(ninv)?, u64_of(x)?, u64_of(y)?).to_string())
        }
        ("isprime64", [p]) => Some(yamaquasi::isprime64(u64_of(p)?).to_string()),
        ("pseudoprime", [p]) => Some(yamaquasi::pseudoprime(uint_of(p)?).to_string()),
        _ => None,
    }
}
