import Ymq.Drv.Util
import Ymq.Model.Sieve
import Ymq.Model.SieveLog

/-!
Driver ops of C13 (answers of the MODEL; the harness prints the same lines with the real code):
  svm <P> <cmd>...   cmds: new <off> <nblocks> <R1> <R2> | blk <positions> | skip <k> | rehash <R1> <R2> | dumplo
  svt / svl <nblocks> <adds> <adds2|x> <queries>
  sv_cof <P> <x> <facs> <maxlarge> <double> [<hint p,q | none>]
  svb <d0|d1> <root> <P> <cmd>...   log accumulation / threshold model (d1 = checked profile, d0 = release):
        new .. | skip <k> | rehash .. | blk <threshold>
  sv_fbm <P>         idx_by_log as FBase::new computes it for the primes P (replay of an `sv_fb` answer)
-/
namespace Ymq.Drv
open Ymq.Sieve

namespace SieveDrv

def hmod : Nat := 2305843009213693951

def hash (l : Array Nat) : Nat := l.foldl (fun x v => (x * 1000003 + v + 1) % hmod) 0

def dots (l : List Nat) : String := if l.isEmpty then "-" else ".".intercalate (l.map toString)

def sortNat (l : List Nat) : List Nat := (l.toArray.qsort (· < ·)).toList

def tableFill (t : Table) : Nat := t.blens.foldl (· + ·) 0
def ltableFill (t : LTable) : Nat := t.lengths.foldl (· + ·) 0

def dumpBlock (s : State) (res : List Nat) (facs : List (List Nat)) : String :=
  let head := s!"B{s.blkNo}@{s.offset} lo={hash s.lo} lp={hash s.loPrev} ov={dots (s.tables.toList.map (·.nOverflows))}/{dots (s.ltables.toList.map (·.overflows.size))} fill={dots (s.tables.toList.map tableFill)}/{dots (s.ltables.toList.map ltableFill)} n={res.length}"
  (res.zip facs).foldl (fun acc (r, f) => acc ++ s!" {r}:{dots (sortNat f)}") head

structure Run where
  st : Option State := none
  r1 : Array Nat := #[]
  r2 : Array Nat := #[]
  out : Array String := #[]

/-- one command; `none` = malformed request, `some none` = the model panics -/
def step (fb : FB) (run : Run) : List String → Option (Option Run × List String)
  | "new" :: off :: nb :: a :: b :: rest => do
    let off ← parseInt off; let nb ← parseNat nb
    let r1 := (← parseNatList a).toArray; let r2 := (← parseNatList b).toArray
    let rec_ := run.st.map recycle
    match Sieve.new off nb fb r1 r2 rec_ with
    | none => some (none, rest)
    | some s => some (some { run with st := some s, r1 := r1, r2 := r2 }, rest)
  | "rehash" :: a :: b :: rest => do
    let r1 := (← parseNatList a).toArray; let r2 := (← parseNatList b).toArray
    let s ← run.st
    match rehash fb s r1 r2 with
    | none => some (none, rest)
    | some s => some (some { run with st := some s, r1 := r1, r2 := r2 }, rest)
  | "skip" :: k :: rest => do
    let k ← parseNat k
    let s ← run.st
    let r := runBlocks fb k s
    match r with
    | none => some (none, rest)
    | some s => some (some { run with st := some s }, rest)
  | "blk" :: ps :: rest => do
    let ps ← parseNatList ps
    let s ← run.st
    let r := do
      let s ← sieveBlock fb s
      let facs ← factorsAt fb s run.r1 run.r2 ps
      let line := dumpBlock s ps facs
      let s ← nextBlock s
      some (s, line)
    match r with
    | none => some (none, rest)
    | some (s, line) => some (some { run with st := some s, out := run.out.push line }, rest)
  | "dumplo" :: rest => do
    let s ← run.st
    some (some { run with out := run.out.push s!"LO {showList s.lo.toList} {showList s.loPrev.toList}" }, rest)
  | _ => none

partial def runAll (fb : FB) (run : Run) (toks : List String) : Option (Option Run) :=
  if toks.isEmpty then some (some run)
  else match step fb run toks with
    | none => none
    | some (none, _) => some none
    | some (some run, rest) => runAll fb run rest

/-- `svb` commands -/
def stepB (dbg : Bool) (root : Option Nat) (fb : FB) (run : Run) : List String → Option (Option Run × List String)
  | "new" :: off :: nb :: a :: b :: rest => step fb run ("new" :: off :: nb :: a :: b :: rest)
  | "rehash" :: a :: b :: rest => step fb run ("rehash" :: a :: b :: rest)
  | "skip" :: k :: rest => do
    let k ← parseNat k
    let s ← run.st
    let r := (List.range k).foldlM (fun s _ => do
      let (s, _) ← SieveLog.sieveBlockLog dbg fb s
      nextBlock s) s
    match r with
    | none => some (none, rest)
    | some s => some (some { run with st := some s }, rest)
  | "blk" :: thr :: rest => do
    let thr ← parseNat thr
    let s ← run.st
    let r := do
      let (s, blk) ← SieveLog.sieveBlockLog dbg fb s
      let (res, facs) ← SieveLog.smooths dbg fb s blk thr root run.r1 run.r2
      let head := s!"K{s.blkNo} h={hash blk} mx={blk.foldl max 0} n={res.length}"
      let line := (res.zip facs).foldl (fun acc (r, f) => acc ++ s!" {r}:{dots (sortNat f)}") head
      let s ← nextBlock s
      some (s, line)
    match r with
    | none => some (none, rest)
    | some (s, line) => some (some { run with st := some s, out := run.out.push line }, rest)
  | _ => none

partial def runAllB (dbg : Bool) (root : Option Nat) (fb : FB) (run : Run) (toks : List String) : Option (Option Run) :=
  if toks.isEmpty then some (some run)
  else match stepB dbg root fb run toks with
    | none => none
    | some (none, _) => some none
    | some (some run, rest) => runAllB dbg root fb run rest

def parsePairs (s : String) : Option (List (Nat × Nat)) :=
  if s = "-" then some [] else (s.splitOn ",").mapM fun x =>
    match x.splitOn ":" with
    | [a, b] => do some (← parseNat a, ← parseNat b)
    | _ => none

def showPairs (l : List (Nat × Nat)) : String :=
  if l.isEmpty then "-" else ",".intercalate (l.map fun (a, b) => s!"{a}:{b}")

def showCof : Option (Option ((Nat × Nat) × List (Int × Nat))) → String
  | none => "panic"
  | some none => "none"
  | some (some ((p, q), fs)) =>
    let f := if fs.isEmpty then "-" else ".".intercalate (fs.map fun (b, e) => s!"{b}^{e}")
    s!"some {max p q} {min p q} {f}"

end SieveDrv

open SieveDrv in
def handleSieve : Handler
  | "svm" :: ps :: cmds => do
    let fb := FB.ofPrimes (← parseNatList ps).toArray
    match ← runAll fb {} cmds with
    | none => some "panic"
    | some run => some ("ok | " ++ ";".intercalate run.out.toList)
  | "svb" :: d :: root :: ps :: cmds => do
    let dbg ← (if d = "d1" then some true else if d = "d0" then some false else none)
    let root ← (if root = "none" then some none else (parseNat root).map some)
    let fb := FB.ofPrimes (← parseNatList ps).toArray
    match ← runAllB dbg root fb {} cmds with
    | none => some "panic"
    | some run => some ("ok | " ++ ";".intercalate run.out.toList)
  | ["svt", nb, a1, a2, qs] => do
    let nb ← parseNat nb; let a1 ← parsePairs a1; let qs ← parseNatList qs
    let r : Option String := do
      let t ← a1.foldlM (fun (t : Table) a => t.add a.1 (a.2 % 2 ^ 32)) (Table.new nb)
      let t ← if a2 = "x" then some t else do
        let a2 ← parsePairs a2
        a2.foldlM (fun (t : Table) a => t.add a.1 (a.2 % 2 ^ 32)) t.reset
      let bks ← qs.mapM fun q => t.bucket (q / 256)
      some (s!"{t.nOverflows} {tableFill t} | {showPairs t.ovList}" ++
        String.join (bks.map fun b => " | " ++ showPairs b))
    if a2 ≠ "x" ∧ (parsePairs a2).isNone then none else
    some (r.getD "panic")
  | ["svl", nb, a1, a2, qs] => do
    let nb ← parseNat nb; let a1 ← parsePairs a1; let qs ← parseNatList qs
    let r : Option String := do
      let t ← a1.foldlM (fun (t : LTable) a => t.add a.1 a.2) (LTable.new nb)
      let t ← if a2 = "x" then some t else do
        let a2 ← parsePairs a2
        a2.foldlM (fun (t : LTable) a => t.add a.1 a.2) t.reset
      let bks ← qs.mapM fun q => t.bucket (q / 16384)
      some (s!"{t.overflows.size} {ltableFill t} | {showPairs t.overflows.toList}" ++
        String.join (bks.map fun b => " | " ++ showPairs b))
    if a2 ≠ "x" ∧ (parsePairs a2).isNone then none else
    some (r.getD "panic")
  | ["sv_fbm", ps] => do
    let ps ← parseNatList ps
    some (match fbaseIbl ps with | none => "panic" | some a => showList a.toList)
  | "sv_cof" :: ps :: x :: facs :: maxlarge :: dbl :: hint => do
    let ps ← parseNatList ps; let x ← parseInt x; let facs ← parseNatList facs
    let maxlarge ← parseNat maxlarge
    let dbl ← (if dbl = "true" then some true else if dbl = "false" then some false else none)
    let tf : Nat → Option (Nat × Nat) ← match hint with
      | [] => some (fun _ => none)
      | ["none"] => some (fun _ => none)
      | [h] => do
        let l ← parseNatList h
        match l with
        | [p, q] => some (fun c => if p * q = c then some (p, q) else none)
        | _ => none
      | _ => none
    some (showCof (cofactor ps.toArray x facs maxlarge dbl tf))
  | _ => none

end Ymq.Drv
