/-
C09 (extension) — the cofactor-width statement of the extended Lehmer gcd with a sharper domain, and
the full-correctness form of `inv_mod`.
Only property theorems live here (helper lemmas: Ymq/Lemmas/GcdRow.lean, Ymq/Lemmas/GcdCof8.lean).
Same model as Props/C09.lean (Ymq/Model/Gcd.lean: `none` = the real code panics in the checked
profile, or the fuel ran out — excluded by `gcd_terminates`).
-/
import Ymq.Props.C09
import Ymq.Lemmas.GcdCof8
import Mathlib.Data.Nat.ModEq

namespace Ymq.C09
open Ymq.Gcd

/-- `reduce64(x, y)` for **all** pairs of 64-bit words: the FIRST row `(a, b)` of the returned matrix is
below `2^34` in absolute value (the second one is below `2^36`: `reduce64_inv`). Reason: the first row
is the second row of the state before the last continuing iteration, which passed the matrix-size test
`bits(q+1) + bits(max |c| |d|) <= 36` with `q + 1 >= 2`. This is what bounds the error term of a
Lehmer step in `gcd_internal` (the product of the two rows' sizes is below `2^70`, not `2^72`). -/
theorem reduce64_first_row (x y : Nat) (hx : x < 2 ^ 64) (hy : y < 2 ^ 64) (a b c d : Int)
    (h : reduce64 x y = some (a, b, c, d)) : a.natAbs < 2 ^ 34 ∧ b.natAbs < 2 ^ 34 := by
  obtain ⟨ha, hb⟩ := reduce64_row1 (by rw [W_eq]; exact hx) (by rw [W_eq]; exact hy) h
  rw [Int.abs_eq_natAbs] at ha hb
  exact ⟨by exact_mod_cast ha, by exact_mod_cast hb⟩

example : reduce64 18446744073709551615 12345678901234567 =
    some (-3133215, 4681606876, 11521471, -17215223933) ∧ (4681606876 : Int).natAbs < 2 ^ 34 := by
  decide +kernel

/-- `no_panic`, extended variant with the real cofactor width, on the domain `max(n, p) < 2^(64N-8)`
(1016 bits for N = 16, 504 bits for N = 8, 248 bits for N = 4; `no_panic_ext` had `64N-12`):
`gcd_internal::<N, true>` never panics — no `BInt<N>` cofactor operation overflows, nor any other
site — and it returns the gcd with valid Bezout cofactors; the returned `u` is at most
`74 * max(n, p) + 1` in absolute value.
Invariant behind it (Ymq/Lemmas/GcdCof8.lean), for the state after the swap (`y <= x`, rows `(A, B)`
of `x` and `(C, D)` of `y`): `|A| * y <= 140 * max(n, p)`, `|B| * y <= 140 * max(n, p)` and all four
cofactors at most `73 * max(n, p) + 1`. With the determinant identity `x * C - y * A = -+p`, the
half-size bound of the i64 `extended_gcd` cofactors (`egcdI64_total2`) and `reduce64_first_row`, every
product and sum formed by the quotient step, the Lehmer step and the final combination is at most
`119 * max(n, p) + 1 < 2^(64N-1)`.
The classical Euclid bound (constant 1) does not hold for this algorithm: after a Lehmer step the new
pair is `(u, v) * 2^k` plus an error of up to `2^36 * 2^k` that can exceed `u * 2^k` by a factor `2^8`,
and the products `|A| * y` really reach about `115 * max(n, p)` (intermediate values of `57 * max(n, p)`
were observed); so the true threshold is at most `64N - 6` (`no_panic_ext_domain_sharp`) and at least
`64N - 8` bits; operands of exactly `64N - 7` bits are open (no overflow found by a directed search;
the analysis sketched above predicts none: `57 < 64`). -/
theorem no_panic_ext_wide (N : Nat) (hN : 0 < N) (n p : Nat) (hn : n < 2 ^ (64 * N - 8))
    (hp : p < 2 ^ (64 * N - 8)) :
    ∃ (d : Nat) (u v : Int), gcdInternal N true n p = some (d, u, v) ∧
      d = Nat.gcd n p ∧ u * n + v * p = d ∧ u.natAbs ≤ 74 * max n p + 1 := by
  obtain ⟨d, u, v, hr, hu⟩ := T8.gcdInternal_ext_total hN hn hp
  have hr' := hr
  unfold gcdInternal at hr'
  obtain ⟨h1, h2⟩ := gcdLoop_spec hN _ _ d u v hr' (GInv_init true n p)
  refine ⟨d, u, v, hr, h1, h2 rfl, ?_⟩
  rw [Int.abs_eq_natAbs] at hu
  exact_mod_cast hu

example : (2 ^ 247 + 12345 : Nat) < 2 ^ (64 * 4 - 8) ∧ ¬ (2 ^ 247 + 12345 : Nat) < 2 ^ (64 * 4 - 12) ∧
    ∃ u v, gcdInternal 4 true (2 ^ 247 + 12345) (2 ^ 246 + 77) = some (1, u, v) := by
  refine ⟨by decide, by decide, ?_⟩
  obtain ⟨d, u, v, h, hd, _⟩ := no_panic_ext_wide 4 (by decide) (2 ^ 247 + 12345) (2 ^ 246 + 77)
    (by decide) (by decide)
  have : d = 1 := by rw [hd]; decide +kernel
  subst this
  exact ⟨u, v, h⟩

/-- a modular inverse exists only for coprime operands -/
private theorem coprime_of_mul_mod {n p x : Nat} (h : n * x % p = 1 % p) : Nat.gcd n p = 1 := by
  by_cases hp : p = 1
  · subst hp; simp
  · by_cases hp0 : p = 0
    · subst hp0
      have : n * x = 1 := by simpa using h
      have hn : n = 1 := Nat.eq_one_of_mul_eq_one_right this
      subst hn; simp
    · have h1 : 1 % p = 1 := Nat.mod_eq_of_lt (by omega)
      rw [h1] at h
      have hg : Nat.gcd n p ∣ n * x % p :=
        (Nat.dvd_mod_iff (Nat.gcd_dvd_right n p)).2 (Dvd.dvd.mul_right (Nat.gcd_dvd_left n p) x)
      rw [h] at hg
      exact Nat.dvd_one.1 hg

/-- full-correctness form of `inv_mod::<N>(n, p)` (termination + result, both directions) for a non-zero
modulus and operands below `2^(64N-8)`: it returns (no panic, the loop ends within its fuel), and
* if `gcd(n, p) = 1` the result is `Ok(x)` with `x < p` and `n * x ≡ 1 (mod p)` — the unique such `x`;
* if `gcd(n, p) ≠ 1` the result is `Err(gcd(n, p))`.
Hence `Ok` iff coprime, `Err` iff not coprime. (`p = 0` is refused by the assertion: `inv_mod_spec`.) -/
theorem inv_mod_total (N : Nat) (hN : 0 < N) (n p : Nat) (hp0 : p ≠ 0)
    (hn : n < 2 ^ (64 * N - 8)) (hp : p < 2 ^ (64 * N - 8)) :
    (Nat.gcd n p = 1 → ∃ x, invMod N n p = some (.ok x) ∧ x < p ∧ n * x % p = 1 % p ∧
        ∀ x', x' < p → n * x' % p = 1 % p → x' = x) ∧
    (Nat.gcd n p ≠ 1 → invMod N n p = some (.err (Nat.gcd n p))) := by
  have htot : ∃ r, invMod N n p = some r := by
    unfold invMod
    rw [if_neg hp0]
    split
    · split <;> exact ⟨_, rfl⟩
    · obtain ⟨d, u, v, hr, hu⟩ := T8.gcdInternal_ext_total hN hn hp
      rw [hr]
      simp only
      split
      · exact ⟨_, rfl⟩
      · split
        · have hd := (T8.Dom_of_lt hN hn hp).L
          rw [chkB_of_abs hd (by rw [abs_neg]; linarith)]
          exact ⟨_, rfl⟩
        · exact ⟨_, rfl⟩
  obtain ⟨r, hr⟩ := htot
  have hs := inv_mod_spec N hN n p r hr
  cases r with
  | ok x =>
    simp only at hs
    have hg := coprime_of_mul_mod hs.2
    refine ⟨fun _ => ⟨x, hr, hs.1, hs.2, ?_⟩, fun hne => absurd hg hne⟩
    intro x' hx' hm
    -- uniqueness: n is invertible modulo p
    have e : n * x % p = n * x' % p := by rw [hs.2, hm]
    have hmod : x % p = x' % p :=
      Nat.ModEq.cancel_left_of_coprime (m := p) (c := n) (by rw [Nat.gcd_comm]; exact hg) e
    rw [Nat.mod_eq_of_lt hs.1, Nat.mod_eq_of_lt hx'] at hmod
    exact hmod.symm
  | err d =>
    simp only at hs
    refine ⟨fun h1 => absurd (hs.1 ▸ h1) hs.2, fun _ => by rw [hr, hs.1]⟩

example : (Nat.gcd 3 7 = 1 ∧ invMod 8 3 7 = some (.ok 5)) ∧ (Nat.gcd 6 9 ≠ 1 ∧ invMod 8 6 9 = some (.err 3)) ∧
    (7 : Nat) < 2 ^ (64 * 8 - 8) := by
  decide +kernel

end Ymq.C09
