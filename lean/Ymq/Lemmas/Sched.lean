/- Helper lemmas for the shared-store scheduling model (C04). -/
import Ymq.Model.Sched
import Mathlib.Tactic.Linarith
import Mathlib.Data.List.Basic

namespace Ymq.Sched
variable {ρ σ : Type}

/-- all relations that may still be added -/
def pend (c : Cfg ρ σ) : List ρ := c.pcs.flatMap pendingAdds

theorem mem_flatMap_set {pcs : List (List (Act ρ))} {w : Nat} {v : List (Act ρ)} {r : ρ}
    (h : r ∈ (pcs.set w v).flatMap pendingAdds) :
    r ∈ pcs.flatMap pendingAdds ∨ r ∈ pendingAdds v := by
  rw [List.mem_flatMap] at h
  obtain ⟨l, hl, hr⟩ := h
  rcases List.mem_or_eq_of_mem_set hl with h1 | h1
  · exact Or.inl (List.mem_flatMap.mpr ⟨l, h1, hr⟩)
  · subst h1; exact Or.inr hr

theorem getElem?_mem_flatMap {pcs : List (List (Act ρ))} {w : Nat} {l : List (Act ρ)} {r : ρ}
    (h : pcs[w]? = some l) (hr : r ∈ pendingAdds l) : r ∈ pcs.flatMap pendingAdds :=
  List.mem_flatMap.mpr ⟨l, List.mem_of_getElem? h, hr⟩

/-- one step: the log grows by at most one pending relation, and what remains pending was pending -/
theorem step_log_pend (add : σ → ρ → σ) (enough : σ → Bool) (c : Cfg ρ σ) (w : Nat) (st ab : Bool) :
    (∀ r ∈ pend (step add enough c w st ab), r ∈ pend c) ∧
    ((step add enough c w st ab).log = c.log ∧ (step add enough c w st ab).store = c.store ∨
     ∃ r, r ∈ pend c ∧ (step add enough c w st ab).log = c.log ++ [r] ∧
       (step add enough c w st ab).store = add c.store r) := by
  unfold step
  split
  · exact ⟨fun r h => h, Or.inl ⟨rfl, rfl⟩⟩
  · exact ⟨fun r h => h, Or.inl ⟨rfl, rfl⟩⟩
  · rename_i rest hw
    split
    · refine ⟨?_, Or.inl ⟨rfl, rfl⟩⟩
      intro r h
      rcases mem_flatMap_set h with h | h
      · exact h
      · simp [pendingAdds] at h
    · refine ⟨?_, Or.inl ⟨rfl, rfl⟩⟩
      intro r h
      rcases mem_flatMap_set h with h | h
      · exact h
      · exact getElem?_mem_flatMap hw (by simpa [pendingAdds] using h)
  · rename_i rest hw
    split
    · refine ⟨?_, Or.inl ⟨rfl, rfl⟩⟩
      intro r h
      rcases mem_flatMap_set h with h | h
      · exact h
      · simp [pendingAdds] at h
    · refine ⟨?_, Or.inl ⟨rfl, rfl⟩⟩
      intro r h
      rcases mem_flatMap_set h with h | h
      · exact h
      · exact getElem?_mem_flatMap hw (by simpa [pendingAdds] using h)
  · rename_i r rest hw
    refine ⟨?_, Or.inr ⟨r, getElem?_mem_flatMap hw (by simp [pendingAdds]), rfl, rfl⟩⟩
    intro r' h
    rcases mem_flatMap_set h with h | h
    · exact h
    · exact getElem?_mem_flatMap hw (by simp [pendingAdds, h])
  · rename_i rest hw
    refine ⟨?_, Or.inl ⟨rfl, rfl⟩⟩
    intro r h
    rcases mem_flatMap_set h with h | h
    · exact h
    · exact getElem?_mem_flatMap hw (by simpa [pendingAdds] using h)

end Ymq.Sched

namespace Ymq.Sched
variable {ρ σ : Type}

/-- The store is exactly the sequential replay of the linearised history, the history only
contains relations of the workers' programs, and any invariant that `add` preserves for good
relations holds — for EVERY schedule and every pattern of stale flag reads. -/
theorem run_spec (add : σ → ρ → σ) (enough : σ → Bool) (Inv : σ → Prop) (Good : ρ → Prop)
    (hadd : ∀ s r, Inv s → Good r → Inv (add s r)) :
    ∀ (sched : List (Nat × Bool × Bool)) (c : Cfg ρ σ) (s0 : σ),
      c.store = c.log.foldl add s0 → Inv c.store → (∀ r ∈ c.log, Good r) → (∀ r ∈ pend c, Good r) →
      let c' := run add enough c sched
      c'.store = c'.log.foldl add s0 ∧ Inv c'.store ∧ (∀ r ∈ c'.log, Good r) ∧
        (∀ r ∈ pend c', Good r) ∧ (∀ r ∈ c'.log, r ∈ c.log ∨ r ∈ pend c) := by
  intro sched
  induction sched with
  | nil =>
    intro c s0 h1 h2 h3 h4
    exact ⟨h1, h2, h3, h4, fun r h => Or.inl h⟩
  | cons a sched ih =>
    intro c s0 h1 h2 h3 h4
    obtain ⟨w, st, ab⟩ := a
    have hs := step_log_pend add enough c w st ab
    obtain ⟨hp, hl⟩ := hs
    simp only [run]
    rcases hl with ⟨hlog, hstore⟩ | ⟨r, hr, hlog, hstore⟩
    · have := ih (step add enough c w st ab) s0 (by rw [hstore, hlog]; exact h1) (by rw [hstore]; exact h2)
        (by rw [hlog]; exact h3) (fun r h => h4 r (hp r h))
      obtain ⟨a1, a2, a3, a4, a5⟩ := this
      refine ⟨a1, a2, a3, a4, ?_⟩
      intro r h
      rcases a5 r h with h | h
      · rw [hlog] at h; exact Or.inl h
      · exact Or.inr (hp r h)
    · have hg : Good r := h4 r hr
      have := ih (step add enough c w st ab) s0
        (by rw [hstore, hlog, List.foldl_append, ← h1]; rfl)
        (by rw [hstore]; exact hadd _ _ h2 hg)
        (by rw [hlog]; intro x hx; rcases List.mem_append.mp hx with hx | hx
            · exact h3 x hx
            · simp at hx; subst hx; exact hg)
        (fun r h => h4 r (hp r h))
      obtain ⟨a1, a2, a3, a4, a5⟩ := this
      refine ⟨a1, a2, a3, a4, ?_⟩
      intro x h
      rcases a5 x h with h | h
      · rw [hlog] at h
        rcases List.mem_append.mp h with h | h
        · exact Or.inl h
        · simp at h; subst h; exact Or.inr hr
      · exact Or.inr (hp x h)

theorem pendingAdds_compile (prog : List (List ρ)) : pendingAdds (compile prog) = prog.flatten := by
  induction prog with
  | nil => rfl
  | cons u us ih =>
    simp only [compile, pendingAdds, List.flatten_cons]
    have : ∀ (l : List ρ) (rest : List (Act ρ)), pendingAdds (l.map Act.add ++ rest) = l ++ pendingAdds rest := by
      intro l rest
      induction l with
      | nil => rfl
      | cons x xs ihx => simp [pendingAdds, ihx]
    rw [this, pendingAdds, ih]

/-- `done` is monotone: once set it stays set -/
theorem step_done_mono (add : σ → ρ → σ) (enough : σ → Bool) (c : Cfg ρ σ) (w : Nat) (st ab : Bool)
    (h : c.done = true) : (step add enough c w st ab).done = true := by
  unfold step
  split <;> try exact h
  · split <;> exact h
  · split <;> exact h
  · simp [h]

theorem run_done_mono (add : σ → ρ → σ) (enough : σ → Bool) (sched : List (Nat × Bool × Bool)) :
    ∀ c : Cfg ρ σ, c.done = true → (run add enough c sched).done = true := by
  induction sched with
  | nil => intro c h; exact h
  | cons a sched ih => intro c h; exact ih _ (step_done_mono add enough c a.1 a.2.1 a.2.2 h)

end Ymq.Sched

namespace Ymq.Sched
variable {ρ σ : Type}

theorem sum_set_length : ∀ (pcs : List (List (Act ρ))) (w : Nat) (l v : List (Act ρ)),
    pcs[w]? = some l →
    ((pcs.set w v).map List.length).sum + l.length = (pcs.map List.length).sum + v.length
  | [], w, l, v, h => by simp at h
  | p :: ps, 0, l, v, h => by
    simp at h; subst h
    simp only [List.set_cons_zero, List.map_cons, List.sum_cons]; omega
  | p :: ps, w + 1, l, v, h => by
    simp at h
    have := sum_set_length ps w l v h
    simp only [List.set_cons_succ, List.map_cons, List.sum_cons]; omega

/-- a scheduling choice is effective when the chosen worker still has an action to perform -/
def effective (c : Cfg ρ σ) (w : Nat) : Prop := ∃ a rest, c.pcs[w]? = some (a :: rest)

/-- every step consumes at most the actions it performs; an effective step consumes at least one -/
theorem step_remaining (add : σ → ρ → σ) (enough : σ → Bool) (c : Cfg ρ σ) (w : Nat) (st ab : Bool) :
    remaining (step add enough c w st ab) ≤ remaining c ∧
    (effective c w → remaining (step add enough c w st ab) < remaining c) := by
  unfold step remaining effective
  split
  · rename_i h; exact ⟨le_refl _, fun ⟨a, rest, h'⟩ => by rw [h] at h'; cases h'⟩
  · rename_i h; exact ⟨le_refl _, fun ⟨a, rest, h'⟩ => by rw [h] at h'; cases h'⟩
  · rename_i rest h
    split
    · have := sum_set_length c.pcs w _ [] h
      simp only [setPc, List.length_cons, List.length_nil] at *
      exact ⟨by omega, fun _ => by omega⟩
    · have := sum_set_length c.pcs w _ rest h
      simp only [setPc, List.length_cons] at *
      exact ⟨by omega, fun _ => by omega⟩
  · rename_i rest h
    split
    · have := sum_set_length c.pcs w _ [] h
      simp only [setPc, List.length_cons, List.length_nil] at *
      exact ⟨by omega, fun _ => by omega⟩
    · have := sum_set_length c.pcs w _ rest h
      simp only [setPc, List.length_cons] at *
      exact ⟨by omega, fun _ => by omega⟩
  · rename_i r rest h
    have := sum_set_length c.pcs w _ rest h
    simp only [setPc, List.length_cons] at *
    exact ⟨by omega, fun _ => by omega⟩
  · rename_i rest h
    have := sum_set_length c.pcs w _ rest h
    simp only [setPc, List.length_cons] at *
    exact ⟨by omega, fun _ => by omega⟩

/-- a schedule all of whose choices are effective -/
def allEffective (add : σ → ρ → σ) (enough : σ → Bool) : Cfg ρ σ → List (Nat × Bool × Bool) → Prop
  | _, [] => True
  | c, (w, st, ab) :: sched => effective c w ∧ allEffective add enough (step add enough c w st ab) sched

/-- bounded work: no schedule can make the workers perform more than `remaining` actions -/
theorem effective_steps_bounded (add : σ → ρ → σ) (enough : σ → Bool) :
    ∀ (sched : List (Nat × Bool × Bool)) (c : Cfg ρ σ), allEffective add enough c sched →
      sched.length + remaining (run add enough c sched) ≤ remaining c := by
  intro sched
  induction sched with
  | nil => intro c _; simp [run]
  | cons a sched ih =>
    intro c h
    obtain ⟨w, st, ab⟩ := a
    obtain ⟨h1, h2⟩ := h
    have := ih _ h2
    have hs := (step_remaining add enough c w st ab).2 h1
    simp only [run, List.length_cons]
    omega

/-- progress: unless every worker has finished, some worker can take an effective step
(no action ever blocks on another worker) -/
theorem progress (c : Cfg ρ σ) (h : finished c = false) : ∃ w, effective c w := by
  unfold finished at h
  rw [List.all_eq_false] at h
  obtain ⟨l, hl, hne⟩ := h
  obtain ⟨w, hw, rfl⟩ := List.getElem_of_mem hl
  refine ⟨w, ?_⟩
  cases hcw : c.pcs[w] with
  | nil => simp [hcw] at hne
  | cons a rest => exact ⟨a, rest, by rw [List.getElem?_eq_getElem hw, hcw]⟩

end Ymq.Sched

namespace Ymq.Sched
variable {ρ σ : Type}

theorem sum_set_untilPoll : ∀ (pcs : List (List (Act ρ))) (w : Nat) (l v : List (Act ρ)),
    pcs[w]? = some l →
    ((pcs.set w v).map untilPoll).sum + untilPoll l = (pcs.map untilPoll).sum + untilPoll v
  | [], w, l, v, h => by simp at h
  | p :: ps, 0, l, v, h => by
    simp at h; subst h
    simp only [List.set_cons_zero, List.map_cons, List.sum_cons]; omega
  | p :: ps, w + 1, l, v, h => by
    simp at h
    have := sum_set_untilPoll ps w l v h
    simp only [List.set_cons_succ, List.map_cons, List.sum_cons]; omega

/-- while the abort predicate answers `true`, every effective step consumes the abort budget:
the remainder of the acting worker's current work unit shrinks, and a poll ends the worker -/
theorem step_abortBudget (add : σ → ρ → σ) (enough : σ → Bool) (c : Cfg ρ σ) (w : Nat) (st : Bool)
    (h : effective c w) :
    abortBudget (step add enough c w st true) < abortBudget c := by
  obtain ⟨a, rest, ha⟩ := h
  unfold step abortBudget
  rw [ha]
  cases a with
  | poll =>
    simp only [Bool.true_or, if_true]
    have := sum_set_untilPoll c.pcs w _ [] ha
    simp only [setPc, untilPoll] at *
    omega
  | check =>
    simp only
    split
    · have := sum_set_untilPoll c.pcs w _ [] ha
      simp only [setPc, untilPoll] at *
      omega
    · have := sum_set_untilPoll c.pcs w _ rest ha
      simp only [setPc, untilPoll] at *
      omega
  | add r =>
    have := sum_set_untilPoll c.pcs w _ rest ha
    simp only [setPc, untilPoll] at *
    omega
  | publish =>
    have := sum_set_untilPoll c.pcs w _ rest ha
    simp only [setPc, untilPoll] at *
    omega

/-- a schedule along which the abort predicate answers `true` at every step -/
def allAbort : List (Nat × Bool × Bool) → Prop
  | [] => True
  | (_, _, ab) :: sched => ab = true ∧ allAbort sched

theorem abort_steps_bounded (add : σ → ρ → σ) (enough : σ → Bool) :
    ∀ (sched : List (Nat × Bool × Bool)) (c : Cfg ρ σ), allEffective add enough c sched → allAbort sched →
      sched.length + abortBudget (run add enough c sched) ≤ abortBudget c := by
  intro sched
  induction sched with
  | nil => intro c _ _; simp [run]
  | cons a sched ih =>
    intro c h hab
    obtain ⟨w, st, ab⟩ := a
    obtain ⟨h1, h2⟩ := h
    obtain ⟨hab1, hab2⟩ := hab
    subst hab1
    have := ih _ h2 hab2
    have hs := step_abortBudget add enough c w st h1
    simp only [run, List.length_cons]
    omega

theorem untilPoll_le_length : ∀ l : List (Act ρ), untilPoll l ≤ l.length
  | [] => by simp [untilPoll]
  | Act.poll :: rest => by simp [untilPoll]
  | Act.check :: rest => by have := untilPoll_le_length rest; simp [untilPoll]; omega
  | Act.add _ :: rest => by have := untilPoll_le_length rest; simp [untilPoll]; omega
  | Act.publish :: rest => by have := untilPoll_le_length rest; simp [untilPoll]; omega

/-- before any work has started every worker is at a poll: the abort budget of the initial
configuration is one action per worker with a non-empty work list -/
theorem abortBudget_init_le (s0 : σ) (progs : List (List (List ρ))) :
    abortBudget (init s0 progs) ≤ progs.length := by
  unfold abortBudget init
  show ((progs.map compile).map untilPoll).sum ≤ progs.length
  induction progs with
  | nil => simp
  | cons p ps ih =>
    simp only [List.map_cons, List.sum_cons, List.length_cons]
    have : untilPoll (compile p) ≤ 1 := by
      cases p with
      | nil => simp [compile, untilPoll]
      | cons u us => simp [compile, untilPoll]
    omega

end Ymq.Sched
