import Ymq.Props.C19
#print axioms Ymq.C19.crt_symmetric
#print axioms Ymq.C19.crt_sparse_symmetric
#print axioms Ymq.C19.perm_sign
