/- Helper lemmas for C20: specifications of the library functions of Ymq/Model/Checked.lean
(integer square root, modular exponentiation, nearest-row selection) and small arithmetic facts
used to lift the finite `decide` checks. -/
import Ymq.Model.Checked
import Mathlib.Tactic.Ring
import Mathlib.Tactic.Linarith
import Mathlib.Data.Nat.ModEq

namespace Ymq.Checked

/-! ### integer square root -/

theorem isqrtAux_spec (k : Nat) : ∀ r n, r * r ≤ n → n < (r + 2 ^ k) * (r + 2 ^ k) →
    isqrtAux k r n * isqrtAux k r n ≤ n ∧ n < (isqrtAux k r n + 1) * (isqrtAux k r n + 1) := by
  induction k with
  | zero => intro r n h1 h2; simpa [isqrtAux] using ⟨h1, h2⟩
  | succ k ih =>
    intro r n h1 h2
    unfold isqrtAux
    have e : r + 2 ^ k + 2 ^ k = r + 2 ^ (k + 1) := by rw [pow_succ]; ring
    split
    · next h => exact ih (r + 2 ^ k) n h (by rw [e]; exact h2)
    · next h => exact ih r n h1 (by omega)

/-- `isqrt n = ⌊√n⌋` for every `n < 2^64`. -/
theorem isqrt_spec (n : Nat) (h : n < 2 ^ 64) :
    isqrt n * isqrt n ≤ n ∧ n < (isqrt n + 1) * (isqrt n + 1) := by
  unfold isqrt
  apply isqrtAux_spec 32 0 n (by omega)
  have : (0 + 2 ^ 32) * (0 + 2 ^ 32) = 2 ^ 64 := by norm_num
  omega

/-! ### modular exponentiation -/

theorem powmodAux_modEq (m : Nat) : ∀ f acc b e, e < 2 ^ f →
    powmodAux f acc b e m ≡ acc * b ^ e [MOD m] := by
  intro f
  induction f with
  | zero =>
    intro acc b e he
    have : e = 0 := by simpa using he
    subst this; simp [powmodAux, Nat.ModEq]
  | succ f ih =>
    intro acc b e he
    unfold powmodAux
    by_cases h0 : e = 0
    · subst h0; simp [Nat.ModEq]
    · simp only [h0, if_false]
      have he2 : e / 2 < 2 ^ f := by
        rw [Nat.div_lt_iff_lt_mul (by norm_num)]; rw [pow_succ] at he; exact he
      refine (ih _ _ _ he2).trans ?_
      have hb : (b * b % m) ^ (e / 2) ≡ b ^ (2 * (e / 2)) [MOD m] := by
        rw [pow_mul]
        exact (Nat.mod_modEq _ _).pow _ |>.trans (by rw [pow_two])
      by_cases hodd : e % 2 = 1
      · simp only [hodd, if_true]
        have e1 : e = 2 * (e / 2) + 1 := by omega
        calc acc * b % m * (b * b % m) ^ (e / 2)
            ≡ acc * b * b ^ (2 * (e / 2)) [MOD m] := (Nat.mod_modEq _ _).mul hb
          _ = acc * b ^ (2 * (e / 2) + 1) := by ring
          _ = acc * b ^ e := by rw [← e1]
      · simp only [hodd, if_false]
        have e1 : e = 2 * (e / 2) := by omega
        calc acc * (b * b % m) ^ (e / 2) ≡ acc * b ^ (2 * (e / 2)) [MOD m] := Nat.ModEq.mul_left _ hb
          _ = acc * b ^ e := by rw [← e1]

theorem powmodAux_reduced (m : Nat) : ∀ f acc b e, acc % m = acc →
    powmodAux f acc b e m % m = powmodAux f acc b e m := by
  intro f
  induction f with
  | zero => intro acc b e h; simpa [powmodAux] using h
  | succ f ih =>
    intro acc b e h
    unfold powmodAux
    split
    · exact h
    · apply ih
      split
      · exact Nat.mod_mod _ _
      · exact h

/-- `powmod a e m = a^e mod m` for every exponent below 2^64. -/
theorem powmod_eq (a e m : Nat) (he : e < 2 ^ 64) : powmod a e m = a ^ e % m := by
  unfold powmod
  have h1 := powmodAux_modEq m 64 (1 % m) (a % m) e he
  have h2 := powmodAux_reduced m 64 (1 % m) (a % m) e (Nat.mod_mod _ _)
  have h3 : 1 % m * (a % m) ^ e ≡ a ^ e [MOD m] := by
    have := ((Nat.mod_modEq 1 m).mul ((Nat.mod_modEq a m).pow e))
    simpa using this
  rw [← h2]
  exact h1.trans h3

/-! ### nearest-row selection -/

theorem nearestAux_mem (num den : Nat) : ∀ (rs : List (Nat × Nat × Nat)) (best : Nat × Nat × Nat),
    nearestAux num den best rs ∈ best :: rs := by
  intro rs
  induction rs with
  | nil => intro best; simp [nearestAux]
  | cons r rs ih =>
    intro best
    unfold nearestAux
    split
    · have := ih r; simp only [List.mem_cons] at this ⊢; tauto
    · have := ih best; simp only [List.mem_cons] at this ⊢; tauto

/-- the selected row minimises the distance to `num/den` -/
theorem nearestAux_min (num den : Nat) : ∀ (rs : List (Nat × Nat × Nat)) (best : Nat × Nat × Nat),
    ∀ r ∈ best :: rs, absDiff ((nearestAux num den best rs).1 * den) num ≤ absDiff (r.1 * den) num := by
  intro rs
  induction rs with
  | nil => intro best r hr; simp [nearestAux] at hr ⊢; subst hr; exact le_refl _
  | cons x rs ih =>
    intro best r hr
    unfold nearestAux
    split
    · next hlt =>
      have h := ih x
      rcases List.mem_cons.1 hr with rfl | hr'
      · exact le_trans (h x (by simp)) (le_of_lt hlt)
      · exact h r hr'
    · next hge =>
      have h := ih best
      rcases List.mem_cons.1 hr with rfl | hr'
      · exact h r (by simp)
      · rcases List.mem_cons.1 hr' with rfl | hr''
        · exact le_trans (h best (by simp)) (by omega)
        · exact h r (by simp [hr''])

theorem nearestRow_spec (t : List (Nat × Nat × Nat)) (ht : t ≠ []) (num den : Nat) :
    ∃ row, nearestRow t num den = some row ∧ row ∈ t ∧
      ∀ r ∈ t, absDiff (row.1 * den) num ≤ absDiff (r.1 * den) num := by
  cases t with
  | nil => exact absurd rfl ht
  | cons r rs =>
    exact ⟨_, rfl, nearestAux_mem num den rs r, nearestAux_min num den rs r⟩

/-! ### lifting helpers -/

theorem cmul_some {w a b : Nat} (h : a * b < 2 ^ w) : cmul w a b = some (a * b) := by simp [cmul, h]
theorem csub_some {a b : Nat} (h : b ≤ a) : csub a b = some (a - b) := by simp [csub, h]
theorem cadd_some {w a b : Nat} (h : a + b < 2 ^ w) : cadd w a b = some (a + b) := by simp [cadd, h]
theorem cdiv_some {a b : Nat} (h : b ≠ 0) : cdiv a b = some (a / b) := by simp [cdiv, h]

theorem Holds.imp {α} {o : Option α} {p q : α → Prop} (h : Holds o p) (hpq : ∀ a, p a → q a) : Holds o q := by
  obtain ⟨a, ha, hp⟩ := h; exact ⟨a, ha, hpq a hp⟩

/-- `B < 2^24` and `D ≤ 2^16` give `B·B·D < 2^64` (the double-large-prime bound fits `u64`). -/
theorem double_bound_fits (B D : Nat) (hB : B < 2 ^ 24) (hD : D ≤ 2 ^ 16) : B * B * D < 2 ^ 64 := by
  have h1 : B * B ≤ (2 ^ 24 - 1) * (2 ^ 24 - 1) := Nat.mul_le_mul (by omega) (by omega)
  calc B * B * D ≤ (2 ^ 24 - 1) * (2 ^ 24 - 1) * 2 ^ 16 := Nat.mul_le_mul h1 hD
    _ < 2 ^ 64 := by norm_num

end Ymq.Checked
