/-
Model of `ecm::ecm_curve` (src/ecm.rs), one curve run end to end: stage 1, the gcd checks between the
blocks, `assert!(c.is_valid(&g))`, the baby steps (`gaps` table walk), the giant steps, the batch
normalisation of the `y` coordinates, the accumulated product of differences (direct for `d1 < 4000`,
through `Poly::roots_eval` otherwise), the final `check_gcd_factor`, and what is returned.

Nothing is copied: the point operations are parameters (`Ops`; the driver instantiates them with the
translated formulas of Gen/Curves.lean, the theorems with a group law), the scalar multiplications are the
chain interpreters of Model/Chain.lean, the normalisation is `ExpModn.ynorm`, the exponent blocks are
`SmoothBase.new`, the stage-2 parameters `Stage2.stage2Select`, and `check_gcd_factor` / `Poly::roots_eval`
are parameters of `Env` (models: `ExpModn.checkGcdFactor`, C16; `PolySpec.rootsEval`, C10).

`none` = a Rust panic (assert, index out of range, `u64` underflow of `b - bexp` / `gap / 2 - 1`).
No Mathlib import: linked into the native driver.
-/
import Ymq.Model.Chain
import Ymq.Model.ExpModn
import Ymq.Model.SmoothBase
import Ymq.Gen.Stage2

namespace Ymq.EcmCurve
open Ymq.Chain

/-- the point operations of `Curve` that `ecm_curve` calls -/
structure Ops (P E : Type) where
  /-- `Point(0, 1, 1)` (returned by the chain multiplications for a zero scalar) -/
  zero : P
  /-- `to_extended` -/
  toExt : P → E
  /-- `ExtPoint::to_proj` -/
  toProj : E → P
  double : P → P
  dblext : P → E
  addext : E → E → E
  /-- `addextproj` -/
  addp : E → E → P
  /-- `subextproj` -/
  subp : E → E → P

/-- `Curve { twisted, d, .. }` as point operations: the formulas translated from the source (Gen/Curves.lean) -/
def curveOps {R : Type} [Add R] [Sub R] [Mul R] [Zero R] [One R] [NatCast R] (d : R) (tw : Bool) :
    Ops (Ymq.Gen.Curves.Pt R) (Ymq.Gen.Curves.Ext R) where
  zero := ⟨0, 1, 1⟩
  toExt := Ymq.Gen.Curves.ecmToExtended d tw
  toProj := Ymq.Gen.Curves.Ext.toProj
  double := Ymq.Gen.Curves.ecmDouble d tw
  dblext := Ymq.Gen.Curves.ecmDblext d tw
  addext := Ymq.Gen.Curves.ecmAddext d tw
  addp := Ymq.Gen.Curves.ecmAddextproj d tw
  subp := Ymq.Gen.Curves.ecmSubextproj d tw

section
variable {P E X : Type}

/-- `c.scalar64_chainmul(k, &p)` -/
def Ops.mul64 (o : Ops P E) (k : Nat) (p : P) : Option P :=
  scalar64Chainmul o.zero o.toExt o.toProj o.double o.dblext o.addext o.addp o.subp k p

/-- `c.scalar1024_chainmul(&k, &p)` -/
def Ops.mul1024 (o : Ops P E) (k : Nat) (p : P) : Option P :=
  scalar1024Chainmul o.zero o.toExt o.toProj o.double o.dblext o.addext o.addp o.subp k p

/-! ### stage 1 -/

/-- `for &f in block { g = c.scalar..chainmul(f, &g); gxs.push(g.0) }`: the final point and the pushed
coordinates -/
def mulBlock (mul : Nat → P → Option P) (xOf : P → X) : List Nat → P → Option (P × List X)
  | [], g => some (g, [])
  | f :: fs, g =>
    match mul f g with
    | none => none
    | some g' =>
      match mulBlock mul xOf fs g' with
      | none => none
      | some (g'', xs) => some (g'', xOf g' :: xs)

/-- `slice.chunks(k)` (fuel = length) -/
def chunksAux {α : Type} (k : Nat) : Nat → List α → List (List α)
  | 0, _ => []
  | f + 1, l => if l.isEmpty then [] else l.take k :: chunksAux k f (l.drop k)

def chunks {α : Type} (k : Nat) (l : List α) : List (List α) := chunksAux k l.length l

/-- `const GCD_INTERVAL: usize = 1000` -/
def gcdInterval : Nat := 1000

/-- outcome of a part of the routine: panic, `return r`, or go on with a value -/
inductive Step (α : Type) where
  | panic
  | ret (r : Option (Nat × Nat))
  | go (v : α)

/-- `if let Some(d) = check_gcd_factor(n, &gxs) { return Some((d, n / d)) }` -/
def checked {α : Type} (n : Nat) (check : List X → Option (Option Nat)) (xs : List X) (k : Step α) : Step α :=
  match check xs with
  | none => .panic
  | some (some d) => if d = 0 then .panic else .ret (some (d, n / d))
  | some none => k

/-- `for block in sb.factors.chunks(GCD_INTERVAL) { .. }` entered with the point `g` and `last_gx` -/
def stage1Blocks (n : Nat) (mul : Nat → P → Option P) (xOf : P → X) (check : List X → Option (Option Nat)) :
    List (List Nat) → P → X → Step P
  | [], g, _ => .go g
  | blk :: rest, g, lastx =>
    match mulBlock mul xOf blk g with
    | none => .panic
    | some (g', xs) => checked n check (lastx :: xs) (stage1Blocks n mul xOf check rest g' (xOf g'))

/-- stage 1 of `ecm_curve`: the 64-bit blocks in chunks of 1000 with a gcd after each chunk, then the
1024-bit blocks and one more gcd -/
def stage1 (o : Ops P E) (n : Nat) (xOf : P → X) (one : X) (check : List X → Option (Option Nat))
    (factors larges : List Nat) (g : P) : Step P :=
  match stage1Blocks n o.mul64 xOf check (chunks gcdInterval factors) g one with
  | .panic => .panic
  | .ret r => .ret r
  | .go g1 =>
    match mulBlock o.mul1024 xOf larges g1 with
    | none => .panic
    | some (g2, xs) => checked n check (xOf g1 :: xs) (.go g2)

/-- the point stage 1 reaches when no gcd check fires: all blocks applied in order -/
def stage1Point (o : Ops P E) (factors larges : List Nat) (g : P) : Option P :=
  match mulBlock o.mul64 (fun _ => ()) factors g with
  | none => none
  | some (g1, _) => (mulBlock o.mul1024 (fun _ => ()) larges g1).map (·.1)

/-! ### stage 2: baby steps -/

/-- `for b in 1..d1 / 2 { if gcd(b, d1) == 1 { bs.push(b) } }` -/
def babyIdx (d1 : Nat) : List Nat :=
  ((List.range (d1 / 2)).filter (fun b => 1 ≤ b && Nat.gcd b d1 == 1))

/-- `while gaps.len() < gap / 2 { gaps.push(c.addext(&gaps[0], &gaps[gaps.len() - 1])) }` (fuel: target + 1) -/
def growGaps (addext : E → E → E) : Nat → List E → Nat → Option (List E)
  | 0, _, _ => none
  | f + 1, gaps, tgt =>
    if gaps.length < tgt then
      match gaps.head?, gaps.getLast? with
      | some a, some b => growGaps addext f (gaps ++ [addext a b]) tgt
      | _, _ => none
    else some gaps

/-- `for &b in &bs[1..] { gap = b - bexp; ..; bg = c.addext(&bg, &gaps[gap / 2 - 1]); steps.push(bg.to_proj()); bexp = b }` -/
def babyLoop (o : Ops P E) : List Nat → Nat → E → List E → Option (List P)
  | [], _, _, _ => some []
  | b :: bs, bexp, bg, gaps =>
    if b < bexp then none else                       -- b - bexp
    let gap := b - bexp
    match growGaps o.addext (gap / 2 + 1) gaps (gap / 2) with
    | none => none
    | some gaps' =>
      if gap / 2 = 0 then none else                  -- gap / 2 - 1
      match gaps'[gap / 2 - 1]? with
      | none => none
      | some e =>
        let bg' := o.addext bg e
        match babyLoop o bs b bg' gaps' with
        | none => none
        | some r => some (o.toProj bg' :: r)

/-- the baby steps: `assert_eq!(bs[0], 1)`, `steps.push(g)`, then the walk over `bs[1..]` from
`gaps = [to_extended(2g), to_extended(4g)]`, `bg = to_extended(g)` -/
def babySteps (o : Ops P E) (d1 : Nat) (g : P) : Option (List P) :=
  match babyIdx d1 with
  | [] => none
  | b0 :: rest =>
    if b0 ≠ 1 then none else
    let g2 := o.double g
    let g4 := o.double g2
    (babyLoop o rest 1 (o.toExt g) [o.toExt g2, o.toExt g4]).map (g :: ·)

/-! ### stage 2: giant steps -/

/-- `for _ in 2..d2 { gg = c.addext(&gg, &dgext); steps.push(gg.to_proj()) }` (`cnt` iterations) -/
def giantLoop (o : Ops P E) (dgext : E) : Nat → E → List P
  | 0, _ => []
  | k + 1, gg => let gg' := o.addext gg dgext; o.toProj gg' :: giantLoop o dgext k gg'

/-- `dg = scalar64_chainmul(d1, g)`, `dg2 = double(dg)`, pushed; then the loop from `to_extended(dg2)` -/
def giantSteps (o : Ops P E) (d1 d2 : Nat) (g : P) : Option (List P) :=
  match o.mul64 d1 g with
  | none => none
  | some dg =>
    let dg2 := o.double dg
    some (dg :: dg2 :: giantLoop o (o.toExt dg) (d2 - 2) (o.toExt dg2))

/-- multiples of `d1` the giant steps hold, in order -/
def giantIdx (d2 : Nat) : List Nat := 1 :: 2 :: (List.range (d2 - 2)).map (· + 3)

/-! ### stage 2: products of differences -/

/-- `for pb in bsteps { buffer = buffer * (pg.y - pb.y) }` -/
def rowProd (mul sub : X → X → X) (pgy : X) : List X → X → X
  | [], buf => buf
  | pby :: t, buf => rowProd mul sub pgy t (mul buf (sub pgy pby))

/-- `for pg in gsteps { ..row..; prods.push(buffer) }`: the pushed values -/
def prodRows (mul sub : X → X → X) (bys : List X) : List X → X → List X
  | [], _ => []
  | pgy :: t, buf => let buf' := rowProd mul sub pgy bys buf; buf' :: prodRows mul sub bys t buf'

/-- `for i in 0..vals.len() { v = vals[i]; vals[i] = prod; prod = prod * v }; vals.push(prod)` -/
def cumProds (mul : X → X → X) : List X → X → List X
  | [], prod => [prod]
  | v :: t, prod => prod :: cumProds mul t (mul prod v)

/-- what `ecm_curve` needs besides the point operations -/
structure Env (P E X : Type) where
  ops : Ops P E
  /-- `zn.n` -/
  n : Nat
  /-- `g.0` -/
  xOf : P → X
  /-- `(p.1, p.2)` -/
  yz : P → X × X
  one : X
  mul : X → X → X
  sub : X → X → X
  /-- `c.is_valid(&g)` -/
  valid : P → Bool
  /-- `check_gcd_factor(n, values)`; `none` = panic -/
  check : List X → Option (Option Nat)
  /-- `Poly::roots_eval(zn, pgs, pbs)`; `none` = panic -/
  rootsEval : List X → List X → Option (List X)

/-- the normalised `y` coordinates of `steps` (forward and backward pass) -/
def normY (mul : X → X → X) (steps : List (X × X)) : List X := (Ymq.ExpModn.ynorm mul steps).map (·.1)

/-- stage 2 of `ecm_curve` from the point `g` reached by stage 1 -/
def stage2 (env : Env P E X) (d1 d2 : Nat) (g : P) : Option (Option (Nat × Nat)) :=
  match babySteps env.ops d1 g with
  | none => none
  | some bsteps =>
    match giantSteps env.ops d1 d2 g with
    | none => none
    | some gsteps =>
      let ys := normY env.mul ((bsteps ++ gsteps).map env.yz)
      let bys := ys.take bsteps.length
      let gys := ys.drop bsteps.length
      let vals? : Option (List X) :=
        if d1 < 4000 then some (env.one :: prodRows env.mul env.sub bys gys env.one)
        else (env.rootsEval gys bys).map fun vals => cumProds env.mul vals env.one
      match vals? with
      | none => none
      | some vals =>
        match env.check vals with
        | none => none
        | some (some d) => if d = 0 then none else some (some (d, env.n / d))
        | some none => some none

/-- `ecm_curve(sb, zn, c, b2)` for `sb = (factors, larges)`, `stage2_params(b2) = (_, d1, d2)`, `c.gen() = g`:
`none` = panic, `some r` = the value returned -/
def ecmCurve (env : Env P E X) (factors larges : List Nat) (d1 d2 : Nat) (g : P) : Option (Option (Nat × Nat)) :=
  match stage1 env.ops env.n env.xOf env.one env.check factors larges g with
  | .panic => none
  | .ret r => some r
  | .go g1 =>
    if !env.valid g1 then none else                  -- assert!(c.is_valid(&g))
    stage2 env d1 d2 g1

/-- the call as `ecm()` makes it: `SmoothBase::new(b1, true)` and `stage2_params(b2)` for an integral `b2` -/
def ecmCurveB (env : Env P E X) (b1 b2 : Nat) (g : P) : Option (Option (Nat × Nat)) :=
  match Ymq.SmoothBase.new b1 true, Ymq.Gen.Stage2.stage2Select b2 1 with
  | some (factors, larges), some (_, d1, d2) => ecmCurve env factors larges d1 d2 g
  | _, _ => none

end

end Ymq.EcmCurve
