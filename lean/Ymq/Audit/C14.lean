import Ymq.Props.C14
#print axioms Ymq.C14.gauss_inv
#print axioms Ymq.C14.gauss_total
#print axioms Ymq.C14.gauss_kernel
#print axioms Ymq.C14.gauss_independent
#print axioms Ymq.C14.gauss_count
#print axioms Ymq.C14.qs_optimize_same_matrix
#print axioms Ymq.C14.optMul_few_rows
#print axioms Ymq.C14.block_product_rotation
#print axioms Ymq.C14.lanczos_final
#print axioms Ymq.C14.lanczos_final_total
