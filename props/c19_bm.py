"""C19 / Berlekamp-Massey — helper module for props/c19.py.

`berlekamp_massey(p, seq)` and `berlekamp_massey_big::<U256, U512>(p, seq)` of matrix/intsparse.rs
(the linear-recurrence finder behind SparseMat::_detp4 / detz / ker_pbig).
Request lines: `bm <p> <s0,s1,...>` and `bm_big <p> <s0,...>` -> `panic` | `-` | `c0,c1,...`
(harness/src/ops_bm.rs, lean/Ymq/Drv/BerlekampMassey.lean).

Wiring (props/c19.py): `import props.c19_bm as bm`;
  cases:        `yield from bm.cases(tier, rng, extended)`   (a list of Case; K restricted to the chk profile outside the proved domain)
  oracle:       `if case.op in bm.OPS: return bm.oracle(case, ans)`
  klass:        `if case.op in bm.OPS: return bm.klass(case, ans)`
  nontrivial:   `if case.op in bm.OPS: return bm.nontrivial(case, ans)`
  finding_key:  `if case.op in bm.OPS: return bm.finding_key(case, ans, profile)`
  LEAN += bm.LEAN; THEOREMS += bm.THEOREMS; MODELLED += bm.MODELLED; UNMODELLED += bm.UNMODELLED; RULE += bm.RULE_BM;
  audit: copy the `#print axioms` lines of lean/Ymq/Audit/C19BM.lean (and its import) into lean/Ymq/Audit/C19.lean;
  corpus: copy corpus/C19_BM/witnesses.txt to corpus/C19/bm.txt.
  known_findings.json: the oracle reports the panics on the empty sequence and on [a,0,...,0] under the recorded key
  `sparse-det-degenerate-sequence-panic`, and wrong release answers for primes >= 2^63 under the new key
  `bm-64bit-prime-wrong-in-release`.
The module also runs on its own: `./check C19_BM` (then the two finding classes above show up as VIOLATION because
known_findings.json lists findings per property id).
"""
import itertools
from vlib.pipeline import Case
from vlib import gen

OPS = ("bm", "bm_big")
LEAN = ["Ymq.Props.C19BM"]
AUDIT = "Ymq.Audit.C19BM"
THEOREMS = ["Ymq.C19BM." + t for t in (
    "bm_montgomery_ops bm_big_ops bm_invariant_init bm_invariant bm_sound bm_big_sound bm_window_not_from_degree "
    "bm_degree_bound_tight bm_no_panic_iff bm_big_no_panic_iff bm_empty_iff bm_big_empty_iff bm_no_panic bm_big_no_panic "
    "bm_no_panic_recurrence bm_minimal bm_big_minimal bm_panic_empty bm_panic_single_term bm_panic_zero_constant_term").split()]
W = 1 << 64
LIM64 = 1 << 63          # the Montgomery variant is proved for odd primes below 2^63
LIM256 = 1 << 255        # the big variant is proved for primes below 2^244 (inv_mod); subp needs p < 2^255


def lst(v):
    return ",".join(map(str, v)) if v else "-"


# ======================================================================================
# independent arithmetic: textbook Berlekamp-Massey, linear systems mod p
# ======================================================================================

def textbook_bm(seq, p):
    """Massey's algorithm: (L, C) with C[0] = 1, len(C) = L + 1, sum_j C[j] s[i-j] = 0 for L <= i < n."""
    C, B = [1], [1]
    L, m, b = 0, 1, 1
    for i, s in enumerate(seq):
        d = s
        for j in range(1, L + 1):
            d += C[j] * seq[i - j]
        d %= p
        if d == 0:
            m += 1
            continue
        coef = d * pow(b, -1, p) % p
        T = C[:]
        if len(C) < len(B) + m:
            C = C + [0] * (len(B) + m - len(C))
        for j, bj in enumerate(B):
            C[j + m] = (C[j + m] - coef * bj) % p
        if 2 * L <= i:
            L, B, b, m = i + 1 - L, T, d, 1
        else:
            m += 1
    C = (C + [0] * (L + 1))[:L + 1]
    return L, C


def conv_at(c, s, i, p):
    return sum(c[j] * s[i - j] for j in range(min(i, len(c) - 1) + 1)) % p


def has_connection_poly(seq, p):
    """Is there t with t(0) = 1, deg t <= n - n//2 and sum_j t_j s_{i-j} = 0 (mod p) for n//2 <= i < n ?
    (Gaussian elimination; independent of the algorithm under test.)"""
    n = len(seq)
    h, k = n - n // 2, n // 2
    # unknowns t_1..t_h ; equation i: sum_{j=1..h} t_j s_{i-j} = -s_i
    rows = []
    for i in range(k, n):
        rows.append([(seq[i - j] if i - j >= 0 else 0) % p for j in range(1, h + 1)] + [(-seq[i]) % p])
    r = 0
    for c in range(h):
        piv = next((i for i in range(r, len(rows)) if rows[i][c]), None)
        if piv is None:
            continue
        rows[r], rows[piv] = rows[piv], rows[r]
        inv = pow(rows[r][c], -1, p)
        rows[r] = [x * inv % p for x in rows[r]]
        for i in range(len(rows)):
            if i != r and rows[i][c]:
                m = rows[i][c]
                rows[i] = [(x - m * y) % p for x, y in zip(rows[i], rows[r])]
        r += 1
    return all(any(row[:-1]) or row[-1] == 0 for row in rows)


# ======================================================================================
# a plain-residue replica of the Rust loop, used only to classify branches (klass)
# ======================================================================================

def replica(p, seq, two=True):
    """returns (result, info): result in {"panic", [], list}; info = dict(swaps, one, two, turns, why)"""
    info = dict(swaps=0, one=0, two=0, turns=0, why="")
    n = len(seq)
    if n == 0:
        info["why"] = "empty"
        return "panic", info
    f = [x % p for x in seq]
    df = n - 1
    while f[df] == 0 and df > 0:
        df -= 1
    if f[df] == 0:
        info["why"] = "zero-seq"
        return [], info
    if df == 0:
        info["why"] = "single-term"
        return "panic", info
    u = [0] * n
    u[0] = 1
    du = 0
    v = [0] * n
    v[n - df] = 1
    dv = n - df
    g = [0] * (n - df) + f[:df]
    dg = n - 1
    while g[dg] == 0 and dg > 0:
        dg -= 1
    if g[dg] == 0:
        info["why"] = "monomial"
        return [], info
    for _ in range(2 * n):
        info["turns"] += 1
        if df > dg:
            u, v, du, dv, f, g, df, dg = v, u, dv, du, g, f, dg, df
            info["swaps"] += 1
        if df < n // 2:
            if u[0] == 0:
                info["why"] = "u0=0"
                return "panic", info
            q = pow(u[0], -1, p)
            info["why"] = "return"
            return [x * q % p for x in u], info
        inv = pow(f[df], -1, p)
        if two and dg > df and df > 1:
            info["two"] += 1
            q1 = g[dg] * inv % p
            q0 = (g[dg - 1] - q1 * f[df - 1]) * inv % p
            d = dg - df - 1
            for i in range(df + 1):
                g[i + d] = (g[i + d] - q0 * f[i]) % p
                g[i + d + 1] = (g[i + d + 1] - q1 * f[i]) % p
            for i in range(du + 1):
                v[i + d] = (v[i + d] - q0 * u[i]) % p
                v[i + d + 1] = (v[i + d + 1] - q1 * u[i]) % p
            top = du + d + 1
        else:
            info["one"] += 1
            q = g[dg] * inv % p
            d = dg - df
            for i in range(df + 1):
                g[i + d] = (g[i + d] - q * f[i]) % p
            for i in range(du + 1):
                v[i + d] = (v[i + d] - q * u[i]) % p
            top = du + d
        for i in range(dv, top + 1):
            if v[i] != 0:
                dv = i
        while g[dg] == 0 and dg > 0:
            dg -= 1
    info["why"] = "unreachable"
    return "panic", info


# ======================================================================================
# generators
# ======================================================================================

def small_exhaustive(maxlen, primes=(3, 5, 7)):
    for p in primes:
        for n in range(0, maxlen + 1):
            for seq in itertools.product(range(p), repeat=n):
                yield p, list(seq)


def lfsr(rng, p, order, length, zero_const=False, init=None):
    taps = [rng.randrange(p) for _ in range(order)]
    taps[-1] = 0 if zero_const else rng.randrange(1, p)
    seq = list(init) if init is not None else [rng.randrange(p) for _ in range(order)]
    seq = seq[:length]
    while len(seq) < length:
        seq.append(sum(t * seq[-1 - j] for j, t in enumerate(taps)) % p)
    return seq


_PRIMES = {}


def bm_primes():
    if not _PRIMES:
        _PRIMES["small"] = [3, 5, 7, 65537, (1 << 31) - 1, (1 << 61) - 1]
        _PRIMES["62"] = [gen.prev_prime(1 << 62), gen.prev_prime(gen.prev_prime(1 << 62))]
        _PRIMES["63"] = [gen.prev_prime(1 << 63), gen.prev_prime(gen.prev_prime(1 << 63))]
        _PRIMES["64"] = [gen.next_prime(1 << 63), gen.prev_prime(1 << 64)]       # outside the proved domain
        _PRIMES["big"] = [(1 << 89) - 1, (1 << 127) - 1, gen.prev_prime(1 << 182), gen.prev_prime(1 << 243)]
        # outside the proved domain of the U256 variant: inv_mod::<4> above 2^244, `*a + p` overflows U256 above 2^255
        _PRIMES["bigout"] = [gen.prev_prime(1 << 250), gen.next_prime(1 << 255), gen.prev_prime(1 << 256)]
    return _PRIMES


def in_domain(op, p, seq):
    """the hypotheses of the theorems: p an odd prime below the bound of the variant, residues reduced"""
    if p < 3 or p % 2 == 0 or any(x >= p for x in seq):
        return False
    if op == "bm":
        return p < LIM64 and gen.is_prime(p)
    return p < (1 << 244) and gen.is_prime(p)


def mk(op, p, seq, tag=""):
    """K in both profiles inside the proved domain; outside it (p >= 2^63, even p, unreduced residues) the release
    profile wraps where the checked profile (which the model follows) panics: K on chk only, release is oracle-only."""
    line = f"{op} {p} {lst(seq)}"
    if in_domain(op, p, seq):
        return [Case(line, tag=tag)]
    if p % 2 == 0 and op == "bm":
        # mg_2adic_inv does not terminate in release for an even modulus (wrapping arithmetic): chk only
        return [Case(line, tag=tag, profiles=["chk"])]
    return [Case(line, tag=tag, profiles=["chk"]), Case(line, k=False, tag=tag, profiles=["release"])]


def cases(tier, rng, extended=False):
    P = bm_primes()
    scale = 1 if tier == "quick" else 6
    if extended:
        scale *= 3
    out = []
    # --- exhaustive short sequences
    maxlen = 6 if tier == "quick" else 7
    for p, seq in small_exhaustive(maxlen):
        if p == 7 and len(seq) > (5 if tier == "quick" else 6):
            continue
        out += mk("bm", p, seq, "exh")
        if len(seq) <= 4:
            out += mk("bm_big", p, seq, "exh")
    # --- lengths 0..3 for every prime class, boundary values
    for p in P["small"] + P["62"] + P["63"] + P["64"]:
        for n in range(0, 4):
            for _ in range(2):
                seq = [rng.choice([0, 1, p - 1, rng.randrange(p)]) for _ in range(n)]
                out += mk("bm", p, seq, "short")
    for p in P["big"] + [3, 65537]:
        for n in range(0, 4):
            seq = [rng.choice([0, 1, p - 1, rng.randrange(p)]) for _ in range(n)]
            out += mk("bm_big", p, seq, "short")
    # --- random LFSR sequences
    allp = P["small"] + P["62"] + P["63"] + P["64"]
    for _ in range(60 * scale):
        p = rng.choice(allp)
        order = rng.choice([1, 1, 2, 2, 3, 4, 5, 6, 8, 10, 13, 17, 24, 31, 40])
        if tier == "quick" and order > 24 and rng.randrange(3):
            order = rng.randrange(1, 12)
        length = rng.randrange(2 * order, 4 * order + 4)
        zc = rng.randrange(5) == 0
        seq = lfsr(rng, p, order, length, zero_const=zc)
        out += mk("bm", p, seq, f"lfsr {order}")
        if rng.randrange(4) == 0:
            out += mk("bm_big", p, seq, f"lfsr {order}")
    for _ in range(12 * scale):
        p = rng.choice(P["big"])
        order = rng.choice([1, 2, 3, 5, 8, 12, 20])
        length = rng.randrange(2 * order, 4 * order + 4)
        seq = lfsr(rng, p, order, length, zero_const=rng.randrange(5) == 0)
        out += mk("bm_big", p, seq, f"lfsr {order}")
    # --- Wiedemann-shaped: s_0 = 1 (the start vector of _detp4 has v[0] = 1), length 2*order
    for _ in range(20 * scale):
        p = rng.choice(allp[3:])
        order = rng.randrange(1, 16)
        init = [1] + [rng.randrange(p) for _ in range(order - 1)]
        seq = lfsr(rng, p, order, 2 * order, zero_const=rng.randrange(3) == 0, init=init)
        out += mk("bm", p, seq, f"lfsr {order}")
    # --- too short for the recurrence (2*order > length): the u[0] = 0 assertion and odd shapes live here
    for _ in range(30 * scale):
        p = rng.choice([3, 5, 7, 65537, (1 << 61) - 1])
        n = rng.randrange(2, 14)
        seq = [rng.randrange(p) if rng.randrange(3) else 0 for _ in range(n)]
        out += mk("bm", p, seq, "rand")
        if rng.randrange(3) == 0:
            out += mk("bm_big", p, seq, "rand")
    # --- runs of zeros at either end, sparse sequences
    for _ in range(40 * scale):
        p = rng.choice(allp)
        order = rng.randrange(1, 9)
        body = lfsr(rng, p, order, rng.randrange(2 * order, 3 * order + 3))
        a, b = rng.choice([0, 0, 1, 2, 5]), rng.choice([0, 1, 1, 2, 3, len(body)])
        seq = [0] * a + body + [0] * b
        out += mk("bm", p, seq, "zeros")
        if rng.randrange(4) == 0:
            out += mk("bm_big", p, seq, "zeros")
        # s_k = -a s_{k-2} from (1, 0): every other term vanishes, last term zero (the c49b2c6 shape)
        a2 = rng.randrange(1, p)
        sq = [1, 0]
        while len(sq) < 2 * order + 2:
            sq.append((-a2 * sq[-2]) % p)
        out += mk("bm", p, sq, "zeros")
        out += mk("bm_big", p, sq, "zeros")
    # --- the recorded panic shapes
    for p in [3, 65537, (1 << 61) - 1]:
        for n in range(1, 6):
            out += mk("bm", p, [rng.randrange(1, p)] + [0] * (n - 1), "single-term")
            out += mk("bm_big", p, [rng.randrange(1, p)] + [0] * (n - 1), "single-term")
            for k in range(1, n):
                out += mk("bm", p, [0] * k + [rng.randrange(1, p)] + [0] * (n - 1 - k), "monomial")
        out += mk("bm", p, [1, 0, 0, 1], "u0")
        out += mk("bm_big", p, [1, 0, 0, 1], "u0")
    # --- outside the proved domain: p >= 2^63 (u128 sum of dotp), even / composite p, unreduced residues
    for _ in range(10 * scale):
        p = rng.choice(P["64"])
        order = rng.randrange(2, 8)
        out += mk("bm", p, lfsr(rng, p, order, 2 * order + rng.randrange(3)), f"lfsr {order}")
    # (an even modulus m makes mg_2adic_inv spin 2^64 / (2-part of m) times before it underflows: only moduli
    # with a large 2-part are usable as test inputs; the model answers `panic` for every even modulus)
    for _ in range(8 * scale):
        p = rng.choice(P["bigout"])
        order = rng.randrange(1, 6)
        out += mk("bm_big", p, lfsr(rng, p, order, 2 * order + rng.randrange(3)), f"lfsr {order}")
    for p in [0, 1, 1 << 63, 3 << 62, 9, 15, 65537 * 3]:
        for _ in range(2):
            n = rng.randrange(2, 7)
            out += mk("bm", p, [rng.randrange(max(p, 1)) for _ in range(n)], "badp")
            out += mk("bm_big", p, [rng.randrange(max(p, 1)) for _ in range(n)], "badp")
    for _ in range(6 * scale):
        p = rng.choice([3, 7, 65537])
        n = rng.randrange(2, 8)
        out += mk("bm", p, [rng.randrange(W) if rng.randrange(2) else rng.randrange(p) for _ in range(n)], "unreduced")
    return out


# ======================================================================================
# oracle
# ======================================================================================

def parse(case):
    a = case.args
    p = int(a[0])
    seq = [] if a[1] == "-" else [int(x) for x in a[1].split(",")]
    return p, seq


def oracle(case, ans):
    """Specification (independent of the algorithm): a returned vector is a connection polynomial of the sequence on the
    window n/2 <= i < n (constant term 1, degree <= n - n/2, reduced), minimal when the sequence determines it; the empty
    vector is acceptable only for a sequence with at most one non-zero term; a panic is acceptable only when no
    connection polynomial exists (decided by Gaussian elimination). The panics on the empty sequence and on [a,0,...,0]
    are failures (recorded finding sparse-det-degenerate-sequence-panic, see finding_key)."""
    p, seq = parse(case)
    n = len(seq)
    if ans in ("hang", "abort"):
        return f"{ans}"
    dom = in_domain(case.op, p, seq)
    panic = ans == "panic" or ans.startswith("panic ")
    if not dom:
        # outside the hypotheses of the theorems any panic is accepted; a returned vector must still be sound
        # when p is an odd prime and the residues are reduced (p >= 2^63: release wraps, chk panics)
        if panic or p < 3 or not gen.is_prime(p) or any(x >= p for x in seq):
            return None
    nz = [i for i, x in enumerate(seq) if x % p]
    if panic:
        if n == 0:
            return "panic on the empty sequence (u[0] = 1 on an empty vector)"
        if nz == [0]:
            return "panic on the sequence [a,0,...,0] (v[n] out of range) although 1 is a connection polynomial"
        if len(nz) <= 1:
            return "panic on a sequence with at most one non-zero term"
        if has_connection_poly(seq, p):
            return "panic on an input for which a connection polynomial exists"
        return None     # assert!(u[0] != 0): no connection polynomial fits the window; nothing correct could be returned
    if ans == "-":
        return None if len(nz) <= 1 else "empty vector for a sequence with two non-zero terms"
    try:
        c = [int(x) for x in ans.split(",")]
    except ValueError:
        return f"unparsable answer {ans[:60]}"
    if len(c) != n:
        return f"length {len(c)} != {n}"
    if any(x >= p for x in c):
        return "coefficient not reduced"
    if c[0] != 1:
        return f"constant term {c[0]} != 1"
    h, k = n - n // 2, n // 2
    if any(c[j] for j in range(h + 1, n)):
        return f"degree above n - n/2 = {h}"
    for i in range(k, n):
        if conv_at(c, seq, i, p):
            return f"does not annihilate the sequence at index {i}"
    # degree of the rational reconstruction = linear complexity, when the sequence determines it (2L <= n)
    L, C = textbook_bm([x % p for x in seq], p)
    if 2 * L <= n:
        du = max(j for j in range(n) if c[j])
        fcoef = [conv_at(c, seq, i, p) for i in range(n)]
        dfp1 = max([i + 1 for i in range(n) if fcoef[i]], default=0)
        if max(du, dfp1) != L:
            return f"max(deg u, deg f + 1) = {max(du, dfp1)} but the linear complexity is {L}"
        if c[:L + 1] != C or any(c[L + 1:]):
            return f"differs from the minimal connection polynomial {C[:8]}"
    return None


def klass(case, ans):
    p, seq = parse(case)
    if not in_domain(case.op, p, seq):
        kind = "p>=2^63" if (p >= LIM64 and case.op == "bm" and p % 2 and gen.is_prime(p)) else "bad-input"
        return f"{case.op}:out-of-domain:{kind}:" + ("panic" if ans.startswith("panic") else "returns")
    res, info = replica(p, seq, two=(case.op == "bm"))
    if info["why"] in ("empty", "single-term", "u0=0", "zero-seq", "monomial", "unreachable"):
        return f"{case.op}:{info['why']}"
    shape = "first-turn" if info["turns"] == 1 else ("steps" + ("+two" if info["two"] else "") + ("+one" if info["one"] else ""))
    sw = "swap0" if info["swaps"] == 0 else ("swap1" if info["swaps"] == 1 else "swap2+")
    return f"{case.op}:return:{shape}:{sw}"


def nontrivial(case, ans):
    p, seq = parse(case)
    return len(seq) >= 2 and not ans.startswith("panic") and ans != "-"


def finding_key(case, ans, profile):
    p, seq = parse(case)
    if case.op == "bm" and p >= LIM64 and profile == "release":
        return "bm-64bit-prime-wrong-in-release"
    if not (ans == "panic" or ans.startswith("panic ")) or not in_domain(case.op, p, seq):
        return None
    nz = [i for i, x in enumerate(seq) if x % p]
    if len(seq) == 0 or nz == [0]:
        return "sparse-det-degenerate-sequence-panic"
    return None


RULE_BM = ("Berlekamp-Massey (ops bm / bm_big, K+O in both profiles): every sequence of length <= 6 over GF(3), GF(5) (<= 5 over GF(7)); lengths 0..3 "
           "with boundary residues for p in {3,5,7,65537,2^31-1,2^61-1, the two primes below 2^62 and below 2^63}; random LFSR sequences of order "
           "1..40 and length 2*order..4*order+3 (one in five with a characteristic polynomial divisible by x), Wiedemann-shaped ones (s_0 = 1, "
           "length 2*order), random sequences too short for their complexity, sequences with runs of zeros at either end and the c49b2c6 shape "
           "(1,0,-a,0,a^2,0,...), the recorded panic shapes ([a,0,..,0], monomials, [1,0,0,1]); outside the proved domain (primes >= 2^63, even / "
           "composite / zero modulus, unreduced residues) K runs against the checked profile only and the release answers are judged by the oracle.")
MODELLED = ["matrix/intsparse.rs berlekamp_massey (lines 578-701) and berlekamp_massey_big::<U256, U512> (706-800): Ymq/Model/BerlekampMassey.lean, "
            "line by line over lists of words, Montgomery closures = the Mg64/Mg64Inv models of C06/C07/C08, inv_mod::<4> = the Gcd model of C09; "
            "all 11 explicit and all implicit panic sites (indexing, unwrap, assert, debug_assert, u64/u128/U256 overflow, unreachable) are `none`"]
UNMODELLED = ["the callers of berlekamp_massey are modelled separately (props/c19_wied.py: _detp4, detz, ker_p256); the other instantiations of berlekamp_massey_big "
              "(<u64,u128>, <u128,U256>, <BUint<3>,BUint<6>>) differ only in the overflow bound of subp",
              "release-profile wrapping outside the proved domain (p >= 2^63: the u128 sum of dotp and mg_redc results above p) is not modelled; "
              "the model follows the checked profile there"]
HYPOTHESES = []   # none: the closures are discharged by mgRedc_spec / mgMul_spec / mgInv_spec (C07, C08) and inv_mod_no_panic / inv_mod_spec (C09)

# --- the module can also be run on its own: ./check C19_BM (evidence/C19_BM.json) ---
PID = "C19_BM"
GEN = []
PROFILES = ["release", "chk"]
TIMEOUT = 30.0
RULE = RULE_BM
CLAIM = ("Lean theorems about the executable model of berlekamp_massey / berlekamp_massey_big (checked profile), for every odd prime p < 2^63 "
         "(resp. prime p < 2^244) and every sequence of reduced residues: the loop invariant u*S = f, v*S = g (mod x^n) with the degree bookkeeping is "
         "established by the initialisation and preserved by every turn, and no turn reaches a panic site (bm_invariant_init, bm_invariant); a "
         "returned non-empty vector has constant term 1, degree <= n - n/2 and annihilates the sequence on n/2 <= i < n (bm_sound, bm_big_sound); the "
         "function panics exactly on the empty sequence, on [a,0,...,0] and on sequences with two non-zero terms that have no connection polynomial "
         "on that window (bm_no_panic_iff), returns the empty vector exactly on zero sequences and monomials a*x^k, k >= 1 (bm_empty_iff), and hence "
         "never panics on a sequence with two non-zero terms satisfying a recurrence of order L <= n/2 (bm_no_panic_recurrence).")
LEVEL_NOTE = ("The theorems are about the model; the K stream (model = real code, both profiles inside the domain) ties it to the code. Outside the "
              "domain (p >= 2^63) the release build returns wrong polynomials silently (finding bm-64bit-prime-wrong-in-release).")
TECHNIQUE = "Lean 4 proof about a hand model + differential correspondence check + spec oracle"
