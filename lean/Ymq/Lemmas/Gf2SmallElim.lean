/-
C14 "small", helper lemmas part 4 (Mathlib): the forward elimination shared by `pseudoinverse` and
`inverse` (`elimCol`) and the row reduction of their second phase, on the functions
`m k = m.0[k]`, `c k = minv.0[k]`.  `S` is the set of indices the matrix lives on (everything for
`inverse`, the mask for `pseudoinverse`).
-/
import Ymq.Lemmas.Gf2SmallRank

namespace Ymq.Gf2Small
open Matrix Module

theorem add_self_zmod2 {α : Type} [AddCommGroup α] [Module (ZMod 2) α] (v : α) : v + v = 0 := by
  rw [← two_smul (ZMod 2), show (2 : ZMod 2) = 0 from by decide, zero_smul]

/-- invariant of the forward elimination before column `b`: the columns `s < b` of `S` are done -/
structure FInv (n : Nat) (T : Mat) (S : Nat → Prop) (m c : Nat → Nat) (b : Nat) : Prop where
  ltm : ∀ k, k < n → m k < 2 ^ n
  ltc : ∀ k, k < n → c k < 2 ^ n
  coef : ∀ k, k < n → vec n (c k) ᵥ* toMat n T = vec n (m k)
  zero : ∀ k, k < n → ¬ S k → m k = 0 ∧ c k = 0
  subm : ∀ k, k < n → ∀ t, (m k).testBit t = true → S t
  subc : ∀ k, k < n → ∀ t, (c k).testBit t = true → S t
  piv : ∀ s, s < b → s < n → S s → lz n (m s) = s
  rest : ∀ k, k < n → ¬ (k < b ∧ S k) → b ≤ lz n (m k)
  span : spanOf n m = spanOf n (row T)

/-- a column outside `S`: nothing to do -/
theorem FInv.skip {n : Nat} {T : Mat} {S : Nat → Prop} {m c : Nat → Nat} {b : Nat} (h : FInv n T S m c b)
    (hbn : b < n) (hb : ¬ S b) : FInv n T S m c (b + 1) :=
  { h with
    piv := fun s hs hsn hS => by
      rcases Nat.lt_or_eq_of_le (Nat.le_of_lt_succ hs) with h1 | h1
      · exact h.piv s h1 hsn hS
      · subst h1; exact absurd hS hb
    rest := fun k hk hnot => by
      have h1 := h.rest k hk (fun hh => hnot ⟨by omega, hh.2⟩)
      rcases Nat.lt_or_eq_of_le h1 with h2 | h2
      · omega
      · exfalso
        have := lz_bit (n := n) (w := m k) (by omega)
        rw [← h2] at this
        exact hb (h.subm k hk b this) }

/-- a pivot for column `b` exists among the rows (used for the `unwrap` of `pseudoinverse`) and it
is at a position `j ≥ b` of `S` -/
theorem FInv.pivot_pos {n : Nat} {T : Mat} {S : Nat → Prop} {m c : Nat → Nat} {b : Nat} (h : FInv n T S m c b)
    (hb : b < n) {j : Nat} (hj : j < n) (hlz : lz n (m j) = b) : b ≤ j ∧ S j := by
  have hSj : S j := by
    apply Classical.byContradiction
    intro hS
    have := (h.zero j hj hS).1
    rw [this, lz_zero] at hlz
    omega
  refine ⟨?_, hSj⟩
  apply Nat.le_of_not_lt
  intro hlt
  have := h.piv j hlt hj hSj
  omega

/-- column `b ∈ S` with a pivot at position `j` -/
theorem FInv.step {n : Nat} {T : Mat} {S : Nat → Prop} {m c : Nat → Nat} {b : Nat} (h : FInv n T S m c b)
    (hb : b < n) (hSb : S b) {j : Nat} (hj : j < n) (hlz : lz n (m j) = b)
    (m1 c1 m' c' : Nat → Nat)
    (hm1 : ∀ k, m1 k = if k = j then m b else if k = b then m j else m k)
    (hc1 : ∀ k, c1 k = if k = j then c b else if k = b then c j else c k)
    (hm' : ∀ k, k < n → m' k = if b < k ∧ lz n (m1 k) = b then m1 k ^^^ m1 b else m1 k)
    (hc' : ∀ k, k < n → c' k = if b < k ∧ lz n (m1 k) = b then c1 k ^^^ c1 b else c1 k) :
    (∀ k, b < k → k < n → b ≤ lz n (m1 k)) ∧ FInv n T S m' c' (b + 1) := by
  obtain ⟨hbj, hSj⟩ := h.pivot_pos hb hj hlz
  have hm1b : m1 b = m j := by
    rw [hm1]; by_cases e : b = j
    · subst e; simp
    · simp [e]
  have hc1b : c1 b = c j := by
    rw [hc1]; by_cases e : b = j
    · subst e; simp
    · simp [e]
  -- every fact about the old rows transported through the swap
  have swapP : ∀ (P : Nat → Nat → Nat → Prop), (∀ k, k < n → P k (m k) (c k)) → P j (m b) (c b) → P b (m j) (c j) →
      ∀ k, k < n → P k (m1 k) (c1 k) := by
    intro P hP hPj hPb k hk
    rw [hm1, hc1]
    by_cases e1 : k = j
    · subst e1; simpa using hPj
    · by_cases e2 : k = b
      · subst e2; simpa [e1] using hPb
      · simpa [e1, e2] using hP k hk
  have h1lt : ∀ k, k < n → m1 k < 2 ^ n ∧ c1 k < 2 ^ n :=
    swapP (fun _ a d => a < 2 ^ n ∧ d < 2 ^ n) (fun k hk => ⟨h.ltm k hk, h.ltc k hk⟩)
      ⟨h.ltm b hb, h.ltc b hb⟩ ⟨h.ltm j hj, h.ltc j hj⟩
  have h1coef : ∀ k, k < n → vec n (c1 k) ᵥ* toMat n T = vec n (m1 k) :=
    swapP (fun _ a d => vec n d ᵥ* toMat n T = vec n a) h.coef (h.coef b hb) (h.coef j hj)
  have h1sub : ∀ k, k < n → (∀ t, (m1 k).testBit t = true → S t) ∧ (∀ t, (c1 k).testBit t = true → S t) :=
    swapP (fun _ a d => (∀ t, a.testBit t = true → S t) ∧ (∀ t, d.testBit t = true → S t))
      (fun k hk => ⟨h.subm k hk, h.subc k hk⟩) ⟨h.subm b hb, h.subc b hb⟩ ⟨h.subm j hj, h.subc j hj⟩
  have h1zero : ∀ k, k < n → ¬ S k → m1 k = 0 ∧ c1 k = 0 := by
    intro k hk hS
    have e1 : k ≠ j := fun e => hS (e ▸ hSj)
    have e2 : k ≠ b := fun e => hS (e ▸ hSb)
    rw [hm1, hc1, if_neg e1, if_neg e2, if_neg e1, if_neg e2]
    exact h.zero k hk hS
  have h1low : ∀ k, k < b → m1 k = m k ∧ c1 k = c k := by
    intro k hk
    rw [hm1, hc1, if_neg (by omega), if_neg (by omega), if_neg (by omega), if_neg (by omega)]
    exact ⟨rfl, rfl⟩
  have h1rest : ∀ k, b < k → k < n → b ≤ lz n (m1 k) := by
    intro k hbk hk
    rw [hm1]
    by_cases e1 : k = j
    · rw [if_pos e1]; exact h.rest b hb (fun hh => by omega)
    · rw [if_neg e1, if_neg (by omega)]
      exact h.rest k hk (fun hh => by omega)
  refine ⟨h1rest, ?_⟩
  have hxor : ∀ k, k < n → (b < k ∧ lz n (m1 k) = b) →
      m' k = m1 k ^^^ m j ∧ c' k = c1 k ^^^ c j := by
    intro k hk hcnd
    rw [hm' k hk, hc' k hk, if_pos hcnd, if_pos hcnd, hm1b, hc1b]
    exact ⟨rfl, rfl⟩
  have hsame : ∀ k, k < n → ¬ (b < k ∧ lz n (m1 k) = b) → m' k = m1 k ∧ c' k = c1 k := by
    intro k hk hcnd
    rw [hm' k hk, hc' k hk, if_neg hcnd, if_neg hcnd]
    exact ⟨rfl, rfl⟩
  exact {
    ltm := by
      intro k hk
      by_cases hcnd : b < k ∧ lz n (m1 k) = b
      · rw [(hxor k hk hcnd).1]; exact Nat.xor_lt_two_pow (h1lt k hk).1 (h.ltm j hj)
      · rw [(hsame k hk hcnd).1]; exact (h1lt k hk).1
    ltc := by
      intro k hk
      by_cases hcnd : b < k ∧ lz n (m1 k) = b
      · rw [(hxor k hk hcnd).2]; exact Nat.xor_lt_two_pow (h1lt k hk).2 (h.ltc j hj)
      · rw [(hsame k hk hcnd).2]; exact (h1lt k hk).2
    coef := by
      intro k hk
      by_cases hcnd : b < k ∧ lz n (m1 k) = b
      · rw [(hxor k hk hcnd).1, (hxor k hk hcnd).2, vec_xor, vec_xor, Matrix.add_vecMul, h1coef k hk, h.coef j hj]
      · rw [(hsame k hk hcnd).1, (hsame k hk hcnd).2]; exact h1coef k hk
    zero := by
      intro k hk hS
      have hcnd : ¬ (b < k ∧ lz n (m1 k) = b) := by
        rintro ⟨_, hl⟩
        rw [(h1zero k hk hS).1, lz_zero] at hl
        omega
      rw [(hsame k hk hcnd).1, (hsame k hk hcnd).2]
      exact h1zero k hk hS
    subm := by
      intro k hk t ht
      by_cases hcnd : b < k ∧ lz n (m1 k) = b
      · rw [(hxor k hk hcnd).1, Nat.testBit_xor] at ht
        cases h1 : (m1 k).testBit t with
        | true => exact (h1sub k hk).1 t h1
        | false =>
          rw [h1] at ht
          exact h.subm j hj t (by simpa using ht)
      · rw [(hsame k hk hcnd).1] at ht; exact (h1sub k hk).1 t ht
    subc := by
      intro k hk t ht
      by_cases hcnd : b < k ∧ lz n (m1 k) = b
      · rw [(hxor k hk hcnd).2, Nat.testBit_xor] at ht
        cases h1 : (c1 k).testBit t with
        | true => exact (h1sub k hk).2 t h1
        | false =>
          rw [h1] at ht
          exact h.subc j hj t (by simpa using ht)
      · rw [(hsame k hk hcnd).2] at ht; exact (h1sub k hk).2 t ht
    piv := by
      intro s hs hsn hS
      have hcnd : ¬ (b < s ∧ lz n (m1 s) = b) := fun hh => by omega
      rw [(hsame s hsn hcnd).1]
      rcases Nat.lt_or_eq_of_le (Nat.le_of_lt_succ hs) with h1 | h1
      · rw [(h1low s h1).1]; exact h.piv s h1 hsn hS
      · subst h1; rw [hm1b]; exact hlz
    rest := by
      intro k hk hnot
      by_cases hkb : k < b
      · -- a row outside S below b: zero
        have hS : ¬ S k := fun hS => hnot ⟨by omega, hS⟩
        have hcnd : ¬ (b < k ∧ lz n (m1 k) = b) := fun hh => by omega
        rw [(hsame k hk hcnd).1, (h1zero k hk hS).1, lz_zero]; omega
      · have hkb' : b < k := by
          rcases Nat.lt_or_eq_of_le (Nat.le_of_not_lt hkb) with h1 | h1
          · exact h1
          · exact absurd ⟨by omega, h1 ▸ hSb⟩ hnot
        have hge := h1rest k hkb' hk
        by_cases hcnd : b < k ∧ lz n (m1 k) = b
        · rw [(hxor k hk hcnd).1]
          exact lz_xor_gt hb hcnd.2 hlz
        · rw [(hsame k hk hcnd).1]
          have : lz n (m1 k) ≠ b := fun e => hcnd ⟨hkb', e⟩
          omega
    span := by
      rw [← h.span]
      have hs1 : spanOf n m1 = spanOf n m := spanOf_swap m m1 hb hj (fun k _ => hm1 k)
      rw [← hs1]
      exact spanOf_xor m1 m' hb (fun k => b < k ∧ lz n (m1 k) = b) (fun hh => by omega)
        (fun k hk => hm' k hk) }

/-! ### the model's `elimCol` -/

theorem elimCol_inv {n : Nat} {T : Mat} {S : Nat → Prop} {rows : Rows} {b j : Nat} (dbg : Bool)
    (hlen : rows.length = n) (h : FInv n T S (fstF rows) (sndF rows) b) (hb : b < n) (hSb : S b)
    (hj : j < n) (hlz : lz n (fstF rows j) = b) :
    ∃ rows', elimCol n dbg b j rows = some rows' ∧ rows'.length = n ∧
      FInv n T S (fstF rows') (sndF rows') (b + 1) := by
  have hb' : b < rows.length := by omega
  have hj' : j < rows.length := by omega
  have hsw : ∀ k, rowAt (swapAt rows b j) k =
      if k = j then rowAt rows b else if k = b then rowAt rows j else rowAt rows k :=
    fun k => rowAt_swapAt hb' hj' k
  have hstep := h.step hb hSb hj hlz (fstF (swapAt rows b j)) (sndF (swapAt rows b j))
    (fstF ((swapAt rows b j).mapIdx (fun k r => if b < k ∧ lz n r.1 = b then
      (r.1 ^^^ ((swapAt rows b j).getD b (0, 0)).1, r.2 ^^^ ((swapAt rows b j).getD b (0, 0)).2) else r)))
    (sndF ((swapAt rows b j).mapIdx (fun k r => if b < k ∧ lz n r.1 = b then
      (r.1 ^^^ ((swapAt rows b j).getD b (0, 0)).1, r.2 ^^^ ((swapAt rows b j).getD b (0, 0)).2) else r)))
    (by intro k; simp only [fstF]; rw [hsw]; split
        · rfl
        · split <;> rfl)
    (by intro k; simp only [sndF]; rw [hsw]; split
        · rfl
        · split <;> rfl)
    (by intro k hk; simp only [fstF]
        rw [rowAt_mapIdx _ (by rw [length_swapAt]; omega)]
        exact (apply_ite Prod.fst _ _ _).trans rfl)
    (by intro k hk; simp only [sndF]
        rw [rowAt_mapIdx _ (by rw [length_swapAt]; omega)]
        exact (apply_ite Prod.snd _ _ _).trans rfl)
  obtain ⟨hrest, hF⟩ := hstep
  have hany : (List.range n).any (fun k => decide (b < k) && decide (lz n ((swapAt rows b j).getD k (0, 0)).1 < b)) = false := by
    rw [Bool.eq_false_iff]
    intro hh
    rw [List.any_eq_true] at hh
    obtain ⟨k, hk, hkk⟩ := hh
    rw [List.mem_range] at hk
    simp only [Bool.and_eq_true, decide_eq_true_eq] at hkk
    have := hrest k hkk.1 hk
    simp only [fstF, rowAt] at this
    omega
  refine ⟨_, ?_, ?_, hF⟩
  · unfold elimCol
    simp only [hany, Bool.and_false, Bool.false_eq_true, if_false]
  · simp [List.length_mapIdx, length_swapAt, hlen]

end Ymq.Gf2Small
