/-
C07 ∘ C09 (extension): `ZmodN::inv` on top of the C09 model of `inv_mod::<8>` on the sharp domain of the
cofactor-width theorem (`no_panic_ext_wide`, `inv_mod_total`): moduli and operands below `2^505`.
-/
import Ymq.Props.C07C09
import Ymq.Props.C09Ext

namespace Ymq.C09
open Ymq.Gcd Ymq.Limbs Ymq.ZmodN

/-- an inverse exists for coprime operands (used only to extend `invModC09` outside its domain) -/
private theorem exists_inverse' (a n : Nat) (hn : 0 < n) (h : Nat.gcd a n = 1) :
    ∃ i, i < n ∧ i * a % n = 1 % n := by
  rcases Nat.lt_or_ge 1 n with h1 | h1
  · obtain ⟨m, hmlt, hm⟩ := Nat.exists_mul_mod_eq_one_of_coprime (k := n) (n := a) h h1
    exact ⟨m, hmlt, by rw [Nat.mod_eq_of_lt h1, Nat.mul_comm]; exact hm⟩
  · have : n = 1 := by omega
    subst this; exact ⟨0, by decide, by simp⟩

/-- `ZmodN::inv` on top of the C09 model of `inv_mod`, modulus and operand below `2^505 = 2^(64*8-7)` (the sharp domain of
`inv_mod::<8>`: `no_panic_ext_threshold`): no panic;
`None` only if `gcd(x, n) ≠ 1`, otherwise the Montgomery form of the inverse (`r·x ≡ R² (mod n)`).
No hypothesis about `inv_mod` is left. -/
theorem zmodn_inv_spec_wide (c : Ctx) (hc : Valid c) (hn : c.n < 2 ^ (64 * 8 - 7)) (x : List Nat)
    (hx : val x < 2 ^ (64 * 8 - 7)) :
    (Nat.gcd (val x) c.n ≠ 1 ∧ ZmodN.inv invModC09 c x = some none) ∨
    (∃ r, ZmodN.inv invModC09 c x = some (some r) ∧ val r < c.n ∧
      val r * val x % c.n = Limbs.W ^ c.k * Limbs.W ^ c.k % c.n ∧ r.length = 8 ∧ Wf r) := by
  classical
  have hnpos : 0 < c.n := hc.npos
  obtain ⟨B, hB⟩ : ∃ B : Nat, B = 2 ^ (64 * 8 - 7) := ⟨_, rfl⟩
  rw [← hB] at hn hx
  -- a total extension of the model's inverse (the model does not panic below 2^505)
  let tot : Nat → Nat → Option Nat := fun a n =>
    if a < B then invModC09 a n
    else if h : ∃ i, i < n ∧ i * a % n = 1 % n then some (Classical.choose h) else none
  have htot : ∀ a, match tot a c.n with
      | some i => i < c.n ∧ i * a % c.n = 1 % c.n
      | none => Nat.gcd a c.n ≠ 1 := by
    intro a
    by_cases ha : a < B
    · have e : tot a c.n = invModC09 a c.n := by simp only [tot, if_pos ha]
      rw [e]
      obtain ⟨r, hr⟩ : ∃ r, invMod 8 a c.n = some r := by
        obtain ⟨t1, t2⟩ := inv_mod_total 8 (by decide) a c.n (by omega) (hB ▸ ha) (hB ▸ hn)
        by_cases hg : Nat.gcd a c.n = 1
        · obtain ⟨x', hx', _⟩ := t1 hg; exact ⟨_, hx'⟩
        · exact ⟨_, t2 hg⟩
      have hs := inv_mod_spec 8 (by decide) a c.n r hr
      unfold invModC09
      rw [hr]
      cases r with
      | ok i => simp only at hs ⊢; exact ⟨hs.1, by rw [Nat.mul_comm]; exact hs.2⟩
      | err d => simp only at hs ⊢; rw [← hs.1]; exact hs.2
    · have e : tot a c.n = if h : ∃ i, i < c.n ∧ i * a % c.n = 1 % c.n then some (Classical.choose h)
          else none := by simp only [tot, if_neg ha]
      rw [e]
      by_cases hex : ∃ i, i < c.n ∧ i * a % c.n = 1 % c.n
      · rw [dif_pos hex]; exact Classical.choose_spec hex
      · rw [dif_neg hex]
        intro hg
        exact hex (exists_inverse' a c.n hnpos hg)
  have key := Ymq.C07.inv_spec c hc tot x htot
  have e : ZmodN.inv tot c x = ZmodN.inv invModC09 c x := by
    unfold ZmodN.inv
    have : tot (val x) c.n = invModC09 (val x) c.n := by simp only [tot, if_pos hx]
    rw [this]
  rw [e] at key
  exact key

set_option exponentiation.threshold 600 in
/-- the hypotheses are satisfiable above the old bound `2^500` by a REAL Montgomery context: the odd modulus
`n = 2^504 + 1` (`ZmodN::new` returns a `Valid` context for it: C07 `new_spec`) lies in `[2^500, 2^505)`, and
`x = 2^504 ≡ -1` is a unit of the same size -/
example : ∃ c x, Valid c ∧ c.n = 2 ^ 504 + 1 ∧ c.n % 2 = 1 ∧ c.n < 2 ^ (64 * 8 - 7) ∧ ¬ c.n < 2 ^ (64 * 8 - 12) ∧
    val x < 2 ^ (64 * 8 - 7) ∧ ¬ val x < 2 ^ (64 * 8 - 12) ∧ Nat.gcd (val x) c.n = 1 := by
  obtain ⟨c, _, h2, h3, _⟩ := Ymq.C07.new_spec (2 ^ 504 + 1) (by decide) (by decide)
  refine ⟨c, ofNat 8 (2 ^ 504), h2, h3, ?_⟩
  rw [h3]
  decide +kernel

set_option exponentiation.threshold 600 in
/-- … and on it the theorem yields the inverse branch (the `None` branch is excluded: the operand is a unit) -/
example : ∃ c x r, Valid c ∧ c.n = 2 ^ 504 + 1 ∧ ZmodN.inv invModC09 c x = some (some r) ∧ val r < c.n ∧
    val r * val x % c.n = Limbs.W ^ c.k * Limbs.W ^ c.k % c.n := by
  obtain ⟨c, _, h2, h3, _⟩ := Ymq.C07.new_spec (2 ^ 504 + 1) (by decide) (by decide)
  have hx : val (ofNat 8 (2 ^ 504)) < 2 ^ (64 * 8 - 7) ∧ Nat.gcd (val (ofNat 8 (2 ^ 504))) (2 ^ 504 + 1) = 1 := by
    decide +kernel
  rcases zmodn_inv_spec_wide c h2 (by rw [h3]; decide +kernel) (ofNat 8 (2 ^ 504)) hx.1 with ⟨hg, _⟩ | ⟨r, hr, hlt, hmul, _⟩
  · rw [h3] at hg; exact absurd hx.2 hg
  · exact ⟨c, _, r, h2, h3, hr, hlt, hmul⟩

end Ymq.C09
