//! Line server around the real yamaquasi code (correspondence harness).
//!
//! protocol: one request per line `op arg arg ...`, one answer per line.
//! numbers are decimal, lists comma separated (`-` = empty list).
//! every request runs under catch_unwind: a panic answers `panic`.
//! `?` = unknown op / malformed request.

use std::io::{BufRead, Write};
use std::panic::{catch_unwind, AssertUnwindSafe};

mod util;

type Handler = fn(&str, &[&str]) -> Option<String>;

include!("handlers.rs");

fn main() {
    // YMQH_PANICMSG=1: print panic locations on stderr (diagnostics only)
    if std::env::var("YMQH_PANICMSG").is_ok() {
        std::panic::set_hook(Box::new(|info| {
            eprintln!("PANIC {}", info.to_string().replace('\n', " | "));
            if std::env::var("YMQH_BT").is_ok() { eprintln!("{}", std::backtrace::Backtrace::force_capture()); }
        }));
    } else {
        std::panic::set_hook(Box::new(|_| {}));
    }
    let stdin = std::io::stdin();
    let stdout = std::io::stdout();
    let mut out = std::io::BufWriter::new(stdout.lock());
    // `--flush` : flush after every answer (used with the hang watchdog)
    let flush = std::env::args().any(|a| a == "--flush");
    for line in stdin.lock().lines() {
        let line = line.unwrap();
        let toks: Vec<&str> = line.split_whitespace().collect();
        if toks.is_empty() {
            continue;
        }
        let r = catch_unwind(AssertUnwindSafe(|| {
            for h in HANDLERS {
                if let Some(s) = h(toks[0], &toks[1..]) {
                    return s;
                }
            }
            "?".to_string()
        }));
        let s = match r {
            Ok(s) => s,
            Err(_) => "panic".to_string(),
        };
        writeln!(out, "{}", s).unwrap();
        if flush {
            out.flush().unwrap();
        }
    }
    out.flush().unwrap();
}
