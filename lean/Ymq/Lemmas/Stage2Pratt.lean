/-
Pratt certificates (C16): kernel-checkable primality of the bad-row witnesses.  A table of entries
`(p, a, [(q, e), ..])` with `p - 1 = ∏ q^e`, `a^(p-1) ≡ 1`, `a^((p-1)/q) ≢ 1 (mod p)`; every `q` is below 2^16
(trial division) or is the `p` of an earlier entry.  Soundness is Lucas' primality criterion.
-/
import Ymq.Lemmas.Stage2Pm1
import Ymq.Lemmas.Stage2Totient
import Ymq.Lemmas.Params
import Mathlib.NumberTheory.LucasPrimality

namespace Ymq.Stage2
open Ymq.Checked

abbrev PrattEntry := Nat × Nat × List (Nat × Nat)

def prattEntryOk (known : List Nat) : PrattEntry → Bool
  | (p, a, fs) =>
    decide (2 ≤ p) && decide (p < 2 ^ 64) && (valOf fs == p - 1) &&
    fs.all (fun qe => (decide (qe.1 < 65536) && isPrimeTD qe.1) || known.contains qe.1) &&
    (powmod a (p - 1) p == 1) && fs.all (fun qe => powmod a ((p - 1) / qe.1) p != 1)

/-- processes the table in order; returns the numbers proved prime -/
def prattTable : List Nat → List PrattEntry → Option (List Nat)
  | known, [] => some known
  | known, e :: t => if prattEntryOk known e then prattTable (e.1 :: known) t else none

theorem isPrimeTD_sound {n : Nat} (hn : n < 2 ^ 64) (h : isPrimeTD n = true) : n.Prime := by
  unfold isPrimeTD at h
  simp only [Bool.and_eq_true, decide_eq_true_eq, Bool.not_eq_true'] at h
  obtain ⟨h2, hany⟩ := h
  rw [Nat.prime_def_le_sqrt]
  refine ⟨h2, ?_⟩
  intro m hm2 hms hdvd
  have hs := isqrt_spec n hn
  have hmm : m * m ≤ n := by
    have := Nat.sqrt_le' n
    rw [pow_two] at this
    exact le_trans (Nat.mul_le_mul hms hms) this
  have hmle : m ≤ isqrt n := by
    by_contra hc
    have h1 : isqrt n + 1 ≤ m := by omega
    have := Nat.mul_le_mul h1 h1
    omega
  have : anyBelow (fun k => decide (2 ≤ k) && n % k == 0) (isqrt n + 1) = true := by
    rw [anyBelow_iff]
    exact ⟨m, by omega, by simp [hm2, Nat.mod_eq_zero_of_dvd hdvd]⟩
  rw [this] at hany
  exact absurd hany (by simp)

/-- a prime dividing `∏ q^e` with all bases prime is one of the bases -/
theorem prime_dvd_valOf' {r : Nat} (hr : r.Prime) : ∀ (l : List (Nat × Nat)), (∀ qe ∈ l, qe.1.Prime) →
    r ∣ valOf l → ∃ qe ∈ l, r = qe.1
  | [], _, h => by simp [valOf] at h; exact absurd h hr.ne_one
  | (q, e) :: t, hall, hd => by
    rw [valOf] at hd
    rcases (Nat.Prime.dvd_mul hr).mp hd with h1 | h1
    · have := Nat.Prime.dvd_of_dvd_pow hr h1
      exact ⟨(q, e), List.mem_cons_self .., (Nat.prime_dvd_prime_iff_eq hr (hall (q, e) (List.mem_cons_self ..))).mp this⟩
    · obtain ⟨qe, hmem, heq⟩ := prime_dvd_valOf' hr t (fun x hx => hall x (List.mem_cons_of_mem _ hx)) h1
      exact ⟨qe, List.mem_cons_of_mem _ hmem, heq⟩

theorem natCast_pow_eq_one_iff {p a k : Nat} (hp : 2 ≤ p) : ((a : ZMod p)) ^ k = 1 ↔ a ^ k % p = 1 := by
  have h1 : ((a : ZMod p)) ^ k = ((a ^ k : Nat) : ZMod p) := by push_cast; rfl
  have h2 : (1 : ZMod p) = ((1 : Nat) : ZMod p) := by simp
  rw [h1, h2, ZMod.natCast_eq_natCast_iff', Nat.mod_eq_of_lt (show 1 < p by omega)]

theorem prattEntry_sound {known : List Nat} (hk : ∀ q ∈ known, q.Prime) {e : PrattEntry}
    (h : prattEntryOk known e = true) : e.1.Prime := by
  obtain ⟨p, a, fs⟩ := e
  unfold prattEntryOk at h
  simp only [Bool.and_eq_true, decide_eq_true_eq, beq_iff_eq, List.all_eq_true, Bool.or_eq_true,
    List.contains_iff_mem, bne_iff_ne, ne_eq] at h
  obtain ⟨⟨⟨⟨⟨hp2, hp64⟩, hval⟩, hfs⟩, hpow⟩, hne⟩ := h
  have hbases : ∀ qe ∈ fs, qe.1.Prime := by
    intro qe hqe
    rcases hfs qe hqe with ⟨hlt, htd⟩ | hmem
    · exact isPrimeTD_sound (by omega) htd
    · exact hk _ hmem
  have he1 : p - 1 < 2 ^ 64 := by omega
  apply lucas_primality p (a : ZMod p)
  · rw [natCast_pow_eq_one_iff hp2, ← powmod_eq a (p - 1) p he1]; exact hpow
  · intro r hr hdvd
    rw [← hval] at hdvd
    obtain ⟨qe, hmem, rfl⟩ := prime_dvd_valOf' hr fs hbases hdvd
    rw [Ne, natCast_pow_eq_one_iff hp2, ← powmod_eq a _ p (lt_of_le_of_lt (Nat.div_le_self _ _) he1)]
    exact hne qe hmem

theorem prattTable_sound : ∀ (entries : List PrattEntry) (known known' : List Nat), (∀ q ∈ known, q.Prime) →
    prattTable known entries = some known' → ∀ q ∈ known', q.Prime
  | [], known, known', hk, h => by
    simp only [prattTable, Option.some.injEq] at h; subst h; exact hk
  | e :: t, known, known', hk, h => by
    rw [prattTable] at h
    split at h
    · rename_i hok
      apply prattTable_sound t (e.1 :: known) known' _ h
      intro q hq
      rcases List.mem_cons.mp hq with rfl | hq
      · exact prattEntry_sound hk hok
      · exact hk q hq
    · exact absurd h (by simp)

end Ymq.Stage2
