/-
The dispatch table of `convolve_modn` (translated from the source: `Ymq.Gen.Params`) meets the
preconditions of `_convolve_modn::<N>` on every arm (property C10, theorem `dispatch_ok`).
-/
import Ymq.Model.Kronecker
import Mathlib.Tactic.NormNum
import Mathlib.Tactic.SplitIfs
import Mathlib.Tactic.Linarith

namespace Ymq.Kronecker
open Ymq.Gen.Params

theorem bound_aux (size nbits S B e : Nat) (hs : size ≤ S) (hb : nbits ≤ B)
    (h : S * 2 ^ (2 * B) ≤ e) : size * 2 ^ (2 * nbits) ≤ e :=
  le_trans (Nat.mul_le_mul hs (Nat.pow_le_pow_right (by decide) (by omega))) h

/-- what `_convolve_modn::<N>` needs from a row `(fsize, logpack, stride)` of the dispatch table -/
structure ArmOk (nbits size N logpack stride : Nat) : Prop where
  /-- no overlap of the output digits: `size · n² ≤ 2^(64·stride)` for every `n < 2^nbits` -/
  digit : size * 2 ^ (2 * nbits) ≤ W ^ (if stride = 0 then 16 else stride)
  /-- no wrap modulo `F`: `(2A - 1)·stride ≤ N` -/
  fit : (2 * 2 ^ logpack - 1) * stride ≤ N
  /-- the 8 words of the last packed coefficient fit -/
  copy : stride * (2 ^ logpack - 1) + 8 ≤ N
  /-- the transform length is within the precomputed roots: `mulfft` asserts `l ≤ 256 N` -/
  roots : size / 2 ^ logpack ≤ FFT_ROOTS_PER_WORD * N
  /-- `redc_large`: slices shorter than `3·MINT_WORDS` words, at least `k` and at most `k + 16` words -/
  slice : (if stride = 0 then 16 else stride) < 3 * MINT_WORDS ∧
    (nbits + 63) / 64 ≤ (if stride = 0 then 16 else stride) ∧ (if stride = 0 then 16 else stride) ≤ 17
  /-- `xhi < n·R` in `redc_large`: with `size < 2^64 ≤ R` every digit is `< n·R²` -/
  small : size < W
  unpacked : stride = 0 → logpack = 0 ∧ N = 16
  words : (nbits + 63) / 64 ≤ MINT_WORDS
  /-- the packing factor does not exceed the convolution length (rows with `A = 4, 8` are only
  reached by sizes above 16384) -/
  pack : 2 ≤ size → 2 ^ logpack ≤ size

/-- **Every arm of the dispatch table of `convolve_modn` meets the preconditions of
`_convolve_modn`** (the table is regenerated from the source into `Ymq.Gen.Params`). -/
theorem dispatch_ok' (nbits size fsize logpack stride : Nat)
    (h : arith_fft.convolve_dispatch nbits size = some (fsize, logpack, stride))
    (hb : nbits ≤ CONVOLVE_MAX_BITS) :
    ∃ N, CONVOLVE_FSIZE_N.lookup fsize = some N ∧ ArmOk nbits size N logpack stride := by
  unfold arith_fft.convolve_dispatch at h
  simp only [Bool.and_eq_true, decide_eq_true_eq] at h
  have hb' : nbits ≤ 500 := hb
  have hM : MINT_WORDS = 8 := rfl
  have hR : FFT_ROOTS_PER_WORD = 256 := rfl
  have hW : W = 18446744073709551616 := rfl
  split_ifs at h with h1 h2 h3 h4 h5 h6 h7 h8 <;>
    (simp only [Option.some.injEq, Prod.mk.injEq] at h
     obtain ⟨rfl, rfl, rfl⟩ := h)
  · refine ⟨16, by decide, ⟨?_, by decide, by decide, by omega, ⟨by decide, by norm_num; omega, by decide⟩, by omega, by simp, by omega, fun _ => by norm_num; omega⟩⟩
    exact bound_aux _ _ 8192 150 _ h1.2 h1.1 (by decide +kernel)
  · refine ⟨16, by decide, ⟨?_, by decide, by decide, by omega, ⟨by decide, by norm_num; omega, by decide⟩, by omega, by simp, by omega, fun _ => by norm_num; omega⟩⟩
    exact bound_aux _ _ 4096 500 _ h2.2 h2.1 (by decide +kernel)
  · refine ⟨32, by decide, ⟨?_, by decide, by decide, by omega, ⟨by decide, by norm_num; omega, by decide⟩, by omega, by simp, by omega, fun _ => by norm_num; omega⟩⟩
    exact bound_aux _ _ 16384 310 _ h3.2 h3.1 (by decide +kernel)
  · refine ⟨64, by decide, ⟨?_, by decide, by decide, by omega, ⟨by decide, by norm_num; omega, by decide⟩, by omega, by simp, by omega, fun _ => by norm_num; omega⟩⟩
    exact bound_aux _ _ 65536 280 _ h4.2 h4.1 (by decide +kernel)
  · refine ⟨64, by decide, ⟨?_, by decide, by decide, by omega, ⟨by decide, by norm_num; omega, by decide⟩, by omega, by simp, by omega, fun _ => by norm_num; omega⟩⟩
    exact bound_aux _ _ 32768 500 _ h5.2 hb' (by decide +kernel)
  · refine ⟨128, by decide, ⟨?_, by decide, by decide, by omega, ⟨by decide, by norm_num; omega, by decide⟩, by omega, by simp, by omega, fun _ => by norm_num; omega⟩⟩
    exact bound_aux _ _ 262144 245 _ h6.2 h6.1 (by decide +kernel)
  · refine ⟨128, by decide, ⟨?_, by decide, by decide, by omega, ⟨by decide, by norm_num; omega, by decide⟩, by omega, by simp, by omega, fun _ => by norm_num; omega⟩⟩
    exact bound_aux _ _ 131072 500 _ h7.2 hb' (by decide +kernel)
  · refine ⟨256, by decide, ⟨?_, by decide, by decide, by omega, ⟨by decide, by norm_num; omega, by decide⟩, by omega, by simp, by omega, fun _ => by norm_num; omega⟩⟩
    exact bound_aux _ _ 524288 500 _ h8.2 hb' (by decide +kernel)

end Ymq.Kronecker
