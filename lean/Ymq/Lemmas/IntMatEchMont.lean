/-
Montgomery-form building blocks of the production echelon builder `Ech` (Ymq/Model/IntMat.lean):
`mg_redc` on sums of up to 8 products, the modular subtractions, `submul`, the closure `submul` of
`add`, `div`. Values: `mform p a = a·2^64 mod p` (Ymq/Lemmas/MillerMont.lean).
-/
import Ymq.Lemmas.IntMatEchPTotal
import Ymq.Lemmas.MillerMont

namespace Ymq.IntMat
open Ymq.Mg64

/-- a row of residues in Montgomery form -/
def mrow (p : Nat) (l : List Nat) : List Nat := l.map (mform p)

theorem mrow_length (p : Nat) (l : List Nat) : (mrow p l).length = l.length := by simp [mrow]

theorem mrow_getElem? (p : Nat) (l : List Nat) (c : Nat) (hc : c < l.length) :
    (mrow p l)[c]? = some (mform p l[c]) := by
  simp [mrow, List.getElem?_map, List.getElem?_eq_getElem hc]

theorem mrow_set (p : Nat) (l : List Nat) (c t : Nat) : (mrow p l).set c (mform p t) = mrow p (l.set c t) := by
  simp [mrow, List.map_set]

theorem cast_mform (p a : Nat) : ((mform p a : Nat) : ZMod p) = (a : ZMod p) * ((W : Nat) : ZMod p) := by
  unfold mform; rw [ZMod.natCast_mod, Nat.cast_mul]

theorem eq_of_cast_eq {p a b : Nat} (ha : a < p) (hb : b < p) (h : ((a : Nat) : ZMod p) = ((b : Nat) : ZMod p)) :
    a = b := by
  have := (ZMod.natCast_eq_natCast_iff' a b p).1 h
  rwa [Nat.mod_eq_of_lt ha, Nat.mod_eq_of_lt hb] at this

theorem R_cancel {p : Nat} (hodd : p % 2 = 1) {x y : ZMod p}
    (h : x * ((W : Nat) : ZMod p) = y * ((W : Nat) : ZMod p)) : x = y := by
  have hu : IsUnit ((W : Nat) : ZMod p) :=
    (ZMod.isUnit_iff_coprime W p).2 (Nat.Coprime.symm (coprime_W p hodd))
  exact hu.mul_left_inj.1 h

/-- a reduced word is the Montgomery form of the reduced residue with the same image times `R` -/
theorem eq_mform_of_cast {p y t : Nat} (hp : 0 < p) (hy : y < p)
    (h : ((y : Nat) : ZMod p) = (t : ZMod p) * ((W : Nat) : ZMod p)) : y = mform p t :=
  eq_of_cast_eq hy (mform_lt hp t) (by rw [h, cast_mform])

theorem mform_zero_iff {p : Nat} (hodd : p % 2 = 1) {a : Nat} (ha : a < p) : mform p a = 0 ↔ a = 0 := by
  constructor
  · intro h
    have h0 : mform p 0 = 0 := by simp [mform]
    have := (mform_inj hodd a 0).1 (by rw [h, h0])
    rw [Nat.mod_eq_of_lt ha, Nat.zero_mod] at this
    exact this
  · intro h; subst h; simp [mform]

/-! ### mg_redc beyond its documented domain: `x < 2·n·2^64` -/

theorem mgRedc_wide (n ninv x : Nat) (hn : 0 < n) (hnW : 4 * n ≤ W) (hninv : (n * ninv + 1) % W = 0)
    (hx : x < 2 * n * W) :
    ∃ r, mgRedc n ninv x = some r ∧ r < 2 * n ∧ r * W % n = x % n := by
  unfold mgRedc
  have hW0 : 0 < W := by decide
  have hxhin : x / W < 2 * n := by
    rw [Nat.div_lt_iff_lt_mul hW0]; exact hx
  have hxhi : x / W % W = x / W := Nat.mod_eq_of_lt (by omega)
  simp only [hxhi]
  by_cases hlo : x % W = 0
  · simp only [hlo, if_true]
    refine ⟨x / W, rfl, hxhin, ?_⟩
    have : x = x / W * W := by
      have := Nat.div_add_mod x W; rw [hlo] at this; rw [Nat.mul_comm]; omega
    rw [← this]
  · simp only [hlo, if_false]
    have hk := redc_low_word_cancels n ninv (x % W) hW0 hninv hlo (Nat.mod_lt _ hW0)
    generalize hmul : x % W * ninv % W = mul at hk
    have hmulW : mul < W := by rw [← hmul]; exact Nat.mod_lt _ hW0
    have hm : mul * n < W * n := Nat.mul_lt_mul_of_pos_right hmulW hn
    have hmhi : mul * n / W < n := by
      rw [Nat.div_lt_iff_lt_mul hW0, Nat.mul_comm n W]; exact hm
    have hmhi' : mul * n / W % W = mul * n / W := Nat.mod_eq_of_lt (by omega)
    have hdbg : (x % W + mul * n % W) % W = 0 := by rw [hk]; exact Nat.mod_self W
    simp only [hmhi', hdbg, ne_eq, not_true_eq_false, if_false]
    have h1 : ¬ n < mul * n / W + 1 := by omega
    simp only [h1, if_false]
    have hsum : (x / W + mul * n / W + 1) * W = x + mul * n := by
      have e1 := Nat.div_add_mod x W
      have e2 := Nat.div_add_mod (mul * n) W
      nlinarith
    have hmod : ∀ t, t * W = x + mul * n → t * W % n = x % n := by
      intro t ht; rw [ht, Nat.add_mul_mod_self_right]
    by_cases hge : x / W ≥ n - mul * n / W - 1
    · simp only [hge, if_true]
      refine ⟨_, rfl, by omega, ?_⟩
      have : (x / W - (n - mul * n / W - 1)) * W + n * W = x + mul * n := by
        have : x / W - (n - mul * n / W - 1) + n = x / W + mul * n / W + 1 := by omega
        rw [← hsum, ← this]; ring
      have h2 : (x / W - (n - mul * n / W - 1)) * W % n = ((x / W - (n - mul * n / W - 1)) * W + n * W) % n := by
        rw [Nat.add_mul_mod_self_left]
      rw [h2, this, Nat.add_mul_mod_self_right]
    · simp only [hge, if_false]
      have h3 : ¬ (x / W + mul * n / W + 1 ≥ W) := by omega
      simp only [h3, if_false]
      exact ⟨_, rfl, by omega, hmod _ hsum⟩

/-! ### modular subtractions -/

theorem subP'_spec {p a b : Nat} (hpW : 2 * p ≤ W) (ha : a < p) (hb : b < p) :
    ∃ y, subP' p a b = some y ∧ y < p ∧ ((y : Nat) : ZMod p) = (a : ZMod p) - (b : ZMod p) := by
  unfold subP'
  by_cases h : a ≥ b
  · rw [if_pos h]; exact ⟨a - b, rfl, by omega, by rw [Nat.cast_sub h]⟩
  · rw [if_neg h, if_neg (by omega), if_neg (by omega)]
    refine ⟨_, rfl, by omega, ?_⟩
    rw [Nat.cast_add, Nat.cast_sub (by omega), ZMod.natCast_self]; ring

theorem subP_spec {p a b : Nat} (hpW : 2 * p ≤ W) (ha : a < p) (hb : b < p) :
    ∃ y, subP p a b = some y ∧ y < p ∧ ((y : Nat) : ZMod p) = (a : ZMod p) - (b : ZMod p) := by
  unfold subP
  by_cases h : a ≥ b
  · rw [if_pos h]; exact ⟨a - b, rfl, by omega, by rw [Nat.cast_sub h]⟩
  · rw [if_neg h, if_neg (by omega), if_neg (by omega)]
    refine ⟨_, rfl, by omega, ?_⟩
    rw [Nat.cast_sub (by omega), Nat.cast_add, ZMod.natCast_self]; ring

/-- the plain residue `(a + (p - m·b mod p)) mod p` of `rowSubMul` as an element of `Z/p` -/
theorem cast_subMul (p a m b : Nat) (hp : 0 < p) :
    (((a + (p - m * b % p)) % p : Nat) : ZMod p) = (a : ZMod p) - (m : ZMod p) * (b : ZMod p) := by
  have hle : m * b % p ≤ p := Nat.le_of_lt (Nat.mod_lt _ hp)
  rw [ZMod.natCast_mod, Nat.cast_add, Nat.cast_sub hle, ZMod.natCast_self, ZMod.natCast_mod, Nat.cast_mul]
  ring

/-- one entry of `submul` / of the closure `submul`: `a - m·b` on Montgomery forms -/
theorem subMul_entry {p pinv : Nat} (h : MontOk p pinv) (hpW : 2 * p ≤ W) (a m b : Nat) (ha : a < p) :
    ∃ y, mgMul p pinv (mform p m) (mform p b) = some (mform p (m * b)) ∧
      subP' p (mform p a) (mform p (m * b)) = some y ∧ subP p (mform p a) (mform p (m * b)) = some y ∧
      y = mform p ((a + (p - m * b % p)) % p) := by
  have hp : 0 < p := by have := h.one_lt; omega
  obtain ⟨y, hy1, hy2, hy3⟩ := subP'_spec hpW (mform_lt hp a) (mform_lt hp (m * b))
  obtain ⟨y', hy1', hy2', hy3'⟩ := subP_spec hpW (mform_lt hp a) (mform_lt hp (m * b))
  have hyy : y' = y := eq_of_cast_eq hy2' hy2 (by rw [hy3, hy3'])
  subst hyy
  refine ⟨y', mgMul_mform h m b, hy1, hy1', ?_⟩
  apply eq_mform_of_cast hp hy2
  rw [hy3, cast_mform, cast_mform, cast_subMul p a m b hp, Nat.cast_mul]
  ring

theorem mapM_eq_map {α β} (f : α → Option β) (g : α → β) : ∀ l : List α,
    (∀ x ∈ l, f x = some (g x)) → l.mapM f = some (l.map g)
  | [], _ => by simp
  | a :: as, h => by
    rw [List.mapM_cons, h a (by simp), mapM_eq_map f g as (fun x hx => h x (by simp [hx]))]
    simp

/-- `self.submul(v, w, m)` on Montgomery rows is `rowSubMul` on the plain rows -/
theorem Ech.submul_mform {p pinv : Nat} (h : MontOk p pinv) (hpW : 2 * p ≤ W) (E : Ech) (hEp : E.p = p)
    (hEi : E.pinv = pinv) (v w : List Nat) (m : Nat) (hl : v.length = w.length)
    (hv : ∀ x ∈ v, x < p) (hw : ∀ x ∈ w, x < p) (hm : m < p) (hm0 : m ≠ 0) :
    E.submul (mrow p v) (mrow p w) (mform p m) = some (mrow p (rowSubMul p v w m)) := by
  have hp : 0 < p := by have := h.one_lt; omega
  unfold Ech.submul
  rw [if_neg (by rw [mform_zero_iff h.odd hm]; exact hm0), hEp, hEi, mrow_length]
  rw [mapM_eq_map _ (fun i => mform p ((v.getD i 0 + (p - m * w.getD i 0 % p)) % p))]
  · rw [Option.some.injEq]
    apply List.ext_getElem
    · simp [mrow, rowSubMul, hl]
    · intro i h1 h2
      have hi : i < v.length := by simpa using h1
      have hiw : i < w.length := by omega
      simp [mrow, rowSubMul, List.getD_eq_getElem?_getD, List.getElem?_eq_getElem hi, List.getElem?_eq_getElem hiw]
  · intro i hi
    have hi : i < v.length := List.mem_range.mp hi
    have hiw : i < w.length := by omega
    rw [mrow_getElem? p v i hi, mrow_getElem? p w i hiw]
    simp only [List.getD_eq_getElem?_getD, List.getElem?_eq_getElem hi, List.getElem?_eq_getElem hiw, Option.getD_some]
    by_cases hw0 : w[i] = 0
    · rw [if_pos (by rw [hw0]; simp [mform])]
      have : v[i] < p := hv _ (List.getElem_mem hi)
      rw [hw0, Nat.mul_zero, Nat.zero_mod, Nat.sub_zero, Nat.add_mod_right, Nat.mod_eq_of_lt this]
    · rw [if_neg (by rw [mform_zero_iff h.odd (hw _ (List.getElem_mem hiw))]; exact hw0)]
      obtain ⟨y, h1, h2, _, h4⟩ := subMul_entry h hpW v[i] m w[i] (hv _ (List.getElem_mem hi))
      rw [h1]
      simp only []
      rw [h2, h4]

end Ymq.IntMat
