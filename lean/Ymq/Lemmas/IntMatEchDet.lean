/-
Abstract core of `echelon_det`: if the rows `V t` of a square matrix are
`V t = f t • B t + Σ_{s<t} c t s • B s` for an echelon basis `B` whose pivot columns are given by a
permutation `σ` (`B t (σ t) = 1`, `B t (σ s) = 0` for `s < t`), then `det V = sign σ · ∏ f`.
This is the invariant kept by `GFpEchelonBuilder::add` and the formula evaluated by `det`.
-/
import Mathlib.LinearAlgebra.Matrix.Block
import Mathlib.LinearAlgebra.Matrix.Determinant.Basic

namespace Ymq.IntMat
open Matrix

variable {n : Nat} {R : Type*} [CommRing R]

/-- an echelon basis has determinant `sign σ` -/
theorem det_echelon_basis (B : Matrix (Fin n) (Fin n) R) (σ : Equiv.Perm (Fin n))
    (hone : ∀ t, B t (σ t) = 1) (hzero : ∀ t s, s < t → B t (σ s) = 0) :
    B.det = ((Equiv.Perm.sign σ : ℤ) : R) := by
  have htri : (B.submatrix id σ).IsUpperTriangular := by
    intro i j hij
    exact hzero i j hij
  have h1 : (B.submatrix id σ).det = 1 := by
    rw [det_of_isUpperTriangular htri]
    apply Finset.prod_eq_one
    intro i _
    exact hone i
  rw [det_permute'] at h1
  -- sign σ * det B = 1 and sign σ = ±1
  have hs : ((Equiv.Perm.sign σ : ℤ) : R) * ((Equiv.Perm.sign σ : ℤ) : R) = 1 := by
    rcases Int.units_eq_one_or (Equiv.Perm.sign σ) with h | h <;> simp [h]
  calc B.det = (((Equiv.Perm.sign σ : ℤ) : R) * ((Equiv.Perm.sign σ : ℤ) : R)) * B.det := by rw [hs, one_mul]
    _ = ((Equiv.Perm.sign σ : ℤ) : R) * (((Equiv.Perm.sign σ : ℤ) : R) * B.det) := by ring
    _ = ((Equiv.Perm.sign σ : ℤ) : R) := by rw [h1, mul_one]

/-- **determinant of an echelonised matrix** -/
theorem det_of_echelon (V B : Matrix (Fin n) (Fin n) R) (σ : Equiv.Perm (Fin n)) (f : Fin n → R)
    (c : Fin n → Fin n → R)
    (hone : ∀ t, B t (σ t) = 1) (hzero : ∀ t s, s < t → B t (σ s) = 0)
    (hrow : ∀ t, V t = f t • B t + ∑ s ∈ Finset.univ.filter (· < t), c t s • B s) :
    V.det = ((Equiv.Perm.sign σ : ℤ) : R) * ∏ t, f t := by
  -- V = L * B with L lower triangular, diagonal f
  let L : Matrix (Fin n) (Fin n) R := fun t s => if s < t then c t s else if s = t then f t else 0
  have hL : L.IsLowerTriangular := by
    intro i j hij
    have hij' : i < j := hij
    simp only [L]
    rw [if_neg (by omega), if_neg (by omega)]
  have hVL : V = L * B := by
    ext t col
    rw [hrow t, Matrix.mul_apply]
    simp only [Pi.add_apply, Pi.smul_apply, Finset.sum_apply, smul_eq_mul]
    -- split the sum over s into s < t, s = t, s > t
    have : ∑ s, L t s * B s col =
        ∑ s ∈ Finset.univ.filter (· < t), c t s * B s col + f t * B t col := by
      rw [← Finset.sum_filter_add_sum_filter_not Finset.univ (· < t)]
      congr 1
      · apply Finset.sum_congr rfl
        intro s hs
        have : s < t := (Finset.mem_filter.mp hs).2
        simp only [L, if_pos this]
      · rw [Finset.sum_eq_single t]
        · simp [L]
        · intro s hs hne
          have : ¬ s < t := (Finset.mem_filter.mp hs).2
          simp only [L, if_neg this, if_neg hne, zero_mul]
        · intro ht
          exfalso; apply ht
          rw [Finset.mem_filter]
          exact ⟨Finset.mem_univ _, lt_irrefl t⟩
    rw [this]; ring
  rw [hVL, det_mul, det_of_isLowerTriangular L hL, det_echelon_basis B σ hone hzero]
  have : ∏ i, L i i = ∏ t, f t := by
    apply Finset.prod_congr rfl
    intro i _
    simp [L]
  rw [this]; ring

/-- a row that is a combination of the basis rows before it makes the determinant vanish: rows
`t < k` as in `det_of_echelon`, row `k` without a term in `B k`, rows `t > k` arbitrary -/
theorem det_zero_of_dependent (V B : Matrix (Fin n) (Fin n) R) (k : Fin n) (f : Fin n → R)
    (c : Fin n → Fin n → R)
    (hlt : ∀ t, t < k → V t = f t • B t + ∑ s ∈ Finset.univ.filter (· < t), c t s • B s)
    (hk : V k = ∑ s ∈ Finset.univ.filter (· < k), c k s • B s) :
    V.det = 0 := by
  -- V = L * B' with B' t = B t for t ≤ k and B' t = V t for t > k; L k k = 0
  let B' : Matrix (Fin n) (Fin n) R := fun t => if t ≤ k then B t else V t
  let L : Matrix (Fin n) (Fin n) R := fun t s =>
    if t < k then (if s < t then c t s else if s = t then f t else 0)
    else if t = k then (if s < t then c t s else 0)
    else (if s = t then 1 else 0)
  have hL : L.IsLowerTriangular := by
    intro i j hij
    have hij' : i < j := hij
    simp only [L]
    split
    · rw [if_neg (by omega), if_neg (by omega)]
    · split
      · rw [if_neg (by omega)]
      · rw [if_neg (by omega)]
  have hB's : ∀ t s : Fin n, s < t → t ≤ k → B' s = B s := by
    intro t s hst htk
    simp only [B']; rw [if_pos (by omega)]
  have hVL : V = L * B' := by
    ext t col
    rw [Matrix.mul_apply]
    rcases lt_trichotomy t k with htk | htk | htk
    · rw [hlt t htk]
      simp only [Pi.add_apply, Pi.smul_apply, Finset.sum_apply, smul_eq_mul]
      have : ∑ s, L t s * B' s col =
          ∑ s ∈ Finset.univ.filter (· < t), c t s * B s col + f t * B t col := by
        rw [← Finset.sum_filter_add_sum_filter_not Finset.univ (· < t)]
        congr 1
        · apply Finset.sum_congr rfl
          intro s hs
          have hst : s < t := (Finset.mem_filter.mp hs).2
          simp only [L, if_pos htk, if_pos hst]
          rw [hB's t s hst (le_of_lt htk)]
        · rw [Finset.sum_eq_single t]
          · simp only [L, if_pos htk, lt_irrefl, if_false, if_true]
            have : B' t = B t := by simp only [B']; rw [if_pos (le_of_lt htk)]
            rw [this]
          · intro s hs hne
            have : ¬ s < t := (Finset.mem_filter.mp hs).2
            simp only [L, if_pos htk, if_neg this, if_neg hne, zero_mul]
          · intro ht
            exfalso; apply ht
            rw [Finset.mem_filter]
            exact ⟨Finset.mem_univ _, lt_irrefl t⟩
      rw [this]; ring
    · subst htk
      rw [hk]
      simp only [Finset.sum_apply, Pi.smul_apply, smul_eq_mul]
      rw [← Finset.sum_filter_add_sum_filter_not Finset.univ (· < t)]
      have h2 : ∑ s ∈ Finset.univ.filter (fun s => ¬ s < t), L t s * B' s col = 0 := by
        apply Finset.sum_eq_zero
        intro s hs
        have : ¬ s < t := (Finset.mem_filter.mp hs).2
        simp only [L, lt_irrefl, if_false, if_true, if_neg this, zero_mul]
      rw [h2, add_zero]
      apply Finset.sum_congr rfl
      intro s hs
      have hst : s < t := (Finset.mem_filter.mp hs).2
      simp only [L, lt_irrefl, if_false, if_true, if_pos hst]
      rw [hB's t s hst (le_refl _)]
    · rw [Finset.sum_eq_single t]
      · have h1 : ¬ t < k := by omega
        have h2 : ¬ t = k := by omega
        simp only [L, if_neg h1, if_neg h2, if_true, one_mul]
        simp only [B']; rw [if_neg (by omega)]
      · intro s _ hne
        have h1 : ¬ t < k := by omega
        have h2 : ¬ t = k := by omega
        simp only [L, if_neg h1, if_neg h2, if_neg hne, zero_mul]
      · intro ht; exact absurd (Finset.mem_univ t) ht
  rw [hVL, det_mul, det_of_isLowerTriangular L hL]
  have : ∏ i, L i i = 0 := by
    apply Finset.prod_eq_zero (Finset.mem_univ k)
    simp [L]
  rw [this, zero_mul]

end Ymq.IntMat
