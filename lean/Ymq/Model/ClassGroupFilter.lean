/-
Model of `relationcls::RelFilterSparse` (src/relationcls.rs): the structured Gauss elimination
that shrinks the relation matrix of a class group computation before the dense linear algebra:
`new`, `coeff`, `pivot_one`, `pivot`, `save_removed`, `remove_duplicates`, `trim`, `add_index`,
`remove_row`, `rowsub`, and the filtering loop of `group_structure_dense`.

`BTreeMap`/`BTreeSet` are key-sorted association lists / sorted lists; `Vec` is `List` (`nextelims.pop()`
takes the last element). `i32` arithmetic done with `checked_*` returns the `overflow` outcome the
code reports with `None`; plain `i32`/`usize` overflow, `unwrap`, `assert!`, indexing out of range
return `none` (= panic in the checked profile). Loops take fuel.
Domain note: `coeff` is a binary search by prime; the model looks the prime up from the left, which
is the same whenever the primes of a row are distinct (true for sieved relations).
No Mathlib import: this file is linked into the native driver.
-/
import Ymq.Model.ClassGroup

namespace Ymq.ClassGroup.Filter
open Ymq.ClassGroup

abbrev Row := List (Nat × Int)

/-- `i32` range -/
def chk32 (z : Int) : Option Int := if -2147483648 ≤ z ∧ z < 2147483648 then some z else none

/-! ### sorted maps with `Nat` keys -/

def mLookup {β} (k : Nat) : List (Nat × β) → Option β
  | [] => none
  | (k', v) :: t => if k = k' then some v else mLookup k t

def mInsert {β} (k : Nat) (v : β) : List (Nat × β) → List (Nat × β)
  | [] => [(k, v)]
  | (k', v') :: t =>
    if k = k' then (k, v) :: t
    else if k < k' then (k, v) :: (k', v') :: t
    else (k', v') :: mInsert k v t

def mErase {β} (k : Nat) : List (Nat × β) → List (Nat × β)
  | [] => []
  | (k', v') :: t => if k = k' then t else (k', v') :: mErase k t

/-- `entry(k).and_modify(f)` : only when the key exists -/
def mModify {β} (k : Nat) (f : β → β) : List (Nat × β) → List (Nat × β)
  | [] => []
  | (k', v') :: t => if k = k' then (k', f v') :: t else (k', v') :: mModify k f t

def sInsert (k : Nat) : List Nat → List Nat
  | [] => [k]
  | k' :: t => if k = k' then k' :: t else if k < k' then k :: k' :: t else k' :: sInsert k t

/-! ### ordering of rows (`Vec<(u32, i32)>` derives the lexicographic order) -/

def entryLt (x y : Nat × Int) : Bool := x.1 < y.1 || (x.1 = y.1 && x.2 < y.2)

def rowLt : Row → Row → Bool
  | [], [] => false
  | [], _ :: _ => true
  | _ :: _, [] => false
  | x :: xs, y :: ys => if entryLt x y then true else if entryLt y x then false else rowLt xs ys

def insertBy {α} (lt : α → α → Bool) (x : α) : List α → List α
  | [] => [x]
  | y :: t => if lt x y then x :: y :: t else y :: insertBy lt x t

/-- `sort()` (any correct sort gives the same list up to equal elements, which are identical) -/
def sortBy {α} (lt : α → α → Bool) (l : List α) : List α := l.foldr (insertBy lt) []

def dedup {α} [BEq α] : List α → List α
  | [] => []
  | [x] => [x]
  | x :: y :: t => if x == y then dedup (y :: t) else x :: dedup (y :: t)

/-! ### state -/

structure FSt where
  rows : List Row
  weight : List (Nat × Nat)
  nonzero : List (Nat × List Nat)
  removed : List (Nat × Row) := []
  skip : List Nat := []
  wmin : Nat := 0
  nextelims : List Nat := []
  nonzeroRows : Nat
  nonzeroCoeffs : Nat
  deriving Repr

/-- the entries of a relation: factors, then the large primes -/
def relRow (r : Rel) : Row :=
  r.factors ++ (match r.large1 with | some pe => [pe] | none => [])
    ++ (match r.large2 with | some pe => [pe] | none => [])

/-- a relation as a sorted row; empty rows are dropped -/
def rowOf (r : Rel) : Option Row :=
  if (sortBy entryLt (relRow r)).isEmpty then none else some (sortBy entryLt (relRow r))

/-- `RelFilterSparse::new(rels)` -/
def FSt.new (rels : List Rel) : FSt :=
  let rows : List Row := rels.filterMap rowOf
  let weight := rows.foldl (fun w r => r.foldl (fun w pe =>
    match mLookup pe.1 w with
    | some c => mInsert pe.1 (c + 1) w
    | none => mInsert pe.1 1 w) w) []
  let nz0 : List (Nat × List Nat) := weight.map fun (p, _) => (p, [])
  let rec fill (i : Nat) : List Row → List (Nat × List Nat) → List (Nat × List Nat)
    | [], nz => nz
    | r :: t, nz => fill (i + 1) t (r.foldl (fun nz pe => mModify pe.1 (· ++ [i]) nz) nz)
  { rows := rows, weight := weight, nonzero := fill 0 rows nz0,
    nonzeroRows := rows.length, nonzeroCoeffs := rows.foldl (fun a r => a + r.length) 0 }

/-- `coeff(idx, p)`; `none` = index out of range -/
def FSt.coeff (s : FSt) (idx p : Nat) : Option Int :=
  match s.rows[idx]? with
  | none => none
  | some row => some ((row.lookup p).getD 0)

/-- `add_index(idx, p)` -/
def FSt.addIndex (s : FSt) (idx p : Nat) : FSt :=
  { s with nonzero := mModify p (· ++ [idx]) s.nonzero, weight := mModify p (· + 1) s.weight }

/-- `weight.entry(p).and_modify(|w| *w = w.checked_sub(1).unwrap())` for every entry of a row -/
def decWeights : Row → List (Nat × Nat) → Option (List (Nat × Nat))
  | [], w => some w
  | pe :: t, w =>
    match mLookup pe.1 w with
    | some 0 => none
    | some _ => decWeights t (mModify pe.1 (· - 1) w)
    | none => decWeights t w

/-- `remove_row(idx)` -/
def FSt.removeRow (s : FSt) (idx : Nat) : Option FSt :=
  match s.rows[idx]? with
  | none => none
  | some row =>
    if row.isEmpty then some s
    else
      match decWeights row s.weight with
      | none => none
      | some w =>
        if s.nonzeroRows = 0 ∨ s.nonzeroCoeffs < row.length then none
        else some { s with weight := w, nonzeroRows := s.nonzeroRows - 1,
                           nonzeroCoeffs := s.nonzeroCoeffs - row.length, rows := s.rows.set idx [] }

/-- outcome of the merge of `rowsub` -/
inductive Merge
  | ok (res : Row) (added : List Nat)
  | ovf (added : List Nat)            -- a `checked_*` failed: the primes added so far were already indexed

/-- the `while ii < li || jj < lj` loop of `rowsub` on the two rows; `nc = -c` -/
def merge (nc : Int) : Nat → Row → Row → Row → List Nat → Merge
  | 0, _, _, res, added => .ok res.reverse added.reverse
  | _ + 1, [], [], res, added => .ok res.reverse added.reverse
  | f + 1, (pi, ei) :: ti, [], res, added => merge nc f ti [] ((pi, ei) :: res) added
  | f + 1, [], (pj, ej) :: tj, res, added =>
    match chk32 (ej * nc) with
    | none => .ovf added.reverse
    | some e => merge nc f [] tj ((pj, e) :: res) (pj :: added)
  | f + 1, (pi, ei) :: ti, (pj, ej) :: tj, res, added =>
    if pi < pj then merge nc f ti ((pj, ej) :: tj) ((pi, ei) :: res) added
    else if pi > pj then
      match chk32 (ej * nc) with
      | none => .ovf added.reverse
      | some e => merge nc f ((pi, ei) :: ti) tj ((pj, e) :: res) (pj :: added)
    else
      match chk32 (ej * nc) with
      | none => .ovf added.reverse
      | some m =>
        match chk32 (ei + m) with
        | none => .ovf added.reverse
        | some e => merge nc f ti tj (if e ≠ 0 then (pi, e) :: res else res) added

/-- result of an operation that may report overflow (`None` of the Rust code) -/
inductive Out
  | panic
  | ovf (s : FSt)
  | ok (s : FSt)

/-- end of `rowsub`: counters, `self.rows[i] = res` (`li` = old length of the row) -/
def FSt.setRow (s : FSt) (i li : Nat) (res : Row) : Out :=
  if s.nonzeroCoeffs + res.length < li then .panic
  else if res.isEmpty ∧ s.nonzeroRows = 0 then .panic
  else .ok { s with nonzeroCoeffs := s.nonzeroCoeffs + res.length - li,
                    nonzeroRows := if res.isEmpty then s.nonzeroRows - 1 else s.nonzeroRows,
                    rows := s.rows.set i res }

/-- `rowsub(i, j, c)`: `row[i] -= c * row[j]` -/
def FSt.rowsub (s : FSt) (i j : Nat) (c : Int) : Out :=
  if c = 0 ∨ i = j then .panic else                          -- debug_assert!(c != 0 && i != j)
  match s.rows[i]?, s.rows[j]?, chk32 (-c) with
  | some ri, some rj, some nc =>
    match merge nc (ri.length + rj.length + 1) ri rj [] [] with
    | .ovf added => .ovf (added.foldl (fun s p => s.addIndex i p) s)
    | .ok res added => (added.foldl (fun s p => s.addIndex i p) s).setRow i ri.length res
  | _, _, _ => .panic

/-- `save_removed(p, rel)` -/
def FSt.saveRemoved (s : FSt) (p : Nat) (rel : Row) : Option FSt :=
  let ci := (rel.lookup p).getD 0
  let rest := rel.eraseP (fun pe => pe.1 = p)
  if ci.natAbs ≠ 1 then none                                  -- assert!(ci.unsigned_abs() == 1)
  else
    let rest := if ci = 1 then rest.map (fun pe => (pe.1, -pe.2)) else rest
    some { s with removed := s.removed ++ [(p, rest)] }

/-- `pivot(p)`; `.ovf` = the code returns `None` (no row with coefficient ±1, or overflow) -/
def FSt.pivot (s : FSt) (p : Nat) : Out :=
  match mLookup p s.nonzero with
  | none => .panic                                            -- nonzero.get(&p).unwrap()
  | some nz =>
    -- the shortest row with coefficient ±1 (first one among equals)
    let pick (acc : Option (Option Nat)) (i : Nat) : Option (Option Nat) :=
      match acc with
      | none => none
      | some idx =>
        match s.coeff i p with
        | none => none
        | some c =>
          if c.natAbs ≠ 1 then some idx
          else match idx with
            | none => some (some i)
            | some j =>
              match s.rows[i]?, s.rows[j]? with
              | some ri, some rj => if ri.length < rj.length then some (some i) else some (some j)
              | _, _ => none
    match nz.foldl pick (some none) with
    | none => .panic
    | some none => .ovf s
    | some (some idx) =>
      match s.coeff idx p with
      | none => .panic
      | some ci =>
        let step (acc : Out) (j : Nat) : Out :=
          match acc with
          | .ok s =>
            if j = idx then .ok s
            else match s.coeff j p with
              | none => .panic
              | some cj =>
                if cj = 0 then .ok s
                else match chk32 (cj * ci) with
                  | none => .panic
                  | some c => s.rowsub j idx c
          | o => o
        match nz.foldl step (.ok s) with
        | .panic => .panic
        | .ovf s => .ovf s
        | .ok s =>
          match s.rows[idx]? with
          | none => .panic
          | some ri =>
            match s.removeRow idx with
            | none => .panic
            | some s =>
              let s := { s with weight := mErase p s.weight, nonzero := mErase p s.nonzero }
              match s.saveRemoved p ri with
              | none => .panic
              | some s => .ok s

/-- `pivot_one()`: `.ok` = `Some(())`, `.ovf` = `None`. `inQ = false`: at the top of the outer `while`
(its condition is tested, candidates are fetched when none are left); `inQ = true`: inside `'qloop`. -/
def FSt.pivotLoop : Nat → Bool → FSt → Out
  | 0, _, _ => .panic
  | fuel + 1, false, s =>
    if ¬ (s.wmin < s.rows.length) then .ovf s
    else if s.nextelims.isEmpty then
      let wmin := if s.wmin < 50 then s.wmin + 1 else s.wmin + 2
      let cands := (s.weight.filter fun (q, wq) => wq ≤ wmin && !s.skip.contains q).map (·.1)
      FSt.pivotLoop fuel true { s with wmin := wmin, nextelims := cands }
    else FSt.pivotLoop fuel true s
  | fuel + 1, true, s =>
    match s.nextelims.getLast? with
    | none => FSt.pivotLoop fuel false s
    | some q =>
      -- one candidate (largest first)
      let s := { s with nextelims := s.nextelims.dropLast }
      match mLookup q s.nonzero with
      | some nz =>
        let scan (acc : Option (Bool × Nat)) (idx : Nat) : Option (Bool × Nat) :=
          match acc with
          | none => none
          | some (cp, w) =>
            match s.coeff idx q with
            | none => none
            | some c => some (cp || c.natAbs = 1, if c ≠ 0 then w + 1 else w)
        match nz.foldl scan (some (false, 0)) with
        | none => .panic
        | some (canPivot, w) =>
          if w > s.wmin then FSt.pivotLoop fuel true s
          else if canPivot then s.pivot q
          else FSt.pivotLoop fuel true { s with skip := sInsert q s.skip }
      | none => FSt.pivotLoop fuel true { s with skip := sInsert q s.skip }

def FSt.pivotOne (fuel : Nat) (s : FSt) : Out := FSt.pivotLoop fuel false s

def FSt.pivotFuel (s : FSt) : Nat := (s.rows.length + 3) * (s.weight.length + 4) + 2 * s.nextelims.length + 4

/-- `trim(count)`: returns the state and the value returned -/
def FSt.trim (s : FSt) (count : Nat) : Option (FSt × Nat) :=
  let n := s.weight.length + 1
  -- counts[r.len()] += 1
  if s.rows.any (fun r => r.length ≥ n) then none
  else
    let counts (k : Nat) : Nat := (s.rows.filter (fun r => r.length = k)).length
    let rec thr : Nat → Nat → Nat × Nat          -- (threshold, trimmed), recursion on threshold
      | 0, trimmed => (0, trimmed)
      | t + 1, trimmed => if trimmed + counts t < count then thr t (trimmed + counts t) else (t + 1, trimmed)
    let (threshold, trimmed) := thr n 0
    let step (acc : Option FSt) (idx : Nat) : Option FSt :=
      match acc with
      | none => none
      | some s => match s.rows[idx]? with
        | none => none
        | some r => if r.length ≥ threshold then s.removeRow idx else some s
    match (List.range s.rows.length).foldl step (some s) with
    | none => none
    | some s => some (s, trimmed)

/-- `swap_remove(i)` -/
def swapRemove {α} (l : List α) (i : Nat) : List α :=
  match l.getLast? with
  | none => l
  | some last => if i + 1 = l.length then l.dropLast else (l.set i last).dropLast

/-- the loop `for i in 0..n0 { while i < rows.len() && rows[i].is_empty() { rows.swap_remove(i); } }` -/
def dropEmpty : Nat → Nat → Nat → List Row → List Row
  | 0, _, _, rows => rows
  | fuel + 1, i, n0, rows =>
    if i ≥ n0 then rows
    else match rows[i]? with
      | some [] => dropEmpty fuel i n0 (swapRemove rows i)
      | _ => dropEmpty fuel (i + 1) n0 rows

/-- `remove_duplicates()`: returns the state and the number of rows dropped as duplicates -/
def FSt.removeDuplicates (s : FSt) : FSt × Nat :=
  let rows := dropEmpty (2 * s.rows.length + 2) 0 s.rows.length s.rows
  let l := rows.length
  let rows := rows.map fun row => match row with
    | (_, e) :: _ => if e < 0 then row.map (fun pe => (pe.1, -pe.2)) else row
    | [] => row
  let rows := dedup (sortBy rowLt rows)
  ({ s with rows := rows }, l - rows.length)

/-- the body of the filtering loop of `group_structure_dense` after a successful `pivot_one` -/
def maybeTrim (s : FSt) : Option FSt :=
  if s.weight.length % 64 = 0 ∧ s.nonzeroRows > s.weight.length + s.weight.length / 2 + 128 then
    match s.trim (s.nonzeroRows - (s.weight.length + s.weight.length / 2 + 128)) with
    | none => none
    | some (s, _) => some s
  else some s

/-- the filtering loop of `group_structure_dense` (`remove_duplicates` follows) -/
def filterLoop : Nat → FSt → Option FSt
  | 0, _ => none
  | fuel + 1, s =>
    match s.pivotOne s.pivotFuel with
    | .panic => none
    | .ovf s => some s
    | .ok s =>
      match maybeTrim s with
      | none => none
      | some s => filterLoop fuel s

def filterDense (rels : List Rel) : Option (FSt × Nat) :=
  let s := FSt.new rels
  match filterLoop (s.weight.length + 2) s with
  | none => none
  | some s => some s.removeDuplicates

/-- at most `steps` successful `pivot_one` calls -/
def pivots : Nat → FSt → Nat → Option (FSt × Nat)
  | 0, s, n => some (s, n)
  | k + 1, s, n =>
    match s.pivotOne s.pivotFuel with
    | .panic => none
    | .ovf s => some (s, n)
    | .ok s => pivots k s (n + 1)

end Ymq.ClassGroup.Filter
