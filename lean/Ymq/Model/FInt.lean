/-
Word-exact model of the Fermat-number type `FInt<N>` of src/arith_fft.rs (integers modulo
`F = 2^(64N) + 1`), of `butterfly`, of the recursive `fft` and of `mulfft` (property C10).

An `FInt<N>` is `⟨ws, top⟩`: the `N` words `self.0` (little endian, `N = ws.length`) and the
extra word `self.1`; its value is `val ws + top·2^(64N)`. The code's normal form is
`top = 0`, or `top = 1` with all words zero (the residue `2^(64N) ≡ -1`).

Conventions as in Ymq/Model/Mg64.lean: every panic site of the checked profile
(`debug_assert!(is_reduced)`, u32/u64 overflow and underflow, slice/index range) is `none`.
`_add_slices` is `Limbs.addc` with initial carry 0; `_sub_slices`, the ripple loops of `reduce`
and `add_small` and the bit-shift loop of `shl` are transcribed loop by loop.
`FInt::mul` multiplies the two word vectors with a Karatsuba routine (`kmul`: split, the three
recursive products, every carry, `mulbasic` below 17 words), then `FInt(z[0], 0).sub(&FInt(z[1], 0))`.
No Mathlib import: this file is linked into the native driver.
-/
import Ymq.Model.Limbs

namespace Ymq.FInt
open Ymq.Limbs

structure FI where
  ws : List Nat
  top : Nat
deriving Repr, DecidableEq, Inhabited

/-- `FInt::default()` -/
def zero (N : Nat) : FI := ⟨zeros N, 0⟩

/-- the integer represented: `val ws + top·W^N` -/
def FI.value (x : FI) : Nat := val x.ws + W ^ x.ws.length * x.top

/-- `F = 2^(64N) + 1` -/
def Fmod (N : Nat) : Nat := W ^ N + 1

/-- `FInt::is_reduced` (as written: any `top ≠ 1` passes) -/
def isReduced (x : FI) : Bool := if x.top = 1 then allZero x.ws else true

/-- `_sub_slices(z, x)`: `z -= x` over `x.len()` words, returns (words, borrow) -/
def subSlices : List Nat → List Nat → Nat → List Nat × Nat
  | z :: zs, x :: xs, c =>
    let xx := x + c
    if xx ≥ W then
      -- `xi.overflowing_add(carry)` overflowed: xxi = 0, `*zi = zi.wrapping_sub(0)`, carry = 1
      let r := subSlices zs xs 1
      (z :: r.1, r.2)
    else if z ≥ xx then
      let r := subSlices zs xs 0
      ((z - xx) :: r.1, r.2)
    else
      let r := subSlices zs xs 1
      ((z + W - xx) :: r.1, r.2)
  | zs, _, c => (zs, c)

/-- `for i in 0..N { (z[i], c) = z[i].overflowing_sub(carry); if !c { carry = 0; break } else { carry = 1 } }` -/
def subRipple : List Nat → Nat → List Nat × Nat
  | [], c => ([], c)
  | z :: zs, c =>
    if z ≥ c then ((z - c) :: zs, 0)
    else
      let r := subRipple zs 1
      ((z + W - c) :: r.1, r.2)

/-- `for i in 0..N { (z[i], c) = z[i].overflowing_add(carry); if !c { carry = 0; break } else { carry = 1 } }` -/
def addRipple : List Nat → Nat → List Nat × Nat
  | [], c => ([], c)
  | z :: zs, c =>
    if z + c < W then ((z + c) :: zs, 0)
    else
      let r := addRipple zs 1
      ((z + c - W) :: r.1, r.2)

/-- `FInt::reduce` -/
def reduce (x : FI) : Option FI :=
  match x.ws with
  | [] => none                                   -- z[0]: index out of bounds
  | z0 :: zs =>
    if z0 ≥ x.top then some ⟨(z0 - x.top) :: zs, 0⟩
    else
      let r := subRipple x.ws x.top
      if r.2 = 1 then
        let r2 := addRipple r.1 1
        some ⟨r2.1, r2.2⟩
      else some ⟨r.1, 0⟩

/-- `FInt::add_assign` -/
def addAssign (x y : FI) : Option FI :=
  let r := addc x.ws y.ws 0
  if r.2 + y.top ≥ W ∨ x.top + (r.2 + y.top) ≥ W then none      -- `self.1 += carry + rhs.1`
  else reduce ⟨r.1, x.top + (r.2 + y.top)⟩

/-- `FInt::add_small(x)`; the result is NOT normalised -/
def addSmall (a : FI) (x : Nat) : Option FI :=
  match a.ws with
  | [] => none
  | z0 :: zs =>
    let t := z0 + x
    let r := addRipple zs (t / W)
    if r.2 = 0 then some ⟨t % W :: r.1, a.top⟩
    else if a.top + 1 ≥ W then none                              -- `self.1 += 1`
    else some ⟨t % W :: r.1, a.top + 1⟩

/-- `FInt::sub_assign` -/
def subAssign (x y : FI) : Option FI :=
  let r := if y.top = 1 then (x.ws, 1) else subSlices x.ws y.ws 0
  match (if r.2 = 1 then addSmall ⟨r.1, x.top⟩ 1 else some ⟨r.1, x.top⟩) with
  | none => none
  | some x' => reduce x'

/-- `FInt::add` (with its `debug_assert!(is_reduced)`) -/
def add (x y : FI) : Option FI :=
  if !isReduced x || !isReduced y then none else addAssign x y

/-- `FInt::sub` -/
def sub (x y : FI) : Option FI :=
  if !isReduced x || !isReduced y then none else subAssign x y

/-- `butterfly(x, y)`: replaces `(x, y)` by `(x + y, x - y)` -/
def butterfly (x y : FI) : Option (FI × FI) :=
  if x.top = 1 ∨ y.top = 1 then
    match add x y, sub x y with
    | some a, some b => some (a, b)
    | _, _ => none
  else
    let ra := addc x.ws y.ws 0
    let rs := subc x.ws y.ws 1                    -- xi + !yi + carry_sub, carry_sub = 1 initially
    if x.top + ra.2 ≥ W then none                 -- `x.1 += carry_add`
    else
      match (if rs.2 = 0 then addSmall ⟨rs.1, y.top⟩ 1 else some ⟨rs.1, y.top⟩) with
      | none => none
      | some y' =>
        match reduce ⟨ra.1, x.top + ra.2⟩, reduce y' with
        | some a, some b => some (a, b)
        | _, _ => none

/-! ### the product of the word vectors inside `FInt::mul` -/

/-- inner loop of `mulbasic` for one word `a = p[i]`: `xy = a·q[j] + carry` (u128), `z[i+j] += xy as u64`,
`carry = (xy >> 64) + overflow` (u64); `none` = an overflow check of the checked profile fires -/
def macRowChk (a : Nat) : List Nat → List Nat → Nat → Option (List Nat × Nat)
  | y :: ys, z :: zs, c =>
    let xy := a * y + c
    if xy ≥ 2 ^ 128 then none
    else
      let s := z + xy % W
      let carry := xy / W + s / W
      if carry ≥ W then none
      else
        match macRowChk a ys zs carry with
        | none => none
        | some (r, c') => some (s % W :: r, c')
  | _, _, c => some ([], c)

/-- outer loop of `mulbasic(z, p, q)` from row `i` on: `z[i .. i+|q|]` accumulates `p[i]·q`,
`z[i + q.len()] = carry` -/
def mulBasicRows : List Nat → List Nat → Nat → List Nat → Option (List Nat)
  | [], _, _, z => some z
  | a :: ps, q, i, z =>
    if z.length < i + q.length + 1 then none                       -- z[i + q.len()]
    else
      match macRowChk a q ((z.drop i).take q.length) 0 with
      | none => none
      | some (r, c) => mulBasicRows ps q (i + 1) (z.take i ++ r ++ [c] ++ z.drop (i + q.length + 1))

/-- the middle product with its carries: from `zmid = zl·zr` (`zl`, `zr` the low `half` words of
`plo + phi`, `qlo + qhi`, carries `cp`, `cq`): `carry = carryp & carryq`,
`if carryq == 1 { carry += _add_slices(&mut zmid[half..], zl) }`,
`if carryp == 1 { carry += _add_slices(&mut zmid[half..], zr) }`; returns (`zmid`, `carrymid`) -/
def midCarry (zmid zl zr : List Nat) (cp cq half : Nat) : List Nat × Nat :=
  let c0 := if cp = 1 ∧ cq = 1 then 1 else 0
  let m1 := if cq = 1 then
      (zmid.take half ++ (addc (zmid.drop half) zl 0).1, c0 + (addc (zmid.drop half) zl 0).2)
    else (zmid, c0)
  if cp = 1 then
    (m1.1.take half ++ (addc (m1.1.drop half) zr 0).1, m1.2 + (addc (m1.1.drop half) zr 0).2)
  else m1

/-- the recombination: subtract `blo`, `bhi` from the middle (`_sub_slices` twice), store
`carrymid - (carrylo + carryhi)` above it, add `blo` to `z[..n]` and `bhi` to `z[n..]`, propagate the
carry of the low half (commit b8c535f), `debug_assert!(carry2 == 0)` -/
def karaCombine (m2 : List Nat × Nat) (blo bhi : List Nat) (half n : Nat) : Option (List Nat) :=
  let s1 := subSlices m2.1 blo 0
  let s2 := subSlices s1.1 bhi 0
  if m2.2 < s1.2 + s2.2 then none                                  -- carrymid - (carrylo + carryhi)
  else if m2.2 - (s1.2 + s2.2) > 1 then none                       -- debug_assert!
  else
    let z := zeros half ++ s2.1 ++ [m2.2 - (s1.2 + s2.2)] ++ zeros (half - 1)
    let a1 := addc (z.take n) blo 0
    let a2 := addc (z.drop n) bhi 0
    let hi := if a1.2 = 1 then ((addRipple a2.1 1).1, a2.2 + (addRipple a2.1 1).2) else a2
    if hi.2 ≠ 0 then none                                          -- debug_assert!(carry2 == 0)
    else some (a1.1 ++ hi.1)

/-- `karatsuba(z, p, q, tmp)` inside `FInt::mul`, with `|z| = 2|p|`, `|q| = |p|` and `|tmp| = tl`: returns
the new contents of `z`. Every call zero-fills its `z` first and `tmp` is only read after the
recursive calls have written it (`blo`, `bhi`), so the previous contents of neither buffer matter and
only the length of `tmp` is modelled. Carries exactly as in the code (after commit b8c535f). -/
def kmul : Nat → Nat → List Nat → List Nat → Option (List Nat)
  | 0, _, _, _ => none
  | f + 1, tl, p, q =>
    let n := p.length
    if q.length ≠ n then none                                        -- &q[half..n] / zr.copy_from_slice
    else if n ≤ 16 then mulBasicRows p q 0 (zeros (2 * n))
    else
      let half := n / 2
      if n % 2 = 1 then none                                         -- zr has n - half words: copy_from_slice
      else if tl < 2 * n then none                                   -- tmp.split_at_mut(2 * n)
      else
        let sp := addc (p.take half) (p.drop half) 0                 -- zl, carryp
        let sq := addc (q.take half) (q.drop half) 0                 -- zr, carryq
        match kmul f tl sp.1 sq.1 with                               -- zmid
        | none => none
        | some zmid =>
          match kmul f (tl - 2 * n) (p.take half) (q.take half),
                kmul f (tl - 2 * n) (p.drop half) (q.drop half) with
          | some blo, some bhi => karaCombine (midCarry zmid sp.1 sq.1 sp.2 sq.2 half) blo bhi half n
          | _, _ => none

/-- recursion depth bound of `kmul` -/
def KFUEL : Nat := 64

/-- `FInt::mul`: both `top = 1` shortcuts, the Karatsuba product `mulk::<N>` (`z` of `2N`, `tmp` of `4N` words),
`FInt(z[0], 0).sub(&FInt(z[1], 0))` -/
def mul (x y : FI) : Option FI :=
  let N := x.ws.length
  if !isReduced x || !isReduced y then none
  else if x.top = 1 then sub (zero N) y
  else if y.top = 1 then sub (zero N) x
  else
    match kmul KFUEL (4 * N) x.ws y.ws with
    | none => none
    | some z => sub ⟨z.take N, 0⟩ ⟨z.drop N, 0⟩

/-- the bit-shift loop of `shl`: `wlo = (xi << sb) | carry; carry = xi >> (64 - sb)` -/
def shlBits (sb : Nat) : List Nat → Nat → List Nat × Nat
  | [], c => ([], c)
  | x :: xs, c =>
    let r := shlBits sb xs (x / 2 ^ (64 - sb))
    ((x * 2 ^ sb % W + c) :: r.1, r.2)

/-- the whole-word part of `shl` for `0 < sw < N` -/
def shlWordsLow (x : FI) (sw : Nat) : Option FI :=
  let N := x.ws.length
  let hi := x.ws.drop (N - sw)                   -- zhi[0..sw] = self.0[N - sw..N]
  let lo := x.ws.take (N - sw)                   -- self.0.copy_within(0..N - sw, sw)
  match hi, lo with
  | h0 :: hs, l0 :: ls =>
    if h0 ≠ 0 ∧ l0 > 0 then
      -- common case without carries
      some ⟨compl ((h0 - 1) :: hs) ++ (l0 - 1) :: ls, x.top⟩
    else
      let r := subSlices (zeros sw ++ lo) (hi ++ zeros (N - sw)) 0
      if r.2 = 1 then addSmall ⟨r.1, x.top⟩ 1 else some ⟨r.1, x.top⟩
  | _, _ => none

/-- the whole-word part of `shl` for `N < sw < 2N`, `swhi = sw - N` -/
def shlWordsHigh (x : FI) (swhi : Nat) : Option FI :=
  let N := x.ws.length
  let lo := x.ws.take (N - swhi)                 -- zlo[swhi..] = self.0[0..N - swhi]
  let hi := x.ws.drop (N - swhi)                 -- self.0.copy_within(N - swhi.., 0)
  match hi, lo with
  | h0 :: hs, l0 :: ls =>
    if l0 ≠ 0 ∧ h0 ≠ W - 1 then
      -- common case without carries
      some ⟨(h0 + 1) :: hs ++ compl ((l0 - 1) :: ls), x.top⟩
    else
      let r := subSlices (hi ++ zeros (N - swhi)) (zeros swhi ++ lo) 0
      if r.2 = 1 then addSmall ⟨r.1, x.top⟩ 1 else some ⟨r.1, x.top⟩
  | _, _ => none

/-- `shl` after `s %= 128 N`, for `self.1 ≠ 1` -/
def shlMain (x : FI) (s : Nat) : Option FI :=
  let N := x.ws.length
  if s = 0 then some x
  else
    let sw := s / 64
    let x1 : Option FI :=
      if sw = 0 then some x
      else if sw < N then shlWordsLow x sw
      else if sw = N then addSmall ⟨compl x.ws, x.top⟩ 2
      else shlWordsHigh x (sw - N)
    match x1 with
    | none => none
    | some x1 =>
      let sb := s % 64
      if sb > 0 then
        let r := shlBits sb x1.ws 0
        reduce ⟨r.1, x1.top * 2 ^ sb % W + r.2⟩      -- self.1 = (self.1 << sb) | carry
      else reduce x1

/-- `FInt::shl(s)`: multiply by `2^s` -/
def shl (x : FI) (s : Nat) : Option FI :=
  let N := x.ws.length
  if N = 0 then none                               -- `s % 0`
  else if !isReduced x then none                   -- debug_assert!(self.is_reduced())
  else
    let s := s % (128 * N)
    if x.top = 1 then
      -- -1 << s
      match shlMain ⟨1 :: zeros (N - 1), 0⟩ s with
      | none => none
      | some z => sub (zero N) z
    else shlMain x s

/-- `FInt::shr(s)`: `shl(128 N - s)` -/
def shr (x : FI) (s : Nat) : Option FI :=
  let N := x.ws.length
  if s = 0 then some x
  else if 128 * N < s then none                    -- `128 * N as u32 - s` underflows
  else shl x (128 * N - s)

/-- `FInt::twiddle(i, k)`: multiply by `ω^i`, `ω` a primitive `2^k`-th root of unity -/
def twiddle (x : FI) (i k : Nat) : Option FI :=
  let N := x.ws.length
  if k = 0 then some x
  else if 128 * i * N ≥ 2 ^ 32 then none           -- `128 * i * N as u32` overflows
  else if k ≥ 32 then none                         -- `>> k` on a u32
  else
    let shift := 128 * i * N / 2 ^ k
    let halfshift := i % 2 = 1 ∧ 2 ^ k = 256 * N
    let x1 : Option FI :=
      if halfshift then
        match shl x (16 * N), shl x (48 * N) with
        | some y, some s => sub s y
        | _, _ => none
      else some x
    match x1 with
    | none => none
    | some x1 => shl x1 shift

/-! ### the recursive transform -/

def evens {α} : List α → List α
  | a :: _ :: l => a :: evens l
  | [a] => [a]
  | [] => []

def odds {α} : List α → List α
  | _ :: b :: l => b :: odds l
  | _ => []

/-- twiddle + butterfly loop of `fft` over the two halves -/
def combine (k : Nat) (fwd : Bool) : Nat → List FI → List FI → Option (List FI × List FI)
  | _, [], _ => some ([], [])
  | _, _, [] => some ([], [])
  | idx, a :: as, b :: bs =>
    match twiddle b (if fwd then idx else 2 ^ k - idx) k with
    | none => none
    | some b' =>
      match butterfly a b' with
      | none => none
      | some (u, v) =>
        match combine k fwd (idx + 1) as bs with
        | none => none
        | some (us, vs) => some (u :: us, v :: vs)

/-- `fft(src, dst, depth, k, fwd)` on the strided view `xs[i] = src[i << depth]`, `i < 2^k` -/
def fft : Nat → List FI → Nat → Bool → Option (List FI)
  | 0, xs, depth, fwd =>
    match xs with
    | [x] => if fwd then some [x] else (shr x depth).map fun y => [y]
    | _ => none
  | k + 1, xs, depth, fwd =>
    if k = 0 then
      match xs with
      | [x0, x1] =>
        match addAssign x0 x1, subAssign x0 x1 with
        | some a, some b =>
          if fwd then some [a, b]
          else
            match shr a (depth + 1), shr b (depth + 1) with
            | some a', some b' => some [a', b']
            | _, _ => none
        | _, _ => none
      | _ => none
    else
      if xs.length ≠ 2 ^ (k + 1) then none
      else
        match fft k (evens xs) (depth + 1) fwd, fft k (odds xs) (depth + 1) fwd with
        | some e, some o =>
          match combine (k + 1) fwd 0 e o with
          | none => none
          | some (us, vs) => some (us ++ vs)
        | _, _ => none

def mulAll : List FI → List FI → Option (List FI)
  | a :: as, b :: bs =>
    match mul a b, mulAll as bs with
    | some c, some cs => some (c :: cs)
    | _, _ => none
  | _, _ => some []

def log2Exact : Nat → Nat → Option Nat
  | 0, _ => none
  | f + 1, l => if l = 1 then some 0 else if l % 2 = 1 ∨ l = 0 then none else (log2Exact f (l / 2)).map (· + 1)

/-- `mulfft(p1, p2)`: forward transforms, pointwise product, inverse transform -/
def mulfft (N : Nat) (p1 p2 : List FI) : Option (List FI) :=
  let l := p1.length
  if l ≠ p2.length then none
  else if l > 256 * N then none
  else
    match log2Exact 64 l with
    | none => none                                   -- assert_eq!(l & (l - 1), 0)
    | some k =>
      match fft k p1 0 true, fft k p2 0 true with
      | some f1, some f2 =>
        match mulAll f1 f2 with
        | none => none
        | some f => fft k f 0 false
      | _, _ => none

/-! ### conversion from/to the canonical representative `0 ≤ v ≤ 2^(64N)` -/

def ofValue (N v : Nat) : FI := if v = W ^ N then ⟨zeros N, 1⟩ else ⟨ofNat N v, 0⟩

end Ymq.FInt
