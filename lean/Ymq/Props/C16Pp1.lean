/-
C16, Williams P+1 end to end: theorems about the whole-function model of `pp1::pp1` (Ymq/Model/Pp1Impl.lean; tied to
the real code by the request `pp1_impl` of props/c16_pp1.py, which compares the complete returned value in both profiles).

What is proved here: every value the model returns — through any of its exits: a stage-1 gcd check (factor list
containing `n`, complete split, nothing found), the `g == 1` and `p > b1` exits of a block, the last `check_gcd_factors`
after stage 2 — is a proper split of `n`, for every `pseudoprime` oracle and whatever `roots_eval` returns; the giant
steps the model computes are indexed by exactly `i = 1 .. d2` (the set `pp1_cover` / `pp1_grid_exact` quantify over; the
repaired defect F8 was `0 .. d2 - 1`) and hold `V_{i·d1}`; the baby steps hold `V_b` for odd `b < d1/2` prime to `3·d1`
(plus `b = 1`); the entry panic sites.

What is NOT proved here: completeness of the baby-step list (every `b < d1/2` prime to `d1` is pushed: `pp1_grid_exact`
proves it for the index model `isPp1BabyOf`, the K stream ties both to the code), transport of the ring-level statements
to residues `a*b % m`, absence of panics, and the end-to-end "finds what the bounds promise" (pieces: C17,
`pp1_found`, `pp1_stage2_found_partial` below; glue: K stream).
-/
import Ymq.Lemmas.Pp1Impl
import Ymq.Lemmas.Pp1ImplExample
import Ymq.Props.C16

namespace Ymq.C16
open Ymq.Pp1Impl Ymq.ExpModn Ymq.Gen Ymq.Stage2
open Ymq.Pm1Impl (mulm subm)

/-- **`pp1` returns proper splits only.** For every `n > 0`, every seed, all bounds and every `pseudoprime` oracle: if
`pp1(n, seed, b1, b2)` returns `Some((factors, cofactor))` then `factors.prod · cofactor = n`, every listed factor is
`> 1` and different from `n`, the list is not empty and the cofactor is positive. -/
theorem pp1_proper {n seed b1 b2 : Nat} {pp : Nat → Bool} (hn : 0 < n) {fs : List Nat} {rest : Nat}
    (h : pp1 n seed b1 b2 pp = some (some (fs, rest))) :
    fs.prod * rest = n ∧ (∀ f ∈ fs, 1 < f) ∧ 0 < rest ∧ n ∉ fs ∧ fs ≠ [] :=
  pp1_proper' hn h fs rest rfl

/-- non-vacuity: a complete run inside the logic (sieve, stage 1, first gcd check), `pp1(77, 5, 4, 4) = Some(([7], 11))` -/
example : pp1 77 5 4 4 (fun _ => true) = some (some ([7], 11)) := ex_pp1

/-- the same for the second stage alone, from any state satisfying the invariant of `check_gcd_factors` -/
theorem pp1_stage2_proper {n : Nat} {pp : Nat → Bool} {m g d1 d2 : Nat} {factors : List Nat} {nred : Nat}
    (hinv : CgfInv n ⟨factors, nred, []⟩) {fs : List Nat} {rest : Nat}
    (h : stage2 n pp m g d1 d2 factors nred = some (some (fs, rest))) :
    fs.prod * rest = n ∧ (∀ f ∈ fs, 1 < f) ∧ 0 < rest ∧ n ∉ fs ∧ fs ≠ [] :=
  stage2_proper hinv h fs rest rfl

/-- non-vacuity: stage 2 of `n = 77` from `g = 3` with `(d1, d2) = (6, 2)` evaluated inside the logic: the giant
steps `V_6, V_12` against the baby step `V_1` (`11 + 1 = 12`, `V_12(3) ≡ 3 mod 11`): `Some(([11], 7))`. -/
example : CgfInv 77 ⟨[], 77, []⟩ ∧ stage2 77 (fun _ => true) 77 3 6 2 [] 77 = some (some ([11], 7)) :=
  ⟨⟨by simp, by simp, by decide, by simp⟩, by decide +kernel⟩

/-- **The giant steps are `i = 1 .. d2`.** The list `pp1` hands to `roots_eval` as giant steps has one entry per
`i ∈ [1, d2]`, in this order, whatever the ring operations are: exactly the multipliers `pp1_cover` / `pp1_grid_exact`
quantify over (`1 ≤ i ∧ i ≤ d2`).  A loop shifted by one (`0 .. d2 - 1`, the state before commit 98e4ebc) does not
satisfy this. -/
theorem pp1_giant_range {α : Type} (mul sub : α → α → α) (two dg : α) {d2 : Nat} (hd2 : 1 ≤ d2) :
    (giantSteps mul sub two dg d2).map (·.1) = List.range' 1 d2 ∧
      ∀ i, i ∈ (giantSteps mul sub two dg d2).map (·.1) ↔ 1 ≤ i ∧ i ≤ d2 := by
  have h := giantSteps_idx mul sub two dg d2 hd2
  refine ⟨h, fun i => ?_⟩
  rw [h, List.mem_range'_1]
  omega

example : (giantSteps (mulm 35) (subm 35) (twom 35) (cheb 35 3 6) 2).map (·.1) = [1, 2] := by decide +kernel

/-- … and over a commutative ring the entry of index `i` is `V_{i·d1}(g)` (`dgprev = V_0 = 2`, `dg = V_{d1}`). -/
theorem pp1_giant_values {R : Type*} [CommRing R] (g : R) (d1 : Nat) {d2 : Nat} (hd2 : 1 ≤ d2) :
    giantSteps (· * ·) (· - ·) (2 : R) (chebV g d1) d2 = (List.range' 1 d2).map (fun i => (i, chebV g (i * d1))) :=
  giantSteps_vals g d1 d2 hd2

example : (1 : Nat) ≤ 64 := by decide

/-- every baby step is `(b, V_b(g))` with `b = 1` or `b` odd, `b < d1/2`, prime to `3` and to `d1` -/
theorem pp1_baby_values {R : Type*} [CommRing R] (g : R) (d1 : Nat) :
    ∀ x ∈ babySteps (· * ·) (· - ·) g (chebV g 2) d1,
      x.2 = chebV g x.1 ∧ (x.1 = 1 ∨ (x.1 % 2 = 1 ∧ x.1 < d1 / 2 ∧ x.1 % 3 ≠ 0 ∧ Nat.gcd x.1 d1 = 1)) :=
  babySteps_vals g d1

example : (babySteps (mulm 1009) (subm 1009) 3 (cheb 1009 3 2) 30).map (·.1) = [1, 7, 11, 13] := by decide +kernel

/-- **What stage 2 finds, on the giant side** (`pp1_found` composed with the model's giant list): for a prime `l` prime to
`d1` with `d1/2 < l ≤ d2·d1 + d1/2 − 1` and `x^(E·l) = 1`, some entry `(i, v)` of the giant steps computed from
`Q = V_E(x + y)` and some `b < d1/2` prime to `d1` satisfy `v − V_b(Q) = 0`.
`_partial`: that this `b` is in the model's baby list (completeness of `babyLoop`) is not derived here. -/
theorem pp1_stage2_found_partial {R : Type*} [CommRing R] {x y : R} (hxy : x * y = 1) {E l d1 d2 : Nat}
    (h6 : 6 ∣ d1) (hd : 0 < d1) (hd2 : 1 ≤ d2) (hl : l.Prime) (hnd : ¬ l ∣ d1) (hlo : d1 / 2 < l)
    (hhi : l ≤ d2 * d1 + d1 / 2 - 1) (hm1 : x ^ (E * l) = 1) :
    ∃ iv ∈ giantSteps (· * ·) (· - ·) (2 : R) (chebV (chebV (x + y) E) d1) d2,
      ∃ b, 1 ≤ b ∧ b < d1 / 2 ∧ Nat.gcd b d1 = 1 ∧ iv.2 - chebV (chebV (x + y) E) b = 0 := by
  obtain ⟨i, b, h1, h2, h3, h4, h5, hz⟩ := pp1_found hxy h6 hd hd2 hl hnd hlo hhi hm1
  refine ⟨(i, chebV (chebV (x + y) E) (i * d1)), ?_, b, h3, h4, h5, hz⟩
  rw [giantSteps_vals _ d1 d2 hd2, List.mem_map]
  exact ⟨i, by rw [List.mem_range'_1]; omega, rfl⟩

example : (6 : Nat) ∣ 510 ∧ Nat.Prime 601 ∧ ¬ 601 ∣ 510 ∧ 510 / 2 < 601 ∧ 601 ≤ 64 * 510 + 510 / 2 - 1 :=
  ⟨by decide, by norm_num, by decide, by decide, by decide⟩

/-- the entry panic sites of `pp1`: `assert!(b1 > 3)`, `ZmodN::new` on an even or > 512-bit `n`, and (checked profile
only) the `debug_assert!` of `ZmodN::mul` inside `from_int` for a seed that is not reduced -/
theorem pp1_entry_panics {n seed b1 b2 : Nat} (pp : Nat → Bool) (h : b1 ≤ 3 ∨ n % 2 = 0 ∨ 2 ^ 512 ≤ n ∨ n ≤ seed) :
    pp1 n seed b1 b2 pp = none := by
  unfold pp1
  split
  · rfl
  · by_cases hb : b1 ≤ 3
    · rw [if_pos hb]
    · rw [if_neg hb]
      by_cases hz : Ymq.Pm1Impl.znNewPanics n = true
      · rw [if_pos hz]
      · rw [if_neg hz]
        have hs : seed ≥ n := by
          rcases h with h | h | h | h
          · exact absurd h hb
          · exact absurd (by simp [Ymq.Pm1Impl.znNewPanics, h]) hz
          · exact absurd (by simp [Ymq.Pm1Impl.znNewPanics, h]) hz
          · exact h
        rw [if_pos hs]

example : (3 : Nat) ≤ 3 ∨ 77 % 2 = 0 ∨ 2 ^ 512 ≤ 77 ∨ 77 ≤ 3 := Or.inl (by decide)

end Ymq.C16
