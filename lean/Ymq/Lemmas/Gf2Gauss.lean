/-
C14 helper lemmas, part 2: `kernel_gauss`. Linear combinations with explicit flags (`combZ`),
independence (`Indep`), its invariance under permutations and transvections, the loop invariant
`Inv` of the model and its preservation by `gaussStep`, the result of the whole routine
(`kernelGauss_spec`), reachable states (`Reach`).
-/
import Ymq.Lemmas.Gf2Basic
import Batteries.Data.List.Basic
namespace Ymq.Gf2

/-! ### linear combinations with explicit flags, independence -/

/-- coordinate `i` of the xor of the vectors whose flag is set -/
def combZ (Z : List (BVec × Bool)) (i : Nat) : Bool := xsum (Z.map (fun z => (z.2 && bitAt z.1 i)))

/-- linear independence over GF(2): the only vanishing combination is the trivial one -/
def Indep (F : List BVec) : Prop :=
  ∀ Z : List (BVec × Bool), Z.map Prod.fst = F → (∀ i, combZ Z i = false) → ∀ z ∈ Z, z.2 = false

theorem combZ_append (A B : List (BVec × Bool)) (i : Nat) :
    combZ (A ++ B) i = (combZ A i ^^ combZ B i) := by
  simp [combZ, xsum_append]

theorem combZ_cons (z : BVec × Bool) (B : List (BVec × Bool)) (i : Nat) :
    combZ (z :: B) i = ((z.2 && bitAt z.1 i) ^^ combZ B i) := by
  simp [combZ]

theorem combZ_flags_false (Z : List (BVec × Bool)) (h : ∀ z ∈ Z, z.2 = false) (i : Nat) :
    combZ Z i = false := by
  apply xsum_eq_false_of_forall
  intro b hb
  simp only [List.mem_map] at hb
  obtain ⟨z, hz, rfl⟩ := hb
  simp [h z hz]

theorem combZ_perm {Z Z' : List (BVec × Bool)} (h : Z.Perm Z') (i : Nat) : combZ Z i = combZ Z' i :=
  xsum_perm (h.map _)

theorem exists_perm_map_fst {F F' : List BVec} (h : F'.Perm F) :
    ∀ Z' : List (BVec × Bool), Z'.map Prod.fst = F' → ∃ Z : List (BVec × Bool), Z.Perm Z' ∧ Z.map Prod.fst = F := by
  induction h with
  | nil => intro Z' hZ; exact ⟨Z', List.Perm.refl _, hZ⟩
  | cons x _ ih =>
    intro Z' hZ
    obtain ⟨z, Z1, rfl, hz, hZ1⟩ := List.map_eq_cons_iff.mp hZ
    obtain ⟨Z2, hp, hm⟩ := ih Z1 hZ1
    exact ⟨z :: Z2, hp.cons z, by simp [hz, hm]⟩
  | swap x y l =>
    intro Z' hZ
    obtain ⟨z1, Z1, rfl, hz1, hZ1⟩ := List.map_eq_cons_iff.mp hZ
    obtain ⟨z2, Z2, rfl, hz2, hZ2⟩ := List.map_eq_cons_iff.mp hZ1
    exact ⟨z2 :: z1 :: Z2, List.Perm.swap z1 z2 Z2, by simp [hz1, hz2, hZ2]⟩
  | trans _ _ ih1 ih2 =>
    intro Z' hZ
    obtain ⟨Z2, hp2, hm2⟩ := ih1 Z' hZ
    obtain ⟨Z3, hp3, hm3⟩ := ih2 Z2 hm2
    exact ⟨Z3, hp3.trans hp2, hm3⟩

theorem Indep.perm {F F' : List BVec} (hF : Indep F) (h : F'.Perm F) : Indep F' := by
  intro Z' hZ' hc z hz
  obtain ⟨Z, hp, hm⟩ := exists_perm_map_fst h Z' hZ'
  exact hF Z hm (fun i => by rw [combZ_perm hp]; exact hc i) z (hp.mem_iff.mpr hz)

theorem Indep.suffix {A B : List BVec} (h : Indep (A ++ B)) : Indep B := by
  intro ZB hZB hc z hz
  have hA : ∀ z ∈ A.map (fun a => (a, false)), z.2 = false := by
    intro z hz; simp only [List.mem_map] at hz; obtain ⟨a, _, rfl⟩ := hz; rfl
  refine h (A.map (fun a => (a, false)) ++ ZB) ?_ ?_ z (by simp [hz])
  · simp [hZB, Function.comp_def]
  · intro i
    rw [combZ_append, combZ_flags_false _ hA, hc i]; rfl

theorem Indep.ne_zero {F : List BVec} (h : Indep F) (v : BVec) (hv : v ∈ F) : ∃ i, bitAt v i = true := by
  apply Classical.byContradiction
  intro hne
  have hzero : ∀ i, bitAt v i = false := fun i => by
    cases hb : bitAt v i with
    | false => rfl
    | true => exact absurd ⟨i, hb⟩ hne
  obtain ⟨A, B, rfl⟩ := List.append_of_mem hv
  have hA : ∀ (L : List BVec), ∀ z ∈ L.map (fun a => (a, false)), z.2 = false := by
    intro L z hz; simp only [List.mem_map] at hz; obtain ⟨a, _, rfl⟩ := hz; rfl
  have := h (A.map (fun a => (a, false)) ++ (v, true) :: B.map (fun a => (a, false)))
    (by simp [Function.comp_def]) (fun i => by
      rw [combZ_append, combZ_cons, combZ_flags_false _ (hA A), combZ_flags_false _ (hA B)]
      simp [hzero i]) (v, true) (by simp)
  simp at this


/-- `g'` is `g` or `g xor p` (one elimination step on a coefficient row) -/
def XorRel (p g g' : BVec) : Prop := g' = g ∨ ∀ i, bitAt g' i = (bitAt g i ^^ bitAt p i)

theorem transvection_aux (p : BVec) {G G' : List BVec} (h : List.Forall₂ (XorRel p) G G') :
    ∀ ZG' : List (BVec × Bool), ZG'.map Prod.fst = G' →
      ∃ (ZG : List (BVec × Bool)) (d : Bool), ZG.map Prod.fst = G ∧ ZG.map Prod.snd = ZG'.map Prod.snd ∧
        (∀ i, combZ ZG' i = (combZ ZG i ^^ (d && bitAt p i))) ∧
        ((∀ z ∈ ZG', z.2 = false) → d = false) := by
  induction h with
  | nil =>
    intro ZG' hZ
    have : ZG' = [] := by simpa using hZ
    subst this
    exact ⟨[], false, rfl, rfl, fun i => by simp [combZ], fun _ => rfl⟩
  | @cons g g' G G' hr _ ih =>
    intro ZG' hZ
    obtain ⟨z, Z1, rfl, hz, hZ1⟩ := List.map_eq_cons_iff.mp hZ
    obtain ⟨ZG0, d0, hm0, hs0, hc0, hd0⟩ := ih Z1 hZ1
    rcases hr with heq | hx
    · refine ⟨(g, z.2) :: ZG0, d0, by simp [hm0], by simp [hs0], fun i => ?_, fun hall => ?_⟩
      · rw [combZ_cons, combZ_cons, hc0 i, hz, heq]
        simp only [Bool.xor_assoc]
      · exact hd0 (fun w hw => hall w (by simp [hw]))
    · refine ⟨(g, z.2) :: ZG0, (d0 ^^ z.2), by simp [hm0], by simp [hs0], fun i => ?_, fun hall => ?_⟩
      · rw [combZ_cons, combZ_cons, hc0 i, hz, hx i]
        simp only
        cases z.2 <;> cases bitAt g i <;> cases bitAt p i <;> cases combZ ZG0 i <;> cases d0 <;> rfl
      · rw [hd0 (fun w hw => hall w (by simp [hw])), hall z (by simp)]; rfl

theorem Indep.transvection {A G G' : List BVec} {p : BVec} (hF : Indep (A ++ p :: G))
    (h : List.Forall₂ (XorRel p) G G') : Indep (A ++ p :: G') := by
  intro Z' hZ' hc
  obtain ⟨ZA, Zr, rfl, hZA, hZr⟩ := List.map_eq_append_iff.mp hZ'
  obtain ⟨zp, ZG', rfl, hzp, hZG'⟩ := List.map_eq_cons_iff.mp hZr
  obtain ⟨ZG, d, hm, hs, hcomb, hd⟩ := transvection_aux p h ZG' hZG'
  have hall := hF (ZA ++ (p, (zp.2 ^^ d)) :: ZG) (by simp [hZA, hm]) (fun i => by
    have := hc i
    rw [combZ_append, combZ_cons, hcomb i, hzp] at this
    rw [combZ_append, combZ_cons, ← this]
    simp only
    cases zp.2 <;> cases d <;> cases bitAt p i <;> cases combZ ZA i <;> cases combZ ZG i <;> rfl)
  have hG' : ∀ z ∈ ZG', z.2 = false := by
    intro z hz
    have : z.2 ∈ ZG.map Prod.snd := by rw [hs]; exact List.mem_map_of_mem hz
    obtain ⟨w, hw, hwz⟩ := List.mem_map.mp this
    rw [← hwz]; exact hall w (by simp [hw])
  have hd' := hd hG'
  intro z hz
  rcases List.mem_append.mp hz with hzA | hz
  · exact hall z (by simp [hzA])
  · rcases List.mem_cons.mp hz with rfl | hz
    · have := hall (p, (z.2 ^^ d)) (by simp)
      simpa [hd'] using this
    · exact hG' z hz

theorem xsum_single (l : List Bool) (i : Nat) (h : ∀ t, t ≠ i → l.getD t false = false) :
    xsum l = l.getD i false := by
  induction l generalizing i with
  | nil => simp
  | cons x l ih =>
    cases i with
    | zero =>
      have : xsum l = false := xsum_eq_false_of_forall l (fun b hb => by
        obtain ⟨t, ht, rfl⟩ := List.getElem_of_mem hb
        have := h (t + 1) (by omega)
        simpa [List.getD, ht] using this)
      simp [this]
    | succ i =>
      have hx : x = false := by simpa using h 0 (by omega)
      have := ih i (fun t ht => by simpa using h (t + 1) (by omega))
      simp [hx, this]


/-! ### pieces of the loop body -/

theorem firstMin_spec (l : List Nat) (h : l ≠ []) :
    (firstMin l).1 < l.length ∧ l[(firstMin l).1]? = some (firstMin l).2 ∧ ∀ x ∈ l, (firstMin l).2 ≤ x := by
  induction l with
  | nil => exact absurd rfl h
  | cons x t ih =>
    cases t with
    | nil => simp [firstMin]
    | cons y t =>
      obtain ⟨h1, h2, h3⟩ := ih (by simp)
      simp only [firstMin]
      split
      · rename_i hle
        refine ⟨by simp, by simp, ?_⟩
        intro a ha
        rcases List.mem_cons.mp ha with rfl | ha
        · exact Nat.le_refl _
        · exact Nat.le_trans hle (h3 a ha)
      · rename_i hle
        refine ⟨by simp at h1 ⊢; omega, by simpa using h2, ?_⟩
        intro a ha
        rcases List.mem_cons.mp ha with rfl | ha
        · simp only; omega
        · exact h3 a ha

theorem swapHead_spec (x : Col) (t : List Col) (p : Nat) (hp : p < (x :: t).length) :
    (swapHead x t p).1 = (x :: t)[p] ∧ ((swapHead x t p).1 :: (swapHead x t p).2).Perm (x :: t) ∧
      (swapHead x t p).2.length = t.length := by
  cases p with
  | zero => simp [swapHead]
  | succ q =>
    have hq : q < t.length := by simpa using hp
    simp only [swapHead, List.getElem?_eq_getElem hq, List.getElem_cons_succ, List.length_set, and_true, true_and]
    have h1 : t = t.take q ++ t[q] :: t.drop (q + 1) := by simp
    have h2 : t.set q x = t.take q ++ x :: t.drop (q + 1) := by
      rw [List.set_eq_take_append_cons_drop]; simp [hq]
    rw [h2]
    conv => rhs; rw [h1]
    have p1 : (t[q] :: (t.take q ++ x :: t.drop (q + 1))).Perm (t[q] :: x :: (t.take q ++ t.drop (q + 1))) :=
      (List.perm_middle).cons _
    have p2 : (x :: (t.take q ++ t[q] :: t.drop (q + 1))).Perm (x :: t[q] :: (t.take q ++ t.drop (q + 1))) :=
      (List.perm_middle).cons _
    exact p1.trans ((List.Perm.swap _ _ _).trans p2.symm)

theorem elimAll_forall₂ (pivot : Col) (es es' : List Col) (h : elimAll pivot es = some es') :
    List.Forall₂ (fun e e' => elim pivot e = some e') es es' := by
  induction es generalizing es' with
  | nil =>
    simp only [elimAll, Option.some.injEq] at h
    subst h; exact List.Forall₂.nil
  | cons e es ih =>
    simp only [elimAll] at h
    split at h
    · rename_i e' es0 he hes
      simp only [Option.some.injEq] at h
      subst h
      exact List.Forall₂.cons he (ih es0 hes)
    · simp at h

theorem elimAll_some (pivot : Col) (es : List Col) (h : ∀ e ∈ es, ∃ e', elim pivot e = some e') :
    ∃ es', elimAll pivot es = some es' := by
  induction es with
  | nil => exact ⟨[], rfl⟩
  | cons e es ih =>
    obtain ⟨e', he⟩ := h e (by simp)
    obtain ⟨es', hes⟩ := ih (fun a ha => h a (by simp [ha]))
    exact ⟨e' :: es', by simp [elimAll, he, hes]⟩

theorem xsum_zipWith_vxor {α} (g : α → Bool) (M : List α) (a b : BVec) (hl : a.length = b.length) :
    xsum (List.zipWith (fun c f => (f && g c)) M (vxor a b)) =
      (xsum (List.zipWith (fun c f => (f && g c)) M a) ^^ xsum (List.zipWith (fun c f => (f && g c)) M b)) := by
  induction M generalizing a b with
  | nil => simp
  | cons c M ih =>
    cases a with
    | nil => cases b with
      | nil => simp [vxor]
      | cons y b => simp at hl
    | cons x a => cases b with
      | nil => simp at hl
      | cons y b =>
        have := ih a b (by simpa using hl)
        simp only [vxor, List.zipWith_cons_cons, xsum_cons] at this ⊢
        rw [this]
        cases x <;> cases y <;> cases g c <;>
          cases xsum (List.zipWith (fun c f => (f && g c)) M a) <;>
          cases xsum (List.zipWith (fun c f => (f && g c)) M b) <;> rfl

theorem mulVec_vxor (size : Nat) (M : List BVec) (a b : BVec) (hR : Rect size M) (hl : a.length = b.length) :
    mulVec size M (vxor a b) = vxor (mulVec size M a) (mulVec size M b) := by
  have hlen : (mulVec size M a).length = (mulVec size M b).length := by
    rw [length_mulVec _ _ _ hR, length_mulVec _ _ _ hR]
  apply bvec_ext
  · rw [length_mulVec _ _ _ hR, length_vxor _ _ hlen, length_mulVec _ _ _ hR]
  · intro i
    rw [bitAt_vxor _ _ hlen, bitAt_mulVec _ _ _ hR, bitAt_mulVec _ _ _ hR, bitAt_mulVec _ _ _ hR]
    exact xsum_zipWith_vxor (fun c => bitAt c i) M a b hl

/-- what is known of every position of the three vectors: the coefficient row reproduces the column -/
structure EntryOk (size ncols : Nat) (M : List BVec) (e : Col) : Prop where
  hcoef : e.coef.length = ncols
  hcol : e.col.length = size
  hz : e.z = lzTop e.col
  hmul : mulVec size M e.coef = e.col

theorem elim_ok {size ncols : Nat} {M : List BVec} {pivot e : Col} (hR : Rect size M)
    (hp : EntryOk size ncols M pivot) (he : EntryOk size ncols M e) :
    ∃ e', elim pivot e = some e' ∧ EntryOk size ncols M e' ∧ (e.z ≠ pivot.z → e' = e) ∧
      (e.z = pivot.z → pivot.z < size → pivot.z < e'.z) ∧ XorRel pivot.coef e.coef e'.coef := by
  unfold elim
  by_cases hz : e.z = pivot.z
  · have hl1 : e.col.length = pivot.col.length := by rw [he.hcol, hp.hcol]
    have hl2 : e.coef.length = pivot.coef.length := by rw [he.hcoef, hp.hcoef]
    simp only [hz, if_true, hl1, hl2, and_self]
    refine ⟨_, rfl, ⟨?_, ?_, rfl, ?_⟩, fun h => absurd rfl h, fun _ hlt => ?_, Or.inr (fun i => ?_)⟩
    · simp only; rw [length_vxor _ _ hl2, he.hcoef]
    · simp only; rw [length_vxor _ _ hl1, he.hcol]
    · simp only; rw [mulVec_vxor _ _ _ _ hR hl2, he.hmul, hp.hmul]
    · simp only
      have h1 : lzTop e.col = lzTop pivot.col := by rw [← he.hz, ← hp.hz, hz]
      have := lzTop_vxor_gt e.col pivot.col hl1 h1 (by rw [← he.hz, hz, he.hcol]; exact hlt)
      rw [← he.hz, hz] at this; exact this
    · simp only; exact bitAt_vxor _ _ hl2 i
  · simp only [hz, if_false]
    exact ⟨e, rfl, he, fun _ => rfl, fun h => h.elim, Or.inl rfl⟩

theorem maxZ_le_iff (pre : List Col) (b : Nat) : maxZ pre ≤ b ↔ ∀ e ∈ pre, e.z ≤ b := by
  unfold maxZ
  suffices h : ∀ (m : Nat), pre.foldl (fun m e => max m e.z) m ≤ b ↔ (m ≤ b ∧ ∀ e ∈ pre, e.z ≤ b) by
    simpa using h 0
  induction pre with
  | nil => intro m; simp
  | cons x pre ih =>
    intro m
    simp only [List.foldl_cons, ih, List.mem_cons, forall_eq_or_imp]
    constructor
    · rintro ⟨h1, h2⟩; exact ⟨by omega, by omega, h2⟩
    · rintro ⟨h1, h2, h3⟩; exact ⟨by omega, h3⟩


theorem forall₂_length {α β} {R : α → β → Prop} {l : List α} {l' : List β} (h : List.Forall₂ R l l') :
    l.length = l'.length := by
  induction h with
  | nil => rfl
  | cons _ _ ih => simp [ih]

theorem forall₂_mem_right {α β} {R : α → β → Prop} {l : List α} {l' : List β} (h : List.Forall₂ R l l')
    (b : β) (hb : b ∈ l') : ∃ a ∈ l, R a b := by
  induction h with
  | nil => simp at hb
  | @cons a0 b0 l l' hr _ ih =>
    rcases List.mem_cons.mp hb with rfl | hb
    · exact ⟨a0, by simp, hr⟩
    · obtain ⟨a, ha, hab⟩ := ih hb
      exact ⟨a, by simp [ha], hab⟩

theorem forall₂_map {α β γ δ} {R : α → β → Prop} {S : γ → δ → Prop} (f : α → γ) (g : β → δ)
    {l : List α} {l' : List β} (h : List.Forall₂ R l l')
    (hRS : ∀ a b, a ∈ l → R a b → S (f a) (g b)) : List.Forall₂ S (l.map f) (l'.map g) := by
  induction h with
  | nil => exact List.Forall₂.nil
  | @cons a0 b0 l l' hr _ ih =>
    exact List.Forall₂.cons (hRS a0 b0 (by simp) hr) (ih (fun a b ha => hRS a b (by simp [ha])))

/-- Loop invariant of `kernel_gauss` (`pre = [..done]`, `rest = [done..]`). -/
structure Inv (size : Nat) (M : List BVec) (pre rest : List Col) : Prop where
  entries : ∀ e ∈ pre ++ rest, EntryOk size M.length M e
  len : pre.length + rest.length = M.length
  preLt : ∀ e ∈ pre, e.z < size
  preSorted : pre.Pairwise (fun a b => a.z < b.z)
  preRest : ∀ e ∈ pre, ∀ r ∈ rest, e.z < r.z
  indep : Indep ((pre ++ rest).map (·.coef))

theorem gaussStep_spec {size : Nat} {M : List BVec} {pre rest : List Col} (hR : Rect size M)
    (hI : Inv size M pre rest) :
    (∃ pre' rest', gaussStep size pre rest = .next pre' rest' ∧ Inv size M pre' rest' ∧
        rest'.length + 1 = rest.length) ∨
    (gaussStep size pre rest = .done (rest.map (·.coef)) ∧ ∀ r ∈ rest, r.z = size) := by
  cases rest with
  | nil =>
    right
    refine ⟨?_, by simp⟩
    simp only [gaussStep, List.map_nil]
    cases hl : pre.getLast? with
    | none => rfl
    | some e =>
      have he : e ∈ pre := List.mem_of_getLast? hl
      have := hI.preLt e he
      simp only [show ¬ e.z = size by omega, if_false]
  | cons x t =>
    have hzle : ∀ e ∈ x :: t, e.z ≤ size := fun e he => by
      have h := hI.entries e (by simp only [List.mem_append]; exact Or.inr he)
      rw [h.hz, ← h.hcol]; exact lzTop_le _
    obtain ⟨h1, h2, h3⟩ := firstMin_spec ((x :: t).map (·.z)) (by simp)
    generalize hr : firstMin ((x :: t).map (·.z)) = r at h1 h2 h3
    have hr1 : r.1 < (x :: t).length := by simpa using h1
    have hrz : ((x :: t)[r.1]).z = r.2 := by
      rw [List.getElem?_map, List.getElem?_eq_getElem hr1] at h2
      simpa using h2
    have hmin : ∀ e ∈ x :: t, r.2 ≤ e.z := fun e he => h3 e.z (List.mem_map_of_mem he)
    have hd1 : maxZ pre ≤ r.2 := (maxZ_le_iff pre r.2).mpr (fun p hp => by
      have := hI.preRest p hp (x :: t)[r.1] (List.getElem_mem hr1)
      omega)
    have hd2 : x.z = lzTop x.col := (hI.entries x (by simp)).hz
    by_cases hsz : r.2 = size
    · right
      refine ⟨?_, fun e he => ?_⟩
      · have hd1' : maxZ pre ≤ size := hsz ▸ hd1
        simp only [gaussStep, hr, hd1', not_true_eq_false, if_false, hd2, ne_eq, hsz, if_true]
      · have := hmin e he; have := hzle e he; omega
    · left
      have hlt : r.2 < size := by
        have := hzle _ (List.getElem_mem hr1); omega
      obtain ⟨hs1, hs2, hs3⟩ := swapHead_spec x t r.1 hr1
      generalize hsw : swapHead x t r.1 = sw at hs1 hs2 hs3
      obtain ⟨pivot, others⟩ := sw
      simp only at hs1 hs2 hs3
      have hpz : pivot.z = r.2 := by rw [hs1]; exact hrz
      have hmemPO : ∀ e, e ∈ pivot :: others ↔ e ∈ x :: t := fun e => hs2.mem_iff
      have hokOld : ∀ e ∈ pivot :: others, EntryOk size M.length M e := fun e he =>
        hI.entries e (by simp only [List.mem_append]; exact Or.inr ((hmemPO e).mp he))
      have hpOk := hokOld pivot (by simp)
      obtain ⟨others', hel⟩ := elimAll_some pivot others (fun e he => by
        obtain ⟨e', h, _⟩ := elim_ok hR hpOk (hokOld e (by simp [he]))
        exact ⟨e', h⟩)
      have hF := elimAll_forall₂ pivot others others' hel
      refine ⟨pre ++ [pivot], others', ?_, ?_, ?_⟩
      · simp only [gaussStep, hr, hd1, not_true_eq_false, if_false, hd2, ne_eq, hsz, hsw, hel]
      · -- facts on every new entry
        have hnew : ∀ e' ∈ others', ∃ e ∈ others, EntryOk size M.length M e' ∧
            (e.z ≠ pivot.z → e' = e) ∧ (e.z = pivot.z → pivot.z < e'.z) := by
          intro e' he'
          obtain ⟨e, he, hee⟩ := forall₂_mem_right hF e' he'
          obtain ⟨e'', h1, h2, h3, h4, _⟩ := elim_ok hR hpOk (hokOld e (by simp [he]))
          have : e'' = e' := by rw [h1] at hee; exact Option.some.inj hee
          subst this
          exact ⟨e, he, h2, h3, fun hz => h4 hz (by omega)⟩
        have hgt : ∀ e' ∈ others', pivot.z < e'.z := by
          intro e' he'
          obtain ⟨e, he, _, h3, h4⟩ := hnew e' he'
          by_cases hz : e.z = pivot.z
          · exact h4 hz
          · rw [h3 hz]
            have := hmin e ((hmemPO e).mp (by simp [he])); omega
        constructor
        · intro e he
          simp only [List.mem_append, List.mem_singleton] at he
          rcases he with (he | rfl) | he
          · exact hI.entries e (by simp [he])
          · exact hpOk
          · obtain ⟨_, _, h, _⟩ := hnew e he; exact h
        · have := forall₂_length hF
          have := hI.len
          simp only [List.length_append, List.length_cons, List.length_nil] at *
          omega
        · intro e he
          simp only [List.mem_append, List.mem_singleton] at he
          rcases he with he | rfl
          · exact hI.preLt e he
          · omega
        · rw [List.pairwise_append]
          refine ⟨hI.preSorted, by simp, fun a ha b hb => ?_⟩
          simp only [List.mem_singleton] at hb
          subst hb
          exact hI.preRest a ha b ((hmemPO b).mp (by simp))
        · intro e he r' hr'
          have hpr := hgt r' hr'
          simp only [List.mem_append, List.mem_singleton] at he
          rcases he with he | rfl
          · have := hI.preRest e he pivot ((hmemPO pivot).mp (by simp)); omega
          · exact hpr
        · have hperm : ((pre ++ (pivot :: others)).map (·.coef)).Perm ((pre ++ (x :: t)).map (·.coef)) :=
            (hs2.append_left pre).map _
          have h1 := hI.indep.perm hperm
          have hX : List.Forall₂ (XorRel pivot.coef) (others.map (·.coef)) (others'.map (·.coef)) :=
            forall₂_map _ _ hF (fun a b ha hab => by
              obtain ⟨e'', h1, _, _, _, h5⟩ := elim_ok hR hpOk (hokOld a (by simp [ha]))
              have : e'' = b := by rw [h1] at hab; exact Option.some.inj hab
              subst this; exact h5)
          have h2 : Indep (pre.map (·.coef) ++ pivot.coef :: others'.map (·.coef)) := by
            apply Indep.transvection _ hX
            simpa using h1
          simpa using h2
      · have := forall₂_length hF
        simp only [List.length_cons]; omega


/-! ### initial state, the whole loop -/

theorem initCols_length (n i : Nat) (cs : List BVec) : (initCols n i cs).length = cs.length := by
  induction cs generalizing i with
  | nil => rfl
  | cons c cs ih => simp [initCols, ih]

theorem initCols_mem (n i : Nat) (cs : List BVec) (e : Col) (he : e ∈ initCols n i cs) :
    ∃ (t : Nat) (ht : t < cs.length), e.z = lzTop cs[t] ∧ e.coef = unitVec n (i + t) ∧ e.col = cs[t] := by
  induction cs generalizing i with
  | nil => simp [initCols] at he
  | cons c cs ih =>
    simp only [initCols, List.mem_cons] at he
    rcases he with rfl | he
    · exact ⟨0, by simp, rfl, rfl, rfl⟩
    · obtain ⟨t, ht, h1, h2, h3⟩ := ih (i + 1) he
      exact ⟨t + 1, by simp; omega, by simpa using h1, by rw [h2]; congr 1; omega, by simpa using h3⟩

theorem initCols_coefs (n i : Nat) (cs : List BVec) :
    (initCols n i cs).map (·.coef) = (List.range' i cs.length).map (unitVec n) := by
  induction cs generalizing i with
  | nil => rfl
  | cons c cs ih => simp [initCols, ih, List.range'_succ]

theorem indep_units (n : Nat) : Indep ((List.range' 0 n).map (unitVec n)) := by
  intro Z hZ hc z hz
  obtain ⟨t, ht, rfl⟩ := List.getElem_of_mem hz
  have hlen : Z.length = n := by
    have := congrArg List.length hZ; simpa using this
  have hfst : ∀ s (hs : s < Z.length), (Z[s]).1 = unitVec n s := by
    intro s hs
    have h1 : (Z.map Prod.fst)[s]? = some (Z[s]).1 := by simp [hs]
    rw [hZ] at h1
    have hs' : s < n := by omega
    simp [hs'] at h1
    exact h1.symm
  have hx := xsum_single (Z.map (fun z => (z.2 && bitAt z.1 t))) t (fun s hs => by
    by_cases hsl : s < Z.length
    · simp only [List.getD, List.getElem?_map, List.getElem?_eq_getElem hsl, Option.map_some, Option.getD_some]
      rw [hfst s hsl, bitAt_unitVec]
      have : (t == s) = false := by simp; omega
      simp [this]
    · simp [List.getD, List.getElem?_eq_none (show (Z.map _).length ≤ s by simp; omega)])
  have hct := hc t
  unfold combZ at hct
  rw [hx] at hct
  simp only [List.getD, List.getElem?_map, List.getElem?_eq_getElem ht, Option.map_some, Option.getD_some] at hct
  rw [hfst t ht, bitAt_unitVec] at hct
  have : decide (t < n) = true := by simp; omega
  simpa [this] using hct

theorem inv_init (size : Nat) (M : List BVec) (hR : Rect size M) :
    Inv size M [] (initCols M.length 0 M) := by
  refine ⟨fun e he => ?_, by simp [initCols_length], by simp, by simp, by simp, ?_⟩
  · simp only [List.nil_append] at he
    obtain ⟨t, ht, h1, h2, h3⟩ := initCols_mem _ _ _ e he
    refine ⟨by rw [h2, length_unitVec], by rw [h3]; exact hR _ (List.getElem_mem ht), by rw [h1, h3], ?_⟩
    rw [h2, h3, Nat.zero_add]
    exact mulVec_unitVec size M hR t ht
  · simp only [List.nil_append, initCols_coefs]
    exact indep_units M.length

theorem gaussLoop_spec {size : Nat} {M : List BVec} (hR : Rect size M) (fuel : Nat) (pre rest : List Col)
    (hI : Inv size M pre rest) (hf : rest.length < fuel) :
    ∃ pre' rest', gaussLoop size fuel pre rest = some (rest'.map (·.coef)) ∧ Inv size M pre' rest' ∧
      ∀ r ∈ rest', r.z = size := by
  induction fuel generalizing pre rest with
  | zero => omega
  | succ fuel ih =>
    rcases gaussStep_spec hR hI with ⟨pre', rest', hs, hI', hl⟩ | ⟨hs, hz⟩
    · obtain ⟨p2, r2, h1, h2, h3⟩ := ih pre' rest' hI' (by omega)
      exact ⟨p2, r2, by simp only [gaussLoop, hs]; exact h1, h2, h3⟩
    · exact ⟨pre, rest, by simp only [gaussLoop, hs], hI, hz⟩

theorem kernelGauss_spec (size : Nat) (M : List BVec) (hR : Rect size M) :
    ∃ pre rest, kernelGauss M = some (rest.map (·.coef)) ∧ Inv size M pre rest ∧ ∀ r ∈ rest, r.z = size := by
  cases M with
  | nil =>
    refine ⟨[], [], rfl, ⟨by simp, rfl, by simp, by simp, by simp, ?_⟩, by simp⟩
    intro Z hZ _ z hz
    have : Z = [] := by simpa using hZ
    subst this; simp at hz
  | cons c0 M' =>
    have hc0 : c0.length = size := hR c0 (by simp)
    subst hc0
    have hall : (c0 :: M').all (fun c => c.length == c0.length) = true := by
      rw [List.all_eq_true]
      intro c hc
      simp [hR c hc]
    simp only [kernelGauss, hall, if_true]
    exact gaussLoop_spec hR _ _ _ (inv_init c0.length (c0 :: M') hR) (by simp [initCols_length])

/-- states visited by the loop of `kernel_gauss` on input `M` -/
inductive Reach (size : Nat) (M : List BVec) : List Col → List Col → Prop
  | init : Reach size M [] (initCols M.length 0 M)
  | step {pre rest pre' rest'} : Reach size M pre rest → gaussStep size pre rest = .next pre' rest' →
      Reach size M pre' rest'

theorem Reach.inv {size : Nat} {M : List BVec} (hR : Rect size M) {pre rest : List Col}
    (h : Reach size M pre rest) : Inv size M pre rest := by
  induction h with
  | init => exact inv_init size M hR
  | step _ hs ih =>
    rcases gaussStep_spec hR ih with ⟨p, r, h1, h2, _⟩ | ⟨h1, _⟩
    · rw [hs] at h1
      injection h1 with ha hb
      subst ha; subst hb; exact h2
    · rw [hs] at h1; cases h1


/-! ### consequences for the returned family -/

theorem kernelGauss_mem {size : Nat} {M : List BVec} (hR : Rect size M) {K : List BVec}
    (h : kernelGauss M = some K) (v : BVec) (hv : v ∈ K) :
    v.length = M.length ∧ mulVec size M v = List.replicate size false ∧ ∃ i, bitAt v i = true := by
  obtain ⟨pre, rest, hk, hI, hz⟩ := kernelGauss_spec size M hR
  rw [h] at hk
  injection hk with hk
  subst hk
  obtain ⟨r, hr, rfl⟩ := List.mem_map.mp hv
  have hok := hI.entries r (by simp [hr])
  refine ⟨hok.hcoef, ?_, ?_⟩
  · rw [hok.hmul]
    apply bvec_ext
    · simp [hok.hcol]
    · intro i
      rw [bitAt_replicate_false]
      exact (lzTop_eq_length_iff r.col).mp (by rw [← hok.hz, hz r hr, hok.hcol]) i
  · have hind := hI.indep
    rw [List.map_append] at hind
    exact hind.suffix.ne_zero r.coef (List.mem_map_of_mem hr)

theorem kernelGauss_indep {size : Nat} {M : List BVec} (hR : Rect size M) {K : List BVec}
    (h : kernelGauss M = some K) : Indep K := by
  obtain ⟨pre, rest, hk, hI, _⟩ := kernelGauss_spec size M hR
  rw [h] at hk
  injection hk with hk
  subst hk
  have := hI.indep
  rw [List.map_append] at this
  exact this.suffix

end Ymq.Gf2
