/-
The model of `ecm128::ecm_curve` (Model/Ecm128Curve.lean) over an additive commutative group in which the point
operations are the group law, and its totality under an invariant of the point operations. Everything about the loops
shared with `ecm::ecm_curve` is taken from Lemmas/EcmCurveGroup.lean / EcmCurveTotal.lean through `Ops128.asOps`.
-/
import Ymq.Model.Ecm128Curve
import Ymq.Lemmas.EcmCurveGroup
import Ymq.Lemmas.EcmCurveTotal
import Ymq.Props.C15

namespace Ymq.Ecm128Curve
open Ymq.Chain Ymq.EcmCurve

section Group
variable {G : Type} [AddCommGroup G]

/-- the point operations of `ecm128::Curve` read in a group -/
def grp128 : Ops128 G G where
  zero := 0
  ext := id
  proj := id
  double := dbl
  dblext := dbl
  add := fun a b => a + b
  dbladd := fun q g => dbl q + g
  neg := fun g => -g

theorem grp128_asOps : (grp128 : Ops128 G G).asOps = (grpOps : Ops G G) := by
  unfold Ops128.asOps grp128 grpOps
  congr 1
  funext a b
  exact (sub_eq_add_neg a b).symm

theorem grp128_mul (k : Nat) (hk : k < 2 ^ 64) (P : G) : (grp128 : Ops128 G G).mul k P = some (k • P) :=
  Ymq.C15.mul128_spec k hk P

theorem stage1_spec (n : Nat) (xv : G → Nat) : ∀ (fs : List Nat) (P : G), (∀ f ∈ fs, f < 2 ^ 64) →
    GoesTo (stage1 (grp128 : Ops128 G G) n xv fs P) (fs.prod • P) ∧
    NoPanic (stage1 (grp128 : Ops128 G G) n xv fs P) ∧
    stage1Point (grp128 : Ops128 G G) fs P = some (fs.prod • P)
  | [], P, _ => by
    refine ⟨?_, ?_, by simp [stage1Point]⟩
    · unfold stage1; split
      · trivial
      · show P = _; simp
    · unfold stage1; split <;> trivial
  | f :: fs, P, h => by
    have hf : f < 2 ^ 64 := h f (List.mem_cons_self ..)
    obtain ⟨h1, h2, h3⟩ := stage1_spec n xv fs (f • P) (fun x hx => h x (List.mem_cons_of_mem _ hx))
    have e : (f :: fs).prod • P = fs.prod • (f • P) := by rw [List.prod_cons, mul_nsmul]
    rw [e]
    refine ⟨?_, ?_, ?_⟩
    · unfold stage1; rw [grp128_mul f hf P]; simp only
      split
      · trivial
      · exact h1
    · unfold stage1; rw [grp128_mul f hf P]; simp only
      split
      · trivial
      · exact h2
    · unfold stage1Point; rw [grp128_mul f hf P]; exact h3

theorem babySteps_eq (d1 : Nat) (Q : G) :
    babySteps (grp128 : Ops128 G G) d1 Q = EcmCurve.babySteps (grpOps : Ops G G) d1 Q := by
  unfold babySteps EcmCurve.babySteps
  rw [grp128_asOps]
  rfl

theorem giantSteps_eq {d1 : Nat} (hd : d1 < 2 ^ 64) (d2 : Nat) (Q : G) :
    giantSteps (grp128 : Ops128 G G) d1 d2 Q = EcmCurve.giantSteps (grpOps : Ops G G) d1 d2 Q := by
  unfold giantSteps EcmCurve.giantSteps
  rw [grp128_asOps, grp128_mul d1 hd Q, grp_mul64 d1 hd Q]
  rfl

end Group

section Sound
variable {P E X : Type}

theorem gcdExit_sound {n x d e : Nat} (h : gcdExit n x = some (d, e)) : 1 < d ∧ d < n ∧ d * e = n := by
  unfold gcdExit at h
  simp only at h
  split at h
  · rename_i hc
    simp only [Option.some.injEq, Prod.mk.injEq] at h
    obtain ⟨rfl, rfl⟩ := h
    exact ⟨hc.1, hc.2, Nat.mul_div_cancel' (Nat.gcd_dvd_right x n)⟩
  · exact absurd h (by simp)

theorem stage1_ret (o : Ops128 P E) (n : Nat) (xv : P → Nat) : ∀ (fs : List Nat) (g : P) (r : Option (Nat × Nat)),
    stage1 o n xv fs g = .ret r → ∃ x, r = gcdExit n x
  | [], g, r, h => by
    unfold stage1 at h
    split at h
    · rename_i r' hr; cases h; exact ⟨_, hr.symm⟩
    · cases h
  | f :: fs, g, r, h => by
    unfold stage1 at h
    split at h
    · cases h
    · split at h
      · cases h; exact ⟨_, rfl⟩
      · exact stage1_ret o n xv fs _ r h

theorem ecmCurve_sound (env : Env P E X) (fs : List Nat) (d1 d2 : Nat) (g : P) (d e : Nat)
    (h : ecmCurve env fs d1 d2 g = some (some (d, e))) : 1 < d ∧ d < env.n ∧ d * e = env.n := by
  unfold ecmCurve at h
  split at h
  · cases h
  · rename_i r hr
    obtain ⟨x, hx⟩ := stage1_ret _ _ _ _ _ _ hr
    simp only [Option.some.injEq] at h
    exact gcdExit_sound (h ▸ hx.symm)
  · split at h
    · cases h
    · unfold stage2 at h
      split at h
      · cases h
      · split at h
        · cases h
        · simp only [Option.some.injEq] at h
          exact gcdExit_sound h

end Sound

end Ymq.Ecm128Curve
