/-
C02 — automatic mode returns the complete prime factorization.
Only property theorems live here (helper lemmas: Ymq/Lemmas/Factor*.lean).

What can be a theorem (about the control flow of `factor_impl`, for ANY behaviour of the
sub-algorithms): an element reaches the output only (a) as one of the 46 trial-division primes,
(b) after `pseudoprime` accepted it, or (c) through an explicit give-up event, which the model
logs in `St.giveups` (a sub-algorithm returned None / no divisor / only the trivial divisor, or
abort was requested). Hence: no give-up event and a pseudoprime test that never accepts a
composite (C06) ⟹ the output is the prime factorization. That no give-up event occurs is
heuristic (success of rho/ECM/SIQS) and is explored by the K/O streams, not proved.
-/
import Ymq.Lemmas.FactorExample

namespace Ymq.C02
open Ymq.Factor

variable {σ : Type}

/-- **`auto_composite_needs_giveup`**. For ANY oracle (stateful, adversarial), any fuel, and any
selector — in particular `Algo.auto`, and the QS/ECM selectors named by the property —: a
successful `factor_impl(n)` only appends to the vector and to the give-up log, and every
appended element was answered `true` by `o.prime` (in some oracle state `t`) or is an explicit
give-up event of this run. So a composite can only be output after a give-up (or a wrong
pseudoprime verdict). -/
theorem auto_composite_needs_giveup (o : Oracle σ) (fuel n : Nat) (alg : Algo) (s s' : St σ)
    (h : factorImpl o fuel n alg s = .ok s') :
    ∃ new gnew, s'.factors = s.factors ++ new ∧ s'.giveups = s.giveups ++ gnew ∧
      ∀ x ∈ new, (∃ t, (o.prime t x).1 = true) ∨ x ∈ gnew := by
  obtain ⟨new, gnew, h1, h2, h3, _⟩ := factorImpl_ext o alg fuel n s s' h
  exact ⟨new, gnew, h1, h2, h3⟩

/-- the same for a pseudoprime test whose verdict does not depend on the oracle state (true of
the real, deterministic `pseudoprime`): the verdict can be read off in the initial state. -/
theorem auto_composite_needs_giveup_det (o : Oracle σ)
    (hdet : ∀ t t' m, (o.prime t m).1 = (o.prime t' m).1)
    (fuel n : Nat) (s s' : St σ) (h : factorImpl o fuel n .auto s = .ok s') :
    ∃ new, s'.factors = s.factors ++ new ∧
      ∀ x ∈ new, (o.prime s.os x).1 = true ∨ x ∈ s'.giveups := by
  obtain ⟨new, gnew, h1, h2, h3⟩ := auto_composite_needs_giveup o fuel n .auto s s' h
  refine ⟨new, h1, ?_⟩
  intro x hx
  rcases h3 x hx with ⟨t, ht⟩ | hg
  · exact Or.inl (by rw [hdet s.os t x]; exact ht)
  · exact Or.inr (by rw [h2]; exact List.mem_append_right _ hg)

/-- **`auto_complete`**: if the run logged no give-up event and the pseudoprime test never
accepts a composite, every appended element is prime. -/
theorem auto_complete (o : Oracle σ) (hsound : ∀ t m, (o.prime t m).1 = true → Nat.Prime m)
    (fuel n : Nat) (alg : Algo) (s s' : St σ) (h : factorImpl o fuel n alg s = .ok s')
    (hg : s'.giveups = []) :
    ∃ new, s'.factors = s.factors ++ new ∧ ∀ x ∈ new, Nat.Prime x := by
  obtain ⟨new, gnew, h1, h2, h3⟩ := auto_composite_needs_giveup o fuel n alg s s' h
  rw [hg] at h2
  have hgn : gnew = [] := (List.append_eq_nil_iff.mp h2.symm).2
  refine ⟨new, h1, ?_⟩
  intro x hx
  rcases h3 x hx with ⟨t, ht⟩ | hx'
  · exact hsound t x ht
  · rw [hgn] at hx'; simp at hx'

/-- **entry point**: every element of a list returned by `factor` for `n ≠ 0` is one of the 46
trial-division primes, or was accepted by `o.prime`, or is a give-up event of the run
(`factorGiveups` = the give-up log of the `factor_impl` call made by `factor`). -/
theorem factor_composite_needs_giveup (o : Oracle σ) (fuel n : Nat) (alg : Algo) (os : σ)
    (l : List Nat) (hn : n ≠ 0) (h : factor o fuel n alg os = .ok l) :
    ∀ x ∈ l, x ∈ Ymq.Gen.Primality.smallPrimes ∨ (∃ t, (o.prime t x).1 = true) ∨
      x ∈ factorGiveups o fuel n alg os := by
  rcases factor_ok h with ⟨h0, _⟩ | ⟨_, s', hrun, rfl, _⟩
  · exact absurd h0 hn
  · intro x hx
    have hx' : x ∈ s'.factors := (sortNat_perm _).mem_iff.mp hx
    obtain ⟨new, gnew, h1, h2, h3⟩ := auto_composite_needs_giveup o fuel _ alg _ s' hrun
    have hgu : factorGiveups o fuel n alg os = gnew := by
      unfold factorGiveups; rw [hrun]; simpa [initSt] using h2
    rw [h1] at hx'
    rcases List.mem_append.mp hx' with h4 | h4
    · exact Or.inl ((trialDiv_spec n).2 x h4)
    · rcases h3 x h4 with h5 | h5
      · exact Or.inr (Or.inl h5)
      · exact Or.inr (Or.inr (hgu ▸ h5))

/-- **`factor_auto_complete`**: `n ≠ 0`, no give-up event, a pseudoprime test that never accepts a
composite ⟹ every returned element is prime. Under the oracle contract the list moreover
multiplies to `n` and is sorted: it is THE prime factorization of `n`. -/
theorem factor_auto_complete (o : Oracle σ) (hsound : ∀ t m, (o.prime t m).1 = true → Nat.Prime m)
    (fuel n : Nat) (alg : Algo) (os : σ) (l : List Nat) (hn : n ≠ 0)
    (h : factor o fuel n alg os = .ok l) (hg : factorGiveups o fuel n alg os = []) :
    (∀ x ∈ l, Nat.Prime x) ∧ l.Pairwise (· ≤ ·) ∧ (OracleOK o → l.prod = n) := by
  refine ⟨?_, ?_, ?_⟩
  · intro x hx
    rcases factor_composite_needs_giveup o fuel n alg os l hn h x hx with h1 | ⟨t, ht⟩ | h1
    · exact smallPrimes_prime x h1
    · exact hsound t x ht
    · rw [hg] at h1; simp at h1
  · rcases factor_ok h with ⟨h0, _⟩ | ⟨_, s', _, rfl, _⟩
    · exact absurd h0 hn
    · exact sortNat_sorted _
  · intro hok
    rcases factor_ok h with ⟨h0, _⟩ | ⟨h0, s', hrun, rfl, _⟩
    · exact absurd h0 hn
    · rw [sortNat_prod]; exact factorRun_prod hok h0 hrun

/-! ### non-vacuity -/

open Ymq.Factor.Toy

/-- Auto on 2²·211·223: rho (47053 has 16 bits < 52) splits, both parts accepted, no give-up -/
example : factor toy 5 188212 .auto () = .ok [2, 2, 211, 223] ∧
    factorGiveups toy 5 188212 .auto () = [] := by decide +kernel

example : (∀ x ∈ [2, 2, 211, 223], Nat.Prime x) ∧ [2, 2, 211, 223].Pairwise (· ≤ ·) ∧
    (OracleOK toy → [2, 2, 211, 223].prod = 188212) :=
  factor_auto_complete toy toy_prime_sound 5 188212 .auto () _ (by decide)
    (by decide +kernel) (by decide +kernel)

/-- a run WITH a give-up event: selector Qs on 211²·223, the sieve finds nothing; the composite
is output (as `.failure` at top level since it is alone) and logged -/
example : factorImpl toy 5 (211 * 211 * 223) .qs (initSt () []) =
    .ok { os := (), factors := [9928183], pm1done := false, giveups := [9928183] } := by
  decide +kernel

/-- at the entry point: the composite 211²·223 is output, and it is in the give-up log -/
example : factor toy 5 (2 * 211 * 211 * 223) .qs () = .ok [2, 9928183] ∧
    factorGiveups toy 5 (2 * 211 * 211 * 223) .qs () = [9928183] := by decide +kernel

/-- selector Rho with a failing `rho` (give-up site added by the `fix:` of the Rho arm): the
composite 47053 is output and logged -/
example : factor toyNoRho 18 188212 .rho () = .ok [2, 2, 47053] ∧
    factorGiveups toyNoRho 18 188212 .rho () = [47053] := by decide +kernel

example : ∃ new gnew, [9928183] = [] ++ new ∧ [9928183] = [] ++ gnew ∧
    ∀ x ∈ new, (∃ t, (toy.prime t x).1 = true) ∨ x ∈ gnew :=
  auto_composite_needs_giveup toy 5 (211 * 211 * 223) .qs (initSt () [])
    { os := (), factors := [9928183], pm1done := false, giveups := [9928183] } (by decide +kernel)

example : ∃ new, [2, 2, 211, 223] = [2, 2] ++ new ∧
    ∀ x ∈ new, (toy.prime () x).1 = true ∨ x ∈ ([] : List Nat) :=
  auto_composite_needs_giveup_det toy (fun _ _ _ => rfl) 5 47053 (initSt () [2, 2])
    { os := (), factors := [2, 2, 211, 223], pm1done := false, giveups := [] } (by decide +kernel)

example : ∃ new, [2, 2, 211, 223] = [2, 2] ++ new ∧ ∀ x ∈ new, Nat.Prime x :=
  auto_complete toy toy_prime_sound 5 47053 .auto (initSt () [2, 2])
    { os := (), factors := [2, 2, 211, 223], pm1done := false, giveups := [] } (by decide +kernel)
    rfl

end Ymq.C02
