//! Multi-threaded runs with the linearised relation-store history recorded (C04).
//!
//! `threads_run <n> <alg> <threads|0> <jitter-seed|0> [fb=.. lf=.. dbl=.. isz=..]`
//! answer: `<result> | <trace> | <history>`
//!   history = tokens joined by `;` as recorded by yamaquasi::relations::verif_hooks:
//!     `new|<n>|<fbsize>|<maxlarge>`, `<tid>|<rel>|<pq>` (one per add, in write-lock order),
//!     `final|<store dump>`
use crate::util::*;
use yamaquasi::relations::verif_hooks as rh;
use yamaquasi::{factor, Preferences, Verbosity};

pub fn handle(op: &str, a: &[&str]) -> Option<String> {
    match op {
        "threads_run" => {
            let n = uint_of(a.first()?)?;
            let alg = crate::ops_factor::algo_of(a.get(1)?)?;
            let threads: usize = a.get(2)?.parse().ok()?;
            let jitter: u64 = a.get(3)?.parse().ok()?;
            let mut prefs = Preferences::default();
            prefs.verbosity = Verbosity::Silent;
            if threads > 0 {
                prefs.threads = Some(threads);
            }
            for kv in &a[4..] {
                let (k, v) = kv.split_once('=')?;
                match k {
                    "fb" => prefs.fb_size = Some(v.parse().ok()?),
                    "lf" => prefs.large_factor = Some(v.parse().ok()?),
                    "dbl" => prefs.use_double = Some(v == "1"),
                    "isz" => prefs.interval_size = Some(v.parse().ok()?),
                    _ => return None,
                }
            }
            yamaquasi::verif_hooks::set_jitter(jitter);
            yamaquasi::verif_hooks::start();
            rh::history_start();
            let r = std::panic::catch_unwind(std::panic::AssertUnwindSafe(|| factor(n, alg, &prefs)));
            let hist = rh::history_take();
            let tr = yamaquasi::verif_hooks::take();
            yamaquasi::verif_hooks::set_jitter(0);
            let trace = if tr.is_empty() {
                "-".to_string()
            } else {
                tr.iter().map(|e| e.replace(' ', ":")).collect::<Vec<_>>().join(";")
            };
            let res = match r {
                Ok(Ok(v)) => format!("ok {}", show_list(&v)),
                Ok(Err(_)) => "failure".to_string(),
                Err(_) => "panic".to_string(),
            };
            let h = if hist.is_empty() { "-".to_string() } else { hist.join(";") };
            Some(format!("{res} | {trace} | {h}"))
        }
        _ => None,
    }
}
