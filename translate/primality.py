#!/usr/bin/env python3
"""Constants of the primality tests: fbase::SMALL_PRIMES, isprime64's base sets and thresholds."""
import re, sys, os
sys.path.insert(0, os.path.dirname(os.path.abspath(__file__)))
from common import *


def run():
    fb = strip_rust_comments(src("src/fbase.rs"))
    m = must(r"pub const SMALL_PRIMES: \[u64; (\d+)\] = \[(.*?)\];", fb, "fbase::SMALL_PRIMES")
    primes = [int_lit(x) for x in m.group(2).split(",") if x.strip()]
    if len(primes) != int(m.group(1)):
        raise ExtractError("SMALL_PRIMES length mismatch")
    lib = strip_rust_comments(src("src/lib.rs"))
    body = must(r"pub fn isprime64\(p: u64\) -> bool \{(.*?)\n\}\n", lib, "isprime64").group(1)
    # structure: table lookup, then tiers `for b in [..] { if !miller(b) { return false; } }`
    # each tier after the first guarded by `if p >> K != 0 {`
    tiers = []
    pos = 0
    pat = re.compile(r"(?:if p >> (\d+) != 0 \{\s*)?for b in \[([^\]]*)\] \{\s*if !miller\(b\) \{\s*return false;\s*\}\s*\}(\s*\})?")
    for mm in pat.finditer(body):
        thr = int(mm.group(1)) if mm.group(1) else 0
        if (mm.group(1) is None) != (mm.group(3) is None):
            raise ExtractError("isprime64 tier structure changed")
        tiers.append((thr, [int_lit(x) for x in mm.group(2).split(",") if x.strip()]))
    if not tiers:
        raise ExtractError("isprime64 tiers not found")
    # nothing else may return false / true: count the return statements
    even = re.search(r"if p % 2 == 0 \{\s*return false;\s*\}", body) is not None
    nret = len(re.findall(r"return false", body)) - (1 if even else 0)
    if nret != len(tiers):
        raise ExtractError(f"isprime64 has {nret} `return false` sites for {len(tiers)} tiers")
    if not re.search(r"\}\s*true\s*$", body):
        raise ExtractError("isprime64 no longer ends with `true`")
    m2 = must(r"if p < \*fbase::SMALL_PRIMES\.last\(\)\.unwrap\(\) \{\s*return fbase::SMALL_PRIMES\[\.\.\]\.contains\(&p\);\s*\}",
              body, "isprime64 small table lookup")
    # pseudoprime: bases are SMALL_PRIMES
    pp = must(r"pub fn pseudoprime\(p: Uint\) -> bool \{(.*?)\n\}\n", lib, "pseudoprime").group(1)
    must(r"for &b in &fbase::SMALL_PRIMES \{", pp, "pseudoprime base loop")
    must(r"if !p\.bit\(0\) \{\s*return p\.try_into\(\) == Ok\(2_u64\);\s*\}", pp, "pseudoprime even test")
    must(r"if p\.bits\(\) <= 64 \{\s*return isprime64\(p\.low_u64\(\)\);\s*\}", pp, "pseudoprime 64-bit delegation")
    out = ["namespace Ymq.Gen.Primality", "",
           f"def smallPrimes : List Nat := {lean_list(primes)}", "",
           "/-- (shift threshold, Miller bases) tiers of `isprime64`: a tier applies when `p >>> thr ≠ 0` (thr = 0: always). -/",
           "def tiers : List (Nat × List Nat) := [" + ", ".join(f"({t}, {lean_list(b)})" for t, b in tiers) + "]", "",
           "/-- whether `isprime64` returns false on even p before the Montgomery set-up -/",
           f"def rejectsEven : Bool := {'true' if even else 'false'}", "",
           "end Ymq.Gen.Primality", ""]
    write_gen("Primality", "\n".join(out), ["src/fbase.rs", "src/lib.rs"])
    return f"{len(primes)} small primes, tiers {tiers}"


if __name__ == "__main__":
    main(run)
