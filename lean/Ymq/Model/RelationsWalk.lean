/-
Model of `RelationSet::walk_doubles` as the code is since fix e402536: an explicit stack of
`WalkFrame`s instead of the mutual recursion with `combine_double` (src/relations.rs:336-401,
522-581), line by line: `walk_frame`, the `while let Some(top) = stack.last_mut()` loop with the
position in the four loops of a frame, `combine_double_step` (the walk from a newly available large
prime is returned as a request), `combine_double` = `combine_double_step` + the requested walk, and
`add` on top of them. Conventions as in Ymq/Model/Relations.lean (`M = Except Err`); the `while`
loop takes fuel = number of iterations (theorem `walk_stack_terminates`: a stated bound suffices).
The head of the list `stack` is the top of the Rust `Vec` (`last_mut`/`push`/`pop`).
No Mathlib import: linked into the native driver.
-/
import Ymq.Model.Relations

namespace Ymq.Relations

/-- `struct WalkFrame` -/
structure WalkFrame where
  root : Nat
  pqs : List (Nat × Nat)        -- keys (root, q), collected when the frame was created
  qps : List (Nat × Nat)        -- reverse keys (root, p)
  pos : Nat                     -- position in: combine pqs, combine qps, walk pqs, walk qps
  deriving DecidableEq, Repr

/-- `walk_frame(root)` -/
def walkFrame (root : Nat) (s : Store) : M WalkFrame :=
  -- `root + 1`: u32 overflow panic in the checked profile (release: wraps, `range` panics unless empty)
  if root + 1 ≥ W32 then throw .panic
  else pure { root := root,
              pqs := (s.doubles.filter (fun e => e.1.1 = root)).map (fun e => e.1),
              qps := s.doublesRev.filter (fun e => e.1 = root),
              pos := 0 }

/-- `combine_double_step`: (ok, requested walk, store) -/
def combineDoubleStep (r : Relation) (p q : Nat) (s : Store) : M (Bool × Option Nat × Store) :=
  if p = q then do
    let s1 ← addCycle { r with cofactor := 1, factors := r.factors ++ [(toI64 p, 2)] } s
    pure (true, none, s1)
  else
    match alookup p s.partials, alookup q s.partials with
    | some bp, some bq => do
      let rp ← unpack bp
      let rq ← unpack bq
      let r1 ← combine s.n r rp
      let r2 ← combine s.n r1 rq
      let s1 ← addCycle r2 s
      if rp.cyclelen + r.cyclelen < rq.cyclelen then do
        let rpq ← combine s.n r rp
        if rpq.cofactor ≠ q then throw .panic                 -- assert_eq!(rpq.cofactor, q)
        else do
          let b ← pack rpq
          pure (true, none, s1.setPartial q b)
      else if rq.cyclelen + r.cyclelen < rp.cyclelen then do
        let rqp ← combine s.n r rq
        if rqp.cofactor ≠ p then throw .panic                 -- assert_eq!(rqp.cofactor, p)
        else do
          let b ← pack rqp
          pure (true, none, s1.setPartial p b)
      else pure (true, none, s1)
    | some bp, none => do
      let rp ← unpack bp
      let rq ← combine s.n r rp
      if rq.cofactor ≠ q then throw .panic                    -- assert_eq!(rq.cofactor, q)
      else do
        let b ← pack rq
        pure (true, some (q % W32), { s with nCombined12 := s.nCombined12 + 1 }.setPartial q b)
    | none, some bq => do
      let rq ← unpack bq
      let rp ← combine s.n r rq
      if rp.cofactor ≠ p then throw .panic                    -- assert_eq!(rp.cofactor, p)
      else do
        let b ← pack rp
        pure (true, some (p % W32), { s with nCombined12 := s.nCombined12 + 1 }.setPartial p b)
    | none, none => pure (false, none, s)

/-- what one iteration of the `while` loop asks for -/
inductive StepRes
  | pop                                   -- `stack.pop()`
  | next (x : Option Nat)                 -- the value of `next`
  deriving DecidableEq, Repr

/-- the two combining arms: `(p, q)` is the key of `doubles` -/
def removeStep (p q : Nat) (s : Store) : M (StepRes × Store) :=
  match alookup (p, q) s.doubles with
  | none => pure (.next none, s)                              -- `None => None`
  | some blob => do
    let s1 := { s with doubles := aerase (p, q) s.doubles, doublesRev := serase (q, p) s.doublesRev }
    let r ← unpack blob
    let res ← combineDoubleStep r p q s1
    if res.1 then pure (.next res.2.1, res.2.2) else throw .panic      -- assert!(ok)

/-- the body of the `while` loop for the frame `top` (with `pos` as read before `top.pos += 1`) -/
def frameStep (top : WalkFrame) (s : Store) : M (StepRes × Store) :=
  let npq := top.pqs.length
  let nqp := top.qps.length
  let pos := top.pos
  if pos < npq then
    match top.pqs[pos]? with
    | none => throw .panic
    | some (p, q) => removeStep p q s
  else if pos < npq + nqp then
    match top.qps[pos - npq]? with
    | none => throw .panic
    | some (q, p) => removeStep p q s
  else if pos < 2 * npq + nqp then
    match top.pqs[pos - npq - nqp]? with
    | none => throw .panic
    | some (p, q) => if p ≠ top.root then throw .panic else pure (.next (some q), s)
  else if pos < 2 * npq + 2 * nqp then
    match top.qps[pos - 2 * npq - nqp]? with
    | none => throw .panic
    | some (q, p) => if q ≠ top.root then throw .panic else pure (.next (some p), s)
  else pure (.pop, s)

/-- the `while let Some(top) = stack.last_mut()` loop; fuel = iterations -/
def walkIter : Nat → List WalkFrame → Store → M Store
  | _, [], s => pure s
  | 0, _ :: _, _ => throw .fuel
  | fuel + 1, top :: rest, s => do
    let r ← frameStep top s
    match r.1 with
    | .pop => walkIter fuel rest r.2
    | .next none => walkIter fuel ({ top with pos := top.pos + 1 } :: rest) r.2
    | .next (some x) => do
      let f ← walkFrame x r.2
      walkIter fuel (f :: { top with pos := top.pos + 1 } :: rest) r.2

/-- `walk_doubles(root)`, explicit stack -/
def walkStack (fuel root : Nat) (s : Store) : M Store := do
  let f ← walkFrame root s
  walkIter fuel [f] s

/-- `combine_double` = `combine_double_step` + the requested walk -/
def combineDoubleStack (fuel : Nat) (r : Relation) (p q : Nat) (s : Store) : M (Bool × Store) := do
  let res ← combineDoubleStep r p q s
  match res.2.1 with
  | some root => do
    let s1 ← walkStack fuel root res.2.2
    pure (res.1, s1)
  | none => pure (res.1, res.2.2)

/-- number of loop iterations that always suffices (theorem `walk_stack_terminates`), in terms of
`L = doubles.len() + doubles_rev.len()` -/
def Store.iterFuel (s : Store) : Nat :=
  let l := s.doubles.length + s.doublesRev.length
  2 * l * l * (l + 1) + 1

/-- `RelationSet::add` over the explicit-stack walk -/
def addStack (r : Relation) (pq : Option (Nat × Nat)) (s : Store) : M Store :=
  if ¬ r.x < s.n then throw .debug
  else if r.cofactor = 1 then addCycle r s
  else if r.cofactor < s.maxlarge then do
    let res ← combineSingle r { s with nPartials := s.nPartials + 1 }
    if res.1 then pure res.2
    else do
      let b ← pack r
      let s1 := res.2.setPartial r.cofactor b
      if r.cofactor ≥ W32 then throw .panic
      else walkStack s1.iterFuel r.cofactor s1
  else
    match pq with
    | none => pure s
    | some (p, q) =>
      if p ≥ W32 ∨ q ≥ W32 then throw .panic
      else do
        let s0 := { s with nDoubles := s.nDoubles + 1 }
        let res ← combineDoubleStack s0.iterFuel r p q s0
        if res.1 then pure res.2
        else do
          let key := if p < q then (p, q) else (q, p)
          let b ← pack r
          pure { res.2 with doubles := ainsert ltPair key b res.2.doubles,
                            doublesRev := sinsert (key.2, key.1) res.2.doublesRev }

def runHistoryStack : List (Relation × Option (Nat × Nat)) → Store → M Store
  | [], s => pure s
  | (r, pq) :: t, s => do
    let s1 ← addStack r pq s
    runHistoryStack t s1

end Ymq.Relations
