"""C15 helper: one run of the 128-bit ECM end to end (src/ecm128.rs `ecm_curve`, `ecm`; model Ymq/Model/Ecm128Curve.lean).

Ops (all K; O where the reference arithmetic decides):
  e128_curve n x y z b1 b2       real `ecm128::ecm_curve` on the a = -1 curve through (x:y:z), SmoothBase::new(b1, false)
  e128_curve_raw n x y z fs b2   the same on explicit 64-bit blocks `fs`
  e128_stage1 n x y z b1         the point after all blocks of stage 1 (real `scalar64_mul`, no exits)
  e128_tables n x y z d1 d2      baby steps ; giant steps ; normalised y (real primitives in the order of the routine)
  e128_ecm n curves b1 b2        real `ecm128::ecm` (curve selection of every seed + the curve runs)

Oracle: affine twisted Edwards arithmetic (a = -1, complete addition law) modulo every prime factor of n, plain Python
integers. Constructed inputs: n = p q with p < 2^17 (orders by brute force) and q up to 111 bits so that n has 65..128 bits
(also n >= 2^127 and n close to 2^128), the order of the point after stage 1 modulo p being a prescribed grid value
m = i d1 +- b at the rims (i in {1, 2, 3, d2-1, d2}; first, second, middle and last baby step). Modulo a cofactor above
2^40 the order after stage 1 is not searched: it is taken to be beyond the grid unless stage 1 itself annihilates the point
(probability of the contrary < 2^-25 per case for a random curve; such a case would show as a K-clean O failure).
"""
import math
from vlib.pipeline import Case
from vlib import gen
import props.c15_ecmcurve as ec

OPS = {"e128_curve", "e128_curve_raw", "e128_stage1", "e128_tables", "e128_ecm"}
ROWS = ec.ROWS
ARMS = [(16, 660), (40, 1080), (50, 1920), (100, 3000)]
A = -1
BIG = 1 << 40


def big_prime(rng, p, shape):
    """cofactor q such that n = p q has the wanted shape"""
    if shape == "top":           # n in [2^127, 2^128)
        lo, hi = (1 << 127) // p + 1, ((1 << 128) - 1) // p
    elif shape == "ones":        # n just below 2^128
        hi = ((1 << 128) - 1) // p
        lo = hi - (1 << 40)
    elif shape == "w64":         # n just above one word
        lo, hi = (1 << 64) // p + 1, (1 << 66) // p
    else:
        bits = rng.randrange(65, 128)
        lo, hi = (1 << (bits - 1)) // p + 1, ((1 << bits) - 1) // p
    for _ in range(200):
        q = gen.next_prime(rng.randrange(lo, hi) | 1)
        if q <= hi and q != p:
            return q
    return None


SHAPES = ["top", "ones", "w64", "any", "any", "top"]


def point_mod(rng, r):
    d, G = ec.curve_mod(rng, r, A)
    return d, G


def lift(rng, p, Gp, q, Gq):
    n = p * q
    x = ec.crt(Gp[0], p, Gq[0], q)
    y = ec.crt(Gp[1], p, Gq[1], q)
    z = rng.randrange(1, n)
    while math.gcd(z, n) != 1:
        z = rng.randrange(1, n)
    return n, (x * z % n, y * z % n, z)


def build(rng, p, q, E, bound, want):
    sp = ec.find_side(rng, p, A, E, bound, want)
    if sp is None:
        return None
    for _ in range(20):
        dq, Gq = point_mod(rng, q)
        try:
            if ec.aff_mul(q, A, dq, E, Gq)[0] != 0:
                break
        except ec.Exceptional:
            continue
    else:
        return None
    return lift(rng, p, sp[1], q, Gq)


def line(op, n, G, *rest):
    return " ".join(map(str, [op, n, G[0], G[1], G[2], *rest]))


def constructed(rng, rows, per_row, primes_only=False):
    """`e128_curve` cases whose order modulo p after stage 1 is i d1 + s b for boundary indices"""
    k = 0
    for (b2, d1, d2) in rows:
        ts = ec.targets(d1, d2)
        rng.shuffle(ts)
        if primes_only:
            ts = [t for t in ts if gen.is_prime(t[3])]
        for (i, b, s, m) in ts[:per_row]:
            b1 = rng.choice([16, 30, 50])
            E = ec.exponent(b1)
            for _ in range(6):
                p = ec.prime_for(rng, m)
                q = big_prime(rng, p, SHAPES[k % len(SHAPES)])
                if q is None:
                    continue
                r = build(rng, p, q, E, (d2 + 2) * d1, m)
                if r:
                    k += 1
                    n, G = r
                    yield Case(line("e128_curve", n, G, b1, b2), tag=f"f={p},{q}|i={i},b={b},s={s}")
                    break


def random_curve(rng, n):
    """a point (x:y:z) with invertible coordinates modulo n (every such point is on exactly one a = -1 curve)"""
    while True:
        x, y, z = (rng.randrange(1, n) for _ in range(3))
        if math.gcd(x * y * z, n) == 1:
            return (x, y, z)


def cases(rng, tier, extended=False):
    q = tier == "quick"
    mul = 4 if extended else 1
    # --- orders at the boundary indices of the grid: corpus/C15/e128_grid.txt (written once by `constructed`); fresh ones here
    yield from constructed(rng, ROWS[:2] if q else ROWS, (2 if q else 8) * mul, primes_only=True)
    # --- stage-1 hits (one factor / both at once), random curves, degenerate generators
    for k in range((24 if q else 300) * mul):
        b1, b2 = rng.choice(ARMS)
        _, d1, d2 = ec.stage2_row(b2)
        E = ec.exponent(b1)
        p = gen.next_prime(rng.randrange(1 << 10, 1 << 16))
        kind = k % 4
        if kind == 0:
            qq = big_prime(rng, p, SHAPES[k % len(SHAPES)])
            r = build(rng, p, qq, E, (d2 + 2) * d1, 1)
            tag = "stage1"
        elif kind == 1:
            # both factors small: found in the same block (`fg.x == 0`: None) or one after the other
            qq = gen.next_prime(rng.randrange(1 << 10, 1 << 14))
            if qq == p:
                continue
            sp, sq = ec.find_side(rng, p, A, E, 0, 1), ec.find_side(rng, qq, A, E, 0, 1)
            r = lift(rng, p, sp[1], qq, sq[1]) if sp and sq else None
            tag = "stage1-both"
        else:
            qq = big_prime(rng, p, SHAPES[k % len(SHAPES)])
            n = p * qq
            r = (n, random_curve(rng, n))
            tag = "random"
        if not r:
            continue
        n, G = r
        yield Case(line("e128_curve", n, G, b1, b2), tag=f"f={p},{qq}|{tag}")
        if k % 8 == 2:
            yield Case(line("e128_curve", n, (0, 1, 1), b1, b2), o=False, tag="neutral")
            yield Case(line("e128_curve", n, (0, 0, 0), b1, b2), o=False, tag="zero")
            yield Case(line("e128_curve", n, (G[0], 0, G[2]), b1, b2), o=False, tag="y0")
    # --- every arm of `ecm128` / `ecm_semiprime` once, B2 between labels, single-word moduli
    arms = [(16, 660), (40, 1080), (50, 1920), (100, 3000), (180, 7700), (350, 13200), (600, 20000), (60, 1920), (1000, 53000)]
    for k, (b1, b2) in enumerate(arms if q else arms * 6):
        p = gen.rand_prime(rng, rng.choice([20, 30, 33, 40]))
        qq = gen.rand_prime(rng, rng.choice([30, 40, 64, 80, 88]))
        if p == qq or (p * qq).bit_length() > 128:
            continue
        n = p * qq
        yield Case(line("e128_curve", n, random_curve(rng, n), b1, b2 if k % 3 else b2 + rng.choice([-1, 1, 7])),
                   tag=f"f={p},{qq}|arm")
    # --- explicit blocks: empty stage 1, zero block, unit blocks, a block of a full word
    for k in range((6 if q else 40) * mul):
        b2, d1, d2 = rng.choice(ROWS[:2])
        p = gen.next_prime(rng.randrange(1 << 10, 1 << 14))
        qq = big_prime(rng, p, SHAPES[k % len(SHAPES)])
        E = ec.exponent(16)
        r = build(rng, p, qq, E, (d2 + 2) * d1, 1 if k % 2 else rng.choice([t[3] for t in ec.targets(d1, d2)]))
        if not r:
            continue
        n, G = r
        small = [2 ** 7, 3 ** 3, 5, 7, 11, 13]
        shapes = [[], [1] * 5 + small, [E], [0] + small, small + [0], [E, (1 << 64) - 1]]
        fs = shapes[k % len(shapes)]
        yield Case(line("e128_curve_raw", n, G, ",".join(map(str, fs)) or "-", b2), tag=f"f={p},{qq}|raw{k % len(shapes)}", o=False)
    # --- intermediate values: stage-1 point, tables, normalised coordinates (one- and two-word moduli, bit 127 set)
    for k in range((12 if q else 120) * mul):
        p = gen.rand_prime(rng, rng.choice([30, 40, 48]))
        qq = big_prime(rng, p, SHAPES[k % len(SHAPES)]) if k % 3 else gen.rand_prime(rng, 30)
        if qq is None or p == qq or qq < 1 << 14:
            continue
        n = p * qq
        G = random_curve(rng, n)
        yield Case(line("e128_stage1", n, G, rng.choice([16, 50, 300, 600])), tag=f"f={p},{qq}")
        b2, d1, d2 = rng.choice(ROWS)
        yield Case(line("e128_tables", n, G, d1, d2), tag=f"f={p},{qq}")
        if k % 4 == 0:
            yield Case(line("e128_tables", n, G, d1, rng.choice([0, 1, 2, 3])), tag=f"f={p},{qq}")
            yield Case(line("e128_tables", n, G, rng.choice([4, 6, 8, 10, 12, 30]), 5), tag=f"f={p},{qq}")
    for d1 in (1, 2, 3, 5, 7, 9, 15, 21):
        n = 1000003 * 1000033 * 1000037
        yield Case(line("e128_tables", n, random_curve(rng, n), d1, 4), o=False, tag="odd-d1")
    # --- the curve loop of `ecm128::ecm`: K on the returned pair; O = soundness
    for k in range((10 if q else 100) * mul):
        p = gen.rand_prime(rng, rng.choice([12, 16, 20, 24, 33]))
        qq = gen.rand_prime(rng, rng.choice([16, 24, 40, 64, 90]))
        if p == qq or (p * qq).bit_length() > 128:
            continue
        b1, b2 = rng.choice(ARMS)
        yield Case(f"e128_ecm {p * qq} {rng.choice([1, 2, 3, 6])} {b1} {b2}", tag=f"f={p},{qq}|loop")
    for n in (3 * 5, 3 * 7 * 11, 11 * 13, 5 * (2 ** 61 - 1), 7 * (2 ** 89 - 1), (2 ** 61 - 1) * (2 ** 31 - 1)):
        # 3 | n: `Suyama11::new(&zn).unwrap()` panics (direct call; `factor` removes small factors first): K only
        yield Case(f"e128_ecm {n} 3 16 660", tag="loop-small", o=n % 3 != 0)


def known_factors(case, n):
    if case.tag and case.tag.startswith("f="):
        return [int(x) for x in case.tag[2:].split("|")[0].split(",")]
    fs, m, p = [], n, 2
    while p < 1 << 17 and m > 1:
        while m % p == 0:
            fs.append(p)
            m //= p
        if fs and gen.is_prime(m):
            break
        p += 1 if p == 2 else 2
    if m > 1:
        fs.append(m)
    return fs if all(gen.is_prime(f) for f in fs) else None


def side_status(r, G, E, bound):
    """'s1', ('ord', m), 'big' or None (undecided); `d` is the one of the a = -1 curve through G"""
    try:
        x, y = ec.affine(r, G)
        if x == 0 or y == 0:
            return None
        d = (A * x * x + y * y - 1) * ec.inv(x * x * y * y, r) % r
        if d in (0, A % r):
            return None
        Q = ec.aff_mul(r, A, d, E, (x, y))
        if Q == (0, 1):
            return "s1"
        if Q[0] == 0:
            return None
        if r > BIG:
            return "big"
        if bound > 60000:
            return None
        m = ec.aff_order_upto(r, A, d, Q, bound)
        return ("ord", m) if m else "big"
    except ec.Exceptional:
        return None


def curve_d(r, G):
    x, y = ec.affine(r, G)
    return (A * x * x + y * y - 1) * ec.inv(x * x * y * y, r) % r, (x, y)


def oracle(case, ans):
    op, a = case.op, case.args
    n = int(a[0])
    if op in ("e128_curve", "e128_curve_raw", "e128_ecm"):
        if ans != "none":
            try:
                f, g = [int(v) for v in ans.split()]
            except ValueError:
                return f"unreadable answer {ans!r}"
            if f * g != n or not 1 < f < n:
                return f"returned pair ({f}, {g}) is not a proper factorisation of n"
        if op != "e128_curve":
            return None
        fs = known_factors(case, n)
        if fs is None or len(set(fs)) != len(fs) or len(fs) != 2:
            return None
        G = tuple(int(v) % n for v in a[1:4])
        b1, b2 = int(a[4]), int(a[5])
        _, d1, d2 = ec.stage2_row(b2)
        E = ec.exponent(b1)
        st = {r: side_status(r, G, E, (d2 + 2) * d1) for r in fs}
        if any(s is None for s in st.values()):
            return None
        hit1 = [r for r in fs if st[r] == "s1"]
        if hit1:
            if len(hit1) == 1:
                f = hit1[0]
                return None if ans == f"{f} {n // f}" else f"stage 1 annihilates the point modulo {f} only: expected {f} {n // f}"
            return None
        eff = d2 * d1 + d1 // 2 - 1
        promised = [r for r in fs if st[r] != "big" and gen.is_prime(st[r][1]) and d1 // 2 < st[r][1] <= eff and d1 % st[r][1]]
        others_big = all(st[r] == "big" for r in fs if r not in promised)
        if len(promised) == 1 and others_big:
            f = promised[0]
            return None if ans == f"{f} {n // f}" else (
                f"the point after stage 1 has prime order {st[f][1]} <= {eff} modulo {f} (and no small order modulo the cofactor): "
                f"expected {f} {n // f}")
        if all(s == "big" for s in st.values()):
            return None if ans == "none" else "no multiple up to the end of the grid annihilates the point modulo any prime factor"
        return None
    fs = known_factors(case, n)
    if fs is None:
        return None
    G = tuple(int(v) % n for v in a[1:4])
    if op == "e128_stage1":
        E = ec.exponent(int(a[4]))
        P = tuple(int(v) for v in ans.split())
        for r in fs:
            try:
                d, Ga = curve_d(r, G)
                ref = ec.aff_mul(r, A, d, E, Ga)
            except ec.Exceptional:
                continue
            if all(c % r == 0 for c in P):
                continue        # zero triple modulo r: degenerate double-add step (listed finding of C15)
            if ref == (0, 1):
                if P[0] % r:
                    return f"[E]G is the neutral element modulo {r} but x does not vanish"
            elif not ec.proj_is(r, P, ref):
                return f"the point after stage 1 is not [E]G modulo {r}"
        return None
    if op == "e128_tables":
        d1, d2 = int(a[4]), int(a[5])
        parts = ans.split(" ; ")
        bst = [tuple(int(v) for v in t.split()) for t in parts[0].split(" | ")]
        gst = [tuple(int(v) for v in t.split()) for t in parts[1].split(" | ")]
        ys = [int(v) for v in parts[2].split(",")]
        bs = ec.babies(d1)
        if d1 % 2:
            return None
        if len(bst) != len(bs):
            return f"{len(bst)} baby steps, expected {len(bs)} (the b < d1/2 coprime to d1)"
        if len(gst) != max(d2, 2):
            return f"{len(gst)} giant steps, expected {max(d2, 2)}"
        for r in fs:
            try:
                d, Ga = curve_d(r, G)
                for b, P in zip(bs, bst):
                    if not ec.proj_is(r, P, ec.aff_mul(r, A, d, b, Ga)):
                        return f"baby step for b = {b} is not [b]G modulo {r}"
                for i, P in enumerate(gst):
                    if not ec.proj_is(r, P, ec.aff_mul(r, A, d, (i + 1) * d1, Ga)):
                        return f"giant step {i} is not [{i + 1} d1]G modulo {r}"
            except ec.Exceptional:
                continue
        steps = bst + gst
        if len(ys) != len(steps):
            return "number of normalised coordinates differs from the number of steps"
        Z = math.prod(s[2] for s in steps) % n
        for k, (s, y) in enumerate(zip(steps, ys)):
            if (y * s[2] - s[1] * Z) % n:
                return f"normalised y of step {k} is not y/z times the product of all z"
        return None
    return None


def klass(case, ans):
    op = case.op
    t = case.tag.split("|")[-1] if case.tag else ""
    if ans in ("panic", "hang", "abort", "?"):
        return f"{op}/{ans}/{t}"
    if op in ("e128_curve", "e128_curve_raw", "e128_ecm"):
        if t.startswith("i="):
            t = "grid/" + t.split(",")[0]
        n = int(case.args[0])
        size = "w1" if n < 1 << 64 else "b127" if n >> 127 else "w2"
        return f"{op}/{'none' if ans == 'none' else 'factor'}/{t}/{size}"
    return op


if __name__ == "__main__":
    # writes corpus/C15/e128_grid.txt: python3 -m props.c15_ecm128 > corpus/C15/e128_grid.txt
    import random
    rng = random.Random(128128)
    for c in constructed(rng, ROWS, 28):
        print(c.line if hasattr(c, "line") else c.request)
