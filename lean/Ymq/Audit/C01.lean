import Ymq.Props.C01
#print axioms Ymq.C01.factor_no_one
#print axioms Ymq.C01.factor_sound
#print axioms Ymq.C01.retain_residue_one
#print axioms Ymq.C01.combineDiv_prod
#print axioms Ymq.C01.combineDiv_no_panic
#print axioms Ymq.C01.factorImpl_prod
#print axioms Ymq.C01.factor_exact
