/-
Tiny concrete oracles (state `Unit`) used by the non-vacuity examples of C01/C02/C03/C05.
They know one composite: 47053 = 211 · 223 (both primes lie above the 46 trial-division primes).
-/
import Ymq.Lemmas.FactorTop

namespace Ymq.Factor

deriving instance DecidableEq for Ymq.Factor.Out
deriving instance DecidableEq for Ymq.Factor.Res
deriving instance DecidableEq for Ymq.Factor.St

namespace Toy

def pairAt (m : Nat) : Option (Nat × Nat) := if m = 47053 then some (211, 223) else none
def manyAt (m : Nat) : Option (List Nat × Nat) := if m = 47053 then some ([211], 223) else none

/-- every splitting sub-algorithm knows 47053 = 211·223, the sieves report the divisor 211, the
pseudoprime test accepts exactly 211 and 223, abort is never requested -/
def toy : Oracle Unit where
  pp := fun s _ => (none, s)
  prime := fun s m => (decide (m = 211 ∨ m = 223), s)
  rho := fun s m => (manyAt m, s)
  pm1q := fun s m => (manyAt m, s)
  ecmauto := fun s m => (pairAt m, s)
  pm1 := fun s m => (manyAt m, s)
  ecm := fun s m => (pairAt m, s)
  ecm128 := fun s m => (pairAt m, s)
  qs64 := fun s m => (pairAt m, s)
  squfof := fun s m => (pairAt m, s)
  abort := fun s _ => (false, s)
  sieve := fun s _ m => (if m = 47053 then .divs [211] else .divs [], s)

theorem manyAt_ok {n : Nat} {as : List Nat} {b : Nat} (h : manyAt n = some (as, b)) :
    SplitOK n as b := by
  unfold manyAt at h
  split at h
  · rename_i hn
    injection h with h
    injection h with h1 h2
    subst hn h1 h2
    refine ⟨by decide, ?_, by decide⟩
    intro a ha
    simp at ha
    omega
  · exact absurd h (by simp)

theorem pairAt_ok {n a b : Nat} (h : pairAt n = some (a, b)) : PairOK n a b := by
  unfold pairAt at h
  split at h
  · rename_i hn
    injection h with h
    injection h with h1 h2
    subst hn h1 h2
    exact ⟨by decide, by decide, by decide⟩
  · exact absurd h (by simp)

theorem toy_ok : OracleOK toy where
  pp := by intro s n p k _ h; simp [toy] at h
  rho := fun _ _ _ _ _ h => manyAt_ok h
  pm1q := fun _ _ _ _ _ h => manyAt_ok h
  pm1 := fun _ _ _ _ _ h => manyAt_ok h
  ecmauto := fun _ _ _ _ _ h => pairAt_ok h
  ecm := fun _ _ _ _ _ h => pairAt_ok h
  ecm128 := fun _ _ _ _ _ h => pairAt_ok h
  qs64 := fun _ _ _ _ _ h => pairAt_ok h
  squfof := fun _ _ _ _ _ h => pairAt_ok h
  sieveDivs := by
    intro s alg n ds _ h d hd
    simp only [toy] at h
    split at h
    · rename_i hn
      injection h with h
      subst hn h
      simp at hd
      subst hd
      exact ⟨by decide, by decide⟩
    · injection h with h
      subst h
      simp at hd
  sieveUnexpected := by
    intro s alg n d _ h
    simp only [toy] at h
    split at h <;> exact absurd h (by simp)

end Toy

variable {σ : Type}

/-- the contract does not constrain `prime` -/
theorem OracleOK.with_prime {o : Oracle σ} (h : OracleOK o) (pr : σ → Nat → Bool × σ) :
    OracleOK { o with prime := pr } :=
  ⟨h.pp, h.rho, h.pm1q, h.pm1, h.ecmauto, h.ecm, h.ecm128, h.qs64, h.squfof, h.sieveDivs,
    h.sieveUnexpected⟩

/-- the contract does not constrain `abort` -/
theorem OracleOK.with_abort {o : Oracle σ} (h : OracleOK o) (ab : σ → Nat → Bool × σ) :
    OracleOK { o with abort := ab } :=
  ⟨h.pp, h.rho, h.pm1q, h.pm1, h.ecmauto, h.ecm, h.ecm128, h.qs64, h.squfof, h.sieveDivs,
    h.sieveUnexpected⟩

namespace Toy

/-- the pseudoprime test of `toy` never accepts a composite -/
theorem toy_prime_sound : ∀ (t : Unit) (m : Nat), (toy.prime t m).1 = true → Nat.Prime m := by
  intro t m h
  simp only [toy, decide_eq_true_eq] at h
  rcases h with rfl | rfl <;> norm_num

/-- `toy` whose `rho` always fails (still satisfies the contract) -/
def toyNoRho : Oracle Unit := { toy with rho := fun s _ => (none, s) }

theorem toyNoRho_ok : OracleOK toyNoRho :=
  { toy_ok with rho := by intro s n as b _ h; simp [toyNoRho] at h }

/-- `toy` over a counter state: every sub-algorithm call is one tick (so that an abort predicate
can flip "at instant k") -/
def toyN : Oracle Nat where
  pp := fun c _ => (none, c + 1)
  prime := fun c m => (decide (m = 211 ∨ m = 223), c + 1)
  rho := fun c m => (manyAt m, c + 1)
  pm1q := fun c m => (manyAt m, c + 1)
  ecmauto := fun c m => (pairAt m, c + 1)
  pm1 := fun c m => (manyAt m, c + 1)
  ecm := fun c m => (pairAt m, c + 1)
  ecm128 := fun c m => (pairAt m, c + 1)
  qs64 := fun c m => (pairAt m, c + 1)
  squfof := fun c m => (pairAt m, c + 1)
  abort := fun c _ => (false, c + 1)
  sieve := fun c _ m => (if m = 47053 then .divs [211] else .divs [], c + 1)

theorem toyN_ok : OracleOK toyN where
  pp := by intro s n p k _ h; simp [toyN] at h
  rho := fun _ _ _ _ _ h => manyAt_ok h
  pm1q := fun _ _ _ _ _ h => manyAt_ok h
  pm1 := fun _ _ _ _ _ h => manyAt_ok h
  ecmauto := fun _ _ _ _ _ h => pairAt_ok h
  ecm := fun _ _ _ _ _ h => pairAt_ok h
  ecm128 := fun _ _ _ _ _ h => pairAt_ok h
  qs64 := fun _ _ _ _ _ h => pairAt_ok h
  squfof := fun _ _ _ _ _ h => pairAt_ok h
  sieveDivs := fun _ alg n ds hn h => toy_ok.sieveDivs () alg n ds hn h
  sieveUnexpected := fun _ alg n d hn h => toy_ok.sieveUnexpected () alg n d hn h

/-- abort predicate that flips to `true` at tick `k` (and stays) -/
def flipAt (k : Nat) : Nat → Nat → Bool × Nat := fun c _ => (decide (k ≤ c), c + 1)

/-- a NON-monotone abort predicate: true only on even ticks -/
def flicker : Nat → Nat → Bool × Nat := fun c _ => (decide (c % 2 = 0), c + 1)

end Toy

end Ymq.Factor
