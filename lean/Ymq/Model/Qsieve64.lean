/-
Model of `qsieve64::qsieve(n: u64, v)` (src/qsieve64.rs:18-162): the hard-coded small quadratic
sieve behind the selector `Qs64`, from the top of the function down to the list `rels` handed to
`relations::final_step`, and the few lines after that call.

Conventions (see Ymq/Model/Relations.lean, whose outcome monad `M = Except Err` is reused):
* `u64`/`i64`/`u32`/`u8`/`usize` values are `Nat`/`Int`; every `+ - *` that can overflow or
  underflow in the checked profile is an explicit `.overflow` (`chkU64`, `chkI64`, explicit tests),
  every `as` cast an explicit wrap (`toI64`, `% W32`, `% 256`);
* assertions, division by zero, index errors are `.panic`; a `none` of the sub-models
  `Arith.sqrtMod`, `Dividers.new`, `Dividers.divmod64`, `Dividers.modi64` (property C08: any panic
  site inside those routines) is lifted to `.panic`;
* `.fuel`: a loop of the model ran out of fuel. For `addLoop` this never happens (theorem); for the
  trial-division loop `divLoop` it happens exactly when `v = 0`, where the REAL loop
  `loop { (q, r) = divmod64(v); if r == 0 { v = q; exp += 1 } else { break } }` never terminates
  (`0 / p = 0` remainder `0` for ever; in the checked profile `exp += 1` would overflow after 2^64
  rounds). The driver prints `.fuel` as `hang`.
* `arith::isqrt = num_integer::sqrt` is the specification function `Arith.isqrt` (floor square root,
  C08 `isqrt_spec`).
* The multiplier `k` is an INPUT: `select_multiplier` chooses it with `f64` arithmetic that is not
  modelled. Its integer part guarantees `1 ≤ k < 30` and `k·n < 2^64` (`nk` is built by repeated
  `checked_add` and the loop breaks on overflow before a larger `k` can be selected).
* `FBase::new64`: the three parallel vectors `primes`, `sqrts`, `divs` are pushed together, so the
  model keeps one list of entries `(p, r, div)`; `primes[idx]`, `sqrts[idx]`, `divs[idx]` cannot be
  out of range. `idx_by_log`/`revidx` are only read by `fb.idx`, which `Relations.fbIdx` models.
* the `HashMap` `larges` is an association list (never iterated, only `get`/`insert` of an absent
  key); `dummy_rset.combine` is `Relations.combine` (C11) with modulus `n`.
* the sieve interval `Vec<u8>` is an `Array Nat`; it is all zero at the start of every block
  (`vec![0u8; ..]`, then `interval.fill(0)` at the end of every block that does not `break`).
* `extras` (an `i32` statistics counter printed in debug mode, at most 64·32768 increments) and the
  `eprintln!` lines are not modelled.
The kernel vectors of `final_step` are an input (the solvers are property C14), as in C11.
No Mathlib import: linked into the native driver.
-/
import Ymq.Gen.Primality
import Ymq.Model.Arith
import Ymq.Model.Dividers
import Ymq.Model.Relations

namespace Ymq.Qsieve64
open Ymq.Relations (M Err Relation W64 I63 W32 toI64 toU64 bitlen alookup combine finalStep)
open Ymq.Dividers (Div)

def liftO {α : Type} : Option α → M α
  | some a => pure a
  | none => throw .panic

/-- a checked `i64` result -/
def chkI64 (x : Int) : M Int :=
  if -(I63 : Int) ≤ x ∧ x < (I63 : Int) then pure x else throw .overflow

/-! ### `FBase::new64` (src/fbase.rs:82-106) -/

structure FbEntry where
  p : Nat
  r : Nat
  div : Div
  deriving Repr

/-- `for &p in &SMALL_PRIMES { if let Some(r) = sqrt_mod(n, p) { push p, r, Dividers::new(p) } }` -/
def new64Loop (nk : Nat) : List Nat → M (List FbEntry)
  | [] => pure []
  | p :: ps => do
    let r ← liftO (Arith.sqrtMod W64 nk p)
    match r with
    | none => new64Loop nk ps
    | some r => do
      let d ← liftO (Dividers.new (p % W32))                  -- p as u32
      let rest ← new64Loop nk ps
      pure ({ p := p % W32, r := r % W32, div := d } :: rest)

def new64 (nk : Nat) : M (List FbEntry) := do
  let fb ← new64Loop nk Ymq.Gen.Primality.smallPrimes
  match fb.getLast? with
  | none => throw .panic                                      -- primes[primes.len() - 1]
  | some e => if 2 * 128 > e.p then pure fb else throw .panic -- assert!(2 * REVIDX_STEP > ..)

/-! ### set-up: everything before `let mut interval` -/

structure Ctx where
  n : Nat
  nk : Nat
  nsqrt : Nat
  b : Nat
  c : Nat
  bsize : Nat                                                 -- block_size
  fb : List FbEntry
  deriving Repr

inductive Setup
  | early (a b : Nat)                                         -- `return Some((a, b))` before the sieve
  | run (c : Ctx)

/-- `maxlarge` -/
def maxlarge : Nat := 5000

def setup (n k : Nat) : M Setup := do
  let s0 := Arith.isqrt n
  if s0 * s0 ≥ W64 then throw .overflow                       -- nsqrt * nsqrt
  else if n = s0 * s0 then pure (.early s0 s0)
  else if n * k ≥ W64 then throw .overflow                    -- n * k as u64
  else do
    let nk := n * k
    let fb ← new64 nk
    let s := Arith.isqrt nk
    if s * s ≥ W64 then throw .overflow
    else if nk = s * s ∧ k = 0 then throw .panic              -- nsqrt / k
    else if nk = s * s ∧ s / k * s ≥ W64 then throw .overflow
    else if nk = s * s ∧ n = s / k * s then pure (.early (s / k) s)
    else if 2 * s ≥ W64 then throw .overflow                  -- 2 * nsqrt
    else if nk < s * s then throw .overflow                   -- nk - nsqrt * nsqrt
    else
      pure (.run { n := n, nk := nk, nsqrt := s, b := 2 * s, c := nk - s * s,
                   bsize := if bitlen n ≤ 50 then 4096 else 16384, fb := fb })

/-! ### the sieve of one block -/

/-- `while off < interval.len() { interval[off] += logp; off += p }` (fuel = `interval.len()`) -/
def addLoop (logp p : Nat) : Nat → Nat → Array Nat → M (Array Nat)
  | 0, off, iv => if off < iv.size then throw .fuel else pure iv
  | f + 1, off, iv =>
    if off < iv.size then
      let s := iv.getD off 0 + logp
      if s ≥ 256 then throw .overflow                         -- u8 `+=`
      else addLoop logp p f (off + p) (iv.setIfInBounds off s)
    else pure iv

/-- one `rt` of `for rt in [r, p - r]` -/
def sieveRoot (c : Ctx) (offset : Int) (e : FbEntry) (logp rt : Nat) (iv : Array Nat) :
    M (Array Nat) := do
  let a ← chkI64 ((rt : Int) - offset)                        -- rt as i64 - offset
  let a ← chkI64 (a - toI64 c.nsqrt)                          -- - nsqrt as i64
  let off ← liftO (Dividers.modi64 e.div a)
  addLoop logp e.p iv.size off iv

def sievePrime (c : Ctx) (offset : Int) (e : FbEntry) (iv : Array Nat) : M (Array Nat) :=
  if e.p ≤ 3 then pure iv
  else if e.p < e.r then throw .overflow                      -- p - r
  else do
    let logp := Dividers.bitlen e.p                           -- 32 - leading_zeros(p) as u8
    let iv1 ← sieveRoot c offset e logp e.r iv
    sieveRoot c offset e logp (e.p - e.r) iv1

def sieveAll (c : Ctx) (offset : Int) : List FbEntry → Array Nat → M (Array Nat)
  | [], iv => pure iv
  | e :: t, iv => do
    let iv1 ← sievePrime c offset e iv
    sieveAll c offset t iv1

/-! ### candidates -/

/-- the inner `loop` of the trial division by one prime: returns (v, exp) -/
def divLoop (d : Div) : Nat → Nat → Nat → M (Nat × Nat)
  | 0, _, _ => throw .fuel
  | f + 1, v, e => do
    let qr ← liftO (Dividers.divmod64 d v)
    if qr.2 = 0 then divLoop d f qr.1 (e + 1) else pure (v, e)

/-- `for (pidx, &p) in primes.iter().enumerate()` -/
def trialLoop : List FbEntry → Nat → List (Int × Nat) → M (Nat × List (Int × Nat))
  | [], v, fs => pure (v, fs)
  | e :: t, v, fs => do
    let ve ← divLoop e.div 65 v 0
    trialLoop t ve.1 (if ve.2 > 0 then fs ++ [((e.p : Int), ve.2)] else fs)

/-- `if v < 0 { v = -v }` -/
def absI64 (v : Int) : M Int := if v < 0 then chkI64 (-v) else pure v

/-- body of `if sz >= target as u8` up to the construction of `rel`;
`none` = `continue` (cofactor too large) -/
def candidate (c : Ctx) (offset : Int) (i : Nat) : M (Option Relation) := do
  let x ← chkI64 ((i : Int) + offset)
  let u ← chkI64 (toI64 c.nsqrt + x)
  let xb ← chkI64 (x + toI64 c.b)
  let m ← chkI64 (xb * x)
  let v ← chkI64 (m - toI64 c.c)
  let va ← absI64 v
  let cf ← trialLoop c.fb (toU64 va) (if v < 0 then [(-1, 1)] else [])
  if cf.1 ≥ maxlarge then pure none
  else pure (some { x := u.natAbs, cofactor := cf.1, cyclelen := 1, factors := cf.2 })

structure St where
  rels : List Relation
  larges : List (Nat × Relation)
  deriving Repr

/-- "Process relation" -/
def process (c : Ctx) (rel : Relation) (st : St) : M St :=
  if rel.cofactor = 1 then pure { st with rels := st.rels ++ [rel] }
  else
    match alookup rel.cofactor st.larges with
    | some r0 => do
      let rr ← combine c.n rel r0
      pure { st with rels := st.rels ++ [rr] }
    | none => pure { st with larges := (rel.cofactor, rel) :: st.larges }

/-- `n.bits() / 2 + 16 - maxlarge.bits() - 2` (u32), then `as u8` -/
def targetOf (n : Nat) : M Nat :=
  let t := bitlen n / 2 + 16
  if t < bitlen maxlarge then throw .overflow
  else if t - bitlen maxlarge < 2 then throw .overflow
  else pure ((t - bitlen maxlarge - 2) % 256)

/-- `for (i, &sz) in interval.iter().enumerate()` -/
def scanLoop (c : Ctx) (offset : Int) (target : Nat) : List Nat → Nat → St → M St
  | [], _, st => pure st
  | sz :: t, i, st =>
    if sz ≥ target then do
      let r ← candidate c offset i
      match r with
      | none => scanLoop c offset target t (i + 1) st
      | some rel => do
        let st1 ← process c rel st
        scanLoop c offset target t (i + 1) st1
    else scanLoop c offset target t (i + 1) st

/-- `offset = blk * block_size` with `blk = -1, 1, -3, 3, ...` -/
def blockOffset (c : Ctx) (blk : Nat) : Int :=
  (if blk % 2 = 0 then -((blk : Int) + 1) else (blk : Int)) * (c.bsize : Int)

def runBlock (c : Ctx) (blk : Nat) (st : St) : M St := do
  let offset := blockOffset c blk
  let iv ← sieveAll c offset c.fb (Array.replicate (2 * c.bsize) 0)
  let target ← targetOf c.n
  scanLoop c offset target iv.toList 0 st

/-- `for blk in 0..64` with the stop rule `if rels.len() > primes.len() + 8 { break }` -/
def blockLoop (c : Ctx) : List Nat → St → M St
  | [], st => pure st
  | blk :: t, st => do
    let st1 ← runBlock c blk st
    if st1.rels.length > c.fb.length + 8 then pure st1 else blockLoop c t st1

inductive Outcome
  | early (a b : Nat)
  | rels (fb : List FbEntry) (rels : List Relation)

/-- `qsieve` down to the arguments of `relations::final_step` -/
def qsRels (n k : Nat) : M Outcome := do
  let s ← setup n k
  match s with
  | .early a b => pure (.early a b)
  | .run c => do
    let st ← blockLoop c (List.range 64) { rels := [], larges := [] }
    pure (.rels c.fb st.rels)

/-- `qsieve(n, v)` with multiplier `k`, kernel vectors `kernel` and `crate::pseudoprime = isPrime` -/
def qsieve (n k : Nat) (kernel : List (List Nat)) (isPrime : Nat → Bool) : M (Option (Nat × Nat)) := do
  let o ← qsRels n k
  match o with
  | .early a b => pure (some (a, b))
  | .rels fb rels => do
    let res ← finalStep n (fb.map (·.p)) rels kernel isPrime
    match res.2.2.head? with
    | none => pure none
    | some d =>
      let p := d % W64                                        -- p.low_u64()
      if p = 0 then throw .panic                              -- n % p
      else if n % p ≠ 0 then throw .panic                     -- assert_eq!(n % p, 0)
      else pure (some (p, n / p))

end Ymq.Qsieve64
