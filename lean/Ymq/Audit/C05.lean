import Ymq.Props.C05
import Ymq.Props.C05Sched
#print axioms Ymq.C05.abort_never_wrong_product
#print axioms Ymq.C05.abort_consistent
#print axioms Ymq.C05.abort_stops
#print axioms Ymq.C05.abort_bounded
#print axioms Ymq.C05.abort_before_start
#print axioms Ymq.C05.abort_consistent_of_input
