/-
Number theory of the plain modular Miller test `Ymq.Pseudoprime.millerBase` (C06):
it accepts every prime, and on odd `p` with `p - 1 = d 2^s`, `d` odd, it accepts exactly the
strong probable primes to the base.
-/
import Ymq.Lemmas.MillerMont
import Mathlib.FieldTheory.Finite.Basic
import Mathlib.Data.Nat.Factorization.Induction

namespace Ymq.Pseudoprime
open Ymq.Mg64 (sqLoopN_step millerBase_eq)

/-- `n` is a strong probable prime to base `b` (Miller–Rabin sense):
`n - 1 = d 2^s` with `d` odd, and `b^d ≡ 1` or `b^(d 2^r) ≡ -1 (mod n)` for some `r < s`. -/
def SPRP (n b : Nat) : Prop :=
  ∃ d s, d % 2 = 1 ∧ n - 1 = d * 2 ^ s ∧
    (b ^ d % n = 1 ∨ ∃ r, r < s ∧ b ^ (d * 2 ^ r) % n = n - 1)

theorem odd_part_unique (d s d' s' : Nat) (hd : d % 2 = 1) (hd' : d' % 2 = 1)
    (h : d * 2 ^ s = d' * 2 ^ s') : d = d' ∧ s = s' := by
  have key : ∀ d s d' s' : Nat, d % 2 = 1 → d * 2 ^ s = d' * 2 ^ s' → ¬ s < s' := by
    intro d s d' s' hd h hlt
    obtain ⟨k, rfl⟩ : ∃ k, s' = s + (k + 1) := ⟨s' - s - 1, by omega⟩
    rw [pow_add, ← Nat.mul_assoc, Nat.mul_comm d' (2 ^ s), Nat.mul_comm d (2 ^ s),
      Nat.mul_assoc] at h
    have h2 := Nat.eq_of_mul_eq_mul_left (by positivity : 0 < 2 ^ s) h
    rw [pow_succ] at h2
    have : d = 2 * (d' * 2 ^ k) := by rw [h2]; ring
    omega
  have hs : s = s' := by
    have a := key d s d' s' hd h
    have b := key d' s' d s hd' h.symm
    omega
  subst hs
  exact ⟨Nat.eq_of_mul_eq_mul_right (by positivity : 0 < 2 ^ s) h, rfl⟩

theorem pow_two_succ_mod (y p r : Nat) : y ^ 2 ^ (r + 1) % p = (y * y % p) ^ 2 ^ r % p := by
  rw [← Nat.pow_mod]; congr 1
  rw [pow_succ, Nat.mul_comm, pow_mul, pow_two]

/-- What the squaring loop returns: `ok`, or a `-1` among the `t` successive squares. -/
theorem sqLoop_true_iff (p : Nat) (hp : 2 < p) :
    ∀ t y ok, sqLoop p t y ok = true ↔
      ok = true ∨ ∃ r, 1 ≤ r ∧ r ≤ t ∧ y ^ 2 ^ r % p = p - 1 := by
  intro t
  induction t with
  | zero =>
    intro y ok
    simp only [sqLoop]
    constructor
    · intro h; exact Or.inl h
    · rintro (h | ⟨r, h1, h2, _⟩)
      · exact h
      · omega
  | succ t ih =>
    intro y ok
    rw [sqLoopN_step]
    by_cases c1 : y * y % p = p - 1
    · rw [if_pos c1]
      refine ⟨fun _ => Or.inr ⟨1, le_refl _, by omega, ?_⟩, fun _ => rfl⟩
      rw [pow_one, pow_two]; exact c1
    · rw [if_neg c1]
      by_cases c2 : y * y % p = 1
      · rw [if_pos c2]
        constructor
        · intro h; exact Or.inl h
        · rintro (h | ⟨r, h1, _, h3⟩)
          · exact h
          · exfalso
            obtain ⟨r', rfl⟩ : ∃ r', r = r' + 1 := ⟨r - 1, by omega⟩
            rw [pow_two_succ_mod, c2, one_pow, Nat.mod_eq_of_lt (by omega)] at h3
            omega
      · rw [if_neg c2, ih]
        constructor
        · rintro (h | ⟨r, h1, h2, h3⟩)
          · exact Or.inl h
          · exact Or.inr ⟨r + 1, by omega, by omega, by rw [pow_two_succ_mod]; exact h3⟩
        · rintro (h | ⟨r, h1, h2, h3⟩)
          · exact Or.inl h
          · obtain ⟨r', rfl⟩ : ∃ r', r = r' + 1 := ⟨r - 1, by omega⟩
            rw [pow_two_succ_mod] at h3
            rcases Nat.eq_zero_or_pos r' with h0 | h0
            · subst h0
              rw [pow_zero, pow_one, Nat.mod_mod] at h3
              exact absurd h3 c1
            · exact Or.inr ⟨r', h0, by omega, h3⟩

/-- square roots of 1 modulo a prime -/
theorem sq_eq_one_prime (p y : Nat) (hp : Nat.Prime p) (hy : y < p) (h : y * y % p = 1) :
    y = 1 ∨ y = p - 1 := by
  have hp2 := hp.two_le
  rcases y with _ | z
  · simp at h
  · have e : z * (z + 2) + 1 = (z + 1) * (z + 1) := by ring
    have h1 : z * (z + 2) + 1 ≡ 0 + 1 [MOD p] := by
      rw [e]; unfold Nat.ModEq; rw [h, Nat.zero_add, Nat.mod_eq_of_lt (by omega)]
    have h2 : p ∣ z * (z + 2) := (Nat.modEq_zero_iff_dvd).1 (Nat.ModEq.add_right_cancel' 1 h1)
    rcases (Nat.Prime.dvd_mul hp).1 h2 with h3 | h3
    · left
      have := Nat.eq_zero_of_dvd_of_lt h3 (by omega)
      omega
    · right
      have := Nat.le_of_dvd (by omega) h3
      omega

/-- the squaring loop ends with `true` when the last square is 1 modulo a prime -/
theorem sqLoop_prime (p : Nat) (hp : Nat.Prime p) :
    ∀ t y ok, y < p → y ^ 2 ^ t % p = 1 → (y * y % p = 1 → ok = true) →
      sqLoop p t y ok = true := by
  have hp2 := hp.two_le
  intro t
  induction t with
  | zero =>
    intro y ok hy h1 hok
    simp only [sqLoop]
    rw [pow_zero, pow_one, Nat.mod_eq_of_lt hy] at h1
    subst h1
    exact hok (by rw [Nat.mul_one]; exact Nat.mod_eq_of_lt (by omega))
  | succ t ih =>
    intro y ok hy h1 hok
    rw [sqLoopN_step]
    by_cases c1 : y * y % p = p - 1
    · rw [if_pos c1]
    · rw [if_neg c1]
      by_cases c2 : y * y % p = 1
      · rw [if_pos c2]; exact hok c2
      · rw [if_neg c2]
        refine ih _ _ (Nat.mod_lt _ (by omega)) (by rw [← pow_two_succ_mod]; exact h1) ?_
        intro h
        rcases sq_eq_one_prime p _ hp (Nat.mod_lt _ (by omega)) h with h | h
        · exact absurd h c2
        · exact absurd h c1

/-- **Completeness of the Miller test**: a prime is accepted for every base it does not divide,
whatever the split `p - 1 = d 2^s` (`d` need not be odd). -/
theorem millerBase_prime (p s d b : Nat) (hp : Nat.Prime p) (hpd : p - 1 = d * 2 ^ s)
    (hb : ¬ p ∣ b) (hd : d < 2 ^ 1024) : millerBase p s d b = true := by
  have hp2 := hp.two_le
  rw [millerBase_eq p s d b (by omega) hd]
  apply sqLoop_prime p hp _ _ _ (Nat.mod_lt _ (by omega))
  · rw [← Nat.pow_mod, ← pow_mul, ← hpd]
    have hc : Nat.Coprime b p := ((Nat.Prime.coprime_iff_not_dvd hp).2 hb).symm
    have := Nat.ModEq.pow_totient hc
    rw [Nat.totient_prime hp] at this
    rw [this, Nat.mod_eq_of_lt (by omega)]
  · intro h
    rcases sq_eq_one_prime p _ hp (Nat.mod_lt _ (by omega)) h with h | h
    · simp [h]
    · simp [h]

/-- if every prime factor of `n` is `≡ 1 (mod M)` then so is `n` -/
theorem modEq_one_of_prime_factors (M : Nat) :
    ∀ n : Nat, n ≠ 0 → (∀ q, Nat.Prime q → q ∣ n → q ≡ 1 [MOD M]) → n ≡ 1 [MOD M] := by
  intro n
  induction n using Nat.recOnMul with
  | zero => intro h; exact absurd rfl h
  | one => intro _ _; rfl
  | prime q hq => intro _ h; exact h q hq (dvd_refl q)
  | mul a b iha ihb =>
    intro h0 h
    have ha : a ≠ 0 := fun e => h0 (by rw [e, Nat.zero_mul])
    have hb : b ≠ 0 := fun e => h0 (by rw [e, Nat.mul_zero])
    have := (iha ha fun q hq hd => h q hq (dvd_mul_of_dvd_left hd b)).mul
      (ihb hb fun q hq hd => h q hq (dvd_mul_of_dvd_right hd a))
    simpa using this

/-- For odd `p` with `p - 1 = d 2^s`, `d` odd, `b^(p-1)` is never `-1` modulo `p`: the last turn of
the squaring loop of the code (`r = s`) can never be the accepting one. -/
theorem no_neg_one_top (p d s b : Nat) (hp : 2 < p) (hodd : p % 2 = 1) (hd : d % 2 = 1)
    (hpd : p - 1 = d * 2 ^ s) : b ^ (d * 2 ^ s) % p ≠ p - 1 := by
  intro h
  have hall : ∀ q, Nat.Prime q → q ∣ p → q ≡ 1 [MOD 2 ^ (s + 1)] := by
    intro q hq hqp
    have : Fact (Nat.Prime q) := ⟨hq⟩
    have hq2 : 2 < q := by
      rcases Nat.lt_or_ge 2 q with h2 | h2
      · exact h2
      · exfalso
        have : q = 2 := le_antisymm h2 hq.two_le
        subst this
        have := Nat.mod_eq_zero_of_dvd hqp
        omega
    have : Fact (2 < q) := ⟨hq2⟩
    -- in ZMod q: (b^d)^(2^s) = -1
    have hcast : ((b ^ (d * 2 ^ s) : ℕ) : ZMod q) = ((p - 1 : ℕ) : ZMod q) := by
      rw [ZMod.natCast_eq_natCast_iff]
      have : b ^ (d * 2 ^ s) ≡ p - 1 [MOD p] := by
        unfold Nat.ModEq; rw [h, Nat.mod_eq_of_lt (by omega)]
      exact this.of_dvd hqp
    have hp0 : ((p : ℕ) : ZMod q) = 0 := (ZMod.natCast_eq_zero_iff p q).2 hqp
    have hm1 : ((p - 1 : ℕ) : ZMod q) = -1 := by
      rw [Nat.cast_sub (by omega), hp0]; simp
    set c : ZMod q := (b : ZMod q) ^ d with hc
    have hc1 : c ^ 2 ^ s = -1 := by
      rw [hc, ← pow_mul, ← hm1, ← hcast]; push_cast; rfl
    have hne : ¬ c ^ 2 ^ s = 1 := by rw [hc1]; exact ZMod.neg_one_ne_one
    have hc2 : c ^ 2 ^ (s + 1) = 1 := by
      rw [pow_succ, pow_mul, hc1]; norm_num
    have hord : orderOf c = 2 ^ (s + 1) := by
      have : Fact (Nat.Prime 2) := ⟨Nat.prime_two⟩
      exact orderOf_eq_prime_pow hne hc2
    have hc0 : c ≠ 0 := by
      intro e; rw [e, zero_pow (by positivity)] at hc2; exact zero_ne_one hc2
    have hdvd : 2 ^ (s + 1) ∣ q - 1 := by
      rw [← hord]; exact ZMod.orderOf_dvd_card_sub_one hc0
    have hq1 : 1 ≤ q := by omega
    exact ((Nat.modEq_iff_dvd' hq1).2 hdvd).symm
  have hp1 : p ≡ 1 [MOD 2 ^ (s + 1)] := modEq_one_of_prime_factors _ p (by omega) hall
  have hdvd : 2 ^ (s + 1) ∣ p - 1 := (Nat.modEq_iff_dvd' (by omega)).1 hp1.symm
  rw [hpd, pow_succ, Nat.mul_comm d] at hdvd
  have : 2 ∣ d := (Nat.mul_dvd_mul_iff_left (by positivity)).1 hdvd
  omega

/-- On odd `p > 2` with the exact split `p - 1 = d 2^s`, `d` odd, the Miller test of the code
accepts base `b` iff `p` is a strong probable prime to base `b`. -/
theorem millerBase_iff_SPRP (p s d b : Nat) (hp : 2 < p) (hodd : p % 2 = 1) (hd : d % 2 = 1)
    (hpd : p - 1 = d * 2 ^ s) (hd' : d < 2 ^ 1024) : millerBase p s d b = true ↔ SPRP p b := by
  have hs : 1 ≤ s := by
    rcases Nat.eq_zero_or_pos s with h | h
    · subst h; simp at hpd; omega
    · exact h
  rw [millerBase_eq p s d b (by omega) hd', sqLoop_true_iff p hp]
  constructor
  · rintro (h | ⟨r, h1, h2, h3⟩)
    · simp only [Bool.or_eq_true, decide_eq_true_eq] at h
      rcases h with h | h
      · exact ⟨d, s, hd, hpd, Or.inl h⟩
      · exact ⟨d, s, hd, hpd, Or.inr ⟨0, by omega, by simpa using h⟩⟩
    · rw [← Nat.pow_mod, ← pow_mul] at h3
      rcases Nat.lt_or_ge r s with hr | hr
      · exact ⟨d, s, hd, hpd, Or.inr ⟨r, hr, h3⟩⟩
      · exfalso
        have : r = s := le_antisymm h2 hr
        subst this
        exact no_neg_one_top p d r b hp hodd hd hpd h3
  · rintro ⟨d', s', hd1, hpd1, h⟩
    obtain ⟨rfl, rfl⟩ := odd_part_unique d' s' d s hd1 hd (by rw [← hpd1, hpd])
    rcases h with h | ⟨r, hr, h3⟩
    · left; simp [h]
    · rcases Nat.eq_zero_or_pos r with h0 | h0
      · subst h0
        left
        simp only [pow_zero, Nat.mul_one] at h3
        simp [h3]
      · right
        exact ⟨r, h0, by omega, by rw [← Nat.pow_mod, ← pow_mul]; exact h3⟩

end Ymq.Pseudoprime
