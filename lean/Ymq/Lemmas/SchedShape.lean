/- Lemmas on the shape-built worker programs (C04, C05). -/
import Ymq.Model.SchedShape
import Ymq.Lemmas.Sched

namespace Ymq.Sched
open Ymq.Gen.SchedShape
variable {ρ σ : Type}

theorem pendingAdds_append (a b : List (Act ρ)) :
    pendingAdds (a ++ b) = pendingAdds a ++ pendingAdds b := by
  induction a with
  | nil => rfl
  | cons x xs ih => cases x <;> simp [pendingAdds, ih]

theorem pendingAdds_map_add (rs : List ρ) : pendingAdds (rs.map Act.add) = rs := by
  induction rs with
  | nil => rfl
  | cons x xs ih => simp [pendingAdds, ih]

theorem pendingAdds_expandK (rs : List ρ) (k : K) :
    pendingAdds (expandK rs k) = if k = K.add then rs else [] := by
  cases k <;> simp [expandK, pendingAdds, pendingAdds_map_add]

theorem pendingAdds_expand (ks : List K) (rs : List ρ) :
    pendingAdds (expand ks rs) = (List.replicate (ks.count K.add) rs).flatten := by
  induction ks with
  | nil => rfl
  | cons k ks ih =>
    unfold expand at *
    rw [List.flatMap_cons, pendingAdds_append, ih, pendingAdds_expandK]
    cases k <;> simp [List.replicate_succ]

theorem pendingAdds_flatMap_expand (ks : List K) (u : List (List ρ)) (h : ks.count K.add = 1) :
    pendingAdds (u.flatMap (expand ks)) = u.flatten := by
  induction u with
  | nil => rfl
  | cons p ps ih =>
    rw [List.flatMap_cons, pendingAdds_append, ih, pendingAdds_expand, h]
    simp

theorem pendingAdds_expand_nil (ks : List K) : pendingAdds (expand ks ([] : List ρ)) = [] := by
  rw [pendingAdds_expand]; simp

/-- with one `add` in the loop body, a unit adds exactly the relations of its polynomials, in order -/
theorem pendingAdds_compileUnit (sh : Shape) (h : sh.body.count K.add = 1) (u : List (List ρ)) :
    pendingAdds (compileUnit sh u) = u.flatten := by
  unfold compileUnit
  rw [pendingAdds_append, pendingAdds_append, pendingAdds_expand_nil, pendingAdds_expand_nil,
    pendingAdds_flatMap_expand _ _ h]
  simp

theorem pendingAdds_compileShape (sh : Shape) (h : sh.body.count K.add = 1) (prog : List (List (List ρ))) :
    pendingAdds (compileShape sh prog) = prog.flatten.flatten := by
  unfold compileShape
  induction prog with
  | nil => rfl
  | cons u us ih =>
    rw [List.flatMap_cons, pendingAdds_append, ih, pendingAdds_compileUnit sh h]
    simp

/-- whatever the shape, a program only ever adds relations of its own polynomials -/
theorem mem_pendingAdds_compileShape (sh : Shape) (prog : List (List (List ρ))) (r : ρ)
    (hr : r ∈ pendingAdds (compileShape sh prog)) : ∃ u ∈ prog, ∃ p ∈ u, r ∈ p := by
  unfold compileShape at hr
  induction prog with
  | nil => simp [pendingAdds] at hr
  | cons u us ih =>
    rw [List.flatMap_cons, pendingAdds_append, List.mem_append] at hr
    rcases hr with hr | hr
    · refine ⟨u, List.mem_cons_self, ?_⟩
      unfold compileUnit at hr
      rw [pendingAdds_append, pendingAdds_append, pendingAdds_expand_nil, pendingAdds_expand_nil] at hr
      simp only [List.nil_append, List.append_nil] at hr
      clear ih
      induction u with
      | nil => simp [pendingAdds] at hr
      | cons p ps ihp =>
        rw [List.flatMap_cons, pendingAdds_append, List.mem_append] at hr
        rcases hr with hr | hr
        · refine ⟨p, List.mem_cons_self, ?_⟩
          rw [pendingAdds_expand] at hr
          obtain ⟨l, hl, hrl⟩ := List.mem_flatten.mp hr
          rw [List.eq_of_mem_replicate hl] at hrl
          exact hrl
        · obtain ⟨q, hq, hrq⟩ := ihp hr
          exact ⟨q, List.mem_cons_of_mem _ hq, hrq⟩
    · obtain ⟨v, hv, hp⟩ := ih hr
      exact ⟨v, List.mem_cons_of_mem _ hv, hp⟩

/-! ### distance to the next abort poll -/

theorem untilPoll_append_le (a b : List (Act ρ)) : untilPoll (a ++ b) ≤ a.length + untilPoll b := by
  induction a with
  | nil => simp
  | cons x xs ih => cases x <;> simp [untilPoll] <;> omega

theorem untilPoll_append_of_mem (a b : List (Act ρ)) (h : Act.poll ∈ a) : untilPoll (a ++ b) ≤ a.length := by
  induction a with
  | nil => simp at h
  | cons x xs ih =>
    cases x with
    | poll => simp [untilPoll]
    | check =>
      have := ih (by simpa using h)
      simp [untilPoll]; omega
    | add r =>
      have := ih (by simpa using h)
      simp [untilPoll]; omega
    | publish =>
      have := ih (by simpa using h)
      simp [untilPoll]; omega

theorem poll_mem_expand (ks : List K) (rs : List ρ) (h : ks.contains K.poll = true) :
    Act.poll ∈ expand ks rs := by
  unfold expand
  rw [List.mem_flatMap]
  exact ⟨K.poll, by simpa using h, by simp [expandK]⟩

theorem poll_mem_compileUnit (sh : Shape) (h : pollsPerUnit sh = true) (u : List (List ρ)) :
    Act.poll ∈ compileUnit sh u := by
  unfold pollsPerUnit at h
  unfold compileUnit
  rw [Bool.or_eq_true] at h
  rcases h with h | h
  · exact List.mem_append_left _ (poll_mem_expand _ _ h)
  · exact List.mem_append_right _ (List.mem_append_right _ (poll_mem_expand _ _ h))

/-- a suffix of `a ++ b` is a suffix of `b`, or a suffix of `a` followed by all of `b` -/
theorem suffix_append_cases {α : Type} (l a b : List α) (h : l <:+ a ++ b) :
    l <:+ b ∨ ∃ t, t <:+ a ∧ l = t ++ b := by
  induction a with
  | nil => exact Or.inl (by simpa using h)
  | cons x xs ih =>
    rw [List.cons_append, List.suffix_cons_iff] at h
    rcases h with h | h
    · exact Or.inr ⟨x :: xs, List.suffix_refl _, by simpa using h⟩
    · rcases ih h with h | ⟨t, ht, hl⟩
      · exact Or.inl h
      · exact Or.inr ⟨t, List.suffix_cons_iff.mpr (Or.inr ht), hl⟩

/-- wherever a worker stands in a program whose units all poll, the next poll is at most the
rest of its current unit plus the next unit away -/
theorem untilPoll_suffix_compileShape (sh : Shape) (hp : pollsPerUnit sh = true) (B : Nat) :
    ∀ (prog : List (List (List ρ))), (∀ u ∈ prog, (compileUnit sh u).length ≤ B) →
      ∀ l, l <:+ compileShape sh prog → untilPoll l ≤ 2 * B := by
  intro prog
  induction prog with
  | nil =>
    intro _ l hl
    have : l = [] := by simpa [compileShape] using hl
    subst this; simp [untilPoll]
  | cons u us ih =>
    intro hB l hl
    unfold compileShape at hl
    rw [List.flatMap_cons] at hl
    rcases suffix_append_cases l _ _ hl with h | ⟨t, ht, rfl⟩
    · exact ih (fun v hv => hB v (List.mem_cons_of_mem _ hv)) l h
    · have h1 := untilPoll_append_le t (us.flatMap (compileUnit sh))
      have h2 : t.length ≤ B := Nat.le_trans (List.IsSuffix.length_le ht) (hB u List.mem_cons_self)
      have h3 : untilPoll (us.flatMap (compileUnit sh)) ≤ B := by
        cases us with
        | nil => simp [untilPoll]
        | cons v vs =>
          rw [List.flatMap_cons]
          exact Nat.le_trans (untilPoll_append_of_mem _ _ (poll_mem_compileUnit sh hp v))
            (hB v (List.mem_cons_of_mem _ List.mem_cons_self))
      omega

/-! ### every worker always stands at a suffix of its program -/

def SuffixInv (sh : Shape) (progs : List (List (List (List ρ)))) (c : Cfg ρ σ) : Prop :=
  c.pcs.length = progs.length ∧ ∀ l ∈ c.pcs, ∃ prog ∈ progs, l <:+ compileShape sh prog

theorem suffixInv_init (sh : Shape) (s0 : σ) (progs : List (List (List (List ρ)))) :
    SuffixInv sh progs (initShape sh s0 progs) := by
  refine ⟨by simp [initShape], ?_⟩
  intro l hl
  simp only [initShape, List.mem_map] at hl
  obtain ⟨prog, hp, rfl⟩ := hl
  exact ⟨prog, hp, List.suffix_refl _⟩

theorem suffixInv_set (sh : Shape) (progs : List (List (List (List ρ)))) (c : Cfg ρ σ)
    (h : SuffixInv sh progs c) (w : Nat) (l v : List (Act ρ)) (hw : c.pcs[w]? = some l) (hv : v <:+ l)
    (c' : Cfg ρ σ) (hc' : c'.pcs = c.pcs.set w v) : SuffixInv sh progs c' := by
  refine ⟨by rw [hc', List.length_set]; exact h.1, ?_⟩
  intro x hx
  rw [hc'] at hx
  rcases List.mem_or_eq_of_mem_set hx with hx | hx
  · exact h.2 x hx
  · subst hx
    obtain ⟨prog, hp, hs⟩ := h.2 l (List.mem_of_getElem? hw)
    exact ⟨prog, hp, List.IsSuffix.trans hv hs⟩

theorem suffixInv_step (add : σ → ρ → σ) (enough : σ → Bool) (sh : Shape)
    (progs : List (List (List (List ρ)))) (c : Cfg ρ σ) (h : SuffixInv sh progs c) (w : Nat) (st ab : Bool) :
    SuffixInv sh progs (step add enough c w st ab) := by
  unfold step
  split
  · exact h
  · exact h
  · rename_i rest hw
    split
    · exact suffixInv_set sh progs c h w _ [] hw (List.nil_suffix) _ rfl
    · exact suffixInv_set sh progs c h w _ rest hw (List.suffix_cons _ _) _ rfl
  · rename_i rest hw
    split
    · exact suffixInv_set sh progs c h w _ [] hw (List.nil_suffix) _ rfl
    · exact suffixInv_set sh progs c h w _ rest hw (List.suffix_cons _ _) _ rfl
  · rename_i r rest hw
    exact suffixInv_set sh progs c h w _ rest hw (List.suffix_cons _ _) _ rfl
  · rename_i rest hw
    exact suffixInv_set sh progs c h w _ rest hw (List.suffix_cons _ _) _ rfl

theorem suffixInv_run (add : σ → ρ → σ) (enough : σ → Bool) (sh : Shape)
    (progs : List (List (List (List ρ)))) :
    ∀ (sched : List (Nat × Bool × Bool)) (c : Cfg ρ σ), SuffixInv sh progs c →
      SuffixInv sh progs (run add enough c sched) := by
  intro sched
  induction sched with
  | nil => intro c h; exact h
  | cons a sched ih =>
    intro c h
    obtain ⟨w, st, ab⟩ := a
    exact ih _ (suffixInv_step add enough sh progs c h w st ab)

theorem sum_map_le_length_mul {α : Type} (f : α → Nat) (B : Nat) :
    ∀ xs : List α, (∀ x ∈ xs, f x ≤ B) → (xs.map f).sum ≤ xs.length * B
  | [], _ => by simp
  | x :: xs, h => by
    have h1 := h x List.mem_cons_self
    have h2 := sum_map_le_length_mul f B xs (fun y hy => h y (List.mem_cons_of_mem _ hy))
    simp only [List.map_cons, List.sum_cons, List.length_cons, Nat.add_mul]
    omega

/-- the abort budget of every reachable configuration: two units per worker -/
theorem abortBudget_le_of_suffixInv (sh : Shape) (hp : pollsPerUnit sh = true) (B : Nat)
    (progs : List (List (List (List ρ))))
    (hB : ∀ prog ∈ progs, ∀ u ∈ prog, (compileUnit sh u).length ≤ B)
    (c : Cfg ρ σ) (h : SuffixInv sh progs c) : abortBudget c ≤ progs.length * (2 * B) := by
  unfold abortBudget
  rw [← h.1]
  apply sum_map_le_length_mul
  intro l hl
  obtain ⟨prog, hpr, hs⟩ := h.2 l hl
  exact untilPoll_suffix_compileShape sh hp B prog (hB prog hpr) l hs

end Ymq.Sched
