//! Multiprecision gcd / modular inverse (C09): arith_gcd.rs and the ZmodN wrappers.
use crate::util::*;
use bnum::{BInt, BUint};
use std::str::FromStr;
use yamaquasi::arith_gcd::{self, verif_hooks as h};
use yamaquasi::arith_montgomery::{MInt, ZmodN};

fn bu<const N: usize>(s: &str) -> Option<BUint<N>> {
    BUint::<N>::from_str(s).ok()
}

fn mint_of(s: &str) -> Option<MInt> {
    let x = uint_of(s)?;
    if x.bits() > 512 {
        return None;
    }
    let mut m = [0u64; 8];
    m.copy_from_slice(&x.digits()[..8]);
    Some(MInt(m))
}

fn digits_of<const N: usize>(s: &str) -> Option<BUint<N>> {
    let l: Vec<u64> = list_of(s)?;
    if l.len() != N {
        return None;
    }
    let mut d = [0u64; N];
    d.copy_from_slice(&l);
    Some(BUint::from_digits(d))
}

fn ops<const N: usize>(op: &str, a: &[&str]) -> Option<String> {
    match (op, a) {
        ("gcd_big", [x, y]) => Some(arith_gcd::big_gcd::<N>(&bu(x)?, &bu(y)?).to_string()),
        ("gcd_ext", [x, y]) => {
            let (d, u, v): (BUint<N>, BInt<N>, BInt<N>) =
                arith_gcd::gcd_internal::<N, true>(&bu(x)?, &bu(y)?);
            Some(format!("{} {} {}", d, u, v))
        }
        // the non-extended instantiation called directly (big_gcd filters zero operands first)
        ("gcd_noext", [x, y]) => {
            let (d, u, v) = arith_gcd::gcd_internal::<N, false>(&bu(x)?, &bu(y)?);
            Some(format!("{} {} {}", d, u, v))
        }
        ("gcd_inv_mod", [n, p]) => Some(match arith_gcd::inv_mod::<N>(&bu(n)?, &bu(p)?) {
            Ok(x) => format!("ok {}", x),
            Err(d) => format!("err {}", d),
        }),
        // n is given as its N digits (little endian) so that arbitrary digit arrays can be fed
        ("gcd_mulword", [w, sz, n]) => {
            let n: BUint<N> = digits_of(n)?;
            let r = h::mulword::<N>(u64_of(w)?, sz.parse().ok()?, &n);
            Some(show_list(r.digits()))
        }
        ("gcd_dot", [sz, a, x, b, y]) => {
            let (r, neg) =
                h::dot_product::<N>(sz.parse().ok()?, i64_of(a)?, &bu(x)?, i64_of(b)?, &bu(y)?);
            Some(format!("{} {}", r, neg))
        }
        _ => None,
    }
}

pub fn handle(op: &str, a: &[&str]) -> Option<String> {
    match (op, a) {
        ("gcd_reduce64", [x, y]) => {
            let (a, b, c, d) = h::reduce64(u64_of(x)?, u64_of(y)?);
            Some(format!("{} {} {} {}", a, b, c, d))
        }
        // num_integer::Integer::extended_gcd on i64, exactly the call of the <64-bit exit of gcd_internal
        ("gcd_egcd64", [x, y]) => {
            let e = num_integer::Integer::extended_gcd(&i64_of(x)?, &i64_of(y)?);
            Some(format!("{} {} {}", e.gcd, e.x, e.y))
        }
        ("gcd_top64", [digs, bits]) => {
            let d: Vec<u64> = list_of(digs)?;
            Some(h::top64(&d, u32_of(bits)?).to_string())
        }
        // ZmodN::inv / ZmodN::gcd : thin wrappers (Montgomery representative in, out)
        ("gcd_zn_inv", [n, xm]) => {
            let zn = ZmodN::new(uint_of(n)?);
            let x = mint_of(xm)?;
            Some(match zn.inv(x) {
                None => "none".to_string(),
                Some(m) => format!("some {}", yamaquasi::Uint::from(m)),
            })
        }
        ("gcd_zn_gcd", [n, xm]) => {
            let zn = ZmodN::new(uint_of(n)?);
            let x = mint_of(xm)?;
            Some(zn.gcd(&x).to_string())
        }
        ("gcd_big" | "gcd_ext" | "gcd_noext" | "gcd_inv_mod" | "gcd_mulword" | "gcd_dot", [n, rest @ ..]) => {
            match *n {
                "4" => ops::<4>(op, rest),
                "8" => ops::<8>(op, rest),
                "16" => ops::<16>(op, rest),
                _ => None,
            }
        }
        _ => None,
    }
}
