/-
Result extraction of the group-order methods (C16): check_gcd_factors (P-1, P+1), check_gcd_factor (ECM),
the return guard of rho_impl, the gcd chain of cumulative products, the y-normalisation of ecm_curve and
the stage-2 walk of PM1Base::factor.  Models: Ymq/Model/ExpModn.lean.
-/
import Ymq.Lemmas.Stage2Ladders
import Mathlib.Algebra.BigOperators.Group.List.Basic
import Mathlib.Algebra.Ring.Basic
import Mathlib.Algebra.Order.Group.Nat
import Mathlib.Data.List.Chain
import Mathlib.Tactic.LinearCombination

namespace Ymq.ExpModn
open Ymq.Stage2 Ymq.Gen

/-! ### cumulative products have increasing gcds -/

theorem gcd_dvd_gcd_mul_mod (n a b : Nat) : Nat.gcd n a ∣ Nat.gcd n (a * b % n) := by
  apply Nat.dvd_gcd (Nat.gcd_dvd_left n a)
  rw [Nat.dvd_mod_iff (Nat.gcd_dvd_left n a)]
  exact Dvd.dvd.mul_right (Nat.gcd_dvd_right n a) b

/-- a sequence with `v (i+1) ≡ v i * t i (mod n)` (what every stage accumulates) satisfies the precondition of `gcd_factors` -/
theorem chain_of_cumulative (n : Nat) (v t : Nat → Nat) (h : ∀ i, v (i + 1) = v i * t i % n) :
    ∀ i j, i ≤ j → Nat.gcd n (v i) ∣ Nat.gcd n (v j) := by
  intro i j hij
  induction j, hij using Nat.le_induction with
  | base => exact dvd_rfl
  | succ j _ ih => exact dvd_trans ih (by rw [h j]; exact gcd_dvd_gcd_mul_mod n (v j) (t j))

/-! ### check_gcd_factors -/

/-- the invariant of the `(factors, nred)` pair carried through `pm1_impl` / `pp1` -/
def CgfInv (n : Nat) (st : CgfState) : Prop :=
  st.factors.prod * st.nred = n ∧ (∀ f ∈ st.factors, 1 < f) ∧ 0 < st.nred ∧ n ∉ st.factors

theorem checkGcdFactors_inv (n : Nat) (pp : Nat → Bool) (st : CgfState) (hinv : CgfInv n st) (hne : st.vals ≠ [])
    (hchain : ∀ i j, i ≤ j → j < st.vals.length →
      Nat.gcd st.nred (st.vals.getD i 0) ∣ Nat.gcd st.nred (st.vals.getD j 0)) :
    ∃ b st', checkGcdFactors n pp st = some (b, st') ∧ CgfInv n st' ∧ (b = false → st'.vals ≠ []) := by
  obtain ⟨hprod, hgt, hpos, hnot⟩ := hinv
  obtain ⟨fs, rest, hg, _, hfr, hfgt, _⟩ := gcdFactors_spec st.nred st.vals pp hpos hne hchain
  unfold checkGcdFactors
  simp only [hg]
  by_cases hc : fs.contains n = true
  · rw [if_pos hc]
    exact ⟨true, st, rfl, ⟨hprod, hgt, hpos, hnot⟩, by simp⟩
  · rw [if_neg hc]
    have hnfs : n ∉ fs := by simpa using hc
    have hrest : 0 < rest := by
      rcases Nat.eq_zero_or_pos rest with h | h
      · rw [h, Nat.mul_zero] at hfr; omega
      · exact h
    -- the updated state satisfies the invariant
    have hinv1 : CgfInv n (if fs.isEmpty = true then st else { st with factors := st.factors ++ fs, nred := rest }) := by
      by_cases he : fs.isEmpty = true
      · rw [if_pos he]; exact ⟨hprod, hgt, hpos, hnot⟩
      · rw [if_neg he]
        refine ⟨?_, ?_, hrest, ?_⟩
        · simp only [List.prod_append]; rw [mul_assoc, hfr]; exact hprod
        · intro f hf
          rcases List.mem_append.mp hf with h | h
          · exact hgt f h
          · exact hfgt f h
        · intro h
          rcases List.mem_append.mp h with h | h
          · exact hnot h
          · exact hnfs h
    split
    · exact ⟨true, _, rfl, hinv1, by simp⟩
    · cases hl : st.vals.getLast? with
      | none => simp [List.getLast?_eq_none_iff] at hl; exact absurd hl hne
      | some last =>
        refine ⟨false, _, rfl, ?_, by simp⟩
        obtain ⟨h1, h2, h3, h4⟩ := hinv1
        refine ⟨?_, ?_, ?_, ?_⟩
        · split at h1 <;> (split <;> simp_all)
        · split at h2 <;> (split <;> simp_all)
        · split at h3 <;> (split <;> simp_all)
        · split at h4 <;> (split <;> simp_all)

/-- the polynomial path keeps the invariant: the guard `f2.contains(n)` supplies `n ∉ f2` -/
theorem pm1PolyStep_inv (n : Nat) (pp : Nat → Bool) (st : CgfState) (hinv : CgfInv n st) (hne : st.vals ≠ [])
    (hchain : ∀ i j, i ≤ j → j < st.vals.length →
      Nat.gcd st.nred (st.vals.getD i 0) ∣ Nat.gcd st.nred (st.vals.getD j 0)) :
    ∃ r, pm1PolyStep n pp st = some r ∧ ∀ st', r = some st' →
      CgfInv n st' ∧ ∃ f2 n2, gcdFactors st.nred st.vals pp = some (f2, n2) ∧ n ∉ f2 ∧
        st' = { factors := st.factors ++ f2, nred := n2, vals := [] } := by
  obtain ⟨hprod, hgt, hpos, hnot⟩ := hinv
  obtain ⟨fs, rest, hg, _, hfr, hfgt, _⟩ := gcdFactors_spec st.nred st.vals pp hpos hne hchain
  have hguard : Stage2Arms.pm1PolyGuard = true := by delta Stage2Arms.pm1PolyGuard; rfl
  unfold pm1PolyStep
  simp only [hg, hguard, Bool.true_and]
  by_cases hc : fs.contains n = true
  · rw [if_pos hc]; exact ⟨none, rfl, by simp⟩
  · rw [if_neg hc]
    refine ⟨_, rfl, ?_⟩
    intro st' hst
    simp only [Option.some.injEq] at hst
    subst hst
    have hnfs : n ∉ fs := by simpa using hc
    refine ⟨⟨?_, ?_, ?_, ?_⟩, fs, rest, rfl, hnfs, rfl⟩
    · show (st.factors ++ fs).prod * rest = n
      rw [List.prod_append, mul_assoc, hfr]; exact hprod
    · intro f hf
      rcases List.mem_append.mp hf with h | h
      · exact hgt f h
      · exact hfgt f h
    · show 0 < rest
      rcases Nat.eq_zero_or_pos rest with h | h
      · rw [h, Nat.mul_zero] at hfr; omega
      · exact h
    · intro h
      rcases List.mem_append.mp h with h | h
      · exact hnot h
      · exact hnfs h

/-- what the caller returns is a proper split: the parts multiply to `n`, each is `> 1`, none is `n` itself -/
theorem splitResult_proper {n : Nat} {st : CgfState} (hinv : CgfInv n st) {fs : List Nat} {rest : Nat}
    (h : splitResult st = some (fs, rest)) :
    fs.prod * rest = n ∧ (∀ f ∈ fs, 1 < f) ∧ 0 < rest ∧ n ∉ fs ∧ fs ≠ [] := by
  unfold splitResult at h
  split at h
  · exact absurd h (by simp)
  · rename_i hne
    simp only [Option.some.injEq, Prod.mk.injEq] at h
    obtain ⟨rfl, rfl⟩ := h
    exact ⟨hinv.1, hinv.2.1, hinv.2.2.1, hinv.2.2.2, by intro h; simp [h] at hne⟩

/-- shrinking the ring: residues of the old ring reduce consistently, and gcds are unchanged -/
theorem shrink_ring {n nred x : Nat} (h : nred ∣ n) :
    x % n % nred = x % nred ∧ Nat.gcd nred (x % n % nred) = Nat.gcd nred x := by
  have e := Nat.mod_mod_of_dvd x h
  refine ⟨e, ?_⟩
  rw [e, Nat.gcd_comm, ← Nat.gcd_rec, Nat.gcd_comm]

/-! ### check_gcd_factor (ECM), rho_impl -/

theorem checkGcdFactor_proper (n : Nat) (vals : List Nat) (pp : Nat → Bool) (hn : 0 < n) (hne : vals ≠ [])
    (hchain : ∀ i j, i ≤ j → j < vals.length → Nat.gcd n (vals.getD i 0) ∣ Nat.gcd n (vals.getD j 0)) :
    ∃ r, checkGcdFactor n vals pp = some r ∧ ∀ d, r = some d → d * (n / d) = n ∧ 1 < d ∧ d < n ∧ 1 < n / d := by
  obtain ⟨fs, rest, hg, _, hfr, hfgt, _⟩ := gcdFactors_spec n vals pp hn hne hchain
  unfold checkGcdFactor
  simp only [hg]
  refine ⟨_, rfl, ?_⟩
  intro d hd
  have hmem : d ∈ fs.filter (· != n) := List.max?_mem hd
  rw [List.mem_filter] at hmem
  obtain ⟨hdfs, hdn⟩ := hmem
  have hdn' : d ≠ n := by simpa using hdn
  have hdvd : d ∣ n := Dvd.dvd.trans (List.dvd_prod hdfs) ⟨rest, hfr.symm⟩
  have h1 := hfgt d hdfs
  have hmul : d * (n / d) = n := Nat.mul_div_cancel' hdvd
  have hlt : d < n := lt_of_le_of_ne (Nat.le_of_dvd hn hdvd) hdn'
  refine ⟨hmul, h1, hlt, ?_⟩
  generalize n / d = q at hmul
  by_contra hc
  have : q = 0 ∨ q = 1 := by omega
  rcases this with rfl | rfl <;> omega

theorem rhoImplResult_proper (n : Nat) (prods : List Nat) (pp : Nat → Bool) (hn : 0 < n) (hne : prods ≠ [])
    (hchain : ∀ i j, i ≤ j → j < prods.length → Nat.gcd n (prods.getD i 0) ∣ Nat.gcd n (prods.getD j 0)) :
    ∃ r, rhoImplResult n prods pp = some r ∧ ∀ fs rest, r = some (fs, rest) →
      fs.prod * rest = n ∧ (∀ f ∈ fs, 1 < f) ∧ 1 < rest ∧ rest < n ∧ fs ≠ [] := by
  obtain ⟨fs, rest, hg, _, hfr, hfgt, _⟩ := gcdFactors_spec n prods pp hn hne hchain
  unfold rhoImplResult
  simp only [hg]
  split
  · exact ⟨none, rfl, by simp⟩
  · rename_i hc
    refine ⟨_, rfl, ?_⟩
    intro fs' rest' h
    simp only [Option.some.injEq, Prod.mk.injEq] at h
    obtain ⟨rfl, rfl⟩ := h
    simp only [Bool.or_eq_true, beq_iff_eq, not_or] at hc
    have hrest0 : rest ≠ 0 := by rintro rfl; rw [Nat.mul_zero] at hfr; omega
    have hle : rest ≤ n := Nat.le_of_dvd hn ⟨fs.prod, by rw [Nat.mul_comm]; exact hfr.symm⟩
    refine ⟨hfr, hfgt, by omega, by omega, ?_⟩
    rintro rfl
    simp at hfr
    omega

/-! ### y-normalisation -/

section
variable {M : Type*} [CommMonoid M]

def zsOf (l : List (M × M)) : List M := l.map Prod.snd

/-- what `ynorm` computes, written directly: `y_k * (z_0 ⋯ z_{k-1}) * (z_{k+1} ⋯ z_{l-1})` -/
def ynSpec : M → List (M × M) → List (M × M)
  | _, [] => []
  | u, (y, z) :: t => (y * u * (zsOf t).prod, z) :: ynSpec (u * z) t

theorem ynHead_eq (l : List (M × M)) : ynHead (· * ·) l = ynPass (· * ·) 1 l := by
  cases l with
  | nil => rfl
  | cons a t => obtain ⟨y, z⟩ := a; simp [ynHead, ynPass]

theorem ynPass_append (u : M) (l : List (M × M)) (a : M × M) :
    ynPass (· * ·) u (l ++ [a]) = ynPass (· * ·) u l ++ [(a.1 * (u * (zsOf l).prod), a.2)] := by
  induction l generalizing u with
  | nil => obtain ⟨y, z⟩ := a; simp [ynPass, zsOf]
  | cons b t ih =>
    obtain ⟨y, z⟩ := b
    simp only [List.cons_append, ynPass, ih, zsOf, List.map_cons, List.prod_cons, mul_assoc]

/-- the backward pass: `y_k` is multiplied by the product of the later `z`s -/
theorem ynPass_reverse (l : List (M × M)) :
    (ynPass (· * ·) 1 l.reverse).reverse = l.zipWith (fun e s => (e.1 * s, e.2))
      ((List.range l.length).map fun k => ((zsOf l).drop (k + 1)).prod) := by
  induction l with
  | nil => simp [ynPass]
  | cons a t ih =>
    rw [List.reverse_cons, ynPass_append, List.reverse_append, ih]
    simp only [List.reverse_cons, List.reverse_nil, List.nil_append, List.singleton_append, List.length_cons,
      List.range_succ_eq_map, List.map_cons, List.map_map, List.zipWith_cons_cons]
    congr 1
    simp [zsOf, List.map_reverse, List.prod_reverse]

theorem ynorm_eq_spec_aux (u : M) (l : List (M × M)) :
    (ynPass (· * ·) u l).zipWith (fun e s => (e.1 * s, e.2))
      ((List.range l.length).map fun k => ((zsOf l).drop (k + 1)).prod) = ynSpec u l := by
  induction l generalizing u with
  | nil => simp [ynPass, ynSpec]
  | cons a t ih =>
    obtain ⟨y, z⟩ := a
    simp only [ynPass, List.length_cons, List.range_succ_eq_map, List.map_cons, List.map_map,
      List.zipWith_cons_cons, ynSpec]
    congr 1
    have := ih (u * z)
    simp only [zsOf, List.map_cons, Function.comp_def, List.drop_succ_cons] at this ⊢
    exact this

theorem zsOf_ynPass (u : M) (l : List (M × M)) : zsOf (ynPass (· * ·) u l) = zsOf l := by
  induction l generalizing u with
  | nil => rfl
  | cons a t ih => obtain ⟨y, z⟩ := a; simp [ynPass, zsOf] at ih ⊢; exact ih _

/-- `ynorm_spec`: the two passes compute `y_k · ∏_{j ≠ k} z_j` and leave the `z`s alone -/
theorem ynorm_eq_spec (l : List (M × M)) : ynorm (· * ·) l = ynSpec 1 l := by
  unfold ynorm
  rw [ynHead_eq, ynHead_eq, ynPass_reverse, List.length_ynPass_aux]
  · rw [zsOf_ynPass]; exact ynorm_eq_spec_aux 1 l
where
  List.length_ynPass_aux : (ynPass (· * ·) (1 : M) l).length = l.length := by
    have : ∀ (u : M) (l : List (M × M)), (ynPass (· * ·) u l).length = l.length := by
      intro u l
      induction l generalizing u with
      | nil => rfl
      | cons a t ih => obtain ⟨y, z⟩ := a; simp [ynPass, ih]
    exact this 1 l

/-- entry `k` of the normalised list times its own `z` is `y_k` times the product of *all* `z`s (and of `u`) -/
theorem ynSpec_entry (u : M) (l : List (M × M)) (k : Nat) (e e' : M × M)
    (he : l[k]? = some e) (he' : (ynSpec u l)[k]? = some e') :
    e'.1 * e.2 = e.1 * (u * (zsOf l).prod) ∧ e'.2 = e.2 := by
  induction l generalizing u k with
  | nil => simp at he
  | cons a t ih =>
    obtain ⟨y, z⟩ := a
    cases k with
    | zero =>
      simp only [List.getElem?_cons_zero, Option.some.injEq, ynSpec] at he he'
      subst he; subst he'
      simp only [zsOf, List.map_cons, List.prod_cons]
      constructor
      · simp only [mul_assoc, mul_comm, mul_left_comm]
      · trivial
    | succ k =>
      simp only [List.getElem?_cons_succ, ynSpec] at he he'
      obtain ⟨h1, h2⟩ := ih (u * z) k he he'
      refine ⟨?_, h2⟩
      rw [h1]; simp only [zsOf, List.map_cons, List.prod_cons, mul_assoc]
end

/-- `ynorm_compare`: over an integral domain (the field `Z/p`), when no `z` vanishes, two normalised `y`s are
equal exactly when the affine coordinates `y/z` are: the product of differences vanishes mod `p` iff two points
have the same affine `y` (= are equal up to sign, in the even-coordinate setting of `ecm_hit`). -/
theorem ynorm_compare {F : Type*} [CommRing F] [IsDomain F] (l : List (F × F)) (hz : ∀ e ∈ l, e.2 ≠ 0)
    (i k : Nat) (ei ek ei' ek' : F × F) (hi : l[i]? = some ei) (hk : l[k]? = some ek)
    (hi' : (ynorm (· * ·) l)[i]? = some ei') (hk' : (ynorm (· * ·) l)[k]? = some ek') :
    ei'.1 - ek'.1 = 0 ↔ ei.1 * ek.2 = ek.1 * ei.2 := by
  rw [ynorm_eq_spec] at hi' hk'
  obtain ⟨h1, _⟩ := ynSpec_entry 1 l i ei ei' hi hi'
  obtain ⟨h2, _⟩ := ynSpec_entry 1 l k ek ek' hk hk'
  have hzi : ei.2 ≠ 0 := hz ei (List.mem_of_getElem? hi)
  have hzk : ek.2 ≠ 0 := hz ek (List.mem_of_getElem? hk)
  have hP : (1 * (zsOf l).prod : F) ≠ 0 := by
    rw [one_mul]
    apply List.prod_ne_zero
    intro h0
    obtain ⟨e, he, hez⟩ := List.mem_map.mp h0
    exact hz e he hez
  set P : F := 1 * (zsOf l).prod
  rw [sub_eq_zero]
  constructor
  · intro h
    have : P * (ei.1 * ek.2 - ek.1 * ei.2) = 0 := by
      have e1 : ei'.1 * ei.2 * ek.2 = ei.1 * P * ek.2 := by rw [h1]
      have e2 : ek'.1 * ek.2 * ei.2 = ek.1 * P * ei.2 := by rw [h2]
      rw [h] at e1
      linear_combination e2 - e1
    rcases mul_eq_zero.mp this with h0 | h0
    · exact absurd h0 hP
    · exact sub_eq_zero.mp h0
  · intro h
    have : (ei'.1 - ek'.1) * (ei.2 * ek.2) = 0 := by
      linear_combination ek.2 * h1 - ei.2 * h2 + P * h
    rcases mul_eq_zero.mp this with h0 | h0
    · exact sub_eq_zero.mp h0
    · exact absurd h0 (mul_ne_zero hzi hzk)

/-! ### PM1Base::factor -/

/-- with a budget of at least 1024 every block of small prime powers is applied -/
theorem pm1baseFmax_full (nf budget : Nat) (h : Stage2Arms.pm1base.1 ≤ budget) :
    pm1baseFmax Stage2Arms.pm1base nf budget = nf := by
  unfold pm1baseFmax
  have hc : Stage2Arms.pm1base.1 = 1024 := by delta Stage2Arms.pm1base; rfl
  rw [hc] at h ⊢
  apply Nat.min_eq_left
  rw [Nat.le_div_iff_mul_le (by decide)]
  rw [Nat.mul_comm]
  exact Nat.mul_le_mul_right _ h

/-- the gap walk reproduces the list it walks when the entries are odd, increasing and at most `2*njumps` apart -/
theorem pm1baseGaps_spec (njumps : Nat) : ∀ (ps : List Nat) (exp : Nat) (acc : List Nat), exp % 2 = 1 →
    (∀ p ∈ ps, p % 2 = 1) → List.IsChain (fun a b => a < b ∧ b - a ≤ 2 * njumps) (exp :: ps) →
    pm1baseGaps njumps exp exp ps acc = some (acc.reverse ++ ps)
  | [], _, acc, _, _, _ => by simp [pm1baseGaps]
  | p :: t, exp, acc, hodd, hall, hch => by
    obtain ⟨⟨hlt, hgap⟩, hch'⟩ := List.isChain_cons_cons.mp hch
    have hp : p % 2 = 1 := hall p (List.mem_cons_self ..)
    rw [pm1baseGaps, if_neg (by omega)]
    have h2 : (p - exp) / 2 ≠ 0 := by omega
    have h3 : ¬ ((p - exp) / 2 = 0 ∨ (p - exp) / 2 - 1 ≥ njumps) := by omega
    have h4 : exp + 2 * ((p - exp) / 2) = p := by omega
    simp only [if_neg h3, h4]
    rw [pm1baseGaps_spec njumps t p _ hp (fun q hq => hall q (List.mem_cons_of_mem _ hq)) hch']
    simp

/-- `pm1base_cover`: with a budget ≥ 1001 every large prime of index `< min(len, budget − 1000)` is an exponent
for which `h^l − 1` enters the product — provided the table is what `PM1Base::new` builds (starts at 503, odd,
increasing, consecutive gaps ≤ 128; checked on the real table by the request `s2_pm1base_data`). -/
theorem pm1baseTested_spec (larges : List Nat) (budget : Nat) (hb : 1001 ≤ budget) (hne : larges ≠ [])
    (hfirst : larges.head? = some 503) (hodd : ∀ p ∈ larges, p % 2 = 1)
    (hch : List.IsChain (fun a b => a < b ∧ b - a ≤ 128) larges) :
    pm1baseTested Stage2Arms.pm1base larges budget = some (larges.take (min larges.length (budget - 1000))) := by
  unfold pm1baseTested
  delta Stage2Arms.pm1base
  simp only
  rw [if_neg (by omega)]
  have hlen : 1 ≤ larges.length := by
    cases larges with
    | nil => exact absurd rfl hne
    | cons a t => simp
  rw [if_neg (by omega)]
  simp only [hfirst, bne_self_eq_false, Bool.false_eq_true, if_false]
  cases larges with
  | nil => exact absurd rfl hne
  | cons a t =>
    simp only [List.head?_cons, Option.some.injEq] at hfirst
    subst hfirst
    obtain ⟨m, hm⟩ : ∃ m, min (503 :: t).length (budget - 1000) = m + 1 := ⟨min (503 :: t).length (budget - 1000) - 1, by
      simp only [List.length_cons] at hlen ⊢; omega⟩
    rw [hm, List.take_succ_cons, List.drop_one, List.tail_cons]
    have hch' : List.IsChain (fun a b => a < b ∧ b - a ≤ 2 * 64) (503 :: t.take m) := by
      have := List.IsChain.take hch (m + 1)
      rwa [List.take_succ_cons] at this
    rw [pm1baseGaps_spec 64 (t.take m) 503 [503] (by decide)
      (fun p hp => hodd p (List.mem_cons_of_mem _ (List.mem_of_mem_take hp))) hch']
    simp

end Ymq.ExpModn
