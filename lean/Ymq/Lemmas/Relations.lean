/-
Basic lemmas for the relation store model (C11): the `Except` monad, the congruence `Valid`,
`pow_mod`, `Relation::verify`, and `RelationSet::combine`.
-/
import Ymq.Model.Relations
import Mathlib.Data.Int.ModEq
import Mathlib.Tactic.Ring
import Mathlib.Tactic.Linarith

namespace Ymq.Relations

/-! ### the outcome monad -/

theorem bind_eq_ok {α β} {x : M α} {f : α → M β} {b : β} :
    (x >>= f) = .ok b ↔ ∃ a, x = .ok a ∧ f a = .ok b := by
  cases x <;> simp [bind, Except.bind]

theorem pure_eq_ok {α} {a b : α} : (pure a : M α) = .ok b ↔ a = b := by
  simp [pure, Except.pure]

theorem throw_ne_ok {α} {e : Err} {b : α} : (throw e : M α) = .ok b ↔ False := by
  simp [throw, throwThe, MonadExceptOf.throw]

/-! ### specification vocabulary -/

/-- the listed prime powers, the sign `-1` included as an ordinary base -/
def fprod : List (Int × Nat) → Int
  | [] => 1
  | (p, k) :: t => p ^ k * fprod t

/-- the congruence a relation stands for: `x² ≡ cofactor · ∏ pᵏ (mod n)` -/
def Valid (n : Nat) (r : Relation) : Prop :=
  (r.x : Int) * r.x ≡ (r.cofactor : Int) * fprod r.factors [ZMOD n]

instance (n : Nat) (r : Relation) : Decidable (Valid n r) := by unfold Valid; infer_instance

/-- Rust types of the factor list: `i64` primes, `u64` exponents -/
def TypedF (fs : List (Int × Nat)) : Prop :=
  ∀ f ∈ fs, -(I63 : Int) ≤ f.1 ∧ f.1 < (I63 : Int) ∧ f.2 < W64

/-- Rust types of a relation (`u64` cofactor and cycle length) -/
def Typed (r : Relation) : Prop := r.cofactor < W64 ∧ r.cyclelen < W64 ∧ TypedF r.factors

/-- no factor entry has base 1 (the packed encoding uses the code 1 for the prime 2) -/
def NoOne (fs : List (Int × Nat)) : Prop := ∀ f ∈ fs, f.1 ≠ 1

@[simp] theorem fprod_nil : fprod [] = 1 := rfl
@[simp] theorem fprod_cons (p : Int) (k : Nat) (t : List (Int × Nat)) :
    fprod ((p, k) :: t) = p ^ k * fprod t := rfl

theorem fprod_append (a b : List (Int × Nat)) : fprod (a ++ b) = fprod a * fprod b := by
  induction a with
  | nil => simp
  | cons h t ih => obtain ⟨p, k⟩ := h; simp [ih, mul_assoc]

theorem TypedF_nil : TypedF [] := by intro f hf; cases hf

theorem TypedF_cons {f : Int × Nat} {t : List (Int × Nat)} :
    TypedF (f :: t) ↔ (-(I63 : Int) ≤ f.1 ∧ f.1 < (I63 : Int) ∧ f.2 < W64) ∧ TypedF t := by
  simp [TypedF]

theorem TypedF_append {a b : List (Int × Nat)} : TypedF (a ++ b) ↔ TypedF a ∧ TypedF b := by
  simp only [TypedF, List.mem_append]
  constructor
  · intro h; exact ⟨fun f hf => h f (Or.inl hf), fun f hf => h f (Or.inr hf)⟩
  · rintro ⟨h1, h2⟩ f (hf | hf)
    · exact h1 f hf
    · exact h2 f hf

theorem NoOne_cons {f : Int × Nat} {t : List (Int × Nat)} :
    NoOne (f :: t) ↔ f.1 ≠ 1 ∧ NoOne t := by
  simp [NoOne]

theorem NoOne_append {a b : List (Int × Nat)} : NoOne (a ++ b) ↔ NoOne a ∧ NoOne b := by
  simp only [NoOne, List.mem_append]
  constructor
  · intro h; exact ⟨fun f hf => h f (Or.inl hf), fun f hf => h f (Or.inr hf)⟩
  · rintro ⟨h1, h2⟩ f (hf | hf)
    · exact h1 f hf
    · exact h2 f hf

theorem toI64_small {v : Nat} (h : v < I63) : toI64 v = (v : Int) := by
  unfold toI64; rw [if_pos h]

theorem toI64_range {v : Nat} (h : v < W64) : -(I63 : Int) ≤ toI64 v ∧ toI64 v < (I63 : Int) := by
  unfold toI64
  have e1 : (W64 : Int) = 18446744073709551616 := by decide
  have e2 : (I63 : Int) = 9223372036854775808 := by decide
  have e3 : I63 = 9223372036854775808 := by decide
  have e4 : W64 = 18446744073709551616 := by decide
  split
  · omega
  · omega

theorem toU64_nonneg {p : Int} (h0 : 0 ≤ p) (h1 : p < (W64 : Int)) : (toU64 p : Int) = p := by
  unfold toU64
  rw [Int.emod_eq_of_lt h0 h1, Int.toNat_of_nonneg h0]

/-! ### `pow_mod` -/

theorem powModLoop_spec (p : Nat) : ∀ (f res nn k : Nat), k < 2 ^ f →
    powModLoop p f res nn k ≡ res * nn ^ k [MOD p] := by
  intro f
  induction f with
  | zero =>
    intro res nn k hk
    have : k = 0 := by simpa using hk
    subst this
    simp [powModLoop, Nat.ModEq]
  | succ f ih =>
    intro res nn k hk
    unfold powModLoop
    split
    · rename_i h0; subst h0; simp [Nat.ModEq]
    · have hk2 : k / 2 < 2 ^ f := by
        rw [Nat.div_lt_iff_lt_mul (by decide)]; rw [pow_succ] at hk; exact hk
      have h := ih (if k % 2 = 1 then res * nn % p else res) (nn * nn % p) (k / 2) hk2
      refine h.trans ?_
      have hsq : (nn * nn % p) ^ (k / 2) ≡ (nn * nn) ^ (k / 2) [MOD p] :=
        (Nat.mod_modEq _ _).pow _
      have hk' : k = 2 * (k / 2) + k % 2 := (Nat.div_add_mod k 2).symm
      have hpow : nn ^ k = (nn * nn) ^ (k / 2) * nn ^ (k % 2) := by
        conv_lhs => rw [hk']
        rw [pow_add, pow_mul, sq]
      rw [hpow]
      split
      · rename_i hodd
        rw [hodd, pow_one]
        have : res * nn % p * (nn * nn % p) ^ (k / 2) ≡ res * nn * (nn * nn) ^ (k / 2) [MOD p] :=
          (Nat.mod_modEq _ _).mul hsq
        refine this.trans ?_
        rw [show res * nn * (nn * nn) ^ (k / 2) = res * ((nn * nn) ^ (k / 2) * nn) by ring]
      · rename_i hev
        have he : k % 2 = 0 := by omega
        rw [he, pow_zero, mul_one]
        exact Nat.ModEq.mul_left _ hsq

theorem powMod_spec (b k p : Nat) (hk : k < W64) : powMod b k p ≡ b ^ k [MOD p] := by
  unfold powMod
  have h := powModLoop_spec p 64 1 (b % p) k (by simpa [W64] using hk)
  refine h.trans ?_
  rw [one_mul]
  exact (Nat.mod_modEq _ _).pow _

/-! ### `verify` is sound -/

theorem verifyLoop_spec (n len : Nat) : ∀ (fs : List (Int × Nat)) (prod out : Nat),
    TypedF fs → verifyLoop n len fs prod = .ok out →
    (out : Int) ≡ (prod : Int) * fprod fs [ZMOD n] := by
  intro fs
  induction fs with
  | nil =>
    intro prod out _ h
    simp only [verifyLoop, pure_eq_ok] at h
    subst h; simp [Int.ModEq]
  | cons f t ih =>
    obtain ⟨p, k⟩ := f
    intro prod out hty h
    rw [TypedF_cons] at hty
    obtain ⟨⟨hp1, hp2, hk⟩, htt⟩ := hty
    simp only at hp1 hp2 hk
    unfold verifyLoop at h
    split at h
    · rename_i hm1
      subst hm1
      split at h
      · rename_i hodd
        split at h
        · simp [throw_ne_ok] at h
        · rename_i hle
          have := ih (n - prod) out htt h
          refine this.trans ?_
          rw [fprod_cons, Odd.neg_one_pow (Nat.odd_iff.mpr hodd)]
          have hcast : ((n - prod : Nat) : Int) = (n : Int) - prod := by omega
          rw [hcast]
          have : (n : Int) - prod ≡ 0 - prod [ZMOD n] :=
            Int.ModEq.sub_right _ (by simp [Int.ModEq])
          have h2 := this.mul_right (fprod t)
          refine h2.trans ?_
          rw [show (0 - (prod : Int)) * fprod t = prod * (-1 * fprod t) by ring]
      · rename_i hev
        have := ih prod out htt h
        refine this.trans ?_
        have he : Even k := Nat.even_iff.mpr (by omega)
        rw [fprod_cons, Even.neg_one_pow he, one_mul]
    · split at h
      · rename_i hpos
        split at h
        · simp [throw_ne_ok] at h
        · have := ih _ out htt h
          refine this.trans ?_
          have hp0 : 0 ≤ p := by
            rcases hpos with hpos | ⟨hpos, _⟩ <;> omega
          have hW : (p : Int) < (W64 : Int) := by
            have e1 : (W64 : Int) = 18446744073709551616 := by decide
            have e2 : (I63 : Int) = 9223372036854775808 := by decide
            omega
          have hu := toU64_nonneg hp0 hW
          have hpm := powMod_spec (toU64 p) k n hk
          have hpmZ : ((powMod (toU64 p) k n : Nat) : Int) ≡ p ^ k [ZMOD n] := by
            have := Int.natCast_modEq_iff.mpr hpm
            rw [Nat.cast_pow, hu] at this
            exact this
          have h1 : ((prod * powMod (toU64 p) k n % n : Nat) : Int) ≡ prod * p ^ k [ZMOD n] := by
            rw [Int.natCast_mod, Nat.cast_mul]
            exact (Int.mod_modEq _ _).trans (Int.ModEq.mul_left _ hpmZ)
          have h2 := h1.mul_right (fprod t)
          refine h2.trans ?_
          rw [fprod_cons, mul_assoc]
      · simp [throw_ne_ok] at h

/-- `verify` never accepts a relation that is not a congruence. -/
theorem verify_sound {n : Nat} {r : Relation} (hty : TypedF r.factors)
    (h : verify n r = .ok true) : Valid n r := by
  unfold verify at h
  simp only [bind_eq_ok] at h
  obtain ⟨prod, hprod, h⟩ := h
  split at h
  · simp [throw, throwThe, MonadExceptOf.throw, Functor.map, Except.map] at h
  · simp only [pure_eq_ok, beq_iff_eq] at h
    have hs := verifyLoop_spec n _ _ _ _ hty hprod
    unfold Valid
    have : ((r.x * r.x % n : Nat) : Int) ≡ (r.x : Int) * r.x [ZMOD n] := by
      rw [Int.natCast_mod, Nat.cast_mul]; exact Int.mod_modEq _ _
    rw [h] at this
    exact this.symm.trans hs

/-! ### `combine` -/

theorem bump_spec (p : Int) (k : Nat) : ∀ (fs fs' : List (Int × Nat)),
    bump p k fs = .ok fs' → hasPrime p fs = true → fprod fs' = fprod fs * p ^ k := by
  intro fs
  induction fs with
  | nil => intro fs' _ hp; simp [hasPrime] at hp
  | cons f t ih =>
    obtain ⟨p', k'⟩ := f
    intro fs' h hp
    unfold bump at h
    split at h
    · rename_i heq
      subst heq
      split at h
      · simp only [pure_eq_ok] at h
        subst h
        simp only [fprod_cons, pow_add]; ring
      · simp [throw_ne_ok] at h
    · rename_i hne
      simp only [bind_eq_ok, pure_eq_ok] at h
      obtain ⟨t', ht', h⟩ := h
      subst h
      have hp' : hasPrime p t = true := by
        simp only [hasPrime, List.any_cons, Bool.or_eq_true, beq_iff_eq] at hp
        rcases hp with hp | hp
        · exact absurd hp hne
        · exact hp
      rw [fprod_cons, fprod_cons, ih t' ht' hp']; ring

theorem bump_typed (p : Int) (k : Nat) : ∀ (fs fs' : List (Int × Nat)),
    bump p k fs = .ok fs' → TypedF fs → TypedF fs' := by
  intro fs
  induction fs with
  | nil => intro fs' h _; simp only [bump, pure_eq_ok] at h; subst h; exact TypedF_nil
  | cons f t ih =>
    obtain ⟨p', k'⟩ := f
    intro fs' h hty
    rw [TypedF_cons] at hty
    unfold bump at h
    split at h
    · split at h
      · rename_i hlt
        simp only [pure_eq_ok] at h
        subst h
        rw [TypedF_cons]
        exact ⟨⟨hty.1.1, hty.1.2.1, hlt⟩, hty.2⟩
      · simp [throw_ne_ok] at h
    · simp only [bind_eq_ok, pure_eq_ok] at h
      obtain ⟨t', ht', h⟩ := h
      subst h
      rw [TypedF_cons]
      exact ⟨hty.1, ih t' ht' hty.2⟩

theorem bump_noOne (p : Int) (k : Nat) : ∀ (fs fs' : List (Int × Nat)),
    bump p k fs = .ok fs' → NoOne fs → NoOne fs' := by
  intro fs
  induction fs with
  | nil => intro fs' h _; simp only [bump, pure_eq_ok] at h; subst h; intro f hf; cases hf
  | cons f t ih =>
    obtain ⟨p', k'⟩ := f
    intro fs' h hty
    rw [NoOne_cons] at hty
    unfold bump at h
    split at h
    · split at h
      · simp only [pure_eq_ok] at h
        subst h
        rw [NoOne_cons]
        exact ⟨hty.1, hty.2⟩
      · simp [throw_ne_ok] at h
    · simp only [bind_eq_ok, pure_eq_ok] at h
      obtain ⟨t', ht', h⟩ := h
      subst h
      rw [NoOne_cons]
      exact ⟨hty.1, ih t' ht' hty.2⟩

theorem mergeFactors_spec : ∀ (fs acc out : List (Int × Nat)),
    mergeFactors acc fs = .ok out → fprod out = fprod acc * fprod fs := by
  intro fs
  induction fs with
  | nil => intro acc out h; simp only [mergeFactors, pure_eq_ok] at h; subst h; simp
  | cons f t ih =>
    obtain ⟨p, k⟩ := f
    intro acc out h
    unfold mergeFactors at h
    split at h
    · rename_i hp
      simp only [bind_eq_ok] at h
      obtain ⟨acc', hb, h⟩ := h
      rw [ih acc' out h, bump_spec p k acc acc' hb hp, fprod_cons]; ring
    · rw [ih _ out h, fprod_append, fprod_cons, fprod_nil, fprod_cons]; ring

theorem mergeFactors_typed : ∀ (fs acc out : List (Int × Nat)),
    mergeFactors acc fs = .ok out → TypedF acc → TypedF fs → TypedF out := by
  intro fs
  induction fs with
  | nil => intro acc out h ha _; simp only [mergeFactors, pure_eq_ok] at h; subst h; exact ha
  | cons f t ih =>
    obtain ⟨p, k⟩ := f
    intro acc out h ha hf
    rw [TypedF_cons] at hf
    unfold mergeFactors at h
    split at h
    · simp only [bind_eq_ok] at h
      obtain ⟨acc', hb, h⟩ := h
      exact ih acc' out h (bump_typed p k acc acc' hb ha) hf.2
    · refine ih _ out h ?_ hf.2
      rw [TypedF_append]
      refine ⟨ha, ?_⟩
      rw [TypedF_cons]
      exact ⟨hf.1, TypedF_nil⟩

theorem mergeFactors_noOne : ∀ (fs acc out : List (Int × Nat)),
    mergeFactors acc fs = .ok out → NoOne acc → NoOne fs → NoOne out := by
  intro fs
  induction fs with
  | nil => intro acc out h ha _; simp only [mergeFactors, pure_eq_ok] at h; subst h; exact ha
  | cons f t ih =>
    obtain ⟨p, k⟩ := f
    intro acc out h ha hf
    rw [NoOne_cons] at hf
    unfold mergeFactors at h
    split at h
    · simp only [bind_eq_ok] at h
      obtain ⟨acc', hb, h⟩ := h
      exact ih acc' out h (bump_noOne p k acc acc' hb ha) hf.2
    · refine ih _ out h ?_ hf.2
      rw [NoOne_append]
      refine ⟨ha, ?_⟩
      rw [NoOne_cons]
      exact ⟨hf.1, fun f hf => by cases hf⟩

/-- the cofactor `combine` divides by and squares into the factor list -/
def divisorCof (r1 r2 : Relation) : Nat :=
  if r1.cofactor % r2.cofactor = 0 then r2.cofactor else r1.cofactor

/-- everything `combine` does when it returns -/
theorem combine_ok {n : Nat} {r1 r2 r : Relation} (h : combine n r1 r2 = .ok r) :
    ∃ fs, mergeFactors r1.factors r2.factors = .ok fs ∧ 0 < n ∧ r.x = r1.x * r2.x % n ∧
      r.cyclelen = r1.cyclelen + r2.cyclelen ∧ r.cyclelen < W64 ∧
      ((r2.cofactor ≠ 0 ∧ r1.cofactor % r2.cofactor = 0 ∧ r.cofactor = r1.cofactor / r2.cofactor ∧
          r.factors = fs ++ [(toI64 r2.cofactor, 2)]) ∨
       (r1.cofactor ≠ 0 ∧ r2.cofactor ≠ 0 ∧ r1.cofactor % r2.cofactor ≠ 0 ∧
          r2.cofactor % r1.cofactor = 0 ∧ r.cofactor = r2.cofactor / r1.cofactor ∧
          r.factors = fs ++ [(toI64 r1.cofactor, 2)])) := by
  unfold combine at h
  simp only [bind_eq_ok] at h
  obtain ⟨fs, hfs, h⟩ := h
  refine ⟨fs, hfs, ?_⟩
  split at h
  · simp [throw_ne_ok] at h
  · rename_i hc2
    split at h
    · rename_i hmod
      split at h
      · simp [throw_ne_ok] at h
      · rename_i hn
        split at h
        · rename_i hlen
          simp only [pure_eq_ok] at h
          subst h
          exact ⟨Nat.pos_of_ne_zero hn, rfl, rfl, hlen, Or.inl ⟨hc2, hmod, rfl, rfl⟩⟩
        · simp [throw_ne_ok] at h
    · rename_i hmod
      split at h
      · simp [throw_ne_ok] at h
      · rename_i hc1
        split at h
        · simp [throw_ne_ok] at h
        · rename_i hmod2
          split at h
          · simp [throw_ne_ok] at h
          · rename_i hn
            split at h
            · rename_i hlen
              simp only [pure_eq_ok] at h
              subst h
              exact ⟨Nat.pos_of_ne_zero hn, rfl, rfl, hlen,
                Or.inr ⟨hc1, hc2, hmod, by simpa using hmod2, rfl, rfl⟩⟩
            · simp [throw_ne_ok] at h

theorem combine_divisor {n : Nat} {r1 r2 r : Relation} (h : combine n r1 r2 = .ok r) :
    divisorCof r1 r2 ≠ 0 ∧ r.cofactor * divisorCof r1 r2 * divisorCof r1 r2 = r1.cofactor * r2.cofactor ∧
    ∃ fs, mergeFactors r1.factors r2.factors = .ok fs ∧
      r.factors = fs ++ [(toI64 (divisorCof r1 r2), 2)] := by
  obtain ⟨fs, hfs, _, _, _, _, hc⟩ := combine_ok h
  rcases hc with ⟨hc2, hmod, hcof, hf⟩ | ⟨hc1, hc2, hmod, hmod2, hcof, hf⟩
  · have hd : divisorCof r1 r2 = r2.cofactor := by unfold divisorCof; rw [if_pos hmod]
    rw [hd, hcof, Nat.div_mul_cancel (Nat.dvd_of_mod_eq_zero hmod)]
    exact ⟨hc2, rfl, fs, hfs, hf⟩
  · have hd : divisorCof r1 r2 = r1.cofactor := by unfold divisorCof; rw [if_neg hmod]
    rw [hd, hcof, Nat.div_mul_cancel (Nat.dvd_of_mod_eq_zero hmod2)]
    exact ⟨hc1, Nat.mul_comm _ _, fs, hfs, hf⟩

/-- `combine` preserves the congruence (the divisor cofactor must survive the `as i64` cast). -/
theorem combine_valid' {n : Nat} {r1 r2 r : Relation} (h : combine n r1 r2 = .ok r)
    (h1 : Valid n r1) (h2 : Valid n r2) (hd : divisorCof r1 r2 < I63) : Valid n r := by
  obtain ⟨_, hmul, fs, hfs, hf⟩ := combine_divisor h
  obtain ⟨_, _, _, hx, _, _, _⟩ := combine_ok h
  have hfp := mergeFactors_spec _ _ _ hfs
  unfold Valid at *
  rw [hf, fprod_append, hfp, fprod_cons, fprod_nil, toI64_small hd, hx]
  have hxx : ((r1.x * r2.x % n : Nat) : Int) ≡ (r1.x : Int) * r2.x [ZMOD n] := by
    rw [Int.natCast_mod, Nat.cast_mul]; exact Int.mod_modEq _ _
  have := (hxx.mul hxx).trans
    (show (r1.x : Int) * r2.x * ((r1.x : Int) * r2.x) ≡
        ((r1.cofactor : Int) * fprod r1.factors) * ((r2.cofactor : Int) * fprod r2.factors) [ZMOD n] by
      rw [show (r1.x : Int) * r2.x * ((r1.x : Int) * r2.x) = (r1.x * r1.x) * (r2.x * r2.x) by ring]
      exact h1.mul h2)
  refine this.trans ?_
  have hmulZ : (r.cofactor : Int) * divisorCof r1 r2 * divisorCof r1 r2 = r1.cofactor * r2.cofactor := by
    exact_mod_cast hmul
  rw [show (r1.cofactor : Int) * fprod r1.factors * ((r2.cofactor : Int) * fprod r2.factors) =
    (r1.cofactor * r2.cofactor) * (fprod r1.factors * fprod r2.factors) by ring, ← hmulZ]
  ring_nf
  rfl

theorem combine_typed {n : Nat} {r1 r2 r : Relation} (h : combine n r1 r2 = .ok r)
    (h1 : Typed r1) (h2 : Typed r2) : Typed r := by
  obtain ⟨fs, hfs, _, _, _, hlen, hc⟩ := combine_ok h
  have hfsT := mergeFactors_typed _ _ _ hfs h1.2.2 h2.2.2
  have hpush : ∀ c, c < W64 → TypedF (fs ++ [(toI64 c, 2)]) := by
    intro c hc
    rw [TypedF_append]
    refine ⟨hfsT, ?_⟩
    rw [TypedF_cons]
    exact ⟨⟨(toI64_range hc).1, (toI64_range hc).2, by show 2 < W64; decide⟩, TypedF_nil⟩
  rcases hc with ⟨_, _, hcof, hf⟩ | ⟨_, _, _, _, hcof, hf⟩
  · refine ⟨?_, hlen, ?_⟩
    · rw [hcof]; exact lt_of_le_of_lt (Nat.div_le_self _ _) h1.1
    · rw [hf]; exact hpush _ h2.1
  · refine ⟨?_, hlen, ?_⟩
    · rw [hcof]; exact lt_of_le_of_lt (Nat.div_le_self _ _) h2.1
    · rw [hf]; exact hpush _ h1.1

theorem combine_noOne {n : Nat} {r1 r2 r : Relation} (h : combine n r1 r2 = .ok r)
    (h1 : NoOne r1.factors) (h2 : NoOne r2.factors) (hd : toI64 (divisorCof r1 r2) ≠ 1) :
    NoOne r.factors := by
  obtain ⟨_, _, fs, hfs, hf⟩ := combine_divisor h
  rw [hf, NoOne_append]
  refine ⟨mergeFactors_noOne _ _ _ hfs h1 h2, ?_⟩
  rw [NoOne_cons]
  exact ⟨hd, fun f hf => by cases hf⟩

theorem combine_x_lt {n : Nat} {r1 r2 r : Relation} (h : combine n r1 r2 = .ok r) : r.x < n := by
  obtain ⟨_, _, hn, hx, _⟩ := combine_ok h
  rw [hx]; exact Nat.mod_lt _ hn

end Ymq.Relations
