#!/bin/bash
# Runs checks against a MUTATED copy of /repo without touching /repo or /verif.
#   vlib/mutant_check.sh <patch.diff | -> <PID> [<PID> ...]      (env TIER=quick|thorough, KEEP=1 to keep the scratch dir)
# The patch is applied (git apply) to a scratch copy of /repo's HEAD working tree; a scratch copy of /verif
# (without build output of the harness) is pointed at it. Prints each check's last lines and exit status.
set -u
PATCH="$1"; shift
S=$(mktemp -d /tmp/mut-XXXXXX)
trap '[ -n "${KEEP:-}" ] || rm -rf "$S"' EXIT
mkdir -p "$S/repo"
# copy the committed tree plus nothing uncommitted (other people's in-progress edits are not our business)
git -C /repo archive HEAD | tar -x -C "$S/repo"
cp /repo/Cargo.lock "$S/repo/" 2>/dev/null
if [ "$PATCH" != "-" ]; then
  (cd "$S/repo" && git init -q . && git apply --whitespace=nowarn "$PATCH") || { echo "PATCH-DOES-NOT-APPLY"; exit 3; }
fi
rsync -a --exclude 'harness/target' --exclude 'replay' --exclude '.git' /verif/ "$S/verif/"
# FROM_HEAD=1: tracked files as committed (other people's half-edited files are not our business either)
[ -n "${FROM_HEAD:-}" ] && git -C /verif archive HEAD | tar -x -C "$S/verif"
sed -i "s|path = \"/repo\"|path = \"$S/repo\"|" "$S/verif/harness/Cargo.toml"
export YMQ_REPO="$S/repo"
cp -r /verif/harness/target "$S/target" 2>/dev/null      # reuse compiled dependencies
export CARGO_TARGET_DIR="$S/target"
rc_all=0
for PID in "$@"; do
  echo "=== mutant check $PID (tier ${TIER:-quick})"
  (cd "$S/verif" && timeout 3000 ./check "$PID" --tier "${TIER:-quick}") | tail -5
  rc=${PIPESTATUS[0]}
  echo "=== exit $rc"
  [ $rc -ne 0 ] && rc_all=$rc
  for f in "$S"/verif/replay/"$PID"/fail-*.txt "$S"/verif/replay/"$PID"/unproved-*.txt; do
    [ -f "$f" ] && { echo "--- $(basename $f)"; head -12 "$f" | cut -c1-300; }
  done
done
exit $rc_all
