/-
Lemmas about the model of `CRelationSet` (Ymq/Model/ClassGroup.lean): whatever the history of
`add` calls, the relations emitted so far and the relations still stored in `doubles` are
relations that were added. (The store never combines relations: it only delays them until their
large primes are connected to the spanning tree.)
-/
import Ymq.Model.ClassGroup
import Mathlib.Tactic.Common

namespace Ymq.ClassGroup

/-! ### association lists -/

theorem mem_mapInsert {β} {k : Nat × Nat} {v : β} {l : List ((Nat × Nat) × β)} {e : (Nat × Nat) × β}
    (h : e ∈ mapInsert k v l) : e = (k, v) ∨ e ∈ l := by
  induction l with
  | nil => simp [mapInsert] at h; exact Or.inl h
  | cons x t ih =>
    obtain ⟨k', v'⟩ := x
    simp only [mapInsert] at h
    split at h
    · simp only [List.mem_cons] at h ⊢
      rcases h with h | h
      · exact Or.inl h
      · exact Or.inr (Or.inr h)
    · split at h
      · simp only [List.mem_cons] at h ⊢
        rcases h with h | h | h
        · exact Or.inl h
        · exact Or.inr (Or.inl h)
        · exact Or.inr (Or.inr h)
      · simp only [List.mem_cons] at h ⊢
        rcases h with h | h
        · exact Or.inr (Or.inl h)
        · rcases ih h with h | h
          · exact Or.inl h
          · exact Or.inr (Or.inr h)

theorem mem_mapErase {β} {k : Nat × Nat} {l : List ((Nat × Nat) × β)} {e : (Nat × Nat) × β}
    (h : e ∈ mapErase k l) : e ∈ l := by
  induction l with
  | nil => simp [mapErase] at h
  | cons x t ih =>
    obtain ⟨k', v'⟩ := x
    simp only [mapErase] at h
    split at h
    · exact List.mem_cons_of_mem _ h
    · simp only [List.mem_cons] at h ⊢
      rcases h with h | h
      · exact Or.inl h
      · exact Or.inr (ih h)

theorem mapLookup_mem {β} {k : Nat × Nat} {l : List ((Nat × Nat) × β)} {v : β}
    (h : mapLookup k l = some v) : (k, v) ∈ l := by
  induction l with
  | nil => simp [mapLookup] at h
  | cons x t ih =>
    obtain ⟨k', v'⟩ := x
    simp only [mapLookup] at h
    split at h
    · rename_i hk
      simp only [Option.some.injEq] at h
      subst hk; subst h
      exact List.mem_cons_self
    · exact List.mem_cons_of_mem _ (ih h)

/-! ### the invariant -/

/-- every emitted relation and every stored relation belongs to `I` -/
def StoreInv (I : List Rel) (s : CSet) : Prop :=
  (∀ r ∈ s.emittedRev, r ∈ I) ∧ (∀ e ∈ s.doubles, e.2 ∈ I)

theorem emit_inv {I s r n} (h : StoreInv I s) (hr : r ∈ I) : StoreInv I (emit s r n) := by
  refine ⟨?_, h.2⟩
  intro x hx
  simp only [emit, List.mem_cons] at hx
  rcases hx with hx | hx
  · exact hx ▸ hr
  · exact h.1 x hx

theorem emitPath_inv {I} : ∀ (path : List Nat) (s : CSet), StoreInv I s → StoreInv I (emitPath s path)
  | [], s, h => by simpa [emitPath] using h
  | [_], s, h => by simpa [emitPath] using h
  | p :: q :: t, s, h => by
    rw [emitPath]
    apply emitPath_inv (q :: t)
    split
    · rename_i r hr
      apply emit_inv
      · exact ⟨h.1, fun e he => h.2 e (mem_mapErase he)⟩
      · exact h.2 _ (mapLookup_mem hr)
    · exact h

/-- `update_tree` only touches `paths` and a counter -/
theorem updateTree_frame : ∀ (fuel : Nat) (s : CSet) (p q : Nat) (s' : CSet),
    updateTree fuel s p q = some s' →
    s'.emittedRev = s.emittedRev ∧ s'.doubles = s.doubles ∧ s'.doublesRev = s.doublesRev
  | 0, s, p, q, s', h => by simp [updateTree] at h
  | fuel + 1, s, p, q, s', h => by
    rw [updateTree] at h
    split at h
    · simp only [Option.some.injEq] at h; subst h; exact ⟨rfl, rfl, rfl⟩
    · split at h
      · simp at h
      · rename_i vp hvp
        simp only at h
        split at h
        · simp at h
        · -- fold over the neighbours
          have key : ∀ (l : List Nat) (s0 s1 : CSet),
              List.foldlM (fun st q2 => updateTree fuel st q q2) s0 l = some s1 →
              s1.emittedRev = s0.emittedRev ∧ s1.doubles = s0.doubles ∧ s1.doublesRev = s0.doublesRev := by
            intro l
            induction l with
            | nil => intro s0 s1 h0; simp only [List.foldlM_nil, Option.pure_def, Option.some.injEq] at h0; subst h0; exact ⟨rfl, rfl, rfl⟩
            | cons x t ih =>
              intro s0 s1 h0
              simp only [List.foldlM_cons, Option.bind_eq_bind] at h0
              cases hx : updateTree fuel s0 q x with
              | none => simp [hx] at h0
              | some sx =>
                simp only [hx, Option.bind_some] at h0
                have h1 := updateTree_frame fuel s0 q x sx hx
                have h2 := ih sx s1 h0
                exact ⟨h2.1.trans h1.1, h2.2.1.trans h1.2.1, h2.2.2.trans h1.2.2⟩
          have := key _ _ _ h
          simpa using this

theorem updateTree_inv {I fuel s p q s'} (h : updateTree fuel s p q = some s') (hs : StoreInv I s) :
    StoreInv I s' := by
  obtain ⟨h1, h2, _⟩ := updateTree_frame fuel s p q s' h
  exact ⟨by rw [h1]; exact hs.1, by rw [h2]; exact hs.2⟩

theorem extendTree_inv {I s1 hasp hasq p q s'} (h : extendTree s1 hasp hasq p q = some s')
    (hs : StoreInv I s1) : StoreInv I s' := by
  unfold extendTree at h
  split at h
  · simp at h
  · rename_i s2 hs2
    have hs2' : StoreInv I s2 := by
      split at hs2
      · exact updateTree_inv hs2 hs
      · simp only [Option.some.injEq] at hs2; subst hs2; exact hs
    split at h
    · exact updateTree_inv h hs2'
    · simp only [Option.some.injEq] at h; subst h; exact hs2'

theorem addPathSorted_inv {I s p q r s'} (h : addPathSorted s p q r = some s') (hs : StoreInv I s)
    (hr : r ∈ I) : StoreInv I s' := by
  unfold addPathSorted at h
  split at h
  · simp only [Option.some.injEq] at h
    subst h
    exact emit_inv (emitPath_inv _ _ (emitPath_inv _ _ hs)) hr
  · apply extendTree_inv h
    refine ⟨hs.1, ?_⟩
    intro e he
    rcases mem_mapInsert he with he | he
    · rw [he]; exact hr
    · exact hs.2 e he

theorem addPath_inv {I s p q r s'} (h : addPath s p q r = some s') (hs : StoreInv I s) (hr : r ∈ I) :
    StoreInv I s' := by
  unfold addPath at h
  split at h
  · exact addPathSorted_inv h hs hr
  · exact addPathSorted_inv h hs hr

theorem add_inv {I s r s'} (h : add s r = some s') (hs : StoreInv I s) (hr : r ∈ I) : StoreInv I s' := by
  unfold add at h
  split at h
  · simp only [Option.some.injEq] at h; subst h; exact emit_inv hs hr
  · split at h
    · exact addPath_inv h (by exact ⟨hs.1, hs.2⟩) hr
    · simp only [Option.some.injEq] at h; subst h; exact hs
  · split at h
    · simp at h
    · exact addPath_inv h (by exact ⟨hs.1, hs.2⟩) hr
  · simp only [Option.some.injEq] at h; subst h; exact hs

theorem run_inv {I} : ∀ (rs : List Rel) (s s' : CSet), run s rs = some s' → StoreInv I s →
    (∀ r ∈ rs, r ∈ I) → StoreInv I s'
  | [], s, s', h, hs, _ => by simp only [run, Option.some.injEq] at h; subst h; exact hs
  | r :: rs, s, s', h, hs, hI => by
    rw [run] at h
    split at h
    · simp at h
    · rename_i s1 h1
      exact run_inv rs s1 s' h (add_inv h1 hs (hI r List.mem_cons_self))
        (fun x hx => hI x (List.mem_cons_of_mem _ hx))

end Ymq.ClassGroup
