/-
SIQS (C12): `B ≤ 2·nf·A` along the Gray walk and exactness of the stored `C` on the parameter domain.
-/
import Ymq.Lemmas.PolyWalkB
import Ymq.Lemmas.PolySizes
namespace Ymq.PolySizes
open Ymq.SiqsPoly Ymq.PolyInv Ymq.PolyBits Ymq.PolySiqs Ymq.PolyCrt Ymq.PolyWalkB

set_option exponentiation.threshold 1100

theorem rootPair_hi {a i : Nat} {fp : Prime} {c inv : Nat} {pr : Nat × Nat}
    (h : rootPair a i fp c inv = some pr) : pr.2 ≤ 2 * a := by
  unfold rootPair at h
  split at h
  · cases h
  · dsimp only at h
    split at h
    · split at h
      · cases h
      · injection h with h; subst h; simp only; omega
    · split at h
      · cases h
      · split at h
        · injection h with h; subst h; simp only; omega
        · cases h

theorem rootPairs_hi {f : Factors} {a : Nat} {afs : List (Nat × Prime)} :
    ∀ (l : List (Nat × Prime)) (i : Nat) (prs : List (Nat × Nat)),
      rootPairs f a afs i l = some prs → ∀ pr ∈ prs, pr.2 ≤ 2 * a := by
  intro l
  induction l with
  | nil => intro i prs h; simp [rootPairs] at h; subst h; simp
  | cons x xs ih =>
    intro i prs h
    obtain ⟨idx, fp⟩ := x
    simp only [rootPairs, Option.bind_eq_bind] at h
    cases h1 : crtLoop f idx fp.p afs 1 1 with
    | none => simp [h1] at h
    | some ci =>
      obtain ⟨c, inv⟩ := ci
      simp only [h1, Option.bind_some] at h
      cases h2 : rootPair a i fp c inv with
      | none => simp [h2] at h
      | some pr =>
        simp only [h2, Option.bind_some] at h
        cases h3 : rootPairs f a afs (i + 1) xs with
        | none => simp [h3] at h
        | some tl =>
          simp only [h3, Option.bind_some, Option.some.injEq] at h
          subst h
          intro pr' hmem
          rcases List.mem_cons.mp hmem with rfl | hmem
          · exact rootPair_hi h2
          · exact ih (i + 1) tl h3 _ hmem

theorem bsumZ_le (g : Nat → Bool) (a : Nat) : ∀ (l : List (Int × Int)) (k : Nat),
    (∀ pr ∈ l, 0 ≤ pr.1 ∧ pr.1 ≤ pr.2 ∧ pr.2 ≤ 2 * (a : Int)) →
    0 ≤ bsumZ g k l ∧ bsumZ g k l ≤ 2 * (l.length : Int) * a := by
  intro l
  induction l with
  | nil => intro k _; simp [bsumZ]
  | cons x xs ih =>
    intro k h
    obtain ⟨h1, h2, h3⟩ := h x (List.mem_cons_self)
    obtain ⟨i1, i2⟩ := ih (k + 1) (fun y hy => h y (List.mem_cons_of_mem _ hy))
    simp only [bsumZ, List.length_cons]
    push_cast
    split <;> constructor <;> nlinarith

/-- `B` of every polynomial of the walk is at most `2·nf·A` -/
theorem polyAt_b_le {f : Factors} {a : Nat} {fb : List Prime} {so : Int} {s : Sieve} {pa : APrep}
    (hpa : prepareA f a fb so = some pa) (hne : pa.factors.isEmpty = false) (idx : Nat) (pol : Poly)
    (hpol : polyAt s pa idx = some pol) :
    0 ≤ pol.b ∧ pol.b ≤ 2 * (pa.factors.length : Int) * a := by
  obtain ⟨prs, hprs, _, _, _, hfac, hroots, _, _⟩ := prepareA_some hpa
  obtain ⟨_, hb⟩ := polyAt_b hne idx pol hpol
  obtain ⟨hlen, hle⟩ := rootPairs_le (f := f) (a := a) (afs := afsOf f a) _ _ _ hprs
  have hhi := rootPairs_hi (f := f) (a := a) (afs := afsOf f a) _ _ _ hprs
  have := bsumZ_le (grayBits idx) a pa.roots 0 (by
    intro pr hpr
    rw [hroots] at hpr
    obtain ⟨x, hx, rfl⟩ := List.mem_map.mp hpr
    have h1 := (hle x hx).1
    have h2 := hhi x hx
    simp only
    refine ⟨by positivity, by exact_mod_cast h1, by exact_mod_cast h2⟩)
  rw [hb]
  have hl : pa.roots.length = pa.factors.length := by rw [hroots, hfac]; simp [hlen]
  rw [hl] at this
  exact this

/-- `poly_exact` on the parameter domain: no size hypothesis on `C` -/
theorem poly_exact_dom {n : Int} {f : Factors} {a mm idx : Nat} {fb : List Prime} {pa : APrep} {pol : Poly}
    (hn : f.n = n) (hpa : prepareA f a fb (-((mm : Int) / 2)) = some pa) (hne : pa.factors.isEmpty = false)
    (hpol : polyAt (mkSieve n mm) pa idx = some pol) (d : SizeDom n mm a pa.factors.length) :
    Exact pol a ∧ -(2 ^ 254 : Int) < pol.c ∧ pol.c < 2 ^ 254 := by
  obtain ⟨_, _, _, hpaa, _, _⟩ := prepareA_fam hpa
  obtain ⟨pol0, hfin, ht0, hn0, ha0⟩ := polyAt_finish hne idx pol hpol
  obtain ⟨hbpos, _, hdvd, _, _, hb, _, ht, _, hnn⟩ := finish_some hfin
  obtain ⟨_, hble⟩ := polyAt_b_le hpa hne idx pol hpol
  have hbn : ((pol0.b.toNat * pol0.b.toNat : Nat) : Int) = pol.b * pol.b := by
    rw [hb]; push_cast; rw [Int.toNat_of_nonneg (le_of_lt hbpos)]
  rw [hbn, ht0, hn0, hpaa] at hdvd
  have hC := dom_C_lt d pol.b (hb ▸ hbpos) hble hdvd
  have htt : pol.type2 = isType2 n := ht.trans ht0
  have hnn' : pol.n = n := hnn.trans hn0
  have hex : Exact pol a := by
    rw [← hpaa]
    apply finish_exact hfin ha0
    rw [htt, hnn', hpaa]
    unfold P255
    constructor <;> [skip; skip] <;> (have e : (2 : Int) ^ 254 < 57896044618658097711785492504343953926634992332820282019728792003956564819968 := by norm_num) <;> omega
  refine ⟨hex, ?_⟩
  obtain ⟨_, hc⟩ := hex
  rw [htt, hnn'] at hc
  -- pol.c is the exact quotient
  have hM0 : polyM (isType2 n) a ≠ 0 := by
    have := (target_facts d).choose_spec
    obtain ⟨_, _, _, _, _, _, _, _, _, _, _, _, hA500⟩ := target_facts d
    rw [polyM]; split <;> omega
  have : pol.c = (pol.b * pol.b - n) / polyM (isType2 n) a := by
    rw [← hc, Int.mul_ediv_cancel_left _ hM0]
  rw [this]; exact hC

end Ymq.PolySizes
