/-
Assembly of `relation_genuine` (property C18): what `relationOf` (the model of the relation
construction of `classgroup::sieve_block_poly`) returns, read as a list of prime forms, composes to
the principal form. Inversion of `relationOf`, exponent vectors as lists of primes, the merge loop,
the product found by trial division, the signs emitted by the conversion loop / `Poly::factors` /
the large prime rule, coprimality along the composition chain.
-/
import Ymq.Lemmas.ClassGroupCompose
import Ymq.Lemmas.ClassGroupRel
import Mathlib.Algebra.BigOperators.Group.List.Basic
import Mathlib.Data.List.Perm.Basic

namespace Ymq.ClassGroup

/-- inversion of `relationOf`: what a produced relation is made of -/
theorem relationOf_rel_inv {type1 : Bool} {a b c x : Int} {maxprime maxlarge : Nat} {double : Bool}
    {conductor : List Nat} {fb : List (Nat × Nat)} {facs : List Nat} {afs : List (Nat × Nat)}
    {lp lq : Nat} {r : Rel}
    (h : relationOf type1 a b c x maxprime maxlarge double conductor fb facs afs lp lq = .rel r) :
    ∃ (p q : Nat) (fs qf : List (Nat × Int)),
      0 < (polyEval type1 a b c x).1 ∧
      p * q = (trialDivide facs (polyEval type1 a b c x).1.toNat).2 ∧
      convFactors type1 (polyEval type1 a b c x).2 conductor fb
        (trialDivide facs (polyEval type1 a b c x).1.toNat).1 = .ok fs ∧
      polyFactors type1 b afs = some qf ∧
      r = { factors := mergeQ fs qf,
            large1 := if p > 1 then
              some (p, (if q = p then 2 else 1) * largeSign type1 (polyEval type1 a b c x).2 p) else none,
            large2 := if q > 1 ∧ q ≠ p then some (q, largeSign type1 (polyEval type1 a b c x).2 q) else none } := by
  unfold relationOf at h
  cases hev : polyEval type1 a b c x with
  | mk v bx =>
    rw [hev] at h
    simp only at h ⊢
    split at h
    · simp at h
    · rename_i hv
      cases htd : trialDivide facs v.toNat with
      | mk intfacs cof =>
        rw [htd] at h
        simp only at h ⊢
        split at h
        · simp at h
        · split at h
          · simp at h
          · split at h
            · simp at h
            · rename_i hbad
              split at h
              · simp at h
              · rename_i p q hpq
                split at h
                · simp at h
                · cases hcv : convFactors type1 bx conductor fb intfacs with
                  | panic => rw [hcv] at h; simp at h
                  | reject => rw [hcv] at h; simp at h
                  | ok fs =>
                    rw [hcv] at h
                    simp only at h
                    cases hpf : polyFactors type1 b afs with
                    | none => rw [hpf] at h; simp at h
                    | some qf =>
                      rw [hpf] at h
                      simp only [RelOut.rel.injEq] at h
                      refine ⟨p, q, fs, qf, by omega, ?_, rfl, rfl, h.symm⟩
                      -- p * q = cof
                      by_cases hd : double = true ∧ cof > maxprime * maxprime
                      · rw [if_pos hd] at hpq
                        split at hpq
                        · simp at hpq
                        · simp only [Option.some.injEq, Prod.mk.injEq] at hpq
                          obtain ⟨rfl, rfl⟩ := hpq
                          by_contra hne
                          exact hbad ⟨hd, hne⟩
                      · rw [if_neg hd] at hpq
                        split at hpq
                        · simp at hpq
                        · simp only [Option.some.injEq, Prod.mk.injEq] at hpq
                          obtain ⟨rfl, rfl⟩ := hpq
                          omega


/-! ### exponent vectors as lists of primes with multiplicity -/

/-- the primes of an exponent vector, each repeated `|e|` times -/
def expN (l : List (Nat × Int)) : List Nat := l.flatMap fun pe => List.replicate pe.2.natAbs pe.1

theorem expN_nil : expN [] = [] := rfl
theorem expN_cons (pe : Nat × Int) (l : List (Nat × Int)) :
    expN (pe :: l) = List.replicate pe.2.natAbs pe.1 ++ expN l := by simp [expN]
theorem expN_append (l l' : List (Nat × Int)) : expN (l ++ l') = expN l ++ expN l' := by
  simp [expN]

theorem mem_expN {l : List (Nat × Int)} {q : Nat} (h : q ∈ expN l) : ∃ pe ∈ l, pe.2 ≠ 0 ∧ q = pe.1 := by
  unfold expN at h
  simp only [List.mem_flatMap, List.mem_replicate] at h
  obtain ⟨pe, hpe, h0, rfl⟩ := h
  exact ⟨pe, hpe, by omega, rfl⟩

theorem expN_prod (l : List (Nat × Int)) : (expN l).prod = (l.map fun pe => pe.1 ^ pe.2.natAbs).prod := by
  induction l with
  | nil => rfl
  | cons pe t ih => rw [expN_cons, List.prod_append, List.prod_replicate, ih, List.map_cons, List.prod_cons]

/-- sign discipline: the exponent of `p` is `≥ 0` when `pos p`, `≤ 0` otherwise -/
def SignOk (pos : Nat → Bool) (pe : Nat × Int) : Prop :=
  (pos pe.1 = true → 0 ≤ pe.2) ∧ (pos pe.1 = false → pe.2 ≤ 0)

theorem signOk_add {pos : Nat → Bool} {p : Nat} {x e : Int} (h1 : SignOk pos (p, x))
    (h2 : SignOk pos (p, e)) : (x + e).natAbs = x.natAbs + e.natAbs ∧ SignOk pos (p, x + e) := by
  unfold SignOk at *
  simp only at *
  cases h : pos p
  · have a1 := h1.2 h; have a2 := h2.2 h
    refine ⟨by omega, fun hh => by simp at hh, fun _ => by omega⟩
  · have a1 := h1.1 h; have a2 := h2.1 h
    refine ⟨by omega, fun _ => by omega, fun hh => by simp at hh⟩

theorem upd_expN {pos : Nat → Bool} (f : Nat) (e : Int) (he : SignOk pos (f, e)) :
    ∀ fs : List (Nat × Int), fs.any (fun x => x.1 = f) = true → (∀ pe ∈ fs, SignOk pos pe) →
    (expN (mergeQ.upd f e fs)).Perm (expN fs ++ List.replicate e.natAbs f) ∧
      ∀ pe ∈ mergeQ.upd f e fs, SignOk pos pe
  | [], h, _ => by simp at h
  | (p, x) :: t, h, hs => by
    simp only [mergeQ.upd]
    by_cases hp : p = f
    · subst hp
      rw [if_pos rfl]
      obtain ⟨hn, hok⟩ := signOk_add (hs (p, x) List.mem_cons_self) he
      refine ⟨?_, ?_⟩
      · rw [expN_cons, expN_cons]
        simp only
        rw [hn, List.replicate_add, List.append_assoc, List.append_assoc]
        exact List.Perm.append_left _ List.perm_append_comm
      · intro pe hpe
        rcases List.mem_cons.1 hpe with rfl | hpe
        · exact hok
        · exact hs pe (List.mem_cons_of_mem _ hpe)
    · rw [if_neg hp]
      have h' : t.any (fun x => x.1 = f) = true := by
        simp only [List.any_cons, Bool.or_eq_true, decide_eq_true_eq] at h
        rcases h with h | h
        · exact absurd h hp
        · exact h
      obtain ⟨ih1, ih2⟩ := upd_expN f e he t h' (fun pe hpe => hs pe (List.mem_cons_of_mem _ hpe))
      refine ⟨?_, ?_⟩
      · rw [expN_cons, expN_cons, List.append_assoc]
        exact List.Perm.append_left _ ih1
      · intro pe hpe
        rcases List.mem_cons.1 hpe with rfl | hpe
        · exact hs _ List.mem_cons_self
        · exact ih2 pe hpe

/-- the merge loop of `sieve_block_poly` adds multiplicities when the signs agree -/
theorem mergeQ_expN {pos : Nat → Bool} : ∀ (qf fs : List (Nat × Int)),
    (∀ pe ∈ fs, SignOk pos pe) → (∀ pe ∈ qf, SignOk pos pe) →
    (expN (mergeQ fs qf)).Perm (expN fs ++ expN qf) ∧ ∀ pe ∈ mergeQ fs qf, SignOk pos pe
  | [], fs, hs, _ => by
    simp only [mergeQ, expN_nil, List.append_nil]
    exact ⟨List.Perm.refl _, hs⟩
  | (f, e) :: qs, fs, hs, hq => by
    have he : SignOk pos (f, e) := hq _ List.mem_cons_self
    have hq' : ∀ pe ∈ qs, SignOk pos pe := fun pe hpe => hq pe (List.mem_cons_of_mem _ hpe)
    rw [mergeQ]
    split
    · rename_i hany
      obtain ⟨u1, u2⟩ := upd_expN f e he fs hany hs
      obtain ⟨ih1, ih2⟩ := mergeQ_expN qs (mergeQ.upd f e fs) u2 hq'
      refine ⟨?_, ih2⟩
      rw [expN_cons, ← List.append_assoc]
      exact ih1.trans (List.Perm.append_right _ u1)
    · have hs' : ∀ pe ∈ fs ++ [(f, e)], SignOk pos pe := by
        intro pe hpe
        rcases List.mem_append.1 hpe with h | h
        · exact hs pe h
        · simp only [List.mem_singleton] at h; subst h; exact he
      obtain ⟨ih1, ih2⟩ := mergeQ_expN qs (fs ++ [(f, e)]) hs' hq'
      refine ⟨?_, ih2⟩
      rw [expN_cons, ← List.append_assoc]
      refine ih1.trans ?_
      rw [expN_append, expN_cons, expN_nil, List.append_nil]

/-! ### trial division: the product -/

theorem trialDivide_prod : ∀ (facs : List Nat) (v : Nat),
    v = (trialDivide facs v).2 * ((trialDivide facs v).1.map fun pe => pe.1 ^ pe.2).prod
  | [], v => by simp [trialDivide]
  | p :: ps, v => by
    rw [trialDivide]
    cases hd : divLoop (v.log2 + 1) p v 0 with
    | mk v' e =>
      obtain ⟨_, hv⟩ := divLoop_spec _ _ _ _ _ _ hd
      have ih := trialDivide_prod ps v'
      simp only
      cases hr : trialDivide ps v' with
      | mk fs cof =>
        rw [hr] at ih
        simp only at ih ⊢
        split
        · rw [List.map_cons, List.prod_cons]
          simp only
          rw [hv, ih]
          simp only [Nat.sub_zero]
          ring
        · rename_i he
          have : e = 0 := by omega
          subst this
          rw [hv, ih]
          simp


/-! ### the signs the code emits -/

/-- the sign of the exponent of `p` decided by `sieve_block_poly` from `y = bx`:
bit 1 of `y` for `p = 2`, the comparison of `y mod p` with the normalised root otherwise -/
def posSign (y : Int) (root : Nat → Nat) (p : Nat) : Bool :=
  if p = 2 then !bit1 y else decide (modSigned y p = root p)

theorem modSigned_congr {y y' : Int} {p : Nat} (hp : 0 < p) (h : (p : Int) ∣ y - y') :
    modSigned y p = modSigned y' p := by
  have h1 := modSigned_lt (bx := y) hp
  have h2 := modSigned_lt (bx := y') hp
  obtain ⟨u, hu⟩ := modSigned_dvd y hp
  obtain ⟨w, hw⟩ := modSigned_dvd y' hp
  obtain ⟨t, ht⟩ := h
  have hd : (p : Int) ∣ (modSigned y p : Int) - (modSigned y' p : Int) :=
    ⟨t - u + w, by linear_combination ht - hu + hw⟩
  rcases dvd_small hp hd (by omega) (by omega) with h | h | h <;> omega

/-- what the conversion loop returns: the same primes with `±e`, signs by `posSign` -/
theorem convFactors_spec {D : Int} {type1 : Bool} {bx : Int} {conductor : List Nat}
    {fb : List (Nat × Nat)} {root : Nat → Nat} : ∀ (intfacs : List (Nat × Nat)) (fs : List (Nat × Int)),
    convFactors type1 bx conductor fb intfacs = .ok fs →
    (∀ pe ∈ intfacs, FbOk D type1 conductor fb pe.1 ∧ IsBPlus D pe.1 (root pe.1)) →
    fs.map (fun ps => (ps.1, ps.2.natAbs)) = intfacs ∧ (∀ ps ∈ fs, SignOk (posSign bx root) ps) ∧
      ∀ ps ∈ fs, ps.1 = 2 ∨ ps.1.Prime
  | [], fs, h, _ => by
    simp only [convFactors, Conv.ok.injEq] at h
    subst h
    simp
  | (p, e) :: rest, fs, h, hyp => by
    obtain ⟨hfb, hroot⟩ := hyp (p, e) List.mem_cons_self
    simp only at hfb hroot
    have hyp' : ∀ pe ∈ rest, FbOk D type1 conductor fb pe.1 ∧ IsBPlus D pe.1 (root pe.1) :=
      fun pe hpe => hyp pe (List.mem_cons_of_mem _ hpe)
    rw [convFactors] at h
    by_cases h2 : p = 2
    · rw [if_pos h2] at h
      cases hr : convFactors type1 bx conductor fb rest with
      | panic => rw [hr] at h; simp at h
      | reject => rw [hr] at h; simp at h
      | ok fs' =>
        rw [hr] at h
        simp only [Conv.ok.injEq] at h
        subst h
        obtain ⟨i1, i2, i3⟩ := convFactors_spec rest fs' hr hyp'
        refine ⟨?_, ?_, ?_⟩
        · rw [List.map_cons, i1]
          simp only [h2, List.cons.injEq, Prod.mk.injEq, true_and, and_true]
          split <;> simp
        · intro ps hps
          rcases List.mem_cons.1 hps with rfl | hps
          · unfold SignOk posSign
            simp only [if_true]
            cases bit1 bx <;> simp
          · exact i2 ps hps
        · intro ps hps
          rcases List.mem_cons.1 hps with rfl | hps
          · left; rfl
          · exact i3 ps hps
    · rw [if_neg h2] at h
      by_cases hc : conductor.contains p = true
      · rw [if_pos hc] at h; simp at h
      · rw [if_neg hc] at h
        rcases hfb with hfb | hfb | ⟨hp, r, ref, hl, hbp, hB⟩
        · exact absurd hfb h2
        · exact absurd (List.contains_iff_mem.2 hfb) hc
        · have href : ref = root p := isBPlus_unique hp hB hroot
          simp only [hl, hbp] at h
          cases hs : signedExp p ref bx e with
          | none => rw [hs] at h; simp at h
          | some se =>
            rw [hs] at h
            simp only at h
            cases hr : convFactors type1 bx conductor fb rest with
            | panic => rw [hr] at h; simp at h
            | reject => rw [hr] at h; simp at h
            | ok fs' =>
              rw [hr] at h
              simp only [Conv.ok.injEq] at h
              subst h
              obtain ⟨i1, i2, i3⟩ := convFactors_spec rest fs' hr hyp'
              -- the sign
              have hse : se.natAbs = e ∧ SignOk (posSign bx root) (p, se) := by
                unfold signedExp at hs
                simp only at hs
                unfold SignOk posSign
                simp only [if_neg h2, decide_eq_true_eq, decide_eq_false_iff_not, ← href]
                split at hs
                · rename_i hm
                  simp only [Option.some.injEq] at hs
                  subst hs
                  exact ⟨by simp, fun _ => by omega, fun hh => absurd hm hh⟩
                · rename_i hm
                  split at hs
                  · simp only [Option.some.injEq] at hs
                    subst hs
                    exact ⟨by simp, fun hh => absurd hh hm, fun _ => by omega⟩
                  · simp at hs
              refine ⟨?_, ?_, ?_⟩
              · rw [List.map_cons, i1, hse.1]
              · intro ps hps
                rcases List.mem_cons.1 hps with rfl | hps
                · exact hse.2
                · exact i2 ps hps
              · intro ps hps
                rcases List.mem_cons.1 hps with rfl | hps
                · right; exact hp
                · exact i3 ps hps

/-- what `Poly::factors` returns (`B ≥ 0`): the primes of `A` with `±1`, signs by `posSign` of `y`
(`y ≡ B resp. 2B` modulo every prime of `A`) -/
theorem polyFactors_spec {D : Int} {type1 : Bool} {b y : Int} {root : Nat → Nat} (hb : 0 ≤ b) :
    ∀ (afs : List (Nat × Nat)) (qf : List (Nat × Int)), polyFactors type1 b afs = some qf →
    (∀ pr ∈ afs, pr.1.Prime ∧ pr.1 ≠ 2 ∧ ((pr.1 : Int) ∣ y - (if type1 then 2 * b else b)) ∧
      IsBPlus D pr.1 (root pr.1) ∧ ∃ ref, bPlus pr.1 pr.2 type1 = some ref ∧ IsBPlus D pr.1 ref) →
    expN qf = afs.map Prod.fst ∧ ∀ ps ∈ qf, SignOk (posSign y root) ps
  | [], qf, h, _ => by
    simp only [polyFactors, Option.some.injEq] at h
    subst h
    simp [expN]
  | (p, r) :: fs, qf, h, hyp => by
    obtain ⟨hp, hp2, hdvd, hroot, ref, href, hB⟩ := hyp (p, r) List.mem_cons_self
    simp only at hp hp2 hdvd hroot href hB
    have hrr : ref = root p := isBPlus_unique hp hB hroot
    have hms : modSigned (if type1 then 2 * b else b) p
        = (if type1 then (2 * b.natAbs) % p else b.natAbs % p) := by
      unfold modSigned
      simp only
      rw [if_neg (by split <;> omega)]
      cases type1
      · simp
      · simp only [if_true]
        congr 1
        omega
    have hmy : modSigned y p = (if type1 then (2 * b.natAbs) % p else b.natAbs % p) := by
      rw [← hms]; exact modSigned_congr hp.pos hdvd
    rw [polyFactors] at h
    simp only [if_neg (not_lt.2 hb), href, Option.bind_eq_bind, Option.bind_some] at h
    cases hrest : polyFactors type1 b fs with
    | none => rw [hrest] at h; simp at h
    | some l =>
      rw [hrest] at h
      try simp only [Option.bind_some] at h
      generalize (if type1 = true then (2 * b.natAbs) % p else b.natAbs % p) = m at h hmy
      obtain ⟨i1, i2⟩ := polyFactors_spec hb fs l hrest (fun pr hpr => hyp pr (List.mem_cons_of_mem _ hpr))
      split at h
      · rename_i hc
        simp only [Option.some.injEq] at h
        subst h
        refine ⟨by rw [expN_cons, i1]; simp, ?_⟩
        intro ps hps
        rcases List.mem_cons.1 hps with rfl | hps
        · unfold SignOk posSign
          simp only [if_neg hp2, decide_eq_true_eq, decide_eq_false_iff_not, hmy, ← hrr]
          exact ⟨fun _ => by omega, fun hh => absurd hc hh⟩
        · exact i2 ps hps
      · rename_i hc
        split at h
        · simp only [Option.some.injEq] at h
          subst h
          refine ⟨by rw [expN_cons, i1]; simp, ?_⟩
          intro ps hps
          rcases List.mem_cons.1 hps with rfl | hps
          · unfold SignOk posSign
            simp only [if_neg hp2, decide_eq_true_eq, decide_eq_false_iff_not, hmy, ← hrr]
            exact ⟨fun hh => absurd hh hc, fun _ => by omega⟩
          · exact i2 ps hps
        · simp at h


/-! ### coprimality along the chain -/

theorem chainCoprime_of_primes {b : Int} : ∀ (qs : List Nat), (∀ q ∈ qs, q.Prime) →
    (∀ p : Nat, p.Prime → (p : Int) ∣ b → ¬ (p * p ∣ qs.prod)) →
    ChainCoprime b (qs.map fun q : Nat => (q : Int))
  | [], _, _ => trivial
  | q :: rest, hpr, hsq => by
    have hq : q.Prime := hpr q List.mem_cons_self
    refine ⟨?_, chainCoprime_of_primes rest (fun x hx => hpr x (List.mem_cons_of_mem _ hx)) ?_⟩
    · unfold gcd3
      rw [← Nat.cast_list_prod, Int.natAbs_natCast, Int.natAbs_natCast]
      by_contra hne
      have hg : Nat.gcd (Nat.gcd q rest.prod) b.natAbs ∣ q :=
        (Nat.gcd_dvd_left _ _).trans (Nat.gcd_dvd_left _ _)
      rcases (Nat.dvd_prime hq).1 hg with h1 | h1
      · exact hne h1
      · have d1 : q ∣ rest.prod := by
          have := (Nat.gcd_dvd_left (Nat.gcd q rest.prod) b.natAbs).trans (Nat.gcd_dvd_right q rest.prod)
          rwa [h1] at this
        have d2 : q ∣ b.natAbs := by
          have := Nat.gcd_dvd_right (Nat.gcd q rest.prod) b.natAbs
          rwa [h1] at this
        refine hsq q hq (Int.natCast_dvd.2 d2) ?_
        rw [List.prod_cons]
        exact Nat.mul_dvd_mul_left q d1
    · intro p hp hpb hdv
      refine hsq p hp hpb ?_
      rw [List.prod_cons]
      exact Dvd.dvd.mul_left hdv q

/-! ### the prime forms of a relation -/

/-- the normalised root of `p` for the discriminant `D` (unique for a prime `p`: `isBPlus_unique`);
`0` when there is none -/
noncomputable def theRoot (D : Int) (p : Nat) : Nat :=
  open Classical in if h : ∃ b, IsBPlus D p b then Classical.choose h else 0

theorem theRoot_spec {D : Int} {p : Nat} (h : ∃ b, IsBPlus D p b) : IsBPlus D p (theRoot D p) := by
  unfold theRoot
  rw [dif_pos h]
  exact Classical.choose_spec h

theorem theRoot_eq {D : Int} {p b : Nat} (hp : p.Prime) (h : IsBPlus D p b) : theRoot D p = b :=
  isBPlus_unique hp (theRoot_spec ⟨b, h⟩) h

/-- the prime form `[p]` for a nonnegative exponent, its conjugate `[p]⁻¹` for a negative one -/
def signedForm (D : Int) (root : Nat → Nat) (pe : Nat × Int) : Form :=
  if pe.2 < 0 then (primeForm D pe.1 (root pe.1)).conj else primeForm D pe.1 (root pe.1)

/-- an exponent vector as a list of forms: `|e|` copies of `[p]` resp. `[p]⁻¹` -/
def expand (D : Int) (root : Nat → Nat) (l : List (Nat × Int)) : List Form :=
  l.flatMap fun pe => List.replicate pe.2.natAbs (signedForm D root pe)

/-- all the entries of a relation -/
def Rel.entries (r : Rel) : List (Nat × Int) := r.factors ++ (r.large1.toList ++ r.large2.toList)

/-- the form attached to a prime by the sign rule -/
def signForm (D : Int) (root : Nat → Nat) (pos : Nat → Bool) (p : Nat) : Form :=
  if pos p then primeForm D p (root p) else (primeForm D p (root p)).conj

theorem expand_eq {D : Int} {root : Nat → Nat} {pos : Nat → Bool} : ∀ l : List (Nat × Int),
    (∀ pe ∈ l, SignOk pos pe) → expand D root l = (expN l).map (signForm D root pos)
  | [], _ => rfl
  | pe :: t, h => by
    have ih := expand_eq (D := D) (root := root) t (fun x hx => h x (List.mem_cons_of_mem _ hx))
    unfold expand at ih ⊢
    rw [List.flatMap_cons, ih, expN_cons, List.map_append, List.map_replicate]
    congr 1
    obtain ⟨h1, h2⟩ := h pe List.mem_cons_self
    by_cases h0 : pe.2 = 0
    · simp [h0]
    · congr 1
      unfold signedForm signForm
      cases hp : pos pe.1
      · have := h2 hp
        rw [if_pos (by omega)]; simp
      · have := h1 hp
        rw [if_neg (by omega)]; simp

theorem forall₂_map_of_forall {α β : Type} {R : β → β → Prop} (f g : α → β) : ∀ l : List α,
    (∀ x ∈ l, R (f x) (g x)) → List.Forall₂ R (l.map f) (l.map g)
  | [], _ => .nil
  | x :: t, h => .cons (h x List.mem_cons_self)
      (forall₂_map_of_forall f g t fun y hy => h y (List.mem_cons_of_mem _ hy))

theorem mem_expN_of_mem {l : List (Nat × Int)} {pe : Nat × Int} (h : pe ∈ l) (h0 : pe.2 ≠ 0) :
    pe.1 ∈ expN l := by
  unfold expN
  simp only [List.mem_flatMap, List.mem_replicate]
  exact ⟨pe, h, by omega, rfl⟩

theorem polyDisc_mod4 (type1 : Bool) (a b c : Int) :
    polyDisc type1 a b c % 4 = 0 ∨ polyDisc type1 a b c % 4 = 1 := by
  unfold polyDisc
  cases type1
  · simp only [Bool.false_eq_true, if_false]
    rcases Int.emod_two_eq_zero_or_one b with h | h
    · obtain ⟨k, hk⟩ : ∃ k, b = 2 * k := ⟨b / 2, by omega⟩
      left
      have : b * b - 4 * a * c = 4 * (k * k - a * c) := by rw [hk]; ring
      omega
    · obtain ⟨k, hk⟩ : ∃ k, b = 2 * k + 1 := ⟨b / 2, by omega⟩
      right
      have : b * b - 4 * a * c = 4 * (k * k + k - a * c) + 1 := by rw [hk]; ring
      omega
  · simp only [if_true]; left; omega

theorem largeSign_abs (type1 : Bool) (y : Int) (p : Nat) :
    largeSign type1 y p = 1 ∨ largeSign type1 y p = -1 := by
  unfold largeSign; simp only; split <;> split <;> simp

/-- the large prime entries of a relation: product, signs, members -/
theorem large_spec {D : Int} {type1 : Bool} {y : Int} {root : Nat → Nat} {p q : Nat}
    (hp0 : 0 < p) (hq0 : 0 < q) (hty : type1 = true ↔ (2 : Int) ∣ D)
    (hpr : ∀ n, (n = p ∨ n = q) → n > 1 →
      n.Prime ∧ n ≠ 2 ∧ IsBPlus D n (root n) ∧ (n : Int) ∣ y * y - D) :
    let L := (if p > 1 then some (p, (if q = p then 2 else 1) * largeSign type1 y p) else none).toList
      ++ (if q > 1 ∧ q ≠ p then some (q, largeSign type1 y q) else none).toList
    (expN L).prod = p * q ∧ (∀ pe ∈ L, SignOk (posSign y root) pe) ∧
      ∀ pe ∈ L, (pe.1 = p ∨ pe.1 = q) ∧ pe.1 > 1 := by
  -- sign of one entry
  have hsign : ∀ n (k : Int), (n = p ∨ n = q) → n > 1 → 0 ≤ k →
      SignOk (posSign y root) (n, k * largeSign type1 y n) := by
    intro n k hn h1 hk
    obtain ⟨hprime, hn2, hroot, hdvd⟩ := hpr n hn h1
    have hodd : n % 2 = 1 := by
      rcases hprime.eq_two_or_odd with h | h
      · exact absurd h hn2
      · exact h
    have hiff := largeSign_iff (type1 := type1) hprime hodd hroot hdvd hty
    unfold SignOk posSign
    simp only [if_neg hn2, decide_eq_true_eq, decide_eq_false_iff_not]
    rcases largeSign_abs type1 y n with h | h
    · rw [h]; exact ⟨fun _ => by omega, fun hh => absurd (hiff.1 h) hh⟩
    · rw [h]
      refine ⟨fun hh => ?_, fun _ => by omega⟩
      have := hiff.2 hh
      omega
  intro L
  by_cases hp1 : p > 1
  · by_cases hqp : q = p
    · subst hqp
      have hL : L = [(q, 2 * largeSign type1 y q)] := by simp [L, hp1]
      rw [hL]
      refine ⟨?_, ?_, ?_⟩
      · rw [expN_cons, expN_nil]
        rcases largeSign_abs type1 y q with h | h <;> rw [h] <;> simp
      · intro pe hpe; simp only [List.mem_singleton] at hpe; subst hpe
        exact hsign q 2 (Or.inl rfl) hp1 (by omega)
      · intro pe hpe; simp only [List.mem_singleton] at hpe; subst hpe
        exact ⟨Or.inl rfl, hp1⟩
    · by_cases hq1 : q > 1
      · have hL : L = [(p, 1 * largeSign type1 y p), (q, 1 * largeSign type1 y q)] := by
          simp [L, hp1, hqp, hq1]
        rw [hL]
        refine ⟨?_, ?_, ?_⟩
        · rw [expN_cons, expN_cons, expN_nil]
          rcases largeSign_abs type1 y p with h | h <;> rcases largeSign_abs type1 y q with h' | h' <;>
            rw [h, h'] <;> simp
        · intro pe hpe
          simp only [List.mem_cons, List.not_mem_nil, or_false] at hpe
          rcases hpe with rfl | rfl
          · exact hsign p 1 (Or.inl rfl) hp1 (by omega)
          · exact hsign q 1 (Or.inr rfl) hq1 (by omega)
        · intro pe hpe
          simp only [List.mem_cons, List.not_mem_nil, or_false] at hpe
          rcases hpe with rfl | rfl
          · exact ⟨Or.inl rfl, hp1⟩
          · exact ⟨Or.inr rfl, hq1⟩
      · have hq : q = 1 := by omega
        subst hq
        have hL : L = [(p, 1 * largeSign type1 y p)] := by simp [L, hp1, hqp]
        rw [hL]
        refine ⟨?_, ?_, ?_⟩
        · rw [expN_cons, expN_nil]
          rcases largeSign_abs type1 y p with h | h <;> rw [h] <;> simp
        · intro pe hpe; simp only [List.mem_singleton] at hpe; subst hpe
          exact hsign p 1 (Or.inl rfl) hp1 (by omega)
        · intro pe hpe; simp only [List.mem_singleton] at hpe; subst hpe
          exact ⟨Or.inl rfl, hp1⟩
  · have hp : p = 1 := by omega
    subst hp
    by_cases hq1 : q > 1
    · have hL : L = [(q, largeSign type1 y q)] := by
        have : q ≠ 1 := by omega
        simp [L, hq1, this]
      rw [hL]
      refine ⟨?_, ?_, ?_⟩
      · rw [expN_cons, expN_nil]
        rcases largeSign_abs type1 y q with h | h <;> rw [h] <;> simp
      · intro pe hpe; simp only [List.mem_singleton] at hpe; subst hpe
        have := hsign q 1 (Or.inr rfl) hq1 (by omega)
        simpa using this
      · intro pe hpe; simp only [List.mem_singleton] at hpe; subst hpe
        exact ⟨Or.inr rfl, hq1⟩
    · have hq : q = 1 := by omega
      subst hq
      have hL : L = [] := by simp [L]
      rw [hL]
      simp [expN]

/-! ### assembly -/

/-- every prime `n` (with `4n ∣ y² - D`) gives the form `(n, y, ·) ~ [n]^{±1}` by the sign rule -/
theorem pequiv_signForm {D : Int} {y : Int} {n : Nat} (hn : n.Prime)
    (hdv : (4 * (n : Int)) ∣ y * y - D) :
    PEquiv (formQB D n y) (signForm D (theRoot D) (posSign y (theRoot D)) n) := by
  have hroot : IsBPlus D n (theRoot D n) := theRoot_spec (exists_isBPlus hn.pos hdv)
  unfold signForm posSign
  by_cases h2 : n = 2
  · subst h2
    simp only [if_true]
    have := primeForm_of_bit1 hroot hdv
    cases hb : bit1 y
    · simpa using this.1 hb
    · simpa using this.2 hb
  · have hodd : n % 2 = 1 := by
      rcases hn.eq_two_or_odd with h | h
      · exact absurd h h2
      · exact h
    simp only [if_neg h2]
    have := primeForm_of_modSigned hn hodd hroot hdv
    by_cases hm : modSigned y n = theRoot D n
    · simpa [hm] using this.1 hm
    · simpa [hm] using this.2 hm

theorem relationOf_genuine (D : Int) (type1 : Bool) (a b c x : Int) (maxprime maxlarge : Nat)
    (double : Bool) (conductor : List Nat) (fb : List (Nat × Nat)) (facs : List Nat)
    (afs : List (Nat × Nat)) (lp lq : Nat) (r : Rel)
    (hb : 0 ≤ b) (hdisc : polyDisc type1 a b c = D) (hty : type1 = true ↔ (2 : Int) ∣ D)
    (hfacs : ∀ p ∈ facs, FbOk D type1 conductor fb p)
    (hafs : ∀ pr ∈ afs, pr.1.Prime ∧ pr.1 ≠ 2 ∧
      ∃ ref, bPlus pr.1 pr.2 type1 = some ref ∧ IsBPlus D pr.1 ref)
    (haprod : a = ((afs.map Prod.fst).prod : Nat))
    (hrel : relationOf type1 a b c x maxprime maxlarge double conductor fb facs afs lp lq = .rel r)
    (hlarge : ∀ pe, (r.large1 = some pe ∨ r.large2 = some pe) → pe.1.Prime ∧ pe.1 ≠ 2)
    (hprim : ∀ p : Nat, p.Prime → (p : Int) ∣ (polyEval type1 a b c x).2 →
      ¬ ((p : Int) * p ∣ a * (polyEval type1 a b c x).1)) :
    (∀ pe ∈ r.entries, pe.2 ≠ 0 → pe.1.Prime ∧ IsBPlus D pe.1 (theRoot D pe.1)) ∧
    ∃ L, L.Perm (expand D (theRoot D) r.entries) ∧ IsProduct D L (principal D) := by
  obtain ⟨p, q, fs, qf, hv, hpq, hcv, hpf, hr⟩ := relationOf_rel_inv hrel
  have hid := polyEval_disc type1 a b c x
  rw [hdisc] at hid
  have hD4 := polyDisc_mod4 type1 a b c
  rw [hdisc] at hD4
  -- y ≡ B resp. 2B modulo A
  have hyB : (a : Int) ∣ (polyEval type1 a b c x).2 - (if type1 then 2 * b else b) := by
    unfold polyEval
    cases type1
    · simp only [Bool.false_eq_true, if_false]; exact ⟨2 * x, by ring⟩
    · simp only [if_true]; exact ⟨2 * x, by ring⟩
  generalize (polyEval type1 a b c x).1 = v at *
  generalize (polyEval type1 a b c x).2 = y at *
  have tds := trialDivide_spec facs v.toNat
  have tdp := trialDivide_prod facs v.toNat
  generalize trialDivide facs v.toNat = td at *
  obtain ⟨intfacs, cof⟩ := td
  simp only at tds tdp hpq hcv
  have hvn : ((v.toNat : Nat) : Int) = v := Int.toNat_of_nonneg (le_of_lt hv)
  have hvpos : 0 < v.toNat := by omega
  set root := theRoot D with hrootdef
  -- every positive divisor of `a v` has a normalised root
  have hK : ∀ n : Nat, 0 < n → (n : Int) ∣ a * v → (4 * (n : Int)) ∣ y * y - D := by
    intro n _ hn
    have : y * y - D = 4 * (a * v) := by linear_combination hid
    rw [this]
    exact mul_dvd_mul_left 4 hn
  have hcof : 0 < p * q := by
    rw [hpq]
    rcases Nat.eq_zero_or_pos cof with h | h
    · rw [h] at tdp; omega
    · exact h
  have hp0 : 0 < p := Nat.pos_of_ne_zero (fun h => by rw [h] at hcof; omega)
  have hq0 : 0 < q := Nat.pos_of_ne_zero (fun h => by rw [h] at hcof; omega)
  have hcofv : ((p * q : Nat) : Int) ∣ v := by
    rw [← hvn, hpq]; exact Int.natCast_dvd_natCast.2 tds.2
  -- the conversion loop
  obtain ⟨c1, c2, c3⟩ := convFactors_spec (D := D) (root := root) intfacs fs hcv (by
    intro pe hpe
    obtain ⟨h1, h2⟩ := tds.1 pe hpe
    refine ⟨hfacs _ h1, ?_⟩
    have hpos : 0 < pe.1 := Nat.pos_of_dvd_of_pos h2 hvpos
    have hdv : (pe.1 : Int) ∣ a * v := by
      rw [← hvn]; exact Dvd.dvd.mul_left (Int.natCast_dvd_natCast.2 h2) _
    exact theRoot_spec (exists_isBPlus hpos (hK _ hpos hdv)))
  -- Poly::factors
  have hadv : ∀ pr ∈ afs, (pr.1 : Int) ∣ a := by
    intro pr hpr
    rw [haprod]
    exact Int.natCast_dvd_natCast.2 (List.dvd_prod (List.mem_map_of_mem hpr))
  obtain ⟨f1, f2⟩ := polyFactors_spec (D := D) (y := y) (root := root) hb afs qf hpf (by
    intro pr hpr
    obtain ⟨h1, h2, h3⟩ := hafs pr hpr
    have hda := hadv pr hpr
    refine ⟨h1, h2, Dvd.dvd.trans hda hyB, ?_, h3⟩
    exact theRoot_spec (exists_isBPlus h1.pos (hK _ h1.pos (Dvd.dvd.mul_right hda _))))
  -- large primes
  have hlg : ∀ n, (n = p ∨ n = q) → n > 1 →
      n.Prime ∧ n ≠ 2 ∧ IsBPlus D n (root n) ∧ (n : Int) ∣ y * y - D := by
    intro n hn h1
    have hpr : n.Prime ∧ n ≠ 2 := by
      rcases hn with rfl | rfl
      · exact hlarge _ (Or.inl (by rw [hr]; simp only; rw [if_pos h1]))
      · by_cases hqp : n = p
        · subst hqp
          exact hlarge _ (Or.inl (by rw [hr]; simp only; rw [if_pos h1]))
        · exact hlarge _ (Or.inr (by rw [hr]; simp only; rw [if_pos ⟨h1, hqp⟩]))
    have hdv : (n : Int) ∣ a * v := by
      refine Dvd.dvd.mul_left (Dvd.dvd.trans ?_ hcofv) _
      rcases hn with rfl | rfl
      · exact Int.natCast_dvd_natCast.2 (Dvd.intro _ rfl)
      · exact Int.natCast_dvd_natCast.2 (Dvd.intro_left _ rfl)
    have h4 := hK n (by omega) hdv
    exact ⟨hpr.1, hpr.2, theRoot_spec (exists_isBPlus (by omega) h4),
      Dvd.dvd.trans (Dvd.intro_left 4 rfl) h4⟩
  obtain ⟨g1, g2, g3⟩ := large_spec (D := D) (type1 := type1) (y := y) (root := root) hp0 hq0 hty hlg
  generalize hLL : ((if p > 1 then some (p, (if q = p then 2 else 1) * largeSign type1 y p) else none).toList
      ++ (if q > 1 ∧ q ≠ p then some (q, largeSign type1 y q) else none).toList) = LL at g1 g2 g3
  have hentries : r.entries = mergeQ fs qf ++ LL := by
    rw [hr, ← hLL]; rfl
  -- the merge
  obtain ⟨m1, m2⟩ := mergeQ_expN (pos := posSign y root) qf fs c2 f2
  -- the chain of primes
  set qsN : List Nat := expN fs ++ expN qf ++ expN LL with hqs
  have hperm : (expN r.entries).Perm qsN := by
    rw [hentries, expN_append]
    exact List.Perm.append_right _ m1
  have hprod : ((qsN.prod : Nat) : Int) = a * v := by
    rw [hqs, List.prod_append, List.prod_append, g1, f1, expN_prod]
    have : (fs.map fun pe => pe.1 ^ pe.2.natAbs) = intfacs.map fun pe => pe.1 ^ pe.2 := by
      rw [← c1, List.map_map]; rfl
    rw [this, ← hvn, haprod, tdp, ← hpq]
    push_cast; ring
  have hprime : ∀ n ∈ qsN, n.Prime := by
    intro n hn
    rw [hqs, List.mem_append, List.mem_append] at hn
    rcases hn with (hn | hn) | hn
    · obtain ⟨pe, hpe, _, rfl⟩ := mem_expN hn
      rcases c3 pe hpe with h | h
      · rw [h]; exact Nat.prime_two
      · exact h
    · rw [f1] at hn
      obtain ⟨pr, hpr, rfl⟩ := List.mem_map.1 hn
      exact (hafs pr hpr).1
    · obtain ⟨pe, hpe, _, rfl⟩ := mem_expN hn
      obtain ⟨h1, h2⟩ := g3 pe hpe
      exact (hlg _ h1 h2).1
  have hdvd : ∀ n ∈ qsN, (4 * (n : Int)) ∣ y * y - D := by
    intro n hn
    refine hK n (hprime n hn).pos ?_
    rw [← hprod]
    exact Int.natCast_dvd_natCast.2 (List.dvd_prod hn)
  -- first part
  refine ⟨?_, ?_⟩
  · intro pe hpe h0
    have hm : pe.1 ∈ qsN := hperm.subset (mem_expN_of_mem hpe h0)
    exact ⟨hprime _ hm, theRoot_spec (exists_isBPlus (hprime _ hm).pos (hdvd _ hm))⟩
  -- the product
  have hchain := dirichlet_chain (D := D) (b := y) hD4 (qsN.map fun n : Nat => (n : Int)) 1
    (by
      intro z hz
      obtain ⟨n, hn, rfl⟩ := List.mem_map.1 hz
      have := (hprime n hn).pos
      omega)
    (chainCoprime_of_primes qsN hprime (by
      intro p' hp' hpy hsq
      apply hprim p' hp' hpy
      rw [← hprod]
      exact_mod_cast Int.natCast_dvd_natCast.2 hsq))
    (by rw [← Nat.cast_list_prod, hprod]; linear_combination hid)
  rw [← Nat.cast_list_prod, hprod, List.map_map] at hchain
  have hprinc : PEquiv (⟨a * v, y, 1⟩ : Form) (principal D) :=
    (pequiv_swap (a * v) y 1).trans
      (pequiv_principal (b := -y) (c := a * v) hD4 (by linear_combination hid)).symm
  have hfin := (IsProduct.equiv hchain hprinc).congr (qsN.map (signForm D root (posSign y root)))
    (forall₂_map_of_forall _ _ qsN (fun n hn => pequiv_signForm (hprime n hn) (hdvd n hn)))
  refine ⟨_, ?_, hfin⟩
  rw [expand_eq (pos := posSign y root) r.entries (by
    intro pe hpe
    rw [hentries] at hpe
    rcases List.mem_append.1 hpe with h | h
    · exact m2 pe h
    · exact g2 pe h)]
  exact (hperm.map _).symm

end Ymq.ClassGroup
