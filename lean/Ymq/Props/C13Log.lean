/-
C13, log accumulation and threshold part of `src/sieve.rs` (model: Ymq/Model/SieveLog.lean, one model per
build profile: `dbg = true` checked, `dbg = false` release; lemmas: Ymq/Lemmas/SieveLog.lean).

`allHits fb s` is the list of ALL `blk[off] += log` sites of `sieve_block` in the order of the code (state `s`
after `Sieve.sieveBlock`), `hitSum hits x` the total added at position `x`, `byteAt blk x` the byte.
-/
import Ymq.Lemmas.SieveLog
import Ymq.Lemmas.SieveLogSum

namespace Ymq.C13
open Ymq.Sieve Ymq.SieveLog

/-- `accumulator_spec_partial`. Whenever the model of `sieve_block` returns the byte array: every `+=` site
addresses a byte of the block, and byte `x` is the sum of the logs added at `x` by the sites of the code —
exactly in the checked profile (no wrap happened), modulo 256 in release. Per prime, the sites add
`bitlen p` exactly once at every position congruent to one of its (one or two, different) cursors and nowhere
else (`pairHits_sum`: classes ≤ 12, unrolled loop + tails; `singleHits_sum`: classes 13..15), so with the
cursor invariant (`cursor_inv`) a prime contributes its bit length exactly at the positions where it has a root.
PARTIAL: not proved is the bookkeeping that the class loops (index ranges from `idx_by_log`) visit every
non-skipped cursor exactly once and that the bucket entries read back are the registered hits; the closed form
`blk[x] = Σ bitlen p over the non-skipped primes with a root at x` is what the independent oracle checks on the
code for every block of every `svb` case. -/
theorem accumulator_spec_partial (dbg : Bool) (fb : FB) (s : State) (blk : Array Nat)
    (h : blkOf dbg fb s = some blk) :
    ∃ hits, allHits fb s = some hits ∧ blk.size = 32768 ∧ (∀ g ∈ hits, g.1 < 32768) ∧
      (∀ x, byteAt blk x % 256 = hitSum hits x % 256) ∧ (dbg = true → ∀ x, byteAt blk x = hitSum hits x) ∧
      -- what the sites of one prime add up to (p ≤ 4096: classes ≤ 12; p ≤ 32768: classes 13..15)
      (∀ p c1 c2 lg x l, 0 < p → p ≤ 4096 → c1 < p → ((c2 < p ∧ c2 ≠ c1) ∨ c2 = NONE) → x < 32768 →
        pairHits p c1 c2 = some l →
        hitSum (l.map fun y => (y, lg)) x =
          (if x % p = c1 then lg else 0) + (if c2 ≠ NONE ∧ x % p = c2 then lg else 0)) ∧
      (∀ p c lg x l, 0 < p → c < p → c ≠ NONE → x < 32768 → singleHits p c = some l →
        hitSum (l.map fun y => (y, lg)) x = if x % p = c then lg else 0) := by
  unfold blkOf at h
  simp only [Option.bind_eq_bind, Option.bind_eq_some_iff] at h
  obtain ⟨hits, hh, hacc⟩ := h
  obtain ⟨hsz, hin, hm, hd⟩ := accumulate_spec dbg hits _ _ hacc
  have h0 : ∀ x, byteAt (Array.replicate BLOCK 0) x = 0 := by
    intro x; unfold byteAt; rw [Array.getElem?_replicate]; split <;> rfl
  refine ⟨hits, hh, by simpa [BLOCK] using hsz, fun g hg => by simpa [BLOCK] using hin g hg, ?_, ?_, ?_, ?_⟩
  · intro x; rw [hm x, h0 x, Nat.zero_add]
  · intro hdb x; rw [hd hdb x, h0 x, Nat.zero_add]
  · intro p c1 c2 lg x l hp hp4 h1 h2 hx hl
    exact pairHits_sum hp hp4 h1 h2 (by simpa [BLOCK] using hx) hl
  · intro p c lg x l hp hc hcn hx hl
    exact singleHits_sum hp hc hcn (by simpa [BLOCK] using hx) hl

/-- `accumulator_overflow_iff` — the recorded finding `sieve-u8-log-accumulator-overflow` as a theorem about the
model: the checked model of `sieve_block` panics in the accumulation exactly when the logs added at some
position of the block sum to 256 or more; the release model never does (it wraps). -/
theorem accumulator_overflow_iff (fb : FB) (s : State) (hits : List (Nat × Nat)) (hh : allHits fb s = some hits)
    (hin : ∀ g ∈ hits, g.1 < 32768) :
    (blkOf true fb s = none ↔ ∃ x, x < 32768 ∧ 256 ≤ hitSum hits x) ∧ (∃ blk, blkOf false fb s = some blk) := by
  have h0 : ∀ x, byteAt (Array.replicate BLOCK 0) x = 0 := by
    intro x; unfold byteAt; rw [Array.getElem?_replicate]; split <;> rfl
  constructor
  · unfold blkOf
    simp only [hh, Option.bind_eq_bind, Option.bind_some]
    rw [accumulate_none_iff hits _ (fun g hg => by simpa [BLOCK] using hin g hg) (fun x => by rw [h0 x]; omega)]
    constructor
    · rintro ⟨x, hx, hs⟩
      rw [h0 x, Nat.zero_add] at hs
      exact ⟨x, by simpa [BLOCK] using hx, hs⟩
    · rintro ⟨x, hx, hs⟩
      exact ⟨x, by simpa [BLOCK] using hx, by rw [h0 x, Nat.zero_add]; exact hs⟩
  · unfold blkOf
    simp only [hh, Option.bind_eq_bind, Option.bind_some]
    -- release: every step returns
    have : ∀ (l : List (Nat × Nat)) (b : Array Nat), (∀ g ∈ l, g.1 < b.size) → ∃ b', accumulate false b l = some b' := by
      intro l
      induction l with
      | nil => intro b _; exact ⟨b, rfl⟩
      | cons g t ih =>
        intro b hb
        have hi := hb g List.mem_cons_self
        have hv : b[g.1]? = some b[g.1] := Array.getElem?_eq_getElem hi
        obtain ⟨v', hv'⟩ : ∃ v', addU8 false b[g.1] g.2 = some v' := by
          unfold addU8
          by_cases hge : b[g.1] + g.2 ≥ 256
          · exact ⟨(b[g.1] + g.2) % 256, by simp [hge]⟩
          · exact ⟨b[g.1] + g.2, by simp [hge]⟩
        obtain ⟨b', hb'⟩ := ih (b.setIfInBounds g.1 v') (fun q hq => by
          simpa using hb q (List.mem_cons_of_mem _ hq))
        exact ⟨b', by simp [accumulate, List.foldlM_cons, bind, hitStep, hv, hv']; exact hb'⟩
    exact this hits _ (fun g hg => by simpa [BLOCK] using hin g hg)

/-- `accumulator_no_overflow_partial`. If at every position the logs added are bounded by the bit lengths of
distinct primes dividing a value `v ≠ 0` with `bitlen v + #primes ≤ 256` (the hypothesis of `log_sum_bound`: with
true roots the primes hitting `x` divide the polynomial value there), no `+=` site of `sieve_block` overflows:
the checked model returns, and the release model returns the same bytes (no wrap).
PARTIAL: the link `hitSum hits x ≤ Σ bitlen p` over the primes with a root at `x` is a hypothesis (see
`accumulator_spec_partial`: each prime's sites add its bit length once per position). -/
theorem accumulator_no_overflow_partial (fb : FB) (s : State) (hits : List (Nat × Nat))
    (hh : allHits fb s = some hits) (hin : ∀ g ∈ hits, g.1 < 32768)
    (hdiv : ∀ x, x < 32768 → ∃ (ps : Finset ℕ) (v : ℕ), (∀ p ∈ ps, p.Prime) ∧ v ≠ 0 ∧ (∀ p ∈ ps, p ∣ v) ∧
      bitlen v + ps.card ≤ 256 ∧ hitSum hits x ≤ ∑ p ∈ ps, bitlen p) :
    ∃ blk, blkOf true fb s = some blk ∧ blkOf false fb s = some blk ∧ ∀ x, byteAt blk x = hitSum hits x := by
  have h0 : ∀ x, byteAt (Array.replicate BLOCK 0) x = 0 := by
    intro x; unfold byteAt; rw [Array.getElem?_replicate]; split <;> rfl
  have hsum : ∀ x, x < (Array.replicate BLOCK 0).size → byteAt (Array.replicate BLOCK 0) x + hitSum hits x < 256 := by
    intro x hx
    obtain ⟨ps, v, hp, hv, hd, hb, hle⟩ := hdiv x (by simpa [BLOCK] using hx)
    have := log_sum_lt ps hp v hv hd
    rw [h0 x]; omega
  obtain ⟨blk, e1, e2⟩ := accumulate_total false hits _ (fun g hg => by simpa [BLOCK] using hin g hg) hsum
  refine ⟨blk, by simp [blkOf, hh, e2], by simp [blkOf, hh, e1], ?_⟩
  intro x
  have := (accumulate_spec true hits _ _ e2).2.2.2 rfl x
  rw [this, h0 x, Nat.zero_add]

/-- `smooths_threshold_spec`. For a threshold ≥ 1, whenever the scan of `smooths` returns: with
`threshold2 = threshold − min(skipbits (+15 with a root hint), threshold/2) ≥ 1`, position `x` is reported exactly
when `x < 32768`, its byte exceeds `threshold2` (strictly: the 16-byte chunk test `> threshold2 − 1` and the
per-byte test `t <= threshold2 → continue`), and the corrected value — the byte plus the logs of the skipped
smallest primes with a root at `x` (`addSkipped`) plus the root-distance bonus (`rootComp`), in `u8` arithmetic of
the profile — reaches `threshold`. Consequently (with `listed_complete`) a position whose byte exceeds
`threshold2` and whose corrected value reaches the threshold is reported with every factor-base prime that has
a root there. (Threshold 0: the checked profile panics on `threshold2 - 1`, release reports nothing:
`reportScan` with `thrOf`.) -/
theorem smooths_threshold_spec (dbg : Bool) (fb : FB) (s : State) (blk : Array Nat) (threshold : Nat)
    (root : Option Nat) (res : List Nat) (hthr : 1 ≤ threshold)
    (h : reportScan dbg fb s blk threshold root = some res) :
    ∃ threshold2, threshold2Of fb s threshold root = some threshold2 ∧ 1 ≤ threshold2 ∧
      ∀ x, x ∈ res ↔ (x < 32768 ∧ ∃ t0 t1 t2, blk[x]? = some t0 ∧ threshold2 < t0 ∧
        addSkipped dbg fb s x t0 = some t1 ∧ rootComp dbg s (mzerosOf s) root x t1 = some t2 ∧ threshold ≤ t2) := by
  obtain ⟨t2, h1, h2, h3⟩ := reportScan_mem hthr h
  refine ⟨t2, h1, h2, ?_⟩
  intro x
  rw [h3 x, scanElem_some_iff]
  simp [BLOCK]

/-- a synthetic factor base for the witness: 18 primes of 15 bits, roots 5 and 6 for all of them. -/
def witnessFB : FB := FB.ofPrimes #[16411, 16417, 16421, 16427, 16433, 16447, 16451, 16453, 16477, 16481, 16487, 16493, 16519, 16529, 16547, 16553, 16561, 16567]
def witnessR1 : Array Nat := #[5, 5, 5, 5, 5, 5, 5, 5, 5, 5, 5, 5, 5, 5, 5, 5, 5, 5]
def witnessR2 : Array Nat := #[6, 6, 6, 6, 6, 6, 6, 6, 6, 6, 6, 6, 6, 6, 6, 6, 6, 6]

/-- `accumulator_overflow_witness`: on the synthetic factor base above (valid: increasing primes, reduced
different roots) position 5 of the first block receives 18·15 = 270 ≥ 256, so the checked model of `sieve_block`
panics while the release model returns (the byte wraps to 14): the finding as a theorem about the model. -/
theorem accumulator_overflow_witness (s0 s : State)
    (h0 : Sieve.new 0 1 witnessFB witnessR1 witnessR2 none = some s0) (h1 : sieveBlock witnessFB s0 = some s) :
    blkOf true witnessFB s = none ∧ ∃ blk, blkOf false witnessFB s = some blk := by
  have key : (((Sieve.new 0 1 witnessFB witnessR1 witnessR2 none).bind (sieveBlock witnessFB)).bind
      (allHits witnessFB)).map (fun hs => (decide (∀ g ∈ hs, g.1 < 32768), hitSum hs 5)) = some (true, 270) := by
    decide +kernel
  rw [h0, Option.bind_some, h1, Option.bind_some] at key
  cases hh : allHits witnessFB s with
  | none => rw [hh] at key; simp at key
  | some hits =>
    rw [hh] at key
    simp only [Option.map_some, Option.some.injEq, Prod.mk.injEq, decide_eq_true_eq] at key
    obtain ⟨hin, hsum⟩ := key
    obtain ⟨a, b⟩ := accumulator_overflow_iff witnessFB s hits hh hin
    exact ⟨a.2 ⟨5, by omega, by omega⟩, b⟩

/-- non-vacuity of the witness: the two calls return. -/
example : ((Sieve.new 0 1 witnessFB witnessR1 witnessR2 none).bind (sieveBlock witnessFB)).isSome = true := by
  decide +kernel

end Ymq.C13
