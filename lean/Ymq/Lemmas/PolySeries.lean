/-
Lemmas for the mechanism models of the power-series routines (Ymq/Model/PolySeries.lean, property
C10): `_fft_longmul`/`_longmul` return the product coefficients, the scratch requirement `mmNeed`,
the shared middle-product step of the Newton iteration (general branch and `1 + xC` shortcut), and
the theorems `invModXn_spec` (`p·z ≡ 1 mod x^len`) and `divModXn_spec` (`q·z ≡ p mod x^len`), both
relative to `MiddleSpec` (the specification of `_middlemul`, discharged in PolyMiddle.lean).
-/
import Ymq.Model.PolySeries
import Ymq.Lemmas.PolyKaratsuba
import Ymq.Lemmas.KroneckerSum

namespace Ymq.PolyMul
open Polynomial Finset

variable {α : Type} {R : Type} [CommRing R]

/-- `Hom` plus soundness of `==` and of `zn.inv` -/
structure HomE (o : Ops α) (φ : α → R) : Prop extends Hom o φ where
  eq_sound : ∀ a b, o.eq a b = true → φ a = φ b
  inv_sound : ∀ a i, o.inv a = some i → φ a * φ i = 1

/-- the transforms needed for operands of `m` coefficients fit the NTT context -/
def Fits (c : Ctx) (m : Nat) : Prop := ∀ k, c.mzp = some k → 2 * m ≤ 2 ^ k

theorem Fits.mono {c : Ctx} {m m' : Nat} (h : Fits c m) (hm : m' ≤ m) : Fits c m' :=
  fun k hk => le_trans (by omega) (h k hk)

theorem dot_hom {o : Ops α} {φ : α → R} (h : Hom o φ) (f g : Nat → α) (m : Nat) :
    φ (dot o f g m) = ∑ a ∈ range m, φ (f a) * φ (g a) := by
  unfold dot
  induction m with
  | zero => simp [h.zero]
  | succ m ih => rw [List.range_succ, List.foldl_append, sum_range_succ, ← ih]; simp [h.add, h.mul]

theorem mulCoefO_hom {o : Ops α} {φ : α → R} (h : Hom o φ) (p q : List α) (k : Nat) :
    φ (mulCoefO o p q k) = (poly (p.map φ) * poly (q.map φ)).coeff k := by
  unfold mulCoefO
  rw [dot_hom h, coeff_poly_mul]
  simp only [getD_map_hom h]

theorem bitlen_lt (x : Nat) : x < 2 ^ Ymq.Checked.bitlen x := by
  unfold Ymq.Checked.bitlen
  split_ifs with h
  · subst h; simp
  · exact Nat.lt_log2_self

theorem bitlen_le_of_lt {x k : Nat} (h : x < 2 ^ k) : Ymq.Checked.bitlen x ≤ k := by
  unfold Ymq.Checked.bitlen
  split_ifs with h0
  · omega
  · have := (Nat.log2_lt h0).2 h
    omega

/-- `_fft_longmul`: the product coefficients, for operands whose degree sum is `≥ 1` and fits -/
theorem fftLongmul_spec {o : Ops α} {φ : α → R} (h : Hom o φ) (k zlen : Nat) (p q : List α)
    (hp : 1 ≤ p.length) (hq : 1 ≤ q.length) (hpq : 3 ≤ p.length + q.length)
    (hk : p.length + q.length - 2 < 2 ^ k) :
    ∃ z', fftLongmul k o zlen p q = some z' ∧ z'.length = zlen ∧
      ∀ i, i < zlen → φ (z'.getD i o.zero) = (poly (p.map φ) * poly (q.map φ)).coeff i := by
  unfold fftLongmul
  rw [if_neg (by omega)]
  simp only
  set logsize := Ymq.Checked.bitlen (p.length - 1 + (q.length - 1)) with hls
  have h1 : logsize ≠ 0 := by
    intro h0
    have := bitlen_lt (p.length - 1 + (q.length - 1))
    rw [← hls, h0] at this
    omega
  have h2 : ¬ k < logsize := by
    have := bitlen_le_of_lt (x := p.length - 1 + (q.length - 1)) (k := k) (by omega)
    omega
  rw [if_neg h1, if_neg h2]
  refine ⟨_, rfl, by simp, ?_⟩
  intro i hi
  rw [List.getD_eq_getElem?_getD, List.getElem?_map, List.getElem?_range hi]
  simp only [Option.map_some, Option.getD_some]
  split_ifs with hsz
  · exact mulCoefO_hom h p q i
  · rw [h.zero]
    symm
    apply coeff_poly_mul_zero
    have := bitlen_lt (p.length - 1 + (q.length - 1))
    rw [← hls] at this
    simp only [List.length_map]
    omega


/-- `_longmul` on operands of equal length `l` (`|z| ≥ 2l`, `|tmp| ≥ 3l`): the product coefficients,
through either path -/
theorem longmul_spec {o : Ops α} {φ : α → R} (h : Hom o φ) (c : Ctx) (zlen tmplen : Nat) (p q : List α)
    (hl : p.length = q.length) (h1 : 1 ≤ p.length) (h2 : p.length ≤ 20 * 2 ^ 63)
    (hz : 2 * p.length ≤ zlen) (ht : 3 * p.length ≤ tmplen) (hfit : Fits c p.length) :
    ∃ z', longmul c o zlen tmplen p q = some z' ∧ z'.length = zlen ∧
      ∀ i, i < zlen → φ (z'.getD i o.zero) = (poly (p.map φ) * poly (q.map φ)).coeff i := by
  have hkara : ∃ z', (karatsuba o FUEL (List.replicate zlen o.zero) p q (List.replicate tmplen o.zero)).map (·.1)
      = some z' ∧ z'.length = zlen ∧
      ∀ i, i < zlen → φ (z'.getD i o.zero) = (poly (p.map φ) * poly (q.map φ)).coeff i := by
    obtain ⟨z', tmp', e, lz, _, hp⟩ := karatsuba_spec h 64 (List.replicate zlen o.zero) p q
      (List.replicate tmplen o.zero) (by
        rw [← hl, List.length_replicate, List.length_replicate]
        exact karaOk_equal 63 _ _ _ h1 h2 hz ht)
    refine ⟨z', by unfold FUEL; rw [e]; rfl, by rw [lz, List.length_replicate], ?_⟩
    intro i _
    rw [← hp, coeff_poly, getD_map_hom h]
  unfold longmul
  cases hm : c.mzp with
  | none => exact hkara
  | some k =>
    simp only
    split_ifs with hT
    · have hT' : 28 ≤ p.length := hT
      exact fftLongmul_spec h k zlen p q h1 (by omega) (by omega) (by have := hfit k hm; omega)
    · exact hkara


/-! ### middle products and the Newton iteration -/

theorem mmNeed_small (n : Nat) (h : n ≤ 2) : mmNeed n = 0 := by
  rw [mmNeed]; simp [h]

theorem mmNeed_le (n : Nat) (h : 3 ≤ n) : mmNeed n ≤ 5 * n - 3 := by
  induction n using Nat.strong_induction_on with
  | _ n ih =>
    rw [mmNeed]
    rw [dif_neg (by omega)]
    have hu : mmNeed (n - n / 2) ≤ 5 * (n - n / 2) - 3 ∨ mmNeed (n - n / 2) = 0 := by
      rcases Nat.lt_or_ge (n - n / 2) 3 with hlt | hge
      · right; exact mmNeed_small _ (by omega)
      · left; exact ih _ (by omega) hge
    have hh : mmNeed (n / 2) ≤ 5 * (n / 2) - 3 ∨ mmNeed (n / 2) = 0 := by
      rcases Nat.lt_or_ge (n / 2) 3 with hlt | hge
      · right; exact mmNeed_small _ (by omega)
      · left; exact ih _ (by omega) hge
    rcases hu with hu | hu <;> rcases hh with hh | hh <;> omega

/-- what the series routines need of `_middlemul` (discharged by `middlemul_spec`) -/
def MiddleSpec (c : Ctx) (o : Ops α) (φ : α → R) : Prop :=
  ∀ (zlen : Nat) (p q : List α) (tmplen : Nat), 1 ≤ q.length → q.length ≤ 2 ^ 62 →
    p.length = 2 * q.length - 1 → q.length ≤ zlen → mmNeed q.length ≤ tmplen → Fits c q.length →
    ∃ m, middlemul c o FUEL zlen p q tmplen = some m ∧ m.length = q.length ∧
      ∀ i, i < q.length → φ (m.getD i o.zero) = (poly (p.map φ) * poly (q.map φ)).coeff (q.length - 1 + i)

theorem coeff_mul_congr (A A' B : R[X]) (m : Nat) (hA : ∀ k, k < m → A.coeff k = A'.coeff k) :
    ∀ k, k < m → (B * A).coeff k = (B * A').coeff k := by
  intro k hk
  rw [coeff_mul, coeff_mul]
  apply Finset.sum_congr rfl
  intro x hx
  have h2 : x.1 + x.2 = k := Finset.mem_antidiagonal.1 hx
  rw [hA x.2 (by omega)]

theorem coeff_poly_take (l : List R) (m k : Nat) :
    (poly (l.take m)).coeff k = if k < m then (poly l).coeff k else 0 := by
  rw [coeff_poly, coeff_poly]
  split_ifs with h
  · rw [List.getD_eq_getElem?_getD, List.getD_eq_getElem?_getD, List.getElem?_take_of_lt h]
  · rw [getD_ge _ _ _ (by rw [List.length_take]; omega)]

theorem coeff_poly_drop (l : List R) (m k : Nat) :
    (poly (l.drop m)).coeff k = (poly l).coeff (m + k) := by
  rw [coeff_poly, coeff_poly, List.getD_eq_getElem?_getD, List.getD_eq_getElem?_getD, List.getElem?_drop]

theorem getD_zipWith_add {o : Ops α} (a b : List α) (i : Nat) (ha : i < a.length) (hb : i < b.length) :
    (List.zipWith o.add a b).getD i o.zero = o.add (a.getD i o.zero) (b.getD i o.zero) := by
  simp [List.getD_eq_getElem?_getD, List.getElem?_zipWith, List.getElem?_eq_getElem ha,
    List.getElem?_eq_getElem hb]


/-- one Newton step for the inverse: `I' = I - x^u·(E·I mod x^h)` where `P·I = 1 + x^u·E + …` -/
theorem newton_step (P I N Eh Ih : R[X]) (u h : Nat) (hu : 1 ≤ u) (hhu : h ≤ u)
    (hI : ∀ k, k < u → (P * I).coeff k = if k = 0 then 1 else 0)
    (hE : ∀ i, i < h → Eh.coeff i = (P * I).coeff (u + i))
    (hIh : ∀ k, k < h → Ih.coeff k = I.coeff k)
    (hN : ∀ i, i < h → N.coeff i = -(Eh * Ih).coeff i) :
    ∀ k, k < u + h → (P * (I + X ^ u * N)).coeff k = if k = 0 then 1 else 0 := by
  intro k hk
  have e : P * (I + X ^ u * N) = P * I + X ^ u * (P * N) := by ring
  rw [e, coeff_add, coeff_X_pow_mul']
  by_cases hku : u ≤ k
  · rw [if_pos hku]
    obtain ⟨i, rfl⟩ : ∃ i, k = u + i := ⟨k - u, by omega⟩
    have hi : i < h := by omega
    rw [Nat.add_sub_cancel_left]
    have h1 : (P * N).coeff i = (P * (-(Eh * Ih))).coeff i :=
      coeff_mul_congr N (-(Eh * Ih)) P h (fun j hj => by rw [hN j hj, coeff_neg]) i hi
    have h2 : P * (-(Eh * Ih)) = -(Eh * (P * Ih)) := by ring
    have h3 : (Eh * (P * Ih)).coeff i = (Eh * 1).coeff i := by
      apply coeff_mul_congr (P * Ih) 1 Eh h _ i hi
      intro j hj
      rw [coeff_mul_congr Ih I P h hIh j hj, hI j (by omega), coeff_one]
    rw [h1, h2, coeff_neg, h3, mul_one, hE i hi, if_neg (by omega)]
    ring
  · rw [if_neg hku, add_zero]
    exact hI k (by omega)

/-- one step of the quotient: `Z = Zlo + x^u·(α·(P_hi - γ) mod x^h)` where `Q·Zlo = P_lo + x^u·γ + …` -/
theorem div_step (P Q Zlo M Ah A T : R[X]) (u h : Nat) (hhu : h ≤ u)
    (hZ : ∀ k, k < u → (Q * Zlo).coeff k = P.coeff k)
    (hA : ∀ k, k < u → (Q * A).coeff k = if k = 0 then 1 else 0)
    (hAh : ∀ k, k < h → Ah.coeff k = A.coeff k)
    (hT : ∀ i, i < h → T.coeff i = P.coeff (u + i) - (Q * Zlo).coeff (u + i))
    (hM : ∀ i, i < h → M.coeff i = (Ah * T).coeff i) :
    ∀ k, k < u + h → (Q * (Zlo + X ^ u * M)).coeff k = P.coeff k := by
  intro k hk
  have e : Q * (Zlo + X ^ u * M) = Q * Zlo + X ^ u * (Q * M) := by ring
  rw [e, coeff_add, coeff_X_pow_mul']
  by_cases hku : u ≤ k
  · rw [if_pos hku]
    obtain ⟨i, rfl⟩ : ∃ i, k = u + i := ⟨k - u, by omega⟩
    have hi : i < h := by omega
    rw [Nat.add_sub_cancel_left]
    have h1 : (Q * M).coeff i = (Q * (Ah * T)).coeff i := coeff_mul_congr M (Ah * T) Q h hM i hi
    have h2 : Q * (Ah * T) = T * (Q * Ah) := by ring
    have h3 : (T * (Q * Ah)).coeff i = (T * 1).coeff i := by
      apply coeff_mul_congr (Q * Ah) 1 T h _ i hi
      intro j hj
      rw [coeff_mul_congr Ah A Q h hAh j hj, hA j (by omega), coeff_one]
    rw [h1, h2, h3, mul_one, hT i hi]
    ring
  · rw [if_neg hku, add_zero]
    exact hZ k (by omega)


theorem poly_map_append_zeros {o : Ops α} {φ : α → R} (h : Hom o φ) (l : List α) (pad : Nat) :
    poly ((l ++ List.replicate pad o.zero).map φ) = poly (l.map φ) := by
  rw [List.map_append, poly_append, List.map_replicate, h.zero, poly_replicate_zero, mul_zero, add_zero]

/-- general branch: middle product of `l[1..]` (zero padded) by `S`, `|S| = u`: the coefficients
`u … 2u-1` of `l·S` -/
theorem mid_general {o : Ops α} {φ : α → R} (h : Hom o φ) (c : Ctx) (hmm : MiddleSpec c o φ)
    (l0 : α) (rest S : List α) (u pad mullen : Nat) (hu : 1 ≤ u) (hu2 : u ≤ 2 ^ 62) (hS : S.length = u)
    (hpad : 2 * u - 1 ≤ rest.length + pad) (hmul : mmNeed u ≤ mullen) (hfit : Fits c u) :
    ∃ t, middlemul c o FUEL u ((rest ++ List.replicate pad o.zero).take (2 * u - 1)) S mullen = some t ∧
      t.length = u ∧
      ∀ i, i < u → φ (t.getD i o.zero) = (poly ((l0 :: rest).map φ) * poly (S.map φ)).coeff (u + i) := by
  obtain ⟨t, e, lt, ht⟩ := hmm u ((rest ++ List.replicate pad o.zero).take (2 * u - 1)) S mullen
    (by omega) (by omega) (by rw [List.length_take, List.length_append, List.length_replicate, hS]; omega)
    (by omega) (by rw [hS]; exact hmul) (by rw [hS]; exact hfit)
  rw [hS] at lt ht
  refine ⟨t, e, lt, ?_⟩
  intro i hi
  rw [ht i hi]
  -- the truncated, padded operand agrees with `rest` below `2u - 1`
  have hagree : ∀ k, k < 2 * u - 1 →
      (poly (((rest ++ List.replicate pad o.zero).take (2 * u - 1)).map φ)).coeff k =
        (poly (rest.map φ)).coeff k := by
    intro k hk
    rw [List.map_take, coeff_poly_take, if_pos hk, poly_map_append_zeros h]
  have h1 : (poly (((rest ++ List.replicate pad o.zero).take (2 * u - 1)).map φ) * poly (S.map φ)).coeff (u - 1 + i) =
      (poly (rest.map φ) * poly (S.map φ)).coeff (u - 1 + i) := by
    rw [mul_comm, mul_comm (poly (rest.map φ))]
    exact coeff_mul_congr _ _ _ (2 * u - 1) hagree _ (by omega)
  rw [h1, List.map_cons, poly_cons, add_mul, coeff_add, coeff_C_mul, mul_assoc]
  have hz : (poly (S.map φ)).coeff (u + i) = 0 := natDegree_poly_lt _ _ (by rw [List.length_map, hS]; omega)
  have hidx : u + i = (u - 1 + i) + 1 := by omega
  rw [hz, mul_zero, zero_add, hidx, coeff_X_mul]

/-- `1 + xC` shortcut: middle product of `l[1..]` by `1 + x·C` where `S = s0 :: Cs`, `φ s0 = 1`,
`|l| = 2u - 1`, `|S| = u ≥ 2`: the coefficients `u … 2u-2` of `l·S` -/
theorem mid_shortcut {o : Ops α} {φ : α → R} (h : Hom o φ) (c : Ctx) (hmm : MiddleSpec c o φ)
    (l0 s0 : α) (rest Cs : List α) (u mullen : Nat) (hu : 2 ≤ u) (hu2 : u ≤ 2 ^ 62)
    (hC : Cs.length = u - 1) (hl : rest.length = 2 * u - 2) (hs0 : φ s0 = 1)
    (hmul : mmNeed (u - 1) ≤ mullen) (hfit : Fits c (u - 1)) :
    ∃ t, middlemul1x c o u rest Cs mullen = some t ∧ t.length = u - 1 ∧
      ∀ i, i < u - 1 → φ (t.getD i o.zero) =
        (poly ((l0 :: rest).map φ) * poly ((s0 :: Cs).map φ)).coeff (u + i) := by
  unfold middlemul1x
  rw [if_neg (by omega)]
  obtain ⟨m, e, lm, hm⟩ := hmm u (rest.take (rest.length - 1)) Cs mullen (by omega) (by omega)
    (by rw [List.length_take, hC, hl]; omega) (by omega) (by rw [hC]; exact hmul) (by rw [hC]; exact hfit)
  rw [e]
  simp only
  rw [if_neg (by omega)]
  rw [hC] at lm hm
  have lsl : ((rest.drop Cs.length).take Cs.length).length = u - 1 := by
    rw [List.length_take, List.length_drop, hC, hl]; omega
  refine ⟨_, rfl, by rw [List.length_zipWith, lm, lsl, Nat.min_self], ?_⟩
  intro i hi
  rw [getD_zipWith_add _ _ i (by omega) (by omega), h.add, hm i hi]
  -- the slice entry is l[u + i]
  have hsl : φ (((rest.drop Cs.length).take Cs.length).getD i o.zero) = (poly (rest.map φ)).coeff (u - 1 + i) := by
    rw [coeff_poly, getD_map_hom h, hC]
    congr 1
    rw [List.getD_eq_getElem?_getD, List.getD_eq_getElem?_getD, List.getElem?_take_of_lt (by omega),
      List.getElem?_drop]
  rw [hsl]
  have hagree : ∀ k, k < 2 * u - 3 →
      (poly ((rest.take (rest.length - 1)).map φ)).coeff k = (poly (rest.map φ)).coeff k := by
    intro k hk
    rw [List.map_take, coeff_poly_take, if_pos (by omega)]
  have h1 : (poly ((rest.take (rest.length - 1)).map φ) * poly (Cs.map φ)).coeff (u - 1 - 1 + i) =
      (poly (rest.map φ) * poly (Cs.map φ)).coeff (u - 1 - 1 + i) := by
    rw [mul_comm, mul_comm (poly (rest.map φ))]
    exact coeff_mul_congr _ _ _ (2 * u - 3) hagree _ (by omega)
  rw [h1]
  -- expand l = l0 + X·rest, S = 1 + X·C
  simp only [List.map_cons, poly_cons, hs0, map_one]
  have hzC : (poly (Cs.map φ)).coeff (u - 1 + i) = 0 :=
    natDegree_poly_lt _ _ (by rw [List.length_map, hC]; omega)
  have e1 : (C (φ l0) + X * poly (rest.map φ)) * (1 + X * poly (Cs.map φ)) =
      C (φ l0) + X * (poly (rest.map φ) + C (φ l0) * poly (Cs.map φ) + X * (poly (rest.map φ) * poly (Cs.map φ))) := by
    ring
  have hidx : u + i = (u - 1 + i) + 1 := by omega
  have hidx2 : u - 1 + i = (u - 1 - 1 + i) + 1 := by omega
  rw [e1, coeff_add, coeff_C, if_neg (by omega), zero_add, hidx, coeff_X_mul, coeff_add, coeff_add,
    coeff_C_mul, hzC, mul_zero, add_zero]
  have hx : (X * (poly (rest.map φ) * poly (Cs.map φ))).coeff (u - 1 + i) =
      (poly (rest.map φ) * poly (Cs.map φ)).coeff (u - 1 - 1 + i) := by
    rw [hidx2, coeff_X_mul]
  rw [hx]
  ring


/-- the shared step: the coefficients `u … len-1` of `l·S`, through either branch -/
theorem seriesMid_spec {o : Ops α} {φ : α → R} (h : HomE o φ) (c : Ctx) (hmm : MiddleSpec c o φ)
    (l0 : α) (rest S : List α) (u len mullen pad : Nat) (hu1 : 1 ≤ u) (hu62 : u ≤ 2 ^ 62)
    (hS : S.length = u) (hlen : len = rest.length + 1) (hLu : 2 * u - 1 ≤ len) (hLu2 : len ≤ 2 * u)
    (hpad : 2 * u - 1 ≤ rest.length + pad) (hmulA : mmNeed (u - 1) ≤ mullen) (hmulB : mmNeed u ≤ mullen)
    (hfit : Fits c u) :
    ∃ t, seriesMid c o u len mullen pad (l0 :: rest) S = some t ∧ len - u ≤ t.length ∧
      ∀ i, i < len - u → φ (t.getD i o.zero) =
        (poly ((l0 :: rest).map φ) * poly (S.map φ)).coeff (u + i) := by
  unfold seriesMid
  split_ifs with hc
  · obtain ⟨hc1, hc2, hc3, _⟩ := hc
    cases S with
    | nil => simp at hS; omega
    | cons s0 Cs =>
      have hs0 : φ s0 = 1 := by
        rw [List.getD_cons_zero] at hc1
        rw [h.eq_sound _ _ hc1, h.one]
      have lCs : Cs.length = u - 1 := by simp at hS; omega
      have hdrop : ((s0 :: Cs).drop 1).take (u - 1) = Cs := by
        rw [List.drop_succ_cons, List.drop_zero, ← lCs, List.take_length]
      rw [hdrop, List.drop_succ_cons, List.drop_zero]
      obtain ⟨t, e, lt, ht'⟩ := mid_shortcut h.toHom c hmm l0 s0 rest Cs u mullen hc2 hu62 lCs
        (by omega) hs0 hmulA (hfit.mono (by omega))
      exact ⟨t, e, by omega, fun i hi => ht' i (by omega)⟩
  · rw [List.drop_succ_cons, List.drop_zero]
    obtain ⟨t, e, lt, ht'⟩ := mid_general h.toHom c hmm l0 rest S u pad mullen hu1 hu62 hS hpad hmulB hfit
    exact ⟨t, e, by omega, fun i hi => ht' i (by omega)⟩

/-- `P·Z ≡ 1 (mod X^L)` -/
def IsInv (P Z : R[X]) (L : Nat) : Prop := ∀ k, k < L → (P * Z).coeff k = if k = 0 then 1 else 0

theorem mmNeed_fit (u L : Nat) (hL : 2 * u - 1 ≤ L) (hu : 1 ≤ u) : mmNeed u ≤ 3 * L - u := by
  rcases Nat.lt_or_ge u 3 with h | h
  · rw [mmNeed_small u (by omega)]; omega
  · have := mmNeed_le u h; omega

theorem getD_map_take (f : α → α) (l : List α) (m i : Nat) (d : α) (hi : i < m) (hl : m ≤ l.length) :
    ((l.take m).map f).getD i d = f (l.getD i d) := by
  rw [List.getD_eq_getElem?_getD, List.getD_eq_getElem?_getD, List.getElem?_map,
    List.getElem?_take_of_lt hi, List.getElem?_eq_getElem (by omega)]
  rfl

/-- **`_inv_mod_xn` inverts modulo `x^len`**, for every length `1 ≤ len ≤ min(2^f, 2^62)` (`f + 1` = recursion fuel), whenever the
constant term has an inverse: no panic site is reached (scratch `≥ 4·len`, NTT context large
enough) and `p · z ≡ 1 (mod x^len)`. Covers the base cases of length 1, 2, 3, the precision
schedule `half_up = ⌈len/2⌉`, both ways of forming `P·I div x^half_up` (general middle product of
the zero-padded `p[1..]`, and the `1 + xC` shortcut under its four conditions) and the final
low product. -/
theorem invModXn_spec {o : Ops α} {φ : α → R} (h : HomE o φ) (c : Ctx) (hmm : MiddleSpec c o φ) :
    ∀ (f : Nat) (p : List α) (tmplen : Nat), 1 ≤ p.length → p.length ≤ 2 ^ f → p.length ≤ 2 ^ 62 →
      4 * p.length ≤ tmplen → Fits c (p.length - p.length / 2) → (∃ i, o.inv (p.getD 0 o.zero) = some i) →
      ∃ z, invModXn c o (f + 1) p tmplen = some z ∧ z.length = p.length ∧
        IsInv (poly (p.map φ)) (poly (z.map φ)) p.length := by
  intro f
  induction f with
  | zero =>
    intro p tmplen h1 h2 _ _ _ hinv
    have hL : p.length = 1 := by simp at h2; omega
    match p, hL with
    | [p0], _ =>
      obtain ⟨i, hi⟩ := hinv
      simp only [List.getD_cons_zero] at hi
      unfold invModXn
      simp only [List.length_cons, List.length_nil]
      have e2 : ¬ ((0 : Nat) + 1 = 2) := by omega
      have e3 : ¬ ((0 : Nat) + 1 = 3) := by omega
      simp only [e2, e3, and_false, if_false, Nat.zero_add, if_true, hi]
      refine ⟨[i], rfl, rfl, ?_⟩
      intro k hk
      have : k = 0 := by simp at hk; omega
      subst this
      rw [coeff_poly_mul]
      simp [h.inv_sound p0 i hi]
  | succ f ih =>
    intro p tmplen h1 h2 hf ht hfit hinv
    match p, h1 with
    | p0 :: rest, _ =>
    unfold invModXn
    simp only
    by_cases c1 : o.eq p0 o.one = true ∧ (p0 :: rest).length = 2
    · rw [if_pos c1]
      have hp0 : φ p0 = 1 := by rw [h.eq_sound _ _ c1.1, h.one]
      match rest, c1.2 with
      | [p1], _ =>
        refine ⟨_, rfl, rfl, ?_⟩
        intro k hk
        have hk' : k = 0 ∨ k = 1 := by simp at hk; omega
        rcases hk' with rfl | rfl <;> rw [coeff_poly_mul] <;>
          simp [Finset.sum_range_succ, h.sub, h.zero, h.one, hp0]
    · rw [if_neg c1]
      by_cases c2 : o.eq p0 o.one = true ∧ (p0 :: rest).length = 3
      · rw [if_pos c2]
        have hp0 : φ p0 = 1 := by rw [h.eq_sound _ _ c2.1, h.one]
        match rest, c2.2 with
        | [p1, p2], _ =>
          refine ⟨_, rfl, rfl, ?_⟩
          intro k hk
          have hk' : k = 0 ∨ k = 1 ∨ k = 2 := by simp at hk; omega
          rcases hk' with rfl | rfl | rfl <;> rw [coeff_poly_mul] <;>
            simp [Finset.sum_range_succ, h.sub, h.zero, h.one, h.mul, hp0] <;> ring
      · rw [if_neg c2]
        by_cases c3 : (p0 :: rest).length = 1
        · rw [if_pos c3]
          obtain ⟨i, hi⟩ := hinv
          simp only [List.getD_cons_zero] at hi
          rw [hi]
          have hr : rest = [] := by
            have : rest.length = 0 := by simpa using c3
            exact List.length_eq_zero_iff.1 this
          subst hr
          refine ⟨[i], rfl, rfl, ?_⟩
          intro k hk
          have : k = 0 := by simp at hk; omega
          subst this
          rw [coeff_poly_mul]
          simp [h.inv_sound p0 i hi]
        · rw [if_neg c3, if_neg (by omega)]
          simp only [List.length_cons] at c3 h2 hf ht hfit ⊢
          set L := rest.length + 1 with hL
          have hL2 : 2 ≤ L := by omega
          set u := L - L / 2 with hu
          set hh := L / 2 with hhh
          have hu1 : 1 ≤ u := by omega
          have hh1 : 1 ≤ hh := by omega
          have hhu : hh ≤ u := by omega
          have huh : u + hh = L := by omega
          have hLu : 2 * u - 1 ≤ L := by omega
          have hpow : 2 ^ (f + 1) = 2 * 2 ^ f := by rw [pow_succ]; ring
          have hu62 : u ≤ 2 ^ 62 := by omega
          -- the inverse to half precision
          have ltk : ((p0 :: rest).take u).length = u := by
            rw [List.length_take, List.length_cons]; omega
          obtain ⟨zi, ezi, lzi, hzi⟩ := ih ((p0 :: rest).take u) tmplen (by omega) (by rw [ltk]; omega)
            (by rw [ltk]; omega) (by rw [ltk]; omega) (by rw [ltk]; exact hfit.mono (by omega))
            (by
              obtain ⟨i, hi⟩ := hinv
              refine ⟨i, ?_⟩
              have : ((p0 :: rest).take u).getD 0 o.zero = p0 := by
                obtain ⟨u', hu'⟩ : ∃ u', u = u' + 1 := ⟨u - 1, by omega⟩
                rw [hu', List.take_succ_cons, List.getD_cons_zero]
              rw [this]; simpa using hi)
          rw [ezi]
          simp only
          rw [ltk] at lzi hzi
          set P := poly ((p0 :: rest).map φ) with hP
          set I := poly (zi.map φ) with hI
          have hPI : ∀ k, k < u → (P * I).coeff k = if k = 0 then 1 else 0 := by
            intro k hk
            rw [← hzi k hk, mul_comm P I, mul_comm (poly _) I]
            refine (coeff_mul_congr (poly (((p0 :: rest).take u).map φ)) P I u ?_ k hk).symm
            intro j hj
            rw [List.map_take, coeff_poly_take, if_pos hj]
          set mullen := tmplen - u - L with hmullen
          have hmul3 : 3 * L - u ≤ mullen := by omega
          -- E = (P·I) div x^u, through either branch
          obtain ⟨t, et, lt, ht'⟩ := seriesMid_spec h c hmm p0 rest zi u L mullen 1 hu1 hu62 lzi hL hLu
            (by omega) (by omega)
            (by
              rcases Nat.lt_or_ge (u - 1) 3 with h3 | h3
              · rw [mmNeed_small _ (by omega)]; omega
              · have := mmNeed_le (u - 1) h3; omega)
            (by have := mmNeed_fit u L hLu hu1; omega) (hfit.mono (by omega))
          have hLuh : L - u = hh := by omega
          rw [hLuh] at lt ht'
          rw [et]
          simp only
          -- the low product
          have ltt : (t.take hh).length = hh := by rw [List.length_take]; omega
          have lzt : (zi.take hh).length = hh := by rw [List.length_take]; omega
          obtain ⟨lm, elm, llm, hlm⟩ := longmul_spec h.toHom c (2 * hh) mullen (t.take hh) (zi.take hh)
            (by rw [ltt, lzt]) (by rw [ltt]; exact hh1)
            (by rw [ltt]; have : (2 : Nat) ^ 62 ≤ 20 * 2 ^ 63 := by norm_num
                omega) (by rw [ltt]) (by rw [ltt]; omega)
            (by rw [ltt]; exact hfit.mono (by omega))
          rw [elm]
          simp only
          refine ⟨_, rfl, ?_, ?_⟩
          · rw [List.length_append, List.length_map, List.length_take, lzi, llm]; omega
          · -- assemble with the Newton step
            have hz : poly ((zi ++ (lm.take hh).map fun x => o.sub o.zero x).map φ) =
                I + X ^ u * poly (((lm.take hh).map fun x => o.sub o.zero x).map φ) := by
              rw [List.map_append, poly_append, List.length_map, lzi]
            rw [hz]
            intro k hk
            apply newton_step P I _ (poly ((t.take hh).map φ)) (poly ((zi.take hh).map φ)) u hh hu1 hhu hPI
            · intro i hi
              rw [List.map_take, coeff_poly_take, if_pos hi, coeff_poly, getD_map_hom h.toHom, ht' i hi]
            · intro j hj
              rw [List.map_take, coeff_poly_take, if_pos hj]
            · intro i hi
              rw [coeff_poly, getD_map_hom h.toHom, getD_map_take _ _ _ _ _ hi (by omega), h.sub, h.zero,
                hlm i (by omega)]
              ring
            · omega


theorem getD_range_map (g : Nat → α) (n i : Nat) (d : α) (hi : i < n) :
    ((List.range n).map g).getD i d = g i := by
  rw [List.getD_eq_getElem?_getD, List.getElem?_map, List.getElem?_range hi]; rfl

theorem mmNeed_fit' (u x : Nat) (hx : 6 * u ≤ x + 5) : mmNeed u ≤ x := by
  rcases Nat.lt_or_ge u 3 with h | h
  · rw [mmNeed_small u (by omega)]; omega
  · have := mmNeed_le u h; omega


/-- first half of the quotient: `α·p mod x^u`, through either branch -/
theorem divZlo_spec {o : Ops α} {φ : α → R} (h : HomE o φ) (c : Ctx) (p0 : α) (prest al : List α)
    (u hilen : Nat) (hu1 : 1 ≤ u) (hu62 : u ≤ 2 ^ 62) (lal : al.length = u) (hp : u ≤ prest.length + 1)
    (hhi : 3 * u ≤ hilen) (hfit : Fits c u) :
    ∃ zlo, divZlo c o u hilen (p0 :: prest) al = some zlo ∧ zlo.length = u ∧
      ∀ k, k < u → φ (zlo.getD k o.zero) = (poly (al.map φ) * poly ((p0 :: prest).map φ)).coeff k := by
  have hbig : (2 : Nat) ^ 62 ≤ 20 * 2 ^ 63 := by norm_num
  unfold divZlo
  split_ifs with hc
  · obtain ⟨hc1, hc2, hc3, _⟩ := hc
    cases al with
    | nil => simp at lal; omega
    | cons a0 as =>
      have las : as.length = u - 1 := by simp at lal; omega
      have ha0 : φ a0 = 1 := by rw [List.getD_cons_zero] at hc2; rw [h.eq_sound _ _ hc2, h.one]
      have hp0 : φ p0 = 1 := by rw [List.getD_cons_zero] at hc1; rw [h.eq_sound _ _ hc1, h.one]
      have hd1 : ((a0 :: as).drop 1).take (u - 1) = as := by
        rw [List.drop_succ_cons, List.drop_zero, ← las, List.take_length]
      rw [hd1, List.drop_succ_cons, List.drop_zero]
      have lpt : (prest.take (u - 1)).length = u - 1 := by rw [List.length_take]; omega
      obtain ⟨lm, elm, llm, hlm⟩ := longmul_spec h.toHom c (2 * u - 2) hilen as (prest.take (u - 1))
        (by rw [las, lpt]) (by omega) (by omega) (by omega) (by omega) (by rw [las]; exact hfit.mono (by omega))
      rw [elm]
      simp only
      refine ⟨_, rfl, by simp; omega, ?_⟩
      intro k hk
      -- (1 + x·A')(1 + x·P') = 1 + x(A' + P') + x²·A'P'
      have eAP : poly ((a0 :: as).map φ) * poly ((p0 :: prest).map φ) = 1 + X * (poly (as.map φ) +
          poly (prest.map φ) + X * (poly (as.map φ) * poly (prest.map φ))) := by
        simp only [List.map_cons, poly_cons, ha0, hp0, map_one]; ring
      rw [eAP]
      rcases k with _ | _ | k
      · simp [h.one]
      · simp only [List.getD_cons_succ, List.getD_cons_zero, h.add]
        rw [coeff_add, coeff_one, if_neg (by omega), zero_add, coeff_X_mul, coeff_add, coeff_add,
          coeff_X_mul_zero, add_zero, coeff_poly, coeff_poly, getD_map_hom h.toHom, getD_map_hom h.toHom]
      · simp only [List.getD_cons_succ]
        rw [getD_range_map _ _ _ _ (by omega), h.add, h.add, hlm k (by omega)]
        rw [coeff_add, coeff_one, if_neg (by omega), zero_add, coeff_X_mul, coeff_add, coeff_add,
          coeff_X_mul, coeff_poly, coeff_poly, getD_map_hom h.toHom, getD_map_hom h.toHom]
        have hag : (poly (as.map φ) * poly ((prest.take (u - 1)).map φ)).coeff k =
            (poly (as.map φ) * poly (prest.map φ)).coeff k := by
          apply coeff_mul_congr _ _ _ (u - 1) _ k (by omega)
          intro j hj
          rw [List.map_take, coeff_poly_take, if_pos hj]
        rw [hag]
        ring
  · have lpt : ((p0 :: prest).take u).length = u := by rw [List.length_take, List.length_cons]; omega
    obtain ⟨lm, elm, llm, hlm⟩ := longmul_spec h.toHom c (2 * u) hilen al ((p0 :: prest).take u)
      (by rw [lal, lpt]) (by omega) (by omega) (by omega) (by omega) (by rw [lal]; exact hfit)
    rw [elm]
    refine ⟨lm.take u, rfl, by rw [List.length_take]; omega, ?_⟩
    intro k hk
    rw [List.getD_eq_getElem?_getD, List.getElem?_take_of_lt hk, ← List.getD_eq_getElem?_getD,
      hlm k (by omega)]
    apply coeff_mul_congr _ _ _ u _ k hk
    intro j hj
    rw [List.map_take, coeff_poly_take, if_pos hj]


/-- **`_div_mod_xn` is the quotient modulo `x^len`**: for equal lengths `1 ≤ len ≤ 2^62`, an
invertible constant term of `q`, scratch `≥ max(5·len, 8·⌈len/2⌉)` (the public wrapper allocates
`6·len`) and a large enough NTT context, no panic site is reached and `q · z ≡ p (mod x^len)`.
Covers `α = 1/q mod x^⌈len/2⌉`, both ways of forming `α·p` (plain low product, and the
`(1+α')(1+β')` shortcut), both ways of forming `γ`, and the final correction. -/
theorem divModXn_spec {o : Ops α} {φ : α → R} (h : HomE o φ) (c : Ctx) (hmm : MiddleSpec c o φ)
    (p q : List α) (tmplen : Nat) (hl : p.length = q.length) (h1 : 1 ≤ q.length)
    (h62 : q.length ≤ 2 ^ 62) (ht : 5 * q.length ≤ tmplen)
    (ht8 : 2 ≤ q.length → 8 * (q.length - q.length / 2) ≤ tmplen)
    (hfit : Fits c (q.length - q.length / 2)) (hinv : ∃ i, o.inv (q.getD 0 o.zero) = some i) :
    ∃ z, divModXn c o p q tmplen = some z ∧ z.length = q.length ∧
      ∀ k, k < q.length → (poly (q.map φ) * poly (z.map φ)).coeff k = (poly (p.map φ)).coeff k := by
  unfold divModXn
  rw [if_neg (by omega), if_neg (by omega)]
  cases p with
  | nil => simp at hl; omega
  | cons p0 prest =>
  cases q with
  | nil => simp at h1
  | cons q0 qrest =>
  simp only
  by_cases c1 : (p0 :: prest).length = 1
  · rw [if_pos c1]
    obtain ⟨i, hi⟩ := hinv
    simp only [List.getD_cons_zero] at hi
    rw [hi]
    have hpr : prest = [] := List.length_eq_zero_iff.1 (by simpa using c1)
    have hqr : qrest = [] := List.length_eq_zero_iff.1 (by rw [hpr] at hl; simpa using hl.symm)
    subst hpr hqr
    refine ⟨_, rfl, rfl, ?_⟩
    intro k hk
    have : k = 0 := by simp at hk; omega
    subst this
    rw [coeff_poly_mul]
    have := h.inv_sound q0 i hi
    simp [h.mul]
    rw [← mul_assoc, mul_comm (φ q0), mul_assoc, this, mul_one]
  · rw [if_neg c1]
    simp only [List.length_cons] at c1 hl h62 ht ht8 hfit ⊢
    set L := qrest.length + 1 with hL
    have hLp : prest.length + 1 = L := by omega
    have hL2 : 2 ≤ L := by omega
    replace ht8 := ht8 hL2
    set u := L - L / 2 with hu
    set hh := L / 2 with hhh
    have hu1 : 1 ≤ u := by omega
    have hh1 : 1 ≤ hh := by omega
    have hhu : hh ≤ u := by omega
    have huh : u + hh = L := by omega
    have hLu : 2 * u - 1 ≤ L := by omega
    have hu62 : u ≤ 2 ^ 62 := by omega
    have hbig : (2 : Nat) ^ 62 ≤ 20 * 2 ^ 63 := by norm_num
    set hilen := tmplen - 4 * u with hhilen
    have hhi4 : 4 * u ≤ hilen := by omega
    have hhi6 : 6 * u ≤ hilen + 5 := by omega
    set P := poly ((p0 :: prest).map φ) with hP
    set Q := poly ((q0 :: qrest).map φ) with hQ
    -- α
    have ltk : ((q0 :: qrest).take u).length = u := by rw [List.length_take, List.length_cons]; omega
    obtain ⟨al, eal, lal, hal⟩ := invModXn_spec h c hmm 63 ((q0 :: qrest).take u) hilen (by rw [ltk]; omega)
      (by rw [ltk]; exact le_trans hu62 (Nat.pow_le_pow_right (by decide) (by decide)))
      (by rw [ltk]; exact hu62) (by rw [ltk]; omega) (by rw [ltk]; exact hfit.mono (by omega))
      (by
        obtain ⟨i, hi⟩ := hinv
        refine ⟨i, ?_⟩
        have : ((q0 :: qrest).take u).getD 0 o.zero = q0 := by
          obtain ⟨u', hu'⟩ : ∃ u', u = u' + 1 := ⟨u - 1, by omega⟩
          rw [hu', List.take_succ_cons, List.getD_cons_zero]
        rw [this]; simpa using hi)
    have eal' : invModXn c o FUEL ((q0 :: qrest).take u) hilen = some al := eal
    rw [eal']
    simp only
    rw [ltk] at lal hal
    set A := poly (al.map φ) with hA
    have hQA : ∀ k, k < u → (Q * A).coeff k = if k = 0 then 1 else 0 := by
      intro k hk
      rw [← hal k hk, mul_comm Q A, mul_comm (poly _) A]
      refine (coeff_mul_congr (poly (((q0 :: qrest).take u).map φ)) Q A u ?_ k hk).symm
      intro j hj
      rw [List.map_take, coeff_poly_take, if_pos hj]
    -- zlo = α·p mod x^u
    obtain ⟨zlo, ezlo, lzlo, hzlo'⟩ := divZlo_spec h c p0 prest al u hilen hu1 hu62 lal (by omega) (by omega)
      (hfit.mono (by omega))
    rw [ezlo]
    simp only
    set Zlo := poly (zlo.map φ) with hZlo
    have hQZ : ∀ k, k < u → (Q * Zlo).coeff k = P.coeff k := by
      intro k hk
      have e1 : (Q * Zlo).coeff k = (Q * (A * P)).coeff k := by
        apply coeff_mul_congr _ _ _ u _ k hk
        intro j hj
        rw [hZlo, coeff_poly, getD_map_hom h.toHom, hzlo' j hj]
      have e2 : Q * (A * P) = P * (Q * A) := by ring
      have e3 : (P * (Q * A)).coeff k = (P * 1).coeff k := by
        apply coeff_mul_congr _ _ _ u _ k hk
        intro j hj
        rw [hQA j hj, coeff_one]
      rw [e1, e2, e3, mul_one]
    -- γ
    obtain ⟨g, eg, lg, hg⟩ := seriesMid_spec h c hmm q0 qrest zlo u L hilen (2 * u - (L - 1)) hu1 hu62 lzlo
      hL hLu (by omega) (by omega) (mmNeed_fit' (u - 1) hilen (by omega))
      (mmNeed_fit' u hilen hhi6) (hfit.mono (by omega))
    have hLuh : L - u = hh := by omega
    rw [hLuh] at lg hg
    rw [eg]
    simp only
    -- the correction term
    set targ := (List.range hh).map fun i => o.sub ((p0 :: prest).getD (u + i) o.zero) (g.getD i o.zero) with htarg
    have ltarg : targ.length = hh := by simp [htarg]
    have lat : (al.take hh).length = hh := by rw [List.length_take]; omega
    obtain ⟨lm2, elm2, llm2, hlm2⟩ := longmul_spec h.toHom c (2 * hh) hilen (al.take hh) targ
      (by rw [lat, ltarg]) (by rw [lat]; exact hh1) (by rw [lat]; omega) (by rw [lat]) (by rw [lat]; omega)
      (by rw [lat]; exact hfit.mono (by omega))
    rw [elm2]
    simp only
    refine ⟨_, rfl, ?_, ?_⟩
    · rw [List.length_append, List.length_take, lzlo, llm2]; omega
    · have hz : poly ((zlo ++ lm2.take hh).map φ) = Zlo + X ^ u * poly ((lm2.take hh).map φ) := by
        rw [List.map_append, poly_append, List.length_map, lzlo]
      rw [hz]
      intro k hk
      apply div_step P Q Zlo _ (poly ((al.take hh).map φ)) A (poly (targ.map φ)) u hh hhu hQZ hQA
      · intro j hj
        rw [List.map_take, coeff_poly_take, if_pos hj]
      · intro i hi
        rw [coeff_poly, getD_map_hom h.toHom, htarg, getD_range_map _ _ _ _ hi, h.sub, hg i hi, hP, coeff_poly,
          getD_map_hom h.toHom]
      · intro i hi
        rw [List.map_take, coeff_poly_take, if_pos hi, coeff_poly, getD_map_hom h.toHom, hlm2 i (by omega)]
      · omega

end Ymq.PolyMul
