/-
C03 — factoring is total: it answers or fails cleanly, never crashes.
Only property theorems live here (helper lemmas: Ymq/Lemmas/Factor*.lean).

Scope: the control flow of `factor` / `factor_impl` / `check_factors` (src/lib.rs) around the
sub-algorithms, which are oracle fields constrained by `OracleOK`
(Ymq/Lemmas/FactorOracle.lean). Panic sites covered: `assert!(n.bits() <= 64)` ×3,
`unreachable!("impossible")` ×2 (both shown dead), `n / d` with `d = 0`, `residue /= gcd` with `gcd = 0`,
`assert!(residue.is_one())`, `assert_eq!(n, p)` and `assert_eq!(*n, product)` in
`check_factors`; termination: every recursive call is on a proper divisor, so the recursion
depth is at most `bits n` (the model's `.fuel` outcome cannot occur with `fuel ≥ bits n`).
Panics inside the sub-algorithms themselves are the business of the other properties.
-/
import Ymq.Lemmas.FactorExample

namespace Ymq.C03
open Ymq.Factor

variable {σ : Type}

/-- **`factor_total`** (full statement, all ten selectors). Under the oracle contract, for every
`n` (inputs above 500 bits are refused with the declared failure), every selector whose size
precondition is met, every `prime` and `abort` behaviour and enough fuel: `factor` returns a list
(whose product is `n`) or the declared failure value — never a panic site of lib.rs, never fuel
exhaustion (= the recursion terminates, depth ≤ bits of the trial-divided value).
The size precondition (`SelectorPre`: Qs64/Rho/Squfof need at most 64 bits) and the fuel bound
are stated on the value AFTER trial division by the 46 small primes, exactly where lib.rs
asserts (`assert!(n.bits() <= 64)` in `factor_impl`): e.g. `2^10 · (64-bit composite)` with
selector Rho is inside the theorem. `factor_total_of_input` is the form with both bounds on `n`.

History: on the tree as given this statement was FALSE for selector `Rho`. When
`pollard_rho::rho` returned `None` on a composite, the `Algo::Rho` arm neither pushed nor
returned; control left the `match`, passed `prefs.abort()` and reached
`_ => unreachable!("impossible")`. The model of that tree had a proved counter-witness
(`rho_fallthrough_panics`: an `OracleOK` oracle with `factor … 188212 .rho = .panic _`) and only
`factor_total_partial` (extra hypothesis "rho never fails on a rejected number") was provable.
The defect was then reproduced on the real code (`factor(4611610225450740157, Algo::Rho)`
panicked) and repaired in /repo (`fix:` 21688e6: the arm pushes `n` and returns, like Squfof);
the model follows the code, and the full theorem replaces the partial one. -/
theorem factor_total (o : Oracle σ) (hok : OracleOK o) (fuel n : Nat) (alg : Algo) (os : σ)
    (hsel : SelectorPre alg (trialDivideBy 1100 Ymq.Gen.Primality.smallPrimes n []).1)
    (hfuel : bits (trialDivideBy 1100 Ymq.Gen.Primality.smallPrimes n []).1 ≤ fuel) :
    (∃ l, factor o fuel n alg os = .ok l ∧ l.prod = n) ∨ factor o fuel n alg os = .failure :=
  factor_total_aux hok fuel n alg os (by rw [trialDiv_def]; exact hsel)
    (by rw [trialDiv_def]; exact hfuel)

/-- corollary: both bounds on the input `n` itself (divisors are not longer than `n`) -/
theorem factor_total_of_input (o : Oracle σ) (hok : OracleOK o) (fuel n : Nat) (alg : Algo)
    (os : σ) (hsel : SelectorPre alg n) (hfuel : bits n ≤ fuel) :
    (∃ l, factor o fuel n alg os = .ok l ∧ l.prod = n) ∨ factor o fuel n alg os = .failure :=
  factor_total_aux hok fuel n alg os (pre_of_input hsel hfuel).1 (pre_of_input hsel hfuel).2

/-- **`factorImpl_total`**: the inner recursion — `factor_impl(n)` with `n ≥ 1` ends with `.ok`
under the same hypotheses (fuel `bits n` suffices: each recursive call is on a proper divisor). -/
theorem factorImpl_total (o : Oracle σ) (hok : OracleOK o) (fuel n : Nat) (alg : Algo)
    (s : St σ) (hn : 1 ≤ n) (hsel : SelectorPre alg n) (hfuel : bits n ≤ fuel) :
    ∃ s', factorImpl o fuel n alg s = .ok s' :=
  factorImpl_total_aux hok alg fuel n s hn hfuel hsel

/-! ### non-vacuity -/

open Ymq.Factor.Toy

/-- selector Rho, `rho` succeeding -/
example : (∃ l, factor toy 18 188212 .rho () = .ok l ∧ l.prod = 188212) ∨
    factor toy 18 188212 .rho () = .failure :=
  factor_total toy toy_ok 18 188212 .rho () (fun _ => by decide +kernel) (by decide +kernel)

example : factor toy 18 188212 .rho () = .ok [2, 2, 211, 223] := by decide +kernel

/-- selector Rho, `rho` FAILING on the composite 47053 (the former panic): now the composite is
left in the list … -/
example : factor toyNoRho 18 188212 .rho () = .ok [2, 2, 47053] := by decide +kernel

/-- … or, when it is alone, the declared failure is returned -/
example : factor toyNoRho 16 47053 .rho () = .failure := by decide +kernel

example : (∃ l, factor toyNoRho 16 47053 .rho () = .ok l ∧ l.prod = 47053) ∨
    factor toyNoRho 16 47053 .rho () = .failure :=
  factor_total toyNoRho toyNoRho_ok 16 47053 .rho () (fun _ => by decide +kernel)
    (by decide +kernel)

/-- reviewer's case: `2^10 · (63-bit composite)` with selector Rho has 73 bits — outside the
input-form precondition, inside `factor_total` (lib.rs asserts after trial division) -/
example : ¬ SelectorPre .rho (1024 * 4611610225450740157) ∧
    ((∃ l, factor toyNoRho 63 (1024 * 4611610225450740157) .rho () = .ok l ∧
        l.prod = 1024 * 4611610225450740157) ∨
      factor toyNoRho 63 (1024 * 4611610225450740157) .rho () = .failure) :=
  ⟨fun h => absurd (h (Or.inr (Or.inl rfl))) (by decide +kernel),
    factor_total toyNoRho toyNoRho_ok 63 _ .rho () (fun _ => by decide +kernel)
      (by decide +kernel)⟩

example : (∃ l, factor toy 18 188212 .siqs () = .ok l ∧ l.prod = 188212) ∨
    factor toy 18 188212 .siqs () = .failure :=
  factor_total_of_input toy toy_ok 18 188212 .siqs () (fun h => by simp at h) (by decide +kernel)

/-- the `.failure` disjunct through a sieve selector: a single composite left unsplit -/
example : factor toy 26 (211 * 211 * 223) .qs () = .failure := by decide +kernel

example : (∃ l, factor toy 18 188212 .siqs () = .ok l ∧ l.prod = 188212) ∨
    factor toy 18 188212 .siqs () = .failure :=
  factor_total toy toy_ok 18 188212 .siqs () (fun h => by simp at h) (by decide +kernel)

example : ∃ s', factorImpl toy 16 47053 .ecm (initSt () [2, 2]) = .ok s' :=
  factorImpl_total toy toy_ok 16 47053 .ecm _ (by decide) (fun h => by simp at h)
    (by decide +kernel)

example : ∃ s', factorImpl toyNoRho 16 47053 .rho (initSt () [2, 2]) = .ok s' :=
  factorImpl_total toyNoRho toyNoRho_ok 16 47053 .rho _ (by decide) (fun _ => by decide +kernel)
    (by decide +kernel)

end Ymq.C03
