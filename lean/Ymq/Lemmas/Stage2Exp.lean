/-
`exp_modn(g, e) = g^e` for every 64-bit exponent (C16): the 3-bit window loop on the bit-reversed
exponent.  Model: Ymq/Model/ExpModn.lean.
-/
import Ymq.Model.ExpModn
import Mathlib.Algebra.Group.Basic
import Mathlib.Algebra.Group.Defs
import Mathlib.Tactic.Ring
import Mathlib.Tactic.IntervalCases

namespace Ymq.ExpModn

/-! ### bit reversal -/

theorem revBits_lt : ∀ (k x : Nat), revBits k x < 2 ^ k
  | 0, _ => by simp [revBits]
  | k + 1, x => by
    have ih := revBits_lt k (x % 2 ^ k)
    have h2 : x / 2 ^ k % 2 < 2 := Nat.mod_lt _ (by decide)
    rw [revBits, pow_succ]; omega

theorem revBits_mod2 (k x : Nat) : revBits (k + 1) x % 2 = x / 2 ^ k % 2 := by
  rw [revBits]; omega

theorem revBits_div2 (k x : Nat) : revBits (k + 1) x / 2 = revBits k (x % 2 ^ k) := by
  rw [revBits]; omega

theorem mod_pow_mod (x k : Nat) : x % 2 ^ (k + 1) % 2 ^ k = x % 2 ^ k :=
  Nat.mod_mod_of_dvd _ ⟨2, by rw [pow_succ]⟩

/-- top bit and rest of a (k+1)-bit number -/
theorem top_split {k x : Nat} (hx : x < 2 ^ (k + 1)) :
    x / 2 ^ k < 2 ∧ x = 2 ^ k * (x / 2 ^ k) + x % 2 ^ k ∧ x % 2 ^ k < 2 ^ k := by
  refine ⟨?_, (Nat.div_add_mod x (2 ^ k)).symm, Nat.mod_lt _ (by positivity)⟩
  rw [Nat.div_lt_iff_lt_mul (by positivity), Nat.mul_comm]; rw [pow_succ] at hx; omega

/-! ### monoid identities used by the windows -/

section
variable {M : Type*} [CommMonoid M]

theorem win_id (r g : M) (c w k y : Nat) :
    (r ^ (2 ^ c) * g ^ w) ^ (2 ^ k) * g ^ y = r ^ (2 ^ (k + c)) * g ^ (2 ^ k * w + y) := by
  rw [mul_pow, ← pow_mul, ← pow_mul, mul_assoc, ← pow_add, ← pow_add, Nat.add_comm k c, Nat.mul_comm w]

theorem sq1 (r : M) : r * r = r ^ (2 ^ 1) := by rw [pow_one, pow_two]
theorem sq2 (r : M) : r * r * (r * r) = r ^ (2 ^ 2) := by
  rw [show (2 : Nat) ^ 2 = 4 from rfl, pow_succ, pow_succ, pow_succ, pow_one]; simp [mul_assoc]
theorem sq3 (r : M) : r * r * (r * r) * (r * r * (r * r)) = r ^ (2 ^ 3) := by
  rw [sq2, ← pow_two, ← pow_mul]; congr 1

/-- the loop: with `k` bits `x` left (reversed in `exprev`), `res ↦ res^(2^k) · g^x`. -/
theorem expLoop_spec (g : M) : ∀ (k : Nat), k ≤ 64 → ∀ (x : Nat), x < 2 ^ k → ∀ (res : M) (fuel : Nat), k < fuel →
    expLoop (· * ·) g (g ^ 3) (g ^ 5) (g ^ 7) fuel (revBits k x) (64 - k) res = some (res ^ (2 ^ k) * g ^ x) := by
  intro k
  induction k using Nat.strong_induction_on with
  | _ k ih =>
    intro hk x hx res fuel hfuel
    obtain ⟨f, rfl⟩ : ∃ f, fuel = f + 1 := ⟨fuel - 1, by omega⟩
    rw [expLoop]
    rcases k with _ | k1
    · -- no bit left
      have : x = 0 := by simpa using hx
      subst this
      simp
    · rw [if_neg (by omega)]
      obtain ⟨hb1, hsplit1, hx1⟩ := top_split hx
      have hi1 : 64 - (k1 + 1) + 1 = 64 - k1 := by omega
      have hmod2 := revBits_mod2 k1 x
      have hdiv2 := revBits_div2 k1 x
      rw [Nat.mod_eq_of_lt hb1] at hmod2
      have hb1' : x / 2 ^ k1 = 0 ∨ x / 2 ^ k1 = 1 := by omega
      rcases hb1' with hb | hb
      · -- leading bit 0: one squaring
        rw [hb] at hmod2 hsplit1
        rw [if_pos hmod2, hdiv2, hi1, ih k1 (by omega) (by omega) _ hx1 _ f (by omega)]
        have e : 2 ^ 1 * 2 ^ k1 = 2 ^ (k1 + 1) := by rw [pow_succ]; ring
        have hx' : x % 2 ^ k1 = x := by rw [Nat.mul_zero, Nat.zero_add] at hsplit1; exact hsplit1.symm
        rw [sq1, ← pow_mul, e, hx']
      · rw [hb] at hmod2 hsplit1
        rw [if_neg (by omega)]
        -- branch "1" (consume one bit) is always sound; used when the next window is not taken
        have branch1 : expLoop (· * ·) g (g ^ 3) (g ^ 5) (g ^ 7) f (revBits (k1 + 1) x / 2) (64 - (k1 + 1) + 1) (res * res * g) =
            some (res ^ 2 ^ (k1 + 1) * g ^ x) := by
          rw [hdiv2, hi1, ih k1 (by omega) (by omega) _ hx1 _ f (by omega)]
          have := win_id res g 1 1 k1 (x % 2 ^ k1)
          rw [pow_one g] at this
          rw [sq1, this, ← hsplit1]
        rcases k1 with _ | k2
        · -- k = 1: exprev = 1
          have h8 : revBits (0 + 1) x % 8 = 1 := by
            have := revBits_lt (0 + 1) x
            simp only [Nat.zero_add, pow_one] at this hmod2 ⊢
            omega
          simp only [h8]
          exact branch1
        · obtain ⟨hb2, hsplit2, hx2⟩ := top_split hx1
          have hmod2' := revBits_mod2 k2 (x % 2 ^ (k2 + 1))
          have hdiv2' := revBits_div2 k2 (x % 2 ^ (k2 + 1))
          rw [Nat.mod_eq_of_lt hb2] at hmod2'
          rw [mod_pow_mod] at hdiv2' hsplit2 hx2
          have hdiv4 : revBits (k2 + 1 + 1) x / 4 = revBits k2 (x % 2 ^ k2) := by
            rw [show (4 : Nat) = 2 * 2 from rfl, ← Nat.div_div_eq_div_mul, hdiv2, hdiv2']
          have hi2 : 64 - (k2 + 1 + 1) + 2 = 64 - k2 := by omega
          have hb2' : x % 2 ^ (k2 + 1) / 2 ^ k2 = 0 ∨ x % 2 ^ (k2 + 1) / 2 ^ k2 = 1 := by omega
          -- value of exprev modulo 4
          have hm4 : revBits (k2 + 1 + 1) x % 4 = 1 + 2 * (x % 2 ^ (k2 + 1) / 2 ^ k2) := by
            have := Nat.div_add_mod (revBits (k2 + 1 + 1) x) 2
            have h3 := Nat.div_add_mod (revBits (k2 + 1) (x % 2 ^ (k2 + 1))) 2
            rw [hdiv2] at this
            omega
          rcases k2 with _ | k3
          · -- k = 2: exprev < 4
            have hlt : revBits (0 + 1 + 1) x < 4 := revBits_lt 2 x
            rcases hb2' with hb' | hb'
            · have h8 : revBits (0 + 1 + 1) x % 8 = 1 := by rw [hb'] at hm4; omega
              simp only [h8]
              exact branch1
            · have h8 : revBits (0 + 1 + 1) x % 8 = 3 := by rw [hb'] at hm4; omega
              simp only [h8]
              rw [hdiv4, hi2, ih 0 (by omega) (by omega) _ hx2 _ f (by omega)]
              have := win_id res g 2 3 0 (x % 2 ^ 0)
              rw [sq2, this]
              have hx' : 2 ^ 0 * 3 + x % 2 ^ 0 = x := by
                rw [hb'] at hsplit2
                simp only [Nat.zero_add, pow_zero, pow_one, Nat.mul_one, Nat.one_mul] at hsplit1 hsplit2 ⊢
                omega
              rw [hx']
          · obtain ⟨hb3, hsplit3, hx3⟩ := top_split hx2
            have hmod2'' := revBits_mod2 k3 (x % 2 ^ (k3 + 1))
            have hdiv2'' := revBits_div2 k3 (x % 2 ^ (k3 + 1))
            rw [Nat.mod_eq_of_lt hb3] at hmod2''
            rw [mod_pow_mod] at hdiv2'' hsplit3 hx3
            have hdiv8 : revBits (k3 + 1 + 1 + 1) x / 8 = revBits k3 (x % 2 ^ k3) := by
              rw [show (8 : Nat) = 4 * 2 from rfl, ← Nat.div_div_eq_div_mul, hdiv4, hdiv2'']
            have hi3 : 64 - (k3 + 1 + 1 + 1) + 3 = 64 - k3 := by omega
            have hb3' : x % 2 ^ (k3 + 1) / 2 ^ k3 = 0 ∨ x % 2 ^ (k3 + 1) / 2 ^ k3 = 1 := by omega
            have hm8 : revBits (k3 + 1 + 1 + 1) x % 8 =
                1 + 2 * (x % 2 ^ (k3 + 1 + 1) / 2 ^ (k3 + 1)) + 4 * (x % 2 ^ (k3 + 1) / 2 ^ k3) := by
              have h1 := Nat.div_add_mod (revBits (k3 + 1 + 1 + 1) x) 4
              have h3 : revBits (k3 + 1 + 1 + 1) x / 4 = revBits (k3 + 1) (x % 2 ^ (k3 + 1)) := hdiv4
              have h4 : revBits (k3 + 1) (x % 2 ^ (k3 + 1)) % 2 = x % 2 ^ (k3 + 1) / 2 ^ k3 := hmod2''
              rw [h3] at h1
              omega
            have p2 : (2 : Nat) ^ (k3 + 1 + 1) = 4 * 2 ^ k3 := by rw [pow_succ, pow_succ]; ring
            have p3 : (2 : Nat) ^ (k3 + 1) = 2 * 2 ^ k3 := by rw [pow_succ]; ring
            -- x in terms of its three leading bits
            have hx' : ∀ b2 b3, x % 2 ^ (k3 + 1 + 1) / 2 ^ (k3 + 1) = b2 → x % 2 ^ (k3 + 1) / 2 ^ k3 = b3 →
                2 ^ k3 * (4 + 2 * b2 + b3) + x % 2 ^ k3 = x := by
              intro b2 b3 e2 e3
              rw [e2] at hsplit2; rw [e3] at hsplit3
              generalize x % 2 ^ (k3 + 1 + 1) = m2 at hsplit1 hsplit2
              generalize x % 2 ^ (k3 + 1) = m1 at hsplit2 hsplit3
              generalize x % 2 ^ k3 = m0 at hsplit3 ⊢
              rw [p2] at hsplit1; rw [p3] at hsplit2
              rw [hsplit1, hsplit2, hsplit3]; ring
            rcases hb2' with hb' | hb' <;> rcases hb3' with hb'' | hb''
            · -- bits 1 0 0
              have h8 : revBits (k3 + 1 + 1 + 1) x % 8 = 1 := by rw [hm8, hb', hb'']
              simp only [h8]
              exact branch1
            · -- bits 1 0 1 : window 5
              have h8 : revBits (k3 + 1 + 1 + 1) x % 8 = 5 := by rw [hm8, hb', hb'']
              simp only [h8]
              rw [hdiv8, hi3, ih k3 (by omega) (by omega) _ hx3 _ f (by omega)]
              have := win_id res g 3 5 k3 (x % 2 ^ k3)
              rw [sq3, this, show k3 + 3 = k3 + 1 + 1 + 1 from rfl]
              have := hx' 0 1 hb' hb''
              rw [show 4 + 2 * 0 + 1 = 5 from rfl] at this
              rw [this]
            · -- bits 1 1 0 : window 3
              have h8 : revBits (k3 + 1 + 1 + 1) x % 8 = 3 := by rw [hm8, hb', hb'']
              simp only [h8]
              rw [hdiv4, hi2, ih (k3 + 1) (by omega) (by omega) _ hx2 _ f (by omega)]
              have := win_id res g 2 3 (k3 + 1) (x % 2 ^ (k3 + 1))
              rw [sq2, this, show k3 + 1 + 2 = k3 + 1 + 1 + 1 from rfl]
              have h1 := hx' 1 0 hb' hb''
              have h2 : 2 ^ (k3 + 1) * 3 + x % 2 ^ (k3 + 1) = x := by
                rw [hb''] at hsplit3
                generalize x % 2 ^ (k3 + 1) = m1 at hsplit3 ⊢
                generalize x % 2 ^ k3 = m0 at hsplit3 h1
                rw [p3, hsplit3, ← h1]; ring
              rw [h2]
            · -- bits 1 1 1 : window 7
              have h8 : revBits (k3 + 1 + 1 + 1) x % 8 = 7 := by rw [hm8, hb', hb'']
              simp only [h8]
              rw [hdiv8, hi3, ih k3 (by omega) (by omega) _ hx3 _ f (by omega)]
              have := win_id res g 3 7 k3 (x % 2 ^ k3)
              rw [sq3, this, show k3 + 3 = k3 + 1 + 1 + 1 from rfl]
              have := hx' 1 1 hb' hb''
              rw [show 4 + 2 * 1 + 1 = 7 from rfl] at this
              rw [this]

/-- `trailing_zeros` + shift of the reversed exponent = dropping the leading zeros of the exponent -/
theorem stripZeros_spec : ∀ (k x i fuel : Nat), x < 2 ^ k → x ≠ 0 → k ≤ fuel →
    ∃ k', 1 ≤ k' ∧ k' ≤ k ∧ x < 2 ^ k' ∧ revBits k' x % 2 = 1 ∧
      stripZeros fuel (revBits k x) i = (revBits k' x, i + (k - k'))
  | 0, x, _, _, hx, hx0, _ => by simp at hx; omega
  | k1 + 1, x, i, fuel, hx, hx0, hf => by
    obtain ⟨f, rfl⟩ : ∃ f, fuel = f + 1 := ⟨fuel - 1, by omega⟩
    obtain ⟨hb1, hsplit1, hx1⟩ := top_split hx
    have hmod2 := revBits_mod2 k1 x
    rw [Nat.mod_eq_of_lt hb1] at hmod2
    have hb : x / 2 ^ k1 = 0 ∨ x / 2 ^ k1 = 1 := by omega
    rw [stripZeros]
    rcases hb with hb | hb
    · rw [hb] at hmod2 hsplit1
      have hxe : x % 2 ^ k1 = x := by rw [Nat.mul_zero, Nat.zero_add] at hsplit1; exact hsplit1.symm
      rw [if_neg (by omega), revBits_div2, hxe]
      obtain ⟨k', h1, h2, h3, h4, h5⟩ := stripZeros_spec k1 x (i + 1) f (by rw [← hxe]; exact hx1) hx0 (by omega)
      exact ⟨k', h1, by omega, h3, h4, by rw [h5]; congr 1; omega⟩
    · rw [hb] at hmod2
      rw [if_pos hmod2]
      exact ⟨k1 + 1, by omega, Nat.le_refl _, hx, hmod2, by simp⟩

theorem expModn_eq (g : M) (e : Nat) (he : e < 2 ^ 64) : expModn (· * ·) 1 g e = some (g ^ e) := by
  unfold expModn
  by_cases h0 : e = 0
  · subst h0; simp
  · rw [if_neg h0]
    obtain ⟨k', hk1, hk2, hlt, hodd, hstrip⟩ := stripZeros_spec 64 e 0 64 he h0 (Nat.le_refl _)
    have e3 : g * (g * g) = g ^ 3 := by rw [pow_succ, pow_two, mul_comm]
    have e5 : g ^ 3 * (g * g) = g ^ 5 := by rw [← pow_two, ← pow_add]
    have e7 : g ^ 5 * (g * g) = g ^ 7 := by rw [← pow_two, ← pow_add]
    simp only [hstrip, e3, e5, e7, Nat.zero_add]
    have hR8 := Nat.mod_lt (revBits k' e) (show 0 < 8 by decide)
    have hR82 : revBits k' e % 8 % 2 = revBits k' e % 2 := Nat.mod_mod_of_dvd _ ⟨4, rfl⟩
    -- what the loop does from the same position with accumulator 1
    have A66 := expLoop_spec g k' hk2 e hlt 1 (65 + 1) (by omega)
    have A67 := expLoop_spec g k' hk2 e hlt 1 (65 + 1 + 1) (by omega)
    rw [expLoop, if_neg (by omega), if_neg (by omega)] at A66 A67
    simp only [one_pow, one_mul] at A66 A67
    have hcases : revBits k' e % 8 = 1 ∨ revBits k' e % 8 = 3 ∨ revBits k' e % 8 = 5 ∨ revBits k' e % 8 = 7 := by
      omega
    rcases hcases with h8 | h8 | h8 | h8
    · simp only [h8] at A66 A67 ⊢
      by_cases hi : 64 - k' > 60
      · rw [if_pos hi]
        simpa using A66
      · rw [if_neg hi]
        -- the loop squares once more: next reversed bit is 0
        have hev : revBits k' e / 2 % 2 = 0 := by omega
        rw [expLoop, if_neg (by omega), if_pos hev] at A67
        have e4 : revBits k' e / 2 ^ 2 = revBits k' e / 2 / 2 := by
          rw [Nat.div_div_eq_div_mul]; rfl
        simp only [e4]
        simpa [Nat.add_assoc] using A67
    · simp only [h8] at A66 ⊢
      simpa using A66
    · simp only [h8] at A66 ⊢
      simpa using A66
    · simp only [h8] at A66 ⊢
      simpa using A66

end

end Ymq.ExpModn
